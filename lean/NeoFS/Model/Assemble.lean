import NeoFS.Gen.Arith
import NeoFS.Model.EC
/-!
Model of the read side of the object GET service (`pkg/services/object/get`): assembly of size-split
objects (`assemble.go`, `assembly_v2.go`) and of erasure-coded objects (`ec.go`), full reads and range
reads, as functions on byte lists.

What is a parameter here:
* reading a *stored* object (a split child, an EC part) through the local storage is `readPhys`: the
  whole payload, or the slice `PayloadRange.Resolve` (micro-translated `Gen.resolve`) denotes — this is what
  property C11 proves about the storage layers;
* Reed–Solomon reconstruction never appears: a part that is recovered from the others equals the original
  part (`Coder.Lawful`, property C21), so the model reads the data parts and only decides *whether*
  recovery is possible. `Props/C23.lean` states that link explicitly.

The children of a split object are the list `cs` of their payloads in order; ids, headers, the `previous`
links and the link object's child list are positions in that list (`walkBack` models the id-level walk).
Integers are `Nat`; `% 2^64` appears where the code adds an offset and a length before checking them.
-/
namespace NeoFS.Assemble
open NeoFS.EC

inductive Err
  | outOfRange | notFound | other
  deriving DecidableEq, Repr

abbrev Bytes := List Nat
abbrev Res := Except Err Bytes

def M64 : Nat := 18446744073709551616

/-- the bytes `[off, off+ln)` of `b` -/
def slice (b : Bytes) (off ln : Nat) : Bytes := (b.drop off).take ln

/-- `PayloadRange.Resolve` (micro-translated from the source) with its error mapped to the enum -/
def resolve (mode first second n : Nat) : Except Err (Nat × Nat) :=
  match Gen.resolve first mode second n with
  | .ok (o, l) => .ok (o.toNat, l.toNat)
  | .error e => .error (if e = "ErrObjectOutOfRange" then .outOfRange else .other)

/-- reading a stored object: whole (`nil` range) or `NewPayloadRange(off, ln)` — a zero length means the
whole payload when the offset is zero and is unsatisfiable otherwise (`Resolve`, mode offset+length) -/
def readPhys (c : Bytes) : Option (Nat × Nat) → Res
  | none => .ok c
  | some (off, ln) =>
    match resolve 1 off ln c.length with
    | .error e => .error e
    | .ok (o, l) => .ok (slice c o l)

/-- copy a list of reads in order into the response; the first error ends the copy -/
def copyAll : List Res → Res
  | [] => .ok []
  | r :: rest =>
    match r with
    | .error e => .error e
    | .ok b =>
      match copyAll rest with
      | .error e => .error e
      | .ok bs => .ok (b ++ bs)

/-- the out-of-range guards of the assembly paths, micro-translated from the source (`Gen/Arith.lean`):
`seekTo < seekOff || parSize < seekOff || parSize < seekTo` with `seekTo = seekOff + seekLen` in 64 bits
(`processV2Link`, `initFromChild`) and `off >= pldLen || pldLen-off < ln` (`copyECObjectRangeByParts`) -/
def guardV2 (off ln n : Nat) : Bool := Gen.v2LinkRangeGuard off ((off + ln) % M64 : Nat) n
def guardV1 (off ln n : Nat) : Bool := Gen.v1RangeGuard off ((off + ln) % M64 : Nat) n
def guardEC (off ln n : Nat) : Bool := Gen.ecRangeGuard off ln n

/-! ### `requiredChildrenIter` (assembly_v2.go)

The loop over `(index, size)` pairs, as structural recursion over the sizes. `rcLast` is the loop from
the iteration in which the first child was found: it looks for the child where the right bound falls and
returns its index *relative to the first child* and the right bound inside it. -/

def rcLast (right : Nat) : List Nat → Nat → Option (Nat × Nat)
  | [], _ => none
  | size :: rest, seen =>
    let seen' := seen + size
    if right ≤ seen' then some (0, size - (seen' - right))
    else (rcLast right rest seen').map fun (i, b) => (i + 1, b)

/-- returns (first index, offset in the first child, `rcLast` from that child on) -/
def rcFirst (left right : Nat) : List Nat → Nat → Option (Nat × Nat × Option (Nat × Nat))
  | [], _ => none
  | size :: rest, seen =>
    let seen' := seen + size
    if seen' ≤ left then (rcFirst left right rest seen').map fun (i, fo, l) => (i + 1, fo, l)
    else some (0, size - (seen' - left), rcLast right (size :: rest) seen)

/-- `(firstChildIndex, firstChildOffset, lastChildIndex, lastChildRightBound)`; `none` is Go's `-1`.
When the loop ends without `break` the last index and bound stay 0. -/
def requiredChildren (off ln : Nat) (sizes : List Nat) : Option Nat × Nat × Nat × Nat :=
  match rcFirst off (off + ln) sizes 0 with
  | none => (none, 0, 0, 0)
  | some (f, fo, none) => (some f, fo, 0, 0)
  | some (f, fo, some (l, lb)) => (some f, fo, f + l, lb)

/-! ### copying a window of children: the first from an offset, the last up to a bound

`rd c r` reads child `c` with range `r`. `mid c` is the range used for a child strictly inside the
window: `nil` (whole child) in `rangeFromLink`, an explicit `(0, size)` for EC parts and for EC-coded
children. -/

def readRest (rd : α → Option (Nat × Nat) → Res) (mid : α → Option (Nat × Nat)) : List α → Nat → Nat → List Res
  | [], _, _ => [.error .other]                       -- index out of range: a panic in Go
  | c :: _, 0, lb => [rd c (some (0, lb))]
  | c :: rest, l + 1, lb => rd c (mid c) :: readRest rd mid rest l lb

/-- the window starts at the head of the list -/
def readFrom (rd : α → Option (Nat × Nat) → Res) (mid : α → Option (Nat × Nat)) (size : α → Nat) :
    List α → Nat → Nat → Nat → List Res
  | [], _, _, _ => [.error .other]
  | c :: _, fo, 0, lb => [rd c (some (fo, lb - fo))]
  | c :: rest, fo, l + 1, lb => rd c (some (fo, size c - fo)) :: readRest rd mid rest l lb

/-- children `first..last` (absolute indexes); `last < first` copies nothing (`n = last-first+1 ≤ 0`) -/
def readWindow (rd : α → Option (Nat × Nat) → Res) (mid : α → Option (Nat × Nat)) (size : α → Nat)
    (cs : List α) (first fo last lb : Nat) : Res :=
  if last < first then .ok [] else copyAll (readFrom rd mid size (cs.drop first) fo (last - first) lb)

/-! ### size-split objects stored whole (replicated containers) -/

def total (cs : List Bytes) : Nat := cs.flatten.length

/-- `overtakePayloadDirectly` without ranges: every child whole, in order -/
def readAll (cs : List Bytes) : Res := copyAll (cs.map fun c => readPhys c none)

/-- `rangeFromLink`: the children listed by the link object with their sizes -/
def rangeFromLink (cs : List Bytes) (off ln : Nat) : Res :=
  match requiredChildren off ln (cs.map List.length) with
  | (none, _, _, _) => .error .other                 -- children[-1]
  | (some first, fo, last, lb) => readWindow readPhys (fun _ => none) List.length cs first fo last lb

/-- `processV2Link` after the link object has been read -/
def v2Link (cs : List Bytes) (mode first second : Nat) : Res :=
  let n := total cs
  if mode = 0 then readAll cs
  else
    match resolve mode first second n with
    | .error e => .error e
    | .ok (off, ln) =>
      let seekLen := if ln = 0 then n else ln
      if guardV2 off seekLen n then .error .outOfRange
      else rangeFromLink cs off ln

/-- `buildChainInReverse` for a range request over the children met from the last one backwards;
`curOff` is the payload offset just after the head of the list. Yields (child, offset, length). -/
def buildChain (frm to : Nat) : List Bytes → Nat → List (Bytes × Nat × Nat)
  | [], _ => []
  | c :: rest, curOff =>
    if curOff ≤ frm then []
    else
      let sz := c.length
      let cur := curOff - sz
      let here :=
        if cur < to then
          let off := if frm > cur then frm - cur else 0
          let sz1 := if frm > cur then sz - (frm - cur) else sz
          let sz2 := if to < cur + off + sz1 then to - off - cur else sz1
          [(c, off, sz2)]
        else []
      here ++ buildChain frm to rest cur

/-- `overtakePayloadInReverse` for a range: the chain is reversed and copied with its ranges -/
def copyChain (chain : List (Bytes × Nat × Nat)) : Res :=
  copyAll (chain.reverse.map fun (c, off, sz) => readPhys c (some (off, sz)))

/-- `processV2Last` (no usable link object): walk back from the last part; the walk starts at the parent's
payload size (repaired code) -/
def v2Last (cs : List Bytes) (mode first second : Nat) : Res :=
  let n := total cs
  if mode = 0 then readAll cs                        -- the whole chain reversed back into order
  else
    match resolve mode first second n with
    | .error e => .error e
    | .ok (off, ln) => copyChain (buildChain off (off + ln) cs.reverse n)

/-- the range block of `initFromChild`: the walk-back start and the range inside the child the assembly
started from (`childSize` is that child's payload size; 0 for a V1 link object) -/
def initFromChild (n childSize off ln : Nat) : Except Err (Nat × Nat × Nat) :=
  let seekLen := if ln = 0 then (n + M64 - off) % M64 else ln
  if guardV1 off seekLen n then .error .outOfRange
  else
    let startRight := n - childSize
    let frm := if startRight < off then off - startRight else 0
    let to := if off + seekLen > startRight + frm then min (off + seekLen - startRight) childSize else 0
    let segLen := if to > frm then to - frm else 0
    .ok (startRight, if segLen > 0 then (frm, segLen) else (0, 0))

/-- V1 split (`assemble`, split id present). With the link object the chain is the link's child list and
the object the assembly started from is the link itself (empty payload); without it that object is the last
part and the chain is what `previous` ids lead to. The range of the starting object is copied only when it
is not empty (repaired code). -/
def v1 (cs : List Bytes) (link : Bool) (mode first second : Nat) : Res :=
  let n := total cs
  let lastObj : Bytes := if link then [] else cs.getLast?.getD []
  let chainSrc : List Bytes := if link then cs else cs.dropLast
  if mode = 0 then
    if link then readAll cs
    else copyAll [readAll chainSrc, readPhys lastObj none]
  else
    match resolve mode first second n with
    | .error e => .error e
    | .ok (off, ln) =>
      match initFromChild n lastObj.length off ln with
      | .error e => .error e
      | .ok (startRight, lastRange) =>
        let body := copyChain (buildChain off (off + ln) chainSrc.reverse startRight)
        let tail : Res := if lastRange.2 = 0 then .ok [] else readPhys lastObj (some lastRange)
        copyAll [body, tail]

/-! ### walking the `previous` ids (no link object) -/

structure Part where
  prev : Option Nat
  payload : Bytes

/-- follow `previous` ids from `id`; `fuel` bounds the walk (the Go loop has no bound: a cyclic chain of
headers never ends) -/
def walkBack (store : Nat → Option Part) : Nat → Nat → List Bytes
  | 0, _ => []
  | fuel + 1, id =>
    match store id with
    | none => []
    | some p =>
      match p.prev with
      | none => [p.payload]
      | some q => p.payload :: walkBack store fuel q

/-! ### erasure-coded objects -/

structure ECObj where
  d : Nat
  p : Nat
  payload : Bytes
  present : List Bool
  deriving Repr

def ECObj.avail (o : ECObj) (i : Nat) : Bool := o.present.getD i false
def ECObj.missIn (o : ECObj) (lo hi : Nat) : Nat := ((List.range hi).drop lo).countP fun i => !o.avail i
def ECObj.nAvail (o : ECObj) : Nat := (List.range (o.d + o.p)).countP fun i => o.avail i
def ECObj.part (o : ECObj) (i : Nat) : Bytes := (dataParts o.payload o.d).getD i []

/-- `restoreFromECPartsByRule` + `copyECObject` for one object (repaired code: the header may come from a
parity part). Unavailable parts beyond the parity budget end in "not found". For an empty payload with more
than `p` but not all data parts unavailable the Go code races between the first header and the failure
counter; the model answers "not found" there and the generator avoids that case. -/
def ecGet (o : ECObj) : Res :=
  let missD := o.missIn 0 o.d
  let missP := o.missIn o.d (o.d + o.p)
  if o.payload.length = 0 then
    if missD = 0 then .ok []
    else if missD > o.p then .error .notFound
    else if missD < o.d then .ok []
    else if missP + missD > o.p then .error .notFound else .ok []
  else if missD > o.p then .error .notFound
  else if missD = 0 then .ok (concatDataParts o.d o.payload.length (dataParts o.payload o.d))
  else if missP + missD > o.p then .error .notFound
  else .ok o.payload                                  -- `iec.Decode` (C21 `decode_any_subset`)

/-- the data parts of an object with their availability; the window of a range never reaches the parity
parts (the guard keeps `off+ln` inside the payload) -/
def ECObj.slots (o : ECObj) : List (Bool × Bytes) :=
  List.zip ((List.range o.d).map o.avail) (dataParts o.payload o.d)

/-- recovery in `copyECObjectRangeByParts`: from the failed part on, the reconstructed (or re-read) full
parts are sliced directly, `parts[partIdx][from:to]`; the failed part becomes the first one -/
def recAll (per : Nat) : List (Bool × Bytes) → Nat → Nat → List Res
  | [], _, _ => [.error .other]
  | (_, c) :: _, 0, lb => [.ok (c.take lb)]
  | (_, c) :: rest, l + 1, lb => .ok (c.take per) :: recAll per rest l lb

/-- `copyECPartsRanges` after the first part of the window: available parts are range-read one by one, the
first unavailable one switches to recovery (possible iff at least `d` parts are available: `enough`) -/
def ecRest (enough : Bool) (per : Nat) : List (Bool × Bytes) → Nat → Nat → List Res
  | [], _, _ => [.error .other]
  | (a, c) :: rest, l, lb =>
    if a then
      match l with
      | 0 => [readPhys c (some (0, lb))]
      | l + 1 => readPhys c (some (0, per)) :: ecRest enough per rest l lb
    else if enough then recAll per ((a, c) :: rest) l lb
    else [.error .notFound]

/-- the window starts at the head of the list: first part from `fo`, last part (relative index `l`) up to `lb` -/
def ecFrom (enough : Bool) (per : Nat) : List (Bool × Bytes) → Nat → Nat → Nat → List Res
  | [], _, _, _ => [.error .other]
  | (a, c) :: rest, fo, l, lb =>
    if a then
      match l with
      | 0 => [readPhys c (some (fo, lb - fo))]
      | l + 1 => readPhys c (some (fo, per - fo)) :: ecRest enough per rest l lb
    else if enough then
      match l with
      | 0 => [.ok ((c.take lb).drop fo)]
      | l + 1 => .ok ((c.take per).drop fo) :: recAll per rest l lb
    else [.error .notFound]

/-- `copyECObjectRangeByParts`: `(0, 0)` is the full payload -/
def ecRangeByParts (o : ECObj) (off ln : Nat) : Res :=
  let n := o.payload.length
  if n = 0 then .ok []
  else
    let per := perShard n o.d
    let tot := o.d + o.p
    let enough := decide (o.d ≤ o.nAvail)
    if ln = 0 ∧ off = 0 then
      copyAll (ecFrom enough per o.slots 0 (o.d - 1) (if n % per = 0 then per else n % per))
    else if guardEC off ln n then .error .outOfRange
    else
      match requiredChildren off ln (List.replicate tot per) with
      | (none, _, _, _) => .error .other
      | (some first, fo, last, lb) =>
        if last < first then .ok [] else copyAll (ecFrom enough per (o.slots.drop first) fo (last - first) lb)

/-- errors other than out-of-range end in "not found" once every rule has been tried -/
def ecErr : Res → Res
  | .error .outOfRange => .error .outOfRange
  | .error _ => .error .notFound
  | r => r

/-- `copyECObjectRange` for an object that is not size-split (repaired code: any available part delivers
the parent header) -/
def ecRange (o : ECObj) (mode first second : Nat) : Res :=
  if o.nAvail = 0 then .error .notFound
  else
    match resolve mode first second o.payload.length with
    | .error e => .error e
    | .ok (off, ln) => ecErr (ecRangeByParts o off ln)

def ecRead (o : ECObj) (mode first second : Nat) : Res :=
  if mode = 0 then ecGet o else ecRange o mode first second

/-! ### size-split objects whose children are erasure-coded (V2 only) -/

def totalEC (os : List ECObj) : Nat := (os.map fun o => o.payload.length).sum

/-- a child is known (its header can be read) iff some part of it is available -/
def known (o : ECObj) : Bool := decide (0 < o.nAvail)

/-- `copySizeSplitECObjectByParts`: every child restored and written in order -/
def splitEcGet (os : List ECObj) : Res := ecErr (copyAll (os.map ecGet))

def ecChildRange (o : ECObj) (r : Option (Nat × Nat)) : Res :=
  match r with
  | none => .error .other
  | some (off, ln) => ecRangeByParts o off ln

/-- `copySplitECObjectRangeByParts` -/
def splitEcWindow (os : List ECObj) (first fo last lb : Nat) : Res :=
  ecErr (readWindow ecChildRange (fun o => some (0, o.payload.length)) (fun o => o.payload.length) os first fo last lb)

/-- `copySplitECObjectRangeByLinker` (the link object is stored whole and lists the children sizes) -/
def splitEcRangeLink (os : List ECObj) (mode first second : Nat) : Res :=
  let n := totalEC os
  match resolve mode first second n with
  | .error e => .error e
  | .ok (off, ln) =>
    if ln = 0 ∧ off = 0 then
      if n = 0 then .ok [] else splitEcWindow os 0 0 (os.length - 1) ((os.getLast?.map fun o => o.payload.length).getD 0)
    else if off ≥ n ∨ n - off < ln then .error .outOfRange
    else
      match requiredChildren off ln (os.map fun o => o.payload.length) with
      | (none, _, _, _) => .error .other
      | (some f, fo, l, lb) => splitEcWindow os f fo l lb

/-- the walk of `copySplitECObjectRangeByInfo` from the last child backwards: collects the children that
overlap `[off, to)` (in reverse), the right bound in the last of them and the offset in the first.
`none`: a header on the way is unknown. -/
def infoWalk (off to : Nat) : List ECObj → Nat → List ECObj → Nat → Option (List ECObj × Nat × Nat)
  | [], _, _, _ => none                                -- `previous` is zero: header lookup of a zero id fails
  | o :: rest, rightBound, acc, lastTo =>
    if !known o then none
    else
      let rb := rightBound - o.payload.length
      if rb < to then
        let lastTo' := if acc.isEmpty then to - rb else lastTo
        if off ≥ rb then some (o :: acc, off - rb, lastTo')
        else infoWalk off to rest rb (o :: acc) lastTo'
      else infoWalk off to rest rb acc lastTo

def splitEcRangeInfo (os : List ECObj) (mode first second : Nat) : Res :=
  let n := totalEC os
  match os.getLast? with
  | none => .error .notFound
  | some lastO =>
    if !known lastO then .error .notFound
    else
      match resolve mode first second n with
      | .error e => .error e
      | .ok (off, ln) =>
        let full := decide (ln = 0 ∧ off = 0)
        if full && n = 0 then .ok []
        else if !full && (off ≥ n || n - off < ln) then .error .outOfRange
        else
          let to := if full then n else off + ln
          match infoWalk off to os.reverse n [] 0 with
          | none => .error .notFound
          | some (touched, fo, lastTo) => splitEcWindow touched 0 fo (touched.length - 1) lastTo

def splitEcRead (os : List ECObj) (link : Bool) (mode first second : Nat) : Res :=
  if mode = 0 then
    -- without the link object the root is resolved through the last child and every header on the way
    if link then splitEcGet os
    else if os.all known then splitEcGet os else .error .notFound
  else if link then splitEcRangeLink os mode first second
  else splitEcRangeInfo os mode first second

/-! ### stored whole -/

def readWhole (pl : Bytes) (mode first second : Nat) : Res :=
  if mode = 0 then .ok pl
  else
    match resolve mode first second pl.length with
    | .error e => .error e
    | .ok (off, ln) => .ok (slice pl off ln)

/-- cut a payload into children of the given sizes -/
def cutBy : List Nat → Bytes → List Bytes
  | [], _ => []
  | s :: rest, b => b.take s :: cutBy rest (b.drop s)

end NeoFS.Assemble
