/-
Model of the inner ring's container processor approval decision
(pkg/innerring/processors/container: process_container.go, process_eacl.go, common.go).

Everything that is bytes in the code is abstract here:
  * keys are numbers, the user id derived from a key is `Crypto.userOf`;
  * signatures are values of a parameter type `σ`, checked by the ideal scheme `Crypto.verify`
    (ECDSA) and by the chain's answer `Crypto.n3` (N3 witnesses run on the FS chain);
  * `Data` names WHICH bytes are verified: the request's signed payload (container bytes /
    container id / eACL table / attribute parameters) or the signed body of the i-th token of
    a delegation chain.
Container ids are numbers, `0` is the zero id (wildcard in tokens, "not set" in requests).
The SDK's token validation (`sessionv2.Token.Validate`, `AssertContainer`, `session.Container`
accessors) is transcribed because the decision depends on it; it is tied by the correspondence
run only.  Core Lean only.
-/
namespace NeoFS.IRContainer

abbrev Key := Nat
abbrev User := Nat   -- 0 = zero user id
abbrev Cid := Nat    -- 0 = zero container id

/-- the five operations of the container contract the processor approves -/
inductive Kind | put | delete | setEACL | setAttr | rmAttr
  deriving DecidableEq, Repr

/-- `session.ContainerVerb` numbering (V1 tokens) -/
def Kind.v1 : Kind → Nat
  | .put => 1 | .delete => 2 | .setEACL => 3 | .setAttr => 4 | .rmAttr => 5

/-- `sessionv2.Verb` numbering (V2 tokens) -/
def Kind.v2 : Kind → Nat
  | .put => 8 | .delete => 9 | .setEACL => 10 | .setAttr => 11 | .rmAttr => 12

/-- verification script of a witness: a compressed ECDSA public key, or any other script
    (`other 0` is the empty script of the legacy `delete` notification) -/
inductive VScript | key (k : Key) | other (n : Nat)
  deriving DecidableEq, Repr

/-- which bytes a signature is checked against -/
inductive Data | request | token (depth : Nat)
  deriving DecidableEq, Repr

/-- The cryptography the processor relies on, as a parameter (no laws are needed: the
    theorems are stated through `verify`/`n3` themselves). -/
structure Crypto (σ : Type) where
  /-- ideal ECDSA verification of a signature value by a key over the named data -/
  verify : Key → Data → σ → Bool
  /-- `user.NewFromECDSAPublicKey` -/
  userOf : Key → User
  /-- the FS chain's answer to running invocation+verification scripts for an account -/
  n3 : User → Data → σ → VScript → Bool

/-- `neofscrypto.Signature` attached to a token: missing, ECDSA (public key bytes may fail to
    decode), N3 witness, or a scheme the node does not support -/
inductive TSig (σ : Type)
  | none
  | ecdsa (k : Option Key) (s : σ)
  | n3 (vs : VScript) (s : σ)
  | unsupported

/-- `icrypto.AuthenticateToken` / one level of `AuthenticateTokenV2` -/
def authToken {σ} (C : Crypto σ) (issuer : User) (d : Data) : TSig σ → Bool
  | .none => false
  | .unsupported => false
  | .ecdsa none _ => false
  | .ecdsa (some k) s => issuer != 0 && C.verify k d s && C.userOf k == issuer
  | .n3 vs s => issuer != 0 && C.n3 issuer d s vs

/-- V1 container session token (`session.Container`) -/
structure TokV1 (σ : Type) where
  issuer : User
  sig : TSig σ
  verb : Nat
  cnr : Cid            -- 0 = wildcard
  iat : Nat
  nbf : Nat
  exp : Nat
  authKey : Option Key -- session key (none: bytes do not decode to a key)

/-- one context of a V2 token -/
structure Ctx where
  cnr : Cid
  verbs : List Nat
  deriving DecidableEq, Repr

/-- one V2 token of a delegation chain (`sessionv2.Token` without its origin link) -/
structure TokV2 (σ : Type) where
  version : Nat
  issuer : User
  subjects : List User         -- 0 = empty target
  ctxs : List Ctx
  life : Option (Nat × Nat × Nat)   -- iat, nbf, exp (seconds); none = lifetime missing
  final : Bool
  sig : TSig σ

def TokV2.nbf {σ} (t : TokV2 σ) : Nat := match t.life with | some (_, n, _) => n | none => 0
def TokV2.exp {σ} (t : TokV2 σ) : Nat := match t.life with | some (_, _, e) => e | none => 0
def TokV2.iat {σ} (t : TokV2 σ) : Nat := match t.life with | some (i, _, _) => i | none => 0

/-- the session token bytes of a request after decoding: absent, undecodable, V1, or a V2
    chain (head = the token itself, tail = its origins, root last) -/
inductive Tok (σ : Type)
  | none
  | garbage
  | v1 (t : TokV1 σ)
  | v2 (chain : List (TokV2 σ))

/-- `signatureVerificationData` -/
structure Auth (σ : Type) where
  owner : User
  kind : Kind
  idSet : Bool      -- `idContainerSet` (false for creation)
  target : Cid      -- `idContainer`; 0 when `idSet` is false
  tok : Tok σ
  vs : VScript
  sig : σ

structure Env where
  epoch : Nat   -- current epoch (V1 lifetimes)
  now : Nat     -- FS chain time in seconds (V2 lifetimes)

/-! ### V2 token validation (sessionv2.Token.Validate) -/

def maxSubjects := 8
def maxContexts := 16
def maxVerbs := 12
def maxDepth := 4

def strictlyAscending : List Nat → Bool
  | a :: b :: r => a < b && strictlyAscending (b :: r)
  | _ => true

def wildcardVerbs (cs : List Ctx) : Option (List Nat) :=
  match cs with
  | c :: _ => if c.cnr == 0 then some c.verbs else none
  | [] => none

/-- per-context checks of `validateFields`, `prev` = container of the previous context -/
def ctxsOk (wild : Option (List Nat)) : Option Cid → List Ctx → Bool
  | _, [] => true
  | prev, c :: r =>
    !c.verbs.isEmpty && c.verbs.length ≤ maxVerbs && strictlyAscending c.verbs &&
    (match prev with
     | none => true
     | some p => p < c.cnr && (match wild with | some w => c.verbs != w | none => true)) &&
    ctxsOk wild (some c.cnr) r

def fieldsOk {σ} (t : TokV2 σ) : Bool :=
  t.version == 0 && t.issuer != 0 &&
  !t.subjects.isEmpty && t.subjects.length ≤ maxSubjects && t.subjects.all (· != 0) &&
  (match t.life with
   | none => false
   | some (iat, nbf, exp) => nbf ≤ exp && iat ≤ exp) &&
  !t.ctxs.isEmpty && t.ctxs.length ≤ maxContexts &&
  ctxsOk (wildcardVerbs t.ctxs) none t.ctxs &&
  (match t.sig with | .none => false | _ => true)

/-- `findUnauthorizedVerb` (two pointers over lists meant to be sorted) -/
def unauthVerb : List Nat → List Nat → Option Nat
  | [], _ => none
  | r :: _, [] => some r
  | r :: rs, a :: as =>
    if r == a then unauthVerb rs as
    else if r < a then some r
    else unauthVerb (r :: rs) as

/-- `validateDelegatedContexts`: `o` is the not yet skipped part of the origin's contexts -/
def delegatedOk (wild : Option (List Nat)) : List Ctx → List Ctx → Bool
  | _, [] => true
  | o, d :: ds =>
    let o' := o.dropWhile (fun c => c.cnr < d.cnr)
    let viaWild := match wild with
      | some w => (unauthVerb d.verbs w).isNone && delegatedOk wild o' ds
      | none => false
    match o' with
    | c :: _ =>
      if c.cnr == d.cnr then (unauthVerb d.verbs c.verbs).isNone && delegatedOk wild o' ds
      else viaWild
    | [] => viaWild

/-- `Token.validate(depth)` over the chain -/
def validateChain {σ} : Nat → List (TokV2 σ) → Bool
  | _, [] => false
  | depth, [t] => depth ≤ maxDepth && fieldsOk t && !(t.final && depth > 0)
  | depth, t :: o :: r =>
    depth ≤ maxDepth && fieldsOk t && !(t.final && depth > 0) &&
    delegatedOk (wildcardVerbs o.ctxs) o.ctxs t.ctxs &&
    o.subjects.contains t.issuer &&
    (o.nbf ≤ t.nbf && t.exp ≤ o.exp) &&
    validateChain (depth + 1) (o :: r)

/-- `AuthenticateTokenV2`: every token of the chain is signed by its issuer -/
def authChain {σ} (C : Crypto σ) : Nat → List (TokV2 σ) → Bool
  | _, [] => true
  | depth, t :: r => authChain C (depth + 1) r && authToken C t.issuer (.token depth) t.sig

/-- `Token.AssertContainer` -/
def assertContainer (ctxs : List Ctx) (verb : Nat) (cnr : Cid) : Bool :=
  (8 ≤ verb && verb ≤ 12) &&
  ctxs.any (fun c => (c.cnr == 0 || c.cnr == cnr) && c.verbs.contains verb)

def originalIssuer {σ} : List (TokV2 σ) → User
  | [] => 0
  | [t] => t.issuer
  | _ :: r => originalIssuer r

/-- `Lifetime.ValidAt` -/
def validAtV2 {σ} (t : TokV2 σ) (now : Nat) : Bool :=
  match t.life with
  | none => false
  | some (iat, nbf, exp) => iat ≤ now && now ≤ exp && nbf ≤ now

/-- `verifySessionV2` (with the verb asserted for creation requests too: `AssertContainer`
    with the zero id matches wildcard contexts only) -/
def verifySessionV2 {σ} (C : Crypto σ) (env : Env) (a : Auth σ) (chain : List (TokV2 σ)) : Bool :=
  match chain with
  | [] => false
  | t :: _ =>
    validateChain 0 chain && authChain C 0 chain &&
    assertContainer t.ctxs a.kind.v2 a.target &&
    originalIssuer chain == a.owner &&
    validAtV2 t env.now

/-- `icrypto.AuthenticateContainerRequest`: direct owner witness -/
def authDirect {σ} (C : Crypto σ) (a : Auth σ) : Bool :=
  match a.vs with
  | .key k => C.verify k .request a.sig && C.userOf k == a.owner
  | vs => C.n3 a.owner .request a.sig vs

/-- the V1 branch of `verifySignature` -/
def verifySessionV1 {σ} (C : Crypto σ) (env : Env) (a : Auth σ) (t : TokV1 σ) : Bool :=
  authToken C t.issuer (.token 0) t.sig &&
  t.verb == a.kind.v1 &&
  (!a.idSet || t.cnr == 0 || t.cnr == a.target) &&
  t.issuer == a.owner &&
  (t.nbf ≤ env.epoch && t.iat ≤ env.epoch && env.epoch ≤ t.exp) &&
  (match t.authKey with | some k => C.verify k .request a.sig | none => false)

/-- `Processor.verifySignature` -/
def verifySignature {σ} (C : Crypto σ) (env : Env) (a : Auth σ) : Bool :=
  match a.tok with
  | .none => authDirect C a
  | .garbage => false
  | .v1 t => verifySessionV1 C env a t
  | .v2 ch => verifySessionV2 C env a ch

/-! ### non-authentication checks -/

def sysAttrPrefix := "__NEOFS__"
def sysAttrChainMeta := "__NEOFS__METAINFO_CONSISTENCY"
def allowedSystemAttributes : List String :=
  ["__NEOFS__NAME", "__NEOFS__ZONE", "__NEOFS__LOCK_UNTIL", sysAttrChainMeta]

structure Cfg where
  metaEnabled : Bool
  allowEC : Bool

/-- what `checkPutContainer` reads from the container and the request besides the witness -/
structure PutBody where
  attrs : List String      -- attribute names of the container
  ecRules : Nat
  reps : Nat
  hasInitial : Bool
  policyOk : Bool          -- `PlacementPolicy.Verify` (SDK, oracle)
  reqName : String         -- PutNamed arguments ("" zone = not named)
  reqZone : String
  cnrName : String         -- `ReadDomain` of the container
  cnrZone : String

/-- `strings.HasPrefix(k, sysAttrPrefix)` -/
def hasSysPrefix (k : String) : Bool := sysAttrPrefix.toList.isPrefixOf k.toList

def attrsOk (cfg : Cfg) (attrs : List String) : Bool :=
  attrs.all fun k =>
    if hasSysPrefix k then
      allowedSystemAttributes.contains k && (k != sysAttrChainMeta || cfg.metaEnabled)
    else true

def metaRequested (attrs : List String) : Bool := attrs.contains sysAttrChainMeta

def putStaticOk (cfg : Cfg) (p : PutBody) : Bool :=
  attrsOk cfg p.attrs &&
  (cfg.allowEC || p.ecRules == 0) &&
  !(p.ecRules > 0 && p.reps > 0) &&
  !(metaRequested p.attrs && p.hasInitial)

def nnsOk (p : PutBody) : Bool :=
  p.reqZone == "" || (p.reqName == p.cnrName && p.reqZone == p.cnrZone)

/-- `checkPutContainer` -/
def checkPut {σ} (C : Crypto σ) (cfg : Cfg) (env : Env) (p : PutBody) (a : Auth σ) : Bool :=
  putStaticOk cfg p && verifySignature C env a && p.policyOk && nnsOk p

inductive ValClass | empty | decimal | other
  deriving DecidableEq, Repr

structure EFilter where
  matcher : Nat     -- eacl.Match: 3 = NOT_PRESENT, 4..7 numeric
  val : ValClass
  deriving DecidableEq, Repr

structure ERecord where
  comment : Nat     -- 0 fine, 1 invalid UTF-8, 2 contains a zero byte
  roles : List Nat  -- eacl.Role of every target: 2 = system
  filters : List EFilter
  deriving DecidableEq, Repr

def roleSystem := 2

def filterOk (f : EFilter) : Bool :=
  if f.matcher == 3 then f.val == .empty
  else if 4 ≤ f.matcher && f.matcher ≤ 7 then f.val == .decimal
  else true

/-- `validateEACL` -/
def validateEACL (t : List ERecord) : Bool :=
  t.all fun r => r.comment == 0 && r.roles.all (· != roleSystem) && r.filters.all filterOk

structure EaclBody where
  tableOk : Bool        -- the table bytes decode
  tableCid : Cid        -- container id written in the table (0 = missing)
  records : List ERecord
  extendable : Bool     -- basic ACL of the container allows extension (final bit not set)

/-- `checkSetEACL` -/
def checkSetEACL {σ} (C : Crypto σ) (env : Env) (e : EaclBody) (a : Auth σ) : Bool :=
  validateEACL e.records && e.extendable && verifySignature C env a

/-- one notary request as the processor sees it -/
inductive Req (σ : Type)
  /-- `processContainerPut` / `processCreateContainerRequest`; `eacl` = table set in the same
      transaction with its own witness (its `target` is compared with the new container's id) -/
  | put (decodable : Bool) (p : PutBody) (a : Auth σ) (newId : Cid) (eacl : Option (EaclBody × Auth σ))
  /-- `processContainerDelete`: id decodes, the container is known to the contract -/
  | delete (idOk found : Bool) (a : Auth σ)
  /-- `processPutEACLRequest` -/
  | eacl (found : Bool) (e : EaclBody) (a : Auth σ)
  /-- `processSetAttributeRequest` / `processRemoveAttributeRequest` -/
  | attr (idOk nonZero notExpired found : Bool) (a : Auth σ)

/-- the decision: `true` = `NotarySignAndInvokeTX` is called -/
def approve {σ} (C : Crypto σ) (cfg : Cfg) (env : Env) (alphabet : Bool) : Req σ → Bool
  | .put decodable p a newId e =>
    alphabet && decodable && checkPut C cfg env p a &&
    (match e with
     | none => true
     | some (eb, ea) => eb.tableOk && eb.tableCid == newId && checkSetEACL C env eb ea)
  | .delete idOk found a => alphabet && idOk && found && verifySignature C env a
  | .eacl found e a => alphabet && e.tableOk && e.tableCid != 0 && found && checkSetEACL C env e a
  | .attr idOk nonZero notExpired found a =>
    alphabet && idOk && nonZero && notExpired && found && verifySignature C env a

/-- the witness data the decision is about -/
def Req.auth {σ} : Req σ → Auth σ
  | .put _ _ a _ _ => a
  | .delete _ _ a => a
  | .eacl _ _ a => a
  | .attr _ _ _ _ a => a

/-- the pre-repair `verifySessionV2`: the verb was asserted only when a container id was known -/
def verifySessionV2Old {σ} (C : Crypto σ) (env : Env) (a : Auth σ) (chain : List (TokV2 σ)) : Bool :=
  match chain with
  | [] => false
  | t :: _ =>
    validateChain 0 chain && authChain C 0 chain &&
    (!a.idSet || assertContainer t.ctxs a.kind.v2 a.target) &&
    originalIssuer chain == a.owner &&
    validAtV2 t env.now

end NeoFS.IRContainer

namespace NeoFS.IRContainer

/-- Signature values of the correspondence driver: which key made it, whether it was made over
    exactly the bytes it is checked against, and the chain's answer when it is run as an N3
    invocation script. -/
structure DSig where
  key : Nat
  good : Bool
  n3ok : Bool
  deriving DecidableEq, Repr

/-- the ideal scheme instantiated for `DSig`; the user id of key `k` is `k` -/
def driverCrypto : Crypto DSig where
  verify := fun k _ s => s.key == k && s.good
  userOf := fun k => k
  n3 := fun _ _ s _ => s.n3ok

/-- every witness a request carries: its own and the one of an eACL table set in the same
    transaction -/
def Req.auths {σ} : Req σ → List (Auth σ)
  | .put _ _ a _ (some (_, ea)) => [a, ea]
  | r => [r.auth]

end NeoFS.IRContainer
