import NeoFS.Model.EC
/-
Memory-level model of `reedsolomon.Split` + `Encode` on a caller-supplied buffer (third-party code the
multi-rule encoding of `modifyECParentObject` depends on).  The buffer is `mem` (its length is the slice
capacity) of which the first `len` bytes are the payload.  A shard is either a *view* into `mem` or a
freshly allocated slice.  Parity bytes written by rule `r` into shard `k` are the symbolic byte
`1000 + 100*r + k` — only *where* they are written matters here.
-/
namespace NeoFS.EC

inductive Sh
  | view (off : Nat)          -- mem[off, off+perShard)
  | fresh (bytes : List Nat)
  deriving Repr, DecidableEq

structure Buf where
  mem : List Nat
  len : Nat
  deriving Repr

def setRange (mem : List Nat) (off n v : Nat) : List Nat :=
  mem.take off ++ List.replicate (min n (mem.length - off)) v ++ mem.drop (off + n)

/-- `Split(data)` with `data = mem[:len]`, `cap(data) = mem.length`: new memory and the `d+p` shards. -/
def splitBuf (d p : Nat) (b : Buf) : List Nat × List Sh :=
  if d + p = 1 then (b.mem, [Sh.view 0]) else   -- a single shard is the data slice itself
  let sz := perShard b.len d
  let need := (d + p) * sz
  let cap := b.mem.length
  -- if cap(data) > len(data): extend into the capacity and clear the extension
  let newLen := if cap > b.len then min cap need else b.len
  let mem := if cap > b.len then setRange b.mem b.len (newLen - b.len) 0 else b.mem
  let nViews := min (d + p) (if sz = 0 then 0 else newLen / sz)
  let views := (List.range nViews).map fun i => Sh.view (i * sz)
  -- padding shards: zeros, the partial tail of the payload copied in
  let tail := (mem.take b.len).drop (sz * nViews)
  let padBytes := tail ++ List.replicate ((d + p - nViews) * sz - tail.length) 0
  let pads := (chunks sz (d + p - nViews) padBytes).map Sh.fresh
  (mem, views ++ pads)

/-- `Encode(shards)`: parity bytes of rule number `r` go into shards `d … d+p-1`. -/
def encodeBuf (r d p sz : Nat) (mem : List Nat) (shards : List Sh) : List Nat × List Sh :=
  (List.range p).foldl (fun (acc : List Nat × List Sh) k =>
    let v := 1000 + 100 * r + k
    match acc.2[d + k]? with
    | some (Sh.view off) => (setRange acc.1 off sz v, acc.2)
    | some (Sh.fresh _) => (acc.1, acc.2.set (d + k) (Sh.fresh (List.replicate sz v)))
    | none => acc) (mem, shards)

/-- one rule: split then encode -/
def ruleBuf (r d p : Nat) (b : Buf) : List Nat × List Sh :=
  let (mem, sh) := splitBuf d p b
  encodeBuf r d p (perShard b.len d) mem sh

/-- several rules from one buffer, as `modifyECParentObject` does: returns the final memory and each
rule's shards -/
def rulesBuf : Nat → List (Nat × Nat) → Buf → List Nat × List (List Sh)
  | _, [], b => (b.mem, [])
  | r, (d, p) :: rest, b =>
    let (mem, sh) := ruleBuf r d p b
    let (mem', shs) := rulesBuf (r + 1) rest { b with mem := mem }
    (mem', sh :: shs)

/-- read a shard against a memory -/
def derefSh (mem : List Nat) (sz : Nat) : Sh → List Nat
  | .view off => (mem.drop off).take sz
  | .fresh bs => bs

end NeoFS.EC
