/-
Model of the object access decision of the storage node:

* `pkg/services/object/acl/v2/classifier.go`   `senderClassifier.classify`
* `pkg/services/object/acl/v2/service.go`      `findRequestInfo`, `PutRequestToInfo`, `verifyBearerTokenAgainstRequest`,
                                               `VerifyBearerTokenMessage`, `VerifySessionV1TokenMessage`, `VerifySessionTokenMessage`
* `pkg/services/object/acl/v2/util.go`         `assertVerb`, `assertSessionRelation`
* `pkg/services/object/acl/acl.go`             `CheckBasicACL`, `StickyBitCheck`, `CheckEACL`
* `pkg/services/object/server.go`              the call sequence of the handlers (basic → sticky → eACL, "not matched" follows basic ACL)
* SDK (modelled, tied by the correspondence run only): `acl.Basic` bit layout, `eacl.Validator.CalculateAction`,
  `bearer.Token`, `session.Object`, `session/v2.Token` accessors.

Users and keys are natural numbers (the harness maps number k to a fixed real key / account).
Core Lean only (linked into the driver).
-/
namespace NeoFS.ACL

/-! ## Basic ACL (`acl.Basic`, 32 bits) -/

/-- `acl.Role` -/
inductive Role | owner | container | innerRing | others
  deriving DecidableEq, Repr

/-- `acl.Op`; `Op.idx` is the position of the operation's 4-bit section (`mOrder`), `idx+1` its numeric value. -/
inductive Op | get | head | put | delete | search | range | hash
  deriving DecidableEq, Repr

def Op.idx : Op → Nat
  | .get => 0 | .head => 1 | .put => 2 | .delete => 3 | .search => 4 | .range => 5 | .hash => 6

def Op.num (o : Op) : Nat := o.idx + 1

def Op.ofNum? : Nat → Option Op
  | 1 => some .get | 2 => some .head | 3 => some .put | 4 => some .delete
  | 5 => some .search | 6 => some .range | 7 => some .hash | _ => none

/-- bit `pos` (0 bearer, 1 others, 2 container, 3 owner) of the operation's section -/
def opBit (w : Nat) (op : Op) (pos : Nat) : Bool := w.testBit (4 * op.idx + pos)

def bearerAllowed (w : Nat) (op : Op) : Bool := opBit w op 0
/-- `Basic.Extendable`: the FINAL bit (28) is not set -/
def extendable (w : Nat) : Bool := !w.testBit 28
/-- `Basic.Sticky`: bit 29 -/
def sticky (w : Nat) : Bool := w.testBit 29

def isReplicationOp : Op → Bool
  | .get | .head | .put | .search | .hash => true
  | _ => false

def irOp : Op → Bool
  | .get | .head | .hash | .search => true
  | _ => false

/-- `Basic.IsOpAllowed` -/
def isOpAllowed (w : Nat) (op : Op) : Role → Bool
  | .innerRing => irOp op
  | .owner => opBit w op 3
  | .container => isReplicationOp op || opBit w op 2
  | .others => opBit w op 1

/-! ## Extended ACL (`eacl.Validator.CalculateAction`) -/

structure Hdr where
  key : String
  val : String
  deriving DecidableEq, Repr

/-- `from`: 1 request X-header, 2 object, anything else: no headers. `matcher`: 1 =, 2 ≠, 3 not present, 4 > 5 ≥ 6 < 7 ≤. -/
structure Filter where
  src : Nat
  matcher : Nat
  key : String
  val : String
  deriving DecidableEq, Repr

/-- `role`: 1 user(owner), 2 system (deprecated, skipped), 3 others. Subjects of 33 bytes are keys, of 25 bytes accounts,
of any other length ignored (not represented). -/
structure Target where
  role : Nat
  keys : List Nat
  accounts : List Nat
  deriving DecidableEq, Repr

/-- `action`: 1 allow, anything else denies when the record matches. `op`: numeric operation. -/
structure Record where
  action : Nat
  op : Nat
  targets : List Target
  filters : List Filter
  deriving DecidableEq, Repr

abbrev Table := List Record

/-- What `eaclV2.headerSource.HeadersOfType` can deliver for the message at hand. -/
structure HdrSrc where
  req : List Hdr
  obj : List Hdr
  /-- object headers could be composed completely (second result of `HeadersOfType`) -/
  objComplete : Bool := true
  /-- reading the object headers fails (`readObjectHeaders` error) -/
  objErr : Bool := false
  deriving Repr

/-- who asks, as `CheckEACL` fills the `ValidationUnit` -/
structure Subject where
  role : Nat            -- eacl.Role of the requester
  op : Nat              -- eacl.Operation
  key : Nat             -- sender key
  account : Option Nat  -- sender account (none: nil or zero)
  deriving Repr

def isDigit (c : Char) : Bool := '0' ≤ c && c ≤ '9'

def digitsVal (cs : List Char) : Nat := cs.foldl (fun a c => a * 10 + (c.toNat - '0'.toNat)) 0

/-- `big.Int.SetString(s, 10)`: optional sign, at least one digit, nothing else. -/
def parseInt (s : String) : Option Int :=
  let go (cs : List Char) : Option Nat := if cs.isEmpty || !cs.all isDigit then none else some (digitsVal cs)
  match s.toList with
  | '-' :: cs => (go cs).map fun n => - (Int.ofNat n)
  | '+' :: cs => (go cs).map Int.ofNat
  | cs => (go cs).map Int.ofNat

def numMatcher (m : Nat) : Bool := m == 4 || m == 5 || m == 6 || m == 7

def numCmp (m : Nat) (v f : Int) : Bool :=
  if m == 4 then v > f else if m == 5 then v ≥ f else if m == 6 then v < f else v ≤ f

/-- one filter against the headers of its type (inner loop of `matchFilters`) -/
def filterHit (hs : List Hdr) (f : Filter) : Bool :=
  let same := hs.filter (fun h => h.key == f.key)
  if numMatcher f.matcher then
    match parseInt f.val with
    | none => false
    | some nf => same.any fun h => match parseInt h.val with
        | some v => numCmp f.matcher v nf
        | none => false
  else if f.matcher == 3 then same.isEmpty
  else if f.matcher == 1 then same.any (fun h => h.val == f.val)
  else if f.matcher == 2 then same.any (fun h => h.val != f.val)
  else false

inductive FRes | hit | miss | unknown | err
  deriving DecidableEq, Repr

/-- `matchFilters`: filters are visited in order; a failing header source aborts with an error, an incomplete one with
"unknown" (negative result) – even when an earlier filter already missed. -/
def filtersRes (h : HdrSrc) : List Filter → FRes
  | [] => .hit
  | f :: fs =>
    if f.src == 2 && h.objErr then .err
    else if f.src == 2 && !h.objComplete then .unknown
    else
      let hs := if f.src == 1 then h.req else if f.src == 2 then h.obj else []
      match filtersRes h fs with
      | .err => .err
      | .unknown => .unknown
      | r => if filterHit hs f then r else .miss

/-- one target of `targetMatches` -/
def targetHit (s : Subject) (t : Target) : Bool :=
  if t.role == 2 then false
  else t.keys.contains s.key
    || (match s.account with | some a => t.accounts.contains a | none => false)
    || (t.keys.isEmpty && t.accounts.isEmpty && s.role == t.role)

def applies (s : Subject) (r : Record) : Bool := r.op == s.op && r.targets.any (targetHit s)

/-- result of `CalculateAction` as `CheckEACL` reads it -/
inductive Calc | allow | deny | notMatched | err
  deriving DecidableEq, Repr

def calcAction (s : Subject) (h : HdrSrc) : Table → Calc
  | [] => .allow
  | r :: rs =>
    if applies s r then
      match filtersRes h r.filters with
      | .err => .err
      | .unknown => .notMatched
      | .hit => if r.action == 1 then .allow else .deny
      | .miss => calcAction s h rs
    else calcAction s h rs

/-! ## Header sources (`pkg/services/object/acl/eacl/v2/headers.go`, restricted to the header keys the tables mention) -/

/-- the object a request is about; values of system headers are symbolic (`@c1` this container, `@o` this object, `@uK` account K) -/
structure ObjDesc where
  owner : Nat
  epoch : Nat
  size : Nat
  tomb : Bool
  attrs : List Hdr
  hasOid : Bool
  deriving Repr

inductive Phase | req | bin | resp
  deriving DecidableEq, Repr

def addrHdrs (hasOid : Bool) : List Hdr :=
  { key := "$cid", val := "@c1" } :: (if hasOid then [{ key := "$oid", val := "@o" }] else [])

def fullHdrs (o : ObjDesc) : List Hdr :=
  addrHdrs o.hasOid ++
    [ { key := "$owner", val := "@u" ++ toString o.owner }, { key := "$epoch", val := toString o.epoch },
      { key := "$size", val := toString o.size }, { key := "$type", val := if o.tomb then "TOMBSTONE" else "REGULAR" } ] ++ o.attrs

/-- what `headerSource.HeadersOfType` delivers per request kind and message: the request itself (`req`), the binary object
header handed to the re-check (`bin`; the request's X-headers are attached since the repair of the re-check), or the response. -/
def hdrSource (op : Op) (isPut : Bool) (ph : Phase) (xh : List Hdr) (o : ObjDesc) (loc : Bool) (firstMissing : Bool) : HdrSrc :=
  match ph with
  | .bin => { req := xh, obj := fullHdrs o }
  | .resp => { req := xh, obj := fullHdrs o }
  | .req =>
    if isPut then
      if firstMissing then { req := xh, obj := [], objErr := true } else { req := xh, obj := fullHdrs o }
    else match op with
      | .get | .head =>
        if loc && o.hasOid then { req := xh, obj := fullHdrs o }
        else { req := xh, obj := addrHdrs o.hasOid, objComplete := false }
      | .search => { req := xh, obj := [] }
      | _ => { req := xh, obj := addrHdrs o.hasOid }

/-! ## Tokens -/

/-- a bearer token as the checks read it -/
structure Bearer where
  issuer : Nat            -- issuer account
  signer : Option Nat     -- account derived from the signing key (none: undecodable key)
  sigOK : Bool            -- ideal signature predicate: the signature verifies over the signed body
  nbf : Nat
  iat : Nat
  exp : Nat
  cnr : Option Nat        -- container of the table (none: not set)
  target : Option Nat     -- account the token is for (none: anybody)
  table : Table
  deriving Repr

/-- `bearer.Token.ValidAt` -/
def lifetimeOK (nbf iat exp cur : Nat) : Bool := nbf ≤ cur && iat ≤ cur && cur ≤ exp

/-- `AuthenticateToken` for ECDSA schemes: the signature verifies and the key's account is the issuer -/
def authOK (sigOK : Bool) (signer : Option Nat) (issuer : Nat) : Bool := sigOK && signer == some issuer

/-- `decodeAndVerifyBearerTokenCommon` (what `VerifyBearerTokenMessage` computes on a cache miss) -/
def bearerTokenOK (b : Bearer) (cur : Nat) : Bool := lifetimeOK b.nbf b.iat b.exp cur && authOK b.sigOK b.signer b.issuer

/-- `verifyBearerTokenAgainstRequest` -/
def bearerForRequest (b : Bearer) (cnrOwner cnr author : Nat) : Bool :=
  b.issuer == cnrOwner && (b.cnr == none || b.cnr == some cnr) && (b.target == none || b.target == some author)

/-! ## The request and the decision -/

inductive Stored
  | table (t : Table)
  | notFound            -- `apistatus.ErrEACLNotFound`
  | error               -- any other error of the eACL source
  deriving Repr

structure Req where
  op : Op                     -- operation of the handler (tombstone puts arrive as `delete`)
  isPut : Bool := false       -- the request is an object PUT (sticky bit, replication rule, skip rule)
  basic : Nat
  cnr : Nat
  cnrOwner : Nat
  author : Nat                -- request author account
  key : Nat                   -- sender key
  keyUser : Option Nat        -- account derived from the sender key bytes (none: empty / undecodable)
  inIR : Bool
  inCnr : Option Bool         -- `InContainerInLastTwoEpochs`; none = lookup error
  objOwner : Nat := 0         -- PUT: owner in the object header
  ttl : Nat := 2
  split : Bool := false       -- PUT: header has a split section
  serverInCnr : Bool := true  -- PUT: `ServerInContainer`
  cur : Nat := 0              -- current epoch
  bearer : Option Bearer := none
  stored : Stored := .notFound
  hdrs : HdrSrc := { req := [], obj := [] }
  deriving Repr

/-- `senderClassifier.classify` -/
def classify (r : Req) : Role :=
  if r.author == r.cnrOwner then .owner
  else if r.inIR then .innerRing
  else if r.inCnr == some true then .container
  else .others

/-- `PutRequestToInfo`: a tombstone replicated inside the container is checked as PUT -/
def effOp (r : Req) : Op :=
  if r.isPut && r.op == .delete && classify r == .container && r.ttl == 1 then .put else r.op

def isSystem : Role → Bool
  | .innerRing | .container => true
  | _ => false

/-- `StickyBitCheck` -/
def stickyOK (r : Req) : Bool :=
  classify r == .container || !sticky r.basic || r.keyUser == some r.objOwner

/-- the request's bearer token as `CheckEACL` sees it: dropped when the basic ACL does not allow bearer rules for the op -/
def bearerUsed (r : Req) : Option Bearer := if bearerAllowed r.basic (effOp r) then r.bearer else none

def subject (r : Req) : Subject :=
  { role := if classify r == .owner then 1 else 3, op := (effOp r).num, key := r.key, account := some r.author }

inductive EACL | ok | notMatched | denied | err
  deriving DecidableEq, Repr

/-- how `CheckEACL` turns the validator's answer into its result -/
def Calc.toEACL : Calc → EACL
  | .allow => .ok | .deny => .denied | .notMatched => .notMatched | .err => .err

/-- the table `CheckEACL` consults: the bearer token's when one is (still) attached, else the container's -/
def consulted (r : Req) : Stored :=
  match bearerUsed r with
  | some b => .table b.table
  | none => r.stored

def evalStored (r : Req) : Stored → EACL
  | .table t => (calcAction (subject r) r.hdrs t).toEACL
  | .notFound => .ok
  | .error => .err

/-- `Checker.CheckEACL` -/
def checkEACL (r : Req) : EACL :=
  if !extendable r.basic then .ok
  else if isSystem (classify r) then .ok
  else evalStored r (consulted r)

inductive Decision
  | allow         -- served
  | allowRecheck  -- served so far; the eACL is consulted again when the object header is at hand
  | skip          -- PUT of a split object on a node outside the container: relayed without ACL checks
  | denyToken     -- bearer token rejected by `VerifyBearerTokenMessage`
  | denyBearer    -- bearer token does not fit the request (`verifyBearerTokenAgainstRequest`)
  | denyBasic
  | denySticky
  | denyEACL
  deriving DecidableEq, Repr

/-- `VerifyBearerTokenMessage` rejects the attached token -/
def tokenBad (r : Req) : Bool :=
  match r.bearer with
  | some b => !bearerTokenOK b r.cur
  | none => false

/-- `verifyBearerTokenAgainstRequest` rejects the attached token -/
def bearerMismatch (r : Req) : Bool :=
  match r.bearer with
  | some b => !bearerForRequest b r.cnrOwner r.cnr r.author
  | none => false

/-- PUT of a split object on a node that is not in the container: relayed, no ACL decision taken here -/
def skipCond (r : Req) : Bool := r.isPut && r.split && !r.serverInCnr

/-- the handler's sequence: meta header (bearer token) → request info → basic ACL → sticky bit → eACL -/
def decide (r : Req) : Decision :=
  if tokenBad r then .denyToken
  else if skipCond r then .skip
  else if bearerMismatch r then .denyBearer
  else if !isOpAllowed r.basic (effOp r) (classify r) then .denyBasic
  else if r.isPut && !stickyOK r then .denySticky
  else match checkEACL r with
    | .ok => .allow
    | .notMatched => .allowRecheck
    | .denied | .err => .denyEACL

def Decision.served : Decision → Bool
  | .allow | .allowRecheck => true
  | _ => false

end NeoFS.ACL
