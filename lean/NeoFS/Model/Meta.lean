import NeoFS.Model.Int256
/-
Model of the metabase (`pkg/local_object_storage/metabase`), one bbolt bucket per container.

What a bucket holds is modelled relationally: the indexed objects (`Rec`, everything `PutMetadataForObject`
writes for one id), the garbage marks (prefix 5, with the redundant flag), the container GC mark (prefix 4)
and the seven counters.  bbolt's ordered iteration is reproduced by keeping every list sorted by object id
(all index keys the code iterates end with the object id and share a fixed prefix, so key order = id order).

Object and container ids are natural numbers, `0` is the zero id (`IsZero()`).
-/
namespace NeoFS.Meta

inductive OType | regular | tombstone | lock | link | storageGroup
  deriving DecidableEq, Repr

/-- The header fields the metabase looks at.  An object is the chain `self :: parent :: grandparent`
(`obj.Parent()` headers embedded). -/
structure Hdr where
  id : Nat
  typ : OType
  size : Nat := 0
  /-- `GetParentID()` — equals the embedded parent's id when a parent header is attached -/
  parentId : Nat := 0
  firstId : Nat := 0
  splitId : Nat := 0
  /-- `AssociatedObject()` -/
  assoc : Nat := 0
  /-- raw `__NEOFS__EXPIRATION_EPOCH` attribute -/
  exp : Option String := none
  /-- (`__NEOFS__EC_RULE_IDX`, `__NEOFS__EC_PART_IDX`) -/
  ec : Option (Nat × Nat) := none
  /-- split header present without any of the indexed fields (e.g. only a previous-part id) -/
  otherSplit : Bool := false
  deriving Repr, DecidableEq

/-- `HasParent()`: any split field is set -/
def Hdr.hasParent (h : Hdr) (hasParHdr : Bool) : Bool :=
  h.parentId != 0 || h.firstId != 0 || h.splitId != 0 || hasParHdr || h.otherSplit

/-- what is indexed for one object id -/
structure Rec where
  id : Nat
  typ : OType
  phy : Bool
  root : Bool
  size : Nat
  parentId : Nat
  firstId : Nat
  splitId : Nat
  assoc : Nat
  exp : Option String
  ec : Option (Nat × Nat)
  deriving Repr, DecidableEq

structure Counters where
  phy : Nat := 0
  root : Nat := 0
  ts : Nat := 0
  lock : Nat := 0
  link : Nat := 0
  gc : Nat := 0
  payload : Nat := 0
  deriving Repr, DecidableEq

/-- `CountersDiff` (signed) -/
structure Diff where
  phy : Int := 0
  root : Int := 0
  ts : Int := 0
  lock : Int := 0
  link : Int := 0
  gc : Int := 0
  payload : Int := 0
  deriving Repr, DecidableEq

def Diff.add (a b : Diff) : Diff :=
  { phy := a.phy + b.phy, root := a.root + b.root, ts := a.ts + b.ts, lock := a.lock + b.lock,
    link := a.link + b.link, gc := a.gc + b.gc, payload := a.payload + b.payload }

/-- `updateCounter`: additions are plain, subtractions are floored at zero (`counter -= min(counter, -delta)`) -/
def updCounter (c : Nat) (delta : Int) : Nat :=
  if delta ≥ 0 then c + delta.toNat else c - min c (-delta).toNat

/-- `applyDiff` -/
def Counters.apply (c : Counters) (d : Diff) : Counters :=
  { phy := updCounter c.phy d.phy, root := updCounter c.root d.root, ts := updCounter c.ts d.ts,
    lock := updCounter c.lock d.lock, link := updCounter c.link d.link, gc := updCounter c.gc d.gc,
    payload := updCounter c.payload d.payload }

/-- one container bucket -/
structure Cnr where
  recs : List Rec := []                -- sorted by id, ids unique
  garb : List (Nat × Bool) := []       -- (id, redundant mark), sorted by id
  gcMark : Bool := false
  ctr : Counters := {}
  deriving Repr, DecidableEq

abbrev DB := List (Nat × Cnr)          -- sorted by container id; presence = the bucket exists

inductive Err
  | ok | notFound | alreadyRemoved | expired | locked | lockNonRegular | lockRemoval
  | parentSplit | parentEC | other
  deriving DecidableEq, Repr

inductive Status | available | gcMarked | tombstoned | expired
  deriving DecidableEq, Repr

def Status.rank : Status → Nat
  | .available => 0 | .gcMarked => 1 | .tombstoned => 2 | .expired => 3

def Status.max (a b : Status) : Status := if a.rank ≥ b.rank then a else b

/-! ### ordered helpers -/

def insertRec (r : Rec) : List Rec → List Rec
  | [] => [r]
  | x :: xs =>
    if r.id < x.id then r :: x :: xs
    -- re-indexing an id only adds keys: a physical marker written earlier stays
    else if r.id = x.id then { r with phy := r.phy || x.phy } :: xs
    else x :: insertRec r xs

def insertGarb (g : Nat × Bool) : List (Nat × Bool) → List (Nat × Bool)
  | [] => [g]
  | x :: xs => if g.1 < x.1 then g :: x :: xs else if g.1 = x.1 then g :: xs else x :: insertGarb g xs

def setCnr (db : DB) (c : Nat) (v : Cnr) : DB :=
  match db with
  | [] => [(c, v)]
  | x :: xs => if c < x.1 then (c, v) :: x :: xs else if c = x.1 then (c, v) :: xs else x :: setCnr xs c v

def getCnr? (db : DB) (c : Nat) : Option Cnr := (db.find? (·.1 == c)).map (·.2)

def Cnr.find? (c : Cnr) (id : Nat) : Option Rec := c.recs.find? (·.id == id)

/-- `fetchTypeForID` -/
def Cnr.typeOf (c : Cnr) (id : Nat) : Option OType := (c.find? id).map (·.typ)

/-! ### status -/

/-- `strconv.ParseUint(s, 10, 64)` -/
def parseUint64 (s : String) : Option Nat :=
  let cs := s.toList
  if cs.isEmpty then none
  else if cs.all Int256.isDigit then
    (if Int256.decVal cs < 18446744073709551616 then some (Int256.decVal cs) else none)
  else none

/-- `isExpired` -/
def Cnr.isExpired (c : Cnr) (id epoch : Nat) : Bool :=
  match c.find? id with
  | some r =>
    match r.exp with
    | some s => match parseUint64 s with
      | some e => decide (epoch > e)
      | none => false
    | none => false
  | none => false

/-- `associatedWithTypedObject`: the first (in id order) object of type `typ` associated with `id` that has
not expired (`epoch = 0` skips the expiration check). -/
def Cnr.assocTyped (c : Cnr) (epoch id : Nat) (typ : OType) : Option Nat :=
  (c.recs.find? fun r => r.assoc == id && r.typ == typ && !(epoch > 0 && c.isExpired r.id epoch)).map (·.id)

/-- `inGarbage` -/
def Cnr.inGarbage (c : Cnr) (id : Nat) : Status :=
  if (c.assocTyped 0 id .tombstone).isSome then .tombstoned
  else match c.garb.find? (·.1 == id) with
    | some (_, redundant) => if redundant then .available else .gcMarked
    | none => .available

/-- `objectLocked`: some associated LOCK object is unexpired and not removed itself -/
def Cnr.objectLocked (c : Cnr) (epoch id : Nat) : Bool :=
  c.recs.any fun r => r.assoc == id && r.typ == .lock && !(epoch > 0 && c.isExpired r.id epoch)
    && c.inGarbage r.id == .available

/-- `findParent` -/
def Cnr.findParent (c : Cnr) (id : Nat) : Nat :=
  match c.find? id with
  | none => 0
  | some r =>
    if r.parentId != 0 then r.parentId
    else if r.firstId != 0 then
      ((c.recs.filter fun x => x.firstId == r.firstId).find? (·.parentId != 0)).elim 0 (·.parentId)
    else if r.splitId != 0 then
      ((c.recs.filter fun x => x.splitId == r.splitId).find? (·.parentId != 0)).elim 0 (·.parentId)
    else 0

/-- `objectStatusDirect` -/
def Cnr.statusDirect (c : Cnr) (epoch id : Nat) : Status :=
  if c.isExpired id epoch then
    (if c.objectLocked epoch id then .available else .expired)
  else
    let g := c.inGarbage id
    if g != .available && c.objectLocked epoch id then .available else g

/-- `objectStatusNested` with `maxObjectNestingLevel - nestingLevel = fuel` levels left -/
def Cnr.statusNested (c : Cnr) (epoch : Nat) : Nat → Nat → Status
  | 0, id => c.statusDirect epoch id
  | fuel + 1, id =>
    let s := c.statusDirect epoch id
    if s == .available || s == .gcMarked then
      let p := c.findParent id
      if p != 0 then Status.max (c.statusNested epoch fuel p) s else s
    else s

def maxObjectNestingLevel : Nat := 2

/-- `objectStatus` -/
def Cnr.status (c : Cnr) (epoch id : Nat) : Status := c.statusNested epoch maxObjectNestingLevel id

/-! ### parent information -/

inductive ParentInfo
  | none
  | ecParts (ids : List Nat)
  | split (first splitId link last : Nat)
  deriving DecidableEq, Repr

/-- `getParentInfo`: children are the objects whose parent-id attribute is `pid`, in id order. -/
def Cnr.parentInfo (c : Cnr) (pid : Nat) : ParentInfo :=
  let children := c.recs.filter (·.parentId == pid)
  if children.isEmpty then .none
  else
    let ecs := (children.filter (·.ec.isSome)).map (·.id)
    if !ecs.isEmpty then .ecParts ecs
    else
      let st := children.foldl (fun (acc : Nat × Nat × Nat × Nat) ch =>
        let (first, sid, link, last) := acc
        let isLink := ch.typ == .link
        let isV1 := ch.splitId != 0
        let isEmpty := ch.size == 0
        let sid := if isV1 then ch.splitId else sid
        let first := if ch.firstId != 0 then ch.firstId else first
        let link := if isLink || (isV1 && isEmpty) then ch.id else link
        let last := if (isV1 && !isEmpty) || (!isV1 && !isLink) then ch.id else last
        (first, sid, link, last)) (0, 0, 0, 0)
      .split st.1 st.2.1 st.2.2.1 st.2.2.2

/-- `collectChildren` (grandchildren included); `fuel` bounds the recursion -/
def Cnr.collectChildren (c : Cnr) : Nat → Nat → List Nat
  | 0, _ => []
  | fuel + 1, pid =>
    match c.parentInfo pid with
    | .none => []
    | .ecParts ids => ids
    | .split first sid link last =>
      let res :=
        if first != 0 then first :: (c.recs.filter (·.firstId == first)).map (·.id)
        else if sid != 0 then (c.recs.filter (·.splitId == sid)).map (·.id)
        else (if link != 0 then [link] else []) ++ (if last != 0 then [last] else [])
      res ++ res.flatMap (c.collectChildren fuel)

/-! ### reads -/

/-- `get(metaCursor, addr, checkStatus, raw, epoch)`: error class and the record when found -/
def Cnr.get (c : Cnr) (id : Nat) (checkStatus raw : Bool) (epoch : Nat) : Err × Option Rec :=
  let st := if checkStatus then c.status epoch id else .available
  match st with
  | .gcMarked => (.notFound, none)
  | .tombstoned => (.alreadyRemoved, none)
  | .expired => (.expired, none)
  | .available =>
    let pi := if raw then c.parentInfo id else .none
    match pi with
    | .ecParts _ => (.parentEC, none)
    | .split .. => (.parentSplit, none)
    | .none =>
      match c.find? id with
      | some r => (.ok, some r)
      | none => (.notFound, none)

/-- `db.exists(tx, addr, epoch, checkParent)`: (exists, error) -/
def Cnr.exists_ (c : Cnr) (id epoch : Nat) (checkParent : Bool) : Bool × Err :=
  if c.gcMark then (false, .notFound)
  else match c.status epoch id with
    | .gcMarked => (false, .notFound)
    | .tombstoned => (false, .alreadyRemoved)
    | .expired => (false, .expired)
    | .available =>
      let pi := if checkParent then c.parentInfo id else .none
      match pi with
      | .ecParts _ => (false, .parentEC)
      | .split .. => (false, .parentSplit)
      | .none => ((c.typeOf id).isSome, .ok)

/-- `DB.Exists` -/
def dbExists (db : DB) (cn id epoch : Nat) : Bool × Err :=
  match getCnr? db cn with
  | none => (false, .ok)
  | some c => c.exists_ id epoch true

/-- `DB.Get` -/
def dbGet (db : DB) (cn id : Nat) (raw : Bool) (epoch : Nat) : Err × Option Rec :=
  match getCnr? db cn with
  | none => (.notFound, none)
  | some c => if c.gcMark then (.notFound, none) else c.get id true raw epoch

/-- `DB.IsLocked` -/
def dbIsLocked (db : DB) (cn id epoch : Nat) : Bool :=
  match getCnr? db cn with
  | none => false
  | some c => if c.gcMark then false else c.objectLocked epoch id

/-! ### put -/

def recOf (h : Hdr) (hasParHdr phy : Bool) : Rec :=
  { id := h.id, typ := h.typ, phy := phy,
    root := !h.hasParent hasParHdr && h.typ == .regular,
    size := h.size, parentId := h.parentId, firstId := h.firstId, splitId := h.splitId,
    assoc := h.assoc, exp := h.exp, ec := h.ec }

/-- one target of the tombstone loop of `handleObjectWithAssociation`; state = (garbage list, `inhumed`,
payload decrease).  Reads see the marks written so far in this transaction. -/
def Cnr.tombStep (c : Cnr) (epoch : Nat) (acc : List (Nat × Bool) × Int × Int) (id : Nat) :
    List (Nat × Bool) × Int × Int :=
  let cur : Cnr := { c with garb := acc.1 }
  let g := cur.get id false true epoch
  -- (repaired: a mark of either kind means the object has been counted already)
  let counted := g.1 == .ok && cur.inGarbage id == .available && !(acc.1.any fun x => x.1 == id)
  let inh := if counted then acc.2.1 + 1 else acc.2.1
  let pay := if counted then
      (match g.2 with
       | some rec => if rec.typ == .regular && rec.phy then acc.2.2 - rec.size else acc.2.2
       | none => acc.2.2)
    else acc.2.2
  (insertGarb (id, false) acc.1, inh, pay)

/-- `handleObjectWithAssociation` for a tombstone: marks the target and all its children, returns the new
garbage list and (`inhumed`, payload decrease). -/
def Cnr.tombstoneMarks (c : Cnr) (epoch target : Nat) : List (Nat × Bool) × Int × Int :=
  (c.collectChildren 4 target ++ [target]).foldl (c.tombStep epoch) (c.garb, 0, 0)

/-- The part of `db.put` after the existence check and the parent: type-specific handling
(`handleLinkObject`, `handleObjectWithAssociation`, `handleRegularObject`), `applyDiff` and
`PutMetadataForObject`.  `c0` is the bucket before this `put` call (returned unchanged on error), `c1` the
bucket after the parent was indexed, `e` the error of the existence check. -/
def putKind (c1 : Cnr) (epoch level : Nat) (h : Hdr) (hasParHdr : Bool) (e : Err) : Option (Cnr × Diff) × Err :=
  let d0 : Diff := if level == 0 then { payload := h.size } else {}
  match h.typ with
  -- the storage-group case assigns nothing to `err`, so a not-found error of the existence check
  -- (garbage-marked id) is what the stale variable still holds and what `put` returns
  | .storageGroup => if e == .notFound then (none, .notFound) else (some (c1, d0), .ok)
  | .link => (some (c1, { d0 with link := d0.link + 1, phy := d0.phy + 1 }), .ok)
  | .regular =>
    (some (c1, { d0 with root := if h.hasParent hasParHdr then d0.root else d0.root + 1,
                         phy := if level == 0 then d0.phy + 1 else d0.phy }), .ok)
  | .lock =>
    if h.assoc == 0 then (none, .other)
    else
      let tt := c1.typeOf h.assoc
      if tt.isSome && tt != some .regular then (none, .lockNonRegular)
      else if c1.status epoch h.assoc == .tombstoned || c1.inGarbage h.assoc == .tombstoned then (none, .alreadyRemoved)
      else (some (c1, { d0 with lock := d0.lock + 1, phy := d0.phy + 1 }), .ok)
  | .tombstone =>
    if h.assoc == 0 then (none, .other)
    else
      let tt := c1.typeOf h.assoc
      if tt == some .tombstone then (none, .other)
      else if tt == some .lock then (none, .lockRemoval)
      else if c1.objectLocked epoch h.assoc then (none, .locked)
      else
        let m := c1.tombstoneMarks epoch h.assoc
        (some ({ c1 with garb := m.1 },
          { d0 with ts := d0.ts + 1, gc := d0.gc + m.2.1, payload := d0.payload + m.2.2, phy := d0.phy + 1 }), .ok)

def putSelf (c0 c1 : Cnr) (epoch level : Nat) (h : Hdr) (hasParHdr : Bool) (e : Err) : Cnr × Diff × Err :=
  match putKind c1 epoch level h hasParHdr e with
  | (some (c2, d), _) =>
    ({ c2 with ctr := c2.ctr.apply d, recs := insertRec (recOf h hasParHdr (level == 0)) c2.recs }, d, .ok)
  | (none, err) => (c0, {}, err)

/-- `db.put(tx, obj, nestingLevel, epoch)` on a header chain; returns the new bucket (unchanged when nothing
is written), the counters diff of this level and the error. -/
def putChain (c : Cnr) (epoch : Nat) : Nat → List Hdr → Cnr × Diff × Err
  | _, [] => (c, {}, .other)
  | level, h :: parents =>
    if c.gcMark then (c, {}, .alreadyRemoved)
    else
      let (ex, e) := c.exists_ h.id epoch false
      if ex then (c, {}, .ok)
      else if e != .ok && e != .notFound then (c, {}, e)
      -- indexed already, only not available (garbage-marked, not collected yet): nothing is added or counted
      else if e == .notFound && (c.typeOf h.id).isSome then (c, {}, .ok)
      else
        -- parent header with a non-zero id is indexed first
        let (c1, perr) : Cnr × Err :=
          match parents with
          | p :: rest =>
            if p.id != 0 then
              (if level == maxObjectNestingLevel then (c, .other)
               else
                 let (cp, _, pe) := putChain c epoch (level + 1) (p :: rest)
                 (cp, pe))
            else (c, .ok)
          | [] => (c, .ok)
        if perr != .ok then (c, {}, perr)
        else putSelf c c1 epoch level h (!parents.isEmpty) e

/-- `DB.Put`: the transaction is rolled back on error -/
def dbPut (db : DB) (epoch cn : Nat) (chain : List Hdr) : DB × Err :=
  let c := (getCnr? db cn).getD {}
  let (c', _, e) := putChain c epoch 0 chain
  if e == .ok then (setCnr db cn c', .ok)
  else
    -- the bucket is created before the type-specific checks fail only if it is reached; a failed batch is
    -- rolled back, so nothing changes
    (db, e)

/-! ### garbage marks -/

/-- one iteration of `markGarbageInContainer`: state = (bucket, `NewGarbage`, `PayloadDiff`) -/
def markStep (epoch : Nat) (redundant : Bool) (acc : Cnr × Nat × Int) (id : Nat) : Cnr × Nat × Int :=
  let (cur, newG, pay) := acc
  match cur.garb.find? (·.1 == id) with
  | some (_, wasRedundant) =>
    if !redundant && wasRedundant then ({ cur with garb := insertGarb (id, false) cur.garb }, newG, pay)
    else (cur, newG, pay)
  | none =>
    let (e, r) := cur.get id false true epoch
    let pay :=
      if e == .ok then
        match r with
        | some rec => if cur.inGarbage id == .available && rec.phy then pay - rec.size else pay
        | none => pay
      else pay
    ({ cur with garb := insertGarb (id, redundant) cur.garb }, newG + 1, pay)

/-- `markGarbageInContainer` -/
def Cnr.markGarbageIn (c : Cnr) (epoch : Nat) (objs : List Nat) (redundant : Bool) : Cnr × Nat × Int :=
  objs.foldl (markStep epoch redundant) (c, 0, 0)

/-- `DB.MarkGarbage` -/
def dbMarkGarbage (db : DB) (epoch cn : Nat) (ids : List Nat) (redundant : Bool) : DB :=
  match getCnr? db cn with
  | none => db
  | some c =>
    if c.gcMark then db
    else
      let objs := ids.flatMap fun id => id :: c.collectChildren 4 id
      let (c', newG, pay) := c.markGarbageIn epoch objs redundant
      let ctr := { c'.ctr with gc := updCounter c'.ctr.gc newG, payload := updCounter c'.ctr.payload pay }
      setCnr db cn { c' with ctr := ctr }

/-- `DB.InhumeContainer` -/
def dbInhumeContainer (db : DB) (cn : Nat) : DB :=
  let c := (getCnr? db cn).getD {}
  setCnr db cn { c with gcMark := true, ctr := { gc := c.ctr.phy } }

/-- `DB.DeleteContainer` -/
def dbDeleteContainer (db : DB) (cn : Nat) : DB := db.filter (·.1 != cn)

/-! ### delete -/

/-- counters diff for removing the index of one record (`garbage`: it carried a removal mark) -/
def recDiff (r : Rec) (garbage : Bool) : Diff :=
  { gc := if garbage then -1 else 0, phy := if r.phy then -1 else 0,
    root := if r.typ == .regular && r.root then -1 else 0,
    ts := if r.typ == .tombstone then -1 else 0,
    link := if r.typ == .link then -1 else 0,
    lock := if r.typ == .lock then -1 else 0 }

/-- remove everything stored under an id: its index keys and its removal mark -/
def Cnr.dropId (c : Cnr) (id : Nat) : Cnr :=
  { c with recs := c.recs.filter (·.id != id), garb := c.garb.filter (·.1 != id) }

/-- `deleteMetadata` (recursive on the parent when its last child goes); `fuel` bounds the recursion.
Returns the bucket, the diff and whether the object was missing / non-physical (`errNonPhy`). -/
def Cnr.deleteMetadata (c : Cnr) : Nat → Nat → Bool → Cnr × Diff × Bool
  | 0, _, _ => (c, {}, true)
  | fuel + 1, id, isParent =>
    match c.find? id with
    | none =>
      -- no object: only a garbage mark may be removed
      if (c.garb.find? (·.1 == id)).isSome then
        ({ c with garb := c.garb.filter (·.1 != id) }, { gc := -1 }, true)
      else (c, {}, true)
    | some r =>
      if !isParent && !r.phy then (c, {}, true)
      else
        let garbage := (c.garb.find? (·.1 == id)).isSome
        let c1 := c.dropId id
        -- the parent's index goes with its last child
        let p : Cnr × Diff × Bool :=
          if r.parentId != 0 && c1.parentInfo r.parentId == .none then c1.deleteMetadata fuel r.parentId true
          else (c1, {}, false)
        let d2 := (recDiff r garbage).add p.2.1
        (p.1, if r.phy && !garbage then { d2 with payload := d2.payload - r.size } else d2, false)

/-- `supplementRemovedObjects`: EC parts of the listed parents are removed with them -/
def Cnr.supplement (c : Cnr) (ids : List Nat) : List Nat :=
  ids.foldl (fun res parent =>
    res ++ ((c.recs.filter fun r => r.parentId == parent && r.ec.isSome && !ids.contains r.id).map (·.id))) ids

/-- `DB.Delete` -/
def dbDelete (db : DB) (cn : Nat) (ids : List Nat) : DB :=
  match getCnr? db cn with
  | none => db
  | some c =>
    let all := c.supplement ids
    let (c', d) := all.foldl (fun (acc : Cnr × Diff) id =>
      let (cur, dsum) := acc
      let (cur', d, _) := cur.deleteMetadata 4 id false
      (cur', dsum.add d)) (c, {})
    setCnr db cn { c' with ctr := c'.ctr.apply d }

/-! ### revive -/

inductive ReviveRes | notRemoved | containerGarbage | garbage | graveyard (tomb : Nat) | error
  deriving DecidableEq, Repr

/-- delete tombstone objects of `id` one by one (at most `fuel`, each deletion removes one) -/
def Cnr.dropTombs (c : Cnr) (id : Nat) : Nat → Cnr
  | 0 => c
  | fuel + 1 =>
    match c.assocTyped 0 id .tombstone with
    | some tomb =>
      let r := c.deleteMetadata 4 tomb false
      ({ r.1 with ctr := r.1.ctr.apply r.2.1 } : Cnr).dropTombs id fuel
    | none => c

/-- first step of `ReviveObject`: an object in the graveyard loses its tombstone objects — all of them; the
first one is reported -/
def Cnr.reviveDropTomb (c : Cnr) (id : Nat) (st : Status) : Cnr × ReviveRes :=
  if st == .tombstoned then
    match c.assocTyped 0 id .tombstone with
    | some tomb => (c.dropTombs id c.recs.length, .graveyard tomb)
    | none => (c, .error)
  else (c, .garbage)

/-- counters after a revival: garbage counter − 1; `reviveCounters` restores only the payload of a physical
object (typed counters were never decremented, a virtual parent's payload was never subtracted) -/
def Cnr.reviveCtr (c1 : Cnr) (id : Nat) : Counters :=
  let ctr1 := { c1.ctr with gc := updCounter c1.ctr.gc (-1) }
  match c1.find? id with
  | none => ctr1
  | some r => if r.phy then { ctr1 with payload := updCounter ctr1.payload r.size } else ctr1

/-- `ReviveObject` inside a live bucket -/
def Cnr.revive (c : Cnr) (id : Nat) : Option Cnr × ReviveRes :=
  let st := c.inGarbage id
  if st == .available then (none, .notRemoved)
  else
    let p := c.reviveDropTomb id st
    if p.2 == .error then (none, .error)
    else (some { p.1 with ctr := p.1.reviveCtr id, garb := p.1.garb.filter (·.1 != id) }, p.2)

/-- `DB.ReviveObject` -/
def dbRevive (db : DB) (cn id : Nat) : DB × ReviveRes :=
  match getCnr? db cn with
  | none => (db, .notRemoved)
  | some c =>
    if c.gcMark then (db, .containerGarbage)
    else match c.revive id with
      | (some c', res) => (setCnr db cn c', res)
      | (none, res) => (db, res)

/-! ### iteration views -/

/-- the scan of `selectNFromBucket` over the candidate ids (ascending): stop once `limit` ids are collected;
an id `inGarbage` reports as removed is skipped *but still becomes the last id looked at* -/
def listScan (P : Nat → Bool) (limit : Nat) (ids : List Nat) (st : List Nat × Nat) : List Nat × Nat :=
  ids.foldl (fun (st : List Nat × Nat) i =>
    if st.1.length ≥ limit then st
    else if !P i then (st.1, i)
    else (st.1 ++ [i], i)) st

/-- the ids `selectNFromBucket` iterates: physical objects with id > `after` (0 = from the start) -/
def Cnr.listCands (c : Cnr) (after : Nat) : List Nat := (c.recs.filter fun r => r.phy && r.id > after).map (·.id)

/-- one page of `selectNFromBucket`: physical objects with id > `after` (0 = from the start), skipping the
ones `inGarbage` reports as removed; returns the page and the last id *looked at*. -/
def Cnr.listPage (c : Cnr) (after limit : Nat) (acc : List Nat) : List Nat × Nat :=
  if c.gcMark then (acc, after)
  else listScan (fun i => c.inGarbage i == .available) limit (c.listCands after) (acc, after)

/-- one bucket of `listWithCursor`'s loop; state = (result so far, cursor, `len(result) >= count` seen) -/
def dbListStep (count : Nat) (st : List (Nat × Nat) × (Nat × Nat) × Bool) (b : Nat × Cnr) :
    List (Nat × Nat) × (Nat × Nat) × Bool :=
  if st.2.2 then st
  else
    let after := if b.1 != st.2.1.1 then 0 else st.2.1.2
    let pg := b.2.listPage after (count - st.1.length) []
    let acc' := st.1 ++ pg.1.map fun i => (b.1, i)
    (acc', (b.1, pg.2), decide (acc'.length ≥ count))

/-- `DB.ListWithCursor(count, cursor)`: addresses of the page and the new cursor (`none` = end of listing) -/
def dbList (db : DB) (count : Nat) (cursor : Option (Nat × Nat)) : List (Nat × Nat) × Option (Nat × Nat) :=
  let start := cursor.getD (0, 0)
  let buckets := db.filter fun b => b.1 ≥ start.1 && b.1 != 0
  let res := buckets.foldl (dbListStep count) ([], start, false)
  if res.1.isEmpty then ([], none) else (res.1, some res.2.1)

/-- value of an expiration attribute in the integer index: `parseInt` accepts it and it is a non-negative
number below 2^64 -/
def expIndexVal (s : String) : Option Nat :=
  match Int256.parseDecimal s.toList with
  | some z => if !z.neg && z.mag < 18446744073709551616 then some z.mag else none
  | none => none

/-- `iterateExpired` in one bucket: ids with index value < epoch, in (value, id) order, unlocked only -/
def Cnr.expired (c : Cnr) (epoch : Nat) : List (Nat × OType) :=
  if c.gcMark then []
  else
    let cands := c.recs.filterMap fun r => (r.exp.bind expIndexVal).map fun v => (v, r)
    let sorted := cands.mergeSort fun a b => a.1 < b.1 || (a.1 == b.1 && a.2.id ≤ b.2.id)
    ((sorted.takeWhile fun x => x.1 < epoch).filter fun x => !c.objectLocked epoch x.2.id).map fun x => (x.2.id, x.2.typ)

/-- `DB.IterateExpired` -/
def dbExpired (db : DB) (epoch : Nat) : List (Nat × Nat × OType) :=
  db.flatMap fun b => if b.1 == 0 then [] else (b.2.expired epoch).map fun x => (b.1, x.1, x.2)

/-- `DB.GetGarbage(limit)`: per container the garbage ids (or all object ids of a dead container) -/
def dbGarbage (db : DB) (limit : Nat) : List (Nat × List Nat) :=
  if limit = 0 then []
  else
    (db.foldl (fun (st : List (Nat × List Nat) × Nat × Bool) b =>
      let (res, n, stop) := st
      if stop || b.1 == 0 then st
      else
        let ids := if b.2.gcMark then b.2.recs.map (·.id) else b.2.garb.map (·.1)
        let objs := ids.take limit
        if !objs.isEmpty then (res ++ [(b.1, objs)], n + objs.length, decide (n + objs.length ≥ limit))
        else if b.2.gcMark then (res ++ [(b.1, [])], n, false)
        else st) ([], 0, false)).1

/-- `DB.ObjectCounters` -/
def dbCounters (db : DB) : Counters :=
  db.foldl (fun (a : Counters) b =>
    { phy := a.phy + b.2.ctr.phy, root := a.root + b.2.ctr.root, ts := a.ts + b.2.ctr.ts,
      lock := a.lock + b.2.ctr.lock, link := a.link + b.2.ctr.link, gc := a.gc + b.2.ctr.gc,
      payload := a.payload + b.2.ctr.payload }) {}

/-- `syncContainerCounters(force = true)`: the counters are recounted from the index. A removed container
keeps only its garbage counter (= its physical objects); the payload counts the physical objects that are
neither tombstoned nor carry a removal mark of either kind (repaired: a redundant-copy mark counts too) -/
def Cnr.syncCounters (c : Cnr) : Cnr :=
  let phy := (c.recs.filter (·.phy)).length
  if c.gcMark then { c with ctr := { gc := phy } }
  else
    { c with ctr :=
        { phy := phy,
          root := (c.recs.filter (·.root)).length,
          ts := (c.recs.filter (·.typ == .tombstone)).length,
          lock := (c.recs.filter (·.typ == .lock)).length,
          link := (c.recs.filter (·.typ == .link)).length,
          gc := c.garb.length,
          payload := ((c.recs.filter fun r => r.phy && c.inGarbage r.id == .available &&
            !(c.garb.any fun g => g.1 == r.id)).map (·.size)).sum } }

/-- `DB.SyncCounters` -/
def dbSyncCounters (db : DB) : DB := db.map fun b => (b.1, b.2.syncCounters)

/-- `DB.GetContainerInfo`: (storage size, objects number) -/
def dbContainerInfo (db : DB) (cn : Nat) : Nat × Nat :=
  match getCnr? db cn with
  | none => (0, 0)
  | some c => if c.gcMark then (0, 0) else (c.ctr.payload, c.ctr.phy - c.ctr.gc)

end NeoFS.Meta

namespace NeoFS.Meta

/-! ### histories -/

inductive Op
  | setEpoch (e : Nat)
  | put (cn : Nat) (chain : List Hdr)
  | mark (cn : Nat) (ids : List Nat) (redundant : Bool)
  | inhumeCnr (cn : Nat)
  | deleteCnr (cn : Nat)
  | delete (cn : Nat) (ids : List Nat)
  | revive (cn id : Nat)
  | syncCounters

structure St where
  db : DB := []
  epoch : Nat := 0

def step (s : St) : Op → St
  | .setEpoch e => { s with epoch := e }
  | .put cn chain => { s with db := (dbPut s.db s.epoch cn chain).1 }
  | .mark cn ids r => { s with db := dbMarkGarbage s.db s.epoch cn ids r }
  | .inhumeCnr cn => { s with db := dbInhumeContainer s.db cn }
  | .deleteCnr cn => { s with db := dbDeleteContainer s.db cn }
  | .delete cn ids => { s with db := dbDelete s.db cn ids }
  | .revive cn id => { s with db := (dbRevive s.db cn id).1 }
  | .syncCounters => { s with db := dbSyncCounters s.db }

/-- the state after a history, from the empty metabase -/
def run (ops : List Op) : St := ops.foldl step {}

end NeoFS.Meta
