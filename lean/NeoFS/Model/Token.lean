import NeoFS.Model.ACL
/-
Model of session / bearer token verification of the object service:

* `pkg/services/object/acl/v2/service.go`  `VerifySessionV1TokenMessage` (`decodeAndVerifySessionTokenCommon`,
  `verifySessionTokenAgainstRequest`), `VerifySessionTokenMessage` (`decodeAndVerifySessionTokenV2Common`),
  `VerifyBearerTokenMessage` (`decodeAndVerifyBearerTokenCommon`), `getRequestCredentials`
* `pkg/services/object/acl/v2/util.go`     `assertVerb`, `assertSessionRelation`
* `internal/crypto/tokens.go`              `AuthenticateToken`, `AuthenticateTokenV2` (ECDSA schemes)
* `internal/sessions/cache.go`             the verdict cache shared with the object format validator
* SDK `session.Object`, `session/v2.Token` (`Validate` for tokens without a delegation chain), `bearer.Token`: modelled,
  tied by the correspondence run.

Signature verification is an ideal predicate (`sigOK`); accounts, keys, containers and objects are numbers.
-/
namespace NeoFS.ACL

/-! ## Session token V1 (`session.Object`) -/

/-- verbs of `session.ObjectVerb`: 1 put 2 get 3 head 4 search 5 delete 6 range 7 rangehash -/
structure SessV1 where
  issuer : Nat
  signer : Option Nat      -- account derived from the signing key
  sigOK : Bool
  nbf : Nat
  iat : Nat
  exp : Nat
  cnr : Nat
  objs : List Nat          -- empty: any object of the container
  verb : Nat
  deriving Repr

inductive TokRes
  | ok
  | expired          -- `apistatus.ErrSessionTokenExpired`
  | notYetValid      -- nbf/iat ahead of the current epoch / time
  | authFail         -- signature does not verify or the key is not the issuer's
  | invalid          -- structural validation (`Token.Validate`) failed
  | wrongContainer
  | wrongObject
  | wrongVerb
  deriving DecidableEq, Repr

/-- `assertVerb`: which token verbs admit the request verb -/
def verbAdmits (reqVerb tokVerb : Nat) : Bool :=
  if reqVerb == 3 then tokVerb == 3 || tokVerb == 2 || tokVerb == 5 || tokVerb == 6   -- HEAD by head, get, delete, range
  else if reqVerb == 4 then tokVerb == 4 || tokVerb == 5                                -- SEARCH by search, delete
  else tokVerb == reqVerb

/-- `assertSessionRelation`, object part: skipped for delete tokens and for requests without an object -/
def objectRelated (t : SessV1) (reqObj : Option Nat) : Bool :=
  t.verb == 5 ||
    match reqObj with
    | none => true
    | some o => t.objs.isEmpty || t.objs.contains o

/-- the epoch-independent part of `decodeAndVerifySessionTokenCommon` (what the cache may hold) -/
def v1Auth (t : SessV1) : Bool := authOK t.sigOK t.signer t.issuer

/-- lifetime test of a V1 token at the current epoch -/
def v1Lifetime (t : SessV1) (cur : Nat) : TokRes :=
  if t.exp < cur then .expired
  else if !(t.nbf ≤ cur && t.iat ≤ cur) then .notYetValid
  else .ok

/-- `VerifySessionV1TokenMessage`: authentication (cached), then the lifetime at the current epoch (on every request),
then the relation to the request's container and object, then the verb -/
def v1Check (t : SessV1) (cur reqVerb reqCnr : Nat) (reqObj : Option Nat) : TokRes :=
  if !v1Auth t then .authFail
  else match v1Lifetime t cur with
  | .ok =>
    if t.cnr != reqCnr then .wrongContainer
    else if !objectRelated t reqObj then .wrongObject
    else if !verbAdmits reqVerb t.verb then .wrongVerb
    else .ok
  | e => e

/-! ## Session token V2 (`session/v2.Token`), tokens without a delegation chain -/

structure CtxV2 where
  cnr : Nat                -- 0: any container
  verbs : List Nat
  deriving Repr

structure SessV2 where
  version : Nat := 0
  issuer : Nat
  signer : Option Nat
  sigOK : Bool
  iat : Nat                -- seconds
  nbf : Nat
  exp : Nat
  subjects : List Nat
  contexts : List CtxV2
  deriving Repr

def strictAsc : List Nat → Bool
  | a :: b :: rest => a < b && strictAsc (b :: rest)
  | _ => true

/-- contexts sorted by container, containers unique (`validateFields`) -/
def ctxSorted : List CtxV2 → Bool
  | a :: b :: rest => a.cnr < b.cnr && ctxSorted (b :: rest)
  | _ => true

/-- `Token.validateFields` for the fields the generator varies (the rest is kept valid) -/
def v2FieldsOK (t : SessV2) : Bool :=
  t.version == 0 && t.issuer != 0 && !t.subjects.isEmpty && t.subjects.all (· != 0)
    && t.iat != 0 && t.nbf != 0 && t.exp != 0 && t.nbf ≤ t.exp && t.iat ≤ t.exp
    && !t.contexts.isEmpty && t.contexts.all (fun c => !c.verbs.isEmpty && strictAsc c.verbs)
    && ctxSorted t.contexts
    && (match t.contexts with
        | w :: rest => w.cnr != 0 || rest.all (fun c => c.verbs != w.verbs)
        | [] => true)

/-- `Token.AssertVerb` -/
def v2Admits (t : SessV2) (reqVerb reqCnr : Nat) : Bool :=
  t.contexts.any fun c => (c.cnr == 0 || c.cnr == reqCnr) && c.verbs.contains reqVerb

/-- `VerifySessionTokenMessage`: validation and authentication (cached), then lifetime at chain time, then the verb -/
def v2Check (t : SessV2) (now reqVerb reqCnr : Nat) : TokRes :=
  if !v2FieldsOK t then .invalid
  else if !authOK t.sigOK t.signer t.issuer then .authFail
  else if t.exp < now then .expired
  else if !(t.iat ≤ now && t.nbf ≤ now) then .notYetValid
  else if !v2Admits t reqVerb reqCnr then .wrongVerb
  else .ok

/-! ## Bearer token -/

/-- `VerifyBearerTokenMessage` -/
def bearerCheck (b : Bearer) (cur : Nat) : TokRes :=
  if !authOK b.sigOK b.signer b.issuer then .authFail
  else if !lifetimeOK b.nbf b.iat b.exp cur then .expired      -- one error for every lifetime failure ("bearer token has expired")
  else .ok

/-! ## The verdict cache

Verdicts are cached by the hash of the token bytes (here: by a token identifier) and purged by the new-epoch handler,
which runs asynchronously to the epoch counter. The cache is shared with the object format validator, which stores the
result of `AuthenticateToken` alone under the same key. The model keeps exactly that: the cached value is the
epoch-independent authentication verdict; lifetimes are tested on every request, outside the cache. -/

abbrev Cache := List (Nat × Bool)

def Cache.get? (c : Cache) (id : Nat) : Option Bool := (c.find? (·.1 == id)).map (·.2)

/-- `ObjectSessionsCache.AuthenticateTokenV1`: compute on a miss, store, return -/
def cachedAuth (c : Cache) (id : Nat) (auth : Bool) : Cache × Bool :=
  match c.get? id with
  | some v => (c, v)
  | none => ((id, auth) :: c, auth)

/-- every entry of the cache is the authentication verdict of its token -/
def Cache.consistent (c : Cache) (authOf : Nat → Bool) : Prop := ∀ id v, c.get? id = some v → v = authOf id

/-- `VerifySessionV1TokenMessage` with the cache in front of the authentication -/
def v1CheckCached (c : Cache) (id : Nat) (t : SessV1) (cur reqVerb reqCnr : Nat) (reqObj : Option Nat) : Cache × TokRes :=
  let (c', a) := cachedAuth c id (v1Auth t)
  (c', if !a then .authFail
    else match v1Lifetime t cur with
    | .ok =>
      if t.cnr != reqCnr then .wrongContainer
      else if !objectRelated t reqObj then .wrongObject
      else if !verbAdmits reqVerb t.verb then .wrongVerb
      else .ok
    | e => e)

/-- The caching the code had before the repair: the WHOLE common verdict, lifetime test at the caching epoch included,
was stored (and the object format validator stored a bare authentication verdict under the same key). -/
def v1CheckCachedOld (c : List (Nat × TokRes)) (id : Nat) (t : SessV1) (cur reqVerb reqCnr : Nat) (reqObj : Option Nat) :
    List (Nat × TokRes) × TokRes :=
  let common : TokRes := match v1Lifetime t cur with
    | .ok => if !v1Auth t then .authFail else .ok
    | e => e
  let (c', v) := match (c.find? (·.1 == id)).map (·.2) with
    | some v => (c, v)
    | none => ((id, common) :: c, common)
  (c', match v with
    | .ok =>
      if t.cnr != reqCnr then .wrongContainer
      else if !objectRelated t reqObj then .wrongObject
      else if !verbAdmits reqVerb t.verb then .wrongVerb
      else .ok
    | e => e)

/-! ## Effect of an accepted session token: the request is judged as the issuer's (`getRequestCredentials`) -/

/-- author and key the ACL decision uses: the session issuer when a session token was accepted, the request signer otherwise -/
def credentials (signer : Nat) (sess : Option (Nat × TokRes)) : Option Nat :=
  match sess with
  | none => some signer
  | some (issuer, .ok) => some issuer
  | some (_, _) => none        -- the request is rejected before any ACL decision

end NeoFS.ACL
