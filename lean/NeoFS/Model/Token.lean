import NeoFS.Model.ACL
/-
Model of session / bearer token verification of the object service:

* `pkg/services/object/acl/v2/service.go`  `VerifySessionV1TokenMessage` (`decodeAndVerifySessionTokenCommon`,
  `verifySessionTokenAgainstRequest`), `VerifySessionTokenMessage` (`decodeAndVerifySessionTokenV2Common`),
  `VerifyBearerTokenMessage` (`decodeAndVerifyBearerTokenCommon`), `getRequestCredentials`
* `pkg/services/object/acl/v2/util.go`     `assertVerb`, `assertSessionRelation`
* `internal/crypto/tokens.go`              `AuthenticateToken`, `AuthenticateTokenV2` (ECDSA schemes)
* `internal/sessions/cache.go`             the verdict cache shared with the object format validator
* SDK `session.Object`, `session/v2.Token` (`Validate` for tokens without a delegation chain), `bearer.Token`: modelled,
  tied by the correspondence run.

Signature verification is an ideal predicate (`sigOK`); accounts, keys, containers and objects are numbers.
-/
namespace NeoFS.ACL

/-! ## Session token V1 (`session.Object`) -/

/-- verbs of `session.ObjectVerb`: 1 put 2 get 3 head 4 search 5 delete 6 range 7 rangehash -/
structure SessV1 where
  issuer : Nat
  signer : Option Nat      -- account derived from the signing key
  sigOK : Bool
  nbf : Nat
  iat : Nat
  exp : Nat
  cnr : Nat
  objs : List Nat          -- empty: any object of the container
  verb : Nat
  deriving Repr

inductive TokRes
  | ok
  | expired          -- `apistatus.ErrSessionTokenExpired`
  | notYetValid      -- nbf/iat ahead of the current epoch / time
  | authFail         -- signature does not verify or the key is not the issuer's
  | invalid          -- structural validation (`Token.Validate`) failed
  | wrongContainer
  | wrongObject
  | wrongVerb
  deriving DecidableEq, Repr

/-- `assertVerb`: which token verbs admit the request verb -/
def verbAdmits (reqVerb tokVerb : Nat) : Bool :=
  if reqVerb == 3 then tokVerb == 3 || tokVerb == 2 || tokVerb == 5 || tokVerb == 6   -- HEAD by head, get, delete, range
  else if reqVerb == 4 then tokVerb == 4 || tokVerb == 5                                -- SEARCH by search, delete
  else tokVerb == reqVerb

/-- `assertSessionRelation`, object part: skipped for delete tokens and for requests without an object -/
def objectRelated (t : SessV1) (reqObj : Option Nat) : Bool :=
  t.verb == 5 ||
    match reqObj with
    | none => true
    | some o => t.objs.isEmpty || t.objs.contains o

/-- the epoch-independent part of `decodeAndVerifySessionTokenCommon` (what the cache may hold) -/
def v1Auth (t : SessV1) : Bool := authOK t.sigOK t.signer t.issuer

/-- lifetime test of a V1 token at the current epoch -/
def v1Lifetime (t : SessV1) (cur : Nat) : TokRes :=
  if t.exp < cur then .expired
  else if !(t.nbf ≤ cur && t.iat ≤ cur) then .notYetValid
  else .ok

/-- `VerifySessionV1TokenMessage`: authentication (cached), then the lifetime at the current epoch (on every request),
then the relation to the request's container and object, then the verb -/
def v1Check (t : SessV1) (cur reqVerb reqCnr : Nat) (reqObj : Option Nat) : TokRes :=
  if !v1Auth t then .authFail
  else match v1Lifetime t cur with
  | .ok =>
    if t.cnr != reqCnr then .wrongContainer
    else if !objectRelated t reqObj then .wrongObject
    else if !verbAdmits reqVerb t.verb then .wrongVerb
    else .ok
  | e => e

/-! ## Session token V2 (`session/v2.Token`), tokens without a delegation chain -/

structure CtxV2 where
  cnr : Nat                -- 0: any container
  verbs : List Nat
  deriving Repr

structure SessV2 where
  version : Nat := 0
  issuer : Nat
  signer : Option Nat
  sigOK : Bool
  iat : Nat                -- seconds
  nbf : Nat
  exp : Nat
  subjects : List Nat
  contexts : List CtxV2
  deriving Repr

def strictAsc : List Nat → Bool
  | a :: b :: rest => a < b && strictAsc (b :: rest)
  | _ => true

/-- contexts sorted by container, containers unique (`validateFields`) -/
def ctxSorted : List CtxV2 → Bool
  | a :: b :: rest => a.cnr < b.cnr && ctxSorted (b :: rest)
  | _ => true

/-- `Token.validateFields` for the fields the generator varies (the rest is kept valid) -/
def v2FieldsOK (t : SessV2) : Bool :=
  t.version == 0 && t.issuer != 0 && !t.subjects.isEmpty && t.subjects.all (· != 0)
    && t.iat != 0 && t.nbf != 0 && t.exp != 0 && t.nbf ≤ t.exp && t.iat ≤ t.exp
    && !t.contexts.isEmpty && t.contexts.all (fun c => !c.verbs.isEmpty && strictAsc c.verbs)
    && ctxSorted t.contexts
    && (match t.contexts with
        | w :: rest => w.cnr != 0 || rest.all (fun c => c.verbs != w.verbs)
        | [] => true)

/-- `Token.AssertVerb` -/
def v2Admits (t : SessV2) (reqVerb reqCnr : Nat) : Bool :=
  t.contexts.any fun c => (c.cnr == 0 || c.cnr == reqCnr) && c.verbs.contains reqVerb

/-- `VerifySessionTokenMessage`: validation and authentication (cached), then lifetime at chain time, then the verb -/
def v2Check (t : SessV2) (now reqVerb reqCnr : Nat) : TokRes :=
  if !v2FieldsOK t then .invalid
  else if !authOK t.sigOK t.signer t.issuer then .authFail
  else if t.exp < now then .expired
  else if !(t.iat ≤ now && t.nbf ≤ now) then .notYetValid
  else if !v2Admits t reqVerb reqCnr then .wrongVerb
  else .ok

/-! ## Session token V2 with a delegation chain

A delegated token carries its origin token (`Token.Origin`), that one its own origin, ... down to the root token whose
issuer (`OriginalIssuer`) is the account the request is judged as. A chain is the outermost token and the list of its
origins, nearest first (root last). Followed here:

* SDK `Token.Validate` = `validate(depth)` from depth 0: depth bound (`depth > MaxDelegationDepth` refuses, so at most
  `MaxDelegationDepth` origins), `validateFields` of every token, a `final` token may not be an origin,
  `validateDelegatedContexts` (merge walk over the two sorted context lists, verbs by `findUnauthorizedVerb`), the issuer
  must be a (user id) subject of its origin, the origin's lifetime must enclose the token's;
* `AuthenticateTokenV2` (internal/crypto/tokens.go): the origin first (recursively, WITHOUT any depth bound), then the
  token itself - every token of the chain must be signed by its own issuer's key;
* `VerifySessionTokenMessage`: validation, authentication, then lifetime and verb of the OUTERMOST token only.

NNS subjects are not modelled (subjects are accounts). -/

/-- `session/v2.MaxDelegationDepth` (tied by the `v2depth` line of the correspondence run) -/
def maxDelegationDepth : Nat := 4

/-- one token of a chain: the fields of `SessV2` plus the `final` flag -/
structure LinkV2 where
  t : SessV2
  final : Bool := false
  deriving Repr

/-- `findUnauthorizedVerb(required, available) != nil`: two-pointer walk over the two (sorted) verb lists -/
def unauthVerb : List Nat → List Nat → Bool
  | [], _ => false
  | _ :: _, [] => true
  | r :: rs, a :: as => if r == a then unauthVerb rs as else if r < a then true else unauthVerb (r :: rs) as

/-- `validateDelegatedContexts`: `os` = the origin's contexts from `originIdx` on, `wild` = the verbs of the origin's
wildcard context if it has one -/
def delegCtxOK (wild : Option (List Nat)) : List CtxV2 → List CtxV2 → Bool
  | [], _ => true
  | d :: ds, os =>
    let os' := os.dropWhile (fun o => o.cnr < d.cnr)
    let viaWild : Bool := match wild with
      | some w => !unauthVerb d.verbs w && delegCtxOK wild ds os'
      | none => false
    match os' with
    | o :: _ => if o.cnr == d.cnr then !unauthVerb d.verbs o.verbs && delegCtxOK wild ds os' else viaWild
    | [] => viaWild

def wildVerbs : List CtxV2 → Option (List Nat)
  | c :: _ => if c.cnr == 0 then some c.verbs else none
  | [] => none

/-- what `validate` demands of a token `x` and its origin `o` (before descending into `o`) -/
def linkOK (x o : LinkV2) : Bool :=
  delegCtxOK (wildVerbs o.t.contexts) x.t.contexts o.t.contexts   -- verbs and containers only narrow
    && o.t.subjects.contains x.t.issuer                            -- the origin named this token's issuer
    && !(o.t.nbf > x.t.nbf || o.t.exp < x.t.exp)                   -- the origin's lifetime encloses this token's

/-- `Token.validate(depth)` on token `x` with origins `os` -/
def v2ChainValid : LinkV2 → List LinkV2 → Nat → Bool
  | x, [], depth => !(depth > maxDelegationDepth) && v2FieldsOK x.t && !(x.final && depth > 0)
  | x, o :: os, depth =>
    !(depth > maxDelegationDepth) && v2FieldsOK x.t && !(x.final && depth > 0) && linkOK x o && v2ChainValid o os (depth + 1)

/-- `AuthenticateTokenV2`: the origin chain first, then the token itself; no depth bound -/
def v2ChainAuth : LinkV2 → List LinkV2 → Bool
  | x, [] => authOK x.t.sigOK x.t.signer x.t.issuer
  | x, o :: os => v2ChainAuth o os && authOK x.t.sigOK x.t.signer x.t.issuer

/-- `Token.OriginalIssuer`: the issuer of the root token -/
def originalIssuer : LinkV2 → List LinkV2 → Nat
  | x, [] => x.t.issuer
  | _, o :: os => originalIssuer o os

/-- `VerifySessionTokenMessage` for a token with its delegation chain -/
def v2ChainCheck (x : LinkV2) (os : List LinkV2) (now reqVerb reqCnr : Nat) : TokRes :=
  if !v2ChainValid x os 0 then .invalid
  else if !v2ChainAuth x os then .authFail
  else if x.t.exp < now then .expired
  else if !(x.t.iat ≤ now && x.t.nbf ≤ now) then .notYetValid
  else if !v2Admits x.t reqVerb reqCnr then .wrongVerb
  else .ok

/-! ## Bearer token -/

/-- `VerifyBearerTokenMessage` -/
def bearerCheck (b : Bearer) (cur : Nat) : TokRes :=
  if !authOK b.sigOK b.signer b.issuer then .authFail
  else if !lifetimeOK b.nbf b.iat b.exp cur then .expired      -- one error for every lifetime failure ("bearer token has expired")
  else .ok

/-! ## The verdict cache

Verdicts are cached by the hash of the token bytes (here: by a token identifier) and purged by the new-epoch handler,
which runs asynchronously to the epoch counter. The cache is shared with the object format validator, which stores the
result of `AuthenticateToken` alone under the same key. The model keeps exactly that: the cached value is the
epoch-independent authentication verdict; lifetimes are tested on every request, outside the cache. -/

abbrev Cache := List (Nat × Bool)

def Cache.get? (c : Cache) (id : Nat) : Option Bool := (c.find? (·.1 == id)).map (·.2)

/-- `ObjectSessionsCache.AuthenticateTokenV1`: compute on a miss, store, return -/
def cachedAuth (c : Cache) (id : Nat) (auth : Bool) : Cache × Bool :=
  match c.get? id with
  | some v => (c, v)
  | none => ((id, auth) :: c, auth)

/-- every entry of the cache is the authentication verdict of its token -/
def Cache.consistent (c : Cache) (authOf : Nat → Bool) : Prop := ∀ id v, c.get? id = some v → v = authOf id

/-- `VerifySessionV1TokenMessage` with the cache in front of the authentication -/
def v1CheckCached (c : Cache) (id : Nat) (t : SessV1) (cur reqVerb reqCnr : Nat) (reqObj : Option Nat) : Cache × TokRes :=
  let (c', a) := cachedAuth c id (v1Auth t)
  (c', if !a then .authFail
    else match v1Lifetime t cur with
    | .ok =>
      if t.cnr != reqCnr then .wrongContainer
      else if !objectRelated t reqObj then .wrongObject
      else if !verbAdmits reqVerb t.verb then .wrongVerb
      else .ok
    | e => e)

/-- The caching the code had before the repair: the WHOLE common verdict, lifetime test at the caching epoch included,
was stored (and the object format validator stored a bare authentication verdict under the same key). -/
def v1CheckCachedOld (c : List (Nat × TokRes)) (id : Nat) (t : SessV1) (cur reqVerb reqCnr : Nat) (reqObj : Option Nat) :
    List (Nat × TokRes) × TokRes :=
  let common : TokRes := match v1Lifetime t cur with
    | .ok => if !v1Auth t then .authFail else .ok
    | e => e
  let (c', v) := match (c.find? (·.1 == id)).map (·.2) with
    | some v => (c, v)
    | none => ((id, common) :: c, common)
  (c', match v with
    | .ok =>
      if t.cnr != reqCnr then .wrongContainer
      else if !objectRelated t reqObj then .wrongObject
      else if !verbAdmits reqVerb t.verb then .wrongVerb
      else .ok
    | e => e)

/-! ## Effect of an accepted session token: the request is judged as the issuer's (`getRequestCredentials`) -/

/-- author and key the ACL decision uses: the session issuer when a session token was accepted, the request signer otherwise -/
def credentials (signer : Nat) (sess : Option (Nat × TokRes)) : Option Nat :=
  match sess with
  | none => some signer
  | some (issuer, .ok) => some issuer
  | some (_, _) => none        -- the request is rejected before any ACL decision

end NeoFS.ACL
