import NeoFS.Model.Meta
import NeoFS.Model.Grace
import NeoFS.Gen.ShardMode
/-
Model of a shard as seen through its work mode (`pkg/local_object_storage/shard`, properties C14 and C43).

State = the mode the shard reports (`s.info.Mode`), the modes its three components are actually in
(metabase `db.mode` + whether the bolt handle is usable, blobstor `FSTree.readOnly`, write-cache `c.mode` +
`c.fsTree.readOnly`), the stored data (metabase content = the relational model of `Model/Meta.lean`, blobstor and
write-cache = sets of addresses: an address always carries the same bytes) and the volatile GC state.

Every shard operation is a function following the code's guards.  The guards are not hard-wired: each is taken
from `Gen/ShardMode.lean`, which `harness/extract` regenerates from the source on every run (`put_guardRO`,
`deleteObjs_guardDegraded`, `removeGarbage_rwOnly`, `flushWorker_guardRO`, …) together with the mode constants
and bit predicates.  A guard removed from the code becomes `false` here and the frame theorem stops checking.

Background jobs are steps like any other: `gc` = one `removeGarbage` pass, `flushTick` = one pass of the
write-cache flush workers over everything cached, `epoch` = the new-epoch handler.
-/
namespace NeoFS.ShardMode
open NeoFS.Meta (DB Hdr)

abbrev isRO (m : Nat) : Bool := Gen.ShardMode.isReadOnly m
abbrev noMeta (m : Nat) : Bool := Gen.ShardMode.noMetabase m
abbrev modeRW : Nat := Gen.ShardMode.readWrite

abbrev Addr := Nat × Nat

inductive Err
  | ok | readOnly | degraded | notFound | alreadyRemoved | expired | locked | lockNonRegular | lockRemoval
  | notRemoved | cnrGarbage | wcDisabled
  /-- a component refused although the shard's own guard let the request through (blobstor read-only, metabase in
  another mode or closed): only reachable when reported and actual modes disagree -/
  | compRefused
  | injected | other
  deriving DecidableEq, Repr

def metaErr : Meta.Err → Err
  | .ok => .ok | .notFound => .notFound | .alreadyRemoved => .alreadyRemoved | .expired => .expired
  | .locked => .locked | .lockNonRegular => .lockNonRegular | .lockRemoval => .lockRemoval
  | .parentSplit => .other | .parentEC => .other | .other => .other

/-- injected component failure of one `SetMode` call -/
inductive Fault | none | metaEntry | metaOpen | blob | wc
  deriving DecidableEq, Repr

structure St where
  hasWC : Bool := true
  /-- `s.info.Mode`: what `GetMode` reports and what every shard-level guard reads -/
  mode : Nat := modeRW
  /-- `db.mode` of the metabase -/
  metaMode : Nat := modeRW
  /-- the bolt handle is open -/
  metaOpen : Bool := true
  /-- `FSTree.readOnly` of the blobstor -/
  blobRO : Bool := false
  /-- `cache.mode` -/
  wcMode : Nat := modeRW
  /-- `readOnly` of the write-cache's own file tree (only re-opened for modes with a metabase) -/
  wcStoreRO : Bool := false
  /-- the write-cache's background flush loop (scheduler + workers, `runFlushLoop`) is running: started by `Init`,
  stopped by `Close`; whether `Open` starts it again is the regenerated fact `wcOpen_startsFlushLoop` -/
  wcLoop : Bool := true
  db : DB := []
  blob : List Addr := []
  wc : List Addr := []
  /-- `gc.currentEpoch`, `gc.processedEpoch` (volatile) and the metabase's epoch source -/
  curEpoch : Nat := 0
  processedEpoch : Nat := 0
  metaEpoch : Nat := 0
  deriving Repr

/-- what is stored on disk -/
structure Persist where
  db : DB
  blob : List Addr
  wc : List Addr
  deriving DecidableEq, Repr

def St.persist (s : St) : Persist := ⟨s.db, s.blob, s.wc⟩

def addA (a : Addr) (l : List Addr) : List Addr := if l.contains a then l else a :: l
def delA (a : Addr) (l : List Addr) : List Addr := l.filter (· != a)

/-! ### components -/

/-- `cache.Put` -/
def wcPut (s : St) (a : Addr) : St × Bool :=
  if (Gen.ShardMode.wcPut_guardRO && isRO s.wcMode) || s.wcStoreRO then (s, false)
  else ({ s with wc := addA a s.wc }, true)

/-- `cache.Delete` (every caller ignores its error) -/
def wcDelete (s : St) (a : Addr) : St :=
  if (Gen.ShardMode.wcDelete_guardRO && isRO s.wcMode) || s.wcStoreRO then s
  else { s with wc := delA a s.wc }

/-- `FSTree.Put` of the blobstor -/
def blobPut (s : St) (a : Addr) : St × Bool :=
  if s.blobRO then (s, false) else ({ s with blob := addA a s.blob }, true)

/-- `FSTree.Delete` of the blobstor (errors ignored by the callers) -/
def blobDelete (s : St) (a : Addr) : St :=
  if s.blobRO then s else { s with blob := delA a s.blob }

inductive MetaAcc | ok | degraded | readOnly | closed
  deriving DecidableEq, Repr

/-- the metabase's own guard of a read -/
def metaRead (s : St) : MetaAcc :=
  if noMeta s.metaMode then .degraded else if !s.metaOpen then .closed else .ok

/-- the metabase's own guard of a write -/
def metaWrite (s : St) : MetaAcc :=
  if noMeta s.metaMode then .degraded else if isRO s.metaMode then .readOnly
  else if !s.metaOpen then .closed else .ok

/-- `flushSingle` of one cached object: write to the blobstor, then drop the cache file -/
def flushOne (st : St × Bool) (a : Addr) : St × Bool :=
  if !st.2 then st
  else
    let p := blobPut st.1 a
    if !p.2 then (p.1, false)
    else (if p.1.wcStoreRO then p.1 else { p.1 with wc := delA a p.1.wc }, true)

/-- `cache.flush`: stops at the first object the blobstor refuses -/
def wcFlushAll (s : St) : St × Bool := s.wc.foldl flushOne (s, true)

/-- one pass of the flush workers: every object on its own, failures only logged -/
def wcFlushEach (s : St) : St := s.wc.foldl (fun st a => (flushOne (st, true) a).1) s

/-! ### shard operations -/

/-- `Shard.deleteObjs` -/
def deleteObjs (s : St) (cn : Nat) (ids : List Nat) : St × Err :=
  if Gen.ShardMode.deleteObjs_guardRO && isRO s.mode then (s, .readOnly)
  else if Gen.ShardMode.deleteObjs_guardDegraded && noMeta s.mode then (s, .degraded)
  else if ids.isEmpty then (s, .ok)
  else
    let s1 := if s.hasWC then ids.foldl (fun st id => wcDelete st (cn, id)) s else s
    match metaWrite s1 with
    | .ok =>
      let res := match Meta.getCnr? s1.db cn with
        | some c => c.supplement ids
        | none => []
      let s2 := { s1 with db := Meta.dbDelete s1.db cn ids }
      let s3 := if s.hasWC then (res.drop ids.length).foldl (fun st id => wcDelete st (cn, id)) s2 else s2
      (res.foldl (fun st id => blobDelete st (cn, id)) s3, .ok)
    | _ => (s1, .compRefused)

/-- `Shard.Put` -/
def put (s : St) (cn : Nat) (h : Hdr) : St × Err :=
  if Gen.ShardMode.put_guardRO && isRO s.mode then (s, .readOnly)
  else
    let a := (cn, h.id)
    let c := if s.hasWC then wcPut s a else (s, false)
    let b := if c.2 then (c.1, true) else blobPut c.1 a
    if !b.2 then (b.1, .compRefused)
    else if noMeta s.mode then (b.1, .ok)
    else
      let rollback := blobDelete (if c.2 then wcDelete b.1 a else b.1) a
      match metaWrite b.1 with
      | .ok =>
        let r := Meta.dbPut b.1.db b.1.metaEpoch cn [h]
        if r.2 == .ok then ({ b.1 with db := r.1 }, .ok) else (rollback, metaErr r.2)
      | _ => (rollback, .compRefused)

/-- `Shard.MarkGarbage` -/
def markGarbage (s : St) (cn : Nat) (ids : List Nat) (redundant : Bool) : St × Err :=
  if Gen.ShardMode.markGarbage_guardRO && isRO s.mode then (s, .readOnly)
  else if Gen.ShardMode.markGarbage_guardDegraded && noMeta s.mode then (s, .degraded)
  else match metaWrite s with
    | .ok =>
      let s1 := { s with db := Meta.dbMarkGarbage s.db s.metaEpoch cn ids redundant }
      (if !redundant && s.hasWC then ids.foldl (fun st id => wcDelete st (cn, id)) s1 else s1, .ok)
    | _ => (s, .compRefused)

/-- `Shard.InhumeContainer` -/
def inhumeContainer (s : St) (cn : Nat) : St × Err :=
  if Gen.ShardMode.inhumeContainer_guardRO && isRO s.mode then (s, .readOnly)
  else if Gen.ShardMode.inhumeContainer_guardDegraded && noMeta s.mode then (s, .degraded)
  else match metaWrite s with
    | .ok => ({ s with db := Meta.dbInhumeContainer s.db cn }, .ok)
    | _ => (s, .compRefused)

/-- `Shard.DeleteContainer` -/
def deleteContainer (s : St) (cn : Nat) : St × Err :=
  if Gen.ShardMode.deleteContainer_guardRO && isRO s.mode then (s, .readOnly)
  else if Gen.ShardMode.deleteContainer_guardDegraded && noMeta s.mode then (s, .degraded)
  else match metaWrite s with
    | .ok => ({ s with db := Meta.dbInhumeContainer s.db cn }, .ok)
    | _ => (s, .compRefused)

/-- `Shard.ReviveObject` -/
def reviveObject (s : St) (cn id : Nat) : St × Err :=
  if Gen.ShardMode.reviveObject_guardRO && isRO s.mode then (s, .readOnly)
  else if Gen.ShardMode.reviveObject_guardDegraded && noMeta s.mode then (s, .degraded)
  else match metaWrite s with
    | .ok =>
      let r := Meta.dbRevive s.db cn id
      match r.2 with
      | .notRemoved => (s, .notRemoved)
      | .containerGarbage => (s, .cnrGarbage)
      | .error => (s, .other)
      | .garbage => ({ s with db := r.1 }, .ok)
      | .graveyard t => ((deleteObjs { s with db := r.1 } cn [t]).1, .ok)
    | _ => (s, .compRefused)

/-- `Shard.FlushWriteCache` -/
def flushWriteCache (s : St) : St × Err :=
  if !s.hasWC then (s, .wcDisabled)
  else if Gen.ShardMode.flushWriteCache_guardRO && isRO s.mode then (s, .readOnly)
  else if Gen.ShardMode.flushWriteCache_guardDegraded && noMeta s.mode then (s, .degraded)
  else
    let r := wcFlushAll s
    (r.1, if r.2 then .ok else .compRefused)

/-- background pass of the write-cache flush workers: needs the flush loop to be running (workers exist only
between `runFlushLoop` and `Close`) -/
def flushTick (s : St) : St :=
  if !s.hasWC then s
  else if !s.wcLoop then s
  else if Gen.ShardMode.flushWorker_guardRO && isRO s.wcMode then s
  else wcFlushEach s

/-- `Shard.Restore` of a dump holding the given objects: `Put` one by one, stop at the first error other than
"expired" / "already removed" -/
def restore (s : St) (cn : Nat) (hs : List Hdr) : St × Err :=
  if Gen.ShardMode.restore_guardRO && isRO s.mode then (s, .readOnly)
  else hs.foldl (fun (st : St × Err) h =>
    if st.2 != .ok then st
    else
      let r := put st.1 cn h
      (r.1, if r.2 == .expired || r.2 == .alreadyRemoved then .ok else r.2)) (s, .ok)

/-- consecutive expired tombstones of one container form one bin (`collectExpiredObjects`) -/
def tombBins : List (Nat × Nat × Meta.OType) → List (Nat × List Nat) → List (Nat × List Nat)
  | [], acc => acc.reverse
  | (cn, id, typ) :: rest, acc =>
    if typ != .tombstone then tombBins rest acc
    else match acc with
      | (c, ids) :: more => if c == cn then tombBins rest ((c, ids ++ [id]) :: more) else tombBins rest ((cn, [id]) :: acc)
      | [] => tombBins rest [(cn, [id])]

/-- `Shard.collectExpiredObjects` (no expired-objects callback installed) -/
def collectExpired (s : St) : St :=
  if (Gen.ShardMode.collectExpired_guardDegraded && noMeta s.mode) || s.processedEpoch == s.curEpoch then s
  else if s.processedEpoch > s.curEpoch then { s with processedEpoch := s.curEpoch }
  else
    let exp := match metaRead s with
      | .ok => (Meta.dbExpired s.db s.curEpoch).take 100
      | _ => []
    let s1 := if exp.isEmpty then { s with processedEpoch := s.curEpoch } else s
    (tombBins exp []).foldl (fun st b => (deleteObjs st b.1 b.2).1) s1

/-- `Shard.removeGarbage` -/
def removeGarbage (s : St) : St :=
  if Gen.ShardMode.removeGarbage_rwOnly && s.mode != modeRW then s
  else
    let s1 := collectExpired s
    match metaRead s1 with
    | .ok =>
      (Meta.dbGarbage s1.db 100).foldl (fun st b =>
        if b.2.isEmpty then
          (match metaWrite st with
           | .ok => { st with db := Meta.dbDeleteContainer st.db b.1 }
           | _ => st)
        else (deleteObjs st b.1 b.2).1) s1
    | _ => s1

/-- payment status of the run's fixed configuration: container 2 is unpaid since epoch 1 -/
def unpaidSince (cn : Nat) : Int := if cn == 2 then 1 else -1

/-- `Shard.setEpochEventHandler` (payments enabled) -/
def handleEpoch (s : St) (e : Nat) : St :=
  let s0 := { s with curEpoch := e, metaEpoch := e }
  if Gen.ShardMode.listContainers_guardDegraded && noMeta s0.mode then s0
  else match metaRead s0 with
    | .ok =>
      (s0.db.map (·.1)).foldl (fun st cn =>
        if cn != 0 && Grace.epochHandlerDiscards false false false (unpaidSince cn) e then (deleteContainer st cn).1 else st) s0
    | _ => s0

/-! ### reads -/

/-- `metaBase.Exists(addr, false)` through the component's guard -/
def metaExists (s : St) (a : Addr) : Bool × Err :=
  match metaRead s with
  | .ok => let r := Meta.dbExists s.db a.1 a.2 s.metaEpoch; (r.1, metaErr r.2)
  | _ => (false, .compRefused)

/-- `Shard.Get(addr, skipMeta=false)` -/
def get (s : St) (a : Addr) : Err :=
  let skip := noMeta s.mode
  let m := if skip then (false, Err.ok) else metaExists s a
  if !skip && m.2 != .ok then m.2
  else if !skip && !m.1 then .notFound      -- a write-cache copy the metabase does not know is not served
  else if s.hasWC && s.wc.contains a then .ok
  else if s.blob.contains a then .ok else .notFound

/-- `Shard.Head(addr, raw=false)` -/
def head (s : St) (a : Addr) : Err :=
  let skip := noMeta s.mode
  let m := if skip then (true, Err.ok) else metaExists s a
  if m.2 != .ok then m.2
  else if !m.1 then .notFound
  else if (s.hasWC && s.wc.contains a) || s.blob.contains a then .ok else .notFound

/-- `Shard.Exists(addr, false)` -/
def exists_ (s : St) (a : Addr) : Bool × Err :=
  if noMeta s.mode then (s.blob.contains a, .ok) else metaExists s a

/-- `Shard.IsLocked` -/
def isLocked (s : St) (a : Addr) : Bool × Err :=
  if Gen.ShardMode.isLocked_guardDegraded && noMeta s.mode then (false, .degraded)
  else match metaRead s with
    | .ok => (Meta.dbIsLocked s.db a.1 a.2 s.metaEpoch, .ok)
    | _ => (false, .compRefused)

/-- `Shard.ListWithCursor(100, nil)` (same guard shape as `List`/`Select`) -/
def list (s : St) : List Addr × Err :=
  if Gen.ShardMode.list_guardDegraded && noMeta s.mode then ([], .degraded)
  else match metaRead s with
    | .ok => ((Meta.dbList s.db 100 none).1, .ok)
    | _ => ([], .compRefused)

/-- `Shard.Select` (only the outcome class is observed) -/
def select (s : St) : Err :=
  if Gen.ShardMode.select_guardDegraded && noMeta s.mode then .degraded
  else match metaRead s with
    | .ok => .ok
    | _ => .compRefused

/-- `Shard.ListContainers` -/
def listContainers (s : St) : List Nat × Err :=
  if Gen.ShardMode.listContainers_guardDegraded && noMeta s.mode then ([], .degraded)
  else match metaRead s with
    | .ok => ((s.db.map (·.1)).filter (· != 0), .ok)
    | _ => ([], .compRefused)

/-- `Shard.ContainerInfo` -/
def containerInfo (s : St) (cn : Nat) : (Nat × Nat) × Err :=
  if Gen.ShardMode.containerInfo_guardDegraded && noMeta s.mode then ((0, 0), .degraded)
  else match metaRead s with
    | .ok => (Meta.dbContainerInfo s.db cn, .ok)
    | _ => ((0, 0), .compRefused)

/-! ### mode switch -/

/-- `meta.DB.SetMode` (`.ok` = switched).  A failed reopening leaves the metabase in the degraded state it is
really in (closed), see the fix recorded for C43. -/
def metaSetMode (s : St) (m : Nat) (f : Fault) : St × Err :=
  if f == .metaEntry then (s, .injected)
  else if s.metaMode == m then (s, .ok)
  else if noMeta m then ({ s with metaMode := m, metaOpen := false }, .ok)
  else if f == .metaOpen then
    ({ s with metaOpen := false, metaMode := Gen.ShardMode.degradedReadOnly }, .injected)
  else ({ s with metaMode := m, metaOpen := true }, .ok)

/-- `Shard.setModeStorage`: the blobstor is (re)opened as the target mode requires; whether that needs a reopening
is decided by how the blobstor is actually opened (fix recorded for C43), so the outcome is the same either way -/
def blobSetMode (s : St) (m : Nat) (f : Fault) : St × Err :=
  if f == .blob then (s, .injected)
  else ({ s with blobRO := isRO m }, .ok)

/-- `cache.SetMode`: flush before entering a mode without metabase; the cache's file tree is only re-opened for
modes with a metabase -/
def wcSetMode (s : St) (m : Nat) (f : Fault) : St × Err :=
  if f == .wc then (s, .injected)
  else
    let r := if noMeta m && !noMeta s.wcMode then wcFlushAll s else (s, true)
    if !r.2 then (r.1, .compRefused)
    else if noMeta m then ({ r.1 with wcMode := m }, .ok)
    else ({ r.1 with wcMode := m, wcStoreRO := isRO m }, .ok)

inductive Comp | mb | bs | wc
  deriving DecidableEq, Repr

def compSetMode (s : St) (m : Nat) (f : Fault) : Comp → St × Err
  | .mb => metaSetMode s m f
  | .bs => blobSetMode s m f
  | .wc => wcSetMode s m f

/-- the order `Shard.setMode` switches the components in -/
def order (hasWC : Bool) (m : Nat) : List Comp :=
  let base := if hasWC then [Comp.mb, Comp.bs, Comp.wc] else [Comp.mb, Comp.bs]
  if m != modeRW then base.reverse else base

/-- run the components in order, stop at the first failure (no roll-back) -/
def runComps (m : Nat) (f : Fault) : St × Err → List Comp → St × Err
  | st, [] => st
  | st, c :: rest => if st.2 != .ok then st else runComps m f (compSetMode st.1 m f c) rest

/-- `Shard.SetMode` -/
def setMode (s : St) (m : Nat) (f : Fault) : St × Err :=
  let r := runComps m f (s, .ok) (order s.hasWC m)
  if r.2 == .ok then ({ r.1 with mode := m }, .ok) else r

/-- every component freshly opened for writing and initialized; the GC state starts anew -/
def restartBase (s : St) : St :=
  { s with mode := modeRW, metaMode := modeRW, metaOpen := true, blobRO := false, wcMode := modeRW,
           wcStoreRO := false, wcLoop := Gen.ShardMode.wcInit_startsFlushLoop, curEpoch := 0, processedEpoch := 0 }

/-- stop the shard and start it again on the same directory with `m` as the CONFIGURED mode: every component is
opened for writing and initialized, then `Init` switches them to the configured mode -/
def restart (s : St) (m : Nat) : St × Err :=
  if m == modeRW then (restartBase s, .ok) else setMode (restartBase s) m .none

/-- `Shard.Close` followed by `Shard.Open` WITHOUT `Init` — what `StorageEngine.BlockExecution` /
`ResumeExecution` do to every shard (facts `engineBlock_closesShards`, `engineResume_opensShards`,
`engineResume_initsShards`).  `Open` opens every component for writing whatever the shard's mode is and does not
apply the mode again: the reported mode stays, the blobstor is writable, the metabase keeps its own mode value with
a freshly opened handle, the write-cache is back in read-write with a writable store.  The flush loop stopped by
`Close` is started again only if `cache.Open` does so (fact `wcOpen_startsFlushLoop`) or if `Shard.Open` initializes
components (facts `shardOpen_initsOrSetsMode`, `wcInit_startsFlushLoop`). -/
def reopen (s : St) : St :=
  { s with blobRO := false, metaOpen := true,
           wcMode := if s.hasWC then modeRW else s.wcMode,
           wcStoreRO := if s.hasWC then false else s.wcStoreRO,
           wcLoop := Gen.ShardMode.wcOpen_startsFlushLoop ||
             (Gen.ShardMode.shardOpen_initsOrSetsMode && Gen.ShardMode.wcInit_startsFlushLoop) }

/-! ### histories -/

inductive Op
  | put (cn : Nat) (h : Hdr)
  | get (a : Addr) | head (a : Addr) | exists_ (a : Addr) | isLocked (a : Addr)
  | delete (cn : Nat) (ids : List Nat)
  | mark (cn : Nat) (ids : List Nat) (redundant : Bool)
  | inhumeCnr (cn : Nat) | deleteCnr (cn : Nat)
  | revive (cn id : Nat)
  | list | select | listCnr | cnrInfo (cn : Nat)
  | flush | flushTick | gc | epoch (e : Nat)
  | restore (cn : Nat) (hs : List Hdr)
  | setMode (m : Nat) (f : Fault)
  | restart (m : Nat)
  /-- close every component and open it again without `Init` (engine maintenance cycle) -/
  | reopen
  /-- let the real background activity run for one tick of the write-cache flush scheduler -/
  | settle

/-- one operation: new state and outcome class -/
def step (s : St) : Op → St × Err
  | .put cn h => put s cn h
  | .get a => (s, get s a)
  | .head a => (s, head s a)
  | .exists_ a => (s, (exists_ s a).2)
  | .isLocked a => (s, (isLocked s a).2)
  | .delete cn ids => deleteObjs s cn ids
  | .mark cn ids r => markGarbage s cn ids r
  | .inhumeCnr cn => inhumeContainer s cn
  | .deleteCnr cn => deleteContainer s cn
  | .revive cn id => reviveObject s cn id
  | .list => (s, (list s).2)
  | .select => (s, select s)
  | .listCnr => (s, (listContainers s).2)
  | .cnrInfo cn => (s, (containerInfo s cn).2)
  | .flush => flushWriteCache s
  | .flushTick => (flushTick s, .ok)
  | .gc => (removeGarbage s, .ok)
  | .epoch e => (handleEpoch s e, .ok)
  | .restore cn hs => restore s cn hs
  | .setMode m f => setMode s m f
  | .restart m => restart s m
  | .reopen => (reopen s, .ok)
  | .settle => (flushTick s, .ok)

def run (s : St) (ops : List Op) : St := ops.foldl (fun st o => (step st o).1) s

/-- requests that modify stored data -/
def Op.modifying : Op → Bool
  | .put .. | .delete .. | .mark .. | .inhumeCnr _ | .deleteCnr _ | .revive .. | .restore .. => true
  | _ => false

end NeoFS.ShardMode
