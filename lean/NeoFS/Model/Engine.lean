/-
Model of the storage engine (`pkg/local_object_storage/engine`) over abstract shards.

A shard is a small state: mode, the objects its metabase indexes, the objects its blob storage holds, the
garbage marks, injected blob read/write failures, the engine's error counter for it and the two epochs of its
GC.  The per-shard operations (`Shard.get/head/exists/put/markGarbage/delete/isLocked/removeGarbage`) are a
transition table for what `shard.Shard` answers; it is validated against REAL shards by the correspondence run
(the metabase itself is modelled in Model/Meta.lean and tied separately).  Objects are regular objects,
tombstones and locks (one container, no split/EC parents in the shard table: split-info / EC answers of a
shard are covered by the read algorithm `getWith`, which is parametric in the shards' answers).

The engine operations follow the code statement by statement: the order in which shards are visited is an
explicit parameter of every operation (`ord` = HRW order of `sortedShards`, `bord` = map order of
`unsortedShards`), so theorems quantify over ALL orders.
-/
namespace NeoFS.Engine

inductive Mode | rw | ro | deg | degRO | disabled
  deriving DecidableEq, Repr

/-- `mode.Mode.NoMetabase` -/
def Mode.noMeta : Mode → Bool
  | .deg | .degRO | .disabled => true
  | _ => false

/-- `mode.Mode.ReadOnly` -/
def Mode.readOnly : Mode → Bool
  | .ro | .degRO | .disabled => true
  | _ => false

inductive Kind | reg | ts | lock
  deriving DecidableEq, Repr

/-- an object: its id determines its bytes (ids are content hashes); `exp = 0`: no expiration attribute -/
structure Obj where
  id : Nat
  kind : Kind
  target : Nat
  exp : Nat
  deriving DecidableEq, Repr

inductive Err
  | notFound | removed | expired | locked | lockNonRegular | lockRemoval | readOnly | degraded
  | io | tsOnTs | metaNF | metaIO | putShard | inhumeFail | mustBeRO | noSpare
  | split (link last : Nat) | ecParts | outOfRange | blocked
  deriving DecidableEq, Repr

/-- errors the engine does not count against a shard (`errors.Is(err, logicerr.Error)`) -/
def Err.logic : Err → Bool
  | .notFound | .removed | .expired | .lockNonRegular | .lockRemoval | .readOnly | .degraded | .metaNF
  | .split _ _ | .ecParts | .outOfRange => true
  | _ => false

inductive GetR
  | ok (o : Obj)
  | err (e : Err)
  deriving DecidableEq, Repr

structure Shard where
  mode : Mode := .rw
  idx : List Obj := []
  blobs : List Obj := []
  garbage : List Nat := []
  failR : Bool := false
  failW : Bool := false
  errs : Nat := 0
  gcEpoch : Nat := 0
  processed : Nat := 0
  deriving DecidableEq, Repr

inductive St | avail | gc | tomb | exp
  deriving DecidableEq, Repr

namespace Shard

def find (s : Shard) (id : Nat) : Option Obj := s.idx.find? (·.id == id)
def blob (s : Shard) (id : Nat) : Option Obj := s.blobs.find? (·.id == id)

def expiredObj (o : Obj) (ep : Nat) : Bool := o.exp != 0 && decide (ep > o.exp)

def expiredId (s : Shard) (id ep : Nat) : Bool :=
  match s.find id with
  | some o => expiredObj o ep
  | none => false

/-- some tombstone object indexed here is associated with `id` -/
def tombstoned (s : Shard) (id : Nat) : Bool := s.idx.any fun t => t.kind == .ts && t.target == id

/-- `inGarbage` -/
def inGarbage (s : Shard) (id : Nat) : St :=
  if s.tombstoned id then .tomb else if s.garbage.contains id then .gc else .avail

/-- `objectLocked`: some unexpired, not removed lock object indexed here is associated with `id` -/
def locked (s : Shard) (id ep : Nat) : Bool :=
  s.idx.any fun l => l.kind == .lock && l.target == id && !expiredObj l ep && s.inGarbage l.id == .avail

/-- `objectStatus` (no parents in this table) -/
def status (s : Shard) (id ep : Nat) : St :=
  if s.expiredId id ep then (if s.locked id ep then .avail else .exp)
  else
    let g := s.inGarbage id
    if g != .avail && s.locked id ep then .avail else g

/-- metabase `Exists`: error, or whether the id is indexed -/
def mExists (s : Shard) (id ep : Nat) : Except Err Bool :=
  match s.status id ep with
  | .gc => .error .notFound
  | .tomb => .error .removed
  | .exp => .error .expired
  | .avail => .ok (s.find id).isSome

def blobGet (s : Shard) (id : Nat) : GetR :=
  if s.failR then .err .io
  else match s.blob id with
    | some o => .ok o
    | none => .err .notFound

/-- `Shard.Exists(addr, ignoreExpiration)`; ignoring expiration = epoch 0 -/
def exists_ (s : Shard) (id ep : Nat) (ignoreExp : Bool) : Except Err Bool :=
  if s.mode.noMeta then .ok (s.blob id).isSome
  else s.mExists id (if ignoreExp then 0 else ep)

/-- `Shard.Get(addr, skipMeta)` -/
def get (s : Shard) (id ep : Nat) (skipMeta : Bool) : GetR :=
  if skipMeta || s.mode.noMeta then s.blobGet id
  else match s.mExists id ep with
    | .error e => .err e
    | .ok false => .err .notFound
    | .ok true =>
      match s.blobGet id with
      | .ok o => .ok o
      | .err .notFound => .err .metaNF
      | .err _ => .err .metaIO

/-- `Shard.Head(addr, raw)` -/
def head (s : Shard) (id ep : Nat) : GetR :=
  if s.mode.noMeta then s.blobGet id
  else match s.mExists id ep with
    | .error e => .err e
    | .ok false => .err .notFound
    | .ok true => s.blobGet id

def isLocked (s : Shard) (id ep : Nat) : Except Err Bool :=
  if s.mode.noMeta then .error .degraded else .ok (s.locked id ep)

def insertObj (o : Obj) (l : List Obj) : List Obj := if l.any (·.id == o.id) then l else l ++ [o]
def eraseId (id : Nat) (l : List Obj) : List Obj := l.filter (·.id != id)

/-- metabase `put` of one object: error, or the new index and garbage marks -/
def metaPut (s : Shard) (o : Obj) (ep : Nat) : Except Err Shard :=
  let proceed : Except Err Shard :=
    match o.kind with
    | .reg => .ok { s with idx := insertObj o s.idx }
    | .lock =>
      match s.find o.target with
      | some t => if t.kind != .reg then .error .lockNonRegular
                  else if s.status o.target ep == .tomb || s.inGarbage o.target == .tomb then .error .removed
                  else .ok { s with idx := insertObj o s.idx }
      | none => if s.status o.target ep == .tomb || s.inGarbage o.target == .tomb then .error .removed
                else .ok { s with idx := insertObj o s.idx }
    | .ts =>
      match (s.find o.target).map (·.kind) with
      | some Kind.ts => .error .tsOnTs
      | some Kind.lock => .error .lockRemoval
      | _ => if s.locked o.target ep then .error .locked
             else .ok { s with idx := insertObj o s.idx,
                               garbage := if s.garbage.contains o.target then s.garbage else s.garbage ++ [o.target] }
  match s.status o.id ep with
  | .avail => if (s.find o.id).isSome then .ok s else proceed
  | .gc => if (s.find o.id).isSome then .ok s else proceed
  | .tomb => .error .removed
  | .exp => .error .expired

/-- `Shard.Put` -/
def put (s : Shard) (o : Obj) (ep : Nat) : Shard × Option Err :=
  if s.mode.readOnly then (s, some .readOnly)
  else if s.failW then (s, some .io)
  else
    let s1 := { s with blobs := insertObj o s.blobs }
    if s.mode.noMeta then (s1, none)
    else match s1.metaPut o ep with
      | .ok s2 => (s2, none)
      | .error e => ({ s1 with blobs := eraseId o.id s1.blobs }, some e)

/-- `Shard.MarkGarbage(ids, default mark)` -/
def markGarbage (s : Shard) (id : Nat) : Shard × Option Err :=
  if s.mode.readOnly then (s, some .readOnly)
  else if s.mode.noMeta then (s, some .degraded)
  else ({ s with garbage := if s.garbage.contains id then s.garbage else s.garbage ++ [id] }, none)

/-- `deleteObjs`: metabase delete (index entry and the id's own garbage mark), then blob delete -/
def deleteIds (s : Shard) (ids : List Nat) : Shard :=
  { s with idx := s.idx.filter (fun o => !ids.contains o.id),
           garbage := s.garbage.filter (fun g => !ids.contains g),
           blobs := s.blobs.filter (fun o => !ids.contains o.id) }

/-- `Shard.Delete` -/
def delete (s : Shard) (ids : List Nat) : Shard × Option Err :=
  if s.mode.readOnly then (s, some .readOnly)
  else if s.mode.noMeta then (s, some .degraded)
  else (s.deleteIds ids, none)

def expLt (a b : Obj) : Bool := a.exp < b.exp || (a.exp == b.exp && a.id < b.id)

def sortByExp (l : List Obj) : List Obj :=
  l.foldl (fun acc o => (acc.filter (fun x => expLt x o)) ++ [o] ++ (acc.filter (fun x => !expLt x o))) []

/-- objects `IterateExpired` yields at `ep`: indexed, expired, not locked; in (expiration, id) order -/
def expiredList (s : Shard) (ep : Nat) : List Obj :=
  sortByExp (s.idx.filter fun o => o.exp != 0 && decide (o.exp < ep) && !s.locked o.id ep)

/-- `ListWithCursor`: indexed objects without tombstone / default garbage mark -/
def listing (s : Shard) : List Obj := s.idx.filter fun o => s.inGarbage o.id == .avail

end Shard

structure Eng where
  shards : List Shard := []
  epoch : Nat := 0
  thr : Nat := 0
  deriving DecidableEq, Repr

def Eng.setShard (e : Eng) (i : Nat) (s : Shard) : Eng := { e with shards := e.shards.set i s }

/-- `reportShardError`: logical errors are only logged; others are counted and, at the threshold, the shard is
moved to degraded-read-only -/
def Eng.report (e : Eng) (i : Nat) (er : Err) : Eng :=
  if er.logic then e
  else match e.shards[i]? with
    | none => e
    | some s =>
      let n := s.errs + 1
      let s1 := { s with errs := n }
      e.setShard i (if e.thr != 0 && n ≥ e.thr then { s1 with mode := .degRO } else s1)

/-- merging of split information (`util.MergeSplitInfo`, link and last part; 0 = unset): non-empty fields of the
newer answer overwrite -/
def mergeSplit (frm to : Nat × Nat) : Nat × Nat :=
  (if frm.1 != 0 then frm.1 else to.1, if frm.2 != 0 then frm.2 else to.2)

structure P1 where
  hasDeg : Bool := false
  metaSh : Option (Nat × Err) := none
  split : Option (Nat × Nat) := none
  deriving DecidableEq, Repr

/-- how the first pass of a read interprets a shard's error -/
inductive Act | skip | count | stop (r : GetR) | split (l p : Nat)
  deriving DecidableEq, Repr

/-- the `switch` of `StorageEngine.get` / `headFunc` over a shard's error -/
def classify : Err → Act
  | .notFound | .metaNF => .skip
  | .split l p => .split l p
  | .ecParts => .stop (.err .ecParts)
  | .removed => .stop (.err .removed)
  | .outOfRange => .stop (.err .outOfRange)
  | .expired => .stop (.err .notFound)
  | _ => .count

/-- `errors.Is(err, shard.ErrMetaWithNoObject)`: remember the shard that has metadata but no object -/
def noteMeta (st : P1) (i : Nat) (er : Err) : P1 :=
  if er == .metaNF || er == .metaIO then { st with metaSh := some (i, er) } else st

/-- first pass of `StorageEngine.get`; `ans i s skipMeta` is what shard `i` answers -/
def pass1 (ans : Nat → Shard → Bool → GetR) : List Nat → Eng → P1 → Eng × Option GetR × P1
  | [], e, st => (e, none, st)
  | i :: rest, e, st =>
    match e.shards[i]? with
    | none => pass1 ans rest e st
    | some s =>
      match ans i s s.mode.noMeta with
      | .ok o => (e, some (.ok o), { st with hasDeg := st.hasDeg || s.mode.noMeta })
      | .err er =>
        let st1 := noteMeta { st with hasDeg := st.hasDeg || s.mode.noMeta } i er
        match classify er with
        | .skip => pass1 ans rest e st1
        | .count => pass1 ans rest (e.report i er) st1
        | .stop r => (e, some r, st1)
        | .split l p =>
          let m := mergeSplit (l, p) (st1.split.getD (0, 0))
          if m.1 != 0 && m.2 != 0 then (e, some (.err (.split m.1 m.2)), st1)
          else pass1 ans rest e { st1 with split := some m }

/-- second pass: blobs read directly on the shards that have a metabase -/
def pass2 (ans : Nat → Shard → Bool → GetR) (metaSh : Option (Nat × Err)) : List Nat → Eng → Eng × GetR
  | [], e => (e, .err .notFound)
  | i :: rest, e =>
    match e.shards[i]? with
    | none => pass2 ans metaSh rest e
    | some s =>
      if s.mode.noMeta then pass2 ans metaSh rest e
      else match ans i s true with
        | .err .outOfRange => (e, .err .outOfRange)
        | .ok o =>
          (match metaSh with
           | some (m, er) => e.report m er
           | none => e, .ok o)
        | .err _ => pass2 ans metaSh rest e

/-- `StorageEngine.get` (repaired: the second pass is entered only when some shard had metadata for the
object but could not read it; a degraded shard has already been read without metadata in the first pass) -/
def getWith (ans : Nat → Shard → Bool → GetR) (e : Eng) (ord : List Nat) : Eng × GetR :=
  match pass1 ans ord e {} with
  | (e1, some r, _) => (e1, r)
  | (e1, none, st) =>
    match st.split with
    | some m => (e1, .err (.split m.1 m.2))
    | none =>
      if st.metaSh.isNone then (e1, .err .notFound)
      else pass2 ans st.metaSh ord e1

/-- the read algorithm as it was before the repair: any degraded shard opened the second pass -/
def getWithOld (ans : Nat → Shard → Bool → GetR) (e : Eng) (ord : List Nat) : Eng × GetR :=
  match pass1 ans ord e {} with
  | (e1, some r, _) => (e1, r)
  | (e1, none, st) =>
    match st.split with
    | some m => (e1, .err (.split m.1 m.2))
    | none =>
      if !st.hasDeg && st.metaSh.isNone then (e1, .err .notFound)
      else pass2 ans st.metaSh ord e1

def shardAns (id ep : Nat) : Nat → Shard → Bool → GetR := fun _ s skip => s.get id ep skip

/-- `StorageEngine.Get` -/
def Eng.get (e : Eng) (id : Nat) (ord : List Nat) : Eng × GetR := getWith (shardAns id e.epoch) e ord

def headAns (id ep : Nat) : Nat → Shard → Bool → GetR := fun _ s _ => s.head id ep

/-- `StorageEngine.Head` (`headFunc`): the same interpretation of the shards' answers, one pass only -/
def Eng.head (e : Eng) (id : Nat) (ord : List Nat) : Eng × GetR :=
  match pass1 (headAns id e.epoch) ord e {} with
  | (e1, some r, _) => (e1, r)
  | (e1, none, st) =>
    match st.split with
    | some m => (e1, .err (.split m.1 m.2))
    | none => (e1, .err .notFound)

/-- `existsPhysical` -/
def existsLoop (id : Nat) : List Nat → Eng → Eng × Except Err Bool
  | [], e => (e, .ok false)
  | i :: rest, e =>
    match e.shards[i]? with
    | none => existsLoop id rest e
    | some s =>
      match s.exists_ id e.epoch false with
      | .error .expired => (e, .ok true)
      | .error .removed => (e, .error .removed)
      | .error .notFound => (e, .error .notFound)
      | .error er => existsLoop id rest (e.report i er)
      | .ok true => (e, .ok true)
      | .ok false => existsLoop id rest e

inductive PutR | stored | exists_ | err (e : Err)
  deriving DecidableEq, Repr

/-- `putToShard` -/
def Eng.putToShard (e : Eng) (i : Nat) (o : Obj) : Eng × PutR :=
  match e.shards[i]? with
  | none => (e, .err .notFound)
  | some s =>
    match s.exists_ o.id e.epoch false with
    | .error .expired => (e, .exists_)
    | .error er => (e, .err er)
    | .ok true => (e, .exists_)
    | .ok false =>
      match s.put o e.epoch with
      | (s1, none) => (e.setShard i s1, .stored)
      | (s1, some er) =>
        let e1 := e.setShard i s1
        (if er == .readOnly then e1 else e1.report i er, .err er)

/-- the put loop over the sorted shards -/
def putLoop (o : Obj) : List Nat → Eng → Option Err → Eng × Option Err
  | [], e, last => (e, some (last.getD .putShard))
  | i :: rest, e, _ =>
    match e.shards[i]? with
    | none => putLoop o rest e none
    | some _ =>
      match e.putToShard i o with
      | (e1, .stored) => (e1, none)
      | (e1, .exists_) => (e1, none)
      | (e1, .err er) => putLoop o rest e1 (some er)

def fatal : Err → Bool
  | .lockNonRegular | .locked | .removed => true
  | _ => false

/-- `broadcastObject`, visiting loop: the shards that accepted so far, the last error, whether it was fatal -/
def bcastLoop (o : Obj) : List Nat → Eng → List Nat → Option Err → Eng × List Nat × Option Err × Bool
  | [], e, good, last => (e, good, last, false)
  | i :: rest, e, good, last =>
    match e.shards[i]? with
    | none => bcastLoop o rest e good last
    | some _ =>
      match e.putToShard i o with
      | (e1, .stored) => bcastLoop o rest e1 (good ++ [i]) last
      | (e1, .exists_) => bcastLoop o rest e1 (good ++ [i]) last
      | (e1, .err er) => if fatal er then (e1, good, some er, true) else bcastLoop o rest e1 good (some er)

/-- rollback: `Shard.Delete` of the broadcast object on the shards that had accepted it -/
def rollback (id : Nat) : List Nat → Eng → Eng
  | [], e => e
  | i :: rest, e =>
    match e.shards[i]? with
    | none => rollback id rest e
    | some s => rollback id rest (e.setShard i (s.delete [id]).1)

/-- the broadcast of `broadcastObject` itself: visiting loop, rollback on a fatal refusal -/
def Eng.broadcastRaw (e : Eng) (o : Obj) (bord : List Nat) : Eng × Option Err :=
  match bcastLoop o bord e [] none with
  | (e1, good, last, isFatal) =>
    let e2 := if isFatal && !good.isEmpty then rollback o.id good e1 else e1
    if isFatal || good.isEmpty then (e2, some (last.getD .putShard)) else (e2, none)

/-- some shard of the list with a readable metabase reports the id locked -/
def Eng.anyLocked (e : Eng) (id : Nat) (bord : List Nat) : Bool :=
  bord.any fun i =>
    match e.shards[i]? with
    | none => false
    | some s => match s.isLocked id e.epoch with
      | .ok b => b
      | .error _ => false

/-- `broadcastObject` (repaired: a tombstone for an object that any shard reports locked is refused before any
shard is touched — the rollback cannot undo the garbage marks a tombstone writes) -/
def Eng.broadcast (e : Eng) (o : Obj) (bord : List Nat) : Eng × Option Err :=
  if o.kind == .ts && e.anyLocked o.target bord then (e, some .locked) else e.broadcastRaw o bord

/-- `StorageEngine.Put` -/
def Eng.put (e : Eng) (o : Obj) (ord bord : List Nat) : Eng × Option Err :=
  match existsLoop o.id ord e with
  | (e1, .error er) => (e1, some er)
  | (e1, .ok true) => (e1, none)
  | (e1, .ok false) =>
    match o.kind with
    | .ts | .lock => e1.broadcast o bord
    | .reg =>
      if (ord.filter fun i => (e1.shards[i]?).isSome).isEmpty then (e1, some .putShard)
      else putLoop o ord e1 none

/-- `processAddrDeleteOnShards` for a non-root object; `del` is `MarkGarbage` or `Delete` -/
def delLoop (del : Shard → Nat → Shard × Option Err) (id : Nat) : List Nat → Eng → Eng × Option Err
  | [], e => (e, none)
  | i :: rest, e =>
    match e.shards[i]? with
    | none => delLoop del id rest e
    | some s =>
      match s.exists_ id e.epoch true with
      | .error .notFound => delLoop del id rest e
      | .error .removed => (e, none)
      | .error er => delLoop del id rest (e.report i er)
      | .ok false => delLoop del id rest e
      | .ok true =>
        match del s id with
        | (s1, none) => delLoop del id rest (e.setShard i s1)
        | (s1, some er) => ((e.setShard i s1).report i er, some er)

/-- `StorageEngine.Delete(addr, GarbageMarkDefault)` -/
def Eng.delete (e : Eng) (id : Nat) (ord : List Nat) : Eng × Option Err :=
  delLoop (fun s id => s.markGarbage id) id ord e

/-- `StorageEngine.Drop` -/
def Eng.drop (e : Eng) (id : Nat) (ord : List Nat) : Eng × Option Err :=
  delLoop (fun s id => s.delete [id]) id ord e

/-- `StorageEngine.isLocked` over the unsorted shards -/
def lockedLoop (id : Nat) : List Nat → Eng → Eng × Except Err Bool
  | [], e => (e, .ok false)
  | i :: rest, e =>
    match e.shards[i]? with
    | none => lockedLoop id rest e
    | some s =>
      match s.isLocked id e.epoch with
      | .error er => (e.report i er, .error er)
      | .ok true => (e, .ok true)
      | .ok false => lockedLoop id rest e

def Eng.isLocked (e : Eng) (id : Nat) (bord : List Nat) : Eng × Except Err Bool := lockedLoop id bord e

/-- `SetShardMode(id, m, resetErrorCounter)` -/
def Eng.setMode (e : Eng) (i : Nat) (m : Mode) (reset : Bool) : Eng :=
  match e.shards[i]? with
  | none => e
  | some s => e.setShard i { s with mode := m, errs := if reset then 0 else s.errs }

/-- new epoch: the metabases' epoch source and every shard's GC epoch -/
def Eng.setEpoch (e : Eng) (ep : Nat) : Eng :=
  { e with epoch := ep, shards := e.shards.map fun s => { s with gcEpoch := ep } }

/-- `processExpiredObjects`: the engine-wide lock check, then `Drop` semantics on every shard -/
def expireLoop (ord bord : List Nat) : List Nat → Eng → Eng
  | [], e => e
  | id :: rest, e =>
    match e.isLocked id bord with
    | (e1, .ok true) => expireLoop ord bord rest e1
    | (e1, _) => expireLoop ord bord rest (e1.drop id ord).1

/-- `removeGarbage` of shard `i` (one pass): expired objects first, then everything carrying a garbage mark -/
def Eng.gc (e : Eng) (i : Nat) (ord bord : List Nat) : Eng :=
  match e.shards[i]? with
  | none => e
  | some s =>
    if s.mode != .rw then e
    else
      let e1 :=
        if s.processed == s.gcEpoch then e
        else if s.processed > s.gcEpoch then e.setShard i { s with processed := s.gcEpoch }
        else
          let exp := s.expiredList s.gcEpoch
          let sA := if exp.isEmpty then { s with processed := s.gcEpoch } else s
          let tss := (exp.filter (·.kind == .ts)).map (·.id)
          let sB := if tss.isEmpty then sA else sA.deleteIds tss
          let others := (exp.filter (·.kind != .ts)).map (·.id)
          expireLoop ord bord others (e.setShard i sB)
      match e1.shards[i]? with
      | none => e1
      | some s1 => if s1.garbage.isEmpty then e1 else e1.setShard i (s1.deleteIds s1.garbage)

def sortById (l : List Obj) : List Obj :=
  l.foldl (fun acc o => (acc.filter (·.id < o.id)) ++ [o] ++ (acc.filter (fun x => !(x.id < o.id)))) []

/-- evacuation of one listed object of source shard `src` to the other shards in `ord` -/
def evacTargets (o : Obj) (srcs : List Nat) : List Nat → Eng → Eng × Option Bool
  | [], e => (e, none)                                -- no shard took it
  | j :: rest, e =>
    if srcs.contains j then evacTargets o srcs rest e
    else match e.shards[j]? with
      | none => evacTargets o srcs rest e
      | some _ =>
        match e.putToShard j o with
        | (e1, .stored) => (e1, some true)
        | (e1, .exists_) => (e1, some false)
        | (e1, .err _) => evacTargets o srcs rest e1

/-- objects of one source shard, in listing order -/
def evacObjs (src : Nat) (srcs ord : List Nat) (ignoreErrors : Bool) : List Obj → Eng → Nat → Eng × Nat × Option Err
  | [], e, n => (e, n, none)
  | l :: rest, e, n =>
    match e.shards[src]? with
    | none => (e, n, none)
    | some s =>
      match s.get l.id e.epoch false with
      | .err er => if ignoreErrors then evacObjs src srcs ord ignoreErrors rest e n else (e, n, some er)
      | .ok o =>
        match evacTargets o srcs ord e with
        | (e1, some true) => evacObjs src srcs ord ignoreErrors rest e1 (n + 1)
        | (e1, some false) => evacObjs src srcs ord ignoreErrors rest e1 n
        | (e1, none) => (e1, n, some .putShard)

def evacShards (srcs ord : List Nat) (ignoreErrors : Bool) : List Nat → Eng → Nat → Eng × Nat × Option Err
  | [], e, n => (e, n, none)
  | src :: rest, e, n =>
    match e.shards[src]? with
    | none => evacShards srcs ord ignoreErrors rest e n
    | some s =>
      if s.mode.noMeta then evacShards srcs ord ignoreErrors rest e n
      else match evacObjs src srcs ord ignoreErrors (sortById s.listing) e n with
        | (e1, n1, none) => evacShards srcs ord ignoreErrors rest e1 n1
        | r => r

/-- `StorageEngine.Evacuate(shardIDs, ignoreErrors, nil)` -/
def Eng.evacuate (e : Eng) (srcs ord : List Nat) (ignoreErrors : Bool) : Eng × Nat × Option Err :=
  if srcs.any (fun i => (e.shards[i]?).isNone) then (e, 0, some .notFound)
  else if srcs.any (fun i => match e.shards[i]? with | some s => !s.mode.readOnly | none => false) then (e, 0, some .mustBeRO)
  else if e.shards.length - srcs.length < 1 then (e, 0, some .noSpare)
  else evacShards srcs ord ignoreErrors srcs e 0

end NeoFS.Engine
