/-
Model of the shard dump format (`shard/dump.go`) and of `Shard.Restore` (`shard/restore.go`) reading it
through an arbitrary `io.Reader`.

A reader is the remaining byte stream plus the sizes of the chunks its `Read` calls are going to deliver
(`io.Reader` may return fewer bytes than asked for; a chunk size 0 is served as 1, a reader must make
progress).  Object decoding (`object.Unmarshal`) is a parameter `valid`.
-/
namespace NeoFS.Dump

def magic : List Nat := [78, 69, 79, 70]   -- "NEOF"

def le32 (n : Nat) : List Nat := [n % 256, n / 256 % 256, n / 65536 % 256, n / 16777216 % 256]

def fromLE32 : List Nat → Nat
  | [a, b, c, d] => a + 256 * b + 65536 * c + 16777216 * d
  | _ => 0

/-- `Dump`: magic, then `len32 ‖ bytes` per object -/
def dump (objs : List (List Nat)) : List Nat := magic ++ objs.flatMap fun o => le32 o.length ++ o

structure Reader where
  data : List Nat
  chunks : List Nat

/-- one `Read(buf)` with `len(buf) = n` -/
def Reader.read (r : Reader) (n : Nat) : List Nat × Reader :=
  let c := match r.chunks with
    | [] => n
    | k :: _ => max k 1
  let m := min n c
  (r.data.take m, { data := r.data.drop m, chunks := r.chunks.drop 1 })

/-- `io.ReadFull(r, buf)`: keep reading until `n` bytes or the end of the stream -/
def Reader.readFull (r : Reader) : Nat → Nat → List Nat × Reader
  | 0, _ => ([], r)
  | _, 0 => ([], r)
  | fuel + 1, n + 1 =>
    let (got, r') := r.read (n + 1)
    if got.isEmpty then ([], r')
    else
      let (rest, r'') := r'.readFull fuel (n + 1 - got.length)
      (got ++ rest, r'')

inductive Res
  | done (objs : List (List Nat)) (failed : Nat)
  | error (objs : List (List Nat)) (failed : Nat)
  | badMagic
  deriving Repr, DecidableEq

/-- the record loop of `Restore`; `full = true` reads the record body with `io.ReadFull` (the repaired
code), `false` with a single `Read` (the defect) -/
def restoreLoop (valid : List Nat → Bool) (ignoreErrors full : Bool) :
    Nat → Reader → List (List Nat) → Nat → Res
  | 0, _, acc, failed => .done acc failed
  | fuel + 1, r, acc, failed =>
    let (sz, r1) := r.readFull 4 4
    if sz.isEmpty then .done acc failed                      -- io.EOF: clean end
    else if sz.length < 4 then .error acc failed             -- io.ErrUnexpectedEOF
    else
      let n := fromLE32 sz
      let (body, r2) := if full then r1.readFull n n else r1.read n
      if full && body.length < n then .error acc failed     -- short record
      else
        -- with a single Read the buffer keeps `n` bytes: what was read, then stale bytes (modelled as zeros)
        let buf := if full then body else body ++ List.replicate (n - body.length) 0
        if !full && n > 0 && body.isEmpty then .error acc failed
        else if valid buf then restoreLoop valid ignoreErrors full fuel r2 (acc ++ [buf]) failed
        else if ignoreErrors then restoreLoop valid ignoreErrors full fuel r2 acc (failed + 1)
        else .error acc failed

/-- `Shard.Restore` -/
def restore (valid : List Nat → Bool) (ignoreErrors full : Bool) (r : Reader) : Res :=
  let (m, r1) := r.readFull 4 4
  if m != magic then .badMagic
  else restoreLoop valid ignoreErrors full (r.data.length + 1) r1 [] 0

end NeoFS.Dump
