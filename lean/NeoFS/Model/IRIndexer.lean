import NeoFS.Model.IRAuth
/-!
Model of the inner ring indexer WITH its cache (C35): `innerRingIndexer.update/reset`
(pkg/innerring/indexer.go) behind `Server.IsAlphabet/AlphabetIndex/IsActive/InnerRingIndex/InnerRingSize`
(state.go), over a chain whose key lists change and whose lookups (`InnerRingKeys`, `Committee`) fail
and recover, and a clock.  One `update` is one guard evaluation of the node.

Code followed (unchanged tree):
```
update():  if now - lastAccess < timeout { return s.ind, nil }
           innerRing, err := InnerRingKeys();  if err != nil { return indexes{}, err }
           s.ind.innerRingIndex = keyPosition(key, innerRing); s.ind.innerRingSize = len(innerRing)
           alphabet, err := Committee();       if err != nil { return indexes{}, err }
           s.ind.alphabetIndex = keyPosition(key, alphabet);   s.lastAccess = now;  return s.ind, nil
reset():   lastAccess = zero time
```
`ind` starts as the zero value (index 0 of both lists!), `lastAccess` as the zero time.
Ghost fields (`good`, `dirty`) are not in the code: they record what the property talks about — the
lists read by the most recent complete successful lookup, and whether a lookup failed / the cache was
dropped since.  Core Lean only.
-/
namespace NeoFS.IRIndexer
open NeoFS.IRAuth

/-- `indexes` without the alphabet list itself -/
structure Ind where
  irIdx : Int := 0
  irSize : Nat := 0
  aIdx : Int := 0
  deriving DecidableEq, Repr

/-- ghost: the lists the last complete successful lookup read, and when -/
structure Good where
  irL : List Nat
  commL : List Nat
  readAt : Nat
  deriving DecidableEq, Repr

structure St where
  -- the chain as seen through the RPC node
  irList : List Nat := []
  commList : List Nat := []
  failIR : Nat := 0      -- the next `failIR` InnerRingKeys calls fail
  failComm : Nat := 0    -- the next `failComm` Committee calls fail
  now : Nat := 0
  -- the indexer
  timeout : Nat := 10
  ind : Ind := {}
  last : Option Nat := none   -- `lastAccess`; `none` = the zero time
  -- ghost
  good : Option Good := none
  dirty : Bool := false
  deriving Repr

/-- the indexes a complete lookup of these lists stores -/
def indOf (key : Nat) (irL commL : List Nat) : Ind :=
  { irIdx := keyPosition key irL, irSize := irL.length, aIdx := keyPosition key commL }

/-- `time.Since(s.lastAccess) < s.timeout` -/
def fresh (s : St) : Bool :=
  match s.last with
  | none => false
  | some t => decide (s.now - t < s.timeout)

/-- result of one `update()`: the indexes (`none` = error) and the RPC calls it made -/
structure Res where
  ind : Option Ind
  rpcIR : Nat := 0
  rpcComm : Nat := 0
  deriving Repr

def update (key : Nat) (s : St) : St × Res :=
  if fresh s then (s, { ind := some s.ind })
  else if s.failIR > 0 then
    ({ s with failIR := s.failIR - 1, dirty := true }, { ind := none, rpcIR := 1 })
  else
    let ind1 : Ind := { s.ind with irIdx := keyPosition key s.irList, irSize := s.irList.length }
    if s.failComm > 0 then
      ({ s with ind := ind1, failComm := s.failComm - 1, dirty := true }, { ind := none, rpcIR := 1, rpcComm := 1 })
    else
      let ind2 : Ind := { ind1 with aIdx := keyPosition key s.commList }
      ({ s with ind := ind2, last := some s.now, good := some ⟨s.irList, s.commList, s.now⟩, dirty := false },
       { ind := some ind2, rpcIR := 1, rpcComm := 1 })

/-- `reset()` (Server.restartFSChain after an RPC reconnection) -/
def reset (s : St) : St := { s with last := none, dirty := true }

/-- the variant that stamps `lastAccess` before the lookups (NOT the code; kept for the counterexample) -/
def updateStampFirst (key : Nat) (s : St) : St × Res :=
  if fresh s then (s, { ind := some s.ind })
  else
    let s := { s with last := some s.now }
    if s.failIR > 0 then
      ({ s with failIR := s.failIR - 1, dirty := true }, { ind := none, rpcIR := 1 })
    else
      let ind1 : Ind := { s.ind with irIdx := keyPosition key s.irList, irSize := s.irList.length }
      if s.failComm > 0 then
        ({ s with ind := ind1, failComm := s.failComm - 1, dirty := true }, { ind := none, rpcIR := 1, rpcComm := 1 })
      else
        let ind2 : Ind := { ind1 with aIdx := keyPosition key s.commList }
        ({ s with ind := ind2, good := some ⟨s.irList, s.commList, s.now⟩, dirty := false },
         { ind := some ind2, rpcIR := 1, rpcComm := 1 })

/-- operations of a node's life that touch the indexer -/
inductive Op where
  | start (timeout : Nat)                 -- process start: fresh indexer with this cache timeout
  | chain (irL commL : List Nat)          -- the chain's key lists change
  | fail (nIR nComm : Nat)                -- upcoming lookups fail
  | wait (d : Nat)                        -- time passes
  | reset                                 -- RPC reconnection
  | eval                                  -- any guard evaluation / getter: one `update()`
  deriving Repr

def step (key : Nat) (s : St) : Op → St
  | .start t => { irList := s.irList, commList := s.commList, failIR := s.failIR, failComm := s.failComm,
                  now := s.now, timeout := t }
  | .chain i c => { s with irList := i, commList := c }
  | .fail a b => { s with failIR := a, failComm := b }
  | .wait d => { s with now := s.now + d }
  | .reset => reset s
  | .eval => (update key s).1

def run (key : Nat) (s : St) (ops : List Op) : St := ops.foldl (step key) s

/-! the getters of `Server` (state.go) over one `update()` result -/

def alphabetIndexOf (r : Res) : Int := match r.ind with | some i => i.aIdx | none => -1
def innerRingIndexOf (r : Res) : Int := match r.ind with | some i => i.irIdx | none => -1
def innerRingSizeOf (r : Res) : Nat := match r.ind with | some i => i.irSize | none => 0

end NeoFS.IRIndexer
