import NeoFS.Model.Meta
/-
Model of the metabase rebuild (`metabase/control.go` `ResyncFromBlobstor` + `resyncHandler`, `metabase/put.go`
`PutBatch`) on top of the metabase model `Model/Meta.lean`.

* `Reset` drops every container bucket: the rebuild starts from the empty metabase `[]`.
* The blob storage hands over the stored objects in SOME order (`order : List Obj`); the handler collects them
  in batches of `resyncBatchSize` and flushes each batch through `PutBatch`; the last partial batch is flushed
  after the iteration.
* `PutBatch` runs `db.put` for every object of the batch inside ONE bolt transaction.  An object whose put fails
  with "already removed", "expired" or "locked" is skipped — and what its put has written before failing (its
  parent header indexed by the nested put) STAYS, the transaction is shared (`putChainNR`: no roll-back).
  Any other error aborts the transaction: the whole batch is rolled back and the rebuild stops with that error
  (the batches flushed before stay committed).
-/
namespace NeoFS.Resync
open NeoFS.Meta

/-- a stored blob: container id and header chain `self :: parent :: grandparent` -/
abbrev Obj := Nat × List Hdr

/-- `resyncBatchSize` (compared with the constant of the code on every run, op `resync batchsize`) -/
def resyncBatchSize : Nat := 1000

/-- `db.put(tx, obj, level, epoch)` as it behaves inside a shared transaction that is NOT rolled back when this
put fails: the same steps as `Meta.putChain`, but on an error the bucket keeps what was written so far
(a parent indexed by the nested put before the object itself is refused). -/
def putChainNR (c : Cnr) (epoch : Nat) : Nat → List Hdr → Cnr × Err
  | _, [] => (c, .other)
  | level, h :: parents =>
    if c.gcMark then (c, .alreadyRemoved)
    else
      let (ex, e) := c.exists_ h.id epoch false
      if ex then (c, .ok)
      else if e != .ok && e != .notFound then (c, e)
      else if e == .notFound && (c.typeOf h.id).isSome then (c, .ok)
      else
        let (c1, perr) : Cnr × Err :=
          match parents with
          | p :: rest =>
            if p.id != 0 then
              (if level == maxObjectNestingLevel then (c, .other)
               else putChainNR c epoch (level + 1) (p :: rest))
            else (c, .ok)
          | [] => (c, .ok)
        if perr != .ok then (c1, perr)
        else
          -- `putSelf c1 c1`: a refused object leaves the bucket as it is after the parent step
          let r := putSelf c1 c1 epoch level h (!parents.isEmpty) e
          (r.1, r.2.2)

/-- the errors `PutBatch` logs and skips -/
def skippable : Err → Bool
  | .alreadyRemoved | .expired | .locked => true
  | _ => false

/-- one object of a batch: on success or on a skipped error the bucket (with whatever was written) is kept -/
def putObj (db : DB) (epoch : Nat) (o : Obj) : DB × Err :=
  let c := (getCnr? db o.1).getD {}
  let r := putChainNR c epoch 0 o.2
  if r.2 == .ok || skippable r.2 then (setCnr db o.1 r.1, r.2) else (db, r.2)

/-- `PutBatch` body: `db0` is the state before the transaction (restored on an aborting error) -/
def putBatchGo (db0 : DB) (epoch : Nat) : DB → List Obj → DB × Err
  | cur, [] => (cur, .ok)
  | cur, o :: rest =>
    let r := putObj cur epoch o
    if r.2 == .ok || skippable r.2 then putBatchGo db0 epoch r.1 rest else (db0, r.2)

/-- `DB.PutBatch` -/
def putBatch (db : DB) (epoch : Nat) (objs : List Obj) : DB × Err := putBatchGo db epoch db objs

/-- the handler's batches: flush every `bs` objects, the rest at the end; stop at the first failing batch -/
def flushAll (bs epoch : Nat) : Nat → DB → List Obj → DB × Err
  | 0, db, _ => (db, .ok)
  | fuel + 1, db, objs =>
    if objs.isEmpty then (db, .ok)
    else
      let r := putBatch db epoch (objs.take bs)
      if r.2 != .ok then r else flushAll bs epoch fuel r.1 (objs.drop bs)

/-- `ResyncFromBlobstor` with batch size `bs` (≥ 1): reset, then the batches in blob order -/
def resyncB (bs epoch : Nat) (order : List Obj) : DB × Err := flushAll bs epoch order.length [] order

/-- `DB.ResyncFromBlobstor` at the current epoch `epoch` with the blobs met in the order `order` -/
def resync (epoch : Nat) (order : List Obj) : DB × Err := resyncB resyncBatchSize epoch order

/-- the rebuild without batch boundaries: the objects one after another (equal to `resync` whenever no
aborting error arises, `Lemmas/Resync.lean`) -/
def resyncFold (epoch : Nat) (order : List Obj) : DB := order.foldl (fun db o => (putObj db epoch o).1) []

/-! ### views compared by the property -/

/-- what a reader sees of one address: `DB.Exists` (available / not found / removed / expired / split or EC
parent) and `DB.IsLocked` -/
def view (db : DB) (cn id epoch : Nat) : (Bool × Err) × Bool := (dbExists db cn id epoch, dbIsLocked db cn id epoch)

/-- the metabase knows the id: it is indexed or it carries a garbage key.  A stored blob whose id is unknown
can never be reclaimed by GC (`GetGarbage`, `IterateExpired` and the tombstone handling only walk the
metabase). -/
def known (db : DB) (cn id : Nat) : Bool :=
  match getCnr? db cn with
  | none => false
  | some c => (c.find? id).isSome || c.garb.any (·.1 == id)

/-- the id carries a garbage key (what `GetGarbage` lists) -/
def hasGarbageKey (db : DB) (cn id : Nat) : Bool :=
  match getCnr? db cn with
  | none => false
  | some c => c.garb.any (·.1 == id)

/-- address of a stored object -/
def Obj.addr (o : Obj) : Nat × Nat := (o.1, (o.2.head?.map (·.id)).getD 0)

/-! ### the fragment of the partial theorem (`Props/C18.lean`), as a decidable predicate

Within one container: unsplit objects of type regular / tombstone / lock with distinct non-zero ids, where the
target of a tombstone or lock is never a tombstone or lock of the set, no id is the target of both a tombstone
and a lock, and the target of a tombstone carries no expiration attribute. -/

def plainHdr (h : Hdr) : Bool :=
  h.id != 0 && h.parentId == 0 && h.firstId == 0 && h.splitId == 0 &&
    (h.typ == .regular || ((h.typ == .tombstone || h.typ == .lock) && h.assoc != 0))

/-- what a tombstone or lock `a` demands of every object `x` of the set -/
def targetOK (S : List Hdr) (a : Hdr) : Bool :=
  S.all fun x =>
    (!(x.id == a.assoc) || (x.typ == .regular && (!(a.typ == .tombstone) || x.exp.isNone))) &&
    (!((x.typ == .tombstone || x.typ == .lock) && x.assoc == a.assoc) || x.typ == a.typ)

/-- the decidable hypothesis of the partial theorem, for the headers of one container -/
def plainSet (S : List Hdr) : Bool :=
  S.all plainHdr && decide ((S.map (·.id)).Nodup) &&
    S.all fun a => !(a.typ == .tombstone || a.typ == .lock) || targetOK S a

/-- unsplit objects as (container, header) pairs -/
def toObjs (hs : List (Nat × Hdr)) : List Obj := hs.map fun p => (p.1, [p.2])

/-- the headers of container `cn` -/
def hdrsIn (hs : List (Nat × Hdr)) (cn : Nat) : List Hdr := (hs.filter (·.1 == cn)).map (·.2)

/-- the decidable hypothesis of the partial theorem: the objects of every container form a set of the fragment -/
def plainObjs (hs : List (Nat × Hdr)) : Bool := hs.all fun p => plainSet (hdrsIn hs p.1)

end NeoFS.Resync
