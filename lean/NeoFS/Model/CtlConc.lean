import NeoFS.Model.CtlAuth
/-
Concurrent model of `Server.isValidRequest` of both control services: ONE server, many requests in flight, every
request is a thread of atomic steps (signature present and key scan into a local flag → decision on the flag →
marshal the signed body → decode the key → verify → verdict). The servers keep nothing mutable between requests on this path: the allowed-key list is
configuration, the signed data is marshalled into a buffer that belongs to the request (`ReadSignedData(nil)`).
`BufMode.fresh` is that code. `BufMode.scratch` is the alternative discipline in which the signed data is marshalled
into one buffer owned by the server and the verification reads that buffer after the marshalling step is over; it
is here only to state what the property excludes (`Props/C32.lean`, `scratch_buffer_allows_forgery`).

Signatures are ideal: a signature value is either `made k m` (made with key `k` over exactly the bytes `m`) or
garbage; bodies are numbers, equal numbers = equal signed bytes. Tied by engine `rpc`, op `crace`.
-/
namespace NeoFS.CtlConc
open NeoFS.CtlAuth

inductive SigVal | made (signer : Nat) (msg : Nat) | garbage
  deriving DecidableEq, Repr

/-- ideal verification: pure function of (key, signed bytes, signature value) -/
def verify (key bytes : Nat) (sv : SigVal) : Bool := sv == .made key bytes

/-- what travels in one control request -/
structure CReq where
  body : Nat
  sig : Option (Nat × SigVal)
  marshals : Bool := true
  keyDecodes : Bool := true
  deriving DecidableEq, Repr

/-- the sequential view of a request (input of `CtlAuth.isValidRequest`) -/
def seqView (r : CReq) : Req :=
  { hasSig := r.sig.isSome
    key := match r.sig with | some (k, _) => k | none => 0
    bodyMarshals := r.marshals
    keyDecodes := r.keyDecodes
    sigValid := match r.sig with | some (k, sv) => verify k r.body sv | none => false }

inductive Pc | start | keyScanned | scanned | marshaled | decoded | done (v : Verdict)
  deriving DecidableEq, Repr

structure Thread where
  req : CReq
  pc : Pc := .start
  /-- the request's own `allowed` flag, result of the scan of the configured keys -/
  flag : Bool := false
  /-- the request's own buffer with the marshalled signed data -/
  buf : Option Nat := none
  deriving DecidableEq, Repr

inductive BufMode | fresh | scratch
  deriving DecidableEq, Repr

/-- What the authorisation path (`isValidRequest` and the functions of its package it calls) touches of the state
that outlives a request: fields of the server and package-level variables. Regenerated from the source on every
run (`Gen/CtlShared.lean`, harness/extract/ctlshared.go). -/
structure AuthPathUse where
  funcs : List String
  fieldsRead : List String
  /-- server fields the path assigns, increments or takes the address of -/
  fieldsWritten : List String
  /-- server fields the path slices (`s.buf[:n]`: a buffer kept in the server handed out) -/
  fieldsAliased : List String
  pkgVarsRead : List String
  pkgVarsWritten : List String
  /-- methods of the server type (code that runs while requests are served) assigning a field the path reads -/
  serverMethodsWritingReadFields : List String
  deriving Repr

/-- the path only READS state that outlives the request, and nothing that serves requests writes what it reads -/
def AuthPathUse.sharesNothingMutable (u : AuthPathUse) : Bool :=
  u.fieldsWritten.isEmpty && u.fieldsAliased.isEmpty && u.pkgVarsWritten.isEmpty &&
    u.serverMethodsWritingReadFields.isEmpty

/-- the discipline of the model these facts select: request-local steps, or a server-owned scratch state -/
def AuthPathUse.mode (u : AuthPathUse) : BufMode := if u.sharesNothingMutable then .fresh else .scratch

/-- one atomic step of a request; `sh` is the server-owned scratch buffer (untouched in mode `fresh`) -/
def step (mode : BufMode) (allowed : List Nat) (sh : Option Nat) (t : Thread) : Option Nat × Thread :=
  match t.pc with
  | .start =>
    match t.req.sig with
    | none => (sh, { t with pc := .done .missingSignature })
    | some (k, _) => (sh, { t with pc := .keyScanned, flag := allowed.contains k })
  | .keyScanned =>
    if t.flag then (sh, { t with pc := .scanned }) else (sh, { t with pc := .done .disallowedKey })
  | .scanned =>
    if !t.req.marshals then (sh, { t with pc := .done .marshal })
    else match mode with
      | .fresh => (sh, { t with pc := .marshaled, buf := some t.req.body })
      | .scratch => (some t.req.body, { t with pc := .marshaled })
  | .marshaled =>
    if !t.req.keyDecodes then (sh, { t with pc := .done .badKey }) else (sh, { t with pc := .decoded })
  | .decoded =>
    let bytes := match mode with | .fresh => t.buf | .scratch => sh
    match t.req.sig, bytes with
    | some (k, sv), some b => (sh, { t with pc := .done (if verify k b sv then .ok else .invalidSignature) })
    | _, _ => (sh, { t with pc := .done .invalidSignature })
  | .done _ => (sh, t)

/-- the thread-local step of the code as it is -/
def stepT (allowed : List Nat) (t : Thread) : Thread := (step .fresh allowed none t).2

/-- one server with its requests in flight -/
structure Sys where
  sh : Option Nat := none
  ts : Nat → Thread

def stepAt (mode : BufMode) (allowed : List Nat) (s : Sys) (i : Nat) : Sys :=
  let r := step mode allowed s.sh (s.ts i)
  { sh := r.1, ts := fun j => if j = i then r.2 else s.ts j }

/-- a schedule names the request that makes the next atomic step -/
def run (mode : BufMode) (allowed : List Nat) (sch : List Nat) (s : Sys) : Sys :=
  sch.foldl (stepAt mode allowed) s

def init (reqs : Nat → CReq) : Sys := { ts := fun i => { req := reqs i } }

def reqsOfList (l : List CReq) : Nat → CReq := fun i => l.getD i { body := 0, sig := none }

/-- the schedule the engine forces with the points after the key scan and before `Verify`: every request scans
the keys, then all of them decide on their flag and run up to the verification, then all of them verify -/
def barrierSchedule (n : Nat) : List Nat :=
  List.range n ++ List.range n ++ List.range n ++ List.range n ++ List.range n

def verdictOf (t : Thread) : Option Verdict := match t.pc with | .done v => some v | _ => none

/-- verdicts of `n` requests served together under the barrier schedule -/
def barrierVerdicts (mode : BufMode) (allowed : List Nat) (l : List CReq) : List (Option Verdict) :=
  let s := run mode allowed (barrierSchedule l.length) (init (reqsOfList l))
  (List.range l.length).map (fun i => verdictOf (s.ts i))

/-! request kinds of op `crace`; keys 1 and 3 are configured, key 2 is not; bodies: 1 signed by key 1, 3 signed by
key 3, 2 was never signed by a configured key -/
def raceReq : String → Option CReq
  | "g1" => some { body := 1, sig := some (1, .made 1 1) }
  | "g2" => some { body := 3, sig := some (3, .made 3 3) }
  | "fo" => some { body := 2, sig := some (1, .made 1 1) }
  | "wk" => some { body := 2, sig := some (2, .made 2 2) }
  | "ns" => some { body := 2, sig := none }
  | "bs" => some { body := 2, sig := some (1, .garbage) }
  | _ => none

end NeoFS.CtlConc
