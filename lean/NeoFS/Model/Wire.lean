/-
Byte-level model of the protobuf wire format and of the node's fast header paths
(`internal/object/wire.go`, built on neofs-sdk-go `proto/protobuf` seekers/parsers and on
`google.golang.org/protobuf/encoding/protowire`), next to a reference decoder that follows the top-level loop
of protobuf-go's `unmarshalPointerEager` (what `object.Unmarshal` runs first).

Bytes are `UInt8`; offsets, lengths and varint values are `Nat` (a decoded varint is proved `< 2^64`).
Decoding of field *contents* (`proto.Unmarshal` of ObjectID/Signature/Header, `FromProtoMessage`) is a parameter.
-/
namespace NeoFS.Wire

abbrev Bytes := List UInt8

/-! ## varint (`protowire.ConsumeVarint` / `AppendVarint`) -/

inductive VErr | trunc | overflow
  deriving DecidableEq, Repr

/-- byte `i` of a varint with the value accumulated so far; the 10th byte may only carry one bit -/
def varintGo : Nat → Nat → Bytes → Except VErr (Nat × Nat)
  | _, _, [] => .error .trunc
  | i, acc, b :: rest =>
    if i = 9 then
      if b.toNat < 2 then .ok (acc + b.toNat * 2 ^ 63, 10) else .error .overflow
    else if b.toNat < 128 then .ok (acc + b.toNat * 2 ^ (7 * i), i + 1)
    else varintGo (i + 1) (acc + (b.toNat - 128) * 2 ^ (7 * i)) rest

/-- `protowire.ConsumeVarint`: value and number of bytes read -/
def consumeVarint (b : Bytes) : Except VErr (Nat × Nat) := varintGo 0 0 b

/-- `protowire.AppendVarint` (the minimal encoding) -/
def encodeVarint (n : Nat) : Bytes :=
  if n < 128 then [UInt8.ofNat n] else UInt8.ofNat (n % 128 + 128) :: encodeVarint (n / 128)
termination_by n
decreasing_by omega

/-! ## field numbers of the messages (checked against the SDK constants by the `consts` op) -/

def fObjID : Nat := 1
def fObjSig : Nat := 2
def fObjHdr : Nat := 3
def fObjPayload : Nat := 4
def fHdrPayloadLength : Nat := 5
def fHdrType : Nat := 7
def fHdrSplit : Nat := 11
def fSplitParent : Nat := 1
def fSplitPrevious : Nat := 2
def fSplitParentSig : Nat := 3
def fSplitParentHdr : Nat := 4

/-! ## tags: the three readers differ in the field numbers they accept -/

def maxValidNumber : Nat := 2 ^ 29 - 1

/-- `protowire.Number.IsValid` (used by SDK `ParseTag`): 1 .. MaxValidNumber (the reserved range is not refused) -/
def numOKParse (n : Nat) : Bool := 1 ≤ n && n ≤ maxValidNumber
/-- `protowire.ConsumeTag`: anything from 1 to MaxInt32 -/
def numOKConsume (n : Nat) : Bool := 1 ≤ n && n ≤ 2 ^ 31 - 1
/-- protobuf-go `unmarshalPointerEager`: 1 .. MaxValidNumber -/
def numOKFull (n : Nat) : Bool := 1 ≤ n && n ≤ maxValidNumber

/-- `(number, wire type, tag length)` -/
def decodeTag (okNum : Nat → Bool) (b : Bytes) : Option (Nat × Nat × Nat) :=
  match consumeVarint b with
  | .ok (v, n) => if okNum (v / 8) then some (v / 8, v % 8, n) else none
  | .error _ => none

/-! ## reference decoder: the top-level field list as protobuf-go reads it -/

/-- value length of a non-group field (`protowire.ConsumeFieldValue`) -/
def skipScalar (wt : Nat) (b : Bytes) : Option Nat :=
  match wt with
  | 0 => match consumeVarint b with
    | .ok (_, n) => some n
    | .error _ => none
  | 1 => if 8 ≤ b.length then some 8 else none
  | 2 => match consumeVarint b with
    | .ok (m, n) => if m ≤ b.length - n then some (n + m) else none
    | .error _ => none
  | 5 => if 4 ≤ b.length then some 4 else none
  | _ => none

/-- body of a group opened with number `num` up to and including its end marker -/
def groupLoop : Nat → Nat → Bytes → Option Nat
  | 0, _, _ => none
  | fuel + 1, num, b =>
    match decodeTag numOKConsume b with
    | none => none
    | some (num2, wt2, n) =>
      if wt2 = 4 then (if num = num2 then some n else none)
      else
        match (if wt2 = 3 then groupLoop fuel num2 (b.drop n) else skipScalar wt2 (b.drop n)) with
        | none => none
        | some m =>
          match groupLoop fuel num (b.drop (n + m)) with
          | none => none
          | some k => some (n + m + k)

def skipValue (num wt : Nat) (b : Bytes) : Option Nat :=
  if wt = 3 then groupLoop (b.length + 1) num b else skipScalar wt b

/-- one top-level field: `from_` first tag byte, `vfrom` first value byte (after the length prefix of a LEN
field), `to_` one past the last byte -/
structure Field where
  num : Nat
  wt : Nat
  from_ : Nat
  vfrom : Nat
  to_ : Nat
  deriving DecidableEq, Repr

/-- length of the length prefix of a LEN value -/
def lenPrefix (wt : Nat) (b : Bytes) : Nat :=
  if wt = 2 then
    match consumeVarint b with
    | .ok (_, n) => n
    | .error _ => 0
  else 0

/-- reference parse of `rest`, the suffix of the buffer starting at offset `off` -/
def refLoop : Nat → Nat → Bytes → Option (List Field)
  | 0, _, _ => none
  | fuel + 1, off, rest =>
    if rest = [] then some []
    else
      match decodeTag numOKFull rest with
      | none => none
      | some (num, wt, n) =>
        match skipValue num wt (rest.drop n) with
        | none => none
        | some m =>
          match refLoop fuel (off + n + m) (rest.drop (n + m)) with
          | none => none
          | some fs => some (⟨num, wt, off, off + n + lenPrefix wt (rest.drop n), off + n + m⟩ :: fs)

/-- the full decoder's view of a message at wire level -/
def refParse (b : Bytes) : Option (List Field) := refLoop (b.length + 1) 0 b

/-! ## SDK `proto/protobuf` parsers -/

inductive Err
  | empty       -- errEmptyData
  | tag         -- ParseTag: bad varint or invalid number
  | unordered   -- NewUnorderedFieldsError
  | repeated    -- NewRepeatedFieldError
  | wtype       -- checkFieldType
  | field       -- "parse field #…": bad varint, overflow, truncated value, group
  | unktype     -- "unknown field type" (wire types 6, 7)
  | fuel        -- never returned (proved)
  deriving DecidableEq, Repr

/-- `FieldBounds`; all zero = missing -/
structure FB where
  from_ : Nat := 0
  vfrom : Nat := 0
  to_ : Nat := 0
  deriving DecidableEq, Repr

def FB.missing (f : FB) : Bool := f.from_ == f.to_

def maxInt : Nat := 2 ^ 63 - 1

/-- `ParseTag` -/
def parseTag (b : Bytes) : Except Err (Nat × Nat × Nat) :=
  match decodeTag numOKParse b with
  | some t => .ok t
  | none => .error .tag

/-- `ParseLEN`: `(length, bytes read)`; the length must fit `int` and the rest of the buffer -/
def parseLEN (b : Bytes) : Option (Nat × Nat) :=
  match consumeVarint b with
  | .ok (u, n) => if u > maxInt then none else if u > b.length - n then none else some (u, n)
  | .error _ => none

/-- `ParseLENFieldBounds(buf, off, tagLn, num, typ)` -/
def parseLENFieldBounds (buf : Bytes) (off tagLn wt : Nat) : Except Err FB :=
  if wt ≠ 2 then .error .wtype
  else
    match parseLEN (buf.drop (off + tagLn)) with
    | none => .error .field
    | some (ln, n) => .ok ⟨off, off + tagLn + n, off + tagLn + n + ln⟩

/-- `SkipField` -/
def skipField (wt : Nat) (b : Bytes) : Except Err Nat :=
  match wt with
  | 0 => match consumeVarint b with
    | .ok (_, n) => .ok n
    | .error _ => .error .field
  | 1 => if 8 ≤ b.length then .ok 8 else .error .field
  | 2 => match parseLEN b with
    | some (ln, n) => .ok (n + ln)
    | none => .error .field
  | 3 => .error .field
  | 4 => .error .field
  | 5 => if 4 ≤ b.length then .ok 4 else .error .field
  | _ => .error .unktype

/-- loop of `SeekFieldByNumber`: `some (offset, tag length, wire type)` or `none` = missing -/
def seekLoop (buf : Bytes) (seek : Nat) : Nat → Nat → Nat → Except Err (Option (Nat × Nat × Nat))
  | 0, _, _ => .error .fuel
  | fuel + 1, off, prev =>
    match parseTag (buf.drop off) with
    | .error e => .error e
    | .ok (num, wt, n) =>
      if num = seek then .ok (some (off, n, wt))
      else if num > seek then .ok none
      else if num < prev then .error .unordered
      else
        match skipField wt (buf.drop (off + n)) with
        | .error e => .error e
        | .ok m =>
          if off + n + m = buf.length then .ok none
          else seekLoop buf seek fuel (off + n + m) num

def seekFieldByNumber (buf : Bytes) (seek : Nat) : Except Err (Option (Nat × Nat × Nat)) :=
  if !numOKParse seek then .error .tag
  else if buf = [] then .ok none
  else seekLoop buf seek (buf.length + 1) 0 0

/-- `GetLENFieldBounds` -/
def getLENFieldBounds (buf : Bytes) (num : Nat) : Except Err FB :=
  match seekFieldByNumber buf num with
  | .error e => .error e
  | .ok none => .ok {}
  | .ok (some (off, tagLn, wt)) => parseLENFieldBounds buf off tagLn wt

/-- `GetUint64Field` -/
def getUint64Field (buf : Bytes) (num : Nat) : Except Err Nat :=
  match seekFieldByNumber buf num with
  | .error e => .error e
  | .ok none => .ok 0
  | .ok (some (off, tagLn, wt)) =>
    if wt ≠ 0 then .error .wtype
    else match consumeVarint (buf.drop (off + tagLn)) with
      | .ok (u, _) => .ok u
      | .error _ => .error .field

/-- `GetEnumField[T ~int32]` -/
def getEnumField (buf : Bytes) (num : Nat) : Except Err Nat :=
  match seekFieldByNumber buf num with
  | .error e => .error e
  | .ok none => .ok 0
  | .ok (some (off, tagLn, wt)) =>
    if wt ≠ 0 then .error .wtype
    else match consumeVarint (buf.drop (off + tagLn)) with
      | .ok (u, _) => if u > 2 ^ 31 - 1 then .error .field else .ok u
      | .error _ => .error .field

/-! ## `internal/object/wire.go` -/

/-- the loop shared by `GetNonPayloadFieldBounds` (`last = 3`, slots 1, 2, 3) and
`getParentNonPayloadFieldBounds` (`last = 4`, slots 1, 3, 4; 2 = previous is skipped): fields must come in
strictly ascending order, the scan stops after field `last`, at the first greater number or at the buffer end.
`slot num` says which result the field goes to (0 id, 1 signature, 2 header, 3 none). -/
def boundsLoop (buf : Bytes) (last : Nat) (slot : Nat → Nat) :
    Nat → Nat → Nat → FB → FB → Except Err (FB × FB × FB)
  | 0, _, _, _, _ => .error .fuel
  | fuel + 1, off, prev, idf, sigf =>
    match parseTag (buf.drop off) with
    | .error e => .error e
    | .ok (num, wt, n) =>
      if num > last then .ok (idf, sigf, {})
      else if num < prev then .error .unordered
      else if num = prev then .error .repeated
      else
        match parseLENFieldBounds buf off n wt with
        | .error e => .error e
        | .ok f =>
          if num = last then .ok (idf, sigf, f)
          else
            let idf' := if slot num = 0 then f else idf
            let sigf' := if slot num = 1 then f else sigf
            if f.to_ = buf.length then .ok (idf', sigf', {})
            else boundsLoop buf last slot fuel f.to_ num idf' sigf'

def objSlot (num : Nat) : Nat := if num = fObjID then 0 else if num = fObjSig then 1 else 2
def splitSlot (num : Nat) : Nat :=
  if num = fSplitParent then 0 else if num = fSplitParentSig then 1 else if num = fSplitParentHdr then 2 else 3

/-- `GetNonPayloadFieldBounds` -/
def getNonPayloadFieldBounds (buf : Bytes) : Except Err (FB × FB × FB) :=
  if buf = [] then .error .empty
  else boundsLoop buf fObjHdr objSlot 4 0 0 {} {}

/-- `getParentNonPayloadFieldBounds(buf, hdrFrom, hdrTo)` -/
def getParentIn (buf : Bytes) (hdrFrom hdrTo : Nat) : Except Err (FB × FB × FB) :=
  match getLENFieldBounds ((buf.take hdrTo).drop hdrFrom) fHdrSplit with
  | .error e => .error e
  | .ok splitf =>
    if splitf.missing || splitf.vfrom == splitf.to_ then .ok ({}, {}, {})   -- no split header, or an empty one
    else boundsLoop (buf.take (hdrFrom + splitf.to_)) fSplitParentHdr splitSlot 5 (hdrFrom + splitf.vfrom) 0 {} {}

/-- `GetParentNonPayloadFieldBounds` -/
def getParentNonPayloadFieldBounds (buf : Bytes) : Except Err (FB × FB × FB) :=
  if buf = [] then .error .empty
  else
    match getLENFieldBounds buf fObjHdr with
    | .error e => .error e
    | .ok rootHdrf =>
      if rootHdrf.missing then .ok ({}, {}, {})
      else getParentIn buf rootHdrf.vfrom rootHdrf.to_

/-- `GetParentNonPayloadFieldBoundsHeader` -/
def getParentNonPayloadFieldBoundsHeader (buf : Bytes) : Except Err (FB × FB × FB) :=
  if buf = [] then .error .empty else getParentIn buf 0 buf.length

def getPayloadLengthHeader (hdr : Bytes) : Except Err Nat := getUint64Field hdr fHdrPayloadLength
def getTypeHeader (hdr : Bytes) : Except Err Nat := getEnumField hdr fHdrType

/-! ### `ExtractHeaderAndPayload` -/

inductive EErr
  | empty
  | wire                 -- bad tag, non-LEN wire type, bad length, unknown field number
  | content (num : Nat)  -- proto.Unmarshal of the field's value failed
  | fuel
  deriving DecidableEq, Repr

/-- what the scan leaves: value ranges of the LAST id / signature / header seen, offset of the payload prefix -/
structure EHP where
  id : Option (Nat × Nat) := none
  sig : Option (Nat × Nat) := none
  hdr : Option (Nat × Nat) := none
  poff : Nat := 0
  deriving DecidableEq, Repr

/-- `ConsumeBytes` -/
def consumeBytes (b : Bytes) : Option (Nat × Nat) :=
  match consumeVarint b with
  | .ok (m, n) => if m ≤ b.length - n then some (m, n) else none
  | .error _ => none

/-- the scan loop; `unmOK num vfrom vto` = `proto.Unmarshal` of that value into the field's message succeeds -/
def ehpLoop (data : Bytes) (unmOK : Nat → Nat → Nat → Bool) : Nat → Nat → EHP → Except EErr EHP
  | 0, _, _ => .error .fuel
  | fuel + 1, off, r =>
    if off ≥ data.length then .ok { r with poff := off }
    else
      match decodeTag numOKConsume (data.drop off) with
      | none => .error .wire
      | some (num, wt, n) =>
        if wt ≠ 2 then .error .wire
        else if num = fObjPayload then
          match consumeVarint (data.drop (off + n)) with
          | .error _ => .error .wire
          | .ok (_, n2) => .ok { r with poff := off + n + n2 }
        else
          match consumeBytes (data.drop (off + n)) with
          | none => .error .wire
          | some (m, n2) =>
            let vf := off + n + n2
            let vt := off + n + n2 + m
            if num = fObjID then
              if unmOK num vf vt then ehpLoop data unmOK fuel vt { r with id := some (vf, vt) } else .error (.content num)
            else if num = fObjSig then
              if unmOK num vf vt then ehpLoop data unmOK fuel vt { r with sig := some (vf, vt) } else .error (.content num)
            else if num = fObjHdr then
              if unmOK num vf vt then ehpLoop data unmOK fuel vt { r with hdr := some (vf, vt) } else .error (.content num)
            else .error .wire

def extractHeaderAndPayload (data : Bytes) (unmOK : Nat → Nat → Nat → Bool) : Except EErr EHP :=
  if data = [] then .error .empty else ehpLoop data unmOK (data.length + 1) 0 {}

/-! ## canonical encoding of an object message (`Object.Marshal`: ascending fields, absent = not written) -/

def encLEN (num : Nat) (v : Bytes) : Bytes := encodeVarint (num * 8 + 2) ++ encodeVarint v.length ++ v

def encOpt (num : Nat) : Option Bytes → Bytes
  | none => []
  | some v => encLEN num v

structure Obj where
  id : Option Bytes := none
  sig : Option Bytes := none
  hdr : Option Bytes := none
  payload : Option Bytes := none

def encodeObj (o : Obj) : Bytes :=
  encOpt fObjID o.id ++ (encOpt fObjSig o.sig ++ (encOpt fObjHdr o.hdr ++ encOpt fObjPayload o.payload))

/-! ## views used to state agreement -/

/-- bounds of the LEN occurrences of field `k` in a field list -/
def occ (k : Nat) (fs : List Field) : List FB :=
  (fs.filter fun f => f.num == k && f.wt == 2).map fun f => ⟨f.from_, f.vfrom, f.to_⟩

/-- value of the last LEN field `k` of a message (`bytes` field semantics: last one wins) -/
def lastBytes (b : Bytes) (k : Nat) : Option Bytes :=
  match refParse b with
  | none => none
  | some fs =>
    match (occ k fs).getLast? with
    | none => some []
    | some f => some ((b.take f.to_).drop f.vfrom)

end NeoFS.Wire
