/-
Model of `validatingTarget` (`pkg/services/object/put/validation.go`) — the checks a node performs on a
streamed object before anything is handed to the next target — over an abstract header.

The header is abstracted to what the checks look at: declared size, declared checksum (a digest of type
`D`; `none` = missing or unsupported type) and one boolean per check of `FormatValidator.validate`
(`pkg/core/object/fmt.go`) with an ideal signature scheme (`sigOk` ↔ the signature is a signature of the ID
under the key, `ownerIsSigner` ↔ the owner is derived from that key / session issuer). The payload hash is a
parameter `H : List Nat → D`. The next target accepts every write except the `failAt`-th (0 = none).
-/
namespace NeoFS.Validate

inductive Err | size | max | quota | down | checksum | format
  deriving DecidableEq, Repr

structure Hdr (D : Type) where
  size : Nat
  csum : Option D
  -- checked for every object
  versionOk : Bool
  cidSet : Bool
  ownerSet : Bool
  cnrKnown : Bool
  attrsOk : Bool      -- no duplicate keys, no empty values, no zero bytes
  expOk : Bool        -- expiration attribute parses and is not in the past (or the object is locked)
  -- checked for prepared (client-sealed) objects only
  idSet : Bool
  idMatches : Bool    -- ID = hash of the header
  sigOk : Bool
  ownerIsSigner : Bool

structure Cfg where
  unprep : Bool
  maxSz : Nat
  /-- hard quota left (`none` = unlimited) -/
  quota : Option Nat
  /-- sum of the REP rules' copies (`cachedRepNumber`); the container of the tie has no EC rules -/
  rep : Nat

/-- `FormatValidator.Validate(obj, unprepared, false)` as a conjunction of its checks -/
def fmtAccept {D : Type} (unprep : Bool) (h : Hdr D) : Bool :=
  h.versionOk && h.cidSet && h.ownerSet && h.cnrKnown && h.attrsOk && h.expOk &&
    (unprep || (h.idSet && h.idMatches && h.sigOk && h.ownerIsSigner))

/-- `checkQuotaLimits` -/
def quotaOk (c : Cfg) (written : Nat) : Bool :=
  match c.quota with
  | none => true
  | some q => decide (written * c.rep ≤ q)

structure St where
  written : Nat := 0
  /-- bytes fed to the running hash -/
  hashed : List Nat := []
  /-- bytes the next target accepted -/
  down : List Nat := []
  /-- `Write` calls made to the next target -/
  writes : Nat := 0
  deriving Repr

/-- `WriteHeader` (header without payload chunk) -/
def writeHeader {D : Type} (c : Cfg) (h : Hdr D) : Except Err St :=
  if !c.unprep && decide (h.size > c.maxSz) then .error .max
  else if !c.unprep && h.csum.isNone then .error .format
  else if !fmtAccept c.unprep h then .error .format
  else if !quotaOk c h.size then .error .quota
  else .ok {}

/-- `Write` (repaired: a failed downstream write is an error unless the quota error takes precedence) -/
def write {D : Type} (c : Cfg) (h : Hdr D) (failAt : Nat) (s : St) (p : List Nat) : Except Err St :=
  if !c.unprep && decide (s.written + p.length > h.size) then .error .size
  else
    let hashed := if c.unprep then s.hashed else s.hashed ++ p
    if failAt = s.writes + 1 then
      if !quotaOk c s.written then .error .quota else .error .down
    else
      let s' : St := { written := s.written + p.length, hashed := hashed, down := s.down ++ p, writes := s.writes + 1 }
      if !quotaOk c s'.written then .error .quota else .ok s'

/-- `Close` -/
def close {D : Type} [DecidableEq D] (c : Cfg) (H : List Nat → D) (h : Hdr D) (s : St) : Except Err St :=
  if c.unprep then .ok s
  else if h.size ≠ s.written then .error .size
  else if some (H s.hashed) ≠ h.csum then .error .checksum
  else .ok s

/-- the writes of a stream; the error carries the 1-based index of the failing write -/
def writes {D : Type} (c : Cfg) (h : Hdr D) (failAt : Nat) : List (List Nat) → Nat → St → Except (Nat × Err) St
  | [], _, s => .ok s
  | p :: ps, k, s =>
    match write c h failAt s p with
    | .error e => .error (k, e)
    | .ok s' => writes c h failAt ps (k + 1) s'

/-- A whole stream: header, chunks, close. Error position 0 = header, `k` = `k`-th write, `n+1` = close. -/
def stream {D : Type} [DecidableEq D] (c : Cfg) (H : List Nat → D) (h : Hdr D) (failAt : Nat) (chunks : List (List Nat)) :
    Except (Nat × Err) St :=
  match writeHeader c h with
  | .error e => .error (0, e)
  | .ok s0 =>
    match writes c h failAt chunks 1 s0 with
    | .error e => .error e
    | .ok s =>
      match close c H h s with
      | .error e => .error (chunks.length + 1, e)
      | .ok s => .ok s

end NeoFS.Validate
