/-
Model of `validatingTarget` (`pkg/services/object/put/validation.go`) — the checks a node performs on a
streamed object before anything is handed to the next target — over an abstract header.

The header is abstracted to what the checks look at: declared size, declared checksum (a digest of type
`D`; `none` = missing or unsupported type) and one boolean per check of `FormatValidator.validate`
(`pkg/core/object/fmt.go`) with an ideal signature scheme (`sigOk` ↔ the signature is a signature of the ID
under the key, `ownerIsSigner` ↔ the owner is derived from that key / session issuer). The payload hash is a
parameter `H : List Nat → D`. The next target accepts every write except the `failAt`-th (0 = none).
-/
namespace NeoFS.Validate

inductive Err | size | max | quota | down | checksum | format
  deriving DecidableEq, Repr

structure Hdr (D : Type) where
  size : Nat
  csum : Option D
  -- checked for every object
  versionOk : Bool
  cidSet : Bool
  ownerSet : Bool
  cnrKnown : Bool
  attrsOk : Bool      -- no duplicate keys, no empty values, no zero bytes
  expOk : Bool        -- expiration attribute parses and is not in the past (or the object is locked)
  -- checked for prepared (client-sealed) objects only
  idSet : Bool
  idMatches : Bool    -- ID = hash of the header
  sigOk : Bool
  ownerIsSigner : Bool

structure Cfg where
  unprep : Bool
  maxSz : Nat
  /-- hard quota left (`none` = unlimited) -/
  quota : Option Nat
  /-- sum of the REP rules' copies (`cachedRepNumber`); the container of the tie has no EC rules -/
  rep : Nat

/-- `FormatValidator.Validate(obj, unprepared, false)` as a conjunction of its checks -/
def fmtAccept {D : Type} (unprep : Bool) (h : Hdr D) : Bool :=
  h.versionOk && h.cidSet && h.ownerSet && h.cnrKnown && h.attrsOk && h.expOk &&
    (unprep || (h.idSet && h.idMatches && h.sigOk && h.ownerIsSigner))

/-- `checkQuotaLimits` -/
def quotaOk (c : Cfg) (written : Nat) : Bool :=
  match c.quota with
  | none => true
  | some q => decide (written * c.rep ≤ q)

structure St where
  written : Nat := 0
  /-- bytes fed to the running hash -/
  hashed : List Nat := []
  /-- bytes the next target accepted -/
  down : List Nat := []
  /-- `Write` calls made to the next target -/
  writes : Nat := 0
  deriving Repr

/-- `WriteHeader` (header without payload chunk) -/
def writeHeader {D : Type} (c : Cfg) (h : Hdr D) : Except Err St :=
  if !c.unprep && decide (h.size > c.maxSz) then .error .max
  else if !c.unprep && h.csum.isNone then .error .format
  else if !fmtAccept c.unprep h then .error .format
  else if !quotaOk c h.size then .error .quota
  else .ok {}

/-- `Write` (repaired: a failed downstream write is an error unless the quota error takes precedence) -/
def write {D : Type} (c : Cfg) (h : Hdr D) (failAt : Nat) (s : St) (p : List Nat) : Except Err St :=
  if !c.unprep && decide (s.written + p.length > h.size) then .error .size
  else
    let hashed := if c.unprep then s.hashed else s.hashed ++ p
    if failAt = s.writes + 1 then
      if !quotaOk c s.written then .error .quota else .error .down
    else
      let s' : St := { written := s.written + p.length, hashed := hashed, down := s.down ++ p, writes := s.writes + 1 }
      if !quotaOk c s'.written then .error .quota else .ok s'

/-- `Close` -/
def close {D : Type} [DecidableEq D] (c : Cfg) (H : List Nat → D) (h : Hdr D) (s : St) : Except Err St :=
  if c.unprep then .ok s
  else if h.size ≠ s.written then .error .size
  else if some (H s.hashed) ≠ h.csum then .error .checksum
  else .ok s

/-- the writes of a stream; the error carries the 1-based index of the failing write -/
def writes {D : Type} (c : Cfg) (h : Hdr D) (failAt : Nat) : List (List Nat) → Nat → St → Except (Nat × Err) St
  | [], _, s => .ok s
  | p :: ps, k, s =>
    match write c h failAt s p with
    | .error e => .error (k, e)
    | .ok s' => writes c h failAt ps (k + 1) s'

/-- A whole stream: header, chunks, close. Error position 0 = header, `k` = `k`-th write, `n+1` = close. -/
def stream {D : Type} [DecidableEq D] (c : Cfg) (H : List Nat → D) (h : Hdr D) (failAt : Nat) (chunks : List (List Nat)) :
    Except (Nat × Err) St :=
  match writeHeader c h with
  | .error e => .error (0, e)
  | .ok s0 =>
    match writes c h failAt chunks 1 s0 with
    | .error e => .error e
    | .ok s =>
      match close c H h s with
      | .error e => .error (chunks.length + 1, e)
      | .ok s => .ok s

/-!
## Authentication of a sealed object with the node's shared session-token cache

`icrypto.AuthenticateObject` (`internal/crypto/object.go`) as called by `FormatValidator.validate`: the checks that
depend on the session token alone (its own signature) are memoised per TOKEN in `ObjectSessionsCache`
(`internal/sessions`, an LRU keyed by the SHA-256 of the encoded token); the checks that depend on the OBJECT
(the token is issued for the key that signed the object, the token's issuer is the object's owner, the object's
signature) are evaluated for every object. Users and keys are numbers; a token is named by its cache key
(`T : Nat → Tok`: the key determines the token — collision freeness of SHA-256 is assumed).
-/

structure Tok where
  /-- V1: `Issuer()`, V2: `OriginalIssuer()` -/
  issuer : Nat
  /-- V1: the user of the session (auth) key, V2: the subject -/
  subject : Nat
  /-- the token is correctly signed by its issuer (`AuthenticateToken` / `AuthenticateTokenV2`) -/
  sigValid : Bool
  deriving DecidableEq, Repr

structure AObj where
  owner : Nat
  /-- user of the public key carried by the object's signature -/
  signer : Nat
  /-- the signature is a signature of the object's ID under that key -/
  sigOk : Bool
  /-- cache key of the session token in the header -/
  tok : Option Nat
  deriving DecidableEq, Repr

inductive AuthErr | sessionKey | sessionToken | sessionOwner | signature | owner
  deriving DecidableEq, Repr

/-- `ObjectSessionsCache`: most recently used first, `(token, the token is authentic)` -/
abbrev Cache := List (Nat × Bool)

/-- `AuthenticateTokenV1/V2(key, authOnMiss)`: `lru.Get` (a hit becomes the most recent entry), on a miss the
result of `authOnMiss` is added and the least recently used entry is evicted beyond `cap` -/
def cacheAuth (cap : Nat) (c : Cache) (k : Nat) (onMiss : Bool) : Cache × Bool :=
  match c.lookup k with
  | some v => ((k, v) :: c.filter (fun e => e.1 != k), v)
  | none => (((k, onMiss) :: c).take cap, onMiss)

/-- `AuthenticateObject` for ECDSA schemes -/
def authenticate (T : Nat → Tok) (cap : Nat) (c : Cache) (o : AObj) : Cache × Option AuthErr :=
  match o.tok with
  | none =>
    if !o.sigOk then (c, some .signature)
    else if o.signer != o.owner then (c, some .owner)
    else (c, none)
  | some k =>
    let t := T k
    if t.subject != o.signer then (c, some .sessionKey)
    else
      let r := cacheAuth cap c k t.sigValid
      if !r.2 then (r.1, some .sessionToken)
      else if t.issuer != o.owner then (r.1, some .sessionOwner)
      else if !o.sigOk then (r.1, some .signature)
      else (r.1, none)

/-- a sequence of objects validated by ONE validator (one cache) -/
def authSeq (T : Nat → Tok) (cap : Nat) : Cache → List AObj → List (Option AuthErr)
  | _, [] => []
  | c, o :: os => let r := authenticate T cap c o; r.2 :: authSeq T cap r.1 os

/-- the cache after a sequence -/
def authCache (T : Nat → Tok) (cap : Nat) : Cache → List AObj → Cache
  | c, [] => c
  | c, o :: os => authCache T cap (authenticate T cap c o).1 os

/-!
## The entry points through which an object reaches a node's local storage

`Streamer` + `validatingTarget` + `distributedTarget.Close` (a PUT stream served by this node, for the whole
network or local-only) and `Service.ValidateAndStoreObjectLocally` (the storage step of `Replicate`). The
object is abstracted to its type and two verdicts: `hdrOk` (`FormatValidator.Validate` accepts the header) and
`contentOk` (`FormatValidator.ValidateContent` accepts: tombstone target rules, link payload and chain, no
payload in tombstone/lock). Size and checksum are as declared (that part is the stream model above).
-/

inductive OType | regular | tombstone | lock | link
  deriving DecidableEq, Repr

structure EObj where
  typ : OType
  hdrOk : Bool
  contentOk : Bool
  deriving DecidableEq, Repr

inductive EErr | policy | format | content | fail
  deriving DecidableEq, Repr

/-- `distributedTarget.Close` up to `saveObject`: tombstone and link content is not checked by a node outside
the container (a container node checks it when the object reaches it) -/
def closeChecks (inContainer : Bool) (o : EObj) : Bool :=
  ((o.typ == .link || o.typ == .tombstone) && !inContainer) || o.contentOk

/-- a PUT stream served by one node: `preparePrm`, `validatingTarget`, `distributedTarget.Close` up to `saveObject` -/
def putChecks (inContainer localOnly : Bool) (o : EObj) : Except EErr Unit :=
  if !inContainer && localOnly then .error .policy
  else if !o.hdrOk then .error .format
  else if !closeChecks inContainer o then .error .content
  else .ok ()

/-- `ValidateAndStoreObjectLocally` -/
def replicateChecks (o : EObj) : Except EErr Unit :=
  if !o.hdrOk then .error .format
  else if !o.contentOk then .error .content
  else .ok ()

/-- how a request enters the cluster of the tie: container nodes 1 and 2 (REP 2), node 3 outside -/
inductive Route
  | put        -- PUT at container node 1: stored locally, replicated to node 2 (`Replicate`)
  | putLocal   -- local-only PUT (TTL 1) at container node 1
  | relay      -- PUT at node 3 outside the container: forwarded to nodes 1 and 2 as local-only PUTs
  | relayLocal -- local-only PUT at node 3: refused
  | replicate  -- `Replicate` to container node 1
  deriving DecidableEq, Repr

def okNodes (l : List (Nat × Except EErr Unit)) : List Nat :=
  l.filterMap fun x => match x.2 with | .ok _ => some x.1 | .error _ => none

/-- verdict for the sender and the nodes whose local storage received the object. `nodeSeals`: the object arrives
unsealed and the serving node slices and signs it itself (trusted path: `sessionSigner` is set). -/
def cluster (r : Route) (nodeSeals : Bool) (o : EObj) : Except EErr Unit × List Nat :=
  match r with
  | .put =>
    match putChecks true false o with
    | .error e => (.error e, [])
    | .ok _ =>
      match replicateChecks o with
      | .ok _ => (.ok (), [1, 2])
      | .error _ => (.error .fail, [1])
  | .putLocal =>
    match putChecks true true o with
    | .error e => (.error e, [])
    | .ok _ =>
      -- `saveObject` keeps the operation on this node only when `localOnly && sessionSigner == nil`, or for the
      -- objects that go through `distributeObject`; a REGULAR object sealed by this node is placed by the REP rules
      -- (the other container node receives it as a local-only PUT)
      if nodeSeals && o.typ == .regular then
        let stored := 1 :: okNodes [(2, putChecks true true o)]
        (if stored.length = 2 then .ok () else .error .fail, stored)
      else (.ok (), [1])
  | .relay =>
    match putChecks false false o with
    | .error e => (.error e, [])
    | .ok _ =>
      let stored := okNodes [(1, putChecks true true o), (2, putChecks true true o)]
      (if stored.length = 2 then .ok () else .error .fail, stored)
  | .relayLocal =>
    match putChecks false true o with
    | .error e => (.error e, [])
    | .ok _ => (.ok (), [])
  | .replicate =>
    match replicateChecks o with
    | .error e => (.error e, [])
    | .ok _ => (.ok (), [1])

end NeoFS.Validate
