import NeoFS.Model.Meta
/-
Model of `StorageEngine.ListWithCursor` and `mergeListResults` (`pkg/local_object_storage/engine/list.go`):
every shard is asked for a page of `count` addresses after the same cursor; the pages are merged one after the
other into a sorted, deduplicated result of at most `count` items, each carrying the shards that hold it; the
new cursor is the last merged address.
-/
namespace NeoFS.EngList
open NeoFS.Meta

abbrev Addr := Nat × Nat

/-- `Address.Compare(a, b) < 0`: container first, then object id -/
def lt (a b : Addr) : Bool := a.1 < b.1 || (a.1 == b.1 && a.2 < b.2)

structure Item where
  addr : Addr
  holders : List Nat
  deriving Repr, DecidableEq

/-- the merge loop of `mergeListResults` with `n` result slots left -/
def mergeGo : Nat → List Item → List Addr → Nat → List Item
  | 0, _, _, _ => []
  | _ + 1, [], [], _ => []
  | n + 1, [], y :: ys, sh => ⟨y, [sh]⟩ :: mergeGo n [] ys sh
  | n + 1, x :: xs, [], sh => x :: mergeGo n xs [] sh
  | n + 1, x :: xs, y :: ys, sh =>
    if lt y x.addr then ⟨y, [sh]⟩ :: mergeGo n (x :: xs) ys sh          -- cmp > 0: take from the shard's page
    else if x.addr == y then { x with holders := x.holders ++ [sh] } :: mergeGo n xs ys sh   -- cmp == 0
    else x :: mergeGo n xs (y :: ys) sh                                   -- cmp < 0

/-- `mergeListResults(out, a, b, shardID, count)` -/
def mergeList (a : List Item) (b : List Addr) (sh count : Nat) : List Item :=
  if a.isEmpty then (b.take count).map fun y => ⟨y, [sh]⟩
  else mergeGo count a b sh

/-- one shard of the engine's loop: an error or an empty page leaves the result untouched -/
def engStep (count : Nat) (cursor : Option Addr) (acc : List Item) (s : Nat × DB) : List Item :=
  let p := (dbList s.2 count cursor).1
  if p.isEmpty then acc else mergeList acc p s.1 count

/-- `StorageEngine.ListWithCursor(count, cursor)` over the shards in the order they are visited -/
def engList (shards : List (Nat × DB)) (count : Nat) (cursor : Option Addr) : List Item × Option Addr :=
  let res := shards.foldl (engStep count cursor) []
  match res.getLast? with
  | none => ([], none)
  | some l => (res, some l.addr)

end NeoFS.EngList
