/-
Model of one shard (`pkg/local_object_storage/shard`) at the granularity of its ATOMIC PERSISTENT STEPS.

Persistent state: the main object storage `blob`, the write-cache files `wc` (both `address ↦ stored object`),
and a status summary of the metabase per address (`idx` = the object is indexed with its kind, `garb` = garbage
key with its mark, `hasBkt` = the container bucket exists) — every metabase call is one bolt transaction, hence
one atomic step.  The network epoch is part of the environment.  Volatile state (dropped by a crash): the GC's
`currentEpoch` / `processedEpoch`.

Every shard operation is the SEQUENCE of atomic steps the code performs, in the code's order (`opSteps`):

* `Shard.Put`        = [cache write | blob write], [metabase put], on refusal [cache delete], [blob delete]
* `Shard.deleteObjs` = [metabase delete], [cache delete]*, [blob delete]*              (repaired order)
                       (the order before the repair, `deleteStepsOrig`, started with the cache deletes)
* `Shard.MarkGarbage`= [metabase mark], for the default mark [cache delete]*
* `removeGarbage`    = `collectExpiredObjects` (deleteObjs of the expired tombstones) then deleteObjs(garbage list)
* `flushSingle`      = [main-storage put of the cached bytes], [cache delete]
* metabase resync    = [reset], [PutBatch of the objects found in the main storage, in iteration order]
* `flushRace`        = one flush-versus-delete schedule: [flusher reads], deleteObjs, [flusher's main-storage put],
                       [cache delete]

A crash is "stop after any prefix of the step list, drop the volatile state".
The metabase internals are NOT re-modelled here (Model/Meta.lean does that): locks, split/EC relations and
expiration of regular objects are left out; the summary is validated against the real shard on every run.
-/
namespace NeoFS.ShardSteps

/-- bound of the id universe the tombstone lookup scans (driven histories use ids below it) -/
def U : Nat := 16

inductive Kind
  | reg
  | ts (target exp : Nat)
  deriving DecidableEq, Repr

inductive Mark | dflt | redundant
  deriving DecidableEq, Repr

/-- what a store holds for an address: the object (its header kind and its payload, abstracted to a number) -/
structure Body where
  kind : Kind
  payload : Nat
  deriving DecidableEq, Repr

structure St where
  blob : Nat → Option Body := fun _ => none
  wc : Nat → Option Body := fun _ => none
  idx : Nat → Option Kind := fun _ => none
  garb : Nat → Option Mark := fun _ => none
  hasBkt : Bool := false
  epoch : Nat := 0
  hasWC : Bool := false
  -- volatile
  curEpoch : Nat := 0
  processed : Nat := 0

inductive Err | ok | notFound | alreadyRemoved | expired | metaNoObject | other
  deriving DecidableEq, Repr

inductive Status | available | gcMarked | tombstoned | expired
  deriving DecidableEq, Repr

def upd {β : Type} (f : Nat → β) (a : Nat) (v : β) : Nat → β := fun x => if x = a then v else f x

/-! ### metabase status summary -/

def indexed (s : St) (a : Nat) : Bool := (s.idx a).isSome

/-- `isExpired` (only tombstones carry an expiration epoch here) -/
def expiredNow (s : St) (a : Nat) : Bool :=
  match s.idx a with
  | some (.ts _ x) => decide (s.epoch > x)
  | _ => false

def tsTargets (k : Option Kind) (a : Nat) : Bool :=
  match k with
  | some (.ts tg _) => tg == a
  | _ => false

/-- `associatedWithTypedObject(0, …, TypeTombstone)`: some indexed tombstone (expired or not) targets `a` -/
def tombstoned (s : St) (a : Nat) : Bool := (List.range U).any fun t => tsTargets (s.idx t) a

/-- `objectStatus` -/
def status (s : St) (a : Nat) : Status :=
  if expiredNow s a then .expired
  else if tombstoned s a then .tombstoned
  else if s.garb a = some .dflt then .gcMarked
  else .available

/-- `metaBase.Exists(addr, false)` answers (true, nil) -/
def available (s : St) (a : Nat) : Bool := status s a == .available && indexed s a

def hasData (s : St) (a : Nat) : Bool := (s.blob a).isSome || (s.wc a).isSome

/-- `Shard.Get(addr, false)` (`fetchObjectData`, repaired: an object the metabase does not know is refused
before any storage is consulted; it used to be served from the write-cache when a copy was lying there) -/
def get (s : St) (a : Nat) : Err × Option Body :=
  match status s a with
  | .expired => (.expired, none)
  | .tombstoned => (.alreadyRemoved, none)
  | .gcMarked => (.notFound, none)
  | .available =>
    if indexed s a then
      match s.wc a with
      | some b => (.ok, some b)
      | none =>
        match s.blob a with
        | some b => (.ok, some b)
        | none => (.metaNoObject, none)
    else (.notFound, none)

/-- `fetchObjectData` before the repair: the write-cache was consulted first, whatever the metabase said about
the object's existence -/
def getOrig (s : St) (a : Nat) : Err × Option Body :=
  match status s a with
  | .expired => (.expired, none)
  | .tombstoned => (.alreadyRemoved, none)
  | .gcMarked => (.notFound, none)
  | .available =>
    match s.wc a with
    | some b => (.ok, some b)
    | none =>
      if indexed s a then
        match s.blob a with
        | some b => (.ok, some b)
        | none => (.metaNoObject, none)
      else (.notFound, none)

/-! ### atomic steps -/

inductive Step
  | blobPut (a : Nat) (b : Body)
  | wcPut (a : Nat) (b : Body)
  | metaPut (a : Nat) (k : Kind)
  | metaDelete (ids : List Nat)
  | metaMark (ids : List Nat) (m : Mark)
  | wcDel (a : Nat)
  | blobDel (a : Nat)
  | flushCopy (a : Nat)
  | metaReset
  | resyncBatch (order : List Nat)
  deriving Repr

def isTS : Option Kind → Bool
  | some (.ts _ _) => true
  | _ => false

/-- the indexing part of `db.put` (the object is neither indexed nor removed) -/
def insertObj (s : St) (a : Nat) : Kind → St × Err
  | .reg => ({ s with idx := upd s.idx a (some .reg), hasBkt := true }, .ok)
  | .ts tg x =>
    if isTS (s.idx tg) then (s, .other)      -- "TS's target is another TS"
    else ({ s with idx := upd s.idx a (some (.ts tg x)), garb := upd s.garb tg (some .dflt), hasBkt := true }, .ok)

/-- `db.put` for one object inside a transaction -/
def metaPut (s : St) (a : Nat) (k : Kind) : St × Err :=
  if status s a = .expired then (s, .expired)
  else if status s a = .tombstoned then (s, .alreadyRemoved)
  else if indexed s a then (s, .ok)     -- available, or marked as garbage and not collected yet: nothing to add
  else insertObj s a k

def markOne (m : Mark) (g : Nat → Option Mark) (a : Nat) : Nat → Option Mark :=
  -- the default mark stays; a redundant mark is upgraded by a default one (or rewritten as it is)
  if g a = some .dflt then g else upd g a (some m)

/-- `PutBatch` of the objects the main storage holds, in the given order: refused objects are skipped, any
other error rolls the whole transaction back -/
def putBatch (s : St) (blob : Nat → Option Body) : List Nat → Option St
  | [] => some s
  | a :: rest =>
    match blob a with
    | none => putBatch s blob rest
    | some b =>
      if (metaPut s a b.kind).2 = .other then none
      else putBatch (metaPut s a b.kind).1 blob rest

def applyStep (s : St) : Step → St
  | .blobPut a b => { s with blob := upd s.blob a (some b) }
  | .wcPut a b => { s with wc := upd s.wc a (some b) }
  | .metaPut a k => (metaPut s a k).1
  | .metaDelete ids =>
    { s with idx := fun x => if x ∈ ids then none else s.idx x,
             garb := fun x => if x ∈ ids then none else s.garb x }
  | .metaMark ids m => if s.hasBkt then { s with garb := ids.foldl (markOne m) s.garb } else s
  | .wcDel a => { s with wc := upd s.wc a none }
  | .blobDel a => { s with blob := upd s.blob a none }
  | .flushCopy a =>
    match s.wc a with
    | some b => { s with blob := upd s.blob a (some b) }
    | none => s
  | .metaReset => { s with idx := fun _ => none, garb := fun _ => none, hasBkt := false }
  | .resyncBatch order => (putBatch s s.blob order).getD s

def applySteps (s : St) (l : List Step) : St := l.foldl applyStep s

/-! ### operations as step lists -/

inductive Op
  | put (a : Nat) (b : Body)
  | delete (ids : List Nat)
  | mark (ids : List Nat) (m : Mark)
  | gc
  | flush (a : Nat)
  | flushAll (order : List Nat)
  | flushRace (a : Nat)
  | epoch (e : Nat)
  | reopen
  | resync (order : List Nat)
  deriving Repr

/-- `deleteObjs` after the repair: metadata first, then the cache, then the main storage -/
def deleteSteps (s : St) (ids : List Nat) : List Step :=
  if ids.isEmpty then []
  else .metaDelete ids ::
    (if s.hasBkt then (if s.hasWC then ids.map .wcDel else []) ++ ids.map .blobDel else [])

/-- `deleteObjs` as it was: the cache copies went first, while the metabase still listed the objects -/
def deleteStepsOrig (s : St) (ids : List Nat) : List Step :=
  if ids.isEmpty then []
  else (if s.hasWC then ids.map .wcDel else []) ++ .metaDelete ids :: (if s.hasBkt then ids.map .blobDel else [])

def insertBy (key : Nat → Nat) (x : Nat) : List Nat → List Nat
  | [] => [x]
  | y :: ys => if key x < key y then x :: y :: ys else y :: insertBy key x ys

/-- `IterateExpired(currentEpoch)`: indexed tombstones with `exp < currentEpoch`, ordered by (exp, id) -/
def expiredTS (s : St) : List Nat :=
  let key := fun t => match s.idx t with | some (.ts _ x) => x * U + t | _ => 0
  ((List.range U).filter fun t => match s.idx t with | some (.ts _ x) => decide (x < s.curEpoch) | _ => false).foldl
    (fun acc t => insertBy key t acc) []

/-- `GetGarbage`: every id with a garbage key (whatever the mark), in id order -/
def garbageList (s : St) : List Nat := (List.range U).filter fun a => (s.garb a).isSome

/-- does `collectExpiredObjects` look at the metabase in this pass? -/
def expiryActive (s : St) : Bool := s.processed < s.curEpoch

def expirySteps (s : St) : List Step := if expiryActive s then deleteSteps s (expiredTS s) else []

def garbageSteps (s : St) : List Step := deleteSteps s (garbageList s)

def flushSteps (s : St) (a : Nat) : List Step :=
  match s.wc a with
  | some _ => [.flushCopy a, .wcDel a]
  | none => []

def flushAllSteps (s : St) : List Nat → List Step
  | [] => []
  | a :: rest => let l := flushSteps s a; l ++ flushAllSteps (applySteps s l) rest

/-- a SCHEDULE of the flusher against a deletion of the same object: the flusher has read the cache file, the
object is deleted (`Shard.Delete`), then the flusher writes the bytes it holds to the main storage and drops
the (already missing) cache copy -/
def flushRaceSteps (s : St) (a : Nat) : List Step :=
  match s.wc a with
  | some b => deleteSteps s [a] ++ [.blobPut a b, .wcDel a]
  | none => []

def putSteps (s : St) (a : Nat) (b : Body) : List Step :=
  let dataStep := if s.hasWC then Step.wcPut a b else Step.blobPut a b
  let refused := (metaPut s a b.kind).2 != .ok
  dataStep :: .metaPut a b.kind ::
    (if refused then (if s.hasWC then [.wcDel a] else []) ++ [.blobDel a] else [])

def opSteps (s : St) : Op → List Step
  | .put a b => putSteps s a b
  | .delete ids => deleteSteps s ids
  | .mark ids m => .metaMark ids m :: (if m = .dflt && s.hasWC then ids.map .wcDel else [])
  | .gc => let l := expirySteps s; l ++ garbageSteps (applySteps s l)
  | .flush a => flushSteps s a
  | .flushAll order => flushAllSteps s order
  | .flushRace a => flushRaceSteps s a
  | .epoch _ => []
  | .reopen => []
  | .resync order => [.metaReset, .resyncBatch order]

/-- a crash / restart drops the volatile state -/
def crash (s : St) : St := { s with curEpoch := 0, processed := 0 }

/-- what a COMPLETED operation does to the volatile state and the environment (no persistent effect) -/
def opPost (s0 s : St) : Op → St
  | .gc =>
    -- `collectExpiredObjects`: nothing found ⇒ remember the epoch as processed; a processed epoch ahead of the
    -- current one is pulled back
    if s0.processed > s0.curEpoch then { s with processed := s0.curEpoch }
    else if s0.processed < s0.curEpoch && (expiredTS s0).isEmpty then { s with processed := s0.curEpoch }
    else s
  | .epoch e => let e' := max s.epoch e; { s with epoch := e', curEpoch := e' }
  | .reopen => { crash s with curEpoch := s.epoch }
  | _ => s

/-- a completed operation -/
def runOp (s : St) (o : Op) : St := opPost s (applySteps s (opSteps s o)) o

/-- an operation cut after its first `k` atomic steps by a crash -/
def crashOp (s : St) (o : Op) (k : Nat) : St := crash (applySteps s ((opSteps s o).take k))

/-- a history: every operation either completes or is cut by a crash after `k` steps (then the shard restarts) -/
def runHist (s : St) : List (Op × Option Nat) → St
  | [] => s
  | (o, none) :: rest => runHist (runOp s o) rest
  | (o, some k) :: rest => runHist (crashOp s o k) rest

/-- the refusal of the metabase put of `Shard.Put`, as reported to the caller -/
def putResult (s : St) (a : Nat) (b : Body) : Err := (metaPut s a b.kind).2

end NeoFS.ShardSteps
