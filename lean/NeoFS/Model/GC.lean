import NeoFS.Model.Meta
/-
Model of the shard's garbage collector (`pkg/local_object_storage/shard/gc.go`, `delete.go`) on top of the
metabase model: one `removeGarbage` pass = `collectExpiredObjects` (expired tombstones are deleted per container,
other expired objects go through the engine callback `processExpiredObjects`) followed by `GetGarbage(batch)` and
`deleteObjs` / `DeleteContainer` per trash bin.  The blob storage is the set of stored addresses.

Not modelled: expired *split parents* (the engine collects their children through link objects) — generated
histories give expirations to unsplit objects only; the write-cache (objects are deleted from it like from the
blob storage).
-/
namespace NeoFS.GC
open NeoFS.Meta

structure St where
  db : DB := []
  /-- the epoch the metabase sees = `gc.currentEpoch` (the new-epoch event sets both) -/
  epoch : Nat := 0
  /-- `gc.processedEpoch`: highest epoch for which expired processing found nothing -/
  processed : Nat := 0
  /-- addresses present in the blob storage -/
  blobs : List (Nat × Nat) := []
  deriving Repr, DecidableEq

def insertAddr (a : Nat × Nat) : List (Nat × Nat) → List (Nat × Nat)
  | [] => [a]
  | x :: xs =>
    if a.1 < x.1 || (a.1 == x.1 && a.2 < x.2) then a :: x :: xs
    else if a == x then x :: xs
    else x :: insertAddr a xs

/-- `Shard.deleteObjs(cnr, ids)`: `metaBase.Delete`, then the blob of everything it reports removed
(the listed ids and the EC parts added by `supplementRemovedObjects`) -/
def deleteObjs (s : St) (cn : Nat) (ids : List Nat) : St :=
  if ids.isEmpty then s
  else match getCnr? s.db cn with
    | none => s                         -- no bucket: `Delete` reports nothing
    | some c =>
      let res := c.supplement ids
      { s with db := dbDelete s.db cn ids, blobs := s.blobs.filter fun a => !(a.1 == cn && res.contains a.2) }

/-- group the expired tombstones into per-container bins, in iteration order -/
def tombBins : List (Nat × Nat × OType) → List (Nat × List Nat)
  | [] => []
  | x :: xs =>
    match tombBins xs with
    | (c, ids) :: rest => if c == x.1 then (c, x.2.1 :: ids) :: rest else (x.1, [x.2.1]) :: (c, ids) :: rest
    | [] => [(x.1, [x.2.1])]

/-- `processExpiredObjects` for one unsplit object: skipped when locked; `Exists(addr, ignoreExpiration)` must
say the object is there (a tombstoned or garbage-marked one is left to the garbage phase); then `Shard.Delete` -/
def engineDeleteExpired (s : St) (cn id : Nat) : St :=
  if dbIsLocked s.db cn id s.epoch then s
  else
    let (ex, err) := dbExists s.db cn id 0
    if err == .ok && ex then deleteObjs s cn [id] else s

/-- `collectExpiredObjects` with batch size `batch ≥ 1` -/
def collectExpired (batch : Nat) (s : St) : St :=
  if s.processed == s.epoch then s
  else if s.processed > s.epoch then { s with processed := s.epoch }
  else
    let exp := (dbExpired s.db s.epoch).take batch
    let s1 := if exp.isEmpty then { s with processed := s.epoch } else s
    let bins := tombBins (exp.filter fun x => x.2.2 == .tombstone)
    let s2 := bins.foldl (fun st b => deleteObjs st b.1 b.2) s1
    (exp.filter fun x => x.2.2 != .tombstone).foldl (fun st x => engineDeleteExpired st x.1 x.2.1) s2

/-- the garbage phase of `removeGarbage` -/
def collectGarbage (batch : Nat) (s : St) : St :=
  (dbGarbage s.db batch).foldl (fun st bin =>
    if bin.2.isEmpty then { st with db := dbDeleteContainer st.db bin.1 } else deleteObjs st bin.1 bin.2) s

/-- one `removeGarbage` pass in read-write mode -/
def gcPass (batch : Nat) (s : St) : St := collectGarbage batch (collectExpired batch s)

end NeoFS.GC
