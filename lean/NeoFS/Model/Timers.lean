/-
Model of `pkg/timers/timer.go` (`EpochTimers`).  uint64 fields are `Nat`s reduced modulo 2^64 where the
Go code can wrap (`lastTick + dur`, `dur*mul`).
-/
namespace NeoFS.Timers

def M64 : Nat := 18446744073709551616

structure DH where
  nextTickAt : Nat
  done : Bool
  mul : Nat
  div : Nat
  deriving Repr, DecidableEq

structure ET where
  done : Bool
  nextTickAt : Nat
  dhs : List DH
  deriving Repr, DecidableEq

/-- `NewTimers`: zero state, one delta handler per (mul, div). -/
def new (fracs : List (Nat × Nat)) : ET :=
  { done := false, nextTickAt := 0, dhs := fracs.map fun f => { nextTickAt := 0, done := false, mul := f.1, div := f.2 } }

/-- one delta handler inside `UpdateTime`: new state and whether it fired. -/
def DH.update (dh : DH) (curr : Nat) : DH × Bool :=
  if !dh.done && dh.nextTickAt ≤ curr then ({ dh with done := true }, true) else (dh, false)

/-- `UpdateTime(curr)`: new state, whether the new-epoch handlers fired, which delta handlers fired. -/
def update (et : ET) (curr : Nat) : ET × Bool × List Bool :=
  if et.done then (et, false, et.dhs.map fun _ => false)
  else
    let fireE := decide (et.nextTickAt ≤ curr)
    let r := et.dhs.map fun dh => dh.update curr
    ({ done := fireE, nextTickAt := et.nextTickAt, dhs := r.map (·.1) }, fireE, r.map (·.2))

def DH.reset (dh : DH) (lastTick dur : Nat) : DH :=
  { dh with nextTickAt := (lastTick + (dur * dh.mul % M64) / dh.div) % M64, done := false }

/-- `Reset(lastTick, dur)` -/
def reset (et : ET) (lastTick dur : Nat) : ET :=
  { done := false, nextTickAt := (lastTick + dur) % M64, dhs := et.dhs.map fun dh => dh.reset lastTick dur }

/-- run a list of block-time updates; per update: (epoch fired, delta fired list). -/
def updates : ET → List Nat → List (Bool × List Bool)
  | _, [] => []
  | et, u :: us => let (et', fe, fd) := update et u; (fe, fd) :: updates et' us

/-- keep only the first `true`. -/
def firstOnly : List Bool → List Bool
  | [] => []
  | true :: r => true :: r.map fun _ => false
  | false :: r => false :: firstOnly r

end NeoFS.Timers
