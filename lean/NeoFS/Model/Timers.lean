/-
Model of `pkg/timers/timer.go` (`EpochTimers`).  uint64 fields are `Nat`s reduced modulo 2^64 where the
Go code can wrap (`lastTick + dur`, `dur*mul`).
-/
namespace NeoFS.Timers

def M64 : Nat := 18446744073709551616

structure DH where
  nextTickAt : Nat
  done : Bool
  mul : Nat
  div : Nat
  deriving Repr, DecidableEq

structure ET where
  done : Bool
  nextTickAt : Nat
  dhs : List DH
  deriving Repr, DecidableEq

/-- `NewTimers`: zero state, one delta handler per (mul, div). -/
def new (fracs : List (Nat × Nat)) : ET :=
  { done := false, nextTickAt := 0, dhs := fracs.map fun f => { nextTickAt := 0, done := false, mul := f.1, div := f.2 } }

/-- one delta handler inside `UpdateTime`: new state and whether it fired. -/
def DH.update (dh : DH) (curr : Nat) : DH × Bool :=
  if !dh.done && dh.nextTickAt ≤ curr then ({ dh with done := true }, true) else (dh, false)

/-- `UpdateTime(curr)`: new state, whether the new-epoch handlers fired, which delta handlers fired. -/
def update (et : ET) (curr : Nat) : ET × Bool × List Bool :=
  if et.done then (et, false, et.dhs.map fun _ => false)
  else
    let fireE := decide (et.nextTickAt ≤ curr)
    let r := et.dhs.map fun dh => dh.update curr
    ({ done := fireE, nextTickAt := et.nextTickAt, dhs := r.map (·.1) }, fireE, r.map (·.2))

def DH.reset (dh : DH) (lastTick dur : Nat) : DH :=
  { dh with nextTickAt := (lastTick + (dur * dh.mul % M64) / dh.div) % M64, done := false }

/-- `Reset(lastTick, dur)` -/
def reset (et : ET) (lastTick dur : Nat) : ET :=
  { done := false, nextTickAt := (lastTick + dur) % M64, dhs := et.dhs.map fun dh => dh.reset lastTick dur }

/-- run a list of block-time updates; per update: (epoch fired, delta fired list). -/
def updates : ET → List Nat → List (Bool × List Bool)
  | _, [] => []
  | et, u :: us => let (et', fe, fd) := update et u; (fe, fd) :: updates et' us

/-- keep only the first `true`. -/
def firstOnly : List Bool → List Bool
  | [] => []
  | true :: r => true :: r.map fun _ => false
  | false :: r => false :: firstOnly r

/-! ### Histories, and calls that overlap a running `UpdateTime`

`UpdateTime` and `Reset` hold the timers' mutex from the first to the last statement, the handlers run
with the mutex held.  A `Reset` (new-epoch notification) or a second `UpdateTime` (next header) issued by
another goroutine WHILE a handler runs therefore waits until the running `UpdateTime` has marked
everything it fired as done and returned: it takes effect right after it.  An event of a history is
either an atomic call, or an `UpdateTime` during which handler `site` — when it runs — triggers such an
overlapped call. -/

inductive Atom where
  | upd (t : Nat)
  | rst (lastTick dur : Nat)
  deriving Repr, DecidableEq

/-- the handler from inside which the overlapped call is issued -/
inductive Site where
  | epoch            -- one of the new-epoch handlers
  | delta (i : Nat)  -- sub-epoch handler `i`
  deriving Repr, DecidableEq

inductive Ev where
  | atom (a : Atom)
  | overlapped (t : Nat) (site : Site) (call : Atom)
  deriving Repr, DecidableEq

/-- one atomic call: new state, new-epoch handlers fired, which sub-epoch handlers fired -/
def stepAtom (et : ET) : Atom → ET × Bool × List Bool
  | .upd t => update et t
  | .rst lt dur => (reset et lt dur, false, et.dhs.map fun _ => false)

/-- per atomic call: (epoch fired, delta fired list) -/
def runAtoms : ET → List Atom → List (Bool × List Bool)
  | _, [] => []
  | et, a :: as => let r := stepAtom et a; (r.2.1, r.2.2) :: runAtoms r.1 as

def afterAtoms : ET → List Atom → ET
  | et, [] => et
  | et, a :: as => afterAtoms (stepAtom et a).1 as

def siteFired (s : Site) (fe : Bool) (fd : List Bool) : Bool :=
  match s with
  | .epoch => fe
  | .delta i => fd.getD i false

/-- the atomic calls an event amounts to when it starts in state `et`: the overlapped call exists only
if its handler runs in this `UpdateTime`, and it is linearised right after the `UpdateTime` it overlaps. -/
def Ev.atoms (et : ET) : Ev → List Atom
  | .atom a => [a]
  | .overlapped t site call =>
    let r := update et t
    if siteFired site r.2.1 r.2.2 then [.upd t, call] else [.upd t]

/-- linearisation of a history with overlapped calls -/
def lin : ET → List Ev → List Atom
  | _, [] => []
  | et, e :: es => e.atoms et ++ lin (afterAtoms et (e.atoms et)) es

/-- what the handlers' counters show, event by event (the outputs of the event's atomic calls) -/
def runEvs : ET → List Ev → List (Bool × List Bool)
  | _, [] => []
  | et, e :: es => runAtoms et (e.atoms et) ++ runEvs (afterAtoms et (e.atoms et)) es

end NeoFS.Timers
