/-
Who is a request authenticated as, and by what? (C29, engine `rpc`, op `auth`.)

Model of the two places of the code that decide it together:

* `internal/crypto.requestNeedsSignature` (called by `VerifyRequestSignaturesWithContext` / `…N3` at the top of
  every object handler): the signature chain of the verification header is verified UNLESS the request has no
  verification header, its meta header says TTL = 1 and the gRPC peer of the context was authenticated by the TLS
  handshake (`peerauth.AuthInfo`);
* `acl/v2.getRequestCredentials` (called by every `*RequestToInfo`): the identity handed to the access-control
  stage is the TLS peer key when the request has no verification header, TTL = 1 and a TLS peer key is present;
  otherwise the key of the session token's issuer when the request carries one, otherwise the key named in the body
  signature of the verification header.

Keys are abstract (`κ`). The signature scheme is ideal: a verification header is `(key it names, do all its
signatures verify)`; a session token is `(issuer key)` — its own validity is C30's subject and checked before.
Core Lean only.
-/
namespace NeoFS.ReqAuth

/-- What the server sees of a request, as far as authentication goes. -/
structure Req (κ : Type) where
  /-- key of the TLS client certificate, if the connection was authenticated by the handshake -/
  tls : Option κ
  /-- TTL of the meta header; `none` = no meta header -/
  ttl : Option Nat
  /-- verification header: the key named in its body signature and whether every signature of the chain verifies -/
  vh : Option (κ × Bool)
  /-- issuer key of the (already validated) session token, if any -/
  tok : Option κ := none

variable {κ : Type}

/-- `requestNeedsSignature`. -/
def needsSignature (r : Req κ) : Bool :=
  if r.vh.isSome then true
  else if r.ttl != some 1 then true
  else !r.tls.isSome

/-- `VerifyRequestSignaturesWithContext`: `true` = the handler goes on. A missing header fails verification. -/
def signatureStage (r : Req κ) : Bool :=
  if needsSignature r then
    match r.vh with
    | some (_, valid) => valid
    | none => false
  else true

inductive Source | peer | token | header
  deriving DecidableEq, Repr

/-- `getRequestCredentials`: the key the request is classified under and where it was taken from; `none` = error
("missing verification header"). `ttlOf` mirrors `req.GetMetaHeader().GetTtl()` (0 for a missing meta header). -/
def credentials (r : Req κ) : Option (κ × Source) :=
  match r.vh, r.ttl.getD 0 == 1, r.tls with
  | none, true, some k => some (k, .peer)
  | _, _, _ =>
    match r.tok with
    | some k => some (k, .token)
    | none =>
      match r.vh with
      | some (k, _) => some (k, .header)
      | none => none

inductive Verdict (κ : Type)
  | badSignature            -- answered with the "signature verification failure" status
  | noAuthor                -- request classification fails ("get request author")
  | identity (k : κ) (s : Source)
  deriving Repr

/-- The two stages in the order every handler runs them. -/
def authenticate (r : Req κ) : Verdict κ :=
  if signatureStage r then
    match credentials r with
    | some (k, s) => .identity k s
    | none => .noAuthor
  else .badSignature

/-- What "authenticated as `k`" means (the property's side): `k` made a verification header all of whose
signatures verify, or `k` is the key of the TLS handshake of a one-hop request that carries no header, or `k`
issued the request's (validated) session token and the request itself is authenticated by a header that
verifies. -/
def AuthenticatedAs (r : Req κ) (k : κ) : Prop :=
  r.vh = some (k, true) ∨
  (r.vh = none ∧ r.ttl = some 1 ∧ r.tls = some k) ∨
  (r.tok = some k ∧ ∃ k', r.vh = some (k', true))

end NeoFS.ReqAuth
