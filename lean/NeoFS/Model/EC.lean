/-
Model of `internal/ec/policy.go` (`NodeSequenceForPart`).

Go source being modelled:

    for shift := 0; shift <= totalParts-1; shift++ {
        for i := (partIdx + shift) % totalParts; i < nodes; i += totalParts {
            yield(i)
        }
    }

The inner loop is structural recursion on a fuel argument (`nodes` iterations
always suffice because the step is at least one); the outer loop is a
`flatMap` over `List.range totalParts`.  With `totalParts = 0` the outer loop
body never runs (`shift <= -1`), which `List.range 0 = []` reproduces.
-/
namespace NeoFS.EC

/-- The inner loop: `i, i+step, i+2*step, … < nodes`. -/
def innerLoop (step nodes : Nat) : Nat → Nat → List Nat
  | 0, _ => []
  | fuel + 1, i => if i < nodes then i :: innerLoop step nodes fuel (i + step) else []

/-- `NodeSequenceForPart(partIdx, totalParts, nodes)` collected into a list. -/
def nodeSeq (part total nodes : Nat) : List Nat :=
  (List.range total).flatMap fun shift => innerLoop total nodes nodes ((part + shift) % total)

end NeoFS.EC
