/-
Model of `internal/ec/policy.go` (`NodeSequenceForPart`).

Go source being modelled:

    for shift := 0; shift <= totalParts-1; shift++ {
        for i := (partIdx + shift) % totalParts; i < nodes; i += totalParts {
            yield(i)
        }
    }

The inner loop is structural recursion on a fuel argument (`nodes` iterations
always suffice because the step is at least one); the outer loop is a
`flatMap` over `List.range totalParts`.  With `totalParts = 0` the outer loop
body never runs (`shift <= -1`), which `List.range 0 = []` reproduces.
-/
namespace NeoFS.EC

/-- The inner loop: `i, i+step, i+2*step, … < nodes`. -/
def innerLoop (step nodes : Nat) : Nat → Nat → List Nat
  | 0, _ => []
  | fuel + 1, i => if i < nodes then i :: innerLoop step nodes fuel (i + step) else []

/-- `NodeSequenceForPart(partIdx, totalParts, nodes)` collected into a list. -/
def nodeSeq (part total nodes : Nat) : List Nat :=
  (List.range total).flatMap fun shift => innerLoop total nodes nodes ((part + shift) % total)

end NeoFS.EC

/-!
## Erasure coding of a payload (`internal/ec/ec.go`)

Reed–Solomon arithmetic (klauspost/reedsolomon) is a *parameter*: a `Coder` with the laws the code relies
on (`Coder.Lawful`).  Bytes are `Nat`s, a missing part is `none` (Go: `nil`/empty slice).
-/
namespace NeoFS.EC

abbrev Shard := List Nat

/-- bytes per part: ⌈n/d⌉ -/
def perShard (n d : Nat) : Nat := (n + d - 1) / d

/-- `k` consecutive chunks of `sz` bytes -/
def chunks (sz : Nat) : Nat → List Nat → List Shard
  | 0, _ => []
  | k + 1, l => l.take sz :: chunks sz k (l.drop sz)

/-- the data parts `reedsolomon.Split` produces: the payload padded with zeros, cut into `d` parts -/
def dataParts (payload : List Nat) (d : Nat) : List Shard :=
  let sz := perShard payload.length d
  chunks sz d (payload ++ List.replicate (d * sz - payload.length) 0)

structure Coder where
  /-- parity shards of `d` equal-length data shards (`Encode`) -/
  parity : (d p : Nat) → List Shard → List Shard
  /-- `ReconstructSome(parts, required)`: `none` is an error -/
  reconSome : (d p : Nat) → List (Option Shard) → List Bool → Option (List (Option Shard))

/-- all `d+p` parts of a payload -/
def Coder.allParts (c : Coder) (d p : Nat) (payload : List Nat) : List Shard :=
  dataParts payload d ++ c.parity d p (dataParts payload d)

/-- keep the parts selected by `present` -/
def mask (parts : List Shard) (present : List Bool) : List (Option Shard) :=
  List.zipWith (fun s b => if b then some s else none) parts present

/-- What the code needs from the Reed–Solomon library for a rule `d/p`. -/
structure Coder.Lawful (c : Coder) (d p : Nat) : Prop where
  parity_count : ∀ data : List Shard, data.length = d → (c.parity d p data).length = p
  parity_len : ∀ (data : List Shard) (sz : Nat), (∀ s ∈ data, s.length = sz) → ∀ s ∈ c.parity d p data, s.length = sz
  /-- any `≥ d` parts of a non-empty encoding determine every requested part, nothing else is touched
  and nothing wrong is produced -/
  recon : ∀ (payload : List Nat) (present required : List Bool), payload ≠ [] →
    present.length = d + p → required.length = d + p → d ≤ present.count true →
    ∃ r, c.reconSome d p (mask (c.allParts d p payload) present) required = some r ∧ r.length = d + p ∧
      (∀ i (h : i < d + p), (present.getD i false = true ∨ required.getD i false = true) →
        r[i]? = some ((c.allParts d p payload)[i]?)) ∧
      (∀ (i : Nat) (s : Shard), r[i]? = some (some s) → (c.allParts d p payload)[i]? = some s)

/-- `iec.Encode`: for an empty payload all parts are empty -/
def encode (c : Coder) (d p : Nat) (payload : List Nat) : List Shard :=
  if payload = [] then List.replicate (d + p) [] else c.allParts d p payload

/-- `iec.ConcatDataParts` -/
def concatDataParts (d dataLen : Nat) (parts : List Shard) : List Nat := ((parts.take d).flatten).take dataLen

/-- `iec.Decode`: `none` is an error -/
def decode (c : Coder) (d p dataLen : Nat) (parts : List (Option Shard)) : Option (List Nat) :=
  match c.reconSome d p parts (List.replicate d true ++ List.replicate p false) with
  | none => none
  | some r =>
    let dat := (r.take d).map (·.getD [])
    if (dat.map List.length).sum < dataLen then none else some (dat.flatten.take dataLen)

/-- `iec.DecodeRange` / `iec.DecodeIndexes`: reconstruct the requested parts in place -/
def decodeSome (c : Coder) (d p : Nat) (parts : List (Option Shard)) (required : List Bool) : Option (List (Option Shard)) :=
  c.reconSome d p parts required

end NeoFS.EC
