/-
Concurrent model of the write-cache flush path and of the shard's read path
(`pkg/local_object_storage/writecache/{flush,put,get,delete,state}.go`, `pkg/local_object_storage/shard/{get,head,range,put,delete}.go`).

State: the cache's file tree (`files`), the address set of `objCounters` (`ctr`), the main storage (`main`), the
`flushObjs` in-flight markers (`inflight`) and one program counter per thread.  Threads advance by the ATOMIC STEPS the
code has (one file-tree call, one counters call, one main-storage call):

* reader (`Shard.Get/GetBytes/Head/GetRangeStream` → `cache.Get…` then `blobStor.Get…`):
  `rdCtr` (`objCounters.HasAddress`) → `rdFile` (`fsTree.Get`) → on any miss `rdMain` (`blobStor.Get`);
* writer (`Shard.Put`): cache admits → `wrFile` (`fsTree.Put`) → `wrCtr` (`counters.Add`, then the put is acknowledged);
  cache refuses (full / read-only / file error) → `wrMain` (`blobStor.Put`, may fail);
* flusher (`flushWorker` → `flushSingle` / `flushBatch`): `flRead` per address (`fsTree.GetBytes`; a missing file is
  skipped) → `flPut` (ONE `storage.Put` / `storage.PutBatch`, may fail: nothing is deleted then) → per flushed address,
  in ANY order (Go map iteration; the step carries `pick`), `flDel` (`fsTree.Delete`) → `flCtr` (`counters.Delete`,
  only if the file was removed); on every exit the job's `flushObjs` markers are cleared;
* deleter (`Shard.Delete`): `dlFile` → `dlCtr` (`cache.delete`) → `dlMain` (`blobStor.Delete`).

`delFirst = true` is the MUTANT order (cache delete before the main put), used only for the negative theorem.
Data are abstract content ids (an address is the hash of its object, so every put of one address carries one value;
the theorems state that as a hypothesis on the schedule instead of building it in).
Core Lean only.
-/
namespace NeoFS.WCFlush

abbrev Addr := Nat
abbrev Data := Nat
abbrev Tid := Nat

def upd {β : Type} (f : Nat → β) (k : Nat) (v : β) : Nat → β := fun x => if x = k then v else f x

inductive Pc
  | idle
  | rdCtr (a : Addr) (tag : Bool)
  | rdFile (a : Addr) (tag : Bool)
  | rdMain (a : Addr) (tag : Bool)
  | wrFile (a : Addr) (v : Data)
  | wrCtr (a : Addr) (v : Data)
  | wrMain (a : Addr) (v : Data)
  | flRead (todo : List Addr) (got : List (Addr × Data)) (marks : List Addr) (single : Bool)
  | flPut (got : List (Addr × Data)) (marks : List Addr)
  | flDel (todo : List (Addr × Data)) (pend : List (Addr × Data)) (marks : List Addr)
  | flCtr (a : Addr) (todo : List (Addr × Data)) (pend : List (Addr × Data)) (marks : List Addr)
  | dlFile (a : Addr)
  | dlCtr (a : Addr)
  | dlMain (a : Addr)
  deriving DecidableEq, Repr

structure St where
  files : Addr → Option Data := fun _ => none
  ctr : Addr → Bool := fun _ => false
  main : Addr → Option Data := fun _ => none
  inflight : Addr → Bool := fun _ => false
  pc : Tid → Pc := fun _ => .idle

def init : St := {}

/-- what a schedule consists of: operation starts (on an idle thread) and single atomic steps of a thread;
`ok` is the main-storage failure oracle consumed by the step if it is a main-storage write, `pick` chooses which
flushed address is removed from the cache next. `tag` is a ghost label of a read (carried to its result). -/
inductive Ev
  | read (t : Tid) (a : Addr) (tag : Bool)
  | write (t : Tid) (a : Addr) (v : Data) (viaCache : Bool)
  | flush (t : Tid) (as : List Addr) (mark : Bool)
  | delete (t : Tid) (a : Addr)
  | step (t : Tid) (ok : Bool) (pick : Nat)
  deriving DecidableEq, Repr

inductive Obs
  | none
  | readDone (t : Tid) (a : Addr) (tag : Bool) (r : Option Data)
  | putAck (t : Tid) (a : Addr) (v : Data) (ok : Bool)
  | flushDone (t : Tid) (err : Bool)
  | delDone (t : Tid) (a : Addr)
  deriving DecidableEq, Repr

def setMarks (f : Addr → Bool) (ms : List Addr) : Addr → Bool := fun x => if x ∈ ms then true else f x
def clearMarks (f : Addr → Bool) (ms : List Addr) : Addr → Bool := fun x => if x ∈ ms then false else f x

/-- `PutBatch(objs)` / `Put`: every collected object is stored -/
def putAll (m : Addr → Option Data) (got : List (Addr × Data)) : Addr → Option Data :=
  fun x => match got.find? (fun p => p.1 == x) with
    | some p => some p.2
    | none => m x

def St.setPc (s : St) (t : Tid) (p : Pc) : St := { s with pc := upd s.pc t p }

/-- end of a flush job (`flushWorker`: "irrespective of the outcome these objects are no longer being processed") -/
def finish (s : St) (t : Tid) (marks : List Addr) (err : Bool) : St × Obs :=
  ({ s with pc := upd s.pc t .idle, inflight := clearMarks s.inflight marks }, .flushDone t err)

/-- one atomic step of thread `t` -/
def stepThread (delFirst : Bool) (s : St) (t : Tid) (ok : Bool) (pick : Nat) : St × Obs :=
  match s.pc t with
  | .idle => (s, .none)
  -- reader
  | .rdCtr a tag => (s.setPc t (if s.ctr a then .rdFile a tag else .rdMain a tag), .none)
  | .rdFile a tag =>
    match s.files a with
    | some x => (s.setPc t .idle, .readDone t a tag (some x))
    | none => (s.setPc t (.rdMain a tag), .none)
  | .rdMain a tag => (s.setPc t .idle, .readDone t a tag (s.main a))
  -- writer
  | .wrFile a v => ({ s with files := upd s.files a (some v), pc := upd s.pc t (.wrCtr a v) }, .none)
  | .wrCtr a v => ({ s with ctr := upd s.ctr a true, pc := upd s.pc t .idle }, .putAck t a v true)
  | .wrMain a v =>
    if ok then ({ s with main := upd s.main a (some v), pc := upd s.pc t .idle }, .putAck t a v true)
    else (s.setPc t .idle, .putAck t a v false)
  -- flusher
  | .flRead (a :: rest) got marks single =>
    match s.files a with
    | some x => (s.setPc t (.flRead rest (got ++ [(a, x)]) marks single), .none)
    | none => (s.setPc t (.flRead rest got marks single), .none)
  | .flRead [] got marks single =>
    if got.isEmpty && single then finish s t marks false      -- `flushSingle`: the file is gone, nothing to do
    else if delFirst then (s.setPc t (.flDel got got marks), .none)
    else (s.setPc t (.flPut got marks), .none)
  | .flPut got marks =>
    if ok then
      let s' := { s with main := putAll s.main got }
      if delFirst then finish s' t marks false else (s'.setPc t (.flDel got [] marks), .none)
    else finish s t marks true
  | .flDel todo pend marks =>
    match todo[pick % todo.length]? with
    | none => if pend.isEmpty then finish s t marks false else (s.setPc t (.flPut pend marks), .none)
    | some p =>
      let rest := todo.eraseIdx (pick % todo.length)
      match s.files p.1 with
      | some _ => ({ s with files := upd s.files p.1 none, pc := upd s.pc t (.flCtr p.1 rest pend marks) }, .none)
      | none => (s.setPc t (.flDel rest pend marks), .none)
  | .flCtr a todo pend marks => ({ s with ctr := upd s.ctr a false, pc := upd s.pc t (.flDel todo pend marks) }, .none)
  -- deleter
  | .dlFile a =>
    match s.files a with
    | some _ => ({ s with files := upd s.files a none, pc := upd s.pc t (.dlCtr a) }, .none)
    | none => (s.setPc t (.dlMain a), .none)
  | .dlCtr a => ({ s with ctr := upd s.ctr a false, pc := upd s.pc t (.dlMain a) }, .none)
  | .dlMain a => ({ s with main := upd s.main a none, pc := upd s.pc t .idle }, .delDone t a)

def step (delFirst : Bool) (s : St) : Ev → St × Obs
  | .read t a tag => if s.pc t = .idle then (s.setPc t (.rdCtr a tag), .none) else (s, .none)
  | .write t a v viaCache =>
    if s.pc t = .idle then (s.setPc t (if viaCache then .wrFile a v else .wrMain a v), .none) else (s, .none)
  | .flush t as mark =>
    if s.pc t = .idle then
      ({ s with pc := upd s.pc t (.flRead as [] (if mark then as else []) (as.length == 1)),
                inflight := if mark then setMarks s.inflight as else s.inflight }, .none)
    else (s, .none)
  | .delete t a => if s.pc t = .idle then (s.setPc t (.dlFile a), .none) else (s, .none)
  | .step t ok pick => stepThread delFirst s t ok pick

/-- run a schedule; returns the final state and the observation of every event -/
def run (delFirst : Bool) (s : St) : List Ev → St × List Obs
  | [] => (s, [])
  | e :: es =>
    let r := step delFirst s e
    let r' := run delFirst r.1 es
    (r'.1, r.2 :: r'.2)

end NeoFS.WCFlush
