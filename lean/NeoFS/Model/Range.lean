import NeoFS.Gen.Arith
/-
Model of `shiftPayloadRangeStream` (`blobstor/fstree/fstree.go`) and of the readers it returns
(`prefixedReadSeekCloser`, `limitedFileReader`, `bytes.Reader`), as functions on byte lists.

The payload is `pre ++ rest`: `pre` is the part already in the header buffer, `rest` is what the file
stream still yields (`hasStream = false` models `stream == nil`, i.e. everything was buffered).
`off`, `ln` are the values `PayloadRange.Resolve` returned.  The full content a caller reads from the
returned reader is the function's result.
-/
namespace NeoFS.Range

/-- content of `limitedFileReader{stream, limit}` -/
def limited (rest : List Nat) (limit : Nat) : List Nat := rest.take limit

def shiftStream (pre rest : List Nat) (hasStream : Bool) (off ln : Nat) : Except String (List Nat) :=
  if !hasStream && rest.length ≠ 0 then .error "diff len of object payload"
  else if off = 0 then
    if ln = 0 then .ok (pre ++ rest)                       -- full: reader over prefix, then the stream
    else if ln ≤ pre.length then .ok (pre.take ln)
    else
      match Gen.checkTooBigRange off ln with
      | .error e => .error e
      | .ok () =>
        if pre.length = 0 then .ok (limited rest ln)
        else .ok (pre ++ limited rest (ln - pre.length))
  else if !hasStream then .ok ((pre.drop off).take ln)
  else
    match Gen.checkTooBigRange off ln with
    | .error e => .error e
    | .ok () =>
      if off ≥ pre.length then .ok (limited (rest.drop (off - pre.length)) ln)   -- Seek, then limit
      else
        let p := pre.drop off
        if ln ≤ p.length then .ok (p.take ln)
        else .ok (p ++ limited rest (ln - p.length))

/-- a range read of `payload` buffered up to `split` bytes. -/
def readRange (payload : List Nat) (split : Nat) (mode first second : Nat) : Except String (List Nat) :=
  match Gen.resolve first mode second payload.length with
  | .error e => .error e
  | .ok (off, ln) =>
    shiftStream (payload.take split) (payload.drop split) true off.toNat ln.toNat

/-- `FSTree.ReadObjectParts`: a request that is not a partial range (`!IsSet() || IsFull()`) is served
with the whole object; a partial one goes through `shiftStreamToRange`. -/
def readParts (payload : List Nat) (split : Nat) (mode first second : Nat) : Except String (List Nat) :=
  if mode = 0 || Gen.isFull first mode second then .ok payload
  else readRange payload split mode first second

/-- deterministic test payload shared with the harness: byte i = (i*7 + seed) % 251. -/
def detPayload (size seed : Nat) : List Nat := (List.range size).map fun i => (i * 7 + seed) % 251

/-- payload of the harness's half-compressible objects (kind `fstreezs`): one 32-byte run of hash bytes in every 2048 bytes
of the short period (kept in step with `semiPayload` of harness/eng_range.go) -/
def semiPayload (size seed : Nat) : List Nat := (List.range size).map fun i =>
  if (i / 32) % 64 == 0 then ((i * 2654435761 + seed * 97) % 4294967296) / 65536 % 256 else (i * 7 + seed) % 251

def fnv32a (b : List Nat) : Nat :=
  b.foldl (fun h x => ((h ^^^ x) * 16777619) % 4294967296) 2166136261

end NeoFS.Range
