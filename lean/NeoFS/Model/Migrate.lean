import NeoFS.Model.Meta
import NeoFS.Model.Search
/-
Model of the metabase format upgrade (`pkg/local_object_storage/metabase/version.go`, property C42).

This tree upgrades two older formats (`migrateFrom` has the keys 9 and 10, `currentMetaVersion = 11`):

* 9 → 10 (`migrateFrom9Version`, ONE transaction): the container-volume bucket (prefix 3) is deleted, the
  per-container counters (keys 6..12 of each metadata bucket) are recounted, the two shard-wide counters of the
  info bucket are deleted, the version key becomes 10;
* 10 → 11 (`migrateFrom10Version`): `dropHomomorphicIndexes` and then `migrateAssociatedObjectValueToIDBytes` are
  run by `updateContainersInterruptable` in batches (one transaction per batch, at most `B = 1000` processed
  entries per batch, cursor = (bucket, last visited key) kept IN MEMORY only), then one final transaction recounts
  the counters and writes version 11.  An interrupted upgrade therefore restarts from the stored version with
  an empty cursor.

A metadata bucket is the SET of its keys (a list without duplicates, in no particular order).  Keys are
structured (`Key`): the tuple a key is built from; `Key.bytes` is the byte string bbolt orders them by.  What the Go
code does by slicing key bytes (`splitAttributeValueObjectID`, the reverse-key construction of
`dropHomomorphicIndexes`) is pattern matching on the tuple here.  bbolt's ordered iteration is reproduced where the
code iterates: `Seek(prefix)`+`Next` while the prefix holds is "the keys of that family, sorted by their bytes";
`Seek(after)`, step over it if it is still there, is "the keys of the family whose bytes are greater than `after`,
sorted".

Object and container ids are natural numbers (`oidBytes` = 32 big-endian bytes).
-/
namespace NeoFS.Migrate
open NeoFS.Search (Bytes str aHomo aAssoc aType aPhy aRoot aPayloadSize oidBytes b58Decode b58Encode)
open NeoFS.Int256 (lexCmp)
open NeoFS.Meta (Counters)

/-- one key of a metadata bucket (`VERSION.md`, "Metadata bucket"), counters (6..12) excluded -/
inductive Key
  | oid (id : Nat)                          -- `0` + object ID
  | int (id : Nat) (a enc : Bytes)          -- `1` + attribute + 0 + sign/fixed256 + object ID
  | plain (id : Nat) (a v : Bytes)          -- `2` + attribute + 0 + value + 0 + object ID
  | idAttr (id : Nat) (a v : Bytes)         -- `3` + object ID + attribute + 0 + value
  | gcMark                                  -- `4`
  | garb (id : Nat)                         -- `5` + object ID
  deriving DecidableEq, Repr

def Key.bytes : Key → Bytes
  | .oid id => 0 :: oidBytes id
  | .int id a enc => 1 :: (a ++ 0 :: (enc ++ oidBytes id))
  | .plain id a v => 2 :: (a ++ 0 :: (v ++ 0 :: oidBytes id))
  | .idAttr id a v => 3 :: (oidBytes id ++ (a ++ 0 :: v))
  | .gcMark => [4]
  | .garb id => 5 :: oidBytes id

/-- bbolt key order -/
def Key.le (a b : Key) : Bool := lexCmp a.bytes b.bytes != .gt

/-- the keys in the order a cursor visits them -/
def sortKeys (l : List Key) : List Key := l.mergeSort Key.le

/-- `Bucket.Put(key, nil)` -/
def insertKey (k : Key) (l : List Key) : List Key := if l.contains k then l else k :: l

/-- `Bucket.Delete(key)` -/
def eraseKey (k : Key) (l : List Key) : List Key := l.filter (· != k)

/-- one container's metadata bucket -/
structure Bkt where
  keys : List Key := []
  /-- garbage marks whose value is the "redundant copy" marker -/
  red : List Nat := []
  /-- keys 6..12 (absent in format 9) -/
  ctr : Option Counters := none
  deriving Repr, DecidableEq

structure DB where
  /-- `version` key of the info bucket -/
  version : Option Nat := none
  /-- `phy_counter` / `logic_counter` of the info bucket (format ≤ 9) -/
  legacyCtr : Bool := false
  /-- the container-volume bucket (prefix 3, format ≤ 9) exists -/
  volume : Bool := false
  /-- metadata buckets, sorted by container id -/
  bkts : List (Nat × Bkt) := []
  deriving Repr, DecidableEq

def currentVersion : Nat := 11
/-- keys of `migrateFrom` -/
def supported : List Nat := [9, 10]

/-! ### counters (`syncContainerCounters`) -/

/-- `getObjAttribute`: the first value of the id-to-attribute family -/
def attrOf (keys : List Key) (id : Nat) (a : Bytes) : Option Bytes :=
  keys.findSome? fun
    | .idAttr i a' v => if i == id && a' == a then some v else none
    | _ => none

/-- `iterAttrVal`: ids of the attribute-to-id family with this value, in key order -/
def idsWith (keys : List Key) (a v : Bytes) : List Nat :=
  keys.filterMap fun
    | .plain id a' v' => if a' == a && v' == v then some id else none
    | _ => none

def tTombstone : Bytes := str "TOMBSTONE"
def tLock : Bytes := str "LOCK"
def tLink : Bytes := str "LINK"
def one : Bytes := [49]

/-- `inGarbage … != statusAvailable` as the CURRENT code reads it (associate values are raw ids) -/
def removed (b : Bkt) (id : Nat) : Bool :=
  (idsWith b.keys aAssoc (oidBytes id)).any (fun o => attrOf b.keys o aType == some tTombstone)
  || (b.keys.contains (.garb id) && !b.red.contains id)

def parseU64 (v : Bytes) : Nat :=
  if v.isEmpty then 0
  else if v.all (fun c => 48 ≤ c && c ≤ 57) then
    let n := v.foldl (fun acc c => acc * 10 + (c - 48)) 0
    if n < 2 ^ 64 then n else 0
  else 0

def garbCount (keys : List Key) : Nat := (keys.filter fun | .garb _ => true | _ => false).length

/-- `syncContainerCounters(b, force = true)` -/
def recount (b : Bkt) : Counters :=
  let phyIds := idsWith b.keys aPhy one
  if b.keys.contains .gcMark then { gc := phyIds.length }
  else
    { phy := phyIds.length,
      root := (idsWith b.keys aRoot one).length,
      ts := (idsWith b.keys aType tTombstone).length,
      lock := (idsWith b.keys aType tLock).length,
      link := (idsWith b.keys aType tLink).length,
      gc := garbCount b.keys,
      -- (repaired 6730234: an object carrying a removal mark of either kind is not counted)
      payload := ((phyIds.filter fun id => !removed b id && !b.keys.contains (.garb id)).map fun id => parseU64 ((attrOf b.keys id aPayloadSize).getD [])).sum }

/-- `syncCounter(tx, true)`: every metadata bucket, whatever the container source says -/
def syncAll (bkts : List (Nat × Bkt)) : List (Nat × Bkt) := bkts.map fun cb => (cb.1, { cb.2 with ctr := some (recount cb.2) })

/-! ### 10 → 11, step 1: `dropHomomorphicIndexes` -/

def isHomoFwd : Key → Bool
  | .plain _ a _ => a == aHomo
  | _ => false

/-- the id-to-attribute key built from an attribute-to-id key of the homomorphic hash -/
def homoRev : Key → Key
  | .plain id _ v => .idAttr id aHomo v
  | k => k

/-- one call for one bucket: at most `limit` (> 0) entries; returns the bucket, the number of dropped entries and
the cursor inside the bucket (always nil) -/
def dropHomoBkt (b : Bkt) (_after : Option Bytes) (limit : Nat) : Bkt × Nat × Option Bytes :=
  let ks := (sortKeys (b.keys.filter isHomoFwd)).take limit
  ({ b with keys := ks.foldl (fun l k => eraseKey (homoRev k) (eraseKey k l)) b.keys }, ks.length, none)

/-! ### 10 → 11, step 2: `migrateAssociatedObjectValueToIDBytes` -/

/-- the raw id an associate value has to be rewritten to: the value does not decode as 32 raw bytes
(`oid.DecodeBytes` fails) and is the Base58 string of 32 bytes (`oid.DecodeString` succeeds) -/
def newAssoc (v : Bytes) : Option Bytes :=
  if v.length == 32 then none
  else match b58Decode v with
    | some d => if d.length == 32 then some d else none
    | none => none

def isAssocFwd : Key → Bool
  | .plain _ a _ => a == aAssoc
  | _ => false

/-- must this key be rewritten -/
def rewritable : Key → Bool
  | .plain _ a v => a == aAssoc && (newAssoc v).isSome
  | _ => false

/-- the four keys of one rewrite: new attribute-to-id, new id-to-attribute, old id-to-attribute
(the old attribute-to-id key is the key itself) -/
def rewriteOf : Key → Option (Key × Key × Key)
  | .plain id a v =>
    if a == aAssoc then (newAssoc v).map fun d => (.plain id aAssoc d, .idAttr id aAssoc d, .idAttr id aAssoc v)
    else none
  | _ => none

/-- `Seek(pref)`, or `Seek(afterKey)` stepping over the key itself: the family's keys after the cursor -/
def assocScan (keys : List Key) (after : Option Bytes) : List Key :=
  sortKeys ((keys.filter isAssocFwd).filter fun k =>
    match after with
    | none => true
    | some a => lexCmp k.bytes a == .gt)

/-- the scan loop: keys are visited in order until `rem` (> 0) rewritable ones are collected;
returns the collected keys and the last visited key -/
def assocWalk : Nat → List Key → List Key × Option Key
  | _, [] => ([], none)
  | rem, k :: ks =>
    if rewritable k then
      if rem ≤ 1 then ([k], some k)
      else
        let r := assocWalk (rem - 1) ks
        (k :: r.1, some (r.2.getD k))
    else
      let r := assocWalk rem ks
      (r.1, some (r.2.getD k))

/-- apply one collected rewrite: put the two new keys, delete the two old ones -/
def applyRewrite (l : List Key) (k : Key) : List Key :=
  match rewriteOf k with
  | some (nf, nr, orv) => eraseKey orv (eraseKey k (insertKey nr (insertKey nf l)))
  | none => l

def assocBkt (b : Bkt) (after : Option Bytes) (rem : Nat) : Bkt × Nat × Option Bytes :=
  let w := assocWalk rem (assocScan b.keys after)
  let scanned := w.1.length
  ({ b with keys := w.1.foldl applyRewrite b.keys }, scanned,
    if scanned < rem then none else w.2.map Key.bytes)

/-! ### `updateContainersInterruptable` / `iterateContainerBuckets` -/

/-- in-memory cursor between two batches: (bucket to seek to, key inside it); `none` = the start / the end -/
abbrev Cursor := Option (Nat × Option Bytes)

abbrev BktStep := Bkt → Option Bytes → Nat → Bkt × Nat × Option Bytes

/-- the bucket loop of one transaction: `Cursor.Seek(fromBkt)` skips the buckets before `frm` (bucket names are
ordered by container id), buckets of containers the container source reports as gone are skipped -/
def iterBkts (ex : Nat → Bool) (f : BktStep) (frm : Nat) : List (Nat × Bkt) → Option Bytes → Nat → List (Nat × Bkt) × Cursor
  | [], _, _ => ([], none)
  | (c, b) :: rest, after, rem =>
    if c < frm || !ex c then
      let r := iterBkts ex f frm rest after rem
      ((c, b) :: r.1, r.2)
    else
      let r := f b after rem
      if r.2.1 == rem then ((c, r.1) :: rest, some (c, r.2.2))
      else
        let r' := iterBkts ex f frm rest r.2.2 (rem - r.2.1)
        ((c, r.1) :: r'.1, r'.2)

/-- one transaction of `updateContainersInterruptable` with batch size `B` -/
def batch (ex : Nat → Bool) (f : BktStep) (B : Nat) (bkts : List (Nat × Bkt)) (cur : Cursor) : List (Nat × Bkt) × Cursor :=
  iterBkts ex f ((cur.map (·.1)).getD 0) bkts (cur.bind (·.2)) B

/-! ### the upgrade as a sequence of committed transactions -/

inductive Phase
  | v9                      -- next transaction: `migrateFrom9Version`
  | homo (cur : Cursor)     -- next transaction: a batch of `dropHomomorphicIndexes`
  | assoc (cur : Cursor)    -- next transaction: a batch of the associate rewrite
  | final                   -- next transaction: recount + version 11
  | done                    -- opened
  | refused                 -- `ErrOutdatedVersion`
  deriving Repr, DecidableEq

structure Run where
  db : DB
  ph : Phase
  deriving Repr, DecidableEq

/-- `checkVersion` up to its first migration transaction.  A database without a version key is stamped with the
current version. -/
def start (db : DB) : Run :=
  match db.version with
  | none => ⟨{ db with version := some currentVersion }, .done⟩
  | some v =>
    if v == currentVersion then ⟨db, .done⟩
    else if v == 9 then ⟨db, .v9⟩
    else if v == 10 then ⟨db, .homo none⟩
    else ⟨db, .refused⟩

/-- one committed transaction -/
def step (ex : Nat → Bool) (B : Nat) (r : Run) : Run :=
  match r.ph with
  | .v9 => ⟨{ r.db with volume := false, legacyCtr := false, bkts := syncAll r.db.bkts, version := some 10 }, .homo none⟩
  | .homo cur =>
    let x := batch ex dropHomoBkt B r.db.bkts cur
    ⟨{ r.db with bkts := x.1 }, match x.2 with | none => .assoc none | some c => .homo (some c)⟩
  | .assoc cur =>
    let x := batch ex assocBkt B r.db.bkts cur
    ⟨{ r.db with bkts := x.1 }, match x.2 with | none => .final | some c => .assoc (some c)⟩
  | .final => ⟨{ r.db with bkts := syncAll r.db.bkts, version := some currentVersion }, .done⟩
  | .done => r
  | .refused => r

def steps (ex : Nat → Bool) (B : Nat) : Nat → Run → Run
  | 0, r => r
  | n + 1, r => steps ex B n (step ex B r)

/-- the database file after a crash right after the `k`-th committed transaction of the upgrade
(the cursor is lost with the process) -/
def crashAfter (ex : Nat → Bool) (B : Nat) (k : Nat) (db : DB) : DB := (steps ex B k (start db)).db

def keyCount (db : DB) : Nat := (db.bkts.map fun cb => cb.2.keys.length).sum

/-- enough transactions for any database: every unfinished batch processes at least one entry -/
def fuelOf (db : DB) : Nat := 2 * keyCount db + 2 * db.bkts.length + 8

def migrateRun (ex : Nat → Bool) (B : Nat) (db : DB) : Run := steps ex B (fuelOf db) (start db)

/-- opening the database: the state it is left in -/
def migrate (ex : Nat → Bool) (B : Nat) (db : DB) : DB := (migrateRun ex B db).db

/-! ### what an old key means -/

/-- the current-format key an old-format key stands for (`none`: the key carries nothing the current format
keeps): the homomorphic-hash index is gone, associate values are raw ids -/
def canon : Key → Option Key
  | .plain id a v =>
    if a == aHomo then none
    else if a == aAssoc then some (.plain id a ((newAssoc v).getD v))
    else some (.plain id a v)
  | .idAttr id a v =>
    if a == aHomo then none
    else if a == aAssoc then some (.idAttr id a ((newAssoc v).getD v))
    else some (.idAttr id a v)
  | k => some k

/-- the old format's invariant, per bucket: the two attribute families mirror each other where the upgrade
touches them (what `putPlainAttribute` guarantees: it writes both keys) -/
def BktInv (keys : List Key) : Bool :=
  keys.all fun
    | .plain id a v => !(a == aAssoc) || keys.contains (.idAttr id a v)
    | .idAttr id a v => !(a == aAssoc || a == aHomo) || keys.contains (.plain id a v)
    | _ => true

def nodupKeys : List Key → Bool
  | [] => true
  | k :: ks => !ks.contains k && nodupKeys ks

/-- the old format's invariant on a database: in every metadata bucket the attribute families mirror each other
where the upgrade touches them, and a key is stored once -/
def Inv (db : DB) : Bool := db.bkts.all fun cb => BktInv cb.2.keys && nodupKeys cb.2.keys

def sortedCids : List (Nat × Bkt) → Bool
  | [] => true
  | x :: r => r.all (fun y => decide (x.1 < y.1)) && sortedCids r

def idOKb (keys : List Key) : Bool :=
  keys.all fun
    | .plain id a _ => !(a == aAssoc) || decide (id < 256 ^ 32)
    | _ => true

/-- the old format's invariant, complete: `Inv`, buckets ordered by container id (bbolt bucket names), object ids of
the associate index fit 32 bytes -/
def Inv2 (db : DB) : Bool := Inv db && sortedCids db.bkts && db.bkts.all fun cb => idOKb cb.2.keys

/-- nothing of the old format is left in a bucket -/
def complete (keys : List Key) : Bool := keys.all fun k => canon k == some k

/-- nothing of the old format is left in the buckets of the live containers -/
def completeDB (ex : Nat → Bool) (db : DB) : Bool := db.bkts.all fun cb => !ex cb.1 || complete cb.2.keys

end NeoFS.Migrate
