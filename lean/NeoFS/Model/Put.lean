import NeoFS.Model.EC
/-
Model of the object distribution of `pkg/services/object/put` (`distributed.go`, `ec.go`):
`placementIterator.handleREPRule` / `repProgress`, `iterateNodesForObject` (objects broadcast to the
whole container), `distributedTarget.saveObject` (rule loop, initial placement policy: replica limits,
`MaxReplicas`, `PreferLocal`), `distributeECPart` (a ready EC part) and `applyECRule` / `ecProgress`
(node-side EC: one thread per part, shared `takenNodes` / `failedPuts` / `stop`).

Nodes are natural numbers (the public key). A node's answer to a request is an oracle
`ans : Obj → Node → Bool` (`true` = the send returned nil = acknowledgement); the object is `Obj.main`
for the object of the request and `Obj.part r p` for the part objects the node forms itself.
Ghost fields (`asked`, `acks`, `ecAcks`) log what a recording transport would see.

Concurrency: the sends of one REP group run in parallel and each publishes its result atomically under
`nodeResultsMtx`; `wg.Wait()` separates groups. A group is therefore executed in the order chosen by a
schedule `sched : List Node → List Node` (a permutation of the group). The EC threads are modelled at
the granularity of their critical sections (`canTryNode`, `submitNodeFailure`), interleaved by a list of
thread picks.
-/
namespace NeoFS.Put

abbrev Node := Nat

inductive Obj
  | main
  | part (rule idx : Nat)
  deriving DecidableEq, Repr

/-- verdict of `saveObject`: nil / `apistatus.Incomplete` / any other error / a Go panic -/
inductive Res | ok | incomplete | err | panic
  deriving DecidableEq, Repr

/-- `repProgress.nodeResults` plus the ghost log of the sends of the request's own object -/
structure G where
  results : List (Node × Bool) := []
  asked : List Node := []
  acks : List Node := []
  /-- ghost: acknowledged part objects `(ec rule, part, node)` -/
  ecAcks : List (Nat × Nat × Node) := []
  deriving Repr

/-- `newCompletionError(err, incomplete)` -/
def completion (incomplete : Bool) : Res := if incomplete then .incomplete else .err

/-! ## handleREPRule -/

/-- The group-building `for` of `handleREPRule` over the unprocessed suffix of the node list:
`rem` is `replRem`, `g` the group (`nextNodeGroupKeys`). Returns the new suffix. -/
def collect : List Node → List (Node × Bool) → Nat → Nat → List Node →
    List Node × List (Node × Bool) × Nat × List Node
  | [], rs, st, _, g => ([], rs, st, g)
  | n :: rest, rs, st, rem, g =>
    if g.length < rem then
      match rs.lookup n with
      | some true => collect rest rs (st + 1) (rem - 1) g   -- succeeded in some previous list
      | some false => collect rest rs st rem g               -- failed before / in flight
      | none => collect rest ((n, false) :: rs) st rem (g ++ [n])
    else (n :: rest, rs, st, g)

/-- `repToNode` for the nodes of one group in the given order (`listInd >= 0`). -/
def runGroup (f : Node → Bool) : List Node → G → Nat → G × Nat
  | [], g, st => (g, st)
  | n :: ns, g, st =>
    let b := f n
    runGroup f ns { g with results := (n, b) :: g.results, asked := n :: g.asked,
                           acks := if b then n :: g.acks else g.acks } (if b then st + 1 else st)

/-- `handleREPRule`: `rest` is `nodeList[processed:]`, `st` is `nodesCounters[listInd].stored`.
Returns `(progress, stored, failed)`. `fuel` bounds the `for {}` (every round consumes a node). -/
def handleREP (f : Node → Bool) (sched : List Node → List Node) (minReps maxReps : Nat) :
    Nat → List Node → G → Nat → G × Nat × Bool
  | 0, _, g, st => (g, st, true)
  | fuel + 1, rest, g, st =>
    if st ≥ maxReps then (g, st, false)
    else if rest.length < minReps - st then (g, st, true)
    else if rest.isEmpty then (g, st, false)
    else
      let (rest', rs', st', grp) := collect rest g.results st (maxReps - st) []
      let (g', st'') := runGroup f (sched grp) { g with results := rs' } st'
      handleREP f sched minReps maxReps fuel rest' g' st''

/-- `handleREPRule` on a whole list with fresh counters -/
def repRule (f : Node → Bool) (sched : List Node → List Node) (minReps maxReps : Nat) (list : List Node) (g : G) :
    G × Nat × Bool :=
  handleREP f sched minReps maxReps (list.length + 1) list g 0

/-! ## iterateNodesForObject (tombstone, lock, link, parents of split chains) -/

/-- the rule loop of `iterateNodesForObject` -/
def iterRules (f : Node → Bool) (sched : List Node → List Node) : List (Nat × List Node) → G → G × Option Res
  | [], g => (g, none)
  | (c, l) :: more, g =>
    let (g', st, failed) := repRule f sched c c l g
    if failed then (g', some (completion (st > 0))) else iterRules f sched more g'

/-- the additional broadcast: every node of every list not met so far (`repToNode` with list `-1`:
the result is logged only) -/
def broadcastList (f : Node → Bool) : List Node → G → G
  | [], g => g
  | n :: ns, g =>
    match g.results.lookup n with
    | some _ => broadcastList f ns g
    | none =>
      let b := f n
      broadcastList f ns { g with results := (n, false) :: g.results, asked := n :: g.asked,
                                  acks := if b then n :: g.acks else g.acks }

def broadcastAll (f : Node → Bool) : List (List Node) → G → G
  | [], g => g
  | l :: ls, g => broadcastAll f ls (broadcastList f l g)

def iterateNodes (f : Node → Bool) (sched : List Node → List Node) (counts : List Nat) (lists : List (List Node))
    (broadcast : Bool) (g : G) : G × Res :=
  match iterRules f sched (counts.zip lists) g with
  | (g', some e) => (g', e)
  | (g', none) => if broadcast then (broadcastAll f lists g', .ok) else (g', .ok)

/-! ## distributeECPart without progress (a ready EC part object) -/

/-- first node of the part's node sequence that acknowledges -/
def seqPart (f : Node → Bool) (nodes : List Node) : List Nat → G → G × Bool
  | [], g => (g, false)
  | i :: is, g =>
    let n := nodes.getD i 0
    let b := f n
    let g' := { g with asked := n :: g.asked, acks := if b then n :: g.acks else g.acks }
    if b then (g', true) else seqPart f nodes is g'

/-! ## applyECRule: one thread per part over shared `ecProgress` -/

structure Thr where
  /-- the rest of `NodeSequenceForPart` (node indexes) -/
  todo : List Nat
  /-- node index taken by `canTryNode`, send in flight -/
  cur : Option Nat := none
  /-- `some true`: part stored, `some false`: the thread returned an error -/
  fin : Option Bool := none
  deriving Repr

structure ECSt where
  /-- `takenNodes`, with the taking thread as ghost second component -/
  taken : List (Nat × Nat) := []
  stop : Bool := false
  failed : Nat := 0
  thr : List Thr
  /-- ghost: `(part, node index)` acknowledged -/
  acks : List (Nat × Nat) := []
  deriving Repr

/-- One critical section of thread `k` (`f i` = answer of the node with index `i` to this part). -/
def ecStep (f : Nat → Nat → Bool) (nNodes d : Nat) (s : ECSt) (k : Nat) : ECSt :=
  match s.thr[k]? with
  | none => s
  | some t =>
    if t.fin.isSome then s else
    match t.cur with
    | none =>
      match t.todo with
      | [] => { s with thr := s.thr.set k { t with fin := some false } }      -- sequence exhausted
      | i :: rest =>
        -- canTryNode(i)
        if s.stop then { s with thr := s.thr.set k { t with todo := rest } }
        else if (s.taken.map Prod.fst).contains i then { s with thr := s.thr.set k { t with todo := rest } }
        else { s with taken := (i, k) :: s.taken, thr := s.thr.set k { t with todo := rest, cur := some i } }
    | some i =>
      if f k i then
        { s with acks := (k, i) :: s.acks, thr := s.thr.set k { t with cur := none, fin := some true } }
      else
        -- submitNodeFailure
        if s.stop then { s with thr := s.thr.set k { t with cur := none, fin := some false } }
        else
          let failed := s.failed + 1
          if nNodes - failed < d then
            { s with failed := failed, stop := true, thr := s.thr.set k { t with cur := none, fin := some false } }
          else { s with failed := failed, thr := s.thr.set k { t with cur := none } }

/-- run thread `k` to its end (`fuel` steps suffice: two per node of its sequence plus one) -/
def ecFinish (f : Nat → Nat → Bool) (nNodes d : Nat) : Nat → ECSt → Nat → ECSt
  | 0, s, _ => s
  | fuel + 1, s, k => ecFinish f nNodes d fuel (ecStep f nNodes d s k) k

/-- the picks of the schedule, then every thread is run to its end (so that every schedule is a complete run) -/
def ecRun (f : Nat → Nat → Bool) (nNodes d total : Nat) (picks : List Nat) (s : ECSt) : ECSt :=
  let s1 := picks.foldl (ecStep f nNodes d) s
  (List.range total).foldl (fun s k => ecFinish f nNodes d (2 * nNodes + 2) s k) s1

def ecInit (total nNodes : Nat) : ECSt :=
  { thr := (List.range total).map fun p => { todo := EC.nodeSeq p total nNodes } }

/-- `applyECRule`: success iff every thread stored its part; the acknowledgements as `(part, node)` -/
def applyEC (f : Nat → Node → Bool) (d p : Nat) (nodes : List Node) (picks : List Nat) : Bool × List (Nat × Node) :=
  let s := ecRun (fun k i => f k (nodes.getD i 0)) nodes.length d (d + p) picks (ecInit (d + p) nodes.length)
  (s.thr.all (fun t => t.fin == some true), s.acks.map fun (k, i) => (k, nodes.getD i 0))

/-! ## saveObject -/

structure Initial where
  limits : List Nat
  maxReplicas : Nat
  preferLocal : Bool
  deriving Repr

structure Req where
  /-- 0 regular, otherwise tombstone / lock / link / split parent: broadcast objects -/
  typ : Nat
  rep : List Nat
  ec : List (Nat × Nat)
  /-- node lists: REP rules first, then EC rules -/
  lists : List (List Node)
  /-- the local node's key (`none`: in no list) -/
  loc : Option Node
  /-- `sessionSigner != nil` (the node slices and signs) -/
  signer : Bool
  ecPart : Option (Nat × Nat)
  ini : Option Initial
  deriving Repr

/-- state of the rule loop of `saveObject` -/
structure LS where
  g : G
  left : Nat
  /-- ghost: EC rules applied -/
  applied : List Nat := []
  /-- ghost: `(REP rule, stored)` as returned by `handleREPRule` -/
  stored : List (Nat × Nat) := []
  deriving Repr

/-- limit a rule contributes to `sumLimitsSinceRule` -/
def limitOf (rep : List Nat) (ecLimits : Option (List Nat)) (ruleIdx : Nat) : Nat :=
  if ruleIdx < rep.length then rep.getD ruleIdx 0
  else match ecLimits with
    | some l => l.getD (ruleIdx - rep.length) 0
    | none => 1

def sumLimits (rep : List Nat) (ecLimits : Option (List Nat)) (rules : List Nat) : Nat :=
  (rules.map (limitOf rep ecLimits)).sum

/-- Everything the rule loop needs besides its state. -/
structure Env where
  ans : Obj → Node → Bool
  sched : List Node → List Node
  picks : Nat → List Nat          -- EC schedule per EC rule
  rep : List Nat                  -- effective REP counts (limits under an initial policy)
  ec : List (Nat × Nat)
  ecLimits : Option (List Nat)
  lists : List (List Node)
  maxReplicas : Nat

/-- an EC rule switched off by the initial policy's replica limits -/
def ecDisabled (ecLimits : Option (List Nat)) (j : Nat) : Bool :=
  match ecLimits with
  | some l => l.getD j 0 == 0
  | none => false

/-- One EC rule of the loop (`handleECRule`); `todo` = the rules after it in the visiting order.
Outcome: `none` = go on with the next rule, `some none` = `break`, `some (some r)` = `return r`. -/
def ecRuleStep (e : Env) (ruleIdx : Nat) (todo : List Nat) (s : LS) : LS × Option (Option Res) :=
  let j := ruleIdx - e.rep.length
  if ecDisabled e.ecLimits j then (s, none)
  else
    let dp := e.ec.getD j (0, 0)
    let nodes := e.lists.getD ruleIdx []
    let r := applyEC (fun k n => e.ans (.part j k) n) dp.1 dp.2 nodes (e.picks j)
    let s := { s with g := { s.g with ecAcks := s.g.ecAcks ++ r.2.map fun (k, n) => (j, k, n) } }
    if !r.1 then
      if e.maxReplicas = 0 then (s, some (some .err))
      else if s.left > sumLimits e.rep e.ecLimits todo then
        (s, some (some (completion (e.maxReplicas - s.left > 0))))
      else (s, none)
    else
      let s := { s with applied := j :: s.applied }
      if e.maxReplicas > 0 then
        let s := { s with left := s.left - 1 }
        if s.left = 0 then (s, some none) else (s, none)
      else (s, none)

/-- One REP rule of the loop. -/
def repRuleStep (e : Env) (ruleIdx : Nat) (todo : List Nat) (s : LS) : LS × Option (Option Res) :=
  let r := e.rep.getD ruleIdx 0
  if r = 0 then (s, none)
  else
    let minReps := if e.maxReplicas > 0 then s.left - sumLimits e.rep e.ecLimits todo else r
    let maxReps := if e.maxReplicas > 0 then min r s.left else r
    let out := repRule (e.ans .main) e.sched minReps maxReps (e.lists.getD ruleIdx []) s.g
    let st := out.2.1
    let s := { s with g := out.1, stored := (ruleIdx, st) :: s.stored }
    if out.2.2 then
      if e.maxReplicas > 0 then (s, some (some (completion (e.maxReplicas - s.left + st > 0))))
      else (s, some (some (completion (st > 0))))
    else if e.maxReplicas > 0 then
      if s.left ≤ st then (s, some none) else ({ s with left := s.left - st }, none)
    else (s, none)

/-- The rule loop for the rules still to visit (`todo`, head = current position).
`none` = loop finished normally (or `break`), `some r` = `return err`. -/
def ruleLoop (e : Env) : List Nat → LS → LS × Option Res
  | [], s => (s, none)
  | ruleIdx :: todo, s =>
    let step := if ruleIdx ≥ e.rep.length then ecRuleStep e ruleIdx todo s else repRuleStep e ruleIdx todo s
    match step.2 with
    | none => ruleLoop e todo step.1
    | some out => (step.1, out)

def localIn (loc : Option Node) (l : List Node) : Bool :=
  match loc with
  | some n => l.contains n
  | none => false

/-- `slices.SortFunc(ruleOrder, cmp)` with the code's comparator (`-1` whenever the first argument's list
has the local node): the standard library sorts up to 12 elements by insertion, which moves every such
rule to the very front. -/
def preferLocalOrder (loc : Option Node) (lists : List (List Node)) (enabled : List Nat) : List Nat :=
  (enabled.filter fun i => localIn loc (lists.getD i [])).reverse ++
    enabled.filter fun i => !localIn loc (lists.getD i [])

/-- the replica limits of the initial policy that are in force (`initialLimits`; a sealed object takes only
the REP prefix) -/
def effLimits (r : Req) : List Nat :=
  match r.ini with
  | none => []
  | some ini => if r.signer then ini.limits else ini.limits.take r.rep.length

/-- `repRules` after the limits were applied -/
def effRep (r : Req) : List Nat :=
  if (effLimits r).length > 0 then (List.range r.rep.length).map ((effLimits r).getD · 0) else r.rep

/-- `ecLimits` -/
def effEcLimits (r : Req) : Option (List Nat) :=
  if (effLimits r).length > 0 then some ((effLimits r).drop r.rep.length) else none

/-- the EC rules the node applies itself (none for a sealed object) -/
def effEc (r : Req) : List (Nat × Nat) := if r.signer then r.ec else []

def maxRep (r : Req) : Nat :=
  match r.ini with
  | none => 0
  | some ini => ini.maxReplicas

/-- visiting order of the rules (`ruleOrder`) -/
def ruleOrderOf (r : Req) : List Nat :=
  let nrep := r.rep.length
  let all := List.range (nrep + (effEc r).length)
  match r.ini with
  | none => all
  | some ini =>
    if ini.maxReplicas > 0 && ini.preferLocal then
      preferLocalOrder r.loc r.lists (all.filter fun i =>
        if i < nrep then (effRep r).getD i 0 > 0 else !ecDisabled (effEcLimits r) (i - nrep))
    else all

def envOf (ans : Obj → Node → Bool) (sched : List Node → List Node) (picks : Nat → List Nat) (r : Req) : Env :=
  { ans, sched, picks, rep := effRep r, ec := effEc r, ecLimits := effEcLimits r, lists := r.lists,
    maxReplicas := maxRep r }

/-- counts of a broadcast object: REP counts, plus the size of every EC rule -/
def broadcastCounts (r : Req) : List Nat :=
  if r.ec.isEmpty then r.rep else r.rep ++ r.ec.map fun dp => dp.1 + dp.2

/-- an EC part whose rule is switched off by the initial policy is left to the post-placement replicator -/
def partDeferred (r : Req) (rule : Nat) : Bool :=
  match r.ini with
  | some ini => ini.limits.length ≠ 0 && ini.limits.getD (r.rep.length + rule) 0 == 0
  | none => false

/-- `saveObject` (not `localOnly`). `picks j` schedules the threads of EC rule `j`. -/
def saveObject (ans : Obj → Node → Bool) (sched : List Node → List Node) (picks : Nat → List Nat) (r : Req) : LS × Res :=
  let g : G := {}
  let nrep := r.rep.length
  if r.typ ≠ 0 then
    -- tombstone / lock / link: the counts of every list, then everybody else
    let out := iterateNodes (ans .main) sched (broadcastCounts r) r.lists true g
    ({ g := out.1, left := 0 }, out.2)
  else
  match r.ecPart with
  | some (rule, idx) =>
    let dp := r.ec.getD rule (0, 0)
    let nodes := r.lists.getD (nrep + rule) []
    if partDeferred r rule then ({ g := g, left := 0 }, .ok)      -- handed to the post-placement replicator
    else
      let out := seqPart (ans .main) nodes (EC.nodeSeq idx (dp.1 + dp.2) nodes.length) g
      ({ g := out.1, left := 0 }, if out.2 then .ok else .err)
  | none =>
    if !r.signer && nrep = 0 then ({ g := g, left := 0 }, .panic)
    else if (match r.ini with | some ini => !r.signer && ini.limits.length < nrep | none => false) then
      ({ g := g, left := 0 }, .err)
    else
      let out := ruleLoop (envOf ans sched picks r) (ruleOrderOf r) { g := g, left := maxRep r }
      (out.1, out.2.getD .ok)

end NeoFS.Put
