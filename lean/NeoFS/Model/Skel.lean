/-
Control skeletons of inner ring entry points (C35): a tiny structured language, its big-step
semantics for a fixed alphabet status, and a checker "no chain-mutating effect can happen when the
node is not an alphabet member".  The skeleton terms themselves are REGENERATED from the source by
harness/extract (lean/NeoFS/Gen/IRHandlers.lean).  Core Lean only.
-/
namespace NeoFS.IRSkel

inductive Prog
  | skip
  /-- a call from which a transaction-sending primitive of the morph client is reachable -/
  | effect (tag : String)
  | seq (a b : Prog)
  /-- nondeterministic choice (conditions the abstraction does not interpret, switch clauses,
  several implementations of an interface method) -/
  | branch (a b : Prog)
  /-- zero or more iterations; catches `brk` -/
  | loop (body : Prog)
  /-- `return` of the enclosing function -/
  | ret
  /-- `break` / `continue` -/
  | brk
  /-- an inlined callee or closure: catches `ret` -/
  | scope (body : Prog)
  /-- condition decided by the alphabet status (`IsAlphabet()`, `AlphabetIndex() >= 0`) -/
  | ifAlpha (thenP elseP : Prog)
  deriving Repr

structure Entry where
  name : String
  kind : String
  body : Prog
  deriving Repr

inductive Exit | fall | brk | ret
  deriving DecidableEq, Repr

/-- Big-step semantics: under alphabet status `α`, `p` can perform the effects `es` (in order) and
leave with exit `x`.  The alphabet status is constant during one run of an entry point. -/
inductive Exec (α : Bool) : Prog → List String → Exit → Prop
  | skip : Exec α .skip [] .fall
  | effect (t) : Exec α (.effect t) [t] .fall
  | ret : Exec α .ret [] .ret
  | brk : Exec α .brk [] .brk
  | seqFall {a b es1 es2 x} : Exec α a es1 .fall → Exec α b es2 x → Exec α (.seq a b) (es1 ++ es2) x
  | seqExit {a b es x} : Exec α a es x → x ≠ .fall → Exec α (.seq a b) es x
  | branchL {a b es x} : Exec α a es x → Exec α (.branch a b) es x
  | branchR {a b es x} : Exec α b es x → Exec α (.branch a b) es x
  | loopDone {b} : Exec α (.loop b) [] .fall
  | loopStep {b es1 es2 x y} : Exec α b es1 x → x ≠ .ret → Exec α (.loop b) es2 y → Exec α (.loop b) (es1 ++ es2) y
  | loopBrk {b es} : Exec α b es .brk → Exec α (.loop b) es .fall
  | loopRet {b es} : Exec α b es .ret → Exec α (.loop b) es .ret
  | scopeRet {b es} : Exec α b es .ret → Exec α (.scope b) es .fall
  | scopeOther {b es x} : Exec α b es x → x ≠ .ret → Exec α (.scope b) es x
  | ifT {t e es x} : α = true → Exec α t es x → Exec α (.ifAlpha t e) es x
  | ifF {t e es x} : α = false → Exec α e es x → Exec α (.ifAlpha t e) es x

/-- result of the checker for the non-alphabet world: no effect possible, and which exits are possible -/
structure Res where
  ok : Bool
  fall : Bool
  brk : Bool
  ret : Bool
  deriving DecidableEq, Repr

def Res.allows (r : Res) : Exit → Bool
  | .fall => r.fall
  | .brk => r.brk
  | .ret => r.ret

/-- abstract run for α = false -/
def chk : Prog → Res
  | .skip => ⟨true, true, false, false⟩
  | .effect _ => ⟨false, true, false, false⟩
  | .ret => ⟨true, false, false, true⟩
  | .brk => ⟨true, false, true, false⟩
  | .seq a b =>
    let ra := chk a
    if ra.fall then
      let rb := chk b
      ⟨ra.ok && rb.ok, rb.fall, ra.brk || rb.brk, ra.ret || rb.ret⟩
    else ra
  | .branch a b =>
    let ra := chk a
    let rb := chk b
    ⟨ra.ok && rb.ok, ra.fall || rb.fall, ra.brk || rb.brk, ra.ret || rb.ret⟩
  | .loop b =>
    let r := chk b
    ⟨r.ok, true, false, r.ret⟩
  | .scope b =>
    let r := chk b
    ⟨r.ok, r.fall || r.ret, r.brk, false⟩
  | .ifAlpha _ e => chk e

/-- the entry point performs no chain-mutating call when the node is not an alphabet member -/
def guarded (p : Prog) : Bool := (chk p).ok

end NeoFS.IRSkel
