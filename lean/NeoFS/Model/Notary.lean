/-
Model of the notary request path of the inner ring (C34):
`pkg/morph/event/notary_preparator.go` (`preparator.Prepare` and its `validate*` helpers),
`pkg/morph/event/listener.go` (`parseAndHandleNotary`, `acceptOnlySingleCall`),
the per-contract notary parsers under `pkg/morph/event/{container,netmap,reputation}` and the
co-signing handlers of `pkg/innerring/processors/container` (`process*` → `NotarySignAndInvokeTX`).

A main transaction script is the list of contract calls the script parser (`scparser`) produces, or
`none` when it does not parse as a pure sequence of calls.  Argument values are abstracted to the
kind of push instruction; what a handler validates about the *content* of a call's arguments
(signatures, owner, session token, eACL table …) is the abstract predicate `hv method call`.
Core Lean only.
-/
namespace NeoFS.Notary

/-- kind of the instruction that pushes one argument -/
inductive ArgKind | bytes | junk | int01 | intN | boolT | null | list2 | cnr | node | pubkey
  deriving DecidableEq, Repr

/-- what a parser asks of one argument -/
inductive ArgTy | B | I | Bo | Cnr | Node | Pk | St | Val
  deriving DecidableEq, Repr

/-- `scparser.Get*FromInstr` acceptance (plus the content checks the parsers themselves make:
node state decodes, reputation value unmarshals, public key decodes). -/
def accepts : ArgTy → ArgKind → Bool
  | .B, k => k == .bytes || k == .junk || k == .pubkey      -- GetBytes/GetString: PUSHDATA*
  | .I, k => k == .int01 || k == .intN                      -- GetInt64/GetBigInt: PUSHINT*, PUSHM1..PUSH16
  | .Bo, k => k == .int01 || k == .boolT                    -- GetBool: PUSHT/PUSHF/PUSH0/PUSH1
  | .Cnr, k => k == .cnr                                    -- containerInfoFromPushedItem
  | .Node, k => k == .node                                  -- nodeFromPushedItem
  | .Pk, k => k == .pubkey                                  -- GetPublicKey / 33-byte peer id
  | .St, k => k == .int01                                   -- GetInt64 + decodeState
  | .Val, k => k == .bytes                                  -- GetBytes + reputation value Unmarshal

structure Call where
  contract : Nat
  method : Nat
  args : List ArgKind
  /-- opaque identity of the argument contents (what handler validations look at) -/
  tag : Nat
  deriving DecidableEq, Repr

/-- One expected call: contract, method, accepted argument type vectors. -/
structure CallSpec where
  contract : Nat
  method : Nat
  sigs : List (List ArgTy)
  deriving Repr

def sigAccepts : List ArgTy → List ArgKind → Bool
  | [], [] => true
  | t :: ts, k :: ks => accepts t k && sigAccepts ts ks
  | _, _ => false

def CallSpec.argsOk (s : CallSpec) (c : Call) : Bool := s.sigs.any (fun sg => sigAccepts sg c.args)

def CallSpec.same (s : CallSpec) (c : Call) : Bool := c.contract == s.contract && c.method == s.method

/-- the call is THE expected call: contract, method and argument shape -/
def CallSpec.matches (s : CallSpec) (c : Call) : Bool := s.same c && s.argsOk c

/-- A registered notary parser: keyed by its first call; `rest` are the optional further calls it
accepts, in order (`acceptOnlySingleCall` parsers have none). -/
structure Parser where
  first : CallSpec
  rest : List CallSpec
  deriving Repr

/-- Calls after the first one against the optional followers: fewer is fine, more is not, and each
present call must be the expected one (contract, method, argument shape). -/
def matchRest : List CallSpec → List Call → Bool
  | _, [] => true
  | [], _ :: _ => false
  | s :: ss, c :: cs => s.matches c && matchRest ss cs

/-- The parser before the repair: followers were only checked for their argument shape
(`RestorePutContainerEACLRequest(contractCalls[1])`). -/
def matchRestUnfixed : List CallSpec → List Call → Bool
  | _, [] => true
  | [], _ :: _ => false
  | s :: ss, c :: cs => s.argsOk c && matchRestUnfixed ss cs

/-- handler validation of the followers: each one by the validation of ITS expected method -/
def validateRest (hv : Nat → Call → Bool) : List CallSpec → List Call → Bool
  | _, [] => true
  | [], _ :: _ => false
  | s :: ss, c :: cs => hv s.method c && validateRest hv ss cs

abbrev Registry := List Parser

def Registry.lookup (reg : Registry) (c : Call) : Option Parser := reg.find? (fun p => p.first.same c)

/-- `(contract, method)` is a pair the inner ring registered a notary parser for -/
def Registry.allowed (reg : Registry) (c : Call) : Bool := reg.any (fun p => p.first.same c)

/-- every optional follower is itself a registered request type -/
def Registry.followersRegistered (reg : Registry) : Bool :=
  reg.all (fun p => p.rest.all (fun s => reg.any (fun q => q.first.contract == s.contract && q.first.method == s.method)))

/-! ### the request -/

inductive Inv | empty | dummy | other deriving DecidableEq, Repr
inductive Ver | empty | alpha | other deriving DecidableEq, Repr
structure Witness where
  inv : Inv
  ver : Ver
  deriving DecidableEq, Repr
inductive Signer | proxy | alpha | notary | other deriving DecidableEq, Repr
inductive Attr | notaryAssisted (n : Nat) | other deriving DecidableEq, Repr
inductive FbAttr | nvb | conflicts | notaryAssisted deriving DecidableEq, Repr

structure Req where
  /-- the main transaction's hash is in the cache of already handled transactions -/
  seen : Bool
  witnesses : List Witness
  signers : List Signer
  attrs : List Attr
  fbAttrs : List FbAttr
  /-- height of the fallback's NotValidBefore attribute(s) -/
  nvb : Nat
  /-- the fallback's second signer is this node's account (request made by the node itself) -/
  fbFromLocal : Bool
  /-- calls of the main script; `none`: not a pure sequence of contract calls -/
  script : Option (List Call)
  deriving Repr

structure Env where
  /-- number of current alphabet keys -/
  alphaN : Nat
  /-- current chain height -/
  height : Nat
  isAlphabet : Bool
  deriving Repr

inductive PrepErr
  | alreadyHandled | witnessCount | cosignersCount | alphaSigner | attrCount | attr
  | proxyWitness | alphaWitness | invokerWitness | placeholder
  | fbAttrCount | fbAttrs | expired | parse | noCalls | unknown
  deriving DecidableEq, Repr

def PrepErr.show : PrepErr → String
  | .alreadyHandled => "alreadyHandled" | .witnessCount => "witnessCount" | .cosignersCount => "cosignersCount"
  | .alphaSigner => "alphaSigner" | .attrCount => "attrCount" | .attr => "attr" | .proxyWitness => "proxyWitness"
  | .alphaWitness => "alphaWitness" | .invokerWitness => "invokerWitness" | .placeholder => "placeholder"
  | .fbAttrCount => "fbAttrCount" | .fbAttrs => "fbAttrs" | .expired => "expired" | .parse => "parse"
  | .noCalls => "noCalls" | .unknown => "unknown"

def emptyW (w : Witness) : Bool := w.inv == .empty && w.ver == .empty

/-- `validateCosigners` -/
def cosignersErr (ln : Nat) (r : Req) : Option PrepErr :=
  if r.signers.length != ln then some .cosignersCount
  else if r.signers[1]? != some .alpha then some .alphaSigner
  else none

def invN (invoker : Bool) : Nat := if invoker then 1 else 0

/-- `validateAttributes` (`NKeys` is a `uint8`) -/
def attrsErr (env : Env) (invoker : Bool) (r : Req) : Option PrepErr :=
  match r.attrs with
  | [a] => if a != .notaryAssisted ((env.alphaN % 256 + invN invoker) % 256) then some .attr else none
  | _ => some .attrCount

/-- `validateWitnesses` -/
def witnessesErr (invoker : Bool) (r : Req) : Option PrepErr :=
  let w := r.witnesses
  if !(w[0]?.any emptyW) then some .proxyWitness
  else if !(w[1]?.any (fun x => x.ver == .alpha)) then some .alphaWitness
  else if invoker && (w[2]?.any emptyW) then some .invokerWitness
  else match w.getLast? with
    | some l => if (l.inv != .empty && l.inv != .dummy) || l.ver != .empty then some .placeholder else none
    | none => some .placeholder

/-- `validateExpiration` -/
def expirationErr (env : Env) (r : Req) : Option PrepErr :=
  if r.fbAttrs.length != 3 then some .fbAttrCount
  else if r.fbAttrs.count .nvb != 1 then some .fbAttrs
  else if env.height ≥ r.nvb then some .expired
  else none

/-- all checks of `Prepare` before the script is looked at, in the code's order -/
def structureErr (env : Env) (r : Req) : Option PrepErr :=
  if r.seen then some .alreadyHandled
  else
    let ln := r.witnesses.length
    if ln != 3 && ln != 4 then some .witnessCount
    else
      let invoker := ln == 4
      if r.fbFromLocal then some .alreadyHandled
      else (cosignersErr ln r).orElse fun _ => (attrsErr env invoker r).orElse fun _ =>
        (witnessesErr invoker r).orElse fun _ => expirationErr env r

/-- `preparator.Prepare`: the calls handed to the parser, or the error class -/
def prepare (reg : Registry) (env : Env) (r : Req) : Except PrepErr (List Call) :=
  match structureErr env r with
  | some e => .error e
  | none =>
    match r.script with
    | none => .error .parse
    | some [] => .error .noCalls
    | some (c :: cs) => if reg.allowed c then .ok (c :: cs) else .error .unknown

inductive Outcome
  | prepErr (e : PrepErr)
  /-- prepared, but the registered parser refused the calls -/
  | parseErr (n : Nat)
  /-- the handler of the first call's method ran; `signed`: it called `NotarySignAndInvokeTX(mainTx)` -/
  | handled (n : Nat) (method : Nat) (signed : Bool)
  deriving DecidableEq, Repr

/-- `parseAndHandleNotary` followed by the handler (`process*`): generic in how followers are matched -/
def handleWith (mr : List CallSpec → List Call → Bool) (reg : Registry) (env : Env) (hv : Nat → Call → Bool) (r : Req) : Outcome :=
  match prepare reg env r with
  | .error e => .prepErr e
  | .ok [] => .prepErr .noCalls
  | .ok (c :: cs) =>
    match reg.lookup c with
    | none => .parseErr (cs.length + 1)
    | some p =>
      if p.first.argsOk c && mr p.rest cs then
        .handled (cs.length + 1) c.method (env.isAlphabet && hv p.first.method c && validateRest hv p.rest cs)
      else .parseErr (cs.length + 1)

def handle := handleWith matchRest
def handleUnfixed := handleWith matchRestUnfixed

def Outcome.signed : Outcome → Bool
  | .handled _ _ s => s
  | _ => false

/-- the node adds its alphabet signature to the request's main transaction -/
def cosign (reg : Registry) (env : Env) (hv : Nat → Call → Bool) (r : Req) : Bool := (handle reg env hv r).signed
def cosignUnfixed (reg : Registry) (env : Env) (hv : Nat → Call → Bool) (r : Req) : Bool := (handleUnfixed reg env hv r).signed

def Req.calls (r : Req) : List Call := r.script.getD []

/-! ### the registry the inner ring installs (container, netmap, reputation processors)
contracts: 0 container, 1 netmap, 2 reputation; methods are indexes into the harness' name table. -/

def b4 : List ArgTy := [.B, .B, .B, .B]

def putEACLSpec : CallSpec := ⟨0, 7, [b4]⟩

def irRegistry : Registry := [
  ⟨⟨0, 0, [b4, b4 ++ [.B, .B], b4 ++ [.B, .B, .Bo]]⟩, []⟩,            -- put
  ⟨⟨0, 1, [b4 ++ [.B, .B]]⟩, []⟩,                                     -- putNamed
  ⟨⟨0, 2, [b4 ++ [.B, .B, .Bo]]⟩, []⟩,                                -- create
  ⟨⟨0, 3, [[.Cnr, .B, .B, .B]]⟩, [putEACLSpec]⟩,                      -- createV2 (+ optional putEACL)
  ⟨⟨0, 4, [[.B, .B, .B]]⟩, []⟩,                                       -- delete
  ⟨⟨0, 5, [b4]⟩, []⟩,                                                 -- remove
  ⟨⟨0, 6, [b4]⟩, []⟩,                                                 -- setEACL
  ⟨putEACLSpec, []⟩,                                                  -- putEACL
  ⟨⟨0, 8, [[.B, .I, .I, .B]]⟩, []⟩,                                   -- putReport
  ⟨⟨0, 9, [[.B, .B, .B, .I, .B, .B, .B]]⟩, []⟩,                       -- setAttribute
  ⟨⟨0, 10, [[.B, .B, .I, .B, .B, .B]]⟩, []⟩,                          -- removeAttribute
  ⟨⟨1, 11, [[.Node]]⟩, []⟩,                                           -- netmap addNode
  ⟨⟨1, 12, [[.St, .Pk]]⟩, []⟩,                                        -- netmap updateState
  ⟨⟨2, 0, [[.I, .Pk, .Val]]⟩, []⟩                                     -- reputation put
]

end NeoFS.Notary
