/-
Model of `pkg/innerring/processors/governance/list.go`.
Keys are natural numbers ordered like `sort.Sort(keys.PublicKeys)` orders the keys.
-/
namespace NeoFS.Gov

inductive Err | emptyFSChain | notEnoughKeys | notEqualLen
  deriving DecidableEq, Repr

/-- insertion into a sorted list -/
def insertKey (x : Nat) : List Nat → List Nat
  | [] => [x]
  | y :: ys => if x ≤ y then x :: y :: ys else y :: insertKey x ys

/-- `sort.Sort(keys)` (insertion sort: any sorting algorithm yields the same list for distinct keys) -/
def sortKeys (l : List Nat) : List Nat := l.foldr insertKey []

/-- First loop of `newAlphabetList`: scan the (sorted) main-network list.
State: `res` (result so far), `seen` (current members met: `hmap[..] = true`), `k` (`newNodes`). -/
def scan (ln limit : Nat) (cur : List Nat) : List Nat → List Nat → List Nat → Nat → List Nat × List Nat × Nat
  | [], res, seen, k => (res, seen, k)
  | x :: xs, res, seen, k =>
    if res.length = ln then (res, seen, k)                       -- break
    else if x ∈ cur then scan ln limit cur xs (res ++ [x]) (x :: seen) k
    else if k = limit then scan ln limit cur xs res seen k       -- limitReached: continue
    else scan ln limit cur xs (res ++ [x]) seen (k + 1)

/-- Second loop: top up with current members not met in the main-network list. -/
def topUp (ln : Nat) (seen : List Nat) : List Nat → List Nat → List Nat
  | [], res => res
  | x :: xs, res =>
    if res.length = ln then res
    else if x ∉ seen then topUp ln seen xs (res ++ [x])
    else topUp ln seen xs res

/-- `newAlphabetList(fsChain, mainnet)`; `.ok none` is the `(nil, nil)` "nothing changed" result. -/
def newAlphabetList (fsChain mainnet : List Nat) : Except Err (Option (List Nat)) :=
  let cur := sortKeys fsChain
  let mn := sortKeys mainnet
  let ln := cur.length
  if ln = 0 then .error .emptyFSChain
  else if mn.length < ln then .error .notEnoughKeys
  else
    let (res, seen, k) := scan ln ((ln - 1) / 3) cur mn [] [] 0
    if k = 0 then .ok none
    else .ok (some (sortKeys (topUp ln seen cur res)))

/-- index of the first element equal to `x` -/
def indexOf? (x : Nat) : List Nat → Option Nat
  | [] => none
  | y :: ys => if x = y then some 0 else (indexOf? x ys).map (· + 1)

/-- what one inner ring key contributes to the new list: the positional replacement when it is one of
`before`; nothing when it is not replaced but is among `after` (the repair: it is taken from `after`);
itself otherwise. -/
def ringStep (before after : List Nat) (r : Nat) : Option Nat :=
  match indexOf? r before with
  | some j => after[j]?
  | none => if r ∈ after then none else some r

/-- `updateInnerRing(innerRing, before, after)` -/
def updateInnerRing (ring before after : List Nat) : Except Err (List Nat) :=
  if before.length ≠ after.length then .error .notEqualLen
  else .ok (ring.filterMap (ringStep before after))

end NeoFS.Gov
