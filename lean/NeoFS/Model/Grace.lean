import NeoFS.Gen.Arith
/-
Model of the decisions that discard a container's data (property C47):

* `Shard.setEpochEventHandler` (shard/gc.go): payments disabled ⇒ nothing; container listing error ⇒
  nothing; per container: payment-check error ⇒ skip, `unpaidSince < 0` ⇒ skip, otherwise the grace test
  (`Gen.unpaidGraceExpired`, regenerated from the source) decides.
* `StorageEngine.deleteNotFoundContainers` (engine/container.go): discard ⇔ the container source's
  error *is* `ContainerNotFound`.
-/
namespace NeoFS.Grace

/-- answer of the container source for one container -/
inductive Src | found | notFound | transientErr
  deriving DecidableEq, Repr

/-- does the new-epoch handler mark the container for removal? -/
def epochHandlerDiscards (paymentsDisabled listErr checkErr : Bool) (unpaidSince epoch : Int) : Bool :=
  if paymentsDisabled then false
  else if listErr then false
  else if checkErr then false
  else if unpaidSince < 0 then false
  else Gen.unpaidGraceExpired epoch unpaidSince

/-- does engine start-up cleanup discard the container? -/
def startupDiscards (s : Src) : Bool := s == .notFound

end NeoFS.Grace
