/-
Model of the inner ring's network map processor (pkg/innerring/processors/netmap:
process_peers.go, process_epoch.go, nodevalidation/*).

* node admission (`processAddNode`): alphabet guard → the notary main transaction's script must
  HALT (`IsValidScript`, the chain's answer) → the contract's node structure must convert
  (`Node2Info`: state ONLINE or MAINTENANCE) → the configured validators in order, first error
  wins (`CompositeValidator`) → approve (`NotarySignAndInvokeTX`);
* peer state update (`processUpdatePeer`): alphabet guard → approve (nothing else is checked
  by this version of the processor; the contract checks the witness);
* epoch: `processNewEpochTick` (alphabet guard → `NewEpoch(counter + 1)`) and `processNewEpoch`
  (counter := notified epoch, epoch timer reset).
There is no cleanup table in this version of the code base (nodes leave the map in the
contract), so none is modelled.  External look-ups are oracle answers.  Core Lean only.
-/
namespace NeoFS.IRNetmap

/-! ### validators -/

inductive NodeState | unspecified | online | offline | maintenance
  deriving DecidableEq, Repr

/-- what the individual validators read from a candidate, with external look-ups as answers -/
structure Node where
  state : NodeState
  /-- one entry per announced endpoint: it parses as a multiaddress with 2..3 protocols,
      dns/ip4/ip6 then tcp then optional tls (`network.VerifyMultiAddress`); an empty endpoint
      list passes -/
  addrsOk : List Bool
  /-- attribute keys in order (duplicates are possible in a raw `NodeInfo`) -/
  attrKeys : List String
  /-- availability validator: every endpoint answered `EndpointInfo` with the same node info -/
  reachable : Bool
  /-- verified-nodes domain attribute is set -/
  hasDomain : Bool
  keyPresent : Bool
  /-- NNS answer for the domain record: 0 = record present, 1 = missing record, 2 = other error -/
  nnsAnswer : Nat
  /-- LOCODE attribute is set -/
  hasLocode : Bool
  /-- the locode database knows the code -/
  locodeKnown : Bool
  /-- the six derived attributes (country code/name, location, continent, subdivision
      code/name) equal the database record -/
  locodeFields : List Bool
  /-- external validator's verdict (when configured) -/
  externalOk : Bool
  deriving Repr

/-- the validators the inner ring composes (innerring.go) -/
inductive V | state | structure | availability | privateDomains | locode | external
  deriving DecidableEq, Repr

def nodup : List String → Bool
  | [] => true
  | a :: r => !r.contains a && nodup r

/-- `Verify` of one validator: `true` = no error -/
def V.ok (n : Node) : V → Bool
  | .state => n.state == .online || n.state == .maintenance
  | .structure => n.addrsOk.all id && nodup n.attrKeys
  | .availability => n.reachable
  | .privateDomains => !n.hasDomain || (n.keyPresent && n.nnsAnswer == 0)
  | .locode => !n.hasLocode || (n.locodeKnown && n.locodeFields.all id)
  | .external => n.externalOk

/-- `CompositeValidator.Verify`: index of the first validator that returns an error -/
def firstError (n : Node) : List V → Nat → Option Nat
  | [], _ => none
  | v :: r, i => if v.ok n then firstError n r (i + 1) else some i

/-- validators actually called (the loop returns at the first error) -/
def calledCount (n : Node) : List V → Nat
  | [] => 0
  | v :: r => if v.ok n then 1 + calledCount n r else 1

inductive Outcome | ignored | badScript | badNode | rejected (by_ : Nat) | approved
  deriving DecidableEq, Repr

/-- `processAddNode` -/
def processAddNode (alphabet scriptHalts convertible : Bool) (vs : List V) (n : Node) : Outcome :=
  if !alphabet then .ignored
  else if !scriptHalts then .badScript
  else if !convertible then .badNode
  else match firstError n vs 0 with
    | some i => .rejected i
    | none => .approved

/-- `processUpdatePeer` -/
def processUpdatePeer (alphabet : Bool) : Outcome := if alphabet then .approved else .ignored

/-! ### epochs -/

structure St where
  counter : Nat            -- `epochState.EpochCounter()`
  alphabet : Bool
  timerResets : Nat        -- number of `ResetEpochTimer` calls
  deriving DecidableEq, Repr

inductive Ev
  | tick                         -- the epoch timer fired (`HandleNewEpochTick`)
  | newEpoch (e : Nat)           -- `NewEpoch` notification of the contract
  | setAlphabet (b : Bool)       -- the node entered / left the alphabet
  deriving DecidableEq, Repr

/-- one event: the new state and the `NewEpoch(e)` invocations sent to the contract -/
def step (s : St) : Ev → St × List Nat
  | .tick => (s, if s.alphabet then [s.counter + 1] else [])
  | .newEpoch e => ({ s with counter := e, timerResets := s.timerResets + 1 }, [])
  | .setAlphabet b => ({ s with alphabet := b }, [])

def run (s : St) : List Ev → St × List Nat
  | [] => (s, [])
  | e :: r =>
    let (s1, o1) := step s e
    let (s2, o2) := run s1 r
    (s2, o1 ++ o2)

/-- the chain as the contract behaves when this node's request is the one executed: every
    request for `counter + 1` is applied and notified back at once -/
def runApplied (s : St) : List Ev → St
  | [] => s
  | .tick :: r =>
    if s.alphabet then runApplied { s with counter := s.counter + 1, timerResets := s.timerResets + 1 } r
    else runApplied s r
  | .newEpoch e :: r => runApplied { s with counter := e, timerResets := s.timerResets + 1 } r
  | .setAlphabet b :: r => runApplied { s with alphabet := b } r

/-! ### histories of events against ONE processor and ONE validator instance

The processor and its `CompositeValidator` live as long as the inner ring process: candidates
of the same storage node (same public key) arrive again and again (every epoch) with changing
content, between changes of the world the validators look at (NNS records of the verified-nodes
domains, what the node serves at its endpoints, the external validator's policy) and epoch
events.  State the processor keeps between events: the epoch counter / alphabet flag (global
state), and the network map snapshot `curMap` swapped by every processed new-epoch
notification (compared with the fresh map to decide whether container placements are
updated).  Nothing else: in particular NO memory of earlier candidates. -/

/-- a candidate as announced through the contract's `Node2` structure (what the validators READ
    from it; the answers of the outside world are not part of it) -/
structure Cand where
  /-- which storage node key (small index) -/
  key : Nat
  state : NodeState
  /-- per announced endpoint: well-formed multiaddress -/
  addrsOk : List Bool
  /-- ordinary attribute keys (a contract map: no repetitions) -/
  attrKeys : List String
  /-- the value (index) the ordinary attributes carry -/
  attrVal : Nat
  /-- verified-nodes domain: 0 = none -/
  domain : Nat
  hasLocode : Bool
  locodeKnown : Bool
  locodeFields : List Bool
  deriving DecidableEq, Repr

def sameKeys (a b : List String) : Bool :=
  a.length == b.length && a.all b.contains && b.all a.contains

/-- the availability probe compares what the node serves with what it announces, apart from
    the state (`compareNodeInfos` sets both ONLINE) -/
def Cand.sameContent (a b : Cand) : Bool :=
  a.key == b.key && a.addrsOk == b.addrsOk && sameKeys a.attrKeys b.attrKeys &&
  (a.attrKeys.isEmpty || a.attrVal == b.attrVal) && a.domain == b.domain &&
  a.hasLocode == b.hasLocode &&
  (!a.hasLocode || (a.locodeKnown == b.locodeKnown && a.locodeFields == b.locodeFields))

/-- the world outside the processor that validators consult at the moment of the check -/
structure World where
  /-- (domain, key) pairs with an address record in the NNS -/
  nns : List (Nat × Nat) := []
  /-- the NNS answers with an error other than "no record" -/
  nnsDown : Bool := false
  /-- what the storage node with the key serves at its endpoints now (no entry: not answering) -/
  live : List (Nat × Cand) := []
  /-- attribute values the external validator rejects now -/
  extDeny : List Nat := []
  deriving Repr

def World.served (w : World) (k : Nat) : Option Cand := (w.live.find? (·.1 == k)).map (·.2)

/-- what the validators see of a candidate in the world as it is NOW -/
def view (w : World) (c : Cand) : Node :=
  { state := c.state, addrsOk := c.addrsOk, attrKeys := c.attrKeys,
    reachable := c.addrsOk.isEmpty || (match w.served c.key with
      | some d => c.sameContent d
      | none => false),
    hasDomain := c.domain != 0, keyPresent := true,
    nnsAnswer := if w.nnsDown then 2 else if w.nns.contains (c.domain, c.key) then 0 else 1,
    hasLocode := c.hasLocode, locodeKnown := c.locodeKnown, locodeFields := c.locodeFields,
    externalOk := c.attrKeys.isEmpty || !w.extDeny.contains c.attrVal }

/-- `Node2Info` converts only ONLINE and MAINTENANCE -/
def Cand.convertible (c : Cand) : Bool := c.state == .online || c.state == .maintenance

structure HSt where
  ep : St := ⟨0, false, 0⟩
  /-- the validators the composite validator was built with (fixed for the process) -/
  vs : List V := []
  w : World := {}
  /-- the contract's current network map (keys, in order) and whether reading it fails -/
  chain : List Nat := []
  chainDown : Bool := false
  /-- the processor's snapshot of the network map -/
  curMap : List Nat := []
  deriving Repr

inductive HEv
  | addNode (halts : Bool) (c : Cand)       -- AddNode notary request
  | updPeer                                  -- UpdatePeer notary request
  | tick
  | newEpoch (e : Nat)
  | setAlphabet (b : Bool)
  | setNns (recs : List (Nat × Nat)) (down : Bool)
  | serve (k : Nat) (c : Option Cand)
  | setExt (deny : List Nat)
  | setChain (keys : List Nat) (down : Bool)
  deriving Repr

inductive HOut
  | admission (o : Outcome) (called : Nat)
  | peer (o : Outcome)
  | requests (l : List Nat)
  /-- new epoch processed: container placements updated, alphabet sync + notary deposit handlers called -/
  | epoch (placement handlers : Bool)
  | env
  deriving DecidableEq, Repr

/-- requests made by the processor (admission, peer update, epoch tick): they read the state -/
def HEv.isRequest : HEv → Bool
  | .addNode _ _ | .updPeer | .tick => true
  | _ => false

def hstep (s : HSt) : HEv → HSt × HOut
  | .addNode halts c =>
    let n := view s.w c
    (s, .admission (processAddNode s.ep.alphabet halts c.convertible s.vs n) (calledCount n s.vs))
  | .updPeer => (s, .peer (processUpdatePeer s.ep.alphabet))
  | .tick => (s, .requests (step s.ep .tick).2)
  | .newEpoch e =>
    let ep' := (step s.ep (.newEpoch e)).1
    if s.chainDown then ({ s with ep := ep' }, .epoch false false)
    else ({ s with ep := ep', curMap := s.chain }, .epoch (s.curMap != s.chain && s.ep.alphabet) true)
  | .setAlphabet b => ({ s with ep := (step s.ep (.setAlphabet b)).1 }, .env)
  | .setNns recs down => ({ s with w := { s.w with nns := recs, nnsDown := down } }, .env)
  | .serve k c =>
    let rest := s.w.live.filter (·.1 != k)
    ({ s with w := { s.w with live := match c with
      | some d => (k, d) :: rest
      | none => rest } }, .env)
  | .setExt deny => ({ s with w := { s.w with extDeny := deny } }, .env)
  | .setChain keys down => ({ s with chain := keys, chainDown := down }, .env)

def hrun (s : HSt) : List HEv → HSt × List HOut
  | [] => (s, [])
  | e :: r =>
    let (s1, o1) := hstep s e
    let (s2, o2) := hrun s1 r
    (s2, o1 :: o2)

/-- the epoch part of a history event -/
def HEv.toEv : HEv → Option Ev
  | .tick => some .tick
  | .newEpoch e => some (.newEpoch e)
  | .setAlphabet b => some (.setAlphabet b)
  | _ => none

def HOut.reqs : HOut → List Nat
  | .requests l => l
  | _ => []

end NeoFS.IRNetmap
