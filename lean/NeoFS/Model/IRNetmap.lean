/-
Model of the inner ring's network map processor (pkg/innerring/processors/netmap:
process_peers.go, process_epoch.go, nodevalidation/*).

* node admission (`processAddNode`): alphabet guard → the notary main transaction's script must
  HALT (`IsValidScript`, the chain's answer) → the contract's node structure must convert
  (`Node2Info`: state ONLINE or MAINTENANCE) → the configured validators in order, first error
  wins (`CompositeValidator`) → approve (`NotarySignAndInvokeTX`);
* peer state update (`processUpdatePeer`): alphabet guard → approve (nothing else is checked
  by this version of the processor; the contract checks the witness);
* epoch: `processNewEpochTick` (alphabet guard → `NewEpoch(counter + 1)`) and `processNewEpoch`
  (counter := notified epoch, epoch timer reset).
There is no cleanup table in this version of the code base (nodes leave the map in the
contract), so none is modelled.  External look-ups are oracle answers.  Core Lean only.
-/
namespace NeoFS.IRNetmap

/-! ### validators -/

inductive NodeState | unspecified | online | offline | maintenance
  deriving DecidableEq, Repr

/-- what the individual validators read from a candidate, with external look-ups as answers -/
structure Node where
  state : NodeState
  /-- one entry per announced endpoint: it parses as a multiaddress with 2..3 protocols,
      dns/ip4/ip6 then tcp then optional tls (`network.VerifyMultiAddress`); an empty endpoint
      list passes -/
  addrsOk : List Bool
  /-- attribute keys in order (duplicates are possible in a raw `NodeInfo`) -/
  attrKeys : List String
  /-- availability validator: every endpoint answered `EndpointInfo` with the same node info -/
  reachable : Bool
  /-- verified-nodes domain attribute is set -/
  hasDomain : Bool
  keyPresent : Bool
  /-- NNS answer for the domain record: 0 = record present, 1 = missing record, 2 = other error -/
  nnsAnswer : Nat
  /-- LOCODE attribute is set -/
  hasLocode : Bool
  /-- the locode database knows the code -/
  locodeKnown : Bool
  /-- the six derived attributes (country code/name, location, continent, subdivision
      code/name) equal the database record -/
  locodeFields : List Bool
  /-- external validator's verdict (when configured) -/
  externalOk : Bool
  deriving Repr

/-- the validators the inner ring composes (innerring.go) -/
inductive V | state | structure | availability | privateDomains | locode | external
  deriving DecidableEq, Repr

def nodup : List String → Bool
  | [] => true
  | a :: r => !r.contains a && nodup r

/-- `Verify` of one validator: `true` = no error -/
def V.ok (n : Node) : V → Bool
  | .state => n.state == .online || n.state == .maintenance
  | .structure => n.addrsOk.all id && nodup n.attrKeys
  | .availability => n.reachable
  | .privateDomains => !n.hasDomain || (n.keyPresent && n.nnsAnswer == 0)
  | .locode => !n.hasLocode || (n.locodeKnown && n.locodeFields.all id)
  | .external => n.externalOk

/-- `CompositeValidator.Verify`: index of the first validator that returns an error -/
def firstError (n : Node) : List V → Nat → Option Nat
  | [], _ => none
  | v :: r, i => if v.ok n then firstError n r (i + 1) else some i

/-- validators actually called (the loop returns at the first error) -/
def calledCount (n : Node) : List V → Nat
  | [] => 0
  | v :: r => if v.ok n then 1 + calledCount n r else 1

inductive Outcome | ignored | badScript | badNode | rejected (by_ : Nat) | approved
  deriving DecidableEq, Repr

/-- `processAddNode` -/
def processAddNode (alphabet scriptHalts convertible : Bool) (vs : List V) (n : Node) : Outcome :=
  if !alphabet then .ignored
  else if !scriptHalts then .badScript
  else if !convertible then .badNode
  else match firstError n vs 0 with
    | some i => .rejected i
    | none => .approved

/-- `processUpdatePeer` -/
def processUpdatePeer (alphabet : Bool) : Outcome := if alphabet then .approved else .ignored

/-! ### epochs -/

structure St where
  counter : Nat            -- `epochState.EpochCounter()`
  alphabet : Bool
  timerResets : Nat        -- number of `ResetEpochTimer` calls
  deriving DecidableEq, Repr

inductive Ev
  | tick                         -- the epoch timer fired (`HandleNewEpochTick`)
  | newEpoch (e : Nat)           -- `NewEpoch` notification of the contract
  | setAlphabet (b : Bool)       -- the node entered / left the alphabet
  deriving DecidableEq, Repr

/-- one event: the new state and the `NewEpoch(e)` invocations sent to the contract -/
def step (s : St) : Ev → St × List Nat
  | .tick => (s, if s.alphabet then [s.counter + 1] else [])
  | .newEpoch e => ({ s with counter := e, timerResets := s.timerResets + 1 }, [])
  | .setAlphabet b => ({ s with alphabet := b }, [])

def run (s : St) : List Ev → St × List Nat
  | [] => (s, [])
  | e :: r =>
    let (s1, o1) := step s e
    let (s2, o2) := run s1 r
    (s2, o1 ++ o2)

/-- the chain as the contract behaves when this node's request is the one executed: every
    request for `counter + 1` is applied and notified back at once -/
def runApplied (s : St) : List Ev → St
  | [] => s
  | .tick :: r =>
    if s.alphabet then runApplied { s with counter := s.counter + 1, timerResets := s.timerResets + 1 } r
    else runApplied s r
  | .newEpoch e :: r => runApplied { s with counter := e, timerResets := s.timerResets + 1 } r
  | .setAlphabet b :: r => runApplied { s with alphabet := b } r

end NeoFS.IRNetmap
