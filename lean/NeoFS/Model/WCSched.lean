/-
Model of the write-cache's background flush scheduler (`flushScheduler` in `writecache/flush.go`): one PASS takes the
snapshot of the counters, drops the addresses already marked in `flushObjs`, sorts by size and cuts batches:

* every visited address is marked in `flushObjs` first;
* an object larger than `thr` (`maxFlushBatchThreshold`) first forces the open batch out, then goes alone;
* the open batch goes out when it has `maxCount` objects, more than `maxSize` bytes, or the address is the last one;
* "goes out" is a select: a worker takes the batch (`true`), or an error signal of a worker arrives first (`false`):
  then the scheduler removes the markers of the addresses queued in the open batch and ends the pass (10 s back-off).
  `fixed = true` is the repaired code, which also removes the marker of the address being visited (it is marked but,
  when the open batch is forced out before it, not queued yet); `fixed = false` is the code before the repair.

`Sys` is the bookkeeping around passes: cached addresses with sizes, the marker set, the jobs handed to workers.
A worker job ends by clearing the markers of ITS addresses whatever the outcome (`flushWorker`), and removes its
addresses from the cache if the main storage accepted them (`flushSingle`/`flushBatch`, see Model/WCFlush.lean).
Core Lean only.
-/
namespace NeoFS.WCSched

abbrev Addr := Nat

structure Cfg where
  thr : Nat
  maxCount : Nat
  maxSize : Nat
  deriving Repr, DecidableEq

/-- result of one pass -/
structure Res where
  marked : List Addr := []          -- addresses the pass stored in `flushObjs`
  sent : List (List Addr) := []     -- batches handed to workers, in order
  unmarked : List Addr := []        -- markers the scheduler removed itself on the error path
  aborted : Bool := false
  deriving Repr, DecidableEq

/-- the select that hands a batch over; an exhausted oracle means "a worker takes it" -/
def takes : List Bool → Bool × List Bool
  | [] => (true, [])
  | x :: xs => (x, xs)

/-- the `addrLoop` of `flushScheduler` over the sorted candidates; `b`/`bs` = the open batch and its size -/
def cut (cfg : Cfg) (fixed : Bool) : List (Addr × Nat) → List Addr → Nat → List Bool → Res → Res
  | [], _, _, _, r => r
  | (a, sz) :: rest, b, bs, o, r =>
    let r := { r with marked := r.marked ++ [a] }
    let big := decide (sz > cfg.thr)
    -- `flushB = addrs[addr] > threshold && len(b) != 0`: force the open batch out before a big object
    let pre : Option (List Addr × Nat × List Bool × Res) :=
      if big && !b.isEmpty then
        let (ok, o') := takes o
        if ok then some ([], 0, o', { r with sent := r.sent ++ [b] })
        else none
      else some (b, bs, o, r)
    match pre with
    | none => { r with unmarked := r.unmarked ++ b ++ (if fixed then [a] else []), aborted := true }
    | some (b, bs, o, r) =>
      let b := b ++ [a]
      let bs := bs + sz
      if big || decide (b.length ≥ cfg.maxCount) || decide (bs > cfg.maxSize) || rest.isEmpty then
        let (ok, o') := takes o
        if ok then cut cfg fixed rest [] 0 o' { r with sent := r.sent ++ [b] }
        else { r with unmarked := r.unmarked ++ b, aborted := true }
      else cut cfg fixed rest b bs o r

def pass (cfg : Cfg) (fixed : Bool) (cands : List (Addr × Nat)) (oracle : List Bool) : Res :=
  cut cfg fixed cands [] 0 oracle {}

/-- The loop as it was BEFORE the two repairs, with the open batch as the window `arr[lo:hi]` of the sorted array
(`b = sortedAddrs[i:i]`, `b = b[:len(b)+1]`): after a batch that contains the current address is sent, the window
restarts AT the current index instead of after it, and the error path unmarks only the window. -/
def cutOrig (cfg : Cfg) (arr : List Addr) : List (Addr × Nat) → (i lo hi bs : Nat) → List Bool → Res → Res
  | [], _, _, _, _, _, r => r
  | (a, sz) :: rest, i, lo, hi, bs, o, r =>
    let window := fun (lo hi : Nat) => (arr.drop lo).take (hi - lo)
    let r := { r with marked := r.marked ++ [a] }
    let big := decide (sz > cfg.thr)
    let pre : Option (Nat × Nat × Nat × List Bool × Res) :=
      if big && decide (hi - lo ≠ 0) then
        let (ok, o') := takes o
        if ok then some (i, i, 0, o', { r with sent := r.sent ++ [window lo hi] })
        else none
      else some (lo, hi, bs, o, r)
    match pre with
    | none => { r with unmarked := r.unmarked ++ window lo hi, aborted := true }
    | some (lo, hi, bs, o, r) =>
      let hi := hi + 1
      let bs := bs + sz
      if big || decide (hi - lo ≥ cfg.maxCount) || decide (bs > cfg.maxSize) || rest.isEmpty then
        let (ok, o') := takes o
        if ok then cutOrig cfg arr rest (i + 1) i i 0 o' { r with sent := r.sent ++ [window lo hi] }
        else { r with unmarked := r.unmarked ++ window lo hi, aborted := true }
      else cutOrig cfg arr rest (i + 1) lo hi bs o r

def passOrig (cfg : Cfg) (cands : List (Addr × Nat)) (oracle : List Bool) : Res :=
  cutOrig cfg (cands.map (·.1)) cands 0 0 0 0 oracle {}

/-- markers left behind by a pass with nobody responsible for them -/
def leaked (r : Res) : List Addr := r.marked.filter fun a => !(r.sent.flatten.contains a) && !(r.unmarked.contains a)

/-! ### bookkeeping around passes -/

structure Sys where
  cache : List (Addr × Nat) := []     -- accounted objects (address, size)
  inflight : List Addr := []          -- `flushObjs`
  jobs : List (List Addr) := []       -- batches handed to workers and not finished yet
  deriving Repr, DecidableEq

def insertBySize (x : Addr × Nat) : List (Addr × Nat) → List (Addr × Nat)
  | [] => [x]
  | y :: ys => if x.2 ≤ y.2 then x :: y :: ys else y :: insertBySize x ys

def sortBySize (l : List (Addr × Nat)) : List (Addr × Nat) := l.foldr insertBySize []

/-- the candidates of a pass: accounted, not marked, ascending size -/
def candidates (s : Sys) : List (Addr × Nat) := sortBySize (s.cache.filter fun p => !s.inflight.contains p.1)

def removeAll (l : List Addr) (xs : List Addr) : List Addr := l.filter fun a => !xs.contains a

inductive Op
  | put (a : Addr) (sz : Nat)                  -- a new object is accounted (a known address keeps its entry)
  | pass (oracle : List Bool)                  -- one scheduler pass
  | finish (i : Nat) (storageOK : Bool)        -- the i-th running job ends
  deriving Repr, DecidableEq

def stepSys (cfg : Cfg) (fixed : Bool) (s : Sys) : Op → Sys
  | .put a sz => if s.cache.any (fun p => p.1 == a) then s else { s with cache := s.cache ++ [(a, sz)] }
  | .pass oracle =>
    let r := pass cfg fixed (candidates s) oracle
    { s with inflight := removeAll (s.inflight ++ r.marked) r.unmarked, jobs := s.jobs ++ r.sent }
  | .finish i ok =>
    match s.jobs[i]? with
    | none => s
    | some j =>
      { cache := if ok then s.cache.filter (fun p => !j.contains p.1) else s.cache,
        inflight := removeAll s.inflight j,
        jobs := s.jobs.eraseIdx i }

def runSys (cfg : Cfg) (fixed : Bool) (s : Sys) (ops : List Op) : Sys := ops.foldl (stepSys cfg fixed) s

/-! ### the address buffers behind the batches

A batch handed to a worker is not a copy: it is a WINDOW of the pass's sorted-address array (`b = sortedAddrs[i:i]`,
`b = b[:len(b)+1]`). The worker reads the window when it starts (what it flushes) and AGAIN when it is done
(`for _, addr := range addrs { c.flushObjs.Delete(addr) }`), possibly many scheduler passes later: a worker can sit in
its main-storage put while the scheduler runs further passes over other objects. `BSys` keeps the arrays: a job is
(`given` = what the window held at the hand-over, buffer, offset); `window` is what the array holds there NOW.
`reuse = false` is the code: every pass allocates its array (`var sortedAddrs []oid.Address` inside the loop);
`reuse = true` keeps one array between the passes (`sortedAddrs = sortedAddrs[:0]`, idealised: never reallocated). -/

structure Job where
  given : List Addr
  buf : Nat
  lo : Nat
  deriving Repr, DecidableEq

structure BSys where
  cache : List (Addr × Nat) := []
  inflight : List Addr := []
  bufs : List (List Addr) := []       -- the address arrays of the passes so far
  jobs : List Job := []
  deriving Repr, DecidableEq

/-- what the job's window of its array holds now -/
def window (bufs : List (List Addr)) (j : Job) : List Addr := ((bufs.getD j.buf []).drop j.lo).take j.given.length

/-- the batches of one pass as consecutive windows of the pass's array -/
def windows (buf : Nat) : Nat → List (List Addr) → List Job
  | _, [] => []
  | lo, b :: bs => { given := b, buf := buf, lo := lo } :: windows buf (lo + b.length) bs

/-- appending `arr` to the kept array cut to length 0: the front is overwritten, the rest keeps its old content -/
def overwrite (old arr : List Addr) : List Addr := arr ++ old.drop arr.length

/-- forgetting the arrays -/
def toSys (s : BSys) : Sys := { cache := s.cache, inflight := s.inflight, jobs := s.jobs.map (·.given) }

def stepB (cfg : Cfg) (reuse : Bool) (s : BSys) : Op → BSys
  | .put a sz => if s.cache.any (fun p => p.1 == a) then s else { s with cache := s.cache ++ [(a, sz)] }
  | .pass oracle =>
    let cands := candidates (toSys s)
    let r := pass cfg true cands oracle
    let arr := cands.map (·.1)
    let bufs := if reuse then [overwrite (s.bufs.getD 0 []) arr] else s.bufs ++ [arr]
    let id := if reuse then 0 else s.bufs.length
    { s with inflight := removeAll (s.inflight ++ r.marked) r.unmarked, bufs := bufs, jobs := s.jobs ++ windows id 0 r.sent }
  | .finish i ok =>
    match s.jobs[i]? with
    | none => s
    | some j =>
      -- flushed: the addresses read at the start; unmarked: the addresses read at the end
      { s with cache := if ok then s.cache.filter (fun p => !j.given.contains p.1) else s.cache,
               inflight := removeAll s.inflight (window s.bufs j),
               jobs := s.jobs.eraseIdx i }

def runB (cfg : Cfg) (reuse : Bool) (s : BSys) (ops : List Op) : BSys := ops.foldl (stepB cfg reuse) s

end NeoFS.WCSched
