/-
The GET relay of the object service (C29, engine `rpc`, op `relay`): `Server.Get` on a container node that does not
hold the object asks other container nodes and copies their answer to the client
(`convertGetPrm`'s transport function, `getProxyContext.continueWithConn / validateEOF / handleGetResponse /
handleResponseBody / handleInitResponse / handleChunkResponse` in pkg/services/object/get.go, `chunkBoundsToSend`,
and `processNode` in pkg/services/object/get/remote.go).

When the request-time eACL check was inconclusive (`aclsvc.ErrNotMatched`: the rules filter by object header and
the server had no header), `recheckEACL` is set and the eACL is evaluated again on the first heading part that
arrives. `suppressInit` (= the client asked for `payload_only`) drops the heading part from the answer; the server
still asks the remote node for it.

One `getProxyContext` serves all connections of a request: `onceHdr` (a `sync.Once`) and the count of payload bytes
already sent survive a connection that broke; `headWas` and the bytes read are per connection. A connection ends
the request when it completes or fails with an API status (access denied); any other failure (`incorrect message
sequence`, a stream that ends early) moves on to the next node; when no node is left the answer is "not found".

Core Lean only.
-/
namespace NeoFS.GetRelay

/-- A message of a remote node's answer: the heading part or a payload chunk of `n` bytes. -/
inductive Msg
  | init
  | chunk (n : Nat)
  deriving DecidableEq, Repr

/-- Outcome of the header-time eACL evaluation. (With the header at hand the verdict of the SDK validator is
final; "no rule matched" is an answer of the request-time evaluation only and is what sets `recheck`.) -/
inductive Verdict | pass | deny
  deriving DecidableEq, Repr

structure Cfg where
  recheck : Bool        -- getStream.recheckEACL
  suppressInit : Bool   -- getProxyContext.suppressInit = body.payload_only
  hdr : Verdict         -- what the eACL says about the object's header
  plen : Nat            -- payload length announced by the header (payloadLenCheck)
  deriving Repr

/-- What happens, in order: evaluations of the eACL against the header and messages written to the client. -/
inductive Ev
  | check (v : Verdict)
  | sendInit
  | sendChunk (n : Nat)
  deriving DecidableEq, Repr

def Ev.isData : Ev → Bool
  | .check _ => false
  | _ => true

/-- an evaluation that did not deny -/
def Ev.isGoodCheck : Ev → Bool
  | .check v => v != .deny
  | _ => false

structure St where
  onceDone : Bool := false     -- onceHdr has fired
  responded : Nat := 0         -- respondedPayload
  trace : List Ev := []        -- oldest first
  deriving DecidableEq, Repr

inductive Stop
  | denied          -- eACLErr: an API status, ends the request
  | broken          -- "incorrect message sequence" / unexpected end of stream: this connection is given up
  deriving DecidableEq, Repr

/-- `handleInitResponse` after the heading part was parsed and matched against the requested ID. The once is
consumed also when the evaluation denies. -/
def onInit (c : Cfg) (s : St) : St × Bool :=
  if s.onceDone then (s, true)
  else
    let s := { s with onceDone := true }
    if c.recheck then
      let s := { s with trace := s.trace ++ [.check c.hdr] }
      if c.hdr == .deny then (s, false)
      else if c.suppressInit then (s, true)
      else ({ s with trace := s.trace ++ [.sendInit] }, true)
    else if c.suppressInit then (s, true)
    else ({ s with trace := s.trace ++ [.sendInit] }, true)

/-- `handleChunkResponse` + `chunkBoundsToSend`: of a chunk that covers payload positions `[read, read+n)` only the
part not yet sent to the client (`≥ responded`) is sent. -/
def onChunk (s : St) (read n : Nat) : St :=
  let fresh := (read + n) - (max read s.responded)
  if fresh == 0 then s
  else { s with responded := s.responded + fresh, trace := s.trace ++ [.sendChunk fresh] }

/-- One connection: `headWas` and the number of payload bytes read on THIS connection are local to it; at the end
of the stream `validateEOF` wants a heading part and the whole announced payload. -/
def conn (c : Cfg) : St → Bool → Nat → List Msg → St × Option Stop
  | s, headWas, _, [] =>
    if !headWas then (s, some .broken)
    else if c.plen > 0 && s.responded < c.plen then (s, some .broken)
    else (s, none)
  | s, headWas, read, .init :: r =>
    if headWas then (s, some .broken)
    else match onInit c s with
      | (s', true) => conn c s' true read r
      | (s', false) => (s', some .denied)
  | s, headWas, read, .chunk n :: r =>
    if !headWas then (s, some .broken)
    else conn c (onChunk s read n) true (read + n) r

inductive Res | done | denied | notFound
  deriving DecidableEq, Repr

/-- All connections of a request, in the order the nodes are asked. -/
def run (c : Cfg) : St → List (List Msg) → St × Res
  | s, [] => (s, .notFound)
  | s, m :: rest =>
    match conn c s false 0 m with
    | (s', none) => (s', .done)
    | (s', some .denied) => (s', .denied)
    | (s', some .broken) => run c s' rest

def sentBytes (s : St) : Nat := (s.trace.map fun | .sendChunk n => n | _ => 0).sum

def sentInits (s : St) : Nat := (s.trace.filter (· == .sendInit)).length

/-- `checked ch t`: an evaluation that did not deny happened before (`ch`) or inside `t`. -/
def checked (ch : Bool) (t : List Ev) : Bool := ch || t.any Ev.isGoodCheck

/-- Every message to the client in `t` comes after an evaluation that did not deny. -/
def okFrom : Bool → List Ev → Bool
  | _, [] => true
  | ch, .check v :: r => okFrom (ch || v != .deny) r
  | ch, _ :: r => ch && okFrom ch r

/-! ## The object lies in the server's own storage

`Server.Get` hands the storage a header interceptor (`checkHeaderBinaryFn`) when `recheckEACL` is set; the storage
calls it with the header before it gives out the stream, and a refusal fails the read. -/
def localGet (c : Cfg) : List Ev × Res :=
  let pre := if c.recheck then [Ev.check c.hdr] else []
  if c.recheck && c.hdr == .deny then (pre, .denied)
  else
    (pre ++ (if c.suppressInit then [] else [Ev.sendInit]) ++ (if c.plen > 0 then [Ev.sendChunk c.plen] else []), .done)

end NeoFS.GetRelay
