/-
Control skeletons of RPC handlers (DESIGN.md §5.1 "Control skeletons", §9 C29/C32/C45, Appendix A `Prog`).

`harness/extract` abstracts every handler body of the object service and of the two control services into a
term of the small language `Prog` below (regenerated into `NeoFS/Gen/Handlers.lean` on every check run).
This file is the hand-written, core-only part:

* the language and its nondeterministic big-step semantics `Run` (what sequences of check calls, check results,
  branch decisions and effects a handler can perform; loops run any number of times);
* an executable checker `post` (exact collecting semantics over the finite set of reachable knowledge vectors,
  loop invariants are computed with fuel and then *verified*, so the proof never relies on the fuel);
* the once-proved soundness theorem `post_sound` / `checker_sound`: if the checker accepts a term under a
  policy, then on EVERY run of the term, every effect happens in a state the policy allows.

A state is the outcome of the latest call of every check (`pass`, `soft` = a non-fatal sentinel such as
"no eACL rule matched", `deny`), absent = not called on this run. `chk t` calls check `t` (any outcome the
oracle `ω` permits), `asm t allowed` is a branch of the handler that the source takes only when the latest
outcome of `t` is in `allowed` (the translator derives it from the branch condition), `set/copy/forget` move
the result of an inlined helper into the caller's variable (`Tag.aux n`), `eff e` is a call classified as an
effect, `scope/exit k` encode `return`, `break`, `continue` and the return of an inlined helper.
-/
namespace NeoFS.Handlers

inductive Out | pass | soft | deny
  deriving DecidableEq, Repr

/-- Checks, by role (the translator's table maps resolved callees to these). -/
inductive Tag
  | sig      -- request signature chain verification (icrypto.VerifyRequestSignatures*)
  | maint    -- FSChain.LocalNodeUnderMaintenance (deny = node is in maintenance)
  | token    -- ACLInfoExtractor.Verify{Session,SessionV1,Bearer}TokenMessage
  | reqInfo  -- ACLInfoExtractor.*RequestToInfo (soft = ErrSkipRequest)
  | basic    -- ACLChecker.CheckBasicACL
  | sticky   -- ACLChecker.StickyBitCheck
  | eacl     -- ACLChecker.CheckEACL (soft = ErrNotMatched)
  | objSig   -- Replicate: object signature verification
  | cnrSrv   -- Replicate: container node iteration for the local node
  | cnrCli   -- Replicate: container node iteration for the requester
  | ctlSig   -- control services: neofscrypto.Signature.Verify over the signed request body
  | aux (n : Nat)  -- result of an inlined package-local helper (translator-generated)
  deriving DecidableEq, Repr

/-- Effect classes. -/
inductive Eff
  | storage  -- reaches the local object storage / metadata service / object handlers
  | forward  -- opens or uses a connection to another node
  | data     -- writes a data-carrying message into the response stream (grpc SendMsg)
  | putCont  -- continues/closes an object PUT stream opened earlier (Streamer.SendChunk/Close)
  | respond  -- sends/constructs a typed response (also used for status-only answers)
  | ctl      -- control plane: any call into the node state / engine / notary manager / health checker
  deriving DecidableEq, Repr

inductive Prog
  | skip
  | chk (t : Tag)
  | set (t : Tag) (o : Out)
  | copy (dst src : Tag)
  | forget (t : Tag)
  | asm (t : Tag) (allowed : List Out)
  | eff (e : Eff)
  | seq (a b : Prog)
  | alt (a b : Prog)
  | loop (body : Prog)
  | scope (body : Prog)
  | exit (k : Nat)
  deriving Repr

/-! ## States -/

/-- Position of a tag in a state word. -/
def Tag.idx : Tag → Nat
  | .sig => 0 | .maint => 1 | .token => 2 | .reqInfo => 3 | .basic => 4 | .sticky => 5 | .eacl => 6
  | .objSig => 7 | .cnrSrv => 8 | .cnrCli => 9 | .ctlSig => 10 | .aux n => 11 + n

def Out.code : Out → Nat
  | .pass => 1 | .soft => 2 | .deny => 3

/-- A state is a finite map Tag → Out, packed two bits per tag into one natural number (0 = not called,
1 = pass, 2 = soft, 3 = deny) so that the kernel compares and updates states with its built-in
big-number arithmetic. Nothing in the soundness proof depends on the encoding. -/
abbrev St := Nat

def St.init : St := 0

def St.get (s : St) (t : Tag) : Option Out :=
  match (s >>> (2 * t.idx)) % 4 with
  | 0 => none
  | 1 => some .pass
  | 2 => some .soft
  | _ => some .deny

def St.erase (s : St) (t : Tag) : St :=
  s - (((s >>> (2 * t.idx)) % 4) <<< (2 * t.idx))

def St.put (s : St) (t : Tag) (o : Out) : St :=
  St.erase s t + (o.code <<< (2 * t.idx))

inductive Event
  | check (t : Tag) (o : Out)
  | assign (t : Tag) (o : Option Out)
  | effect (e : Eff)
  deriving DecidableEq, Repr

def applyEv (s : St) : Event → St
  | .check t o => s.put t o
  | .assign t (some o) => s.put t o
  | .assign t none => s.erase t
  | .effect _ => s

def runEv (s : St) (evs : List Event) : St := evs.foldl applyEv s

theorem runEv_append (s : St) (a b : List Event) : runEv s (a ++ b) = runEv (runEv s a) b := by
  simp [runEv, List.foldl_append]

/-- A policy says in which states an effect of a class may happen. -/
abbrev Policy := Eff → St → Bool

/-- A policy written over the plain reading of a state: `g t` = latest outcome of check `t`, `none` = not
called. (`Lemmas/Handlers.lean` proves that the packed state is exactly that finite map.) -/
def Policy.ofView (π : Eff → (Tag → Option Out) → Bool) : Policy := fun e s => π e (fun t => s.get t)

/-- Every effect of the event sequence happens in a state (reached from `s`) that the policy allows. -/
def safeFrom (π : Policy) : St → List Event → Bool
  | _, [] => true
  | s, ev :: r => (match ev with | .effect e => π e s | _ => true) && safeFrom π (applyEv s ev) r

theorem safeFrom_append (π : Policy) (s : St) (a b : List Event) :
    safeFrom π s (a ++ b) = (safeFrom π s a && safeFrom π (runEv s a) b) := by
  induction a generalizing s with
  | nil => simp [safeFrom, runEv]
  | cons ev r ih => simp [safeFrom, runEv, ih, Bool.and_assoc]

/-- The readable form: an effect anywhere in the sequence is allowed in the state built by what precedes it. -/
theorem safeFrom_effect {π : Policy} {s : St} {evs pre post : List Event} {e : Eff}
    (h : safeFrom π s evs = true) (hs : evs = pre ++ Event.effect e :: post) : π e (runEv s pre) = true := by
  subst hs
  rw [safeFrom_append] at h
  simp [safeFrom] at h
  exact h.2.1

/-! ## Semantics -/

/-- `Run ω p s evs x`: from state `s` the term can emit `evs` and finish normally (`x = none`) or by leaving
`k+1` enclosing scopes (`x = some k`). `ω t` lists the outcomes check `t` can have. -/
inductive Run (ω : Tag → List Out) : Prog → St → List Event → Option Nat → Prop
  | skip {s} : Run ω .skip s [] none
  | chk {s t o} : o ∈ ω t → Run ω (.chk t) s [.check t o] none
  | set {s t o} : Run ω (.set t o) s [.assign t (some o)] none
  | copy {s d src} : Run ω (.copy d src) s [.assign d (s.get src)] none
  | forget {s t} : Run ω (.forget t) s [.assign t none] none
  | asm {s t al} : (∀ o, s.get t = some o → o ∈ al) → Run ω (.asm t al) s [] none
  | eff {s e} : Run ω (.eff e) s [.effect e] none
  | seqN {a b s e1 e2 x} : Run ω a s e1 none → Run ω b (runEv s e1) e2 x → Run ω (.seq a b) s (e1 ++ e2) x
  | seqX {a b s e1 k} : Run ω a s e1 (some k) → Run ω (.seq a b) s e1 (some k)
  | altL {a b s e x} : Run ω a s e x → Run ω (.alt a b) s e x
  | altR {a b s e x} : Run ω b s e x → Run ω (.alt a b) s e x
  | loopDone {b s} : Run ω (.loop b) s [] none
  | loopStep {b s e1 e2 x} : Run ω b s e1 none → Run ω (.loop b) (runEv s e1) e2 x → Run ω (.loop b) s (e1 ++ e2) x
  | loopExit {b s e1 k} : Run ω b s e1 (some k) → Run ω (.loop b) s e1 (some k)
  | scopeN {b s e} : Run ω b s e none → Run ω (.scope b) s e none
  | scope0 {b s e} : Run ω b s e (some 0) → Run ω (.scope b) s e none
  | scopeS {b s e k} : Run ω b s e (some (k + 1)) → Run ω (.scope b) s e (some k)
  | exit {s k} : Run ω (.exit k) s [] (some k)

/-! ## Checker

Configurations are single natural numbers `state * 64 + code` (`code = 0`: finished normally, `code = k+1`:
leaving `k+1` scopes) and sets of configurations are duplicate-free lists compared with `Nat.beq`, so that the
kernel evaluates the checker with built-in arithmetic only. -/

def cfg (x : Option Nat) (s : St) : Nat :=
  s * 64 + (match x with | none => 0 | some k => k + 1)

def memN (a : Nat) : List Nat → Bool
  | [] => false
  | b :: r => Nat.beq a b || memN a r

theorem memN_iff {a : Nat} {l : List Nat} : memN a l = true ↔ a ∈ l := by
  induction l with
  | nil => simp [memN]
  | cons b r ih =>
    simp only [memN, Bool.or_eq_true, ih, List.mem_cons]
    constructor
    · intro h
      rcases h with h | h
      · exact Or.inl (Nat.eq_of_beq_eq_true h)
      · exact Or.inr h
    · intro h
      rcases h with h | h
      · subst h; exact Or.inl (Nat.beq_refl a)
      · exact Or.inr h

def insertN (a : Nat) (l : List Nat) : List Nat := if memN a l then l else a :: l

def unionN (a b : List Nat) : List Nat := b.foldl (fun acc x => insertN x acc) a

theorem mem_insertN {a x : Nat} {l : List Nat} : x ∈ insertN a l ↔ x = a ∨ x ∈ l := by
  unfold insertN
  split
  · rename_i h
    have := memN_iff.mp h
    constructor
    · intro h; exact Or.inr h
    · intro h; cases h with
      | inl h => subst h; assumption
      | inr h => exact h
  · simp

theorem mem_unionN {x : Nat} {a b : List Nat} : x ∈ unionN a b ↔ x ∈ a ∨ x ∈ b := by
  unfold unionN
  induction b generalizing a with
  | nil => simp
  | cons y r ih =>
    simp only [List.foldl_cons, List.mem_cons]
    rw [ih, mem_insertN]
    constructor
    · intro h
      rcases h with (h | h) | h
      · exact Or.inr (Or.inl h)
      · exact Or.inl h
      · exact Or.inr (Or.inr h)
    · intro h
      rcases h with h | h | h
      · exact Or.inl (Or.inr h)
      · exact Or.inl (Or.inl h)
      · exact Or.inr h

/-- Continue every normally finished configuration with `f`, keep the exiting ones. `none` = violation. -/
def bindCfgs (f : St → Option (List Nat)) : List Nat → Option (List Nat)
  | [] => some []
  | c :: r =>
    if c % 64 = 0 then
      match f (c / 64), bindCfgs f r with
      | some a, some b => some (unionN a b)
      | _, _ => none
    else
      match bindCfgs f r with
      | some b => some (insertN c b)
      | none => none

def descope (c : Nat) : Nat := if c % 64 = 0 then c else c - 1

def normals : List Nat → List St
  | [] => []
  | c :: r => if c % 64 = 0 then (c / 64) :: normals r else normals r

def exits : List Nat → List Nat
  | [] => []
  | c :: r => if c % 64 = 0 then exits r else c :: exits r

/-- Worklist exploration of the loop-head states: every state is expanded once; when the worklist is empty
the set of expanded states is closed under the body (proved below: `explore_closed`). -/
def explore (f : St → Option (List Nat)) : Nat → List St → List St → List Nat → Option (List St × List Nat)
  | 0, _, _, _ => none
  | _ + 1, seen, [], ex => some (seen, ex)
  | n + 1, seen, s :: todo, ex =>
    if memN s seen then explore f n seen todo ex
    else match f s with
      | none => none
      | some cs => explore f n (s :: seen) (normals cs ++ todo) (unionN ex (exits cs))

def loopFuel : Nat := 4096

def allMem (l I : List Nat) : Bool := l.all fun s => memN s I

/-- Loop from state `s`: if one iteration of the body can only come back to `s` itself, `{s}` is the invariant
(the common case, one evaluation of the body); otherwise the reachable loop-head states are explored. -/
def loopPost (f : St → Option (List Nat)) (s : St) : Option (List Nat) :=
  match f s with
  | none => none
  | some cs =>
    if allMem (normals cs) [s] then some (insertN (s * 64) (exits cs))
    else match explore f loopFuel [] [s] [] with
      | none => none
      | some (I, E) => some (I.map (fun s => s * 64) ++ E)

def memOut (o : Out) : List Out → Bool
  | [] => false
  | x :: r => Nat.beq o.code x.code || memOut o r

theorem memOut_of_mem {o : Out} {l : List Out} (h : o ∈ l) : memOut o l = true := by
  induction l with
  | nil => cases h
  | cons x r ih =>
    simp only [memOut, Bool.or_eq_true]
    rcases List.mem_cons.mp h with h | h
    · subst h; exact Or.inl (Nat.beq_refl _)
    · exact Or.inr (ih h)

/-- All configurations the term can finish in from `s`; `none` as soon as an effect is not allowed by `π`
(or a loop invariant could not be established, or an exit is deeper than 62 scopes). -/
def post (ω : Tag → List Out) (π : Policy) : Prog → St → Option (List Nat)
  | .skip, s => some [s * 64]
  | .chk t, s => some ((ω t).map fun o => (s.put t o) * 64)
  | .set t o, s => some [(s.put t o) * 64]
  | .copy d src, s => some [(applyEv s (.assign d (s.get src))) * 64]
  | .forget t, s => some [(s.erase t) * 64]
  | .asm t al, s =>
    match s.get t with
    | some o => if memOut o al then some [s * 64] else some []
    | none => some [s * 64]
  | .eff e, s => if π e s then some [s * 64] else none
  | .seq a b, s =>
    match post ω π a s with
    | some cs => bindCfgs (post ω π b) cs
    | none => none
  | .alt a b, s =>
    match post ω π a s, post ω π b s with
    | some x, some y => some (unionN x y)
    | _, _ => none
  | .loop b, s => loopPost (post ω π b) s
  | .scope b, s =>
    match post ω π b s with
    | some cs => some (cs.map descope)
    | none => none
  | .exit k, s => if k < 62 then some [s * 64 + (k + 1)] else none

def allOuts : Tag → List Out := fun _ => [.pass, .soft, .deny]

/-- The checker of the "programs" properties: the handler term never performs an effect the policy forbids. -/
def checker (π : Policy) (p : Prog) : Bool := (post allOuts π p St.init).isSome

/-! ## Soundness -/

theorem cfg_none (s : St) : cfg none s = s * 64 := by simp [cfg]

theorem cfg_mod_none (s : St) : cfg none s % 64 = 0 := by simp [cfg]

theorem cfg_div_none (s : St) : cfg none s / 64 = s := by simp [cfg]

theorem cfg_mod_some {k : Nat} (s : St) (hk : k < 63) : cfg (some k) s % 64 ≠ 0 := by
  simp only [cfg]; omega

theorem bindCfgs_sound {f : St → Option (List Nat)} {cs out : List Nat} (h : bindCfgs f cs = some out) :
    (∀ s, cfg none s ∈ cs → ∃ a, f s = some a ∧ ∀ c ∈ a, c ∈ out) ∧
    (∀ k s, k < 63 → cfg (some k) s ∈ cs → cfg (some k) s ∈ out) := by
  induction cs generalizing out with
  | nil => simp
  | cons c r ih =>
    simp only [bindCfgs] at h
    split at h
    · rename_i hc
      split at h
      · rename_i a b ha hb
        injection h with h; subst h
        obtain ⟨ih1, ih2⟩ := ih hb
        constructor
        · intro s hs
          rcases List.mem_cons.mp hs with hs | hs
          · subst hs
            rw [cfg_div_none] at ha
            exact ⟨a, ha, fun c hc => mem_unionN.mpr (Or.inl hc)⟩
          · obtain ⟨a', ha', hsub⟩ := ih1 s hs
            exact ⟨a', ha', fun c hc => mem_unionN.mpr (Or.inr (hsub c hc))⟩
        · intro k s hk hs
          rcases List.mem_cons.mp hs with hs | hs
          · subst hs; exact absurd hc (cfg_mod_some s hk)
          · exact mem_unionN.mpr (Or.inr (ih2 k s hk hs))
      · exact absurd h (by simp)
    · rename_i hc
      split at h
      · rename_i b hb
        injection h with h; subst h
        obtain ⟨ih1, ih2⟩ := ih hb
        constructor
        · intro s hs
          rcases List.mem_cons.mp hs with hs | hs
          · subst hs; exact absurd (cfg_mod_none s) hc
          · obtain ⟨a', ha', hsub⟩ := ih1 s hs
            exact ⟨a', ha', fun c hc => mem_insertN.mpr (Or.inr (hsub c hc))⟩
        · intro k s _ hs
          rcases List.mem_cons.mp hs with hs | hs
          · exact mem_insertN.mpr (Or.inl hs)
          · exact mem_insertN.mpr (Or.inr (ih2 k s ‹_› hs))
      · exact absurd h (by simp)

/-- Exit depths the checker accepts. -/
def okExit : Option Nat → Prop
  | none => True
  | some k => k < 62

theorem mem_normals {s : St} {cs : List Nat} (h : cfg none s ∈ cs) : s ∈ normals cs := by
  induction cs with
  | nil => cases h
  | cons c r ih =>
    simp only [normals]
    rcases List.mem_cons.mp h with h | h
    · subst h
      rw [if_pos (cfg_mod_none s), cfg_div_none]
      exact List.mem_cons_self
    · split
      · exact List.mem_cons_of_mem _ (ih h)
      · exact ih h

theorem mem_exits {k : Nat} {s : St} {cs : List Nat} (hk : k < 63) (h : cfg (some k) s ∈ cs) :
    cfg (some k) s ∈ exits cs := by
  induction cs with
  | nil => cases h
  | cons c r ih =>
    simp only [exits]
    rcases List.mem_cons.mp h with h | h
    · subst h
      rw [if_neg (cfg_mod_some s hk)]
      exact List.mem_cons_self
    · split
      · exact ih h
      · exact List.mem_cons_of_mem _ (ih h)

/-- Soundness statement for one evaluator of a term (`f = post ω π n p`). -/
def SoundF (ω : Tag → List Out) (π : Policy) (p : Prog) (f : St → Option (List Nat)) : Prop :=
  ∀ s evs x, Run ω p s evs x → ∀ cs, f s = some cs →
    safeFrom π s evs = true ∧ cfg x (runEv s evs) ∈ cs ∧ okExit x

/-- `I` is closed under one more iteration of the body `f` and `E` collects every way of leaving it. -/
def Closed (f : St → Option (List Nat)) (I : List St) (E : List Nat) : Prop :=
  ∀ s ∈ I, ∃ cs, f s = some cs ∧ (∀ s', cfg none s' ∈ cs → s' ∈ I) ∧
    (∀ k s', k < 63 → cfg (some k) s' ∈ cs → cfg (some k) s' ∈ E)

theorem allMem_spec {l I : List Nat} (h : allMem l I = true) {s : Nat} (hs : s ∈ l) : s ∈ I := by
  unfold allMem at h
  rw [List.all_eq_true] at h
  exact memN_iff.mp (h s hs)

theorem explore_closed {f : St → Option (List Nat)} :
    ∀ (n : Nat) (seen todo : List St) (ex : List Nat) (I : List St) (E : List Nat),
      explore f n seen todo ex = some (I, E) →
      (∀ s ∈ seen, ∃ cs, f s = some cs ∧ (∀ s', cfg none s' ∈ cs → s' ∈ seen ∨ s' ∈ todo) ∧
        (∀ k s', k < 63 → cfg (some k) s' ∈ cs → cfg (some k) s' ∈ ex)) →
      (∀ x ∈ seen, x ∈ I) ∧ (∀ x ∈ todo, x ∈ I) ∧ (∀ x ∈ ex, x ∈ E) ∧ Closed f I E := by
  intro n
  induction n with
  | zero => intro seen todo ex I E h; simp [explore] at h
  | succ n ih =>
    intro seen todo ex I E h hinv
    cases todo with
    | nil =>
      simp only [explore] at h
      injection h with h; injection h with h1 h2; subst h1; subst h2
      refine ⟨fun x hx => hx, ?_, fun x hx => hx, ?_⟩
      · intro x hx; cases hx
      intro s hs
      obtain ⟨cs, hcs, hn, hx⟩ := hinv s hs
      refine ⟨cs, hcs, ?_, hx⟩
      intro s' hm
      rcases hn s' hm with h | h
      · exact h
      · cases h
    | cons s todo =>
      simp only [explore] at h
      split at h
      · rename_i hseen
        have hsSeen : s ∈ seen := memN_iff.mp hseen
        have hinv' : ∀ x ∈ seen, ∃ cs, f x = some cs ∧ (∀ s', cfg none s' ∈ cs → s' ∈ seen ∨ s' ∈ todo) ∧
            (∀ k s', k < 63 → cfg (some k) s' ∈ cs → cfg (some k) s' ∈ ex) := by
          intro x hx
          obtain ⟨cs, hcs, hn, hxx⟩ := hinv x hx
          refine ⟨cs, hcs, ?_, hxx⟩
          intro s' hm
          rcases hn s' hm with h | h
          · exact Or.inl h
          · rcases List.mem_cons.mp h with h | h
            · subst h; exact Or.inl hsSeen
            · exact Or.inr h
        obtain ⟨h1, h2, h3, h4⟩ := ih seen todo ex I E h hinv'
        refine ⟨h1, ?_, h3, h4⟩
        intro x hx
        rcases List.mem_cons.mp hx with hx | hx
        · subst hx; exact h1 _ hsSeen
        · exact h2 _ hx
      · split at h
        · exact absurd h (by simp)
        · rename_i cs hcs
          have hinv' : ∀ x ∈ s :: seen, ∃ cs', f x = some cs' ∧
              (∀ s', cfg none s' ∈ cs' → s' ∈ s :: seen ∨ s' ∈ normals cs ++ todo) ∧
              (∀ k s', k < 63 → cfg (some k) s' ∈ cs' → cfg (some k) s' ∈ unionN ex (exits cs)) := by
            intro x hx
            rcases List.mem_cons.mp hx with hx | hx
            · subst hx
              refine ⟨cs, hcs, ?_, ?_⟩
              · intro s' hm
                exact Or.inr (List.mem_append.mpr (Or.inl (mem_normals hm)))
              · intro k s' hk hm
                exact mem_unionN.mpr (Or.inr (mem_exits hk hm))
            · obtain ⟨cs', hcs', hn, hxx⟩ := hinv x hx
              refine ⟨cs', hcs', ?_, ?_⟩
              · intro s' hm
                rcases hn s' hm with h | h
                · exact Or.inl (List.mem_cons_of_mem _ h)
                · rcases List.mem_cons.mp h with h | h
                  · subst h; exact Or.inl List.mem_cons_self
                  · exact Or.inr (List.mem_append.mpr (Or.inr h))
              · intro k s' hk hm
                exact mem_unionN.mpr (Or.inl (hxx k s' hk hm))
          obtain ⟨h1, h2, h3, h4⟩ := ih (s :: seen) (normals cs ++ todo) (unionN ex (exits cs)) I E h hinv'
          refine ⟨fun x hx => h1 x (List.mem_cons_of_mem _ hx), ?_, fun x hx => h3 x (mem_unionN.mpr (Or.inl hx)), h4⟩
          intro x hx
          rcases List.mem_cons.mp hx with hx | hx
          · subst hx; exact h1 _ List.mem_cons_self
          · exact h2 _ (List.mem_append.mpr (Or.inr hx))

theorem loop_inv {ω : Tag → List Out} {π : Policy} {b : Prog} {f : St → Option (List Nat)} (hb : SoundF ω π b f)
    {I : List St} {E : List Nat} (hcl : Closed f I E) :
    ∀ q s evs x, Run ω q s evs x → q = .loop b → s ∈ I →
      safeFrom π s evs = true ∧ okExit x ∧
      (match x with
       | none => runEv s evs ∈ I
       | some k => cfg (some k) (runEv s evs) ∈ E) := by
  intro q s evs x h
  induction h with
  | loopDone => intro _ hs; simpa [safeFrom, runEv, okExit] using hs
  | @loopStep b' s e1 e2 x h1 _ _ ih2 =>
    intro hq hs
    injection hq with hq; subst hq
    obtain ⟨cs, hcs, hn, _⟩ := hcl s hs
    obtain ⟨hsafe1, hmem1, _⟩ := hb s e1 none h1 cs hcs
    have hI := hn _ hmem1
    obtain ⟨hsafe2, hok, hres⟩ := ih2 rfl hI
    refine ⟨?_, hok, ?_⟩
    · rw [safeFrom_append, hsafe1, hsafe2]; rfl
    · rw [runEv_append]; exact hres
  | @loopExit b' s e1 k h1 _ =>
    intro hq hs
    injection hq with hq; subst hq
    obtain ⟨cs, hcs, _, hx⟩ := hcl s hs
    obtain ⟨hsafe1, hmem1, hok⟩ := hb s e1 (some k) h1 cs hcs
    have hk : k < 62 := hok
    exact ⟨hsafe1, hok, hx _ _ (by omega) hmem1⟩
  | skip => intro hq; cases hq
  | chk _ => intro hq; cases hq
  | set => intro hq; cases hq
  | copy => intro hq; cases hq
  | forget => intro hq; cases hq
  | asm _ => intro hq; cases hq
  | eff => intro hq; cases hq
  | seqN _ _ _ _ => intro hq; cases hq
  | seqX _ _ => intro hq; cases hq
  | altL _ _ => intro hq; cases hq
  | altR _ _ => intro hq; cases hq
  | scopeN _ _ => intro hq; cases hq
  | scope0 _ _ => intro hq; cases hq
  | scopeS _ _ => intro hq; cases hq
  | exit => intro hq; cases hq

theorem loopPost_sound {ω : Tag → List Out} {π : Policy} {b : Prog} {f : St → Option (List Nat)}
    (hb : SoundF ω π b f) : SoundF ω π (.loop b) (loopPost f) := by
  intro s evs x h cs hp
  unfold loopPost at hp
  split at hp
  · exact absurd hp (by simp)
  · rename_i cb hcb
    split at hp
    · rename_i hfast
      injection hp with hp; subst hp
      have hcl : Closed f [s] (exits cb) := by
        intro s0 hs0
        have : s0 = s := by simpa using hs0
        subst this
        refine ⟨cb, hcb, ?_, ?_⟩
        · intro s' hm; exact allMem_spec hfast (mem_normals hm)
        · intro k s' hk hm; exact mem_exits hk hm
      obtain ⟨hsafe, hok, hres⟩ := loop_inv hb hcl _ _ _ _ h rfl List.mem_cons_self
      refine ⟨hsafe, ?_, hok⟩
      cases x with
      | none =>
        simp only at hres
        have : runEv s evs = s := by simpa using hres
        rw [cfg_none, this]
        exact mem_insertN.mpr (Or.inl rfl)
      | some k =>
        simp only at hres
        exact mem_insertN.mpr (Or.inr hres)
    · split at hp
      · exact absurd hp (by simp)
      · rename_i I E hex
        injection hp with hp; subst hp
        obtain ⟨_, htodo, _, hcl⟩ := explore_closed loopFuel [] [s] [] I E hex (by intro x hx; cases hx)
        have hsI : s ∈ I := htodo s List.mem_cons_self
        obtain ⟨hsafe, hok, hres⟩ := loop_inv hb hcl _ _ _ _ h rfl hsI
        refine ⟨hsafe, ?_, hok⟩
        cases x with
        | none =>
          simp only at hres
          rw [cfg_none]
          exact List.mem_append.mpr (Or.inl (List.mem_map.mpr ⟨_, hres, rfl⟩))
        | some k =>
          simp only at hres
          exact List.mem_append.mpr (Or.inr hres)

theorem descope_none (s : St) : descope (cfg none s) = cfg none s := by
  simp [descope, cfg]

theorem descope_zero (s : St) : descope (cfg (some 0) s) = cfg none s := by
  have h : cfg (some 0) s % 64 ≠ 0 := cfg_mod_some s (by omega)
  unfold descope
  rw [if_neg h]
  simp only [cfg]; omega

theorem descope_succ (k : Nat) (s : St) (hk : k + 1 < 62) : descope (cfg (some (k + 1)) s) = cfg (some k) s := by
  have h : cfg (some (k + 1)) s % 64 ≠ 0 := cfg_mod_some s (by omega)
  unfold descope
  rw [if_neg h]
  simp only [cfg]; omega

theorem post_sound (ω : Tag → List Out) (π : Policy) : ∀ p, SoundF ω π p (post ω π p) := by
  intro p
  induction p with
  | skip =>
    intro s evs x h cs hp
    cases h
    simp only [post] at hp; injection hp with hp; subst hp
    simp [safeFrom, runEv, cfg, okExit]
  | chk t =>
    intro s evs x h cs hp
    cases h with
    | chk ho =>
      simp only [post] at hp; injection hp with hp; subst hp
      refine ⟨by simp [safeFrom], ?_, trivial⟩
      simp only [runEv, List.foldl, applyEv, cfg_none]
      exact List.mem_map.mpr ⟨_, ho, rfl⟩
  | set t o =>
    intro s evs x h cs hp
    cases h
    simp only [post] at hp; injection hp with hp; subst hp
    simp [safeFrom, runEv, applyEv, cfg, okExit]
  | copy d src =>
    intro s evs x h cs hp
    cases h
    simp only [post] at hp; injection hp with hp; subst hp
    simp [safeFrom, runEv, cfg, okExit]
  | forget t =>
    intro s evs x h cs hp
    cases h
    simp only [post] at hp; injection hp with hp; subst hp
    simp [safeFrom, runEv, applyEv, cfg, okExit]
  | asm t al =>
    intro s evs x h cs hp
    cases h with
    | asm hal =>
      simp only [post] at hp
      split at hp
      · rename_i o ho
        have := memOut_of_mem (hal o ho)
        simp only [this, if_true] at hp
        injection hp with hp; subst hp
        simp [safeFrom, runEv, cfg, okExit]
      · injection hp with hp; subst hp
        simp [safeFrom, runEv, cfg, okExit]
  | eff e =>
    intro s evs x h cs hp
    cases h
    simp only [post] at hp
    split at hp
    · rename_i hπ
      injection hp with hp; subst hp
      simp [safeFrom, runEv, applyEv, hπ, cfg, okExit]
    · exact absurd hp (by simp)
  | seq a b iha ihb =>
    intro s evs x h cs hp
    simp only [post] at hp
    split at hp
    · rename_i ca hca
      obtain ⟨hn, hx⟩ := bindCfgs_sound hp
      cases h with
      | seqN h1 h2 =>
        obtain ⟨hs1, hm1, _⟩ := iha _ _ _ h1 ca hca
        obtain ⟨a', ha', hsub⟩ := hn _ hm1
        obtain ⟨hs2, hm2, hok2⟩ := ihb _ _ _ h2 a' ha'
        refine ⟨?_, ?_, hok2⟩
        · rw [safeFrom_append, hs1, hs2]; rfl
        · rw [runEv_append]; exact hsub _ hm2
      | seqX h1 =>
        obtain ⟨hs1, hm1, hok⟩ := iha _ _ _ h1 ca hca
        have hk : _ < 62 := hok
        exact ⟨hs1, hx _ _ (by omega) hm1, hok⟩
    · exact absurd hp (by simp)
  | alt a b iha ihb =>
    intro s evs x h cs hp
    simp only [post] at hp
    split at hp
    · rename_i ca cb hca hcb
      injection hp with hp; subst hp
      cases h with
      | altL h1 =>
        obtain ⟨hs1, hm1, hok⟩ := iha _ _ _ h1 ca hca
        exact ⟨hs1, mem_unionN.mpr (Or.inl hm1), hok⟩
      | altR h1 =>
        obtain ⟨hs1, hm1, hok⟩ := ihb _ _ _ h1 cb hcb
        exact ⟨hs1, mem_unionN.mpr (Or.inr hm1), hok⟩
    · exact absurd hp (by simp)
  | loop b ihb =>
    intro s evs x h cs hp
    simp only [post] at hp
    exact loopPost_sound ihb s evs x h cs hp
  | scope b ihb =>
    intro s evs x h cs hp
    simp only [post] at hp
    split at hp
    · rename_i cb hcb
      injection hp with hp; subst hp
      cases h with
      | scopeN h1 =>
        obtain ⟨hs1, hm1, _⟩ := ihb _ _ _ h1 cb hcb
        exact ⟨hs1, List.mem_map.mpr ⟨_, hm1, descope_none _⟩, trivial⟩
      | scope0 h1 =>
        obtain ⟨hs1, hm1, _⟩ := ihb _ _ _ h1 cb hcb
        exact ⟨hs1, List.mem_map.mpr ⟨_, hm1, descope_zero _⟩, trivial⟩
      | @scopeS _ _ _ k h1 =>
        obtain ⟨hs1, hm1, hok⟩ := ihb _ _ _ h1 cb hcb
        have hk : k + 1 < 62 := hok
        exact ⟨hs1, List.mem_map.mpr ⟨_, hm1, descope_succ k _ hk⟩, (by show k < 62; omega)⟩
    · exact absurd hp (by simp)
  | exit k =>
    intro s evs x h cs hp
    cases h
    simp only [post] at hp
    split at hp
    · rename_i hk
      injection hp with hp; subst hp
      simp [safeFrom, runEv, cfg, okExit, hk]
    · exact absurd hp (by simp)

/-- **Soundness of the checker** (proved once, for every term, every policy, every run): if the checker
accepts `p` under `π`, then on every run of `p` from the initial state — any outcomes of the checks, any branch
decisions consistent with them, any number of loop iterations — every effect event is preceded by a history
whose latest check outcomes satisfy `π`. -/
theorem checker_sound {π : Policy} {p : Prog} (h : checker π p = true)
    {evs : List Event} {x : Option Nat} (hr : Run allOuts p St.init evs x)
    {pre post' : List Event} {e : Eff} (hs : evs = pre ++ Event.effect e :: post') :
    π e (runEv St.init pre) = true := by
  unfold checker at h
  rw [Option.isSome_iff_exists] at h
  obtain ⟨cs, hcs⟩ := h
  exact safeFrom_effect (post_sound allOuts π p St.init evs x hr cs hcs).1 hs

/-! ## Queries used by the model driver and by the "does not consult" theorems -/

/-- The term syntactically contains a call of check `t`. -/
def mentions (t : Tag) : Prog → Bool
  | .chk t' => t' = t
  | .seq a b | .alt a b => mentions t a || mentions t b
  | .loop b | .scope b => mentions t b
  | _ => false

/-- No run of a term that does not mention `t` ever emits a call event of `t`. -/
theorem not_mentions_no_check {ω : Tag → List Out} {t : Tag} {p : Prog} {s : St} {evs : List Event} {x : Option Nat}
    (h : Run ω p s evs x) (hm : mentions t p = false) : ∀ o, Event.check t o ∉ evs := by
  induction h with
  | skip => simp
  | @chk s t' o' _ =>
    intro o
    simp only [mentions, decide_eq_false_iff_not] at hm
    simp only [List.mem_singleton]
    intro he; injection he with h1 _; exact hm h1.symm
  | set => simp
  | copy => simp
  | forget => simp
  | asm _ => simp
  | eff => simp
  | seqN _ _ ih1 ih2 =>
    simp only [mentions, Bool.or_eq_false_iff] at hm
    intro o hmem
    rcases List.mem_append.mp hmem with h | h
    · exact ih1 hm.1 o h
    · exact ih2 hm.2 o h
  | seqX _ ih1 =>
    simp only [mentions, Bool.or_eq_false_iff] at hm
    exact ih1 hm.1
  | altL _ ih =>
    simp only [mentions, Bool.or_eq_false_iff] at hm
    exact ih hm.1
  | altR _ ih =>
    simp only [mentions, Bool.or_eq_false_iff] at hm
    exact ih hm.2
  | loopDone => simp
  | @loopStep b' _ _ _ _ _ _ ih1 ih2 =>
    have hm' : mentions t b' = false := by simpa [mentions] using hm
    intro o hmem
    rcases List.mem_append.mp hmem with h | h
    · exact ih1 hm' o h
    · exact ih2 hm o h
  | loopExit _ ih => exact ih (by simpa [mentions] using hm)
  | scopeN _ ih => exact ih (by simpa [mentions] using hm)
  | scope0 _ ih => exact ih (by simpa [mentions] using hm)
  | scopeS _ ih => exact ih (by simpa [mentions] using hm)
  | exit => simp

/-- Oracle of a scenario: the listed checks have the given outcome, helper results are unconstrained,
every other check passes. -/
def scenario (forced : List (Tag × Out)) : Tag → List Out
  | .aux _ => [.pass, .soft, .deny]
  | t => match forced.find? (·.1 = t) with
    | some (_, o) => [o]
    | none => [.pass]

def isRealEffect : Eff → Bool
  | .respond => false
  | _ => true

/-- Under the scenario, can the handler reach a real effect (anything but building/sending a response)? -/
def reachesEffect (forced : List (Tag × Out)) (p : Prog) : Bool :=
  (post (scenario forced) (fun e _ => !isRealEffect e) p St.init).isNone

/-- Under the scenario, does every real effect happen while none of the checks forced to `deny` has `deny` as
its latest outcome? (A request whose token is refused may still be served by the paths that never look at a
token; the question is whether anything happens AFTER the refusal.) -/
def noEffectWhileDenied (forced : List (Tag × Out)) (p : Prog) : Bool :=
  (post (scenario forced)
    (fun e s => !(isRealEffect e && forced.any fun f => f.2 == .deny && s.get f.1 == some .deny)) p St.init).isSome

end NeoFS.Handlers
