/-
Model of the object search of one container of one metabase (property C03):

* `pkg/local_object_storage/metabase/metadata.go`: `PutMetadataForObject` (`objKeys`: which keys one object
  contributes to the container's bucket), `DB.searchTx` (`searchFiltered`), `DB.searchUnfiltered`,
  `metaAttributeSeeker.Get` (`getAttr`);
* `pkg/core/object/metadata.go`: `PreprocessSearchQuery` (`preprocess`), `parseIntFilters`, `MetaDataKVHandler`
  (`verdict` + `runScan`), `combineValues`, `matchValues`, `restoreAttributeValue`, `convertFilterValue`,
  `splitValOID`, `intBytesMatch`, `scatteredMatches`.

The bucket is the lexicographically sorted list of the byte keys exactly as the code builds them; bbolt's
`Cursor.Seek`/`Next` are `seekFrom`/list tail.  Byte strings are `List Nat`.  The availability check
(`objectStatus … == statusAvailable`) is a per-object boolean.  Base58/hex/UUID codecs are modelled concretely so
that the driver can be compared with the code; the theorems of `Props/C03.lean` are about queries that do not touch
the binary-coded system attributes.
-/
import NeoFS.Model.Int256
namespace NeoFS.Search
open NeoFS.Int256

abbrev Bytes := List Nat

def str (s : String) : Bytes := s.toList.map Char.toNat
def toChars (b : Bytes) : List Char := b.map Char.ofNat

/-! ### attribute names -/
def aVersion : Bytes := str "$Object:version"
def aOwner : Bytes := str "$Object:ownerID"
def aType : Bytes := str "$Object:objectType"
def aCreationEpoch : Bytes := str "$Object:creationEpoch"
def aPayloadSize : Bytes := str "$Object:payloadLength"
def aChecksum : Bytes := str "$Object:payloadHash"
def aHomo : Bytes := str "$Object:homomorphicHash"
def aSplitID : Bytes := str "$Object:split.splitID"
def aFirst : Bytes := str "$Object:split.first"
def aParent : Bytes := str "$Object:split.parent"
def aRoot : Bytes := str "$Object:ROOT"
def aPhy : Bytes := str "$Object:PHY"
def aAssoc : Bytes := str "__NEOFS__ASSOCIATE"
def aECHashes : Bytes := str "__NEOFS__EC_PART_HASHES"
def reservedPrefix : Bytes := str "$Object:"

/-- attributes stored in a binary form and shown/filtered through a codec. -/
def codedAttrs : List Bytes := [aOwner, aChecksum, aHomo, aSplitID, aFirst, aParent, aAssoc]
/-- attributes `PutMetadataForObject` never puts into the integer index. -/
def plainOnlyAttrs : List Bytes := [aVersion, aType, aRoot, aPhy] ++ codedAttrs

/-! ### codecs (third-party: mr-tron/base58, encoding/hex, google/uuid) -/
def b58Alphabet : List Nat := str "123456789ABCDEFGHJKLMNPQRSTUVWXYZabcdefghijkmnopqrstuvwxyz"

def natDigits (base : Nat) : Nat → Nat → List Nat → List Nat
  | 0, _, acc => acc
  | fuel + 1, n, acc => if n = 0 then acc else natDigits base fuel (n / base) (n % base :: acc)

def b58Encode (b : Bytes) : Bytes :=
  let zeros := (b.takeWhile (· = 0)).length
  let n := fromBE b
  List.replicate zeros 49 ++ (natDigits 58 (8 * b.length + 1) n []).map (fun d => b58Alphabet.getD d 0)

def b58Decode (s : Bytes) : Option Bytes :=
  if s.isEmpty then none else
  match s.mapM (fun c => let i := b58Alphabet.idxOf c; if i < 58 then some i else none) with
  | none => none
  | some ds =>
    let zeros := (s.takeWhile (· = 49)).length
    let n := ds.foldl (fun acc d => acc * 58 + d) 0
    some (List.replicate zeros 0 ++ natDigits 256 (8 * s.length + 1) n [])

def hexNib (n : Nat) : Nat := if n < 10 then 48 + n else 87 + n
def hexEncode (b : Bytes) : Bytes := b.flatMap fun x => [hexNib (x / 16 % 16), hexNib (x % 16)]
def unhexNib (c : Nat) : Option Nat :=
  if 48 ≤ c ∧ c ≤ 57 then some (c - 48) else if 97 ≤ c ∧ c ≤ 102 then some (c - 87)
  else if 65 ≤ c ∧ c ≤ 70 then some (c - 55) else none
def hexDecode : Bytes → Option Bytes
  | [] => some []
  | [_] => none
  | a :: b :: r =>
    match unhexNib a, unhexNib b, hexDecode r with
    | some x, some y, some t => some ((x * 16 + y) :: t)
    | _, _, _ => none

/-- `uuid.UUID.String`. -/
def uuidString (u : Bytes) : Bytes :=
  hexEncode (u.take 4) ++ 45 :: hexEncode ((u.drop 4).take 2) ++ 45 :: hexEncode ((u.drop 6).take 2) ++ 45 ::
    hexEncode ((u.drop 8).take 2) ++ 45 :: hexEncode (u.drop 10)

def lowerAscii (c : Nat) : Nat := if 65 ≤ c ∧ c ≤ 90 then c + 32 else c

/-- `uuid.Parse`: the four accepted layouts. -/
def uuidParse (s : Bytes) : Option Bytes :=
  let dashed (t : Bytes) : Option Bytes :=
    if t.getD 8 0 = 45 ∧ t.getD 13 0 = 45 ∧ t.getD 18 0 = 45 ∧ t.getD 23 0 = 45 then
      hexDecode (t.take 8 ++ (t.drop 9).take 4 ++ (t.drop 14).take 4 ++ (t.drop 19).take 4 ++ (t.drop 24).take 12)
    else none
  if s.length = 36 then dashed s
  else if s.length = 45 then (if (s.take 9).map lowerAscii = str "urn:uuid:" then dashed (s.drop 9) else none)
  else if s.length = 38 then dashed (s.drop 1)
  else if s.length = 32 then hexDecode s
  else none

/-! ### objects and the bucket -/

/-- one stored object: its id, the (attribute, stored bytes) pairs `PutMetadataForObject` indexes, and whether the
metabase considers it available (`objectStatus = statusAvailable`). -/
structure Obj where
  id : Nat
  attrs : List (Bytes × Bytes)
  avail : Bool
  deriving Repr

def oidLen : Nat := 32
def oidBytes (id : Nat) : Bytes := beBytes 32 id

def parseInt (v : Bytes) : Option I256 := parseDecimal (toChars v)

/-- is the pair put into the integer index too (`putIntAttribute`)? -/
def intIndexed (a v : Bytes) : Bool := !plainOnlyAttrs.contains a && (parseInt v).isSome

def keyID (id : Nat) : Bytes := 0 :: oidBytes id
def keyInt (a enc : Bytes) (id : Nat) : Bytes := 1 :: (a ++ 0 :: (enc ++ oidBytes id))
def keyPlain (a v : Bytes) (id : Nat) : Bytes := 2 :: (a ++ 0 :: (v ++ 0 :: oidBytes id))
def keyIDAttr (id : Nat) (a v : Bytes) : Bytes := 3 :: (oidBytes id ++ (a ++ 0 :: v))

def attrKeys (id : Nat) (av : Bytes × Bytes) : List Bytes :=
  match (if intIndexed av.1 av.2 then parseInt av.2 else none) with
  | some z => [keyInt av.1 (encode z) id, keyPlain av.1 av.2 id, keyIDAttr id av.1 av.2]
  | none => [keyPlain av.1 av.2 id, keyIDAttr id av.1 av.2]

def objKeys (o : Obj) : List Bytes := keyID o.id :: o.attrs.flatMap (attrKeys o.id)

def bytesLe (a b : Bytes) : Bool := lexCmp a b != .gt

/-- bbolt keeps one value per key. -/
def dedupAdj : List Bytes → List Bytes
  | [] => []
  | [x] => [x]
  | x :: y :: r => if x = y then dedupAdj (y :: r) else x :: dedupAdj (y :: r)

def bucket (objs : List Obj) : List Bytes := dedupAdj ((objs.flatMap objKeys).mergeSort bytesLe)

/-- `Cursor.Seek`: the keys from the first one `≥ k` on. -/
def seekFrom (b : List Bytes) (k : Bytes) : List Bytes := b.dropWhile (fun x => lexCmp x k == .lt)

/-- seek, and step over the key itself if it is there ("points to the last response element, so go next"). -/
def afterSeek (b : List Bytes) (k : Bytes) : List Bytes :=
  match seekFrom b k with
  | [] => []
  | x :: r => if x = k then r else x :: r

/-- the keys the search loop visits: from the seek position while the prefix holds. -/
def scanKeys (b : List Bytes) (pref seek : Bytes) : List Bytes :=
  (afterSeek b seek).takeWhile (fun k => pref.isPrefixOf k)

/-- `metaAttributeSeeker.Get`. -/
def getAttr (b : List Bytes) (id : Nat) (a : Bytes) : Option Bytes :=
  let pref := 3 :: (oidBytes id ++ (a ++ [0]))
  match seekFrom b pref with
  | [] => none
  | k :: _ => if pref.isPrefixOf k then some (k.drop pref.length) else none

/-! ### filters -/

inductive Op | eq | ne | pfx | np | gt | ge | lt | le | flag
  deriving DecidableEq, Repr

def Op.isInt : Op → Bool
  | .gt | .ge | .lt | .le => true
  | _ => false

structure Filter where
  attr : Bytes
  op : Op
  val : Bytes
  deriving DecidableEq, Repr

/-- `convertFilterValue`: ROOT/PHY filters mean `== "1"`. -/
def Filter.conv (f : Filter) : Op × Bytes :=
  if f.attr = aRoot ∨ f.attr = aPhy then (.eq, [49]) else (f.op, f.val)

def Filter.cop (f : Filter) : Op := f.conv.1
def Filter.cval (f : Filter) : Bytes := f.conv.2

/-- preprocessed filter (`objectcore.SearchFilter`). -/
structure PF where
  f : Filter
  auto : Bool := false
  raw : Bytes := []
  deriving Repr

inductive Kind | plain | owner | oid | cs | homo | split
  deriving DecidableEq

def kindOf (a : Bytes) : Kind :=
  if a = aOwner then .owner
  else if a = aFirst ∨ a = aParent ∨ a = aAssoc then .oid
  else if a = aChecksum then .cs
  else if a = aHomo then .homo
  else if a = aSplitID then .split
  else .plain

/-- `combineValues` (`none` = malformed stored value). -/
def combine (a db flt : Bytes) : Option (Bytes × Bytes) :=
  match kindOf a with
  | .plain => some (db, flt)
  | .owner =>
    if db.length ≠ 25 then none else
    match b58Decode flt with
    | some b => if b.length = 25 then some (db, b) else some (b58Encode db, flt)
    | none => some (b58Encode db, flt)
  | .oid =>
    if db.length ≠ 32 then none else
    match b58Decode flt with
    | some b => if b.length = 32 then some (db, b) else some (b58Encode db, flt)
    | none => some (b58Encode db, flt)
  | .cs =>
    if db.length ≠ 32 then none else
    match hexDecode flt with
    | some b => some (db, b)
    | none => some (hexEncode db, flt)
  | .homo =>
    if db.length ≠ 64 then none else
    match hexDecode flt with
    | some b => some (db, b)
    | none => some (hexEncode db, flt)
  | .split =>
    if db.length ≠ 16 then none else
    match uuidParse flt with
    | some b => some (db, b)
    | none => some (uuidString db, flt)

/-- `matchValues`. -/
def matchValues (db : Bytes) (m : Op) (flt : Bytes) : Bool :=
  match m with
  | .eq => db == flt
  | .ne => db != flt
  | .pfx => flt.isPrefixOf db
  | _ => false

/-- non-numeric filter against a stored value. -/
def matchPlain (a db : Bytes) (m : Op) (flt : Bytes) : Option Bool :=
  (combine a db flt).map fun p => matchValues p.1 m p.2

/-- `intBytesMatch`. -/
def intBytesMatch (db : Bytes) (m : Op) (flt : Bytes) : Bool :=
  match m with
  | .gt => lexCmp db flt == .gt
  | .ge => lexCmp db flt != .lt
  | .lt => lexCmp db flt == .lt
  | .le => lexCmp db flt != .gt
  | _ => false

/-- `intMatches`. -/
def intMatches (db : I256) (m : Op) (flt : I256) : Bool :=
  match m with
  | .gt => cmp db flt == .gt
  | .ge => cmp db flt != .lt
  | .lt => cmp db flt == .lt
  | .le => cmp db flt != .gt
  | _ => false

/-- `restoreAttributeValue` (`none` = malformed stored value). -/
def restore (a stored : Bytes) : Option Bytes :=
  match kindOf a with
  | .plain => some stored
  | .owner | .oid => some (b58Encode stored)
  | .cs | .homo => some (hexEncode stored)
  | .split => if stored.isEmpty then some [] else if stored.length = 16 then some (uuidString stored) else none

/-- `RestoreIntAttribute`. -/
def restoreInt (b : Bytes) : Option Bytes := (decode b).map fun z => (toDec z).map Char.toNat

/-- `scatteredMatches`. -/
def scattered (a : Bytes) (m : Op) : Bool :=
  match m with
  | .ne => true
  | .pfx => a = aOwner ∨ a = aFirst ∨ a = aParent ∨ a = aAssoc
  | _ => false

/-! ### `PreprocessSearchQuery` -/

inductive PErr | unreachable | invalid
  deriving DecidableEq, Repr

structure Ctx where
  fs : List PF
  attrs : List Bytes
  pref : Bytes
  seek : Bytes
  deriving Repr

def maxDigits : List Char := natToDec (two256 - 1)

/-- `compareNormalizedDigits`. -/
def cmpDigits (a b : List Char) : Ordering :=
  if a.length ≠ b.length then (if a.length < b.length then .lt else .gt) else lexCmpChars a b

/-- one step of `parseIntFilters`. -/
def parseIntFilter (f0 : Filter) (i : Nat) (f : Filter) : Except PErr PF :=
  let m := f.cop
  if !m.isInt then .ok { f := f } else
  match splitIntString (toChars f.cval) with
  | none => .error .invalid
  | some (neg, digits) =>
    let c := cmpDigits digits maxDigits
    let rawOf (auto : Bool) : Except PErr PF :=
      if !auto && (i = 0 || (f0.op.isInt && f.attr = f0.attr)) then
        match parseNormalized neg digits with
        | some z => .ok { f := f, auto := auto, raw := encode z }
        | none => .error .invalid
      else .ok { f := f, auto := auto }
    if !neg && c != .lt then
      if c == .gt then .error .invalid
      else if m = .gt then .error .unreachable
      else rawOf (m = .le)
    else if neg then
      if c == .gt then .error .invalid
      else if c == .eq && m = .lt then .error .unreachable
      else rawOf (c == .eq && m = .ge)
    else rawOf false

def parseIntFiltersAux (f0 : Filter) : Nat → List Filter → Except PErr (List PF)
  | _, [] => .ok []
  | i, f :: r =>
    match parseIntFilter f0 i f with
    | .error e => .error e
    | .ok p =>
      match parseIntFiltersAux f0 (i + 1) r with
      | .error e => .error e
      | .ok ps => .ok (p :: ps)

/-- `blindlyProcess`: absence of a reserved (`$Object:`) field never holds. -/
def blindly (fs : List Filter) : Bool :=
  fs.any fun f => f.op = .np && reservedPrefix.isPrefixOf f.attr

/-- value of the first filter in stored form (start of the scan). -/
def decodePrim (a v : Bytes) : Option Bytes :=
  match kindOf a with
  | .plain => some v
  | .owner | .oid => b58Decode v
  | .cs | .homo => hexDecode v
  | .split => uuidParse v

/-- checks of an attribute-ordered cursor; the result is the seek key without its first byte. -/
def checkCursor (a0 : Bytes) (isInt : Bool) (c : Bytes) : Option Bytes :=
  let n := c.length
  if isInt then
    if n ≠ a0.length + 1 + 33 + 32 then none
    else if c.take a0.length ≠ a0 then none
    else if c.getD a0.length 1 ≠ 0 then none
    else if c.getD (a0.length + 1) 2 > 1 then none
    else some c
  else
    if n < a0.length + 1 + 1 + 1 + 32 then none
    else if c.take a0.length ≠ a0 then none
    else if c.getD a0.length 1 ≠ 0 then none
    else if c.getD (n - 33) 1 ≠ 0 then none
    else some c

def preprocess (fs : List Filter) (attrs : List Bytes) (cursor : Option Bytes) : Except PErr Ctx :=
  match fs with
  | [] =>
    match cursor with
    | some c => if c.length ≠ 32 then .error .invalid else .ok { fs := [], attrs := attrs, pref := [0], seek := 0 :: c }
    | none => .ok { fs := [], attrs := attrs, pref := [0], seek := [0] }
  | f0 :: _ =>
    let m0 := f0.cop
    let a0 := attrs.headD []
    let oidSorted := attrs.isEmpty || m0 = .np
    let primVal : Except PErr Bytes :=
      if !oidSorted && cursor.isNone && !scattered f0.attr m0 && !m0.isInt then
        match decodePrim f0.attr f0.cval with
        | some v => .ok v
        | none => .error .invalid
      else .ok []
    match primVal with
    | .error e => .error e
    | .ok primValDB =>
    let cur : Except PErr (Option Bytes) :=
      match cursor with
      | none => .ok none
      | some c =>
        if oidSorted then (if c.length ≠ 32 then .error .invalid else .ok (some c))
        else match checkCursor a0 m0.isInt c with
          | some c => .ok (some c)
          | none => .error .invalid
    match cur with
    | .error e => .error e
    | .ok cur =>
    if blindly fs then .error .unreachable else
    match (if fs.any (fun f => f.op.isInt) then parseIntFiltersAux f0 0 fs else .ok (fs.map fun f => { f := f })) with
    | .error e => .error e
    | .ok ofs =>
    if oidSorted then
      .ok { fs := ofs, attrs := attrs, pref := [0], seek := match cur with | some c => 0 :: c | none => [0] }
    else
      match cur with
      | some c => .ok { fs := ofs, attrs := attrs, pref := (if m0.isInt then 1 else 2) :: (a0 ++ [0]), seek := (if m0.isInt then 1 else 2) :: c }
      | none =>
        if m0.isInt then
          match ofs with
          | p0 :: _ =>
            if !p0.auto && (m0 = .ge || m0 = .gt) then
              .ok { fs := ofs, attrs := attrs, pref := 1 :: (a0 ++ [0]), seek := 1 :: (a0 ++ 0 :: p0.raw) }
            else .ok { fs := ofs, attrs := attrs, pref := 1 :: (a0 ++ [0]), seek := 1 :: (a0 ++ [0]) }
          | [] => .error .invalid
        else
          .ok { fs := ofs, attrs := attrs, pref := 2 :: (a0 ++ [0]), seek := 2 :: (a0 ++ 0 :: primValDB) }

/-! ### `MetaDataKVHandler` -/

structure Item where
  id : Nat
  attrs : List Bytes
  deriving DecidableEq, Repr

/-- what the handler decides about one key. -/
inductive Verdict
  | err            -- resHolder.Err is set, iteration stops
  | stop           -- `return false`: nothing further can match
  | skip           -- `return true` without a result
  | take (it : Item)  -- the object matches (before the count check)
  deriving Repr

/-- the handler's fixed inputs. -/
structure HCtx where
  get : Nat → Bytes → Option Bytes   -- attrGetter.Get
  avail : Nat → Bool      -- additionalCheck
  fs : List PF
  attrs : List Bytes
  pref : Bytes

def HCtx.f0 (h : HCtx) : Filter := (h.fs.headD { f := ⟨[], .eq, []⟩ }).f
def HCtx.intPrim (h : HCtx) : Bool := h.f0.cop.isInt
def HCtx.idIter (h : HCtx) : Bool := h.attrs.isEmpty || h.f0.cop = .np

/-- result of the loop over the filters of the primary attribute. -/
inductive PrimRes | err | stop | skip | pass (was : Bool)

/-- the primary-attribute loop: `i`, the filters from `i` on, `wasPrimMatch`. -/
def primLoop (h : HCtx) (primDB : Bytes) : Nat → List PF → Bool → PrimRes
  | _, [], was => .pass was
  | i, p :: r, was =>
    let a := p.f.attr
    let m := p.f.cop
    if i > 0 && (a ≠ h.f0.attr || m.isInt != h.intPrim) then primLoop h primDB (i + 1) r was
    else if m = .np then .stop
    else
      let mres : Option Bool :=
        if m.isInt then some (p.auto || intBytesMatch primDB m p.raw) else matchPlain a primDB m p.f.cval
      match mres with
      | none => .err
      | some false =>
        if i = 0 then (if !scattered a m && (was || m ≠ .gt) then .stop else .skip)
        else if m = .lt ∨ m = .le then .stop else .skip
      | some true => primLoop h primDB (i + 1) r (if i = 0 then true else was)

/-- one filter against the value found through the ID-to-attribute index (`none` = mismatch is an error). -/
def secMatch (p : PF) (dbVal : Option Bytes) : Option Bool :=
  let m := p.f.cop
  match dbVal with
  | none => some (m = .np)
  | some v =>
    if m = .np then some false
    else if m.isInt then
      match parseInt v with
      | none => some false
      | some z =>
        if p.auto then some true
        else match splitIntString (toChars p.f.cval) with
          | none => none
          | some (neg, digits) =>
            match parseNormalized neg digits with
            | none => none
            | some x => some (intMatches z m x)
    else matchPlain p.f.attr v m p.f.cval

/-- inner loop `for j := i; …` over the filters with the same attribute. -/
def secInner (a : Bytes) (dbVal : Option Bytes) : List PF → Option Bool
  | [] => some true
  | p :: r =>
    if p.f.attr ≠ a then secInner a dbVal r
    else match secMatch p dbVal with
      | none => none
      | some false => some false
      | some true => secInner a dbVal r

/-- outer loop "apply other filters". -/
def secLoop (h : HCtx) (id : Nat) : Nat → List PF → Option Bool
  | _, [] => some true
  | i, p :: r =>
    if !h.idIter && (i = 0 || (p.f.attr = h.f0.attr && p.f.cop.isInt == h.intPrim)) then secLoop h id (i + 1) r
    else match secInner p.f.attr (h.get id p.f.attr) (p :: r) with
      | none => none
      | some false => some false
      | some true => secLoop h id (i + 1) r

def collectRest (h : HCtx) (id : Nat) : List Bytes → Option (List Bytes)
  | [] => some []
  | a :: r =>
    match restore a ((h.get id a).getD []), collectRest h id r with
    | some v, some vs => some (v :: vs)
    | _, _ => none

def collect (h : HCtx) (id : Nat) (primDB : Bytes) : Option (List Bytes) :=
  match h.attrs with
  | [] => some []
  | _ :: rest =>
    match (if h.intPrim then restoreInt primDB else restore h.f0.attr primDB), collectRest h id rest with
    | some v, some vs => some (v :: vs)
    | _, _ => none

/-- split of a key of the primary index into the stored value and the id. -/
def splitKey (h : HCtx) (k : Bytes) : Option (Bytes × Bytes) :=
  if h.idIter then
    let id := k.drop 1
    if id.length ≠ oidLen then none else some ([], id)
  else
    let valID := k.drop h.pref.length
    if h.intPrim then
      if valID.length ≤ oidLen then none
      else some (valID.take (valID.length - oidLen), valID.drop (valID.length - oidLen))
    else
      if valID.length < 1 + oidLen + 1 then none
      else if valID.getD (valID.length - oidLen - 1) 1 ≠ 0 then none
      else some (valID.take (valID.length - oidLen - 1), valID.drop (valID.length - oidLen))

/-- the handler after the key has been split into the stored value of the primary attribute and the id. -/
def verdictE (h : HCtx) (was : Bool) (primDB : Bytes) (id : Nat) : Verdict × Bool :=
  let prim := if h.idIter then PrimRes.pass was else primLoop h primDB 0 h.fs was
  match prim with
  | .err => (.err, was)
  | .stop => (.stop, was)
  | .skip => (.skip, was)
  | .pass was' =>
    match secLoop h id 0 h.fs with
    | none => (.err, was')
    | some false => (.skip, was')
    | some true =>
      if !h.avail id then (.skip, was')
      else match collect h id primDB with
        | none => (.err, was')
        | some vs => (.take ⟨id, vs⟩, was')

def verdict (h : HCtx) (was : Bool) (k : Bytes) : Verdict × Bool :=
  match splitKey h k with
  | none => (.err, was)
  | some (primDB, idb) => verdictE h was primDB (fromBE idb)

structure Res where
  items : List Item := []
  cursor : Option Bytes := none
  err : Bool := false
  deriving DecidableEq, Repr

/-- the loop of `searchTx` over the visited keys, with the handler's counters:
`acc` = items so far (reversed), `last` = last matched key. -/
def runScan (h : HCtx) (count : Nat) : List Bytes → Bool → List Item → Bytes → Res
  | [], _, acc, _ => { items := acc.reverse }
  | k :: ks, was, acc, last =>
    match verdict h was k with
    | (.err, _) => { items := acc.reverse, err := true }
    | (.stop, _) => { items := acc.reverse }
    | (.skip, was') => runScan h count ks was' acc last
    | (.take it, was') =>
      if acc.length = count then { items := acc.reverse, cursor := some (last.drop 1) }
      else runScan h count ks was' (it :: acc) k

/-- `DB.searchTx`. -/
def searchFiltered (b : List Bytes) (avail : Nat → Bool) (c : Ctx) (count : Nat) : Res :=
  runScan { get := getAttr b, avail := avail, fs := c.fs, attrs := c.attrs, pref := c.pref } count (scanKeys b c.pref c.seek) false [] []

/-- `DB.searchUnfiltered`: `n` found so far; the cursor is decided when the next key is seen. -/
def scanUnfiltered (avail : Nat → Bool) (count : Nat) : List Bytes → List Item → Res
  | [], acc => { items := acc.reverse }
  | k :: ks, acc =>
    if acc.length = count then { items := acc.reverse, cursor := (acc.head?.map fun it => oidBytes it.id) }
    else if k.length ≠ oidLen + 1 then { items := acc.reverse, err := true }
    else
      let id := fromBE (k.drop 1)
      if !avail id then scanUnfiltered avail count ks acc
      else scanUnfiltered avail count ks (⟨id, []⟩ :: acc)

def searchUnfiltered (b : List Bytes) (avail : Nat → Bool) (c : Ctx) (count : Nat) : Res :=
  scanUnfiltered avail count ((afterSeek b c.seek).takeWhile (fun k => k.head? = some 0)) []

/-- `DB.Search` after `PreprocessSearchQuery`. -/
def search (b : List Bytes) (avail : Nat → Bool) (c : Ctx) (count : Nat) : Res :=
  if c.fs.isEmpty then searchUnfiltered b avail c count else searchFiltered b avail c count

def availOf (objs : List Obj) (id : Nat) : Bool :=
  match objs.find? (·.id = id) with
  | some o => o.avail
  | none => true

/-- one page of a query over a bucket. -/
def pageB (b : List Bytes) (avail : Nat → Bool) (fs : List Filter) (attrs : List Bytes) (cursor : Option Bytes) (count : Nat) :
    Except PErr Res :=
  match preprocess fs attrs cursor with
  | .error e => .error e
  | .ok c => .ok (search b avail c count)

/-- one page of a query over a set of stored objects. -/
def page (objs : List Obj) (fs : List Filter) (attrs : List Bytes) (cursor : Option Bytes) (count : Nat) : Except PErr Res :=
  pageB (bucket objs) (availOf objs) fs attrs cursor count

/-- following the returned cursor: `sizes` are the page sizes (the last one repeats), `fuel` bounds the number of pages. -/
def pagesB (b : List Bytes) (avail : Nat → Bool) (fs : List Filter) (attrs : List Bytes) :
    Nat → List Nat → Option Bytes → List (Except PErr Res)
  | 0, _, _ => []
  | _, [], _ => []
  | fuel + 1, n :: ns, cur =>
    match pageB b avail fs attrs cur n with
    | .error e => [.error e]
    | .ok r =>
      .ok r :: (if r.err then [] else match r.cursor with
        | none => []
        | some c => pagesB b avail fs attrs fuel (if ns.isEmpty then [n] else ns) (some c))

def pages (objs : List Obj) (fs : List Filter) (attrs : List Bytes) (fuel : Nat) (sizes : List Nat) (cur : Option Bytes) :
    List (Except PErr Res) :=
  pagesB (bucket objs) (availOf objs) fs attrs fuel sizes cur

end NeoFS.Search

namespace NeoFS.Search

/-! ### `PutMetadataForObject`: from header fields to index attributes -/

/-- the header fields the metabase indexes. -/
structure Hdr where
  id : Nat
  typ : Bytes
  verMaj : Nat
  verMin : Nat
  owner : Bytes
  ce : Nat
  size : Nat
  cs : Bytes
  split : Option Bytes
  first : Nat
  par : Nat
  assoc : Nat
  attrs : List (Bytes × Bytes)
  deriving Repr

def decStr (n : Nat) : Bytes := str (toString n)

/-- the (attribute, stored bytes) pairs written for one header, in the order of the code. -/
def indexAttrs (h : Hdr) : List (Bytes × Bytes) :=
  [(aVersion, str "v" ++ decStr h.verMaj ++ str "." ++ decStr h.verMin), (aOwner, h.owner), (aType, h.typ),
   (aCreationEpoch, decStr h.ce), (aPayloadSize, decStr h.size), (aChecksum, h.cs)]
  ++ (match h.split with | some s => [(aSplitID, s)] | none => [])
  ++ (if h.first ≠ 0 then [(aFirst, oidBytes h.first)] else [])
  ++ (if h.par ≠ 0 then [(aParent, oidBytes h.par)] else [])
  ++ (if h.split.isNone ∧ h.first = 0 ∧ h.par = 0 ∧ h.typ = str "REGULAR" then [(aRoot, [49])] else [])
  ++ [(aPhy, [49])]
  ++ (h.attrs.filter fun p => p.1 ≠ aECHashes)
  ++ (if h.assoc ≠ 0 then [(aAssoc, oidBytes h.assoc)] else [])

end NeoFS.Search
