/-
Model of the file-tree blob storage (`pkg/local_object_storage/blobstor/fstree`).

Byte level.  The disk is a table of inodes (byte strings) plus the linked names (`dir`: address ↦ inode,
`tmps`: the generic writer's `p#i` names).  Readers follow the code: `scanRaw` is `extractCombinedObject`
(38-byte prefix `0x7F 0x00 oid len32`, skip `len`, first matching member wins), `streamRaw` is
`readHeader` + `preprocessStreamHead` at the level of "what the returned prefix and stream contain".
Writers are written in direct style over single system calls (`sysOpen`, `sysWrite`, `sysLink`, `sysSync`,
`sysRename`, `sysUnlink`); every call consults an oracle `Nat → Option Fault` at its own index, so that one
definition serves the fault-free semantics (C10), every fault sequence (C13) and every crash point (C12:
`Fault.crash` freezes the kernel part of the state; later calls of the same run do nothing).

Core Lean only.
-/
namespace NeoFS.FSTree

abbrev Bytes := List Nat

/-! ## combined-file record encoding -/

/-- `k`-byte big-endian encoding -/
def beN : Nat → Nat → Bytes
  | 0, _ => []
  | k + 1, n => beN k (n / 256) ++ [n % 256]

def fromBE (b : Bytes) : Nat := b.foldl (fun acc x => acc * 256 + x) 0

/-- `combinedDataOff`: prefix byte, version byte, 32-byte object id, 4-byte length -/
def dataOff : Nat := 38

/-- one member of a combined file as `syncBatch.write` emits it -/
def record (id : Nat) (d : Bytes) : Bytes := [127, 0] ++ (beN 32 id ++ (beN 4 d.length ++ d))

def encodeRecs : List (Nat × Bytes) → Bytes
  | [] => []
  | r :: rs => record r.1 r.2 ++ encodeRecs rs

/-- `parseCombinedPrefix` -/
def parsePrefix (p : Bytes) : Option (Bytes × Nat) :=
  if p.length < dataOff then none
  else match p with
    | 127 :: 0 :: rest => some (rest.take 32, fromBE ((rest.drop 32).take 4))
    | _ => none

inductive Err | notFound | eof | malformed | io | codec
  deriving DecidableEq, Repr

/-- `extractCombinedObject` without the final `decompress`: the stored bytes of member `idb` of a file.
`fuel` bounds the number of members looked at (a file of `n` bytes has fewer than `n + 1`). -/
def scanRaw (idb : Bytes) : Nat → Bool → Bytes → Except Err Bytes
  | 0, _, _ => .error .io
  | fuel + 1, comb, rest =>
    if rest.length < dataOff then (if comb then .error .notFound else .ok rest)
    else match parsePrefix (rest.take dataOff) with
      | none => if comb then .error .malformed else .ok rest
      | some (oid, l) =>
        if oid = idb then
          if l = 0 then .error .eof
          else if ((rest.drop dataOff).take l).length < l then .error .io
          else .ok ((rest.drop dataOff).take l)
        else scanRaw idb fuel true ((rest.drop dataOff).drop l)

def extractRaw (id : Nat) (file : Bytes) : Except Err Bytes :=
  scanRaw (beN 32 id) (file.length + 1) false file

def zstdMagic : Bytes := [0x28, 0xb5, 0x2f, 0xfd]

def isCompressed (d : Bytes) : Bool := d.take 4 == zstdMagic

/-- `decompress`; the codec itself is a parameter -/
def decompress (dec : Bytes → Option Bytes) (d : Bytes) : Except Err Bytes :=
  if isCompressed d then (match dec d with | some x => .ok x | none => .error .codec) else .ok d

/-- `readHeader` + `preprocessStreamHead` seen from the caller: all bytes the returned prefix and stream
deliver before decompression.  `bufLen` is `NonPayloadFieldsBufferLength`.  A member of a combined file is cut
at its own length (`limitedFileReader`); `tailFixed = false` is the code before the repair, which left the
stream unlimited when the member was exactly `bufLen` bytes long. -/
def streamScan (tailFixed : Bool) (bufLen : Nat) (idb : Bytes) : Nat → Bytes → Except Err Bytes
  | 0, _ => .error .io
  | fuel + 1, rest =>
    match parsePrefix (rest.take dataOff) with
    | none => .error .malformed
    | some (oid, l) =>
      if oid = idb then
        if l = 0 then .error .eof
        else
          let body := rest.drop dataOff
          if (body.take (min l bufLen)).length < min l bufLen then .error .io
          else if l = bufLen ∧ ¬ tailFixed then .ok body   -- unlimited stream: the rest of the file follows
          else .ok (body.take l)
      else
        let next := (rest.drop dataOff).drop l
        if next = [] then .error .eof     -- "file was found, but this object is not in it"
        else streamScan tailFixed bufLen idb fuel next

def streamRaw (tailFixed : Bool) (bufLen : Nat) (id : Nat) (file : Bytes) : Except Err Bytes :=
  if file.length < dataOff then .ok file
  else match parsePrefix (file.take dataOff) with
    | none => .ok file
    | some _ => streamScan tailFixed bufLen (beN 32 id) (file.length + 1) file

/-! ## kernel and process state, system calls -/

/-- what the oracle can do to one system call: fail it (a failing write may still have written a prefix of
`part` bytes), or stop the process there (a write being executed may have written `part` bytes). -/
inductive Fault | err (part : Nat) | crash (part : Nat)
  deriving DecidableEq, Repr

abbrev Oracle := Nat → Option Fault

def noFault : Oracle := fun _ => none

/-- `syncBatch` -/
structure Batch where
  ino : Nat
  cnt : Nat := 0
  size : Nat := 0
  err : Bool := false
  ready : Bool := false      -- the `ready` channel is closed
  hasReady : Bool := true    -- `createBatch` alone (PutBatch) leaves `ready` nil
  deriving DecidableEq, Repr

structure K where
  -- kernel (survives a process crash)
  inodes : List Bytes := []
  dir : List (Nat × Nat) := []
  tmps : List ((Nat × Nat) × Nat) := []
  -- run bookkeeping
  n : Nat := 0                 -- index of the next system call
  crashed : Bool := false
  -- process (volatile)
  lockHeld : Bool := false     -- `linuxWriter.batchLock`
  panicked : Bool := false
  batch : Option Batch := none
  done : List (Nat × Bool) := []   -- closed batches: inode ↦ final `err`
  deriving DecidableEq, Repr

structure Cfg where
  generic : Bool := false
  threshold : Nat := 128 * 1024
  countLimit : Nat := 128
  sizeLimit : Nat := 8 * 1024 * 1024
  noSync : Bool := true
  bufLen : Nat := 20480
  precFixed : Bool := true     -- rotation test `err == nil && (cnt ≥ … || size ≥ …)`
  unlockFixed : Bool := true   -- `batchLock` released when the batch cannot be opened
  tailFixed : Bool := true     -- see `streamScan`
  deriving DecidableEq, Repr

def faultAt (o : Oracle) (k : K) : Option Fault := if k.crashed then some (.crash 0) else o k.n

def bump (k : K) : K := { k with n := k.n + 1 }

def appendAt : List Bytes → Nat → Bytes → List Bytes
  | [], _, _ => []
  | x :: xs, 0, b => (x ++ b) :: xs
  | x :: xs, i + 1, b => x :: appendAt xs i b

/-- `open(root, O_TMPFILE)`: a fresh unnamed inode -/
def sysOpen (o : Oracle) (k : K) : K × Option Nat :=
  match faultAt o k with
  | some (.crash _) => ({ k with crashed := true }, none)
  | some (.err _) => (bump k, none)
  | none => ({ bump k with inodes := k.inodes ++ [[]] }, some k.inodes.length)

/-- `write`/`writev` on an open descriptor: appends -/
def sysWrite (o : Oracle) (k : K) (ino : Nat) (b : Bytes) : K × Bool :=
  match faultAt o k with
  | some (.crash p) => if k.crashed then (k, false) else ({ k with crashed := true, inodes := appendAt k.inodes ino (b.take p) }, false)
  | some (.err p) => ({ bump k with inodes := appendAt k.inodes ino (b.take p) }, false)
  | none => ({ bump k with inodes := appendAt k.inodes ino b }, true)

inductive LinkRes | ok | eexist | err
  deriving DecidableEq, Repr

/-- `linkat(/proc/self/fd/N, path)` -/
def sysLink (o : Oracle) (k : K) (ino a : Nat) : K × LinkRes :=
  match faultAt o k with
  | some (.crash _) => ({ k with crashed := true }, .err)
  | some (.err _) => (bump k, .err)
  | none => if (k.dir.lookup a).isSome then (bump k, .eexist) else ({ bump k with dir := k.dir ++ [(a, ino)] }, .ok)

/-- `fdatasync`, `close`: no effect on names or bytes in the process-crash model -/
def sysSync (o : Oracle) (k : K) : K × Bool :=
  match faultAt o k with
  | some (.crash _) => ({ k with crashed := true }, false)
  | some (.err _) => (bump k, false)
  | none => (bump k, true)

def eraseKey {α β : Type} [DecidableEq α] (a : α) (l : List (α × β)) : List (α × β) := l.filter (fun p => p.1 ≠ a)

/-- `unlink(path)` of an object name -/
def sysUnlink (o : Oracle) (k : K) (a : Nat) : K × Bool :=
  match faultAt o k with
  | some (.crash _) => ({ k with crashed := true }, false)
  | some (.err _) => (bump k, false)
  | none => ({ bump k with dir := eraseKey a k.dir }, true)

/-- `open(p#i, O_CREATE|O_EXCL)` of the generic writer -/
def sysOpenExcl (o : Oracle) (k : K) (t : Nat × Nat) : K × LinkRes × Nat :=
  match faultAt o k with
  | some (.crash _) => ({ k with crashed := true }, .err, 0)
  | some (.err _) => (bump k, .err, 0)
  | none =>
    if (k.tmps.lookup t).isSome then (bump k, .eexist, 0)
    else ({ bump k with inodes := k.inodes ++ [[]], tmps := k.tmps ++ [(t, k.inodes.length)] }, .ok, k.inodes.length)

/-- `rename(p#i, p)`: replaces the name atomically -/
def sysRename (o : Oracle) (k : K) (t : Nat × Nat) (ino a : Nat) : K × Bool :=
  match faultAt o k with
  | some (.crash _) => ({ k with crashed := true }, false)
  | some (.err _) => (bump k, false)
  | none => ({ bump k with dir := eraseKey a k.dir ++ [(a, ino)], tmps := eraseKey t k.tmps }, true)

/-! ## writers -/

/-- `syncBatch.intSync` -/
def intSync (cfg : Cfg) (o : Oracle) (k : K) (b : Batch) : K × Batch :=
  let r1 := if !b.err && !cfg.noSync then sysSync o k else (k, true)   -- fdatasync only while `err == nil`
  let e1 := b.err || !r1.2
  let r2 := sysSync o r1.1                                                 -- close(fd)
  let e2 := e1 || !r2.2
  -- `close(b.ready)`: a second close of the channel panics
  ({ r2.1 with panicked := r2.1.panicked || (b.hasReady && b.ready), done := (b.ino, e2) :: r2.1.done },
   { b with err := e2, ready := true })

/-- `syncBatch.write`; the `Bool` is "returned nil" -/
def sbWrite (cfg : Cfg) (o : Oracle) (k : K) (b : Batch) (a : Nat) (d : Bytes) : K × Batch × Bool :=
  let w := sysWrite o k b.ino (record a d)
  if !w.2 then
    let r := intSync cfg o w.1 { b with err := true }
    (r.1, r.2, false)
  else
    let b1 : Batch := { b with size := b.size + (dataOff + d.length), cnt := b.cnt + 1 }
    let l := sysLink o w.1 b.ino a
    match l.2 with
    | .err =>
      let r := intSync cfg o l.1 { b1 with err := true }
      (r.1, r.2, false)
    | _ => (l.1, b1, true)

/-- result of one caller of `writeCombinedFile` -/
inductive WRes | blocked | failed | pending (ino : Nat)
  deriving DecidableEq, Repr

/-- the rotation test of `writeCombinedFile`; `precFixed = false` is Go's reading of the unparenthesised
`err == nil && cnt >= countLimit || size >= sizeLimit` -/
def rotateTest (cfg : Cfg) (ok : Bool) (cnt size : Nat) : Bool :=
  if cfg.precFixed then ok && (decide (cnt ≥ cfg.countLimit) || decide (size ≥ cfg.sizeLimit))
  else (ok && decide (cnt ≥ cfg.countLimit)) || decide (size ≥ cfg.sizeLimit)

/-- `writeCombinedFile` once the batch `b` is chosen: write, rotation test, unlock -/
def wcTail (cfg : Cfg) (o : Oracle) (k : K) (b : Batch) (a : Nat) (d : Bytes) : K × WRes :=
  let w := sbWrite cfg o k b a d
  let r := if rotateTest cfg w.2.2 w.2.1.cnt w.2.1.size then intSync cfg o w.1 w.2.1 else (w.1, w.2.1)
  ({ r.1 with batch := some r.2, lockHeld := false }, if w.2.2 then .pending b.ino else .failed)

/-- `newSyncBatch`: a fresh O_TMPFILE for the batch -/
def openBatch (o : Oracle) (k : K) : K × Option Batch :=
  match sysOpen o k with
  | (k', some i) => (k', some { ino := i })
  | (k', none) => (k', none)

/-- the lock-protected section of `writeCombinedFile` (one atomic step of a schedule) -/
def writeCombined (cfg : Cfg) (o : Oracle) (k : K) (a : Nat) (d : Bytes) : K × WRes :=
  if k.lockHeld then (k, .blocked)
  else
    let needNew := match k.batch with | none => true | some b => b.ready
    let ob : K × Option Batch := if needNew then openBatch o k else (k, k.batch)
    match ob.2 with
    | none => ({ ob.1 with batch := none, lockHeld := !cfg.unlockFixed }, .failed)
    | some b => wcTail cfg o ob.1 b a d

/-- the timer firing `syncBatch.sync` (also `finalize`) -/
def tick (cfg : Cfg) (o : Oracle) (k : K) : K :=
  match k.batch with
  | none => k
  | some b =>
    if b.ready then k
    else let r := intSync cfg o k b; { r.1 with batch := some r.2 }

/-- `linuxWriter.writeFile` -/
def writeFile (o : Oracle) (k : K) (a : Nat) (d : Bytes) : K × Bool :=
  let r := sysOpen o k
  match r.2 with
  | none => (r.1, false)
  | some i =>
    let w := sysWrite o r.1 i d
    let l := if w.2 then sysLink o w.1 i a else (w.1, LinkRes.err)
    let c := sysSync o l.1                        -- close
    (c.1, w.2 && decide (l.2 ≠ .err) && c.2)

def batchLoop (cfg : Cfg) (o : Oracle) : K → Batch → List (Nat × Bytes) → K × Batch × Bool
  | k, b, [] => (k, b, true)
  | k, b, (a, d) :: rest =>
    let w := sbWrite cfg o k b a d
    if w.2.2 then batchLoop cfg o w.1 w.2.1 rest else w

/-- `linuxWriter.writeBatch` -/
def writeBatch (cfg : Cfg) (o : Oracle) (k : K) (items : List (Nat × Bytes)) : K × Bool :=
  let r := sysOpen o k
  match r.2 with
  | none => (r.1, false)
  | some i =>
    let w := batchLoop cfg o r.1 { ino := i, hasReady := false } items
    if !w.2.2 then (w.1, false)
    else let s := intSync cfg o w.1 w.2.1; (s.1, !s.2.err)

/-- `genericWriter.writeData`: attempts `p#0 … p#4` -/
def genericWrite (o : Oracle) : Nat → Nat → K → Nat → Bytes → K × Bool
  | 0, _, k, _, _ => (k, false)
  | tries + 1, i, k, a, d =>
    let r := sysOpenExcl o k (a, i)
    match r.2.1 with
    | .eexist => if tries = 0 then (r.1, false) else genericWrite o tries (i + 1) r.1 a d
    | .err => (r.1, false)
    | .ok =>
      let w := sysWrite o r.1 r.2.2 d
      if !w.2 then ((sysSync o w.1).1, false)      -- close, error returned
      else
        let c := sysSync o w.1                       -- close
        if !c.2 then (c.1, false)
        else sysRename o c.1 (a, i) r.2.2 a

/-! ## the API -/

inductive Out | ok | notFound | eof | err | blocked
  deriving DecidableEq, Repr

def doneErr (k : K) (ino : Nat) : Bool := (k.done.lookup ino).getD true

/-- `FSTree.Put` called alone: the caller's section, then the timer closes the batch, then `wait` -/
def put (cfg : Cfg) (o : Oracle) (k : K) (a : Nat) (d : Bytes) : K × Out :=
  if d = [] then (k, .eof)
  else if cfg.generic then
    let r := genericWrite o 5 0 k a d; (r.1, if r.2 then .ok else .err)
  else if d.length > cfg.threshold ∨ cfg.countLimit < 2 then
    let r := writeFile o k a d; (r.1, if r.2 then .ok else .err)
  else
    let r := writeCombined cfg o k a d
    match r.2 with
    | .blocked => (r.1, .blocked)
    | .failed => (r.1, .err)
    | .pending i => let k2 := tick cfg o r.1; (k2, if doneErr k2 i then .err else .ok)

def genericBatch (o : Oracle) : K → List (Nat × Bytes) → K × Bool
  | k, [] => (k, true)
  | k, (a, d) :: rest =>
    let r := genericWrite o 5 0 k a d
    if r.2 then genericBatch o r.1 rest else (r.1, false)

/-- `FSTree.PutBatch` (empty payloads are skipped) -/
def putBatch (cfg : Cfg) (o : Oracle) (k : K) (items : List (Nat × Bytes)) : K × Out :=
  let items := items.filter (fun p => p.2 ≠ [])
  let r := if cfg.generic then genericBatch o k items else writeBatch cfg o k items
  (r.1, if r.2 then .ok else .err)

/-- `FSTree.Delete` -/
def delete (o : Oracle) (k : K) (a : Nat) : K × Out :=
  match k.dir.lookup a with
  | none => (k, .notFound)
  | some _ => let r := sysUnlink o k a; (r.1, if r.2 then .ok else .err)

def fileOf (k : K) (a : Nat) : Option Bytes := (k.dir.lookup a).map (fun i => k.inodes.getD i [])

/-- stored bytes of `a` as `extractCombinedObject` finds them -/
def rawGet (k : K) (a : Nat) : Except Err Bytes :=
  match fileOf k a with
  | none => .error .notFound
  | some f => extractRaw a f

/-- `FSTree.GetBytes` / `Get` / the per-object read of `Iterate` -/
def get (dec : Bytes → Option Bytes) (k : K) (a : Nat) : Except Err Bytes := rawGet k a >>= decompress dec

/-- `FSTree.GetStream` (header ++ everything the payload stream delivers) and `Head` -/
def getStream (cfg : Cfg) (dec : Bytes → Option Bytes) (k : K) (a : Nat) : Except Err Bytes :=
  match fileOf k a with
  | none => .error .notFound
  | some f => streamRaw cfg.tailFixed cfg.bufLen a f >>= decompress dec

def «exists» (k : K) (a : Nat) : Bool := (k.dir.lookup a).isSome

/-- `FSTree.Iterate`: every name, objects that read as not-found are skipped -/
def iterate (dec : Bytes → Option Bytes) (k : K) : List (Nat × Except Err Bytes) :=
  (k.dir.map (fun p => (p.1, get dec k p.1))).filter (fun p => match p.2 with | .error .notFound => false | _ => true)

/-- process crash + reopen: volatile state is dropped, names and inodes stay -/
def recover (k : K) : K := { inodes := k.inodes, dir := k.dir, tmps := k.tmps }

/-- `CleanUpTmp`: the `p#i` names are removed -/
def cleanUpTmp (k : K) : K := { k with tmps := [] }

/-- a clean reopen (`Close` runs `finalize`, which syncs the open batch) -/
def reopen (cfg : Cfg) (o : Oracle) (k : K) : K := recover (tick cfg o k)


/-! ## one process running several API calls, stopped at any system call (C12)

`Api` is what a client of the tree does; `runApi` runs the calls one after the other in ONE process with a running
system-call index, so that the oracle `crashAt n` stops the process at the `n`-th call of the whole sequence — also
between two calls that no hook point of the code separates.  `crashImages` lists what a reopened tree can look like
after a process kill at each of these points (index = number of calls of the undisturbed run: the process survived). -/

inductive Api
  | put (a : Nat) (d : Bytes)
  | batch (items : List (Nat × Bytes))
  | del (a : Nat)
  deriving DecidableEq, Repr

def applyApi (cfg : Cfg) (o : Oracle) (k : K) : Api → K × Out
  | .put a d => put cfg o k a d
  | .batch items => putBatch cfg o k items
  | .del a => delete o k a

def runApi (cfg : Cfg) (o : Oracle) (k : K) (ops : List Api) : K := ops.foldl (fun k op => (applyApi cfg o k op).1) k

/-- the oracle "stop at system call `n`" (a write in progress has appended `p` bytes) -/
def crashAt (n p : Nat) : Oracle := fun i => if i = n then some (.crash p) else none

def crashImages (cfg : Cfg) (k : K) (ops : List Api) : List K :=
  (List.range ((runApi cfg noFault k ops).n + 1)).map fun n => cleanUpTmp (recover (runApi cfg (crashAt n 0) k ops))

/-! ## the portable writer as a step machine: concurrent callers of `genericWriter.writeData`

One step = one system call of one caller (the code between two hook points `fstree.after.generic.*`).  A schedule
is a list of caller indices; `gsched` runs it.  Every prefix of a schedule followed by `recover` is a crash point of
that interleaving. -/

inductive GPhase
  | atOpen (i : Nat)                    -- about to `open(p#i, O_CREATE|O_EXCL)`
  | atWrite (i ino : Nat)                -- `p#i` is open (inode `ino`), about to `write`
  | atClose (i ino : Nat) (wok : Bool)   -- written (`wok`: completely), about to `close`
  | atRename (i ino : Nat)               -- about to `rename(p#i, p)`
  | atReturn                                  -- about to return an error
  | done (ok : Bool)                     -- returned
  deriving DecidableEq, Repr

/-- attempts `p#0 … p#4` -/
def genericRetries : Nat := 5

def gstep (o : Oracle) (k : K) (a : Nat) (d : Bytes) : GPhase → K × GPhase
  | .atOpen i =>
    let r := sysOpenExcl o k (a, i)
    match r.2.1 with
    | .ok => (r.1, .atWrite i r.2.2)
    | .eexist => (r.1, if i + 1 < genericRetries then .atOpen (i + 1) else .atReturn)
    | .err => (r.1, .atReturn)
  | .atWrite i ino => let w := sysWrite o k ino d; (w.1, .atClose i ino w.2)
  | .atClose i ino wok => let c := sysSync o k; (c.1, if wok && c.2 then .atRename i ino else .atReturn)
  | .atRename i ino => let r := sysRename o k (a, i) ino a; (r.1, .done r.2)
  | .atReturn => (k, .done false)
  | .done ok => (k, .done ok)

/-- one caller of `Put` on the portable writer -/
structure GW where
  a : Nat
  d : Bytes
  ph : GPhase := .atOpen 0
  deriving DecidableEq, Repr

def gschedStep (o : Oracle) (s : K × List GW) (n : Nat) : K × List GW :=
  match s.2[n]? with
  | none => s
  | some w => let r := gstep o s.1 w.a w.d w.ph; (r.1, s.2.set n { w with ph := r.2 })

def gsched (o : Oracle) (k : K) (ws : List GW) (sched : List Nat) : K × List GW := sched.foldl (gschedStep o) (k, ws)

/-- the schedule that lets every caller run to its end, one caller after the other (a caller makes at most
5 opens, a write, a close, a rename and a return) -/
def gfinishSched (n : Nat) : List Nat := (List.range n).flatMap fun i => List.replicate 12 i

end NeoFS.FSTree
