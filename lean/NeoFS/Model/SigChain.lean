/-
Model of request signature-chain verification (C33) and of the Replicate admission decision (C31).

C33 follows `neofscrypto.VerifyRequestWithBufferN3` (neofs-sdk-go crypto/proto.go) as called by
`internal/crypto/requests.go` (`verifyRequestSignatures`, `requestNeedsSignature`).

A request is `body`, a chain of meta headers (outermost first; `[]` = nil header) and a chain of
verification headers (outermost first; `[]` = nil header). `Option VH` nested through `Origin` is
isomorphic to a list, so "the origin of layer i" is `drop (i+1)`.

The signature primitive is a parameter (`Scheme`): an arbitrary decision function per
(scheme, key, message, signature); nothing cryptographic is proved. Core Lean only.
-/
namespace NeoFS.SigChain

abbrev Bytes := List Nat

/-- `refs.Signature`: key, sign, scheme (int32 on the wire, may be negative or unknown). -/
structure Sig where
  key : Bytes
  sign : Bytes
  scheme : Int
  deriving DecidableEq, Repr

/-- One `RequestVerificationHeader` without its `Origin`; `tag` stands for the remaining content that the
encoder sees (the model never inspects it). -/
structure VLayer where
  metaSig : Option Sig
  originSig : Option Sig
  bodySig : Option Sig
  tag : Bytes := []
  deriving DecidableEq, Repr

/-- The fields of one `RequestMetaHeader` that verification reads (version selects the protocol variant,
TTL the one-hop exemption) plus the opaque rest. -/
structure MLayer where
  hasVersion : Bool
  major : Nat
  minor : Nat
  ttl : Nat
  rest : Bytes := []
  deriving DecidableEq, Repr

structure Req where
  body : Bytes
  metas : List MLayer
  vs : List VLayer
  deriving Repr

/-- Stable-marshal encoders of a meta header chain and of a verification header chain (both include the
nested origins; the encoding of a nil header is `enc []`). Parameters of the model. -/
structure Enc where
  encM : List MLayer → Bytes
  encV : List VLayer → Bytes

/-- The signature primitives as the code sees them: which scheme numbers have a registered public-key
type, whether key bytes decode under a scheme, the verification function, and the N3 witness check
(`verifyN3(data, invocationScript = Sign, verificationScript = Key)`). -/
structure Scheme where
  supported : Int → Bool
  decodable : Int → Bytes → Bool
  verify : Int → Bytes → Bytes → Bytes → Bool
  n3 : Bytes → Bytes → Bytes → Bool

inductive SigErr where
  | ok | missingKey | negScheme | unsupported | badKey | mismatch | n3fail
  deriving DecidableEq, Repr

/-- `verifyMessageSignatureN3` / `VerifyMessageSignature`. `n3on` = an N3 verifier was supplied. -/
def checkSig (S : Scheme) (n3on : Bool) (msg : Bytes) (s : Sig) : SigErr :=
  if s.scheme == 3 && n3on then (if S.n3 msg s.sign s.key then .ok else .n3fail)
  else if s.key.isEmpty then .missingKey
  else if s.scheme < 0 then .negScheme
  else if !S.supported s.scheme then .unsupported
  else if !S.decodable s.scheme s.key then .badKey
  else if S.verify s.scheme s.key msg s.sign then .ok else .mismatch

inductive Cause where
  | missingMetaSig | invalidMetaSig (e : SigErr)
  | missingOriginSig | invalidOriginSig (e : SigErr)
  | missingBodySig | invalidBodySig (e : SigErr)
  | nonOriginBodySig
  deriving DecidableEq, Repr

inductive Res where
  | ok
  | missingVerifyHdr
  | wrongVerifyHdrNum
  | layer (depth : Nat) (c : Cause)
  /-- `m.Origin` evaluated on a nil meta header in the loop's post statement (never happens: theorem). -/
  | nilDeref
  deriving DecidableEq, Repr

/-- `needsOriginSig`: origin signatures (the whole chain) are required unless the OUTERMOST meta header
carries a version ≥ 2.25. -/
def needsOriginSig : List MLayer → Bool
  | [] => true
  | m :: _ => !m.hasVersion || m.major < 2 || (m.major == 2 && m.minor < 25)

/-- One signature requirement: present and verifying, else the matching cause. -/
def sigStep (S : Scheme) (n3on : Bool) (o : Option Sig) (msg : Bytes)
    (missing : Cause) (invalid : SigErr → Cause) : Option Cause :=
  match o with
  | none => some missing
  | some s =>
    match checkSig S n3on msg s with
    | .ok => none
    | e => some (invalid e)

/-- The verification loop: `i` = depth, `ms` / the list argument = the current `m` / `v` pointers. -/
def walk (S : Scheme) (n3on : Bool) (E : Enc) (body : Bytes) (chk : Bool) :
    Nat → List MLayer → List VLayer → Res
  | _, _, [] => .missingVerifyHdr
  | i, ms, v :: vo =>
    match sigStep S n3on v.metaSig (E.encM ms) .missingMetaSig .invalidMetaSig with
    | some c => .layer i c
    | none =>
      match (if chk then sigStep S n3on v.originSig (E.encV vo) .missingOriginSig .invalidOriginSig else none) with
      | some c => .layer i c
      | none =>
        if !chk || vo.isEmpty then
          match sigStep S n3on v.bodySig body .missingBodySig .invalidBodySig with
          | some c => .layer i c
          | none => .ok
        else if v.bodySig.isSome then .layer i .nonOriginBodySig
        else match ms with
          | [] => .nilDeref
          | _ :: mo => walk S n3on E body chk (i + 1) mo vo

/-- number of origins below the top header (a nil header has none) -/
def origins {α : Type} (l : List α) : Nat := l.length - 1

/-- `VerifyRequestWithBufferN3`. -/
def verifyReq (S : Scheme) (n3on : Bool) (E : Enc) (r : Req) : Res :=
  if r.vs.isEmpty then .missingVerifyHdr
  else
    let chk := needsOriginSig r.metas
    if chk && origins r.metas != origins r.vs then .wrongVerifyHdrNum
    else walk S n3on E r.body chk 0 r.metas r.vs

/-- The three entry points of internal/crypto/requests.go. -/
inductive Api where
  | plain   -- VerifyRequestSignatures: always verifies, no N3
  | ctx     -- VerifyRequestSignaturesWithContext: exemption, no N3
  | n3      -- VerifyRequestSignaturesN3: exemption, N3 witnesses checked
  deriving DecidableEq, Repr

/-- `requestNeedsSignature`. -/
def needsSignature (trusted : Bool) (r : Req) : Bool :=
  if !r.vs.isEmpty then true
  else match r.metas with
    | [] => true
    | m :: _ => if m.ttl != 1 then true else !trusted

def entry (S : Scheme) (E : Enc) (api : Api) (trusted : Bool) (r : Req) : Res :=
  match api with
  | .plain => verifyReq S false E r
  | .ctx => if needsSignature trusted r then verifyReq S false E r else .ok
  | .n3 => if needsSignature trusted r then verifyReq S true E r else .ok

/-! ## `GetRequestAuthor` (internal/crypto/requests.go): whose request is it

The author is read off the body signature of the TOP verification header — never off a nested origin: in the
≥ 2.25 variant the top layer is the only one `verifyReq` looks at, in the chain variant a top layer with origins
carries no body signature at all. -/

inductive Author where
  /-- "missing verification header" -/
  | noHeader
  /-- "missing body signature" -/
  | noBodySig
  /-- "unsupported scheme" -/
  | badScheme
  /-- an ECDSA scheme with key bytes that do not decode: the decoding error is dropped and the nil key is
  dereferenced (the call panics) -/
  | nilKey
  /-- the author is the account derived from this signature's key (ECDSA: the key's user id; N3: the account of
  the verification script) and the key bytes are returned with it -/
  | key (s : Sig)
  deriving DecidableEq, Repr

/-- what `GetRequestAuthor` answers for one body-signature field -/
def authorOfSig (S : Scheme) : Option Sig → Author
  | none => .noBodySig
  | some s =>
    if s.scheme == 0 || s.scheme == 1 || s.scheme == 2 then
      (if S.decodable s.scheme s.key then .key s else .nilKey)
    else if s.scheme == 3 then .key s
    else .badScheme

/-- `GetRequestAuthor(vh)`: the top layer only. -/
def requestAuthor (S : Scheme) : List VLayer → Author
  | [] => .noHeader
  | v :: _ => authorOfSig S v.bodySig

/-- The historical rule "the original sender signs the body": descend to the innermost verification header first.
NOT what the code does; kept to show (Props/C33 `innermost_author_unverified`) that the statement about
`requestAuthor` separates the two. -/
def innermostAuthor (S : Scheme) : List VLayer → Author
  | [] => .noHeader
  | [v] => authorOfSig S v.bodySig
  | _ :: v :: vo => innermostAuthor S (v :: vo)

/-! ## C31: the decision of `Server.Replicate` (pkg/services/object/server.go) together with the
container-node iteration it consults (pkg/services/object/placement/service.go `forEachContainerNode`). -/

/-- What the handler reads from one replication request. Keys and containers are small ids; whether the
signature verifies over the bytes of `Object.ObjectId.Value` under the stated key and scheme, whether the key
bytes decode and whether the object message decodes are inputs (ideal signature scheme, SDK decoders). -/
structure RepReq where
  objPresent : Bool         -- req.Object != nil
  idPresent : Bool          -- Object.ObjectId != nil ∧ len(Value) > 0
  sigPresent : Bool         -- req.Signature != nil
  keyEmpty : Bool           -- len(Signature.Key) == 0
  signEmpty : Bool          -- len(Signature.Sign) == 0
  scheme : Int              -- Signature.Scheme
  hdrPresent : Bool         -- Object.Header != nil
  cnrPresent : Bool         -- Header.ContainerId != nil
  cnrValid : Bool           -- cid.ID.FromProtoMessage succeeds
  keyDecodes : Bool         -- pubKey.Decode(Signature.Key) succeeds
  sigValid : Bool           -- pubKey.Verify(ObjectId.Value, Signature.Sign)
  key : Nat                 -- identity of the Signature.Key bytes
  objDecodes : Bool         -- object.FromProtoMessage succeeds
  signObject : Bool         -- req.SignObject
  deriving DecidableEq, Repr

/-- Result of applying the container's policy to the network map of one epoch (a cached result may carry
a policy-application error). -/
inductive Sel where
  | nodes (ks : List Nat)
  | policyErr
  deriving DecidableEq, Repr

inductive StoreRes where
  | ok | busy | fail
  deriving DecidableEq, Repr

/-- What the node's environment answers for the request's container. -/
structure RepEnv where
  epochFails : Bool         -- network.Epoch() returns an error
  cnrFound : Bool           -- containers.Get succeeds (otherwise ErrContainerNotFound)
  epoch : Nat               -- the current epoch
  cur : Option Sel          -- policy applied at the current epoch; none = the network map cannot be read
  prev : Option Sel         -- … at the previous epoch (consulted only if epoch > 0)
  own : List Nat            -- keys for which IsOwnPublicKey answers true
  store : StoreRes          -- what VerifyAndStoreObjectLocally would answer (full validation + write)
  signFails : Bool          -- metaInfoSignature returns an error
  deriving Repr

inductive Look where
  | done (found : Bool)     -- iteration finished without error; found = the callback stopped it
  | notFound                -- error wrapping ErrContainerNotFound
  | otherErr
  deriving DecidableEq, Repr

def Sel.any (s : Sel) (p : Nat → Bool) : Bool :=
  match s with
  | .nodes ks => ks.any p
  | .policyErr => false

def Sel.isErr : Sel → Bool
  | .policyErr => true
  | .nodes _ => false

/-- `forEachContainerNode(cnr, withPrevEpoch, f)` where `f` stops at the first key satisfying `p`. -/
def forEachNode (env : RepEnv) (withPrev : Bool) (p : Nat → Bool) : Look :=
  if env.epochFails then .otherErr
  else if !env.cnrFound then .notFound
  else match env.cur with
    | none => .otherErr
    | some c =>
      if c.any p then .done true
      else if !withPrev || env.epoch == 0 then (if c.isErr then .otherErr else .done false)
      else match env.prev with
        | none => .otherErr
        | some pv =>
          if pv.any p then .done true
          else if c.isErr || pv.isErr then .otherErr else .done false

inductive RepStatus where
  | ok
  | badObjMissing | badIdMissing | badSigMissing | badKeyMissing | badSignMissing | badScheme
  | badHdrMissing | badCnrMissing | badCnrInvalid | badKeyInvalid | badSigMismatch
  | cnrNotFound | internalPolicy | deniedServer | deniedClient
  | badObject | busy | internalStore | internalSign
  deriving DecidableEq, Repr

/-- Outcome: the response status, whether `VerifyAndStoreObjectLocally` was called, and whether the
response carries an object signature. -/
structure RepOut where
  status : RepStatus
  storeCalled : Bool := false
  signed : Bool := false
  deriving DecidableEq, Repr

def refuse (s : RepStatus) : RepOut := { status := s }

/-- The request-side checks in the order the handler makes them: (failed?, status answered). -/
def reqChecks (r : RepReq) : List (Bool × RepStatus) :=
  [ (!r.objPresent, .badObjMissing),
    (!r.idPresent, .badIdMissing),
    (!r.sigPresent, .badSigMissing),
    (r.keyEmpty, .badKeyMissing),
    (r.signEmpty, .badSignMissing),
    (!(r.scheme == 0 || r.scheme == 1 || r.scheme == 2), .badScheme),
    (!r.hdrPresent, .badHdrMissing),
    (!r.cnrPresent, .badCnrMissing),
    (!r.cnrValid, .badCnrInvalid),
    (!r.keyDecodes, .badKeyInvalid),
    (!r.sigValid, .badSigMismatch) ]

/-- first failing request-side check -/
def preCheck (r : RepReq) : Option RepStatus :=
  ((reqChecks r).find? (·.1)).map (·.2)

/-- the two membership checks: local node at the current epoch, then sender key in the last two epochs -/
def netCheck (env : RepEnv) (key : Nat) : Option RepStatus :=
  match forEachNode env false (fun k => env.own.contains k) with
  | .notFound => some .cnrNotFound
  | .otherErr => some .internalPolicy
  | .done false => some .deniedServer
  | .done true =>
    match forEachNode env true (fun k => k == key) with
    | .notFound => some .cnrNotFound
    | .otherErr => some .internalPolicy
    | .done false => some .deniedClient
    | .done true => none

/-- decode, store, optionally sign -/
def finish (env : RepEnv) (r : RepReq) : RepOut :=
  if !r.objDecodes then refuse .badObject
  else match env.store with
    | .busy => { status := .busy, storeCalled := true }
    | .fail => { status := .internalStore, storeCalled := true }
    | .ok =>
      if r.signObject then
        (if env.signFails then { status := .internalSign, storeCalled := true }
         else { status := .ok, storeCalled := true, signed := true })
      else { status := .ok, storeCalled := true }

/-- `Server.Replicate`. -/
def replicate (env : RepEnv) (r : RepReq) : RepOut :=
  match preCheck r with
  | some s => refuse s
  | none =>
    match netCheck env r.key with
    | some s => refuse s
    | none => finish env r

end NeoFS.SigChain
