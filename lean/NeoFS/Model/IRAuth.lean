/-
Model of the inner ring's alphabet-membership arithmetic (C35): `keyPosition`/`innerRingIndexer`
(pkg/innerring/indexer.go), `Server.AlphabetIndex/IsAlphabet` (state.go), the guard of
`voteForFSChainValidator` (state.go), and the effect counts of the netmap new-epoch handler / tick
(processors/netmap/process_epoch.go) and the gas emission (processors/alphabet/process_emit.go).
Keys are natural numbers.  Core Lean only.
-/
namespace NeoFS.IRAuth

/-- `keyPosition`: index of the first occurrence, `-1` when absent -/
def keyPosition (key : Nat) : List Nat → Int
  | [] => -1
  | k :: ks => if k = key then 0 else
      let r := keyPosition key ks
      if r < 0 then -1 else r + 1

/-- `Server.AlphabetIndex()`: `-1` when the indexer fails to fetch the lists -/
def alphabetIndex (fetchFails : Bool) (key : Nat) (committee : List Nat) : Int :=
  if fetchFails then -1 else keyPosition key committee

/-- `Server.IsAlphabet()` -/
def isAlphabet (idx : Int) : Bool := idx ≥ 0

/-- number of `NotaryInvoke(vote)` calls of `voteForFSChainValidator` (repaired guard) -/
def voteInvokes (aidx : Int) (n nval : Nat) (allVoted : Bool) : Nat :=
  if aidx < 0 ∨ aidx ≥ n then 0
  else if nval = 0 then 0
  else if allVoted then 0
  else n

/-- the guard before the repair: inner ring index, upper bound only -/
def voteInvokesUnfixed (iridx : Int) (n nval : Nat) (allVoted : Bool) : Nat :=
  if iridx ≥ n then 0
  else if nval = 0 then 0
  else if allVoted then 0
  else n

/-- alphabet notary scripts sent by `processNewEpoch` (one per listed container) -/
def epochEffects (alpha changed : Bool) (cnrs : Nat) : Nat := if changed && alpha then cnrs else 0

/-- before the repair the placement update was not guarded -/
def epochEffectsUnfixed (_alpha changed : Bool) (cnrs : Nat) : Nat := if changed then cnrs else 0

def tickEffects (alpha : Bool) : Nat := if alpha then 1 else 0

/-- `processEmit`: one `emit` invoke, then one gas transfer per network map node when emission is on -/
def emitEffects (aidx : Int) (n nodes emission : Nat) : Nat :=
  if aidx < 0 then 0
  else if aidx ≥ n then 0
  else 1 + (if emission = 0 then 0 else nodes)

end NeoFS.IRAuth
