/-
Model of the write-cache bookkeeping (`pkg/local_object_storage/writecache`): the cache's file tree
(`files : address ↦ stored length`), the counters (`size`, `objMap`) and the main storage.

Atomic steps: `put`, `delete`, one `flushSingle` (read the file, put to main storage — which may fail —,
delete from the cache), `flushAll` (`Flush(false)`: `flushSingle` over the files, stops at the first error),
reopen (`initCounters` recounts from the files).  The background scheduler only ever calls the same
`flushSingle`/`flushBatch` steps, so a schedule is a sequence of these steps with a failure oracle.
-/
namespace NeoFS.WC

structure St where
  files : List (Nat × Nat) := []     -- sorted by address, unique
  objMap : List (Nat × Nat) := []    -- sorted by address, unique
  size : Nat := 0
  main : List (Nat × Nat) := []      -- main storage: address ↦ length
  maxSize : Nat
  deriving Repr, DecidableEq

def insertKV (k v : Nat) : List (Nat × Nat) → List (Nat × Nat)
  | [] => [(k, v)]
  | x :: xs => if k < x.1 then (k, v) :: x :: xs else if k = x.1 then (k, v) :: xs else x :: insertKV k v xs

def lookup (k : Nat) (l : List (Nat × Nat)) : Option Nat := (l.find? (·.1 == k)).map (·.2)

def erase (k : Nat) (l : List (Nat × Nat)) : List (Nat × Nat) := l.filter (·.1 != k)

def total (l : List (Nat × Nat)) : Nat := (l.map (·.2)).sum

inductive Err | ok | noSpace | notFound | storage
  deriving DecidableEq, Repr

/-- `counters.Add` (repaired: the previous size of a known address is replaced) -/
def ctrAdd (s : St) (a n : Nat) : St :=
  { s with size := s.size - (lookup a s.objMap).getD 0 + n, objMap := insertKV a n s.objMap }

/-- `counters.Delete` -/
def ctrDelete (s : St) (a : Nat) : St :=
  { s with size := s.size - (lookup a s.objMap).getD 0, objMap := erase a s.objMap }

/-- `cache.put` -/
def put (s : St) (a n : Nat) : St × Err :=
  if s.maxSize < s.size + n then (s, .noSpace)
  else (ctrAdd { s with files := insertKV a n s.files } a n, .ok)

/-- `cache.delete` -/
def delete (s : St) (a : Nat) : St × Err :=
  match lookup a s.files with
  | none => (s, .notFound)
  | some _ => (ctrDelete { s with files := erase a s.files } a, .ok)

/-- `flushSingle(addr, ignoreErrors = false)`; `storageOK` is the failure oracle of the main storage -/
def flushSingle (s : St) (a : Nat) (storageOK : Bool) : St × Err :=
  match lookup a s.files with
  | none => (s, .ok)                       -- already gone: nothing to flush
  | some n =>
    if !storageOK then (s, .storage)
    else ((delete { s with main := insertKV a n s.main } a).1, .ok)

/-- `Flush(false)`: every file, in address order, until the first error -/
def flushAll (s : St) (storageOK : Bool) : St × Err :=
  s.files.foldl (fun (acc : St × Err) f =>
    if acc.2 != .ok then acc else flushSingle acc.1 f.1 storageOK) (s, .ok)

/-- reopen: `initCounters` accounts every file that is not accounted yet (starting from empty counters) -/
def reopen (s : St) : St := { s with objMap := s.files, size := total s.files }

end NeoFS.WC
