import NeoFS.Model.EC
/-
Model of one policer pass over one local object (`pkg/services/policer/check.go`, `ec.go`) and of the
replicator's task loop (`pkg/services/replicator/process.go`).

Nodes are natural numbers; the local node is `Env.me` (a number that occurs in no list = "local node absent").
A remote node is described by three functions of the environment:
  `flag n`  — the node is in the MAINTENANCE state in the network map (`NodeInfo.IsMaintenance`);
  `ans n`   — what a HEAD request to it returns (`holds` = header read, `notFound`, `maint` = the
              "node under maintenance" status, `err` = anything else: timeout, unreachable, …);
  `repl n`  — whether replicating the object to it succeeds.
`readable` says whether the replicator can read the object from the local storage.

`legacy = true` is the code before the repair: the `uncheckedCopies` test was the last `else if` of the decision
chain of `processNodes`, and nodes under maintenance counted for `atLeastOneHolder`; `legacy = false` is the code
as it is now.
-/
namespace NeoFS.Policer

inductive Ans | holds | notFound | maint | err
  deriving DecidableEq, Repr

inductive OType | regular | tombstone | lock | link
  deriving DecidableEq, Repr

structure Env where
  me : Nat
  inNetmap : Bool
  flag : Nat → Bool
  ans : Nat → Ans
  repl : Nat → Bool
  readable : Bool := true
  /-- op `task`: the context of `HandleTask` is cancelled while the object is being sent to this node … -/
  cutAt : Option Nat := none
  /-- … and the node nevertheless stored the object and its answer arrived (otherwise the transfer failed) -/
  cutStored : Bool := false

/-- one `replicator.Task` together with the successes the replicator reported for it -/
structure Task where
  quantity : Nat
  nodes : List Nat
  done : List Nat
  deriving DecidableEq, Repr

/-! ### `Replicator.HandleTask` -/

/-- the node loop of `HandleTask`: stop when `quantity` copies were made; the local node cannot be a
target when the task carries no object (`task.obj == nil`, always so for policer tasks of stored objects) -/
def sendLoop (e : Env) : Nat → List Nat → List Nat
  | _, [] => []
  | q, n :: ns =>
    if q = 0 then []
    else if n = e.me then sendLoop e q ns
    else if e.repl n then n :: sendLoop e (q - 1) ns
    else sendLoop e q ns

/-- `HandleTask`: nothing happens when the object cannot be read from the local storage -/
def handleTask (e : Env) (q : Nat) (nodes : List Nat) : List Nat :=
  if e.readable then sendLoop e q nodes else []

/-! ### `processNodes` -/

/-- `processPlacementContext` (+ the logs the correspondence run compares) -/
structure Ctx where
  inCnr : Bool := false              -- localNodeInContainer
  need : Bool := false               -- needLocalCopy
  cache : List (Nat × Bool) := []    -- nodeCache.nodes: newest first; true = holder, false = candidate
  unchk : List Nat := []             -- nodeCache.unchecked: holders under maintenance (never checked)
  heads : List Nat := []             -- remote HEAD requests issued, in order
  tasks : List Task := []            -- replication tasks issued, in order
  deriving Repr

def cacheGet (c : List (Nat × Bool)) (n : Nat) : Option Bool := (c.find? (·.1 == n)).map (·.2)

/-- the loop variables of `processNodes` -/
structure Loop where
  shortage : Nat
  unchecked : Nat := 0
  cands : List Nat := []
  deriving Repr

/-- `shortage--` on the `uint32` counter of `processNodes`: wraps at zero -/
def dec32 (n : Nat) : Nat := if n = 0 then 4294967295 else n - 1

/-- `handleMaintenance` -/
def onMaint (c : Ctx) (l : Loop) (n : Nat) : Ctx × Loop :=
  ({ c with cache := (n, true) :: c.cache, unchk := n :: c.unchk }, { l with shortage := dec32 l.shortage, unchecked := l.unchecked + 1 })

/-- the body of the node loop for node `n` -/
def nodeStep (e : Env) (c : Ctx) (l : Loop) (n : Nat) : Ctx × Loop :=
  let isLocal := n = e.me
  let c := { c with inCnr := c.inCnr || isLocal }
  if l.shortage = 0 then (c, l)                       -- still looking for the local node
  else if isLocal then ({ c with need := true }, { l with shortage := dec32 l.shortage })
  else if e.flag n then onMaint c l n
  else match cacheGet c.cache n with
    | some true => (c, l)
    | some false => (c, { l with cands := l.cands ++ [n] })
    | none =>
      let c := { c with heads := c.heads ++ [n] }
      match e.ans n with
      | .notFound => ({ c with cache := (n, false) :: c.cache }, { l with cands := l.cands ++ [n] })
      | .maint => onMaint c l n
      | .err => (c, l)
      | .holds => ({ c with cache := (n, true) :: c.cache }, { l with shortage := dec32 l.shortage })

/-- `for i := 0; (!plc.localNodeInContainer || shortage > 0) && i < len(nodes); i++` -/
def walk (e : Env) : Ctx → Loop → List Nat → Ctx × Loop
  | c, l, [] => (c, l)
  | c, l, n :: ns =>
    if c.inCnr && l.shortage = 0 then (c, l)
    else
      let r := nodeStep e c l n
      walk e r.1 r.2 ns

/-- `tryToReplicate` with the node cache as the task result -/
def replicate (e : Env) (c : Ctx) (q : Nat) (nodes : List Nat) : Ctx :=
  let done := handleTask e q nodes
  { c with cache := done.foldl (fun acc n => (n, true) :: acc) c.cache,
           tasks := c.tasks ++ [{ quantity := q, nodes := nodes, done := done }] }

/-- the decision chain after the node loop -/
def finish (e : Env) (legacy : Bool) (c : Ctx) (l : Loop) : Ctx :=
  if legacy then
    if l.shortage > 0 then replicate e c l.shortage l.cands
    else if l.cands ≠ [] then replicate e c l.cands.length l.cands
    else if l.unchecked > 0 then { c with need := true }
    else c
  else if l.shortage > 0 then replicate e c l.shortage l.cands
  else
    let c := if l.cands ≠ [] then replicate e c l.cands.length l.cands else c
    if l.unchecked > 0 then { c with need := true } else c

def isBroadcast (t : OType) : Bool := t = .lock || t = .link

/-- the shortage a list starts with: LOCK and LINK objects are wanted on every node of the list (copy numbers are
`uint32` in the protocol, so the conversion `uint32(repRules[i])` loses nothing) -/
def startShortage (t : OType) (nodes : List Nat) (copies : Nat) : Nat :=
  if isBroadcast t then nodes.length else copies

def processNodes (e : Env) (legacy : Bool) (t : OType) (c : Ctx) (nodes : List Nat) (copies : Nat) : Ctx :=
  let r := walk e c { shortage := startShortage t nodes copies } nodes
  finish e legacy r.1 r.2

/-! ### `processECPartByRule` -/

structure ECLoop where
  cands : List Nat := []
  maint : Bool := false
  heads : List Nat := []
  deriving Repr

inductive ECStop | hold | drop | after
  deriving DecidableEq, Repr

/-- the node loop of `processECPartByRule` over the part's node sequence -/
def ecWalk (e : Env) : ECLoop → List Nat → ECLoop × ECStop
  | l, [] => (l, .after)
  | l, n :: ns =>
    if n = e.me then (l, if l.cands.isEmpty then .hold else .after)
    else
      let l := { l with heads := l.heads ++ [n] }
      match e.ans n with
      | .holds => (l, .drop)
      | .maint => ecWalk e { l with maint := true } ns
      | .notFound => ecWalk e { l with cands := l.cands ++ [n] } ns
      | .err => ecWalk e l ns

inductive Mark | dflt | redundant
  deriving DecidableEq, Repr

/-- what one pass did -/
structure Out where
  dels : List Mark := []        -- localStorage.Delete calls
  shardDrop : Bool := false     -- localStorage.DeleteRedundantCopies called
  heads : List Nat := []
  tasks : List Task := []
  deriving Repr

def ecPartByRule (e : Env) (seq : List Nat) : Out :=
  let r := ecWalk e {} seq
  match r.2 with
  | .hold => { heads := r.1.heads }
  | .drop => { dels := [.redundant], heads := r.1.heads }
  | .after =>
    if r.1.maint then { heads := r.1.heads }
    else if r.1.cands.isEmpty then { heads := r.1.heads }
    else
      let done := handleTask e 1 r.1.cands
      let t : Task := { quantity := 1, nodes := r.1.cands, done := done }
      if done ≠ [] then { dels := [.redundant], heads := r.1.heads, tasks := [t] }
      else { heads := r.1.heads, tasks := [t] }

/-! ### `processObject` -/

inductive NetRes | ok | noContainer | otherErr
  deriving DecidableEq, Repr

structure Obj where
  typ : OType
  ec : Option (Nat × Nat) := none     -- (rule index, part index) of an EC part
  shards : Nat := 1                   -- number of local shards holding the object
  deriving Repr

/-- the result of `Network.GetNodesForObject`: `lists` = REP lists followed by EC lists -/
structure Placement where
  net : NetRes := .ok
  lists : List (List Nat)
  rep : List Nat
  ecRules : List (Nat × Nat) := []    -- (data, parity)
  deriving Repr

/-- the REP rules `processObject` iterates over, each with its node list -/
def effVectors (o : Obj) (p : Placement) : List (List Nat × Nat) :=
  let rules :=
    if p.ecRules.isEmpty then p.rep
    else match o.typ with
      | .tombstone => p.rep ++ (p.lists.drop p.rep.length).map List.length
      | .lock | .link => p.rep ++ p.ecRules.map fun _ => 0
      | .regular => p.rep
  p.lists.zip rules

def runVectors (e : Env) (legacy : Bool) (t : OType) : Ctx → List (List Nat × Nat) → Ctx
  | c, [] => c
  | c, v :: vs => runVectors e legacy t (processNodes e legacy t c v.1 v.2) vs

/-- `nodeCache.atLeastOneHolder`: some node's *current* value is true (and, since the repair, the node is
not an unchecked holder) -/
def atLeastOneHolder (legacy : Bool) (c : Ctx) : Bool :=
  c.cache.any fun p => cacheGet c.cache p.1 == some true && (legacy || !c.unchk.contains p.1)

/-- the tail of `processObject` after the lists were processed -/
def verdict (e : Env) (legacy : Bool) (o : Obj) (c : Ctx) (pre : List Mark) : Out :=
  if !c.need then
    if !c.inCnr && (!e.inNetmap || !atLeastOneHolder legacy c) then
      { dels := pre, heads := c.heads, tasks := c.tasks }
    else { dels := pre ++ [.redundant], heads := c.heads, tasks := c.tasks }
  else
    { dels := pre, heads := c.heads, tasks := c.tasks,
      shardDrop := Decidable.decide (2 ≤ o.shards) && o.typ = .regular }

/-- the node list of EC rule `ri` (the lists of the EC rules follow those of the REP rules; the network
contract `len(lists) = len(rep) + len(ec)` makes the index valid) -/
def ecNodes (p : Placement) (ri : Nat) : List Nat := (p.lists.drop p.rep.length)[ri]?.getD []

/-- the nodes of `iec.NodeSequenceForPart(partIdx, total, len(nodes))`, in order -/
def partSeq (nodes : List Nat) (pi total : Nat) : List Nat :=
  (NeoFS.EC.nodeSeq pi total nodes.length).filterMap (nodes[·]?)

def repPart (e : Env) (legacy : Bool) (o : Obj) (p : Placement) (pre : List Mark) : Out :=
  verdict e legacy o (runVectors e legacy o.typ {} (effVectors o p)) pre

def processObject (e : Env) (legacy : Bool) (o : Obj) (p : Placement) : Out :=
  match p.net with
  | .noContainer => { dels := [.dflt] }
  | .otherErr => {}
  | .ok =>
    match o.ec with
    | some (ri, pi) =>
      if !p.ecRules.isEmpty then
        match p.ecRules[ri]? with
        | none => { dels := [.dflt] }
        | some (d, par) =>
          if pi ≥ d + par then { dels := [.dflt] }
          else
            ecPartByRule e (partSeq (ecNodes p ri) pi (d + par))
      else
        -- EC attributes in a container without EC rules: deleted, and (no `return` in the code) the
        -- REP lists are still processed
        repPart e legacy o p [.dflt]
    | none =>
      if !p.ecRules.isEmpty && o.typ = .regular && p.rep.isEmpty then { dels := [.dflt] }
      else repPart e legacy o p []

/-! ### `Replicator.HandleTask` with a context cancelled in flight, and with the object carried by the task (op `task`) -/

/-- the remote node `n` really stored the object when it was sent to it -/
def storedBy (e : Env) (n : Nat) : Bool := e.repl n && (e.cutAt != some n || e.cutStored)

/-- the node loop of `HandleTask`.  `withObj`: the task carries the object (`task.obj != nil`), so the local node
is a legal target (local `Put`).  When the context is cancelled during the transfer to `e.cutAt` the transfer
fails unless the node had already stored and answered (`cutStored`); the next iteration sees `ctx.Done()`. -/
def sendLoopC (e : Env) (withObj : Bool) : Nat → List Nat → List Nat
  | _, [] => []
  | q, n :: ns =>
    if q = 0 then []
    else if n = e.me then (if withObj then n :: sendLoopC e withObj (q - 1) ns else sendLoopC e withObj q ns)
    else if e.cutAt = some n then (if storedBy e n then [n] else [])
    else if e.repl n then n :: sendLoopC e withObj (q - 1) ns
    else sendLoopC e withObj q ns

def handleTaskC (e : Env) (withObj : Bool) (q : Nat) (nodes : List Nat) : List Nat :=
  if withObj || e.readable then sendLoopC e withObj q nodes else []

/-! ### `checkECParts` / `recreateECParts`: health check of the sibling parts of a local EC part (op `recreate`) -/

/-- what the nodes answer when asked for the parts of the object: `stat p n` for part `p` and node `n` (for the
local node: the local storage); `rfail p`: reading the payload of part `p` fails everywhere -/
structure PartsEnv where
  stat : Nat → Nat → Ans
  rfail : Nat → Bool

inductive HeadRes | found | skip | missing
  deriving DecidableEq, Repr

/-- the HEAD loop over the node sequence of one part: the nodes asked and the outcome -/
def headPart (st : Nat → Ans) : List Nat → List Nat × HeadRes
  | [] => ([], .missing)
  | n :: ns =>
    match st n with
    | .holds => ([n], .found)
    | .maint => ([n], .skip)
    | _ => let r := headPart st ns; (n :: r.1, r.2)

structure Chk where
  missing : List Nat := []
  skip : List Nat := []
  heads : List (Nat × Nat) := []     -- (part, node) HEAD requests incl. the local storage
  ranges : List (Nat × Nat) := []    -- (part, node) payload requests incl. the local storage
  abort : Bool := false
  deriving Repr

/-- "too many EC parts unavailable" -/
def Chk.full (s : Chk) (parity : Nat) : Bool := decide (parity ≤ s.missing.length + s.skip.length)

/-- one iteration of the `headNextPart` loop -/
def headStep (pe : PartsEnv) (nodes : List Nat) (total parity lp : Nat) (s : Chk) (p : Nat) : Chk :=
  if s.abort || p = lp then s
  else
    let r := headPart (pe.stat p) (partSeq nodes p total)
    let s := { s with heads := s.heads ++ r.1.map fun n => (p, n) }
    match r.2 with
    | .found => s
    | .skip => if s.full parity then { s with abort := true } else { s with skip := s.skip ++ [p] }
    | .missing => if s.full parity then { s with abort := true } else { s with missing := s.missing ++ [p] }

/-- the payload loop over the node sequence of one available part: nodes asked, success -/
def rangePart (pe : PartsEnv) (me p lp : Nat) : List Nat → List Nat × Bool
  | [] => ([], false)
  | n :: ns =>
    if n = me && p = lp then rangePart pe me p lp ns          -- the local part was tried before the loop
    else if pe.stat p n = .holds && !pe.rfail p then ([n], true)
    else let r := rangePart pe me p lp ns; (n :: r.1, r.2)

/-- one iteration of the `getNextPart` loop -/
def rangeStep (pe : PartsEnv) (me : Nat) (nodes : List Nat) (total parity lp : Nat) (s : Chk) (p : Nat) : Chk :=
  if s.abort || s.skip.contains p || s.missing.contains p then s
  else if p = lp && !pe.rfail p then { s with ranges := s.ranges ++ [(p, me)] }
  else
    let s := if p = lp then { s with ranges := s.ranges ++ [(p, me)] } else s
    let r := rangePart pe me p lp (partSeq nodes p total)
    let s := { s with ranges := s.ranges ++ r.1.map fun n => (p, n) }
    if r.2 then s
    else if s.full parity then { s with abort := true } else { s with skip := s.skip ++ [p] }

/-- `checkECParts` up to the call of `recreateECParts`: the parts to re-create (empty when nothing is lost or
when too many parts are unavailable) together with the request logs -/
def checkParts (pe : PartsEnv) (me : Nat) (nodes : List Nat) (total parity lp : Nat) : Chk :=
  let s := (List.range total).foldl (headStep pe nodes total parity lp) {}
  if s.abort || s.missing.isEmpty then { s with missing := [] }
  else
    let s := (List.range total).foldl (rangeStep pe me nodes total parity lp) s
    if s.abort then { s with missing := [] } else s

/-- a re-created part handed to the replicator -/
structure RecTask where
  part : Nat
  nodes : List Nat      -- the order in which the nodes are offered the part
  done : List Nat
  deriving DecidableEq, Repr

/-- `recreateECPart`: the part is offered to the nodes in the part's own node order, one copy is asked for, the
task carries the object (the local node is a legal target) -/
def recreatePart (e : Env) (nodes : List Nat) (total : Nat) (p : Nat) : RecTask :=
  let order := partSeq nodes p total
  { part := p, nodes := order, done := handleTaskC e true 1 order }

/-- `checkECParts` + `recreateECParts` for the local part `lp` of an object split into `total` parts
(`parity` of them parity parts) over the node list `nodes` of its EC rule -/
def recreate (e : Env) (pe : PartsEnv) (nodes : List Nat) (total parity lp : Nat) : Chk × List RecTask :=
  let s := checkParts pe e.me nodes total parity lp
  (s, s.missing.map (recreatePart e nodes total))

/-! ### a cluster: the nodes that hold one object, and policer cycles over them (C27)

Every holder runs the pass above with itself as the local node.  Remote nodes answer truthfully from the
shared state (`holds` iff the node is a holder), nodes that are `down` answer with an error and refuse
replicas; nodes of `maint` are in the MAINTENANCE state in the network map (they are not asked, would answer with
the maintenance status, refuse replicas and do not run their own policer); a successful replication makes the
target a holder, a deletion removes the local node. -/

structure Cluster where
  typ : OType := .regular
  plc : Placement := { lists := [], rep := [] }
  hold : List Nat := []          -- sorted, duplicate-free
  deriving Repr

def addNode (n : Nat) : List Nat → List Nat
  | [] => [n]
  | x :: xs => if n < x then n :: x :: xs else if n = x then x :: xs else x :: addNode n xs

def clusterEnv (down maint hold : List Nat) (me : Nat) : Env :=
  { me := me, inNetmap := true, flag := fun n => maint.contains n,
    ans := fun n => if down.contains n then .err else if maint.contains n then .maint
                    else if hold.contains n then .holds else .notFound,
    repl := fun n => !down.contains n && !maint.contains n, readable := true }

/-- the pass of holder `me` -/
def passOf (cl : Cluster) (down maint : List Nat) (me : Nat) : Out :=
  processObject (clusterEnv down maint cl.hold me) false { typ := cl.typ } cl.plc

/-- the holders after the pass of `me`: replicas made are added, a deleted local copy is removed -/
def holdersAfter (hold : List Nat) (me : Nat) (out : Out) : List Nat :=
  let h1 := (out.tasks.flatMap (·.done)).foldl (fun h n => addNode n h) hold
  if out.dels.isEmpty then h1 else h1.filter (· != me)

/-- one node's turn in a cycle: nodes that do not hold the object, or are down, do nothing -/
def turn (down maint : List Nat) (acc : Cluster × Nat × List Nat) (me : Nat) : Cluster × Nat × List Nat :=
  let cl := acc.1
  if !cl.hold.contains me || down.contains me || maint.contains me then acc
  else
    let out := passOf cl down maint me
    ({ cl with hold := holdersAfter cl.hold me out }, acc.2.1 + out.tasks.length,
      if out.dels.isEmpty then acc.2.2 else acc.2.2 ++ [me])

/-- one cycle: the nodes of `order` take their turns one after another; returns the cluster, the number of
replication tasks issued and the nodes that dropped their copy -/
def round (cl : Cluster) (order down maint : List Nat) : Cluster × Nat × List Nat :=
  order.foldl (turn down maint) (cl, 0, [])

end NeoFS.Policer
