import NeoFS.Model.EC
/-
Model of one policer pass over one local object (`pkg/services/policer/check.go`, `ec.go`) and of the
replicator's task loop (`pkg/services/replicator/process.go`).

Nodes are natural numbers; the local node is `Env.me` (a number that occurs in no list = "local node absent").
A remote node is described by three functions of the environment:
  `flag n`  — the node is in the MAINTENANCE state in the network map (`NodeInfo.IsMaintenance`);
  `ans n`   — what a HEAD request to it returns (`holds` = header read, `notFound`, `maint` = the
              "node under maintenance" status, `err` = anything else: timeout, unreachable, …);
  `repl n`  — whether replicating the object to it succeeds.
`readable` says whether the replicator can read the object from the local storage.

`legacy = true` is the code before the repair: the `uncheckedCopies` test was the last `else if` of the decision
chain of `processNodes`, and nodes under maintenance counted for `atLeastOneHolder`; `legacy = false` is the code
as it is now.
-/
namespace NeoFS.Policer

inductive Ans | holds | notFound | maint | err
  deriving DecidableEq, Repr

inductive OType | regular | tombstone | lock | link
  deriving DecidableEq, Repr

structure Env where
  me : Nat
  inNetmap : Bool
  flag : Nat → Bool
  ans : Nat → Ans
  repl : Nat → Bool
  readable : Bool := true

/-- one `replicator.Task` together with the successes the replicator reported for it -/
structure Task where
  quantity : Nat
  nodes : List Nat
  done : List Nat
  deriving DecidableEq, Repr

/-! ### `Replicator.HandleTask` -/

/-- the node loop of `HandleTask`: stop when `quantity` copies were made; the local node cannot be a
target when the task carries no object (`task.obj == nil`, always so for policer tasks of stored objects) -/
def sendLoop (e : Env) : Nat → List Nat → List Nat
  | _, [] => []
  | q, n :: ns =>
    if q = 0 then []
    else if n = e.me then sendLoop e q ns
    else if e.repl n then n :: sendLoop e (q - 1) ns
    else sendLoop e q ns

/-- `HandleTask`: nothing happens when the object cannot be read from the local storage -/
def handleTask (e : Env) (q : Nat) (nodes : List Nat) : List Nat :=
  if e.readable then sendLoop e q nodes else []

/-! ### `processNodes` -/

/-- `processPlacementContext` (+ the logs the correspondence run compares) -/
structure Ctx where
  inCnr : Bool := false              -- localNodeInContainer
  need : Bool := false               -- needLocalCopy
  cache : List (Nat × Bool) := []    -- nodeCache.nodes: newest first; true = holder, false = candidate
  unchk : List Nat := []             -- nodeCache.unchecked: holders under maintenance (never checked)
  heads : List Nat := []             -- remote HEAD requests issued, in order
  tasks : List Task := []            -- replication tasks issued, in order
  deriving Repr

def cacheGet (c : List (Nat × Bool)) (n : Nat) : Option Bool := (c.find? (·.1 == n)).map (·.2)

/-- the loop variables of `processNodes` -/
structure Loop where
  shortage : Nat
  unchecked : Nat := 0
  cands : List Nat := []
  deriving Repr

/-- `handleMaintenance` -/
def onMaint (c : Ctx) (l : Loop) (n : Nat) : Ctx × Loop :=
  ({ c with cache := (n, true) :: c.cache, unchk := n :: c.unchk }, { l with shortage := l.shortage - 1, unchecked := l.unchecked + 1 })

/-- the body of the node loop for node `n` -/
def nodeStep (e : Env) (c : Ctx) (l : Loop) (n : Nat) : Ctx × Loop :=
  let isLocal := n = e.me
  let c := { c with inCnr := c.inCnr || isLocal }
  if l.shortage = 0 then (c, l)                       -- still looking for the local node
  else if isLocal then ({ c with need := true }, { l with shortage := l.shortage - 1 })
  else if e.flag n then onMaint c l n
  else match cacheGet c.cache n with
    | some true => (c, l)
    | some false => (c, { l with cands := l.cands ++ [n] })
    | none =>
      let c := { c with heads := c.heads ++ [n] }
      match e.ans n with
      | .notFound => ({ c with cache := (n, false) :: c.cache }, { l with cands := l.cands ++ [n] })
      | .maint => onMaint c l n
      | .err => (c, l)
      | .holds => ({ c with cache := (n, true) :: c.cache }, { l with shortage := l.shortage - 1 })

/-- `for i := 0; (!plc.localNodeInContainer || shortage > 0) && i < len(nodes); i++` -/
def walk (e : Env) : Ctx → Loop → List Nat → Ctx × Loop
  | c, l, [] => (c, l)
  | c, l, n :: ns =>
    if c.inCnr && l.shortage = 0 then (c, l)
    else
      let r := nodeStep e c l n
      walk e r.1 r.2 ns

/-- `tryToReplicate` with the node cache as the task result -/
def replicate (e : Env) (c : Ctx) (q : Nat) (nodes : List Nat) : Ctx :=
  let done := handleTask e q nodes
  { c with cache := done.foldl (fun acc n => (n, true) :: acc) c.cache,
           tasks := c.tasks ++ [{ quantity := q, nodes := nodes, done := done }] }

/-- the decision chain after the node loop -/
def finish (e : Env) (legacy : Bool) (c : Ctx) (l : Loop) : Ctx :=
  if legacy then
    if l.shortage > 0 then replicate e c l.shortage l.cands
    else if l.cands ≠ [] then replicate e c l.cands.length l.cands
    else if l.unchecked > 0 then { c with need := true }
    else c
  else if l.shortage > 0 then replicate e c l.shortage l.cands
  else
    let c := if l.cands ≠ [] then replicate e c l.cands.length l.cands else c
    if l.unchecked > 0 then { c with need := true } else c

def isBroadcast (t : OType) : Bool := t = .lock || t = .link

/-- the shortage a list starts with: LOCK and LINK objects are wanted on every node of the list -/
def startShortage (t : OType) (nodes : List Nat) (copies : Nat) : Nat :=
  if isBroadcast t then nodes.length else copies

def processNodes (e : Env) (legacy : Bool) (t : OType) (c : Ctx) (nodes : List Nat) (copies : Nat) : Ctx :=
  let r := walk e c { shortage := startShortage t nodes copies } nodes
  finish e legacy r.1 r.2

/-! ### `processECPartByRule` -/

structure ECLoop where
  cands : List Nat := []
  maint : Bool := false
  heads : List Nat := []
  deriving Repr

inductive ECStop | hold | drop | after
  deriving DecidableEq, Repr

/-- the node loop of `processECPartByRule` over the part's node sequence -/
def ecWalk (e : Env) : ECLoop → List Nat → ECLoop × ECStop
  | l, [] => (l, .after)
  | l, n :: ns =>
    if n = e.me then (l, if l.cands.isEmpty then .hold else .after)
    else
      let l := { l with heads := l.heads ++ [n] }
      match e.ans n with
      | .holds => (l, .drop)
      | .maint => ecWalk e { l with maint := true } ns
      | .notFound => ecWalk e { l with cands := l.cands ++ [n] } ns
      | .err => ecWalk e l ns

inductive Mark | dflt | redundant
  deriving DecidableEq, Repr

/-- what one pass did -/
structure Out where
  dels : List Mark := []        -- localStorage.Delete calls
  shardDrop : Bool := false     -- localStorage.DeleteRedundantCopies called
  heads : List Nat := []
  tasks : List Task := []
  deriving Repr

def ecPartByRule (e : Env) (seq : List Nat) : Out :=
  let r := ecWalk e {} seq
  match r.2 with
  | .hold => { heads := r.1.heads }
  | .drop => { dels := [.redundant], heads := r.1.heads }
  | .after =>
    if r.1.maint then { heads := r.1.heads }
    else if r.1.cands.isEmpty then { heads := r.1.heads }
    else
      let done := handleTask e 1 r.1.cands
      let t : Task := { quantity := 1, nodes := r.1.cands, done := done }
      if done ≠ [] then { dels := [.redundant], heads := r.1.heads, tasks := [t] }
      else { heads := r.1.heads, tasks := [t] }

/-! ### `processObject` -/

inductive NetRes | ok | noContainer | otherErr
  deriving DecidableEq, Repr

structure Obj where
  typ : OType
  ec : Option (Nat × Nat) := none     -- (rule index, part index) of an EC part
  shards : Nat := 1                   -- number of local shards holding the object
  deriving Repr

/-- the result of `Network.GetNodesForObject`: `lists` = REP lists followed by EC lists -/
structure Placement where
  net : NetRes := .ok
  lists : List (List Nat)
  rep : List Nat
  ecRules : List (Nat × Nat) := []    -- (data, parity)
  deriving Repr

/-- the REP rules `processObject` iterates over, each with its node list -/
def effVectors (o : Obj) (p : Placement) : List (List Nat × Nat) :=
  let rules :=
    if p.ecRules.isEmpty then p.rep
    else match o.typ with
      | .tombstone => p.rep ++ (p.lists.drop p.rep.length).map List.length
      | .lock | .link => p.rep ++ p.ecRules.map fun _ => 0
      | .regular => p.rep
  p.lists.zip rules

def runVectors (e : Env) (legacy : Bool) (t : OType) : Ctx → List (List Nat × Nat) → Ctx
  | c, [] => c
  | c, v :: vs => runVectors e legacy t (processNodes e legacy t c v.1 v.2) vs

/-- `nodeCache.atLeastOneHolder`: some node's *current* value is true (and, since the repair, the node is
not an unchecked holder) -/
def atLeastOneHolder (legacy : Bool) (c : Ctx) : Bool :=
  c.cache.any fun p => cacheGet c.cache p.1 == some true && (legacy || !c.unchk.contains p.1)

/-- the tail of `processObject` after the lists were processed -/
def verdict (e : Env) (legacy : Bool) (o : Obj) (c : Ctx) (pre : List Mark) : Out :=
  if !c.need then
    if !c.inCnr && (!e.inNetmap || !atLeastOneHolder legacy c) then
      { dels := pre, heads := c.heads, tasks := c.tasks }
    else { dels := pre ++ [.redundant], heads := c.heads, tasks := c.tasks }
  else
    { dels := pre, heads := c.heads, tasks := c.tasks,
      shardDrop := Decidable.decide (2 ≤ o.shards) && o.typ = .regular }

/-- the node list of EC rule `ri` (the lists of the EC rules follow those of the REP rules; the network
contract `len(lists) = len(rep) + len(ec)` makes the index valid) -/
def ecNodes (p : Placement) (ri : Nat) : List Nat := (p.lists.drop p.rep.length)[ri]?.getD []

/-- the nodes of `iec.NodeSequenceForPart(partIdx, total, len(nodes))`, in order -/
def partSeq (nodes : List Nat) (pi total : Nat) : List Nat :=
  (NeoFS.EC.nodeSeq pi total nodes.length).filterMap (nodes[·]?)

def repPart (e : Env) (legacy : Bool) (o : Obj) (p : Placement) (pre : List Mark) : Out :=
  verdict e legacy o (runVectors e legacy o.typ {} (effVectors o p)) pre

def processObject (e : Env) (legacy : Bool) (o : Obj) (p : Placement) : Out :=
  match p.net with
  | .noContainer => { dels := [.dflt] }
  | .otherErr => {}
  | .ok =>
    match o.ec with
    | some (ri, pi) =>
      if !p.ecRules.isEmpty then
        match p.ecRules[ri]? with
        | none => { dels := [.dflt] }
        | some (d, par) =>
          if pi ≥ d + par then { dels := [.dflt] }
          else
            ecPartByRule e (partSeq (ecNodes p ri) pi (d + par))
      else
        -- EC attributes in a container without EC rules: deleted, and (no `return` in the code) the
        -- REP lists are still processed
        repPart e legacy o p [.dflt]
    | none =>
      if !p.ecRules.isEmpty && o.typ = .regular && p.rep.isEmpty then { dels := [.dflt] }
      else repPart e legacy o p []

/-! ### a cluster: the nodes that hold one object, and policer cycles over them (C27)

Every holder runs the pass above with itself as the local node.  Remote nodes answer truthfully from the
shared state (`holds` iff the node is a holder), nodes that are `down` answer with an error and refuse
replicas; a successful replication makes the target a holder, a deletion removes the local node. -/

structure Cluster where
  typ : OType := .regular
  plc : Placement := { lists := [], rep := [] }
  hold : List Nat := []          -- sorted, duplicate-free
  deriving Repr

def addNode (n : Nat) : List Nat → List Nat
  | [] => [n]
  | x :: xs => if n < x then n :: x :: xs else if n = x then x :: xs else x :: addNode n xs

def clusterEnv (down hold : List Nat) (me : Nat) : Env :=
  { me := me, inNetmap := true, flag := fun _ => false,
    ans := fun n => if down.contains n then .err else if hold.contains n then .holds else .notFound,
    repl := fun n => !down.contains n, readable := true }

/-- the pass of holder `me` -/
def passOf (cl : Cluster) (down : List Nat) (me : Nat) : Out :=
  processObject (clusterEnv down cl.hold me) false { typ := cl.typ } cl.plc

/-- the holders after the pass of `me`: replicas made are added, a deleted local copy is removed -/
def holdersAfter (hold : List Nat) (me : Nat) (out : Out) : List Nat :=
  let h1 := (out.tasks.flatMap (·.done)).foldl (fun h n => addNode n h) hold
  if out.dels.isEmpty then h1 else h1.filter (· != me)

/-- one node's turn in a cycle: nodes that do not hold the object, or are down, do nothing -/
def turn (down : List Nat) (acc : Cluster × Nat × List Nat) (me : Nat) : Cluster × Nat × List Nat :=
  let cl := acc.1
  if !cl.hold.contains me || down.contains me then acc
  else
    let out := passOf cl down me
    ({ cl with hold := holdersAfter cl.hold me out }, acc.2.1 + out.tasks.length,
      if out.dels.isEmpty then acc.2.2 else acc.2.2 ++ [me])

/-- one cycle: the nodes of `order` take their turns one after another; returns the cluster, the number of
replication tasks issued and the nodes that dropped their copy -/
def round (cl : Cluster) (order down : List Nat) : Cluster × Nat × List Nat :=
  order.foldl (turn down) (cl, 0, [])

end NeoFS.Policer
