/-
Model of `internal/signed256/signed256.go` and of the integer-string readers of
`pkg/core/object/metadata.go` (`splitIntString`, `compareIntStrings`).

* `I256` mirrors `signed256.Int` (`neg` + 256-bit magnitude).  Well-formed
  values (`I256.WF`) have `mag < 2^256` and the canonical zero (`mag = 0 → neg = false`),
  which every constructor of the Go type establishes.
* bytes are `Nat`s below 256, byte strings are `List Nat`.
* `uint256.Int.SetFromDecimal` (third party) is modelled by `u256Parse`, including
  its tolerance for ONE leading `+` and for leading zeros; `uint256.Int.Dec` by `natToDec`.
-/
namespace NeoFS.Int256

def two256 : Nat := 2 ^ 256
def encodedLen : Nat := 33

structure I256 where
  neg : Bool
  mag : Nat
  deriving DecidableEq, Repr

def I256.WF (z : I256) : Prop := z.mag < two256 ∧ (z.mag = 0 → z.neg = false)

instance (z : I256) : Decidable z.WF := by unfold I256.WF; exact inferInstance

def I256.toInt (z : I256) : Int := if z.neg then -(z.mag : Int) else (z.mag : Int)

/-- canonical constructor: `neg && mag != 0` as every Go setter does. -/
def mk (neg : Bool) (mag : Nat) : I256 := { neg := neg && mag != 0, mag := mag }

/-- `k` big-endian base-256 digits of `n` (`uint256.Int.Bytes32` for `k = 32`). -/
def beBytes : Nat → Nat → List Nat
  | 0, _ => []
  | k + 1, n => (n / 256 ^ k) % 256 :: beBytes k (n % 256 ^ k)

/-- big-endian bytes to number (`SetBytes32`). -/
def fromBE (l : List Nat) : Nat := l.foldl (fun acc b => acc * 256 + b) 0

def compl (b : Nat) : Nat := 255 - b

/-- `Int.EncodeBytes` / `FillBytes`. -/
def encode (z : I256) : List Nat :=
  (if z.neg then 0 else 1) ::
    (if z.neg then (beBytes 32 z.mag).map compl else beBytes 32 z.mag)

/-- `DecodeBytes`. -/
def decode (b : List Nat) : Option I256 :=
  if b.length ≠ encodedLen then none else
  match b with
  | [] => none
  | s :: raw =>
    if s = 0 then some (mk true (fromBE (raw.map compl)))
    else if s = 1 then some (mk false (fromBE raw))
    else none

/-- `bytes.Compare`. -/
def lexCmp : List Nat → List Nat → Ordering
  | [], [] => .eq
  | [], _ :: _ => .lt
  | _ :: _, [] => .gt
  | x :: xs, y :: ys => if x < y then .lt else if y < x then .gt else lexCmp xs ys

def ordNat (a b : Nat) : Ordering := if a < b then .lt else if b < a then .gt else .eq
def ordInt (a b : Int) : Ordering := if a < b then .lt else if b < a then .gt else .eq

/-- `Int.Cmp` (-1/0/+1 as `Ordering`). -/
def cmp (z x : I256) : Ordering :=
  if z.neg ≠ x.neg then (if z.neg then .lt else .gt)
  else
    let c := ordNat z.mag x.mag
    if z.neg then c.swap else c

/-! ### decimal strings -/

def isDigit (c : Char) : Bool := '0' ≤ c && c ≤ '9'
def digitVal (c : Char) : Nat := c.toNat - '0'.toNat

/-- value of a digit string, most significant first. -/
def decVal (s : List Char) : Nat := s.foldl (fun acc c => acc * 10 + digitVal c) 0

/-- `uint256.Int.SetFromDecimal`: at most one leading `+` is dropped, then the rest must be a
non-empty digit string whose value fits 256 bits. -/
def u256Parse (s : List Char) : Option Nat :=
  let s1 := match s with
    | '+' :: r => r
    | _ => s
  if s1.isEmpty then none
  else if s1.all isDigit then
    (if decVal s1 < two256 then some (decVal s1) else none)
  else none

/-- `Int.SetFromDecimal` / `ParseDecimal`. -/
def parseDecimal (s : List Char) : Option I256 :=
  match s with
  | [] => none
  | c :: r =>
    let (neg, body) := if c = '+' then (false, r) else if c = '-' then (true, r) else (false, c :: r)
    if body.isEmpty then none
    else if body.head? = some '+' then none   -- a second sign is rejected before uint256 sees it
    else (u256Parse body).map (fun m => mk neg m)

/-- `ParseNormalizedDecimal(neg, digits)`. -/
def parseNormalized (neg : Bool) (digits : List Char) : Option I256 :=
  if digits.isEmpty then none
  else if digits.all isDigit then
    (if decVal digits < two256 then some (mk neg (decVal digits)) else none)
  else none

/-- decimal digits of a number, most significant first (`uint256.Int.Dec`), fuel-driven. -/
def natToDecAux : Nat → Nat → List Char → List Char
  | 0, _, acc => acc
  | fuel + 1, n, acc =>
    let acc' := Char.ofNat ('0'.toNat + n % 10) :: acc
    if n / 10 = 0 then acc' else natToDecAux fuel (n / 10) acc'

def natToDec (n : Nat) : List Char := natToDecAux (n + 1) n []

/-- `Int.String`. -/
def toDec (z : I256) : List Char :=
  if z.mag = 0 then ['0'] else if z.neg then '-' :: natToDec z.mag else natToDec z.mag

/-- `splitIntString` of metadata.go: sign, digits without leading zeros (or "0"). -/
def splitIntString (s : List Char) : Option (Bool × List Char) :=
  match s with
  | [] => none
  | c :: r =>
    let (neg, body) := if c = '-' then (true, r) else if c = '+' then (false, r) else (false, c :: r)
    if body.isEmpty then none
    else
      let d := body.dropWhile (· = '0')
      if d.all isDigit then
        (if d.isEmpty then some (false, ['0']) else some (neg, d))
      else none

def lexCmpChars (a b : List Char) : Ordering := lexCmp (a.map Char.toNat) (b.map Char.toNat)

/-- `compareIntStrings`. -/
def compareIntStrings (a b : List Char) : Option Ordering :=
  match splitIntString a, splitIntString b with
  | some (na, da), some (nb, db) =>
    if na ≠ nb then some (if na then .lt else .gt)
    else if da.length ≠ db.length then
      (if da.length < db.length then some (if na then .gt else .lt)
       else some (if na then .lt else .gt))
    else
      let c := lexCmpChars da db
      some (if na then c.swap else c)
  | _, _ => none

end NeoFS.Int256
