/-
Hand model of `Server.isValidRequest` of both control services
(pkg/services/control/server/sign.go, pkg/services/control/ir/server/sign.go — the two files differ only in
an import and one message text): signature present → key in the allowed list → body marshals → key decodes →
signature verifies over exactly the body bytes. Tied by engine `rpc` (ctl / irctl lines).
-/
namespace NeoFS.CtlAuth

/-- What the check looks at. `sigValid` is the ideal-signature fact "the signature bytes verify under the
carried key over the bytes of the carried body" (ECDSA itself is in the trusted base). -/
structure Req where
  hasSig : Bool
  key : Nat
  bodyMarshals : Bool := true
  keyDecodes : Bool := true
  sigValid : Bool
  deriving Repr

inductive Verdict | ok | missingSignature | disallowedKey | marshal | badKey | invalidSignature
  deriving DecidableEq, Repr

def isValidRequest (allowed : List Nat) (r : Req) : Verdict :=
  if !r.hasSig then .missingSignature
  else if !allowed.contains r.key then .disallowedKey
  else if !r.bodyMarshals then .marshal
  else if !r.keyDecodes then .badKey
  else if !r.sigValid then .invalidSignature
  else .ok

/-- request kinds of the engine; key 1 is the configured administrator key, key 2 is not configured -/
def reqOfKind : String → Option Req
  | "ok" => some { hasSig := true, key := 1, sigValid := true }
  | "nosig" => some { hasSig := false, key := 0, sigValid := false }
  | "wrongkey" => some { hasSig := true, key := 2, sigValid := true }
  | "corrupt" => some { hasSig := true, key := 1, sigValid := false }
  | "badsig" => some { hasSig := true, key := 1, sigValid := false }
  | "badkey" => some { hasSig := true, key := 2, keyDecodes := false, sigValid := false }
  | _ => none

end NeoFS.CtlAuth
