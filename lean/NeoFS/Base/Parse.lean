/-
Line protocol helpers shared by the model driver: `engine name k=v k=v …`.
Core Lean only (the driver is linked as an executable).
-/
namespace NeoFS

structure OpLine where
  engine : String
  name   : String
  kv     : List (String × String)
  deriving Repr

def splitKV (t : String) : Option (String × String) :=
  match t.splitOn "=" with
  | k :: v :: rest => some (k, String.intercalate "=" (v :: rest))
  | _ => none

def parseOp (line : String) : OpLine :=
  let toks := (line.splitOn " ").filter (· ≠ "")
  match toks with
  | [] => { engine := "", name := "", kv := [] }
  | [e] => { engine := e, name := "", kv := [] }
  | e :: n :: rest => { engine := e, name := n, kv := rest.filterMap splitKV }

def OpLine.get? (o : OpLine) (k : String) : Option String :=
  (o.kv.find? (·.1 == k)).map (·.2)

def OpLine.nat? (o : OpLine) (k : String) : Option Nat :=
  (o.get? k).bind String.toNat?

def OpLine.int? (o : OpLine) (k : String) : Option Int :=
  (o.get? k).bind String.toInt?

/-- `-` is the empty list, otherwise comma separated naturals. -/
def parseNats (s : String) : Option (List Nat) :=
  if s == "-" || s == "" then some []
  else (s.splitOn ",").mapM String.toNat?

def OpLine.nats? (o : OpLine) (k : String) : Option (List Nat) :=
  (o.get? k).bind parseNats

def showNats (xs : List Nat) : String :=
  if xs.isEmpty then "-" else String.intercalate "," (xs.map toString)

def showInts (xs : List Int) : String :=
  if xs.isEmpty then "-" else String.intercalate "," (xs.map toString)

end NeoFS

namespace NeoFS

def hexDigitVal (c : Char) : Option Nat :=
  if '0' ≤ c && c ≤ '9' then some (c.toNat - '0'.toNat)
  else if 'a' ≤ c && c ≤ 'f' then some (c.toNat - 'a'.toNat + 10)
  else if 'A' ≤ c && c ≤ 'F' then some (c.toNat - 'A'.toNat + 10)
  else none

/-- hex string (optionally terminated by `_`) to bytes. -/
def hexToBytes (s : String) : Option (List Nat) :=
  let rec go : List Char → List Nat → Option (List Nat)
    | [], acc => some acc.reverse
    | ['_'], acc => some acc.reverse
    | a :: b :: r, acc =>
      match hexDigitVal a, hexDigitVal b with
      | some x, some y => go r ((x * 16 + y) :: acc)
      | _, _ => none
    | _, _ => none
  go s.toList []

def hexDigit (n : Nat) : Char :=
  if n < 10 then Char.ofNat ('0'.toNat + n) else Char.ofNat ('a'.toNat + n - 10)

def bytesToHex (b : List Nat) : String :=
  String.ofList (b.flatMap fun x => [hexDigit (x / 16 % 16), hexDigit (x % 16)])

def OpLine.bytes? (o : OpLine) (k : String) : Option (List Nat) :=
  (o.get? k).bind hexToBytes

/-- bytes of a hex field as characters (Go strings are byte strings). -/
def OpLine.chars? (o : OpLine) (k : String) : Option (List Char) :=
  (o.bytes? k).map (·.map Char.ofNat)

end NeoFS
