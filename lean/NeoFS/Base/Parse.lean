/-
Line protocol helpers shared by the model driver: `engine name k=v k=v …`.
Core Lean only (the driver is linked as an executable).
-/
namespace NeoFS

structure OpLine where
  engine : String
  name   : String
  kv     : List (String × String)
  deriving Repr

def splitKV (t : String) : Option (String × String) :=
  match t.splitOn "=" with
  | k :: v :: rest => some (k, String.intercalate "=" (v :: rest))
  | _ => none

def parseOp (line : String) : OpLine :=
  let toks := (line.splitOn " ").filter (· ≠ "")
  match toks with
  | [] => { engine := "", name := "", kv := [] }
  | [e] => { engine := e, name := "", kv := [] }
  | e :: n :: rest => { engine := e, name := n, kv := rest.filterMap splitKV }

def OpLine.get? (o : OpLine) (k : String) : Option String :=
  (o.kv.find? (·.1 == k)).map (·.2)

def OpLine.nat? (o : OpLine) (k : String) : Option Nat :=
  (o.get? k).bind String.toNat?

def OpLine.int? (o : OpLine) (k : String) : Option Int :=
  (o.get? k).bind String.toInt?

/-- `-` is the empty list, otherwise comma separated naturals. -/
def parseNats (s : String) : Option (List Nat) :=
  if s == "-" || s == "" then some []
  else (s.splitOn ",").mapM String.toNat?

def OpLine.nats? (o : OpLine) (k : String) : Option (List Nat) :=
  (o.get? k).bind parseNats

def showNats (xs : List Nat) : String :=
  if xs.isEmpty then "-" else String.intercalate "," (xs.map toString)

def showInts (xs : List Int) : String :=
  if xs.isEmpty then "-" else String.intercalate "," (xs.map toString)

end NeoFS
