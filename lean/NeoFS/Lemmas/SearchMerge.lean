import NeoFS.Lemmas.SearchOrder
/-!
The loops of `MergeSearchResults` (`selectMin`, `advance`, `moreAtLimit`, `mergeLoop`) and of
`calcMaxUniqueSearchResults` (`calcItems`, `calcSets`) under the hypotheses of C04: result sets that are strictly
sorted in the merge's own order, over a universe `P` of items in which the comparison succeeds and equal ids mean
equal items.
-/
namespace NeoFS.SearchMerge
open NeoFS.Int256

/-- `x` occurs in one of the sets -/
def Mem (x : Item) (sets : List (List Item)) : Prop := ∃ s ∈ sets, x ∈ s

/-- the universe of items the merge works on -/
structure Univ (k : MKind) (ord : Item → Item → Ordering) (P : Item → Prop) : Prop where
  laws : OrdLaws ord
  cmp_ok : ∀ x y, P x → P y → cmpAttr k x y = .ok (ord x y)
  first_ok : ∀ x, P x → firstCheck k x = .ok ()
  coherent : ∀ x y, P x → P y → x.id = y.id → x = y

/-- every set is strictly sorted and inside the universe -/
def SetsOK (ord : Item → Item → Ordering) (P : Item → Prop) (sets : List (List Item)) : Prop :=
  ∀ s ∈ sets, SortedI ord s ∧ ∀ x ∈ s, P x

def leI (ord : Item → Item → Ordering) (a b : Item) : Prop := a = b ∨ ltI ord a b = true

section
variable {k : MKind} {ord : Item → Item → Ordering} {P : Item → Prop}

theorem better_eq (hu : Univ k ord P) {x m : Item} (hx : P x) (hm : P m) : better k x m = .ok (ltI ord x m) := by
  unfold better
  by_cases h : x.id = m.id
  · simp [h, ltI]
  · simp only [h, if_false]
    rw [hu.cmp_ok x m hx hm]
    unfold ltI
    cases ord x m <;> simp [h]

theorem leI_trans (hu : Univ k ord P) {a b c : Item} (ha : P a) (hc : P c) (h1 : leI ord a b) (h2 : leI ord b c) :
    leI ord a c := by
  rcases h1 with rfl | h1
  · exact h2
  · rcases h2 with rfl | h2
    · exact Or.inr h1
    · by_cases hid : a.id = c.id
      · exact Or.inl (hu.coherent a c ha hc hid)
      · exact Or.inr (ltI_trans hu.laws h1 h2 hid)

theorem leI_of_not_lt (hu : Univ k ord P) {x c : Item} (hx : P x) (hc : P c) (h : ltI ord x c = false) : leI ord c x := by
  by_cases hid : x.id = c.id
  · exact Or.inl (hu.coherent x c hx hc hid).symm
  · exact Or.inr (ltI_total hu.laws h hid)

/-- **selection pass**: the result is a head, no head lies before it, and nothing is found only when every set is
empty. -/
theorem selectMin_spec (hu : Univ k ord P) :
    ∀ (sets : List (List Item)) (i : Nat) (cur : Option (Nat × Item)),
      (∀ s ∈ sets, ∀ x ∈ s, P x) → (∀ c, cur = some c → P c.2) →
      ∃ res, selectMin k sets i cur = .ok res ∧
        (match res with
         | none => cur = none ∧ ∀ s ∈ sets, s = []
         | some (mi, m) =>
            P m ∧ (cur = some (mi, m) ∨ (i ≤ mi ∧ ∃ tl, sets[mi - i]? = some (m :: tl))) ∧
            (∀ c, cur = some c → leI ord m c.2) ∧ (∀ s ∈ sets, ∀ h tl, s = h :: tl → leI ord m h)) := by
  intro sets
  induction sets with
  | nil =>
    intro i cur _ hc
    refine ⟨cur, by simp [selectMin], ?_⟩
    cases cur with
    | none => simp
    | some c =>
      obtain ⟨ci, c⟩ := c
      refine ⟨hc _ rfl, Or.inl rfl, ?_, by simp⟩
      intro c' hc'
      simp only [Option.some.injEq] at hc'
      subst hc'
      exact Or.inl rfl
  | cons s rest ih =>
    intro i cur hP hc
    have hPr : ∀ s ∈ rest, ∀ x ∈ s, P x := fun s hs => hP s (List.mem_cons_of_mem _ hs)
    cases s with
    | nil =>
      obtain ⟨res, he, hr⟩ := ih (i + 1) cur hPr hc
      refine ⟨res, by simp [selectMin, he], ?_⟩
      cases res with
      | none =>
        refine ⟨hr.1, ?_⟩
        intro s hs
        rw [List.mem_cons] at hs
        rcases hs with rfl | hs
        · rfl
        · exact hr.2 s hs
      | some p =>
        obtain ⟨mi, m⟩ := p
        obtain ⟨h1, h2, h3, h4⟩ := hr
        refine ⟨h1, ?_, h3, ?_⟩
        · rcases h2 with h2 | ⟨h2, tl, h2'⟩
          · exact Or.inl h2
          · refine Or.inr ⟨by omega, tl, ?_⟩
            have : mi - i = (mi - (i + 1)) + 1 := by omega
            rw [this, List.getElem?_cons_succ]
            exact h2'
        · intro s hs h tl he'
          rw [List.mem_cons] at hs
          rcases hs with rfl | hs
          · cases he'
          · exact h4 s hs h tl he'
    | cons x xs =>
      have hx : P x := hP (x :: xs) (by simp) x (by simp)
      cases cur with
      | none =>
        obtain ⟨res, he, hr⟩ := ih (i + 1) (some (i, x)) hPr (by intro c hc'; cases hc'; exact hx)
        refine ⟨res, by simp [selectMin, hu.first_ok x hx, he], ?_⟩
        cases res with
        | none => exact absurd hr.1 (by simp)
        | some p =>
          obtain ⟨mi, m⟩ := p
          obtain ⟨h1, h2, h3, h4⟩ := hr
          have hmx : leI ord m x := h3 (i, x) rfl
          refine ⟨h1, Or.inr ?_, by simp, ?_⟩
          · rcases h2 with h2 | ⟨h2, tl, h2'⟩
            · simp only [Option.some.injEq, Prod.mk.injEq] at h2
              obtain ⟨rfl, rfl⟩ := h2
              exact ⟨Nat.le_refl _, xs, by simp⟩
            · refine ⟨by omega, tl, ?_⟩
              have : mi - i = (mi - (i + 1)) + 1 := by omega
              rw [this, List.getElem?_cons_succ]
              exact h2'
          · intro s hs h tl he'
            rw [List.mem_cons] at hs
            rcases hs with rfl | hs
            · cases he'; exact hmx
            · exact h4 s hs h tl he'
      | some c =>
        obtain ⟨ci, c⟩ := c
        have hcP : P c := hc (ci, c) rfl
        have hb := better_eq hu hx hcP
        cases hlt : ltI ord x c with
        | true =>
          rw [hlt] at hb
          obtain ⟨res, he, hr⟩ := ih (i + 1) (some (i, x)) hPr (by intro c' hc'; cases hc'; exact hx)
          refine ⟨res, by simp [selectMin, hb, he], ?_⟩
          cases res with
          | none => exact absurd hr.1 (by simp)
          | some p =>
            obtain ⟨mi, m⟩ := p
            obtain ⟨h1, h2, h3, h4⟩ := hr
            have hmx : leI ord m x := h3 (i, x) rfl
            refine ⟨h1, Or.inr ?_, ?_, ?_⟩
            · rcases h2 with h2 | ⟨h2, tl, h2'⟩
              · simp only [Option.some.injEq, Prod.mk.injEq] at h2
                obtain ⟨rfl, rfl⟩ := h2
                exact ⟨Nat.le_refl _, xs, by simp⟩
              · refine ⟨by omega, tl, ?_⟩
                have : mi - i = (mi - (i + 1)) + 1 := by omega
                rw [this, List.getElem?_cons_succ]
                exact h2'
            · intro c' hc'
              cases hc'
              exact leI_trans hu h1 hcP hmx (Or.inr hlt)
            · intro s hs h tl he'
              rw [List.mem_cons] at hs
              rcases hs with rfl | hs
              · cases he'; exact hmx
              · exact h4 s hs h tl he'
        | false =>
          rw [hlt] at hb
          obtain ⟨res, he, hr⟩ := ih (i + 1) (some (ci, c)) hPr hc
          refine ⟨res, by simp [selectMin, hb, he], ?_⟩
          cases res with
          | none => exact absurd hr.1 (by simp)
          | some p =>
            obtain ⟨mi, m⟩ := p
            obtain ⟨h1, h2, h3, h4⟩ := hr
            have hmc : leI ord m c := h3 (ci, c) rfl
            refine ⟨h1, ?_, h3, ?_⟩
            · rcases h2 with h2 | ⟨h2, tl, h2'⟩
              · exact Or.inl h2
              · refine Or.inr ⟨by omega, tl, ?_⟩
                have : mi - i = (mi - (i + 1)) + 1 := by omega
                rw [this, List.getElem?_cons_succ]
                exact h2'
            · intro s hs h tl he'
              rw [List.mem_cons] at hs
              rcases hs with rfl | hs
              · cases he'
                exact leI_trans hu h1 hx hmc (leI_of_not_lt hu hx hcP hlt)
              · exact h4 s hs h tl he'

/-! ### cutting the duplicates -/

theorem dropThrough_head (m : Item) (tl : List Item) : dropThrough m.id (m :: tl) = tl := by
  unfold dropThrough
  simp [List.findIdx?_cons]

/-- in a sorted set whose head is not before `m`, only the head can carry `m`'s id -/
theorem dropThrough_spec (hu : Univ k ord P) {m : Item} (hm : P m) {s : List Item} (hs : SortedI ord s)
    (hP : ∀ x ∈ s, P x) (hmin : ∀ h tl, s = h :: tl → leI ord m h) :
    (∀ x, x ∈ dropThrough m.id s ↔ x ∈ s ∧ x ≠ m) ∧ (dropThrough m.id s).Sublist s ∧
      (m ∈ s → (dropThrough m.id s).length < s.length) := by
  cases s with
  | nil => simp [dropThrough]
  | cons h tl =>
    have hs' := hs
    unfold SortedI at hs'
    rw [List.pairwise_cons] at hs'
    rcases hmin h tl rfl with rfl | hlt
    · -- the head is `m`
      have hd : dropThrough m.id (m :: tl) = tl := dropThrough_head m tl
      rw [hd]
      refine ⟨?_, List.sublist_cons_self _ _, fun _ => by simp⟩
      intro x
      constructor
      · intro hx
        exact ⟨List.mem_cons_of_mem _ hx, fun e => by
          subst e; have := hs'.1 x hx; rw [ltI_irrefl] at this; exact absurd this Bool.false_ne_true⟩
      · rintro ⟨hx, hne⟩
        rw [List.mem_cons] at hx
        rcases hx with rfl | hx
        · exact absurd rfl hne
        · exact hx
    · -- `m` is strictly before the head: its id does not occur
      have hno : ∀ y ∈ h :: tl, y.id ≠ m.id := by
        intro y hy hid
        have hym : y = m := hu.coherent y m (hP y hy) hm hid
        subst hym
        rw [List.mem_cons] at hy
        rcases hy with rfl | hy
        · rw [ltI_irrefl] at hlt; exact absurd hlt Bool.false_ne_true
        · have := ltI_asymm hu.laws (hs'.1 y hy)
          rw [hlt] at this; exact absurd this (by decide)
      have hnone : (h :: tl).findIdx? (fun x => x.id == m.id) = none := by
        rw [List.findIdx?_eq_none_iff]
        intro y hy
        simpa using hno y hy
      have hd : dropThrough m.id (h :: tl) = h :: tl := by
        unfold dropThrough
        rw [hnone]
      rw [hd]
      have hmn : m ∉ h :: tl := fun hmem => hno m hmem rfl
      refine ⟨?_, List.Sublist.refl _, fun hmem => absurd hmem hmn⟩
      intro x
      exact ⟨fun hx => ⟨hx, fun e => hmn (e ▸ hx)⟩, fun hx => hx.1⟩

theorem advance_above (mi id : Nat) : ∀ (sets : List (List Item)) (i : Nat), mi < i →
    advance mi id sets i = sets.map (dropThrough id) := by
  intro sets
  induction sets with
  | nil => intro i _; rfl
  | cons s rest ih =>
    intro i hi
    have : i ≠ mi := by omega
    simp [advance, this, ih (i + 1) (by omega)]

/-- when the set at `mi` starts with the chosen item, taking its tail is the same cut as everywhere else -/
theorem advance_eq_map {m : Item} {tl : List Item} (mi : Nat) : ∀ (sets : List (List Item)) (i : Nat), i ≤ mi →
    sets[mi - i]? = some (m :: tl) → advance mi m.id sets i = sets.map (dropThrough m.id) := by
  intro sets
  induction sets with
  | nil => intro i _ _; rfl
  | cons s rest ih =>
    intro i hi hget
    by_cases he : i = mi
    · subst he
      simp only [Nat.sub_self, List.getElem?_cons_zero, Option.some.injEq] at hget
      subst hget
      simp [advance, advance_above i m.id rest (i + 1) (by omega), dropThrough_head]
    · have h2 : mi - i = (mi - (i + 1)) + 1 := by omega
      rw [h2, List.getElem?_cons_succ] at hget
      simp [advance, he, ih (i + 1) (by omega) hget]

theorem totalLen_cons (s : List Item) (rest : List (List Item)) : totalLen (s :: rest) = s.length + totalLen rest := by
  simp [totalLen]

theorem mem_of_getElem? {α : Type} {l : List α} {i : Nat} {a : α} (h : l[i]? = some a) : a ∈ l :=
  List.mem_of_getElem? h

/-- the state after one round -/
theorem advance_spec (hu : Univ k ord P) {m : Item} (hm : P m) {sets : List (List Item)} (hok : SetsOK ord P sets)
    (hmin : ∀ s ∈ sets, ∀ h tl, s = h :: tl → leI ord m h) (hmem : Mem m sets) :
    SetsOK ord P (sets.map (dropThrough m.id)) ∧
      (∀ x, Mem x (sets.map (dropThrough m.id)) ↔ Mem x sets ∧ x ≠ m) ∧
      totalLen (sets.map (dropThrough m.id)) < totalLen sets := by
  refine ⟨?_, ?_, ?_⟩
  · intro s' hs'
    rw [List.mem_map] at hs'
    obtain ⟨s, hs, rfl⟩ := hs'
    obtain ⟨h1, h2, _⟩ := dropThrough_spec hu hm (hok s hs).1 (hok s hs).2 (hmin s hs)
    exact ⟨(hok s hs).1.sublist h2, fun x hx => (hok s hs).2 x ((h1 x).mp hx).1⟩
  · intro x
    constructor
    · rintro ⟨s', hs', hx⟩
      rw [List.mem_map] at hs'
      obtain ⟨s, hs, rfl⟩ := hs'
      obtain ⟨h1, _, _⟩ := dropThrough_spec hu hm (hok s hs).1 (hok s hs).2 (hmin s hs)
      exact ⟨⟨s, hs, ((h1 x).mp hx).1⟩, ((h1 x).mp hx).2⟩
    · rintro ⟨⟨s, hs, hx⟩, hne⟩
      obtain ⟨h1, _, _⟩ := dropThrough_spec hu hm (hok s hs).1 (hok s hs).2 (hmin s hs)
      exact ⟨dropThrough m.id s, List.mem_map_of_mem hs, (h1 x).mpr ⟨hx, hne⟩⟩
  · -- every set shrinks or stays, the one holding `m` shrinks
    have key : ∀ (l : List (List Item)), (∀ s ∈ l, s ∈ sets) →
        totalLen (l.map (dropThrough m.id)) ≤ totalLen l ∧
        ((∃ s ∈ l, m ∈ s) → totalLen (l.map (dropThrough m.id)) < totalLen l) := by
      intro l
      induction l with
      | nil => intro _; simp [totalLen]
      | cons s rest ih =>
        intro hsub
        have hs : s ∈ sets := hsub s (by simp)
        obtain ⟨_, h2, h3⟩ := dropThrough_spec hu hm (hok s hs).1 (hok s hs).2 (hmin s hs)
        obtain ⟨ih1, ih2⟩ := ih (fun t ht => hsub t (List.mem_cons_of_mem _ ht))
        rw [List.map_cons, totalLen_cons, totalLen_cons]
        have hle := h2.length_le
        refine ⟨by omega, ?_⟩
        rintro ⟨t, ht, hmt⟩
        rw [List.mem_cons] at ht
        rcases ht with rfl | ht
        · have := h3 hmt; omega
        · have := ih2 ⟨t, ht, hmt⟩; omega
    obtain ⟨s0, hs0, hm0⟩ := hmem
    exact (key sets (fun s hs => hs)).2 ⟨s0, hs0, hm0⟩

/-- the `more` scan at the limit -/
theorem moreAtLimit_iff (hu : Univ k ord P) {m : Item} (hm : P m) {tl : List Item} {sets : List (List Item)}
    (hok : SetsOK ord P sets) (mi : Nat) (hget : sets[mi]? = some (m :: tl)) (anyMore : Bool) :
    moreAtLimit mi m.id anyMore sets = true ↔ (anyMore = true ∨ ∃ x, Mem x sets ∧ x ≠ m) := by
  have hsm : (m :: tl) ∈ sets := List.mem_of_getElem? hget
  have hsorted := (hok _ hsm).1
  unfold SortedI at hsorted
  rw [List.pairwise_cons] at hsorted
  unfold moreAtLimit
  rw [hget]
  simp only [List.length_cons, Bool.or_eq_true, decide_eq_true_eq, List.any_eq_true, Bool.and_eq_true, bne_iff_ne, ne_eq]
  constructor
  · rintro ((h | h) | ⟨⟨s, j⟩, hsj, hj, y, hy, hne⟩)
    · -- another element in the minimum's set
      cases tl with
      | nil => simp at h
      | cons t ts =>
        exact Or.inr ⟨t, ⟨_, hsm, by simp⟩, fun e => by
          have := hsorted.1 t (by simp); rw [e, ltI_irrefl] at this; exact absurd this Bool.false_ne_true⟩
    · exact Or.inl h
    · have hs : s ∈ sets := by
        have := List.mem_zipIdx_iff_getElem?.mp hsj
        exact List.mem_of_getElem? this
      exact Or.inr ⟨y, ⟨s, hs, hy⟩, fun e => hne (by rw [e])⟩
  · rintro (h | ⟨x, ⟨s, hs, hx⟩, hne⟩)
    · exact Or.inl (Or.inr h)
    · obtain ⟨j, hj⟩ := List.getElem?_of_mem hs
      by_cases hjm : j = mi
      · subst hjm
        rw [hget] at hj
        cases hj
        rw [List.mem_cons] at hx
        rcases hx with rfl | hx
        · exact absurd rfl hne
        · left; left
          cases tl with
          | nil => simp at hx
          | cons _ _ => simp
      · right
        refine ⟨(s, j), List.mem_zipIdx_iff_getElem?.mpr hj, hjm, x, hx, ?_⟩
        intro hid
        exact hne (hu.coherent x m ((hok s hs).2 x hx) hm hid)

/-! ### the merge loop -/

structure LoopSpec (ord : Item → Item → Ordering) (lim n : Nat) (anyMore : Bool) (sets : List (List Item))
    (r : List Item) (more : Bool) : Prop where
  sorted : SortedI ord r
  src : ∀ x ∈ r, Mem x sets
  len : n + r.length ≤ lim
  /-- nothing is skipped: an item of the sets is in the result or lies after a result that reached the limit -/
  complete : ∀ x, Mem x sets → x ∈ r ∨ (n + r.length = lim ∧ ∀ y ∈ r, ltI ord y x = true)
  more_iff : more = true ↔ (n + r.length = lim ∧ (anyMore = true ∨ ∃ x, Mem x sets ∧ x ∉ r))

theorem leI_of_mem (hu : Univ k ord P) {m : Item} (hm : P m) {sets : List (List Item)} (hok : SetsOK ord P sets)
    (hmin : ∀ s ∈ sets, ∀ h tl, s = h :: tl → leI ord m h) {x : Item} (hx : Mem x sets) : leI ord m x := by
  obtain ⟨s, hs, hxs⟩ := hx
  cases s with
  | nil => simp at hxs
  | cons h tl =>
    have h1 := hmin _ hs h tl rfl
    rw [List.mem_cons] at hxs
    rcases hxs with rfl | hxs
    · exact h1
    · have hsorted := (hok _ hs).1
      unfold SortedI at hsorted
      rw [List.pairwise_cons] at hsorted
      exact leI_trans hu hm ((hok _ hs).2 x (List.mem_cons_of_mem _ hxs)) h1 (Or.inr (hsorted.1 x hxs))

theorem loop_spec (hu : Univ k ord P) (lim : Nat) (anyMore : Bool) :
    ∀ (fuel n : Nat) (sets : List (List Item)), SetsOK ord P sets → totalLen sets < fuel → n < lim →
      ∃ r more, mergeLoop k lim anyMore fuel n sets = .ok (r, more) ∧ LoopSpec ord lim n anyMore sets r more := by
  intro fuel
  induction fuel with
  | zero => intro n sets _ h _; omega
  | succ fuel ih =>
    intro n sets hok hfuel hn
    obtain ⟨res, hsel, hres⟩ := selectMin_spec hu sets 0 none (fun s hs => (hok s hs).2) (by simp)
    cases res with
    | none =>
      refine ⟨[], false, by simp [mergeLoop, hsel], ?_⟩
      have hempty : ∀ x, ¬ Mem x sets := by
        rintro x ⟨s, hs, hx⟩
        rw [hres.2 s hs] at hx
        simp at hx
      exact ⟨by simp [SortedI], by simp, by simp; omega, fun x hx => absurd hx (hempty x),
        by simp; omega⟩
    | some p =>
      obtain ⟨mi, m⟩ := p
      obtain ⟨hm, hidx, _, hmin⟩ := hres
      have hget : ∃ tl, sets[mi]? = some (m :: tl) := by
        rcases hidx with h | ⟨_, tl, h⟩
        · simp at h
        · exact ⟨tl, by simpa using h⟩
      obtain ⟨tl, hget⟩ := hget
      have hmmem : Mem m sets := ⟨m :: tl, List.mem_of_getElem? hget, by simp⟩
      have hle : ∀ x, Mem x sets → leI ord m x := fun x hx => leI_of_mem hu hm hok hmin hx
      by_cases hlim : n + 1 = lim
      · refine ⟨[m], moreAtLimit mi m.id anyMore sets, by simp [mergeLoop, hsel, hlim], ?_⟩
        refine ⟨by simp [SortedI], ?_, by simp; omega, ?_, ?_⟩
        · intro x hx; simp at hx; subst hx; exact hmmem
        · intro x hx
          rcases hle x hx with rfl | h
          · left; simp
          · right; exact ⟨by simp; omega, by simpa using h⟩
        · rw [moreAtLimit_iff hu hm hok mi hget anyMore]
          simp only [List.length_cons, List.length_nil, List.mem_singleton]
          constructor
          · intro h; exact ⟨by omega, h⟩
          · intro h; exact h.2
      · have hadv := advance_eq_map (m := m) (tl := tl) mi sets 0 (Nat.zero_le _) (by simpa using hget)
        obtain ⟨hok', hmem', hlen'⟩ := advance_spec hu hm hok hmin hmmem
        obtain ⟨r', more', hrec, hspec⟩ := ih (n + 1) (sets.map (dropThrough m.id)) hok' (by omega) (by omega)
        refine ⟨m :: r', more', by simp [mergeLoop, hsel, hlim, hadv, hrec], ?_⟩
        have hgt : ∀ y ∈ r', ltI ord m y = true := by
          intro y hy
          have hy' := (hmem' y).mp (hspec.src y hy)
          rcases hle y hy'.1 with h | h
          · exact absurd h.symm hy'.2
          · exact h
        refine ⟨?_, ?_, ?_, ?_, ?_⟩
        · unfold SortedI; rw [List.pairwise_cons]; exact ⟨hgt, hspec.sorted⟩
        · intro x hx
          rw [List.mem_cons] at hx
          rcases hx with rfl | hx
          · exact hmmem
          · exact ((hmem' x).mp (hspec.src x hx)).1
        · have := hspec.len; simp only [List.length_cons]; omega
        · intro x hx
          by_cases hxm : x = m
          · left; simp [hxm]
          · rcases hspec.complete x ((hmem' x).mpr ⟨hx, hxm⟩) with h | ⟨h1, h2⟩
            · left; exact List.mem_cons_of_mem _ h
            · right
              refine ⟨by simp only [List.length_cons]; omega, ?_⟩
              intro y hy
              rw [List.mem_cons] at hy
              rcases hy with rfl | hy
              · rcases hle x hx with h | h
                · exact absurd h.symm hxm
                · exact h
              · exact h2 y hy
        · rw [hspec.more_iff]
          simp only [List.length_cons, List.mem_cons, not_or]
          constructor
          · rintro ⟨h1, h2⟩
            refine ⟨by omega, ?_⟩
            rcases h2 with h2 | ⟨x, hx, hnx⟩
            · exact Or.inl h2
            · exact Or.inr ⟨x, ((hmem' x).mp hx).1, ((hmem' x).mp hx).2, hnx⟩
          · rintro ⟨h1, h2⟩
            refine ⟨by omega, ?_⟩
            rcases h2 with h2 | ⟨x, hx, hxm, hnx⟩
            · exact Or.inl h2
            · exact Or.inr ⟨x, (hmem' x).mpr ⟨hx, hxm⟩, hnx⟩

end

/-! ### `calcMaxUniqueSearchResults` -/

/-- the items of a set whose id does not occur in the earlier sets -/
def newItems (earlier : List Nat) (s : List Item) : List Item := s.filter fun x => !earlier.contains x.id

/-- first occurrences, set by set -/
def firsts : List Nat → List (List Item) → List Item
  | _, [] => []
  | earlier, s :: rest => newItems earlier s ++ firsts (earlier ++ ids s) rest

theorem calcItems_eq (lim : Nat) (earlier : List Nat) : ∀ (s : List Item) (n : Nat), n < lim →
    calcItems lim earlier s n =
      if lim ≤ n + (newItems earlier s).length then (lim, true) else (n + (newItems earlier s).length, false) := by
  intro s
  induction s with
  | nil =>
    intro n hn
    have : ¬ lim ≤ n := by omega
    simp [calcItems, newItems, this]
  | cons x xs ih =>
    intro n hn
    unfold calcItems
    by_cases hc : earlier.contains x.id = true
    · have hnew : newItems earlier (x :: xs) = newItems earlier xs := by
        unfold newItems; rw [List.filter_cons]; simp; simpa using hc
      rw [hnew]
      simp only [hc, if_true]
      exact ih n hn
    · have hc' : earlier.contains x.id = false := by simpa using hc
      have hnew : newItems earlier (x :: xs) = x :: newItems earlier xs := by
        unfold newItems; rw [List.filter_cons]; simp; simpa using hc'
      rw [hnew]
      simp only [hc', Bool.false_eq_true, if_false, List.length_cons]
      by_cases hl : n + 1 = lim
      · have : lim ≤ n + ((newItems earlier xs).length + 1) := by omega
        simp [hl, this]
      · simp only [hl, if_false]
        rw [ih (n + 1) (by omega)]
        have e : n + 1 + (newItems earlier xs).length = n + ((newItems earlier xs).length + 1) := by omega
        rw [e]

theorem calcSets_eq (lim : Nat) : ∀ (sets : List (List Item)) (earlier : List Nat) (n : Nat), n < lim →
    calcSets lim earlier sets n = min lim (n + (firsts earlier sets).length) := by
  intro sets
  induction sets with
  | nil => intro earlier n hn; simp [calcSets, firsts]; omega
  | cons s rest ih =>
    intro earlier n hn
    unfold calcSets
    rw [calcItems_eq lim earlier s n hn]
    by_cases hl : lim ≤ n + (newItems earlier s).length
    · simp only [hl, if_true, firsts, List.length_append]
      omega
    · simp only [hl, if_false, firsts, List.length_append]
      rw [ih (earlier ++ ids s) (n + (newItems earlier s).length) (by omega)]
      omega

theorem newItems_nil (s : List Item) : newItems [] s = s := by simp [newItems]

theorem calcMax_eq (lim : Nat) (sets : List (List Item)) : calcMax lim sets = min lim (firsts [] sets).length := by
  cases sets with
  | nil => simp [calcMax, firsts]
  | cons s0 rest =>
    unfold calcMax
    simp only [firsts, newItems_nil, List.nil_append, List.length_append]
    by_cases h : lim ≤ s0.length
    · simp only [h, if_true]; omega
    · simp only [h, if_false]
      rw [calcSets_eq lim rest (ids s0) s0.length (by omega)]

theorem mem_firsts {P : Item → Prop} (hco : ∀ x y, P x → P y → x.id = y.id → x = y) :
    ∀ (sets : List (List Item)) (earlier : List Nat), (∀ s ∈ sets, ∀ x ∈ s, P x) →
      ∀ x, x ∈ firsts earlier sets ↔ (Mem x sets ∧ x.id ∉ earlier) := by
  intro sets
  induction sets with
  | nil => intro earlier _ x; simp [firsts, Mem]
  | cons s rest ih =>
    intro earlier hP x
    have hPr : ∀ t ∈ rest, ∀ y ∈ t, P y := fun t ht => hP t (List.mem_cons_of_mem _ ht)
    simp only [firsts, List.mem_append]
    rw [ih (earlier ++ ids s) hPr x]
    constructor
    · rintro (h | ⟨⟨t, ht, hx⟩, hn⟩)
      · simp only [newItems, List.mem_filter, Bool.not_eq_true', List.contains_eq_mem, decide_eq_false_iff_not] at h
        exact ⟨⟨s, by simp, h.1⟩, h.2⟩
      · exact ⟨⟨t, List.mem_cons_of_mem _ ht, hx⟩, fun h => hn (List.mem_append_left _ h)⟩
    · rintro ⟨⟨t, ht, hx⟩, hn⟩
      by_cases hid : x.id ∈ ids s
      · left
        unfold ids at hid
        rw [List.mem_map] at hid
        obtain ⟨y, hy, hyid⟩ := hid
        have hxP : P x := hP t ht x hx
        have hyP : P y := hP s (by simp) y hy
        have : y = x := hco y x hyP hxP hyid
        subst this
        simp only [newItems, List.mem_filter, Bool.not_eq_true', List.contains_eq_mem, decide_eq_false_iff_not]
        exact ⟨hy, hn⟩
      · right
        rw [List.mem_cons] at ht
        rcases ht with rfl | ht
        · exact absurd (List.mem_map_of_mem hx) hid
        · refine ⟨⟨t, ht, hx⟩, ?_⟩
          rw [List.mem_append]
          rintro (h | h)
          · exact hn h
          · exact hid h

theorem firsts_nodup {P : Item → Prop} (hco : ∀ x y, P x → P y → x.id = y.id → x = y) :
    ∀ (sets : List (List Item)) (earlier : List Nat), (∀ s ∈ sets, s.Nodup ∧ ∀ x ∈ s, P x) →
      (firsts earlier sets).Nodup := by
  intro sets
  induction sets with
  | nil => intro _ _; simp [firsts]
  | cons s rest ih =>
    intro earlier h
    have hr : ∀ t ∈ rest, t.Nodup ∧ ∀ y ∈ t, P y := fun t ht => h t (List.mem_cons_of_mem _ ht)
    simp only [firsts]
    rw [List.nodup_append]
    refine ⟨(h s (by simp)).1.filter _, ih (earlier ++ ids s) hr, ?_⟩
    intro a ha b hb hab
    subst hab
    have h1 := (mem_firsts hco rest (earlier ++ ids s) (fun t ht => (hr t ht).2) a).mp hb
    simp only [newItems, List.mem_filter] at ha
    exact h1.2 (List.mem_append_right _ (List.mem_map_of_mem ha.1))

/-- `calcMaxUniqueSearchResults` is `min lim (number of distinct items)` -/
theorem calcMax_spec {k : MKind} {ord : Item → Item → Ordering} {P : Item → Prop} (hu : Univ k ord P)
    (lim : Nat) (sets : List (List Item)) (hok : SetsOK ord P sets) (U : List Item) (hU : U.Nodup)
    (hUm : ∀ x, x ∈ U ↔ Mem x sets) : calcMax lim sets = min lim U.length := by
  rw [calcMax_eq]
  have hnd := firsts_nodup hu.coherent sets [] (fun s hs => ⟨(hok s hs).1.nodup, (hok s hs).2⟩)
  have hm : ∀ x, x ∈ firsts [] sets ↔ x ∈ U := by
    intro x
    rw [mem_firsts hu.coherent sets [] (fun s hs => (hok s hs).2) x, hUm]
    simp
  rw [((List.perm_ext_iff_of_nodup hnd hU).mpr hm).length_eq]

end NeoFS.SearchMerge
