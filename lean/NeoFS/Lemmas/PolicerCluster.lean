import NeoFS.Props.C26
/-! Lemmas about the cluster model (`Cluster`, `passOf`, `holdersAfter`, `round`) for `Props/C27.lean`. -/
namespace NeoFS.Policer

theorem mem_addNode (n x : Nat) (l : List Nat) : x ∈ addNode n l ↔ x = n ∨ x ∈ l := by
  induction l with
  | nil => simp [addNode]
  | cons y ys ih =>
    unfold addNode
    split_ifs with h1 h2
    · simp
    · subst h2; simp
    · simp only [List.mem_cons, ih]
      tauto

theorem mem_foldl_addNode (add : List Nat) (l : List Nat) (x : Nat) :
    x ∈ add.foldl (fun h n => addNode n h) l ↔ x ∈ add ∨ x ∈ l := by
  induction add generalizing l with
  | nil => simp
  | cons a as ih =>
    simp only [List.foldl_cons, ih, mem_addNode, List.mem_cons]
    tauto

theorem mem_holdersAfter (hold : List Nat) (me : Nat) (out : Out) (x : Nat) :
    x ∈ holdersAfter hold me out ↔
      (x ∈ out.tasks.flatMap (·.done) ∨ x ∈ hold) ∧ (out.dels.isEmpty = true ∨ x ≠ me) := by
  unfold holdersAfter
  simp only
  split_ifs with h
  · simp [mem_foldl_addNode, h]
  · simp [mem_foldl_addNode, h]

/-! ### every task of a pass is reported soundly -/

/-- `HandleTask`'s report for one task: at most `quantity` successes, each a node of the task, not the local
node, that accepted the object -/
def TaskSound (e : Env) (t : Task) : Prop :=
  t.done.length ≤ t.quantity ∧ ∀ n ∈ t.done, n ∈ t.nodes ∧ n ≠ e.me ∧ e.repl n = true

theorem replicate_tasksSound (e : Env) (c : Ctx) (q : Nat) (ns : List Nat) (h : ∀ t ∈ c.tasks, TaskSound e t) :
    ∀ t ∈ (replicate e c q ns).tasks, TaskSound e t := by
  intro t ht
  simp only [replicate, List.mem_append, List.mem_singleton] at ht
  rcases ht with ht | rfl
  · exact h t ht
  · exact handleTask_sound e q ns

theorem finish_tasksSound (e : Env) (legacy : Bool) (c : Ctx) (l : Loop) (h : ∀ t ∈ c.tasks, TaskSound e t) :
    ∀ t ∈ (finish e legacy c l).tasks, TaskSound e t := by
  unfold finish
  split_ifs
  all_goals first
    | exact replicate_tasksSound e c _ _ h
    | exact h

theorem runVectors_tasksSound (e : Env) (legacy : Bool) (ty : OType) (vs : List (List Nat × Nat)) (c : Ctx)
    (h : ∀ t ∈ c.tasks, TaskSound e t) : ∀ t ∈ (runVectors e legacy ty c vs).tasks, TaskSound e t := by
  induction vs generalizing c with
  | nil => exact h
  | cons v vs ih =>
    unfold runVectors
    apply ih
    unfold processNodes
    apply finish_tasksSound
    rw [(walk_mono e v.1 c _).tasks]
    exact h

theorem repPart_tasksSound (e : Env) (legacy : Bool) (o : Obj) (p : Placement) (pre : List Mark) :
    ∀ t ∈ (repPart e legacy o p pre).tasks, TaskSound e t := by
  have h := runVectors_tasksSound e legacy o.typ (effVectors o p) {} (by intro t ht; simp at ht)
  unfold repPart verdict
  split_ifs <;> exact h

theorem ecPartByRule_tasksSound (e : Env) (seq : List Nat) : ∀ t ∈ (ecPartByRule e seq).tasks, TaskSound e t := by
  unfold ecPartByRule
  simp only
  split
  · intro t ht; simp at ht
  · intro t ht; simp at ht
  · split_ifs
    all_goals
      intro t ht
      first
        | (simp at ht; done)
        | (simp only [List.mem_singleton] at ht; subst ht; exact handleTask_sound e 1 _)

/-! ### a pass without EC rules deletes only as a redundancy drop -/

theorem processObject_rep (e : Env) (legacy : Bool) (o : Obj) (p : Placement) (hn : p.net = .ok) (he : o.ec = none)
    (hr : p.ecRules = []) : processObject e legacy o p = repPart e legacy o p [] := by
  unfold processObject
  simp [hn, he, hr]

theorem repPart_dels (e : Env) (legacy : Bool) (o : Obj) (p : Placement) :
    (repPart e legacy o p []).dels = [] ∨ (repPart e legacy o p []).dels = [.redundant] := by
  unfold repPart verdict
  split_ifs <;> simp

end NeoFS.Policer
