import NeoFS.Model.Put
import NeoFS.Props.C22
import Mathlib.Data.List.Nodup
/-! Invariant of the EC threads over `ecProgress` (for `Props/C25.lean`). -/
namespace NeoFS.Put

structure ECInv (f : Nat → Nat → Bool) (nNodes : Nat) (s : ECSt) : Prop where
  tnodup : (s.taken.map Prod.fst).Nodup
  tlt : ∀ x ∈ s.taken, x.1 < nNodes
  acked : ∀ x ∈ s.acks, (x.2, x.1) ∈ s.taken ∧ f x.1 x.2 = true
  cur : ∀ (k : Nat) (t : Thr) (i : Nat), s.thr[k]? = some t → t.cur = some i → (i, k) ∈ s.taken
  fin : ∀ (k : Nat) (t : Thr), s.thr[k]? = some t → t.fin = some true → ∃ i, (k, i) ∈ s.acks
  todo : ∀ (k : Nat) (t : Thr), s.thr[k]? = some t → ∀ i ∈ t.todo, i < nNodes

theorem set_lookup (l : List Thr) (k k' : Nat) (t t' : Thr) (h : (l.set k t')[k']? = some t) :
    (k' = k ∧ t = t') ∨ (k' ≠ k ∧ l[k']? = some t) := by
  rw [List.getElem?_set] at h
  split_ifs at h with e1 e2
  · left; exact ⟨e1.symm, (Option.some.inj h).symm⟩
  · right; exact ⟨fun e => e1 e.symm, h⟩

/-- a step of thread `k` that replaces its record and possibly takes a node / logs an acknowledgement -/
theorem ECInv.update {f : Nat → Nat → Bool} {n : Nat} {s s' : ECSt} {k : Nat} {t t' : Thr}
    (h : ECInv f n s) (hk : s.thr[k]? = some t) (hthr : s'.thr = s.thr.set k t')
    (ht : s'.taken = s.taken ∨ ∃ i, s'.taken = (i, k) :: s.taken ∧ i ∉ s.taken.map Prod.fst ∧ i < n)
    (ha : s'.acks = s.acks ∨ ∃ i, s'.acks = (k, i) :: s.acks ∧ (i, k) ∈ s'.taken ∧ f k i = true)
    (hcur : ∀ i, t'.cur = some i → (i, k) ∈ s'.taken)
    (hfin : t'.fin = some true → ∃ i, (k, i) ∈ s'.acks)
    (htodo : ∀ i ∈ t'.todo, i ∈ t.todo) : ECInv f n s' := by
  have tsub : ∀ x ∈ s.taken, x ∈ s'.taken := by
    intro x hx
    rcases ht with e | ⟨i, e, _, _⟩ <;> rw [e]
    · exact hx
    · exact List.mem_cons_of_mem _ hx
  have asub : ∀ x ∈ s.acks, x ∈ s'.acks := by
    intro x hx
    rcases ha with e | ⟨i, e, _, _⟩ <;> rw [e]
    · exact hx
    · exact List.mem_cons_of_mem _ hx
  refine ⟨?_, ?_, ?_, ?_, ?_, ?_⟩
  · rcases ht with e | ⟨i, e, hi, _⟩ <;> rw [e]
    · exact h.tnodup
    · simp only [List.map_cons, List.nodup_cons]; exact ⟨hi, h.tnodup⟩
  · intro x hx
    rcases ht with e | ⟨i, e, _, hi⟩ <;> rw [e] at hx
    · exact h.tlt x hx
    · rcases List.mem_cons.mp hx with e | hx
      · subst e; exact hi
      · exact h.tlt x hx
  · intro x hx
    rcases ha with e | ⟨i, e, h1, h2⟩ <;> rw [e] at hx
    · obtain ⟨a, b⟩ := h.acked x hx; exact ⟨tsub _ a, b⟩
    · rcases List.mem_cons.mp hx with e | hx
      · subst e; exact ⟨h1, h2⟩
      · obtain ⟨a, b⟩ := h.acked x hx; exact ⟨tsub _ a, b⟩
  · intro k' t'' i hk' hc
    rw [hthr] at hk'
    rcases set_lookup _ _ _ _ _ hk' with ⟨rfl, rfl⟩ | ⟨_, hk'⟩
    · exact hcur i hc
    · exact tsub _ (h.cur k' t'' i hk' hc)
  · intro k' t'' hk' hf
    rw [hthr] at hk'
    rcases set_lookup _ _ _ _ _ hk' with ⟨rfl, rfl⟩ | ⟨_, hk'⟩
    · exact hfin hf
    · obtain ⟨i, hi⟩ := h.fin k' t'' hk' hf; exact ⟨i, asub _ hi⟩
  · intro k' t'' hk' i hi
    rw [hthr] at hk'
    rcases set_lookup _ _ _ _ _ hk' with ⟨rfl, rfl⟩ | ⟨_, hk'⟩
    · exact h.todo _ t hk i (htodo i hi)
    · exact h.todo k' t'' hk' i hi

theorem ecStep_inv (f : Nat → Nat → Bool) (n d : Nat) (s : ECSt) (k : Nat) (h : ECInv f n s) :
    ECInv f n (ecStep f n d s k) := by
  unfold ecStep
  cases hk : s.thr[k]? with
  | none => exact h
  | some t =>
    simp only
    by_cases hfin : t.fin.isSome = true
    · rw [if_pos hfin]; exact h
    · rw [if_neg hfin]
      have hnf : t.fin ≠ some true := by
        intro e; rw [e] at hfin; simp at hfin
      cases hc : t.cur with
      | none =>
        simp only
        cases htd : t.todo with
        | nil =>
          simp only
          exact h.update hk rfl (Or.inl rfl) (Or.inl rfl) (by simp [hc]) (by simp) (by simp)
        | cons i rest =>
          simp only
          have hsub : ∀ x ∈ rest, x ∈ t.todo := by intro x hx; rw [htd]; exact List.mem_cons_of_mem _ hx
          by_cases hstop : s.stop = true
          · rw [if_pos hstop]
            exact h.update hk rfl (Or.inl rfl) (Or.inl rfl) (by simp [hc]) (fun e => absurd e hnf) (by simpa using hsub)
          · rw [if_neg hstop]
            by_cases htk : (s.taken.map Prod.fst).contains i = true
            · rw [if_pos htk]
              exact h.update hk rfl (Or.inl rfl) (Or.inl rfl) (by simp [hc]) (fun e => absurd e hnf) (by simpa using hsub)
            · rw [if_neg htk]
              have hi : i ∉ s.taken.map Prod.fst := by simpa using htk
              have hlt : i < n := h.todo k t hk i (by rw [htd]; exact List.mem_cons_self)
              exact h.update hk rfl (Or.inr ⟨i, rfl, hi, hlt⟩) (Or.inl rfl) (by simp) (fun e => absurd e hnf) (by simpa using hsub)
      | some i =>
        simp only
        have htk : (i, k) ∈ s.taken := h.cur k t i hk hc
        by_cases hf : f k i = true
        · rw [if_pos hf]
          exact h.update hk rfl (Or.inl rfl) (Or.inr ⟨i, rfl, htk, hf⟩) (by simp) (fun _ => ⟨i, by simp⟩) (by simp)
        · rw [if_neg hf]
          by_cases hstop : s.stop = true
          · rw [if_pos hstop]
            exact h.update hk rfl (Or.inl rfl) (Or.inl rfl) (by simp) (by simp) (by simp)
          · rw [if_neg hstop]
            by_cases hfail : n - (s.failed + 1) < d
            · rw [if_pos hfail]
              exact h.update hk rfl (Or.inl rfl) (Or.inl rfl) (by simp) (by simp) (by simp)
            · rw [if_neg hfail]
              exact h.update hk rfl (Or.inl rfl) (Or.inl rfl) (by simp) (fun e => absurd e hnf) (by simp)

theorem ecStep_len (f : Nat → Nat → Bool) (n d : Nat) (s : ECSt) (k : Nat) :
    (ecStep f n d s k).thr.length = s.thr.length := by
  unfold ecStep
  cases hk : s.thr[k]? with
  | none => rfl
  | some t =>
    simp only
    by_cases hfin : t.fin.isSome = true
    · rw [if_pos hfin]
    · rw [if_neg hfin]
      cases hc : t.cur with
      | none =>
        simp only
        cases htd : t.todo with
        | nil => simp
        | cons i rest =>
          simp only
          by_cases hstop : s.stop = true
          · rw [if_pos hstop]; simp
          · rw [if_neg hstop]
            by_cases htk : (s.taken.map Prod.fst).contains i = true
            · rw [if_pos htk]; simp
            · rw [if_neg htk]; simp
      | some i =>
        simp only
        by_cases hf : f k i = true
        · rw [if_pos hf]; simp
        · rw [if_neg hf]
          by_cases hstop : s.stop = true
          · rw [if_pos hstop]; simp
          · rw [if_neg hstop]
            by_cases hfail : n - (s.failed + 1) < d
            · rw [if_pos hfail]; simp
            · rw [if_neg hfail]; simp

theorem ecFinish_inv (f : Nat → Nat → Bool) (n d : Nat) (fuel : Nat) : ∀ (s : ECSt) (k : Nat), ECInv f n s →
    ECInv f n (ecFinish f n d fuel s k) ∧ (ecFinish f n d fuel s k).thr.length = s.thr.length := by
  induction fuel with
  | zero => intro s k h; exact ⟨h, rfl⟩
  | succ fuel ih =>
    intro s k h
    have := ih (ecStep f n d s k) k (ecStep_inv f n d s k h)
    exact ⟨this.1, by rw [ecFinish, this.2, ecStep_len]⟩

theorem foldl_inv {α : Type} (P : ECSt → Prop) (step : ECSt → α → ECSt) (hstep : ∀ s a, P s → P (step s a)) :
    ∀ (l : List α) (s : ECSt), P s → P (l.foldl step s) := by
  intro l
  induction l with
  | nil => intro s h; exact h
  | cons a l ih => intro s h; exact ih _ (hstep s a h)

theorem ecRun_inv (f : Nat → Nat → Bool) (n d total : Nat) (picks : List Nat) (s : ECSt) (h : ECInv f n s) :
    ECInv f n (ecRun f n d total picks s) ∧ (ecRun f n d total picks s).thr.length = s.thr.length := by
  unfold ecRun
  simp only
  have h1 := foldl_inv (fun s' => ECInv f n s' ∧ s'.thr.length = s.thr.length) (ecStep f n d)
    (fun s' a hs => ⟨ecStep_inv f n d s' a hs.1, by rw [ecStep_len, hs.2]⟩) picks s ⟨h, rfl⟩
  exact foldl_inv (fun s' => ECInv f n s' ∧ s'.thr.length = s.thr.length)
    (fun s' k => ecFinish f n d (2 * n + 2) s' k)
    (fun s' k hs => ⟨(ecFinish_inv f n d _ s' k hs.1).1, by rw [(ecFinish_inv f n d _ s' k hs.1).2, hs.2]⟩) _ _ h1

theorem ecInit_inv (f : Nat → Nat → Bool) (total n : Nat) : ECInv f n (ecInit total n) := by
  refine ⟨by simp [ecInit], by simp [ecInit], by simp [ecInit], ?_, ?_, ?_⟩
  · intro k t i hk hc
    simp only [ecInit, List.getElem?_map] at hk
    cases hr : (List.range total)[k]? with
    | none => simp [hr] at hk
    | some p => simp [hr] at hk; subst hk; simp at hc
  · intro k t hk hf
    simp only [ecInit, List.getElem?_map] at hk
    cases hr : (List.range total)[k]? with
    | none => simp [hr] at hk
    | some p => simp [hr] at hk; subst hk; simp at hf
  · intro k t hk i hi
    simp only [ecInit, List.getElem?_map] at hk
    cases hr : (List.range total)[k]? with
    | none => simp [hr] at hk
    | some p =>
      simp [hr] at hk; subst hk
      simp only at hi
      have hp : p < total := by
        have := List.mem_of_getElem? hr
        simpa using this
      exact ((EC.nodeSeq_each_once p total n (by omega)).2 i).mp hi

theorem getD_of_lt (l : List Nat) (i : Nat) (h : i < l.length) : l.getD i 0 = l[i] := by
  simp [List.getD_eq_getElem?_getD, List.getElem?_eq_getElem h]

theorem fst_unique {α β : Type} : ∀ (l : List (α × β)) (a : α) (b b' : β), (l.map Prod.fst).Nodup →
    (a, b) ∈ l → (a, b') ∈ l → b = b' := by
  intro l
  induction l with
  | nil => intro a b b' _ h; simp at h
  | cons x xs ih =>
    intro a b b' hnd h1 h2
    simp only [List.map_cons, List.nodup_cons] at hnd
    rcases List.mem_cons.mp h1 with e1 | h1 <;> rcases List.mem_cons.mp h2 with e2 | h2
    · rw [← e1] at e2; exact (Prod.mk.inj e2).2.symm ▸ rfl
    · exfalso; apply hnd.1; rw [← e1]; exact List.mem_map.mpr ⟨(a, b'), h2, rfl⟩
    · exfalso; apply hnd.1; rw [← e2]; exact List.mem_map.mpr ⟨(a, b), h1, rfl⟩
    · exact ih a b b' hnd.2 h1 h2

theorem lookup_mem {β : Type} : ∀ (l : List (Nat × β)) (k : Nat) (v : β), l.lookup k = some v → (k, v) ∈ l := by
  intro l
  induction l with
  | nil => intro k v h; simp at h
  | cons x xs ih =>
    intro k v h
    obtain ⟨a, b⟩ := x
    rw [List.lookup_cons] at h
    by_cases e : k = a
    · subst e; simp at h; subst h; simp
    · have : (k == a) = false := by simpa using e
      rw [this] at h
      exact List.mem_cons_of_mem _ (ih k v h)

theorem lookup_some_of_mem {β : Type} : ∀ (l : List (Nat × β)) (k : Nat) (v : β), (k, v) ∈ l → ∃ v', l.lookup k = some v' := by
  intro l
  induction l with
  | nil => intro k v h; simp at h
  | cons x xs ih =>
    intro k v h
    obtain ⟨a, b⟩ := x
    rw [List.lookup_cons]
    by_cases e : k = a
    · subst e; exact ⟨b, by simp⟩
    · have : (k == a) = false := by simpa using e
      rw [this]
      rcases List.mem_cons.mp h with h | h
      · exact absurd (Prod.mk.inj h).1 e
      · exact ih k v h

/-- `applyECRule` under every interleaving of the part threads and every answer oracle: success means every
part was acknowledged by a node of the list and no node acknowledged two parts. -/
theorem applyEC_sound (f : Nat → Node → Bool) (d p : Nat) (nodes : List Node) (picks : List Nat)
    (acks : List (Nat × Node)) (hnd : nodes.Nodup) (h : applyEC f d p nodes picks = (true, acks)) :
    ∃ assign : Nat → Node,
      (∀ k < d + p, assign k ∈ nodes ∧ (k, assign k) ∈ acks ∧ f k (assign k) = true) ∧
      ∀ k < d + p, ∀ k' < d + p, assign k = assign k' → k = k' := by
  unfold applyEC at h
  simp only [Prod.mk.injEq] at h
  obtain ⟨hall, hacks⟩ := h
  generalize hs : ecRun (fun k i => f k (nodes.getD i 0)) nodes.length d (d + p) picks (ecInit (d + p) nodes.length) = s at hall hacks
  obtain ⟨inv, hlen⟩ := ecRun_inv (fun k i => f k (nodes.getD i 0)) nodes.length d (d + p) picks _
    (ecInit_inv _ (d + p) nodes.length)
  rw [hs] at inv hlen
  have hlen' : s.thr.length = d + p := by rw [hlen]; simp [ecInit]
  -- every part has an acknowledged node index
  have hpart : ∀ k < d + p, ∃ i, s.acks.lookup k = some i := by
    intro k hk
    have hk' : k < s.thr.length := by omega
    have hget : s.thr[k]? = some s.thr[k] := List.getElem?_eq_getElem hk'
    have hfin : s.thr[k].fin = some true := by
      have := List.all_eq_true.mp hall s.thr[k] (List.getElem_mem hk')
      simpa using this
    obtain ⟨i, hi⟩ := inv.fin k _ hget hfin
    exact lookup_some_of_mem _ _ _ hi
  refine ⟨fun k => match s.acks.lookup k with | some i => nodes.getD i 0 | none => 0, ?_, ?_⟩
  · intro k hk
    obtain ⟨i, hi⟩ := hpart k hk
    simp only [hi]
    have hm := lookup_mem _ _ _ hi
    obtain ⟨ht, hf⟩ := inv.acked _ hm
    have hlt : i < nodes.length := inv.tlt _ ht
    refine ⟨?_, ?_, hf⟩
    · rw [getD_of_lt _ _ hlt]; exact List.getElem_mem _
    · rw [← hacks]; exact List.mem_map.mpr ⟨(k, i), hm, rfl⟩
  · intro k hk k' hk' he
    obtain ⟨i, hi⟩ := hpart k hk
    obtain ⟨i', hi'⟩ := hpart k' hk'
    simp only [hi, hi'] at he
    obtain ⟨ht, _⟩ := inv.acked _ (lookup_mem _ _ _ hi)
    obtain ⟨ht', _⟩ := inv.acked _ (lookup_mem _ _ _ hi')
    have hlt : i < nodes.length := inv.tlt _ ht
    have hlt' : i' < nodes.length := inv.tlt _ ht'
    rw [getD_of_lt _ _ hlt, getD_of_lt _ _ hlt'] at he
    have : i = i' := (List.Nodup.getElem_inj_iff hnd).mp he
    subst this
    exact fst_unique _ _ _ _ inv.tnodup ht ht'

end NeoFS.Put
