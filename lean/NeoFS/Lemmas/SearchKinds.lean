import NeoFS.Lemmas.SearchMerge
import NeoFS.Props.C05
/-!
The comparison `MergeSearchResults` applies per attribute kind, as a lawful comparator `ordK` on the items for which
the comparison succeeds (`ValidK`): integers by value (C05: `compareIntStrings` is numeric order), ids and owners by
their decoded bytes, everything else by the bytes of the string.
-/
namespace NeoFS.SearchMerge
open NeoFS.Int256

def intKey (x : Item) : Int :=
  match x.attr with
  | some a => (match splitIntString a with | some p => splitVal p | none => 0)
  | none => 0

def bytesKey (dec : Str → Option (List Nat)) (x : Item) : List Nat :=
  match x.attr with
  | some a => (dec a).getD []
  | none => []

/-- the comparator of each kind, total on all items (defaults where the code would fail) -/
def ordK : MKind → Item → Item → Ordering
  | .byId, _, _ => .eq
  | .int, x, y => ordInt (intKey x) (intKey y)
  | .oid, x, y => lexCmp (bytesKey decodeOID x) (bytesKey decodeOID y)
  | .owner, x, y => lexCmp (bytesKey decodeOwner x) (bytesKey decodeOwner y)
  | .str, x, y => lexCmp (bytesKey (fun a => some (strBytes a)) x) (bytesKey (fun a => some (strBytes a)) y)

/-- the items on which the merge's comparison does not fail -/
def ValidK : MKind → Item → Prop
  | .byId, _ => True
  | .int, x => ∃ a p, x.attr = some a ∧ splitIntString a = some p
  | .oid, x => ∃ a b, x.attr = some a ∧ decodeOID a = some b
  | .owner, x => ∃ a b, x.attr = some a ∧ decodeOwner a = some b
  | .str, x => ∃ a, x.attr = some a

theorem ordK_laws (k : MKind) : OrdLaws (ordK k) := by
  cases k with
  | byId => exact ⟨fun _ => rfl, fun _ _ => rfl, fun _ _ _ _ _ => by simp [ordK]⟩
  | int => exact ordInt_laws.comap intKey
  | oid => exact lexCmp_laws.comap (bytesKey decodeOID)
  | owner => exact lexCmp_laws.comap (bytesKey decodeOwner)
  | str => exact lexCmp_laws.comap (bytesKey fun a => some (strBytes a))

theorem cmpAttr_valid (k : MKind) (x y : Item) (hx : ValidK k x) (hy : ValidK k y) : cmpAttr k x y = .ok (ordK k x y) := by
  cases k with
  | byId => rfl
  | int =>
    obtain ⟨a, p, ha, hp⟩ := hx
    obtain ⟨b, q, hb, hq⟩ := hy
    simp only [cmpAttr, ha, hb, compare_strings_numeric a b p q hp hq, ordK, intKey, hp, hq]
  | oid =>
    obtain ⟨a, p, ha, hp⟩ := hx
    obtain ⟨b, q, hb, hq⟩ := hy
    simp [cmpAttr, ha, hb, ordK, bytesKey, hp, hq]
  | owner =>
    obtain ⟨a, p, ha, hp⟩ := hx
    obtain ⟨b, q, hb, hq⟩ := hy
    simp [cmpAttr, ha, hb, ordK, bytesKey, hp, hq]
  | str =>
    obtain ⟨a, ha⟩ := hx
    obtain ⟨b, hb⟩ := hy
    simp [cmpAttr, ha, hb, ordK, bytesKey, lexCmpChars, strBytes]

theorem firstCheck_valid (k : MKind) (x : Item) (hx : ValidK k x) : firstCheck k x = .ok () := by
  cases k with
  | int =>
    obtain ⟨a, p, ha, hp⟩ := hx
    simp [firstCheck, ha, hp]
  | byId => rfl
  | oid => rfl
  | owner => rfl
  | str => rfl

/-- valid, coherent items form a universe for the merge -/
theorem univ_of_valid (k : MKind) (P : Item → Prop) (hv : ∀ x, P x → ValidK k x)
    (hco : ∀ x y, P x → P y → x.id = y.id → x = y) : Univ k (ordK k) P :=
  ⟨ordK_laws k, fun x y hx hy => cmpAttr_valid k x y (hv x hx) (hv y hy), fun x hx => firstCheck_valid k x (hv x hx), hco⟩

end NeoFS.SearchMerge
