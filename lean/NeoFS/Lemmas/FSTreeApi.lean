import NeoFS.Lemmas.FSTreeClean
/-! API level (`Put`, `PutBatch`, `Delete`) of the file-tree model on the O_TMPFILE writer, for every oracle. Core Lean only. -/
namespace NeoFS.FSTree

/-- no batch is open (the state between two API calls that have returned) -/
def Quiet (k : K) : Prop := ∀ b, k.batch = some b → b.ready = true

/-- payloads the API accepts in this model: non-empty, shorter than 4 GiB, and not starting with the combined prefix
(an object is a protobuf message or a zstd frame; neither starts with 0x7F 0x00) -/
def ValidData (d : Bytes) : Prop := DataOK d ∧ PlainOK d

/-- `FSTree.Put` on the O_TMPFILE writer, for every oracle -/
theorem put_spec {P} (cfg : Cfg) (hc : cfg.Fixed) (hg : cfg.generic = false) (o : Oracle) (k : K) (a : Nat) (d : Bytes)
    (hs : SInv P k) (ha : IdOK a) (hd : ValidData d) (hp : P a d) :
    SInv P (put cfg o k a d).1 ∧ Eff P k (put cfg o k a d).1 [a] ∧ (put cfg o k a d).2 ≠ .blocked ∧
    (Quiet k → (put cfg o k a d).2 = .ok → Quiet (put cfg o k a d).1) ∧
    ((put cfg o k a d).2 = .ok →
      ∃ e, ReadsK (put cfg o k a d).1.inodes (put cfg o k a d).1.dir a e ∧ (Quiet k → k.dir.lookup a = none → e = d)) := by
  unfold put
  simp only [hd.1.1, if_false, hg, Bool.false_eq_true]
  split
  · obtain ⟨fe, fp, fb, fok⟩ := writeFile_spec o k a d hs.kinv ha hd.1 hd.2 hp
    refine ⟨⟨fe.inv, ?_, by rw [fp.1]; exact hs.lock, by rw [fp.2.1]; exact hs.nopanic⟩, fe, ?_, ?_, ?_⟩
    · intro b hb hr
      rw [fp.2.2.1] at hb
      obtain ⟨h1, h2, rs, h3⟩ := hs.binv b hb hr
      exact ⟨h1, h2, rs, fb _ _ h3⟩
    · split <;> simp
    · intro hq _ b hb; rw [fp.2.2.1] at hb; exact hq b hb
    · intro hok
      have : (writeFile o k a d).2 = true := by
        revert hok; split <;> simp_all
      obtain ⟨e, he, hf⟩ := fok this
      exact ⟨e, he, fun _ => hf⟩
  · obtain ⟨ws, we, wb, wp⟩ := writeCombined_spec (P := P) cfg hc o k a d hs ha hd.1 hp
    cases hres : (writeCombined cfg o k a d).2 with
    | blocked => exact absurd hres wb
    | failed =>
      simp only
      exact ⟨ws, we, by simp, by simp, by simp⟩
    | pending i =>
      simp only
      obtain ⟨ts, te, tq⟩ := tick_spec (P := P) cfg o (writeCombined cfg o k a d).1 ws
      refine ⟨ts, (we.trans te).weaken (by simp), by split <;> simp, fun _ _ => tq, ?_⟩
      intro _
      obtain ⟨e, he, hf⟩ := wp i hres
      exact ⟨e, te.frame a e he, hf⟩


theorem itemsOK_filter {P} {items : List (Nat × Bytes)}
    (h : ∀ it ∈ items, IdOK it.1 ∧ (it.2 ≠ [] → ValidData it.2 ∧ P it.1 it.2)) :
    ItemsOK P (items.filter (fun p => p.2 ≠ [])) := by
  intro it hit
  simp at hit
  obtain ⟨h1, h2⟩ := h it hit.1
  exact ⟨h1, (h2 hit.2).1.1, (h2 hit.2).2⟩

/-- `FSTree.PutBatch` on the O_TMPFILE writer, for every oracle -/
theorem putBatch_spec {P} (cfg : Cfg) (hg : cfg.generic = false) (o : Oracle) (k : K) (items : List (Nat × Bytes))
    (hs : SInv P k) (hit : ∀ it ∈ items, IdOK it.1 ∧ (it.2 ≠ [] → ValidData it.2 ∧ P it.1 it.2)) :
    SInv P (putBatch cfg o k items).1 ∧
    Eff P k (putBatch cfg o k items).1 ((items.filter (fun p => p.2 ≠ [])).map (·.1)) ∧
    (Quiet k → Quiet (putBatch cfg o k items).1) ∧
    ((putBatch cfg o k items).2 = .ok →
      ∀ it ∈ items.filter (fun p => p.2 ≠ []), ∃ e,
        ReadsK (putBatch cfg o k items).1.inodes (putBatch cfg o k items).1.dir it.1 e ∧
        (k.dir.lookup it.1 = none → (items.filter (fun p => p.2 ≠ [])).lookup it.1 = some e)) := by
  unfold putBatch
  simp only [hg, Bool.false_eq_true, if_false]
  obtain ⟨be, bl, bb, bp, bk, bok⟩ := writeBatch_spec (P := P) cfg o k _ hs.kinv (itemsOK_filter hit)
  refine ⟨⟨be.inv, ?_, by rw [bl]; exact hs.lock, by rw [bp]; exact hs.nopanic⟩, be, ?_, ?_⟩
  · intro b hb hr
    rw [bb] at hb
    obtain ⟨h1, h2, rs, h3⟩ := hs.binv b hb hr
    exact ⟨h1, h2, rs, bk _ _ h3⟩
  · intro hq b hb; rw [bb] at hb; exact hq b hb
  · intro hok
    apply bok
    revert hok; split <;> simp_all

theorem delete_sinv {P} (o : Oracle) (k : K) (a : Nat) (hs : SInv P k) : SInv P (delete o k a).1 := by
  obtain ⟨dk, di, _, _, _, dp⟩ := delete_spec (P := P) o k a hs.kinv
  refine ⟨dk, ?_, by rw [dp.1]; exact hs.lock, by rw [dp.2.1]; exact hs.nopanic⟩
  intro b hb hr
  rw [dp.2.2.1] at hb
  obtain ⟨h1, h2, rs, h3⟩ := hs.binv b hb hr
  exact ⟨h1, h2, rs, by rw [di]; exact h3⟩

theorem delete_clean {o : Oracle} {k : K} (h : Clean o k) (a : Nat) :
    (delete o k a).1.dir.lookup a = none ∧ Clean o (delete o k a).1 ∧
    (delete o k a).2 = (if (k.dir.lookup a).isSome then .ok else .notFound) := by
  unfold delete
  cases hl : k.dir.lookup a with
  | none => exact ⟨hl, h, rfl⟩
  | some i =>
    simp only
    unfold sysUnlink
    rw [faultAt_clean h]
    exact ⟨lookup_eraseKey_self a k.dir, h.next h.1 (by simp [bump]), rfl⟩

end NeoFS.FSTree
