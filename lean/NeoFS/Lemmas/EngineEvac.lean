import NeoFS.Props.C19
/-!
Induction over the listing for C19: what a remaining shard has taken stays with it for the rest of the
evacuation, hence after a successful evacuation every LISTED object is kept by a remaining shard.
-/
namespace NeoFS.Engine

/-- the shard keeps the object: indexed in its metabase, or (shard without metabase) in its blob store -/
def Shard.keeps (s : Shard) (id : Nat) : Prop :=
  (s.find id).isSome = true ∨ (s.mode.noMeta = true ∧ (s.blob id).isSome = true)

theorem report_keeps (e : Eng) (i k : Nat) (er : Err) (t : Shard) (id : Nat)
    (h : e.shards[k]? = some t) (hk : t.keeps id) :
    ∃ t', (e.report i er).shards[k]? = some t' ∧ t'.keeps id := by
  by_cases hki : k = i
  · subst hki
    unfold Eng.report
    split
    · exact ⟨t, h, hk⟩
    · rw [h]
      simp only
      split
      · refine ⟨_, setShard_get_self e k _ t h, ?_⟩
        rcases hk with hk | hk
        · exact Or.inl hk
        · exact Or.inr ⟨rfl, hk.2⟩
      · refine ⟨_, setShard_get_self e k _ t h, ?_⟩
        rcases hk with hk | hk
        · exact Or.inl hk
        · exact Or.inr ⟨hk.1, hk.2⟩
  · exact ⟨t, by rw [report_shards_ne e i k er hki]; exact h, hk⟩

/-- `Shard.put` never loses what the shard keeps -/
theorem put_keeps (s : Shard) (o : Obj) (ep : Nat) (id : Nat) (hk : s.keeps id) : (s.put o ep).1.keeps id := by
  unfold Shard.put
  by_cases h1 : s.mode.readOnly = true
  · simp only [h1, if_true]; exact hk
  · by_cases h2 : s.failW = true
    · simp only [h1, h2, if_true, if_false, Bool.false_eq_true]; exact hk
    · by_cases h3 : s.mode.noMeta = true
      · simp only [h1, h2, h3, if_true, if_false, Bool.false_eq_true]
        rcases hk with hk | hk
        · exact Or.inl hk
        · exact Or.inr ⟨h3, find_insertObj_mono o s.blobs id hk.2⟩
      · simp only [h1, h2, h3, if_false, Bool.false_eq_true]
        have hfind : (s.find id).isSome = true := by
          rcases hk with hk | hk
          · exact hk
          · exact absurd hk.1 h3
        split
        · rename_i s2 hmp
          exact Or.inl ((metaPut_ok _ _ o ep hmp).2.2 id hfind)
        · exact Or.inl hfind

theorem putToShard_keeps_mono (e : Eng) (j k : Nat) (o : Obj) (t : Shard) (id : Nat)
    (h : e.shards[k]? = some t) (hk : t.keeps id) :
    ∃ t', (e.putToShard j o).1.shards[k]? = some t' ∧ t'.keeps id := by
  by_cases hkj : k = j
  · subst hkj
    unfold Eng.putToShard
    rw [h]
    simp only
    split
    · exact ⟨t, h, hk⟩
    · exact ⟨t, h, hk⟩
    · exact ⟨t, h, hk⟩
    · have hp := put_keeps t o e.epoch id hk
      split
      · rename_i s1 heq
        rw [heq] at hp
        exact ⟨s1, setShard_get_self e k s1 t h, hp⟩
      · rename_i s1 er heq
        rw [heq] at hp
        simp only
        split
        · exact ⟨s1, setShard_get_self e k s1 t h, hp⟩
        · exact report_keeps _ k k er s1 id (setShard_get_self e k s1 t h) hp
  · exact ⟨t, by rw [putToShard_frame e j k o hkj]; exact h, hk⟩

theorem put_ok_keeps (s s1 : Shard) (o : Obj) (ep : Nat) (h : s.put o ep = (s1, none)) : s1.keeps o.id := by
  unfold Shard.put at h
  by_cases h1 : s.mode.readOnly = true
  · simp [h1] at h
  · by_cases h2 : s.failW = true
    · simp [h1, h2] at h
    · by_cases h3 : s.mode.noMeta = true
      · simp [h1, h2, h3] at h
        subst h
        exact Or.inr ⟨h3, find_insertObj_self o s.blobs⟩
      · simp only [h1, h2, h3, if_false, Bool.false_eq_true] at h
        split at h
        · rename_i s2 hmp
          cases h
          exact Or.inl (metaPut_ok _ _ o ep hmp).1
        · cases h

/-- after `putToShard j o` answered "stored" or "already there", shard `j` keeps the object -/
theorem putToShard_keeps (e e1 : Eng) (j : Nat) (o : Obj) (r : PutR)
    (h : e.putToShard j o = (e1, r)) (hr : r = .stored ∨ r = .exists_) :
    ∃ t, e1.shards[j]? = some t ∧ t.keeps o.id := by
  unfold Eng.putToShard at h
  split at h
  · cases h; rcases hr with hr | hr <;> cases hr
  · rename_i s hs
    have hex : ∀ b, s.exists_ o.id e.epoch false = b → (b = .error .expired ∨ b = .ok true) → s.keeps o.id := by
      intro b hb hcase
      unfold Shard.exists_ at hb
      split at hb
      · rename_i hnm
        rcases hcase with hc | hc
        · rw [hc] at hb; cases hb
        · rw [hc] at hb; exact Or.inr ⟨hnm, by simpa using hb⟩
      · left
        simp only [Bool.false_eq_true, if_false] at hb
        rcases hcase with hc | hc
        · exact (mExists_cases s o.id e.epoch).1 (by rw [hb, hc])
        · exact (mExists_cases s o.id e.epoch).2 (by rw [hb, hc])
    split at h
    · rename_i heq
      cases h
      exact ⟨s, hs, hex _ heq (Or.inl rfl)⟩
    · cases h; rcases hr with hr | hr <;> cases hr
    · rename_i heq
      cases h
      exact ⟨s, hs, hex _ heq (Or.inr rfl)⟩
    · split at h
      · rename_i s1 hput
        cases h
        exact ⟨s1, setShard_get_self e j s1 s hs, put_ok_keeps s s1 o e.epoch hput⟩
      · rename_i s1 er hput
        simp only at h
        cases h
        rcases hr with hr | hr <;> cases hr

theorem evacTargets_mono (o : Obj) (srcs : List Nat) (k : Nat) (id : Nat) :
    ∀ (ord : List Nat) (e : Eng) (t : Shard), e.shards[k]? = some t → t.keeps id →
      ∃ t', (evacTargets o srcs ord e).1.shards[k]? = some t' ∧ t'.keeps id := by
  intro ord
  induction ord with
  | nil => intro e t h hk; exact ⟨t, h, hk⟩
  | cons j rest ih =>
    intro e t h hk
    unfold evacTargets
    split
    · exact ih e t h hk
    · split
      · exact ih e t h hk
      · obtain ⟨t1, h1, hk1⟩ := putToShard_keeps_mono e j k o t id h hk
        split
        · rename_i e1 heq; rw [heq] at h1; exact ⟨t1, h1, hk1⟩
        · rename_i e1 heq; rw [heq] at h1; exact ⟨t1, h1, hk1⟩
        · rename_i e1 er heq; rw [heq] at h1; exact ih e1 t1 h1 hk1

/-- one object step, for `keeps` -/
theorem evacTargets_keeps (o : Obj) (srcs : List Nat) :
    ∀ (ord : List Nat) (e e1 : Eng) (b : Bool), evacTargets o srcs ord e = (e1, some b) →
      ∃ j ∈ ord, srcs.contains j = false ∧ ∃ t, e1.shards[j]? = some t ∧ t.keeps o.id := by
  intro ord
  induction ord with
  | nil => intro e e1 b h; simp [evacTargets] at h
  | cons j rest ih =>
    intro e e1 b h
    unfold evacTargets at h
    split at h
    · obtain ⟨j', hj', r⟩ := ih e e1 b h
      exact ⟨j', by simp [hj'], r⟩
    · rename_i hc
      split at h
      · obtain ⟨j', hj', r⟩ := ih e e1 b h
        exact ⟨j', by simp [hj'], r⟩
      · split at h
        · rename_i e2 heq
          cases h
          exact ⟨j, by simp, by simpa using hc, putToShard_keeps e _ j o _ heq (Or.inl rfl)⟩
        · rename_i e2 heq
          cases h
          exact ⟨j, by simp, by simpa using hc, putToShard_keeps e _ j o _ heq (Or.inr rfl)⟩
        · rename_i e2 er heq
          obtain ⟨j', hj', r⟩ := ih e2 e1 b h
          exact ⟨j', by simp [hj'], r⟩

theorem evacObjs_mono (src : Nat) (srcs ord : List Nat) (ig : Bool) (k : Nat) (id : Nat) :
    ∀ (l : List Obj) (e : Eng) (n : Nat) (t : Shard), e.shards[k]? = some t → t.keeps id →
      ∃ t', (evacObjs src srcs ord ig l e n).1.shards[k]? = some t' ∧ t'.keeps id := by
  intro l
  induction l with
  | nil => intro e n t h hk; exact ⟨t, h, hk⟩
  | cons x rest ih =>
    intro e n t h hk
    unfold evacObjs
    split
    · exact ⟨t, h, hk⟩
    · split
      · split
        · exact ih e n t h hk
        · exact ⟨t, h, hk⟩
      · rename_i o _
        obtain ⟨t1, h1, hk1⟩ := evacTargets_mono o srcs k id ord e t h hk
        split
        · rename_i e1 heq; rw [heq] at h1; exact ih e1 _ t1 h1 hk1
        · rename_i e1 heq; rw [heq] at h1; exact ih e1 _ t1 h1 hk1
        · rename_i e1 heq; rw [heq] at h1; exact ⟨t1, h1, hk1⟩

theorem blobGet_id (s : Shard) (id : Nat) (o : Obj) (h : s.blobGet id = .ok o) : o.id = id := by
  unfold Shard.blobGet at h
  split at h
  · cases h
  · split at h
    · rename_i x hb
      cases h
      unfold Shard.blob at hb
      have := List.find?_some hb
      simpa using this
    · cases h

theorem shard_get_id (s : Shard) (id ep : Nat) (skip : Bool) (o : Obj) (h : s.get id ep skip = .ok o) : o.id = id := by
  unfold Shard.get at h
  split at h
  · exact blobGet_id s id o h
  · split at h
    · cases h
    · cases h
    · split at h
      · rename_i o' hb
        cases h
        exact blobGet_id s id _ hb
      · cases h
      · cases h

/-- **Induction over the listing**: if the objects of one source are all processed without error (strict
mode), every one of them is kept by a shard of the order outside the source set at the end. -/
theorem evacObjs_all_kept (src : Nat) (srcs ord : List Nat) (hsrc : srcs.contains src = true) :
    ∀ (l : List Obj) (e : Eng) (n : Nat) (e' : Eng) (n' : Nat) (s : Shard), e.shards[src]? = some s →
      evacObjs src srcs ord false l e n = (e', n', none) →
      ∀ x ∈ l, ∃ j ∈ ord, srcs.contains j = false ∧ ∃ t, e'.shards[j]? = some t ∧ t.keeps x.id := by
  intro l
  induction l with
  | nil => intro e n e' n' s _ _ x hx; cases hx
  | cons y rest ih =>
    intro e n e' n' s hs h x hx
    unfold evacObjs at h
    rw [hs] at h
    simp only at h
    split at h
    · simp at h
    · rename_i o hget
      have hoid : o.id = y.id := shard_get_id s y.id e.epoch false o hget
      -- the source is unchanged by the object step
      have hsrc' : ∀ e1 r, evacTargets o srcs ord e = (e1, r) → e1.shards[src]? = some s := by
        intro e1 r heq
        have := evacTargets_frame o srcs src hsrc ord e
        rw [heq] at this
        rw [this]; exact hs
      split at h
      · rename_i e1 heq
        rcases List.mem_cons.mp hx with rfl | hx'
        · obtain ⟨j, hj, hns, t, ht, hk⟩ := evacTargets_keeps o srcs ord e e1 true heq
          obtain ⟨t', ht', hk'⟩ := evacObjs_mono src srcs ord false j o.id rest e1 (n + 1) t ht hk
          rw [h] at ht'
          exact ⟨j, hj, hns, t', ht', by rw [← hoid]; exact hk'⟩
        · exact ih e1 (n + 1) e' n' s (hsrc' e1 _ heq) h x hx'
      · rename_i e1 heq
        rcases List.mem_cons.mp hx with rfl | hx'
        · obtain ⟨j, hj, hns, t, ht, hk⟩ := evacTargets_keeps o srcs ord e e1 false heq
          obtain ⟨t', ht', hk'⟩ := evacObjs_mono src srcs ord false j o.id rest e1 n t ht hk
          rw [h] at ht'
          exact ⟨j, hj, hns, t', ht', by rw [← hoid]; exact hk'⟩
        · exact ih e1 n e' n' s (hsrc' e1 _ heq) h x hx'
      · simp at h

theorem evacShards_mono (srcs ord : List Nat) (ig : Bool) (k : Nat) (id : Nat) :
    ∀ (l : List Nat) (e : Eng) (n : Nat) (t : Shard), e.shards[k]? = some t → t.keeps id →
      ∃ t', (evacShards srcs ord ig l e n).1.shards[k]? = some t' ∧ t'.keeps id := by
  intro l
  induction l with
  | nil => intro e n t h hk; exact ⟨t, h, hk⟩
  | cons src rest ih =>
    intro e n t h hk
    unfold evacShards
    split
    · exact ih e n t h hk
    · split
      · exact ih e n t h hk
      · rename_i s _ _
        obtain ⟨t1, h1, hk1⟩ := evacObjs_mono src srcs ord ig k id (sortById s.listing) e n t h hk
        split
        · rename_i e1 n1 heq; rw [heq] at h1; exact ih e1 n1 t1 h1 hk1
        · exact ⟨t1, h1, hk1⟩

/-- induction over the source shards -/
theorem evacShards_all_kept (srcs ord : List Nat) :
    ∀ (l : List Nat) (e : Eng) (n : Nat) (e' : Eng) (n' : Nat), (∀ i ∈ l, srcs.contains i = true) →
      evacShards srcs ord false l e n = (e', n', none) →
      ∀ src ∈ l, ∀ s, e.shards[src]? = some s → s.mode.noMeta = false →
        ∀ x ∈ sortById s.listing, ∃ j ∈ ord, srcs.contains j = false ∧ ∃ t, e'.shards[j]? = some t ∧ t.keeps x.id := by
  intro l
  induction l with
  | nil => intro e n e' n' _ _ src hsrc; cases hsrc
  | cons a rest ih =>
    intro e n e' n' hall h src hsrc s hs hm x hx
    have ha : srcs.contains a = true := hall a (by simp)
    unfold evacShards at h
    split at h
    · -- shard a does not exist: src ≠ a
      rename_i hnone
      rcases List.mem_cons.mp hsrc with rfl | hsrc'
      · rw [hnone] at hs; cases hs
      · exact ih e n e' n' (fun i hi => hall i (by simp [hi])) h src hsrc' s hs hm x hx
    · rename_i sa hsa
      split at h
      · rename_i hdeg
        rcases List.mem_cons.mp hsrc with rfl | hsrc'
        · rw [hsa] at hs; cases hs; rw [hm] at hdeg; cases hdeg
        · exact ih e n e' n' (fun i hi => hall i (by simp [hi])) h src hsrc' s hs hm x hx
      · split at h
        · rename_i e1 n1 heq
          have hframe : ∀ k, srcs.contains k = true → e1.shards[k]? = e.shards[k]? := by
            intro k hk
            have := evacObjs_frame a srcs ord false k hk (sortById sa.listing) e n
            rw [heq] at this; exact this
          rcases List.mem_cons.mp hsrc with rfl | hsrc'
          · rw [hsa] at hs; cases hs
            obtain ⟨j, hj, hns, t, ht, hk⟩ := evacObjs_all_kept src srcs ord ha _ e n e1 n1 s hsa heq x hx
            obtain ⟨t', ht', hk'⟩ := evacShards_mono srcs ord false j x.id rest e1 n1 t ht hk
            rw [h] at ht'
            exact ⟨j, hj, hns, t', ht', hk'⟩
          · have hsrcc : srcs.contains src = true := hall src (by simp [hsrc'])
            exact ih e1 n1 e' n' (fun i hi => hall i (by simp [hi])) h src hsrc' s
              (by rw [hframe src hsrcc]; exact hs) hm x hx
        · rename_i r hr
          -- the objects of shard a failed: the result is not a success
          have : (evacObjs a srcs ord false (sortById sa.listing) e n).2.2 ≠ none := by
            intro hnone
            generalize hq : evacObjs a srcs ord false (sortById sa.listing) e n = q at hr hnone h
            obtain ⟨q1, q2, q3⟩ := q
            simp only at hnone
            subst hnone
            exact hr q1 q2 rfl
          rw [h] at this
          exact absurd rfl this

/-- **C19, what the code preserves (`evacuate_preserves_partial`)**: for ALL engines, source sets, visiting
orders and target modes/failures: if `Evacuate(srcs, ignoreErrors = false)` succeeds, every object LISTED by a
source shard (every indexed object without tombstone / garbage mark) is kept by a shard of the order outside
the source set at the end: indexed in its metabase or, on a shard without metabase, in its blob store.  The
extra hypothesis against `C19_full` is "listed" instead of "served" (see `C19_counterexample`), and "kept"
instead of "served" (the status on the target is the target's own). -/
theorem evacuate_preserves_partial (e : Eng) (srcs ord : List Nat)
    (hok : (e.evacuate srcs ord false).2.2 = none)
    (src : Nat) (hsrc : src ∈ srcs) (s : Shard) (hs : e.shards[src]? = some s) (hm : s.mode.noMeta = false)
    (x : Obj) (hx : x ∈ sortById s.listing) :
    ∃ j ∈ ord, j ∉ srcs ∧ ∃ t, (e.evacuate srcs ord false).1.shards[j]? = some t ∧ t.keeps x.id := by
  unfold Eng.evacuate at hok ⊢
  split at hok
  · cases hok
  · split at hok
    · cases hok
    · split at hok
      · cases hok
      · rename_i h1 h2 h3
        simp only [h1, h2, h3, if_false]
        generalize hq : evacShards srcs ord false srcs e 0 = q at hok ⊢
        obtain ⟨e', n', r⟩ := q
        simp only at hok
        subst hok
        obtain ⟨j, hj, hns, t, ht, hk⟩ := evacShards_all_kept srcs ord srcs e 0 e' n'
          (fun i hi => by simpa using hi) hq src hsrc s hs hm x hx
        exact ⟨j, hj, by simpa using hns, t, ht, hk⟩

/-- non-vacuity: the evacuation of `exA` succeeds and lists the object and its lock -/
example : (exA.evacuate [0] [2, 1, 0] false).2.2 = none ∧ o1 ∈ sortById (⟨.ro, [o1, l7], [o1, l7], [], false, false, 0, 0, 0⟩ : Shard).listing := by
  decide

end NeoFS.Engine
