import NeoFS.Lemmas.FSTreeApi
import NeoFS.Lemmas.FSTreeGeneric
/-!
Sequences of API calls in one process (every oracle, so every system call as a stop point) and concurrent callers of
the portable writer as interleavings of single system calls. Core Lean only.
-/
namespace NeoFS.FSTree

/-! ## API sequences on the O_TMPFILE writer -/

/-- `(a, d)` is a payload the call offers for address `a` -/
def ApiOffers : Api → Nat → Bytes → Prop
  | .put a d, x, e => x = a ∧ e = d
  | .batch items, x, e => (x, e) ∈ items
  | .del _, _, _ => False

def ApiOffered (ops : List Api) (a : Nat) (d : Bytes) : Prop := ∃ op ∈ ops, ApiOffers op a d

def ValidApi : Api → Prop
  | .put a d => IdOK a ∧ ValidData d
  | .batch items => ∀ it ∈ items, IdOK it.1 ∧ (it.2 ≠ [] → ValidData it.2)
  | .del _ => True

/-- one API call under any oracle (faults, a stop at any of its system calls): the invariant is kept and nothing
readable is lost or altered — in particular putting an address that is already stored never takes it away, wherever
the call is interrupted; a delete removes its own name only -/
theorem api_step_safe {P} (cfg : Cfg) (hc : cfg.Fixed) (hg : cfg.generic = false) (o : Oracle) (k : K) (op : Api)
    (hv : ValidApi op) (hp : ∀ a d, ApiOffers op a d → P a d) (hs : SInv P k) :
    SInv P (applyApi cfg o k op).1 ∧
    (∀ x e, (∀ a, op = .del a → x ≠ a) → ReadsK k.inodes k.dir x e →
        ReadsK (applyApi cfg o k op).1.inodes (applyApi cfg o k op).1.dir x e) := by
  cases op with
  | put a d =>
    obtain ⟨ps, pe, _⟩ := put_spec (P := P) cfg hc hg o k a d hs hv.1 hv.2 (hp a d ⟨rfl, rfl⟩)
    exact ⟨ps, fun x e _ h => pe.frame x e h⟩
  | batch items =>
    have hv' : ∀ it ∈ items, IdOK it.1 ∧ (it.2 ≠ [] → ValidData it.2 ∧ P it.1 it.2) :=
      fun it hit => ⟨(hv it hit).1, fun hne => ⟨(hv it hit).2 hne, hp it.1 it.2 hit⟩⟩
    obtain ⟨bs, be, _, _⟩ := putBatch_spec (P := P) cfg hg o k items hs hv'
    exact ⟨bs, fun x e _ h => be.frame x e h⟩
  | del a =>
    obtain ⟨_, _, dfr, _, _, _⟩ := delete_spec (P := P) o k a hs.kinv
    exact ⟨delete_sinv o k a hs, fun x e hx h => dfr x e (hx a rfl) h⟩

theorem api_run_inv {P} (cfg : Cfg) (hc : cfg.Fixed) (hg : cfg.generic = false) (o : Oracle) (ops : List Api) :
    ∀ (k : K), (∀ op ∈ ops, ValidApi op) → (∀ op ∈ ops, ∀ a d, ApiOffers op a d → P a d) → SInv P k →
    SInv P (runApi cfg o k ops) := by
  induction ops with
  | nil => intro k _ _ h; exact h
  | cons op rest ih =>
    intro k hv hp hs
    exact ih _ (fun e he => hv e (by simp [he])) (fun e he => hp e (by simp [he]))
      (api_step_safe cfg hc hg o k op (hv op (by simp)) (hp op (by simp)) hs).1

/-! ## concurrent callers of the portable writer -/

/-- the temporary file a caller holds open / is about to rename -/
def gIno : GPhase → Option Nat
  | .atWrite _ j => some j
  | .atClose _ j _ => some j
  | .atRename _ j => some j
  | _ => none

/-- invariant of a set of callers between two system calls -/
structure GInv (P : Nat → Bytes → Prop) (k : K) (ws : List GW) : Prop where
  kinv : KInv P k.inodes k.dir
  valid : ∀ (n : Nat) (w : GW), ws[n]? = some w → IdOK w.a ∧ ValidData w.d ∧ P w.a w.d
  /-- a caller's temporary file exists and no object name points to it -/
  own : ∀ (n : Nat) (w : GW) (j : Nat), ws[n]? = some w → gIno w.ph = some j → j < k.inodes.length ∧ ∀ x i, k.dir.lookup x = some i → i ≠ j
  /-- two callers never hold the same temporary file (`O_EXCL`) -/
  sep : ∀ (n m : Nat) (w v : GW) (j : Nat), n ≠ m → ws[n]? = some w → ws[m]? = some v → gIno w.ph = some j → gIno v.ph ≠ some j
  empty : ∀ (n : Nat) (w : GW) (i j : Nat), ws[n]? = some w → w.ph = .atWrite i j → k.inodes.getD j [] = []
  /-- the file a caller is about to rename holds its whole payload -/
  full : ∀ (n : Nat) (w : GW) (i j : Nat), ws[n]? = some w → (w.ph = .atRename i j ∨ w.ph = .atClose i j true) → k.inodes.getD j [] = w.d
  /-- a caller that returned success left its address visible -/
  acked : ∀ (n : Nat) (w : GW), ws[n]? = some w → w.ph = .done true → (k.dir.lookup w.a).isSome

theorem get_set_cases {ws : List GW} {n : Nat} {w' : GW} {m : Nat} {v : GW} (h : (ws.set n w')[m]? = some v) :
    (m = n ∧ v = w') ∨ (m ≠ n ∧ ws[m]? = some v) := by
  by_cases hm : n = m
  · subst hm
    rw [List.getElem?_set] at h
    simp only [if_true] at h
    split at h
    · exact Or.inl ⟨rfl, by cases h; rfl⟩
    · cases h
  · rw [List.getElem?_set, if_neg hm] at h
    exact Or.inr ⟨fun e => hm e.symm, h⟩

/-- what a step of caller `n` has to establish for the invariant to be kept -/
theorem ginv_update {P} {k k' : K} {ws : List GW} {n : Nat} {w : GW} {ph' : GPhase} (h : GInv P k ws)
    (hw : ws[n]? = some w)
    (hk : KInv P k'.inodes k'.dir)
    (hlen : k.inodes.length ≤ k'.inodes.length)
    (hkeep : ∀ j, j < k.inodes.length → gIno w.ph ≠ some j → k'.inodes.getD j [] = k.inodes.getD j [])
    (hdir : ∀ x i, k'.dir.lookup x = some i → k.dir.lookup x = some i ∨ (gIno w.ph = some i ∧ gIno ph' = none))
    (hmono : ∀ x, (k.dir.lookup x).isSome → (k'.dir.lookup x).isSome)
    (hnew : ∀ j, gIno ph' = some j → gIno w.ph = some j ∨
      (k.inodes.length ≤ j ∧ j < k'.inodes.length ∧ ∀ x i, k'.dir.lookup x = some i → i ≠ j))
    (hempty : ∀ i j, ph' = .atWrite i j → k'.inodes.getD j [] = [])
    (hfull : ∀ i j, (ph' = .atRename i j ∨ ph' = .atClose i j true) → k'.inodes.getD j [] = w.d)
    (hack : ph' = .done true → (k'.dir.lookup w.a).isSome) :
    GInv P k' (ws.set n { w with ph := ph' }) := by
  -- the temporary file of another caller is untouched and still unnamed
  have other : ∀ m v j, m ≠ n → ws[m]? = some v → gIno v.ph = some j →
      j < k.inodes.length ∧ gIno w.ph ≠ some j ∧ k'.inodes.getD j [] = k.inodes.getD j [] := by
    intro m v j hm hv hj
    have hlt := (h.own m v j hv hj).1
    have hne : gIno w.ph ≠ some j := h.sep m n v w j hm hv hw hj
    exact ⟨hlt, hne, hkeep j hlt hne⟩
  refine ⟨hk, ?_, ?_, ?_, ?_, ?_, ?_⟩
  · intro m v hv
    rcases get_set_cases hv with ⟨_, rfl⟩ | ⟨_, hv⟩
    · exact h.valid n w hw
    · exact h.valid m v hv
  · intro m v j hv hj
    rcases get_set_cases hv with ⟨_, rfl⟩ | ⟨hm, hv⟩
    · rcases hnew j hj with hold | ⟨_, hlt, hfresh⟩
      · refine ⟨Nat.lt_of_lt_of_le (h.own n w j hw hold).1 hlen, ?_⟩
        intro x i hx
        rcases hdir x i hx with hx | ⟨_, hnone⟩
        · exact (h.own n w j hw hold).2 x i hx
        · simp only at hj; rw [hnone] at hj; cases hj
      · exact ⟨hlt, hfresh⟩
    · obtain ⟨hlt, hne, _⟩ := other m v j hm hv hj
      refine ⟨Nat.lt_of_lt_of_le hlt hlen, ?_⟩
      intro x i hx
      rcases hdir x i hx with hx | ⟨hown, _⟩
      · exact (h.own m v j hv hj).2 x i hx
      · intro hij; subst hij; exact hne hown
  · intro m1 m2 v1 v2 j hne hv1 hv2 hj
    rcases get_set_cases hv1 with ⟨e1, rfl⟩ | ⟨hm1, hv1⟩
    · rcases get_set_cases hv2 with ⟨e2, _⟩ | ⟨hm2, hv2⟩
      · exact absurd (e1.trans e2.symm) hne
      · intro hj2
        rcases hnew j hj with hold | ⟨hge, _, _⟩
        · exact h.sep n m2 w v2 j (fun e => hm2 e.symm) hw hv2 hold hj2
        · have := (h.own m2 v2 j hv2 hj2).1; omega
    · rcases get_set_cases hv2 with ⟨_, rfl⟩ | ⟨hm2, hv2⟩
      · intro hj2
        rcases hnew j hj2 with hold | ⟨hge, _, _⟩
        · exact h.sep m1 n v1 w j hm1 hv1 hw hj hold
        · have := (h.own m1 v1 j hv1 hj).1; omega
      · exact h.sep m1 m2 v1 v2 j hne hv1 hv2 hj
  · intro m v i j hv hph
    rcases get_set_cases hv with ⟨_, rfl⟩ | ⟨hm, hv⟩
    · exact hempty i j hph
    · obtain ⟨_, _, hsame⟩ := other m v j hm hv (by rw [hph]; rfl)
      rw [hsame]; exact h.empty m v i j hv hph
  · intro m v i j hv hph
    rcases get_set_cases hv with ⟨_, rfl⟩ | ⟨hm, hv⟩
    · exact hfull i j hph
    · obtain ⟨_, _, hsame⟩ := other m v j hm hv (by rcases hph with e | e <;> (rw [e]; rfl))
      rw [hsame]; exact h.full m v i j hv hph
  · intro m v hv hph
    rcases get_set_cases hv with ⟨_, rfl⟩ | ⟨_, hv⟩
    · exact hack hph
    · exact hmono _ (h.acked m v hv hph)

/-- what one step does to the objects of other addresses and to the set of visible names -/
structure GFrame (k k' : K) (a : Nat) : Prop where
  frame : ∀ x e, x ≠ a → ReadsK k.inodes k.dir x e → ReadsK k'.inodes k'.dir x e
  mono : ∀ x, (k.dir.lookup x).isSome → (k'.dir.lookup x).isSome

theorem rename_mono (k : K) (a j x : Nat) (hx : (k.dir.lookup x).isSome) :
    ((eraseKey a k.dir ++ [(a, j)]).lookup x).isSome := by
  rw [lookup_append_new]
  by_cases hxa : x = a
  · subst hxa; rw [lookup_eraseKey_self]; simp
  · rw [lookup_eraseKey_ne a x _ hxa]
    cases hl : k.dir.lookup x with
    | none => rw [hl] at hx; cases hx
    | some v => simp

/-- one system call of a caller of address `a`: objects of other addresses read the same, no name disappears -/
theorem gstep_frame {P} (o : Oracle) (k : K) (a : Nat) (d : Bytes) (ph : GPhase) (hk : KInv P k.inodes k.dir)
    (hown : ∀ j, gIno ph = some j → ∀ x i, k.dir.lookup x = some i → i ≠ j) : GFrame k (gstep o k a d ph).1 a := by
  cases ph with
  | atOpen i =>
    simp only [gstep]
    obtain ⟨_, od, oc⟩ := sysOpenExcl_spec o k (a, i)
    have key : GFrame k (sysOpenExcl o k (a, i)).1 a := by
      refine ⟨fun x e _ hr => ?_, fun x hx => by rw [od]; exact hx⟩
      rcases oc with ⟨_, oi⟩ | ⟨_, _, oi⟩
      · rw [oi, od]; exact hr
      · rw [oi, od]; exact readsK_addInode hk hr []
    split <;> exact key
  | atWrite i j =>
    simp only [gstep]
    obtain ⟨_, wd, _, y, wi, _⟩ := sysWrite_spec o k j d
    refine ⟨fun x e _ hr => ?_, fun x hx => by rw [wd]; exact hx⟩
    rw [wi, wd]; exact readsK_appendAt_fresh (hown j rfl) hr y
  | atClose i j wok =>
    simp only [gstep]
    obtain ⟨_, ci, cd, _⟩ := sysSync_spec o k
    exact ⟨fun x e _ hr => by rw [ci, cd]; exact hr, fun x hx => by rw [cd]; exact hx⟩
  | atRename i j =>
    simp only [gstep]
    obtain ⟨_, ri, rc⟩ := sysRename_spec o k (a, i) j a
    refine ⟨fun x e hxa hr => ?_, fun x hx => ?_⟩
    · rcases rc with ⟨_, rd⟩ | ⟨_, rd⟩
      · rw [ri, rd]; exact hr
      · obtain ⟨i', hi', hhi⟩ := hr
        refine ⟨i', ?_, by rw [ri]; exact hhi⟩
        rw [rd, lookup_append_new, lookup_eraseKey_ne a x _ hxa, hi']; simp
    · rcases rc with ⟨_, rd⟩ | ⟨_, rd⟩
      · rw [rd]; exact hx
      · rw [rd]; exact rename_mono k a j x hx
  | atReturn => exact ⟨fun _ _ _ hr => hr, fun _ hx => hx⟩
  | done ok => exact ⟨fun _ _ _ hr => hr, fun _ hx => hx⟩

/-- one system call of caller `n`, for every oracle: the invariant is kept -/
theorem gstep_ginv {P} (o : Oracle) (k : K) (ws : List GW) (n : Nat) (w : GW) (h : GInv P k ws) (hw : ws[n]? = some w) :
    GInv P (gstep o k w.a w.d w.ph).1 (ws.set n { w with ph := (gstep o k w.a w.d w.ph).2 }) := by
  obtain ⟨ha, hd, hp⟩ := h.valid n w hw
  cases hph : w.ph with
  | atOpen i =>
    simp only [gstep]
    obtain ⟨_, od, oc⟩ := sysOpenExcl_spec o k (w.a, i)
    have hkeepdir : ∀ x i', (sysOpenExcl o k (w.a, i)).1.dir.lookup x = some i' → k.dir.lookup x = some i' := by
      intro x i' hx; rw [od] at hx; exact hx
    -- a failed open: nothing but the call index changes
    have failed : ∀ ph', gIno ph' = none → (∀ b, ph' ≠ .done b) → (sysOpenExcl o k (w.a, i)).1.inodes = k.inodes →
        GInv P (sysOpenExcl o k (w.a, i)).1 (ws.set n { w with ph := ph' }) := by
      intro ph' hnone hnd oi
      exact ginv_update h hw (by rw [oi, od]; exact h.kinv) (by rw [oi]; exact Nat.le_refl _) (fun j _ _ => by rw [oi])
        (fun x i' hx => Or.inl (hkeepdir x i' hx)) (fun x hx => by rw [od]; exact hx)
        (fun j hj => by rw [hnone] at hj; cases hj) (fun _ _ e => by rw [e] at hnone; cases hnone)
        (fun _ _ e => by rcases e with e | e <;> (rw [e] at hnone; cases hnone)) (fun e => absurd e (hnd true))
    cases hres : (sysOpenExcl o k (w.a, i)).2.1 with
    | ok =>
      simp only
      rcases oc with ⟨hne, _⟩ | ⟨_, hino, oi⟩
      · exact absurd hres hne
      · rw [hino]
        exact ginv_update h hw (by rw [oi, od]; exact kinv_addInode h.kinv [])
          (by rw [oi]; simp)
          (fun j hj _ => by rw [oi]; exact getD_append_lt _ _ _ hj)
          (fun x i' hx => Or.inl (hkeepdir x i' hx)) (fun x hx => by rw [od]; exact hx)
          (fun j hj => by
            simp only [gIno] at hj; cases hj
            exact Or.inr ⟨Nat.le_refl _, by rw [oi]; simp, fun x i' hx => by
              have := kinv_lt h.kinv (hkeepdir x i' hx); omega⟩)
          (fun i' j e => by cases e; rw [oi]; exact getD_append_new _ _)
          (fun _ _ e => by rcases e with e | e <;> cases e) (fun e => by cases e)
    | eexist =>
      simp only
      rcases oc with ⟨_, oi⟩ | ⟨hok, _, _⟩
      · split
        · exact failed _ rfl (fun b e => by cases e) oi
        · exact failed _ rfl (fun b e => by cases e) oi
      · rw [hok] at hres; cases hres
    | err =>
      simp only
      rcases oc with ⟨_, oi⟩ | ⟨hok, _, _⟩
      · exact failed _ rfl (fun b e => by cases e) oi
      · rw [hok] at hres; cases hres
  | atWrite i j =>
    simp only [gstep]
    obtain ⟨hjlt, hjfree⟩ := h.own n w j hw (by rw [hph]; rfl)
    obtain ⟨_, wd, _, y, wi, wy⟩ := sysWrite_spec o k j w.d
    exact ginv_update h hw (by rw [wi, wd]; exact kinv_appendAt_fresh h.kinv hjfree y)
      (by rw [wi, appendAt_length]; exact Nat.le_refl _)
      (fun j' _ hne => by
        rw [wi]; exact appendAt_getD_ne _ _ _ _ (fun e => hne (by rw [hph, e]; rfl)))
      (fun x i' hx => Or.inl (by rw [wd] at hx; exact hx)) (fun x hx => by rw [wd]; exact hx)
      (fun j' hj' => Or.inl (by rw [hph]; exact hj'))
      (fun _ _ e => by cases e)
      (fun i' j' e => by
        rcases e with e | e
        · cases e
        · injection e with _ e2 e3
          subst e2
          rw [wi, appendAt_getD_eq _ _ _ hjlt, h.empty n w i j hw hph, wy e3]; rfl)
      (fun e => by cases e)
  | atClose i j wok =>
    simp only [gstep]
    obtain ⟨_, ci, cd, _⟩ := sysSync_spec o k
    refine ginv_update h hw (by rw [ci, cd]; exact h.kinv) (by rw [ci]; exact Nat.le_refl _) (fun _ _ _ => by rw [ci])
      (fun x i' hx => Or.inl (by rw [cd] at hx; exact hx)) (fun x hx => by rw [cd]; exact hx) ?_ ?_ ?_ ?_
    · intro j' hj'
      left
      rw [hph]
      split at hj'
      · exact hj'
      · cases hj'
    · intro i' j' e
      split at e <;> cases e
    · intro i' j' e
      split at e
      · rename_i hc
        rcases e with e | e
        · injection e with e1 e2
          subst e1; subst e2
          rw [ci]
          have : wok = true := by
            cases wok
            · simp at hc
            · rfl
          subst this
          exact h.full n w i j hw (Or.inr hph)
        · cases e
      · rcases e with e | e <;> cases e
    · intro e
      split at e <;> cases e
  | atRename i j =>
    simp only [gstep]
    obtain ⟨hjlt, hjfree⟩ := h.own n w j hw (by rw [hph]; rfl)
    obtain ⟨_, ri, rc⟩ := sysRename_spec o k (w.a, i) j w.a
    have hcontent := h.full n w i j hw (Or.inl hph)
    have hh : Holds (k.inodes.getD j []) w.a w.d := by rw [hcontent]; exact Or.inl ⟨rfl, hd.2⟩
    rcases rc with ⟨rr, rd⟩ | ⟨rr, rd⟩
    · exact ginv_update h hw (by rw [ri, rd]; exact h.kinv) (by rw [ri]; exact Nat.le_refl _) (fun _ _ _ => by rw [ri])
        (fun x i' hx => Or.inl (by rw [rd] at hx; exact hx)) (fun x hx => by rw [rd]; exact hx)
        (fun _ e => by cases e) (fun _ _ e => by cases e) (fun _ _ e => by rcases e with e | e <;> cases e)
        (fun e => by rw [rr] at e; cases e)
    · refine ginv_update h hw (by rw [ri, rd]; exact kinv_rename h.kinv ha hp hd.1 hh) (by rw [ri]; exact Nat.le_refl _)
        (fun _ _ _ => by rw [ri]) ?_ (fun x hx => by rw [rd]; exact rename_mono k w.a j x hx)
        (fun _ e => by cases e) (fun _ _ e => by cases e)
        (fun _ _ e => by rcases e with e | e <;> cases e) ?_
      · intro x i' hx
        rw [rd, lookup_append_new] at hx
        by_cases hxa : x = w.a
        · subst hxa
          rw [lookup_eraseKey_self] at hx
          simp at hx
          subst hx
          exact Or.inr ⟨by rw [hph]; rfl, rfl⟩
        · rw [lookup_eraseKey_ne w.a x _ hxa] at hx
          by_cases hn : k.dir.lookup x = none
          · rw [if_pos hn, if_neg hxa] at hx; cases hx
          · rw [if_neg hn] at hx; exact Or.inl hx
      · intro _
        rw [rd, lookup_append_new, lookup_eraseKey_self]; simp
  | atReturn =>
    simp only [gstep]
    exact ginv_update h hw h.kinv (Nat.le_refl _) (fun _ _ _ => rfl) (fun _ _ hx => Or.inl hx) (fun _ hx => hx)
      (fun _ e => by cases e) (fun _ _ e => by cases e) (fun _ _ e => by rcases e with e | e <;> cases e) (fun e => by cases e)
  | done ok =>
    simp only [gstep]
    exact ginv_update h hw h.kinv (Nat.le_refl _) (fun _ _ _ => rfl) (fun _ _ hx => Or.inl hx) (fun _ hx => hx)
      (fun _ e => by cases e) (fun _ _ e => by cases e) (fun _ _ e => by rcases e with e | e <;> cases e)
      (fun e => by cases e; exact h.acked n w hw hph)

/-- ONE SYSTEM CALL OF ONE CALLER, for every oracle: the invariant is kept, objects of other addresses read the
same, no name disappears -/
theorem gschedStep_inv {P} (o : Oracle) (s : K × List GW) (n : Nat) (h : GInv P s.1 s.2) :
    GInv P (gschedStep o s n).1 (gschedStep o s n).2 ∧
    (∀ w : GW, s.2[n]? = some w → GFrame s.1 (gschedStep o s n).1 w.a) ∧
    (s.2[n]? = none → gschedStep o s n = s) ∧
    (∀ (m : Nat) (v : GW), (gschedStep o s n).2[m]? = some v → ∃ v0 : GW, s.2[m]? = some v0 ∧ v0.a = v.a) := by
  obtain ⟨k, ws⟩ := s
  simp only at h
  unfold gschedStep
  simp only
  cases hw : ws[n]? with
  | none => exact ⟨h, fun _ hh => (by cases hh), fun _ => rfl, fun m v hv => ⟨v, hv, rfl⟩⟩
  | some w =>
    simp only
    refine ⟨gstep_ginv o k ws n w h hw, ?_, fun hh => (by cases hh), ?_⟩
    · intro w' hw'
      cases hw'
      exact gstep_frame o k w.a w.d w.ph h.kinv (fun j hj => (h.own n w j hw hj).2)
    · intro m v hv
      rcases get_set_cases hv with ⟨e, rfl⟩ | ⟨_, hv⟩
      · exact ⟨w, by rw [e]; exact hw, rfl⟩
      · exact ⟨v, hv, rfl⟩

/-- EVERY INTERLEAVING, EVERY ORACLE: the invariant holds after any schedule; objects of addresses no caller writes
read the same; no visible name disappears; callers keep their addresses -/
theorem gsched_inv {P} (o : Oracle) (sched : List Nat) :
    ∀ (s : K × List GW), GInv P s.1 s.2 →
    GInv P (sched.foldl (gschedStep o) s).1 (sched.foldl (gschedStep o) s).2 ∧
    (∀ x e, (∀ (n : Nat) (w : GW), s.2[n]? = some w → w.a ≠ x) → ReadsK s.1.inodes s.1.dir x e →
      ReadsK (sched.foldl (gschedStep o) s).1.inodes (sched.foldl (gschedStep o) s).1.dir x e) ∧
    (∀ x, (s.1.dir.lookup x).isSome → ((sched.foldl (gschedStep o) s).1.dir.lookup x).isSome) ∧
    (∀ (m : Nat) (v : GW), (sched.foldl (gschedStep o) s).2[m]? = some v → ∃ v0 : GW, s.2[m]? = some v0 ∧ v0.a = v.a) := by
  induction sched with
  | nil => intro s h; exact ⟨h, fun _ _ _ hr => hr, fun _ hx => hx, fun m v hv => ⟨v, hv, rfl⟩⟩
  | cons n rest ih =>
    intro s h
    obtain ⟨h1, hf, hnone, hnames⟩ := gschedStep_inv o s n h
    obtain ⟨i1, i2, i3, i4⟩ := ih (gschedStep o s n) h1
    simp only [List.foldl_cons]
    refine ⟨i1, ?_, ?_, ?_⟩
    · intro x e hx hr
      apply i2 x e
      · intro m v hv
        obtain ⟨v0, hv0, ha⟩ := hnames m v hv
        rw [← ha]; exact hx m v0 hv0
      · cases hw : s.2[n]? with
        | none => rw [hnone hw]; exact hr
        | some w => exact (hf w hw).frame x e (fun e' => hx n w hw e'.symm) hr
    · intro x hx
      apply i3 x
      cases hw : s.2[n]? with
      | none => rw [hnone hw]; exact hx
      | some w => exact (hf w hw).mono x hx
    · intro m v hv
      obtain ⟨v1, hv1, ha1⟩ := i4 m v hv
      obtain ⟨v0, hv0, ha0⟩ := hnames m v1 hv1
      exact ⟨v0, hv0, ha0.trans ha1⟩

/-- callers that have not started yet -/
theorem ginv_init {P} (k : K) (ws : List GW) (hk : KInv P k.inodes k.dir)
    (hw : ∀ w ∈ ws, w.ph = .atOpen 0 ∧ IdOK w.a ∧ ValidData w.d ∧ P w.a w.d) : GInv P k ws := by
  have ph0 : ∀ (n : Nat) (w : GW), ws[n]? = some w → w.ph = .atOpen 0 := fun n w h => (hw w (List.mem_of_getElem? h)).1
  refine ⟨hk, fun n w h => (hw w (List.mem_of_getElem? h)).2, ?_, ?_, ?_, ?_, ?_⟩
  · intro n w j h hj; rw [ph0 n w h] at hj; cases hj
  · intro n m w v j _ h _ hj; rw [ph0 n w h] at hj; cases hj
  · intro n w i j h e; rw [ph0 n w h] at e; cases e
  · intro n w i j h e; rw [ph0 n w h] at e; rcases e with e | e <;> cases e
  · intro n w h e; rw [ph0 n w h] at e; cases e

/-! ## one caller alone: the step machine is the direct-style writer -/

/-- `m` steps of one caller -/
def gIter (o : Oracle) (a : Nat) (d : Bytes) : Nat → K × GPhase → K × GPhase
  | 0, s => s
  | m + 1, s => gIter o a d m (gstep o s.1 a d s.2)

theorem gIter_succ (o : Oracle) (a : Nat) (d : Bytes) (m : Nat) (s : K × GPhase) :
    gIter o a d (m + 1) s = gIter o a d m (gstep o s.1 a d s.2) := rfl

theorem gIter_done (o : Oracle) (a : Nat) (d : Bytes) (m : Nat) (k : K) (b : Bool) :
    gIter o a d m (k, .done b) = (k, .done b) := by
  induction m with
  | zero => rfl
  | succ m ih => rw [gIter_succ]; simp only [gstep]; exact ih

theorem gIter_return (o : Oracle) (a : Nat) (d : Bytes) (m : Nat) (k : K) :
    gIter o a d (m + 1) (k, .atReturn) = (k, .done false) := by
  rw [gIter_succ]; simp only [gstep]; exact gIter_done o a d m k false

/-- a caller that runs alone from its `i`-th attempt ends exactly where `genericWrite` ends, with its result -/
theorem machine_eq_genericWrite (o : Oracle) (a : Nat) (d : Bytes) :
    ∀ (tries i : Nat) (k : K) (m : Nat), tries + i = genericRetries → tries + 4 ≤ m → 0 < tries →
    gIter o a d m (k, .atOpen i) = ((genericWrite o tries i k a d).1, .done (genericWrite o tries i k a d).2) := by
  intro tries
  induction tries with
  | zero => intro i k m _ _ h; omega
  | succ tries ih =>
    intro i k m hsum hm _
    obtain ⟨m', rfl⟩ : ∃ m', m = m' + 5 := ⟨m - 5, by omega⟩
    unfold genericWrite
    rw [gIter_succ]
    simp only [gstep]
    cases hres : (sysOpenExcl o k (a, i)).2.1 with
    | eexist =>
      simp only
      by_cases ht : tries = 0
      · subst ht
        have hi : ¬ (i + 1 < genericRetries) := by unfold genericRetries at *; omega
        simp only [hi, if_false, if_true]
        exact gIter_return o a d (m' + 3) _
      · have hi : i + 1 < genericRetries := by unfold genericRetries at *; omega
        simp only [hi, if_true, ht, if_false]
        exact ih (i + 1) _ (m' + 4) (by omega) (by omega) (by omega)
    | err =>
      simp only
      exact gIter_return o a d (m' + 3) _
    | ok =>
      simp only
      rw [gIter_succ]
      simp only [gstep]
      cases hw : (sysWrite o (sysOpenExcl o k (a, i)).1 (sysOpenExcl o k (a, i)).2.2 d).2 with
      | false =>
        simp only [Bool.not_false, if_true]
        rw [gIter_succ]
        simp only [gstep, Bool.false_and, Bool.false_eq_true, if_false]
        exact gIter_return o a d (m' + 1) _
      | true =>
        simp only [Bool.not_true, Bool.false_eq_true, if_false]
        rw [gIter_succ]
        simp only [gstep, Bool.true_and]
        cases hc : (sysSync o (sysWrite o (sysOpenExcl o k (a, i)).1 (sysOpenExcl o k (a, i)).2.2 d).1).2 with
        | false =>
          simp only [Bool.false_eq_true, if_false, Bool.not_false, if_true]
          exact gIter_return o a d (m' + 1) _
        | true =>
          simp only [if_true, Bool.not_true, Bool.false_eq_true, if_false]
          rw [gIter_succ]
          simp only [gstep]
          exact gIter_done o a d (m' + 1) _ _

/-- `Put` on the portable writer is the machine run alone -/
theorem put_generic_is_machine (cfg : Cfg) (hg : cfg.generic = true) (o : Oracle) (k : K) (a : Nat) (d : Bytes) (hd : d ≠ []) :
    (put cfg o k a d).1 = (gIter o a d 12 (k, .atOpen 0)).1 ∧
    ((put cfg o k a d).2 = .ok ↔ (gIter o a d 12 (k, .atOpen 0)).2 = .done true) := by
  have h := machine_eq_genericWrite o a d genericRetries 0 k 12 rfl (by unfold genericRetries; omega) (by unfold genericRetries; omega)
  unfold put
  simp only [hd, if_false, hg, if_true]
  rw [h]
  unfold genericRetries
  constructor
  · rfl
  · cases (genericWrite o 5 0 k a d).2 <;> simp

/-- one caller alone is the schedule `0, 0, …` over a single caller -/
theorem gsched_single (o : Oracle) (a : Nat) (d : Bytes) :
    ∀ (m : Nat) (k : K) (ph : GPhase),
    gsched o k [{ a := a, d := d, ph := ph }] (List.replicate m 0) =
      ((gIter o a d m (k, ph)).1, [{ a := a, d := d, ph := (gIter o a d m (k, ph)).2 }]) := by
  intro m
  induction m with
  | zero => intro k ph; rfl
  | succ m ih =>
    intro k ph
    have := ih (gstep o k a d ph).1 (gstep o k a d ph).2
    simp only [gsched] at this ⊢
    rw [List.replicate_succ, List.foldl_cons]
    simp only [gschedStep, List.getElem?_cons_zero, List.set_cons_zero]
    rw [this, gIter_succ]

end NeoFS.FSTree
