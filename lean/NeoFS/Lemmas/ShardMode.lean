import NeoFS.Model.ShardMode
/-!
Lemmas shared by the shard-mode properties (C14, C43).

The section "facts" pins the regenerated facts of `Gen/ShardMode.lean` the proofs rest on: if a guard disappears
from the code the fact turns `false`, `rfl` fails and everything downstream stops checking.
-/
namespace NeoFS.ShardMode
open NeoFS.Gen.ShardMode

/-! ### facts regenerated from the source -/

section facts
@[simp] theorem f_put : put_guardRO = true := rfl
@[simp] theorem f_del : deleteObjs_guardRO = true := rfl
@[simp] theorem f_mark : markGarbage_guardRO = true := rfl
@[simp] theorem f_inh : inhumeContainer_guardRO = true := rfl
@[simp] theorem f_delc : deleteContainer_guardRO = true := rfl
@[simp] theorem f_rev : reviveObject_guardRO = true := rfl
@[simp] theorem f_flush : flushWriteCache_guardRO = true := rfl
@[simp] theorem f_restore : restore_guardRO = true := rfl
@[simp] theorem f_gc : removeGarbage_rwOnly = true := rfl
@[simp] theorem f_worker : flushWorker_guardRO = true := rfl
@[simp] theorem f_list : list_guardDegraded = true := rfl
@[simp] theorem f_select : select_guardDegraded = true := rfl
@[simp] theorem f_listc : listContainers_guardDegraded = true := rfl
@[simp] theorem f_cinfo : containerInfo_guardDegraded = true := rfl
@[simp] theorem f_locked : isLocked_guardDegraded = true := rfl
/-- the flush loop is started by `Init` only: `Open` after `Close` (engine maintenance cycle) and `SetMode` do not
start it -/
@[simp] theorem f_wcInit : wcInit_startsFlushLoop = true := rfl
@[simp] theorem f_wcOpen : wcOpen_startsFlushLoop = false := rfl
@[simp] theorem f_wcSetMode : wcSetMode_startsFlushLoop = false := rfl
/-- `Shard.Open` opens the components and does nothing else: no `Init`, no mode switch -/
@[simp] theorem f_shardOpen : shardOpen_initsOrSetsMode = false := rfl

/-- read-write is not a read-only mode; the two read-only modes (and `Disabled`) are -/
theorem modes_table :
    isReadOnly readWrite = false ∧ isReadOnly readOnly = true ∧ isReadOnly degraded = false ∧
    isReadOnly degradedReadOnly = true ∧ isReadOnly disabled = true ∧
    noMetabase readWrite = false ∧ noMetabase readOnly = false ∧ noMetabase degraded = true ∧
    noMetabase degradedReadOnly = true ∧ noMetabase disabled = true := by decide

theorem ro_ne_rw {m : Nat} (h : isReadOnly m = true) : (m != modeRW) = true := by
  cases hm : (m != modeRW)
  · have : m = modeRW := by simpa using hm
    subst this
    exact absurd h (by decide)
  · rfl
end facts

/-! ### the frame -/

/-- what a read-only period looks like from inside: the shard reports a read-only mode, its blobstor is opened
read-only and its write-cache (if any) is in a read-only mode -/
structure ROStable (s : St) : Prop where
  mode : isReadOnly s.mode = true
  blob : s.blobRO = true
  wc : s.hasWC = true → isReadOnly s.wcMode = true

/-- operations of a read-only period: everything except a request to leave it (a switch to a writable mode) and
injected component failures (those belong to C43) -/
def Op.staysRO : Op → Bool
  | .setMode m f => isReadOnly m && f == .none
  | .restart _ => false
  | .reopen => false   -- opens the components for writing: the period continues as `ROQuiet` (Props/C14)
  | _ => true

theorem foldl_fixed {α β : Type} (f : α → β → α) (a : α) (h : ∀ b, f a b = a) : ∀ l : List β, l.foldl f a = a := by
  intro l
  induction l with
  | nil => rfl
  | cons x xs ih => simp [List.foldl, h, ih]

/-- with a read-only blobstor a flush moves nothing, whatever the cache holds -/
theorem flush_ro_fst (s : St) (hb : s.blobRO = true) : ∀ (l : List Addr) (b : Bool), (l.foldl flushOne (s, b)).1 = s := by
  intro l
  induction l with
  | nil => intro b; rfl
  | cons a as ih =>
    intro b
    simp only [List.foldl]
    cases b
    · simp only [flushOne]; simpa using ih false
    · have : flushOne (s, true) a = (s, false) := by simp [flushOne, blobPut, hb]
      rw [this]; exact ih false

theorem wcFlushAll_ro (s : St) (hb : s.blobRO = true) : (wcFlushAll s).1 = s := flush_ro_fst s hb _ _

theorem deleteContainer_ro (s : St) (h : isReadOnly s.mode = true) (cn : Nat) : deleteContainer s cn = (s, .readOnly) := by
  simp [deleteContainer, h]

theorem handleEpoch_ro (s : St) (h : isReadOnly s.mode = true) (e : Nat) :
    handleEpoch s e = { s with curEpoch := e, metaEpoch := e } := by
  unfold handleEpoch
  simp only []
  split
  · rfl
  · split
    · apply foldl_fixed
      intro cn
      split
      · rw [deleteContainer_ro _ (by simpa using h)]
      · rfl
    · rfl

/-- what every component step of a switch between read-only modes preserves, relative to the state `s` the switch
started from -/
structure Kept (s t : St) : Prop where
  persist : t.persist = s.persist
  mode : t.mode = s.mode
  hasWC : t.hasWC = s.hasWC
  blob : t.blobRO = true
  wc : t.hasWC = true → isReadOnly t.wcMode = true

theorem comp_kept (s t : St) (m : Nat) (hm : isReadOnly m = true) (k : Kept s t) (c : Comp) :
    Kept s (compSetMode t m .none c).1 := by
  obtain ⟨k1, k2, k3, k4, k5⟩ := k
  cases c with
  | mb =>
    simp only [compSetMode, metaSetMode]
    split
    · contradiction
    · split
      · exact ⟨k1, k2, k3, k4, k5⟩
      · split
        · exact ⟨k1, k2, k3, k4, k5⟩
        · split
          · contradiction
          · exact ⟨k1, k2, k3, k4, k5⟩
  | bs =>
    simp only [compSetMode, blobSetMode]
    split
    · contradiction
    · exact ⟨k1, k2, k3, hm, k5⟩
  | wc =>
    have hw := wcFlushAll_ro t k4
    simp only [compSetMode, wcSetMode]
    split
    · contradiction
    · split
      · -- the flush ran (and moved nothing)
        split
        · rw [hw]; exact ⟨k1, k2, k3, k4, k5⟩
        · split
          · rw [hw]; exact ⟨k1, k2, k3, k4, fun _ => hm⟩
          · rw [hw]; exact ⟨k1, k2, k3, k4, fun _ => hm⟩
      · split
        · exact ⟨k1, k2, k3, k4, k5⟩
        · split
          · exact ⟨k1, k2, k3, k4, fun _ => hm⟩
          · exact ⟨k1, k2, k3, k4, fun _ => hm⟩

theorem runComps_kept (s : St) (m : Nat) (hm : isReadOnly m = true) :
    ∀ (l : List Comp) (t : St) (e : Err), Kept s t → Kept s (runComps m .none (t, e) l).1 := by
  intro l
  induction l with
  | nil => intro t e k; exact k
  | cons c cs ih =>
    intro t e k
    simp only [runComps]
    split
    · exact k
    · exact ih _ _ (comp_kept s t m hm k c)

/-- a switch between read-only modes: the components change mode, the data does not -/
theorem setMode_ro (s : St) (hs : ROStable s) (m : Nat) (hm : isReadOnly m = true) :
    (setMode s m .none).1.persist = s.persist ∧ ROStable (setMode s m .none).1 := by
  have k0 : Kept s s := ⟨rfl, rfl, rfl, hs.blob, hs.wc⟩
  have k := runComps_kept s m hm (order s.hasWC m) s .ok k0
  unfold setMode
  simp only []
  split
  · exact ⟨k.persist, ⟨hm, k.blob, k.wc⟩⟩
  · exact ⟨k.persist, ⟨by rw [k.mode]; exact hs.mode, k.blob, k.wc⟩⟩



/-- reported and actual modes agree (what fault-free histories maintain; C43 is about this invariant) -/
structure Consistent (s : St) : Prop where
  metaMode : s.metaMode = s.mode
  metaOpen : s.metaOpen = !noMetabase s.mode
  blob : s.blobRO = isReadOnly s.mode
  wc : s.hasWC = true → s.wcMode = s.mode

theorem consistent_ro (s : St) (hc : Consistent s) (hm : isReadOnly s.mode = true) : ROStable s :=
  ⟨hm, by rw [hc.blob, hm], fun h => by rw [hc.wc h]; exact hm⟩


theorem metaErr_not_mode (e : Meta.Err) : metaErr e ≠ .readOnly ∧ metaErr e ≠ .degraded ∧ metaErr e ≠ .compRefused := by
  cases e <;> simp [metaErr]


/-! ### a fault-free mode switch, component by component -/

/-- the mode-related part of the state (everything `SetMode` is about) -/
def St.cfg (t : St) : Bool × Nat × Nat × Bool × Bool × Nat × Bool :=
  (t.hasWC, t.mode, t.metaMode, t.metaOpen, t.blobRO, t.wcMode, t.wcStoreRO)

theorem flushOne_cfg (st : St × Bool) (a : Addr) : (flushOne st a).1.cfg = st.1.cfg := by
  unfold flushOne
  split
  · rfl
  · simp only [blobPut]
    split <;> (try split) <;> (try split) <;> simp_all [St.cfg]

theorem foldl_flushOne_cfg : ∀ (l : List Addr) (st : St × Bool), (l.foldl flushOne st).1.cfg = st.1.cfg := by
  intro l
  induction l with
  | nil => intro st; rfl
  | cons a as ih => intro st; simp only [List.foldl]; rw [ih, flushOne_cfg]

theorem wcFlushAll_cfg (t : St) : (wcFlushAll t).1.cfg = t.cfg := foldl_flushOne_cfg _ _

theorem metaSetMode_none (t : St) (m : Nat) :
    metaSetMode t m .none =
      ({ t with metaMode := m, metaOpen := if t.metaMode == m then t.metaOpen else !noMetabase m }, .ok) := by
  unfold metaSetMode
  by_cases h : t.metaMode = m
  · subst h; simp
  · have hb : (t.metaMode == m) = false := by simpa using h
    simp only [hb]
    by_cases hn : noMetabase m = true
    · simp [hn]
    · simp [hn]

theorem blobSetMode_none (t : St) (m : Nat) :
    blobSetMode t m .none = ({ t with blobRO := isReadOnly m }, .ok) := by
  simp [blobSetMode]

theorem wcSetMode_none (t : St) (m : Nat) :
    (wcSetMode t m .none).1.hasWC = t.hasWC ∧ (wcSetMode t m .none).1.mode = t.mode ∧
    (wcSetMode t m .none).1.metaMode = t.metaMode ∧ (wcSetMode t m .none).1.metaOpen = t.metaOpen ∧
    (wcSetMode t m .none).1.blobRO = t.blobRO ∧
    ((wcSetMode t m .none).2 = .ok → (wcSetMode t m .none).1.wcMode = m) := by
  have hf := wcFlushAll_cfg t
  simp only [St.cfg, Prod.mk.injEq] at hf
  obtain ⟨h1, h2, h3, h4, h5, h6, h7⟩ := hf
  unfold wcSetMode
  simp only [show (Fault.none == Fault.wc) = false from rfl, Bool.false_eq_true, if_false]
  split
  · split
    · simp_all
    · split <;> simp_all
  · split
    · simp_all
    · split <;> simp_all


/-- the metabase component is always coherent in itself: its handle is open exactly in the modes with a metabase -/
def MetaWF (s : St) : Prop := s.metaOpen = !noMetabase s.metaMode

/-- component `c` is in mode `m` -/
def Done (m : Nat) (t : St) : Comp → Prop
  | .mb => t.metaMode = m ∧ t.metaOpen = !noMetabase m
  | .bs => t.blobRO = isReadOnly m
  | .wc => t.wcMode = m

/-- what holds of every intermediate state of a switch from `s` (with or without an injected failure) -/
structure Mid (s : St) (t : St) : Prop where
  mode : t.mode = s.mode
  hasWC : t.hasWC = s.hasWC
  metaWF : MetaWF t

theorem metaSetMode_spec (t : St) (m : Nat) (f : Fault) :
    (metaSetMode t m f).1.hasWC = t.hasWC ∧ (metaSetMode t m f).1.mode = t.mode ∧
    (metaSetMode t m f).1.blobRO = t.blobRO ∧ (metaSetMode t m f).1.wcMode = t.wcMode ∧
    (metaSetMode t m f).1.persist = t.persist ∧
    (MetaWF t → MetaWF (metaSetMode t m f).1) ∧
    ((metaSetMode t m f).2 = .ok → MetaWF t → Done m (metaSetMode t m f).1 .mb) := by
  have hd : noMetabase degradedReadOnly = true := by decide
  unfold metaSetMode
  split
  · simp [Done]
  · split
    · rename_i hm
      have hm' : t.metaMode = m := by simpa using hm
      subst hm'
      simp [Done, MetaWF]
    · split
      · rename_i hn
        simp [Done, MetaWF, St.persist, hn]
      · split
        · simp [Done, MetaWF, St.persist, hd]
        · rename_i hn _
          simp [Done, MetaWF, St.persist, hn]

theorem blobSetMode_spec (t : St) (m : Nat) (f : Fault) :
    (blobSetMode t m f).1.hasWC = t.hasWC ∧ (blobSetMode t m f).1.mode = t.mode ∧
    (blobSetMode t m f).1.metaMode = t.metaMode ∧ (blobSetMode t m f).1.metaOpen = t.metaOpen ∧
    (blobSetMode t m f).1.wcMode = t.wcMode ∧ (blobSetMode t m f).1.persist = t.persist ∧
    ((blobSetMode t m f).2 = .ok → Done m (blobSetMode t m f).1 .bs) ∧
    (t.blobRO = isReadOnly m → (blobSetMode t m f).1.blobRO = isReadOnly m) := by
  unfold blobSetMode
  split <;> simp [Done, St.persist]

theorem wcSetMode_spec (t : St) (m : Nat) (f : Fault) :
    (wcSetMode t m f).1.hasWC = t.hasWC ∧ (wcSetMode t m f).1.mode = t.mode ∧
    (wcSetMode t m f).1.metaMode = t.metaMode ∧ (wcSetMode t m f).1.metaOpen = t.metaOpen ∧
    (wcSetMode t m f).1.blobRO = t.blobRO ∧
    ((wcSetMode t m f).2 = .ok → (wcSetMode t m f).1.wcMode = m) ∧
    (t.wcMode = m → (wcSetMode t m f).1.wcMode = m) ∧
    ((wcSetMode t m f).2 ≠ .ok → (wcSetMode t m f).1.cfg = t.cfg) := by
  have hf := wcFlushAll_cfg t
  have hf' := hf
  simp only [St.cfg, Prod.mk.injEq] at hf
  obtain ⟨h1, h2, h3, h4, h5, h6, h7⟩ := hf
  unfold wcSetMode
  by_cases hfw : f = .wc
  · subst hfw; simp
  · have hfb : (f == Fault.wc) = false := by cases f <;> simp_all
    simp only [hfb, Bool.false_eq_true, if_false]
    by_cases hfl : (noMeta m && !noMeta t.wcMode) = true
    · simp only [hfl, if_true]
      cases hr : (wcFlushAll t).2
      · simp [hf', h1, h2, h3, h4, h5, h6]
      · by_cases hn : noMeta m = true <;> simp [hn, h1, h2, h3, h4, h5]
    · simp only [hfl, Bool.false_eq_true, if_false]
      by_cases hn : noMeta m = true <;> simp [hn]

theorem comp_mid (s : St) (m : Nat) (f : Fault) (t : St) (h : Mid s t) (c : Comp) : Mid s (compSetMode t m f c).1 := by
  obtain ⟨h1, h2, h3⟩ := h
  cases c with
  | mb =>
    obtain ⟨a1, a2, _, _, _, a6, _⟩ := metaSetMode_spec t m f
    exact ⟨by simp only [compSetMode]; rw [a2, h1], by simp only [compSetMode]; rw [a1, h2], a6 h3⟩
  | bs =>
    obtain ⟨a1, a2, a3, a4, _, _, _, _⟩ := blobSetMode_spec t m f
    refine ⟨by simp only [compSetMode]; rw [a2, h1], by simp only [compSetMode]; rw [a1, h2], ?_⟩
    simp only [compSetMode, MetaWF]; rw [a3, a4]; exact h3
  | wc =>
    obtain ⟨a1, a2, a3, a4, _, _, _, _⟩ := wcSetMode_spec t m f
    refine ⟨by simp only [compSetMode]; rw [a2, h1], by simp only [compSetMode]; rw [a1, h2], ?_⟩
    simp only [compSetMode, MetaWF]; rw [a3, a4]; exact h3

theorem comp_done (s : St) (m : Nat) (f : Fault) (t : St) (h : Mid s t) (c : Comp)
    (hok : (compSetMode t m f c).2 = .ok) : Done m (compSetMode t m f c).1 c := by
  cases c with
  | mb => exact (metaSetMode_spec t m f).2.2.2.2.2.2 hok h.metaWF
  | bs => exact (blobSetMode_spec t m f).2.2.2.2.2.2.1 hok
  | wc => exact (wcSetMode_spec t m f).2.2.2.2.2.1 hok

theorem comp_pres (m : Nat) (f : Fault) (t : St) (hw : MetaWF t) (c c' : Comp) (hd : Done m t c')
    (hok : (compSetMode t m f c).2 = .ok) : Done m (compSetMode t m f c).1 c' := by
  cases c with
  | mb =>
    obtain ⟨_, _, a3, a4, _, _, a7⟩ := metaSetMode_spec t m f
    cases c' with
    | mb => exact a7 hok hw
    | bs => simp only [Done, compSetMode] at hd ⊢; rw [a3]; exact hd
    | wc => simp only [Done, compSetMode] at hd ⊢; rw [a4]; exact hd
  | bs =>
    obtain ⟨_, _, a3, a4, a5, _, _, a8⟩ := blobSetMode_spec t m f
    cases c' with
    | mb => simp only [Done, compSetMode] at hd ⊢; rw [a3, a4]; exact hd
    | bs => simp only [Done, compSetMode] at hd ⊢; exact a8 hd
    | wc => simp only [Done, compSetMode] at hd ⊢; rw [a5]; exact hd
  | wc =>
    obtain ⟨_, _, a3, a4, a5, _, a7, _⟩ := wcSetMode_spec t m f
    cases c' with
    | mb => simp only [Done, compSetMode] at hd ⊢; rw [a3, a4]; exact hd
    | bs => simp only [Done, compSetMode] at hd ⊢; rw [a5]; exact hd
    | wc => simp only [Done, compSetMode] at hd ⊢; exact a7 hd

theorem runComps_stop (m : Nat) (f : Fault) : ∀ (l : List Comp) (st : St × Err), st.2 ≠ .ok → runComps m f st l = st := by
  intro l
  induction l with
  | nil => intro st _; rfl
  | cons x xs _ => intro st hne; simp [runComps, hne]

theorem runComps_spec (s : St) (m : Nat) (f : Fault) : ∀ (l : List Comp) (t : St), Mid s t →
    (runComps m f (t, .ok) l).2 = .ok →
    Mid s (runComps m f (t, .ok) l).1 ∧ ∀ c, (c ∈ l ∨ Done m t c) → Done m (runComps m f (t, .ok) l).1 c := by
  intro l
  induction l with
  | nil => intro t h _; exact ⟨h, fun c hc => by simpa [runComps] using hc⟩
  | cons c cs ih =>
    intro t h hok
    simp only [runComps, bne_self_eq_false, Bool.false_eq_true, if_false] at hok ⊢
    by_cases hk : (compSetMode t m f c).2 = .ok
    · have e : compSetMode t m f c = ((compSetMode t m f c).1, .ok) := by rw [← hk]
      rw [e] at hok ⊢
      have := ih _ (comp_mid s m f t h c) hok
      refine ⟨this.1, fun c' hc' => this.2 c' ?_⟩
      rcases hc' with hc' | hc'
      · simp only [List.mem_cons] at hc'
        rcases hc' with rfl | hc'
        · exact Or.inr (comp_done s m f t h c' hk)
        · exact Or.inl hc'
      · exact Or.inr (comp_pres m f t h.metaWF c c' hc' hk)
    · exfalso
      rw [runComps_stop m f cs _ hk] at hok
      exact hk hok

/-- whatever happens during a switch, the reported mode, the write-cache configuration and the metabase's
coherence are kept by the component steps -/
theorem runComps_mid (s : St) (m : Nat) (f : Fault) : ∀ (l : List Comp) (t : St) (e : Err), Mid s t →
    Mid s (runComps m f (t, e) l).1 := by
  intro l
  induction l with
  | nil => intro t e h; exact h
  | cons c cs ih =>
    intro t e h
    simp only [runComps]
    split
    · exact h
    · exact ih _ _ (comp_mid s m f t h c)

theorem order_mem (b : Bool) (m : Nat) (c : Comp) : c ∈ order b m ↔ (c = .mb ∨ c = .bs ∨ (c = .wc ∧ b = true)) := by
  by_cases hrw : m = modeRW <;> cases b <;> cases c <;> simp [order, hrw]

/-- **Recovery.** From ANY state whose metabase component is coherent — whatever the other components' modes are,
e.g. after any number of failed switches — a `SetMode` that succeeds leaves reported and actual modes in agreement. -/
theorem setMode_recovers (s : St) (hw : MetaWF s) (m : Nat) (f : Fault) (hok : (setMode s m f).2 = .ok) :
    Consistent (setMode s m f).1 := by
  have mid0 : Mid s s := ⟨rfl, rfl, hw⟩
  unfold setMode at hok ⊢
  simp only [] at hok ⊢
  by_cases hr : (runComps m f (s, .ok) (order s.hasWC m)).2 = .ok
  · obtain ⟨hm, hd⟩ := runComps_spec s m f _ s mid0 hr
    have dmb := hd .mb (Or.inl ((order_mem _ _ _).2 (Or.inl rfl)))
    have dbs := hd .bs (Or.inl ((order_mem _ _ _).2 (Or.inr (Or.inl rfl))))
    simp only [hr, beq_self_eq_true, if_true]
    refine ⟨dmb.1, dmb.2, dbs, fun hw => ?_⟩
    have hw' : s.hasWC = true := by rw [← hm.hasWC]; exact hw
    exact hd .wc (Or.inl ((order_mem _ _ _).2 (Or.inr (Or.inr ⟨rfl, hw'⟩))))
  · have : ((runComps m f (s, .ok) (order s.hasWC m)).2 == .ok) = false := by simpa using hr
    simp only [this, Bool.false_eq_true, if_false] at hok
    exact absurd hok hr

/-- a switch, failed or not, keeps the metabase coherent, and a failed one keeps the reported mode -/
theorem setMode_wf (s : St) (hw : MetaWF s) (m : Nat) (f : Fault) :
    MetaWF (setMode s m f).1 ∧ (setMode s m f).1.hasWC = s.hasWC ∧
    ((setMode s m f).2 ≠ .ok → (setMode s m f).1.mode = s.mode) := by
  have k := runComps_mid s m f (order s.hasWC m) s .ok ⟨rfl, rfl, hw⟩
  unfold setMode
  simp only []
  split
  · rename_i h
    refine ⟨k.metaWF, k.hasWC, fun hne => absurd rfl hne⟩
  · exact ⟨k.metaWF, k.hasWC, fun _ => k.mode⟩

theorem consistent_metaWF (s : St) (hc : Consistent s) : MetaWF s := by
  unfold MetaWF; rw [hc.metaOpen, hc.metaMode]

theorem setMode_establishes (s : St) (hc : Consistent s) (m : Nat) (hok : (setMode s m .none).2 = .ok) :
    Consistent (setMode s m .none).1 := setMode_recovers s (consistent_metaWF s hc) m .none hok

/-! ### only a mode switch changes modes -/

theorem foldl_cfg {β : Type} (f : St → β → St) (h : ∀ st x, (f st x).cfg = st.cfg) :
    ∀ (l : List β) (s : St), (l.foldl f s).cfg = s.cfg := by
  intro l
  induction l with
  | nil => intro s; rfl
  | cons x xs ih => intro s; simp only [List.foldl]; rw [ih, h]

theorem wcPut_cfg (s : St) (a : Addr) : (wcPut s a).1.cfg = s.cfg := by
  unfold wcPut; split <;> rfl
theorem wcDelete_cfg (s : St) (a : Addr) : (wcDelete s a).cfg = s.cfg := by
  unfold wcDelete; split <;> rfl
theorem blobPut_cfg (s : St) (a : Addr) : (blobPut s a).1.cfg = s.cfg := by
  unfold blobPut; split <;> rfl
theorem blobDelete_cfg (s : St) (a : Addr) : (blobDelete s a).cfg = s.cfg := by
  unfold blobDelete; split <;> rfl

theorem foldW (cn : Nat) (l : List Nat) (st : St) : (l.foldl (fun st id => wcDelete st (cn, id)) st).cfg = st.cfg :=
  foldl_cfg _ (fun st id => wcDelete_cfg st (cn, id)) l st
theorem foldB (cn : Nat) (l : List Nat) (st : St) : (l.foldl (fun st id => blobDelete st (cn, id)) st).cfg = st.cfg :=
  foldl_cfg _ (fun st id => blobDelete_cfg st (cn, id)) l st

theorem deleteObjs_cfg (s : St) (cn : Nat) (ids : List Nat) : (deleteObjs s cn ids).1.cfg = s.cfg := by
  have hW := foldW cn
  have hB := foldB cn
  simp only [St.cfg, Prod.mk.injEq] at hW hB
  unfold deleteObjs
  simp only [St.cfg, Prod.mk.injEq]
  repeat' split
  all_goals simp_all

theorem put_cfg (s : St) (cn : Nat) (h : Meta.Hdr) : (put s cn h).1.cfg = s.cfg := by
  have h1 := wcPut_cfg s (cn, h.id)
  have h2 := fun st => blobPut_cfg st (cn, h.id)
  have h3 := fun st => wcDelete_cfg st (cn, h.id)
  have h4 := fun st => blobDelete_cfg st (cn, h.id)
  simp only [St.cfg, Prod.mk.injEq] at h1 h2 h3 h4
  unfold put
  simp only [St.cfg, Prod.mk.injEq]
  repeat' split
  all_goals simp_all

theorem markGarbage_cfg (s : St) (cn : Nat) (ids : List Nat) (r : Bool) : (markGarbage s cn ids r).1.cfg = s.cfg := by
  have hW := foldW cn
  simp only [St.cfg, Prod.mk.injEq] at hW
  unfold markGarbage
  simp only [St.cfg, Prod.mk.injEq]
  repeat' split
  all_goals simp_all

theorem inhumeContainer_cfg (s : St) (cn : Nat) : (inhumeContainer s cn).1.cfg = s.cfg := by
  unfold inhumeContainer
  repeat' split
  all_goals rfl

theorem deleteContainer_cfg (s : St) (cn : Nat) : (deleteContainer s cn).1.cfg = s.cfg := by
  unfold deleteContainer
  repeat' split
  all_goals rfl

theorem reviveObject_cfg (s : St) (cn id : Nat) : (reviveObject s cn id).1.cfg = s.cfg := by
  have hD := fun st ids => deleteObjs_cfg st cn ids
  unfold reviveObject
  simp only []
  repeat' split
  all_goals first | rfl | exact hD _ _

theorem flushOne_cfg' (st : St) (a : Addr) : (flushOne (st, true) a).1.cfg = st.cfg := flushOne_cfg (st, true) a

theorem wcFlushEach_cfg (s : St) : (wcFlushEach s).cfg = s.cfg :=
  foldl_cfg _ (fun st a => flushOne_cfg' st a) _ _

theorem flushWriteCache_cfg (s : St) : (flushWriteCache s).1.cfg = s.cfg := by
  unfold flushWriteCache
  repeat' split
  all_goals first | rfl | exact wcFlushAll_cfg s

theorem flushTick_cfg (s : St) : (flushTick s).cfg = s.cfg := by
  unfold flushTick
  repeat' split
  all_goals first | rfl | exact wcFlushEach_cfg s

theorem restore_cfg (s : St) (cn : Nat) (hs : List Meta.Hdr) : (restore s cn hs).1.cfg = s.cfg := by
  unfold restore
  split
  · rfl
  · have : ∀ (l : List Meta.Hdr) (st : St × Err),
        (l.foldl (fun (st : St × Err) h =>
          if st.2 != .ok then st
          else
            let r := put st.1 cn h
            (r.1, if r.2 == .expired || r.2 == .alreadyRemoved then .ok else r.2)) st).1.cfg = st.1.cfg := by
      intro l
      induction l with
      | nil => intro st; rfl
      | cons x xs ih =>
        intro st
        simp only [List.foldl]
        rw [ih]
        split
        · rfl
        · exact put_cfg _ _ _
    exact this hs (s, .ok)

theorem collectExpired_cfg (s : St) : (collectExpired s).cfg = s.cfg := by
  unfold collectExpired
  split
  · rfl
  · split
    · rfl
    · simp only []
      rw [foldl_cfg (fun st (b : Nat × List Nat) => (deleteObjs st b.1 b.2).1) (fun st b => deleteObjs_cfg st b.1 b.2)]
      repeat' split
      all_goals rfl

theorem removeGarbage_cfg (s : St) : (removeGarbage s).cfg = s.cfg := by
  unfold removeGarbage
  split
  · rfl
  · simp only []
    split
    · rw [foldl_cfg]
      · exact collectExpired_cfg s
      · intro st b
        split
        · split <;> rfl
        · exact deleteObjs_cfg _ _ _
    · exact collectExpired_cfg s

theorem handleEpoch_cfg (s : St) (e : Nat) : (handleEpoch s e).cfg = s.cfg := by
  unfold handleEpoch
  simp only []
  split
  · rfl
  · split
    · rw [foldl_cfg]
      · rfl
      · intro st cn
        split
        · exact deleteContainer_cfg _ _
        · rfl
    · rfl

/-- operations other than a mode switch, a restart or a close/open cycle -/
def Op.isSwitch : Op → Bool
  | .setMode .. | .restart _ | .reopen => true
  | _ => false

/-- **Only a mode switch changes modes**: every other operation, background jobs included, leaves the reported mode
and all component modes as they are -/
theorem step_cfg (s : St) (o : Op) (ho : o.isSwitch = false) : (step s o).1.cfg = s.cfg := by
  cases o <;> simp [Op.isSwitch] at ho <;> simp only [step]
  case put cn h => exact put_cfg s cn h
  case delete cn ids => exact deleteObjs_cfg s cn ids
  case mark cn ids r => exact markGarbage_cfg s cn ids r
  case inhumeCnr cn => exact inhumeContainer_cfg s cn
  case deleteCnr cn => exact deleteContainer_cfg s cn
  case revive cn id => exact reviveObject_cfg s cn id
  case flush => exact flushWriteCache_cfg s
  case flushTick => exact flushTick_cfg s
  case gc => exact removeGarbage_cfg s
  case epoch e => exact handleEpoch_cfg s e
  case restore cn hs => exact restore_cfg s cn hs
  case settle => exact flushTick_cfg s

theorem consistent_of_cfg (s t : St) (h : t.cfg = s.cfg) (hc : Consistent s) : Consistent t := by
  simp only [St.cfg, Prod.mk.injEq] at h
  obtain ⟨h1, h2, h3, h4, h5, h6, _⟩ := h
  obtain ⟨c1, c2, c3, c4⟩ := hc
  exact ⟨by rw [h3, h2, c1], by rw [h4, h2, c2], by rw [h5, h2, c3], fun hw => by rw [h6, h2]; exact c4 (by rw [← h1]; exact hw)⟩

theorem metaWF_of_cfg (s t : St) (h : t.cfg = s.cfg) (hw : MetaWF s) : MetaWF t := by
  simp only [St.cfg, Prod.mk.injEq] at h
  obtain ⟨_, _, h3, h4, _, _, _⟩ := h
  unfold MetaWF at hw ⊢
  rw [h4, h3]; exact hw


/-! ### no switch loses data -/

/-- nothing stored is lost and the metabase content is untouched -/
def Keeps (s t : St) : Prop := t.db = s.db ∧ ∀ x, (x ∈ s.blob ∨ x ∈ s.wc) → (x ∈ t.blob ∨ x ∈ t.wc)

theorem Keeps.refl (s : St) : Keeps s s := ⟨rfl, fun _ h => h⟩
theorem Keeps.trans {a b c : St} (h1 : Keeps a b) (h2 : Keeps b c) : Keeps a c :=
  ⟨h2.1.trans h1.1, fun x hx => h2.2 x (h1.2 x hx)⟩
theorem Keeps.of_persist {s t : St} (h : t.persist = s.persist) : Keeps s t := by
  simp only [St.persist, Persist.mk.injEq] at h
  exact ⟨h.1, fun x hx => by rw [h.2.1, h.2.2]; exact hx⟩

theorem mem_addA (a x : Addr) (l : List Addr) : x ∈ l → x ∈ addA a l := by
  intro h; unfold addA; split
  · exact h
  · exact List.mem_cons_of_mem _ h
theorem self_mem_addA (a : Addr) (l : List Addr) : a ∈ addA a l := by
  unfold addA; split
  · rename_i h; simpa using h
  · simp
theorem mem_delA (a x : Addr) (l : List Addr) (hne : x ≠ a) : x ∈ l → x ∈ delA a l := by
  intro h; unfold delA; simp [List.mem_filter, h, hne]

theorem flushOne_keeps (st : St × Bool) (a : Addr) : Keeps st.1 (flushOne st a).1 := by
  unfold flushOne
  by_cases h2 : st.2 = true
  · simp only [h2, Bool.not_true, Bool.false_eq_true, if_false, blobPut]
    by_cases hb : st.1.blobRO = true
    · simp only [hb, if_true, Bool.not_false]
      exact Keeps.refl _
    · simp only [hb, Bool.false_eq_true, if_false, Bool.not_true]
      by_cases hro : st.1.wcStoreRO = true
      · simp only [hro, if_true]
        refine ⟨rfl, fun x hx => ?_⟩
        rcases hx with hx | hx
        · exact Or.inl (mem_addA _ _ _ hx)
        · exact Or.inr hx
      · simp only [hro, Bool.false_eq_true, if_false]
        refine ⟨rfl, fun x hx => ?_⟩
        rcases hx with hx | hx
        · exact Or.inl (mem_addA _ _ _ hx)
        · by_cases hxa : x = a
          · subst hxa; exact Or.inl (self_mem_addA _ _)
          · exact Or.inr (mem_delA _ _ _ hxa hx)
  · have : st.2 = false := by simpa using h2
    simp only [this, Bool.not_false, if_true]
    exact Keeps.refl _

theorem foldl_flushOne_keeps : ∀ (l : List Addr) (st : St × Bool), Keeps st.1 (l.foldl flushOne st).1 := by
  intro l
  induction l with
  | nil => intro st; exact Keeps.refl _
  | cons a as ih => intro st; simp only [List.foldl]; exact (flushOne_keeps st a).trans (ih _)

theorem wcSetMode_keeps (t : St) (m : Nat) (f : Fault) : Keeps t (wcSetMode t m f).1 := by
  have hk := foldl_flushOne_keeps t.wc (t, true)
  unfold wcSetMode
  split
  · exact Keeps.refl _
  · split
    · simp only []
      split
      · exact hk
      · split <;> exact hk
    · simp only []
      split
      · exact Keeps.refl _
      · split <;> exact Keeps.refl _

theorem comp_keeps (t : St) (m : Nat) (f : Fault) (c : Comp) : Keeps t (compSetMode t m f c).1 := by
  cases c with
  | mb => exact Keeps.of_persist (metaSetMode_spec t m f).2.2.2.2.1
  | bs => exact Keeps.of_persist (blobSetMode_spec t m f).2.2.2.2.2.1
  | wc => exact wcSetMode_keeps t m f

theorem runComps_keeps (m : Nat) (f : Fault) : ∀ (l : List Comp) (st : St × Err), Keeps st.1 (runComps m f st l).1 := by
  intro l
  induction l with
  | nil => intro st; exact Keeps.refl _
  | cons c cs ih =>
    intro st
    simp only [runComps]
    split
    · exact Keeps.refl _
    · exact (comp_keeps st.1 m f c).trans (ih _)


end NeoFS.ShardMode
