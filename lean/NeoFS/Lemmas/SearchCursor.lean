import NeoFS.Lemmas.SearchCodec
import NeoFS.Lemmas.SearchKinds
/-!
Index keys and cursors (C04): the order of index keys in terms of (stored value, id), and the acceptance of a cursor
that is an index key by the cursor half of `PreprocessSearchQuery`.
-/
namespace NeoFS.SearchMerge
open NeoFS.Int256

theorem idBytes_length (id : Nat) : (idBytes id).length = 32 := beBytes_length 32 id

theorem idBytes_order (a b : Nat) (ha : a < two256) (hb : b < two256) : lexCmp (idBytes a) (idBytes b) = ordNat a b := by
  rw [two256_eq] at ha hb
  exact lexCmp_beBytes 32 a b ha hb

/-- keys of the plain index for equally long stored values (owner, ids, checksum, split id) -/
theorem plainKey_order_fixed (ab r1 r2 : List Nat) (i1 i2 : Nat) (hl : r1.length = r2.length) (h1 : i1 < two256) (h2 : i2 < two256) :
    lexCmp (2 :: ab ++ 0 :: r1 ++ 0 :: idBytes i1) (2 :: ab ++ 0 :: r2 ++ 0 :: idBytes i2) = (lexCmp r1 r2).then (ordNat i1 i2) := by
  simp only [List.cons_append, List.append_assoc, lexCmp_cons_same, lexCmp_append_same]
  rw [lexCmp_append_eqlen _ _ _ _ hl, lexCmp_cons_same, idBytes_order i1 i2 h1 h2]

/-- keys of the plain index for values without the delimiter byte (user attributes) -/
theorem plainKey_order_nozero (ab r1 r2 : List Nat) (i1 i2 : Nat) (z1 : ∀ b ∈ r1, 0 < b) (z2 : ∀ b ∈ r2, 0 < b)
    (h1 : i1 < two256) (h2 : i2 < two256) :
    lexCmp (2 :: ab ++ 0 :: r1 ++ 0 :: idBytes i1) (2 :: ab ++ 0 :: r2 ++ 0 :: idBytes i2) = (lexCmp r1 r2).then (ordNat i1 i2) := by
  simp only [List.cons_append, List.append_assoc, lexCmp_cons_same, lexCmp_append_same]
  rw [lexCmp_delim _ _ _ _ z1 z2, idBytes_order i1 i2 h1 h2]

/-- keys of the integer index -/
theorem intKey_order (ab r1 r2 : List Nat) (i1 i2 : Nat) (hl : r1.length = r2.length) (h1 : i1 < two256) (h2 : i2 < two256) :
    lexCmp (1 :: ab ++ 0 :: r1 ++ idBytes i1) (1 :: ab ++ 0 :: r2 ++ idBytes i2) = (lexCmp r1 r2).then (ordNat i1 i2) := by
  simp only [List.cons_append, List.append_assoc, lexCmp_cons_same, lexCmp_append_same]
  rw [lexCmp_append_eqlen _ _ _ _ hl, idBytes_order i1 i2 h1 h2]

theorem ordNat_lt_iff (a b : Nat) : ordNat a b = .lt ↔ a < b := ordNat_eq_lt

/-- when the merge's comparison of the first attributes agrees with the comparison of the stored values, the merge's
strict order is the strict order of the index keys -/
theorem ltI_iff_key (k : MKind) (x y : Item) (key1 key2 : List Nat) (o : Ordering) (ho : ordK k x y = o)
    (hk : lexCmp key1 key2 = o.then (ordNat x.id y.id)) (hne : x.id ≠ y.id) :
    ltI (ordK k) x y = true ↔ lexCmp key1 key2 = .lt := by
  rw [hk, then_eq_lt_or, ordNat_lt_iff]
  unfold ltI
  rw [ho]
  simp [hne]

/-! ### cursors that are index keys are accepted -/

theorem getElem?_mid (a : List Nat) (x : Nat) (r : List Nat) : (a ++ x :: r)[a.length]? = some x := by simp

theorem decodeCursor_plain (a : String) (val : List Nat) (id : Nat) (hv : val ≠ [])
    (hlen : (strBytes a.toList).length + val.length + 34 ≤ maxHeaderLen) :
    decodeCursor (some a) false (plainCursor a val id) =
      .ok ⟨2 :: plainCursor a val id, 2 :: strBytes a.toList ++ [0]⟩ := by
  have hvl : 0 < val.length := List.length_pos_iff.mpr hv
  unfold decodeCursor plainCursor
  dsimp only
  generalize strBytes a.toList = ab at *
  have hl : (ab ++ 0 :: val ++ 0 :: idBytes id).length = ab.length + val.length + 34 := by
    simp [idBytes_length]; omega
  have ht : (ab ++ 0 :: val ++ 0 :: idBytes id).take ab.length = ab := by simp
  have hg1 : (ab ++ 0 :: val ++ 0 :: idBytes id)[ab.length]? = some 0 := by simp
  have hg2 : (ab ++ 0 :: val ++ 0 :: idBytes id)[ab.length + val.length + 34 - 33]? = some 0 := by
    have e : ab.length + val.length + 34 - 33 = (ab ++ 0 :: val).length := by simp; omega
    rw [e]
    exact getElem?_mid (ab ++ 0 :: val) 0 (idBytes id)
  simp only [hl, ht, hg1, hg2]
  have n1 : ¬ maxHeaderLen < ab.length + val.length + 34 := by omega
  have n2 : ¬ ab.length + val.length + 34 < ab.length + 1 + 1 + 1 + 32 := by omega
  simp [n1, n2]

theorem decodeCursor_int (a : String) (enc : List Nat) (id : Nat) (hel : enc.length = 33)
    (hs : ∀ s, enc.head? = some s → s ≤ 1) (hlen : (strBytes a.toList).length + 66 ≤ maxHeaderLen) :
    decodeCursor (some a) true (strBytes a.toList ++ 0 :: enc ++ idBytes id) =
      .ok ⟨1 :: (strBytes a.toList ++ 0 :: enc ++ idBytes id), 1 :: strBytes a.toList ++ [0]⟩ := by
  unfold decodeCursor
  dsimp only
  generalize strBytes a.toList = ab at *
  have hl : (ab ++ 0 :: enc ++ idBytes id).length = ab.length + 1 + 33 + 32 := by
    simp [idBytes_length, hel]
  have ht : (ab ++ 0 :: enc ++ idBytes id).take ab.length = ab := by simp
  have hg1 : (ab ++ 0 :: enc ++ idBytes id)[ab.length]? = some 0 := by simp
  cases enc with
  | nil => simp at hel
  | cons s es =>
    have hs1 : s ≤ 1 := hs s rfl
    have hg2 : (ab ++ 0 :: (s :: es) ++ idBytes id)[ab.length + 1]? = some s := by
      have : ab ++ 0 :: (s :: es) ++ idBytes id = (ab ++ [0]) ++ s :: (es ++ idBytes id) := by simp
      rw [this]
      have := getElem?_mid (ab ++ [0]) s (es ++ idBytes id)
      simpa using this
    simp only [hl, ht, hg1, hg2]
    have n1 : ¬ maxHeaderLen < ab.length + 1 + 33 + 32 := by omega
    have n2 : ¬ 1 < s := by omega
    simp [n1, n2]

theorem decodeCursor_id (id : Nat) : decodeCursor none false (idBytes id) = .ok ⟨0 :: idBytes id, [0]⟩ := by
  simp [decodeCursor, idBytes_length]

end NeoFS.SearchMerge
