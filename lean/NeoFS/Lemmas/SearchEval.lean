/-
C03: the handler's evaluation of the filters on one index element agrees with the declarative `satisfies`
(for attributes stored as plain strings), and a `stop` verdict is only issued when no later element can match.
-/
import NeoFS.Lemmas.SearchScan
import NeoFS.Lemmas.LexOrder
import NeoFS.Props.C05
namespace NeoFS.Search
open NeoFS.Int256

theorem mk_wf (neg : Bool) (n : Nat) (h : n < two256) : (mk neg n).WF := by
  constructor
  · exact h
  · intro h0; simp only [mk] at h0 ⊢; simp [h0]

theorem parseInt_wf {v : Bytes} {z : I256} (h : parseInt v = some z) : z.WF := by
  obtain ⟨neg, d, _, hv, rfl⟩ := (parse_accepts_iff _ _).1 h
  exact mk_wf neg _ hv

def maxI : I256 := ⟨false, two256 - 1⟩
def minI : I256 := ⟨true, two256 - 1⟩

theorem toInt_bounds {z : I256} (h : z.WF) : -((two256 : Int) - 1) ≤ z.toInt ∧ z.toInt ≤ (two256 : Int) - 1 := by
  obtain ⟨hm, _⟩ := h
  unfold I256.toInt
  split <;> constructor <;> omega

theorem maxI_toInt : maxI.toInt = (two256 : Int) - 1 := by
  have : (1 : Nat) ≤ two256 := by decide
  simp [maxI, I256.toInt]; omega

theorem minI_toInt : minI.toInt = -((two256 : Int) - 1) := by
  have : (1 : Nat) ≤ two256 := by decide
  simp [minI, I256.toInt]; omega

theorem maxI_wf : maxI.WF := by decide
theorem minI_wf : minI.WF := by decide

theorem intBytesMatch_encode (z x : I256) (hz : z.WF) (hx : x.WF) (m : Op) (hm : m.isInt = true) :
    intBytesMatch (encode z) m (encode x) = intSat m z.toInt x.toInt := by
  unfold intBytesMatch intSat
  rw [encode_order z x hz hx]
  cases m <;> simp_all [Op.isInt]

theorem intMatches_eq (z x : I256) (hz : z.WF) (hx : x.WF) (m : Op) (hm : m.isInt = true) :
    intMatches z m x = intSat m z.toInt x.toInt := by
  unfold intMatches intSat
  rw [cmp_correct z x hz hx]
  cases m <;> simp_all [Op.isInt]

theorem auto_sat {z x : I256} {m : Op} (hz : z.WF) (h : (m = .le ∧ x = maxI) ∨ (m = .ge ∧ x = minI)) :
    intSat m z.toInt x.toInt = true := by
  obtain ⟨lo, hi⟩ := toInt_bounds hz
  rcases h with ⟨rfl, rfl⟩ | ⟨rfl, rfl⟩
  · rw [maxI_toInt]
    have : ¬ ((two256 : Int) - 1 < z.toInt) := by omega
    unfold intSat ordInt
    simp only [this, if_false]
    split <;> simp
  · rw [minI_toInt]
    have : ¬ (z.toInt < -((two256 : Int) - 1)) := by omega
    unfold intSat ordInt
    simp only [this, if_false]
    split <;> simp

/-- what `parseIntFilters` has established for the filter at position `i`. -/
def PFok (f0 : Filter) (i : Nat) (p : PF) : Prop :=
  p.f.cop.isInt = true → ∃ x, parseInt p.f.cval = some x ∧
    (p.auto = true → (p.f.cop = .le ∧ x = maxI) ∨ (p.f.cop = .ge ∧ x = minI)) ∧
    (p.auto = false → (i = 0 ∨ (f0.cop.isInt = true ∧ p.f.attr = f0.attr)) → p.raw = encode x)

theorem matchPlain_plain (a db : Bytes) (m : Op) (flt : Bytes) (h : kindOf a = .plain) :
    matchPlain a db m flt = some (matchValues db m flt) := by
  simp [matchPlain, combine, h]

/-- the secondary evaluation of one filter is `satisfies`. -/
theorem secMatch_eq (o : Obj) (f0 : Filter) (i : Nat) (p : PF) (hp : PFok f0 i p) (hk : kindOf p.f.attr = .plain) :
    secMatch p (lookup o p.f.attr) = some (satisfies o p.f) := by
  unfold secMatch satisfies
  cases hl : lookup o p.f.attr with
  | none => simp
  | some v =>
    simp only
    by_cases hnp : p.f.cop = .np
    · simp [hnp]
    · simp only [hnp, if_false]
      by_cases hi : p.f.cop.isInt = true
      · simp only [hi, if_true]
        obtain ⟨x, hx, hauto, _⟩ := hp hi
        rw [hx]
        cases hz : parseInt v with
        | none => simp
        | some z =>
          simp only
          have hzw := parseInt_wf hz
          have hxw := parseInt_wf hx
          by_cases ha : p.auto = true
          · simp [ha, auto_sat hzw (hauto ha)]
          · simp only [ha, Bool.false_eq_true, if_false]
            have hr := readers_agree (toChars p.f.cval)
            unfold parseInt at hx
            rw [hx] at hr
            cases hs : splitIntString (toChars p.f.cval) with
            | none => rw [hs] at hr; simp at hr
            | some nd =>
              rw [hs] at hr
              simp only [Option.bind_some] at hr
              obtain ⟨neg, digits⟩ := nd
              simp only [hr, intMatches_eq z x hzw hxw _ hi]
      · simp only [hi, Bool.false_eq_true, if_false]
        rw [matchPlain_plain _ _ _ _ hk]
        simp


/-- the filter was preprocessed consistently (for some position). -/
def PFokW (p : PF) : Prop := ∃ f0 i, PFok f0 i p

theorem secInner_eq (o : Obj) (a : Bytes) (ps : List PF) (hok : ∀ p ∈ ps, PFokW p)
    (hk : ∀ p ∈ ps, kindOf p.f.attr = .plain) :
    secInner a (lookup o a) ps = some ((ps.filter (fun p => p.f.attr = a)).all (fun p => satisfies o p.f)) := by
  induction ps with
  | nil => simp [secInner]
  | cons p r ih =>
    have ihr := ih (fun q hq => hok q (List.mem_cons_of_mem _ hq)) (fun q hq => hk q (List.mem_cons_of_mem _ hq))
    unfold secInner
    by_cases ha : p.f.attr = a
    · simp only [ha, ne_eq, not_true_eq_false, if_false]
      obtain ⟨f0, i, hp⟩ := hok p (List.mem_cons_self)
      have := secMatch_eq o f0 i p hp (hk p (List.mem_cons_self))
      rw [ha] at this
      rw [this]
      cases hs : satisfies o p.f
      · simp [List.filter_cons, ha, hs]
      · simp [List.filter_cons, ha, hs, ihr]
    · simp [ha, ihr, List.filter_cons]

/-- is the filter at position `i` left to the primary loop? -/
def skipped (h : HCtx) (i : Nat) (p : PF) : Bool :=
  !h.idIter && (i = 0 || (p.f.attr = h.f0.attr && p.f.cop.isInt == h.intPrim))

theorem secLoop_spec (h : HCtx) (o : Obj) :
    ∀ (ps : List PF) (i : Nat), (∀ p ∈ ps, h.get o.id p.f.attr = lookup o p.f.attr) →
    (∀ p ∈ ps, PFokW p) → (∀ p ∈ ps, kindOf p.f.attr = .plain) →
    ∃ b, secLoop h o.id i ps = some b ∧
      (b = true → ∀ j p, ps[j]? = some p → skipped h (i + j) p = false → satisfies o p.f = true) ∧
      ((∀ p ∈ ps, satisfies o p.f = true) → b = true) := by
  intro ps
  induction ps with
  | nil => intro i _ _ _; exact ⟨true, by simp [secLoop]⟩
  | cons p r ih =>
    intro i hget hok hk
    have hgetr : ∀ q ∈ r, h.get o.id q.f.attr = lookup o q.f.attr := fun q hq => hget q (List.mem_cons_of_mem _ hq)
    have hokr : ∀ q ∈ r, PFokW q := fun q hq => hok q (List.mem_cons_of_mem _ hq)
    have hkr : ∀ q ∈ r, kindOf q.f.attr = .plain := fun q hq => hk q (List.mem_cons_of_mem _ hq)
    obtain ⟨b, hb, h1, h2⟩ := ih (i + 1) hgetr hokr hkr
    unfold secLoop
    by_cases hs : skipped h i p = true
    · have hs' : (!h.idIter && (i = 0 || (p.f.attr = h.f0.attr && p.f.cop.isInt == h.intPrim))) = true := hs
      simp only [hs', if_true]
      refine ⟨b, hb, ?_, fun hall => h2 (fun q hq => hall q (List.mem_cons_of_mem _ hq))⟩
      intro hbt j q hj hsk
      cases j with
      | zero =>
        simp only [List.getElem?_cons_zero, Option.some.injEq] at hj
        subst hj
        simp only [Nat.add_zero] at hsk
        rw [hs] at hsk; exact absurd hsk (by simp)
      | succ j =>
        simp only [List.getElem?_cons_succ] at hj
        exact h1 hbt j q hj (by rw [show i + 1 + j = i + (j + 1) by omega]; exact hsk)
    · have hs' : (!h.idIter && (i = 0 || (p.f.attr = h.f0.attr && p.f.cop.isInt == h.intPrim))) = false := by
        simpa [skipped] using hs
      simp only [hs', Bool.false_eq_true, if_false]
      rw [hget p List.mem_cons_self, secInner_eq o p.f.attr (p :: r) hok hk]
      cases hall : ((p :: r).filter (fun q => q.f.attr = p.f.attr)).all (fun q => satisfies o q.f)
      · refine ⟨false, rfl, by simp, ?_⟩
        intro hsat
        have : ((p :: r).filter (fun q => q.f.attr = p.f.attr)).all (fun q => satisfies o q.f) = true := by
          rw [List.all_eq_true]
          intro q hq
          exact hsat q (List.mem_filter.1 hq).1
        rw [this] at hall; exact absurd hall (by simp)
      · simp only
        refine ⟨b, hb, ?_, fun hsat => h2 (fun q hq => hsat q (List.mem_cons_of_mem _ hq))⟩
        intro hbt j q hj hsk
        cases j with
        | zero =>
          simp only [List.getElem?_cons_zero, Option.some.injEq] at hj
          subst hj
          rw [List.all_eq_true] at hall
          exact hall p (List.mem_filter.2 ⟨List.mem_cons_self, by simp⟩)
        | succ j =>
          simp only [List.getElem?_cons_succ] at hj
          exact h1 hbt j q hj (by rw [show i + 1 + j = i + (j + 1) by omega]; exact hsk)


/-- evaluation of a primary-attribute filter against a value of the primary index. -/
def pm (p : PF) (w : Bytes) : Bool :=
  if p.f.cop.isInt then p.auto || intBytesMatch w p.f.cop p.raw else matchValues w p.f.cop p.f.cval

/-- is the filter at position `i` checked in the primary loop? -/
def PE (h : HCtx) (i : Nat) (p : PF) : Bool :=
  i = 0 || (p.f.attr = h.f0.attr && p.f.cop.isInt == h.intPrim)

/-- why the primary loop said `stop` at value `w`. -/
def StopWhy (was : Bool) (w : Bytes) (idx : Nat) (p : PF) : Prop :=
  p.f.cop = .np ∨ (pm p w = false ∧
    ((idx = 0 ∧ scattered p.f.attr p.f.cop = false ∧ (was = true ∨ p.f.cop ≠ .gt)) ∨
     (idx > 0 ∧ (p.f.cop = .lt ∨ p.f.cop = .le))))

theorem primLoop_spec (h : HCtx) (w : Bytes) :
    ∀ (ps : List PF) (i : Nat) (was : Bool), (∀ p ∈ ps, kindOf p.f.attr = .plain) →
    match primLoop h w i ps was with
    | .err => False
    | .pass w' =>
        (∀ j p, ps[j]? = some p → PE h (i + j) p = true → p.f.cop ≠ .np ∧ pm p w = true) ∧
        (w' = true → was = true ∨ (i = 0 ∧ ∃ p, ps.head? = some p ∧ pm p w = true))
    | .skip => ∃ j p, ps[j]? = some p ∧ PE h (i + j) p = true ∧ p.f.cop ≠ .np ∧ pm p w = false
    | .stop => ∃ j p, ps[j]? = some p ∧ PE h (i + j) p = true ∧ StopWhy was w (i + j) p := by
  intro ps
  induction ps with
  | nil => intro i was _; simp [primLoop]
  | cons p r ih =>
    intro i was hk
    have hkr : ∀ q ∈ r, kindOf q.f.attr = .plain := fun q hq => hk q (List.mem_cons_of_mem _ hq)
    unfold primLoop
    by_cases hpe : PE h i p = true
    · have hcond : (decide (i > 0) && (decide (p.f.attr ≠ h.f0.attr) || p.f.cop.isInt != h.intPrim)) = false := by
        simp only [PE, Bool.or_eq_true, decide_eq_true_eq, Bool.and_eq_true, beq_iff_eq] at hpe
        rcases hpe with hpe | ⟨h1, h2⟩
        · simp [hpe]
        · simp [h1, h2]
      simp only [hcond, Bool.false_eq_true, if_false]
      by_cases hnp : p.f.cop = .np
      · simp only [hnp, if_true]
        exact ⟨0, p, by simp, by simpa using hpe, Or.inl hnp⟩
      · simp only [hnp, if_false]
        have hm : (if p.f.cop.isInt = true then some (p.auto || intBytesMatch w p.f.cop p.raw)
            else matchPlain p.f.attr w p.f.cop p.f.cval) = some (pm p w) := by
          unfold pm
          split
          · rfl
          · exact matchPlain_plain _ _ _ _ (hk p (List.mem_cons_self))
        rw [hm]
        cases hpm : pm p w
        · simp only
          by_cases hi0 : i = 0
          · simp only [hi0, if_true]
            by_cases hc : (!scattered p.f.attr p.f.cop && (was || decide (p.f.cop ≠ Op.gt))) = true
            · rw [if_pos hc]
              simp only [Bool.and_eq_true, Bool.not_eq_true', Bool.or_eq_true, decide_eq_true_eq] at hc
              exact ⟨0, p, by simp, by simp [PE], Or.inr ⟨hpm, Or.inl ⟨rfl, hc.1, hc.2⟩⟩⟩
            · rw [if_neg hc]
              exact ⟨0, p, by simp, by simp [PE], hnp, hpm⟩
          · simp only [hi0, if_false]
            by_cases hc : p.f.cop = Op.lt ∨ p.f.cop = Op.le
            · rw [if_pos hc]
              exact ⟨0, p, by simp, by simpa using hpe, Or.inr ⟨hpm, Or.inr ⟨by omega, hc⟩⟩⟩
            · rw [if_neg hc]
              exact ⟨0, p, by simp, by simpa using hpe, hnp, hpm⟩
        · simp only
          have := ih (i + 1) (if i = 0 then true else was) hkr
          split at this
          · exact this
          · rename_i w' hres
            obtain ⟨h1, h2⟩ := this
            refine ⟨?_, ?_⟩
            · intro j q hj hq
              cases j with
              | zero =>
                simp only [List.getElem?_cons_zero, Option.some.injEq] at hj
                subst hj; exact ⟨hnp, hpm⟩
              | succ j =>
                simp only [List.getElem?_cons_succ] at hj
                exact h1 j q hj (by rw [show i + 1 + j = i + (j + 1) by omega]; exact hq)
            · intro hw'
              rcases h2 hw' with h2 | ⟨h2, _⟩
              · by_cases hi0 : i = 0
                · exact Or.inr ⟨hi0, p, by simp, hpm⟩
                · simp only [hi0, if_false] at h2; exact Or.inl h2
              · omega
          · rename_i hres
            obtain ⟨j, q, hj, hq, hnq, hpq⟩ := this
            exact ⟨j + 1, q, by simpa using hj, by rw [show i + (j + 1) = i + 1 + j by omega]; exact hq, hnq, hpq⟩
          · rename_i hres
            obtain ⟨j, q, hj, hq, hwhy⟩ := this
            refine ⟨j + 1, q, by simpa using hj, by rw [show i + (j + 1) = i + 1 + j by omega]; exact hq, ?_⟩
            unfold StopWhy at hwhy ⊢
            rcases hwhy with hwhy | ⟨hp1, hwhy⟩
            · exact Or.inl hwhy
            · refine Or.inr ⟨hp1, ?_⟩
              rcases hwhy with ⟨h0, _⟩ | hwhy
              · omega
              · exact Or.inr ⟨by omega, hwhy.2⟩
    · have hcond : (decide (i > 0) && (decide (p.f.attr ≠ h.f0.attr) || p.f.cop.isInt != h.intPrim)) = true := by
        simp only [PE, Bool.or_eq_true, decide_eq_true_eq, Bool.and_eq_true, beq_iff_eq, not_or, not_and] at hpe
        obtain ⟨h1, h2⟩ := hpe
        have : i > 0 := by omega
        by_cases ha : p.f.attr = h.f0.attr
        · have := h2 ha
          simp [*]
        · simp [*]
      simp only [hcond, if_true]
      have := ih (i + 1) was hkr
      split at this
      · exact this
      · rename_i w' hres
        obtain ⟨h1, h2⟩ := this
        refine ⟨?_, ?_⟩
        · intro j q hj hq
          cases j with
          | zero =>
            simp only [List.getElem?_cons_zero, Option.some.injEq] at hj
            subst hj
            simp only [Nat.add_zero] at hq
            rw [hq] at hpe; exact absurd rfl hpe
          | succ j =>
            simp only [List.getElem?_cons_succ] at hj
            exact h1 j q hj (by rw [show i + 1 + j = i + (j + 1) by omega]; exact hq)
        · intro hw'
          rcases h2 hw' with h2 | ⟨h2, _⟩
          · exact Or.inl h2
          · omega
      · rename_i hres
        obtain ⟨j, q, hj, hq, hnq, hpq⟩ := this
        exact ⟨j + 1, q, by simpa using hj, by rw [show i + (j + 1) = i + 1 + j by omega]; exact hq, hnq, hpq⟩
      · rename_i hres
        obtain ⟨j, q, hj, hq, hwhy⟩ := this
        refine ⟨j + 1, q, by simpa using hj, by rw [show i + (j + 1) = i + 1 + j by omega]; exact hq, ?_⟩
        unfold StopWhy at hwhy ⊢
        rcases hwhy with hwhy | ⟨hp1, hwhy⟩
        · exact Or.inl hwhy
        · refine Or.inr ⟨hp1, ?_⟩
          rcases hwhy with ⟨h0, _⟩ | hwhy
          · omega
          · exact Or.inr ⟨by omega, hwhy.2⟩


/-! ### one element of the scanned index -/

def HCtx.p0 (h : HCtx) : PF := h.fs.headD { f := ⟨[], .eq, []⟩ }
theorem HCtx.f0_eq (h : HCtx) : h.f0 = h.p0.f := rfl

def fsOf (h : HCtx) : List Filter := h.fs.map (·.f)

/-- how the stored value `w` of the scanned element relates to the object. -/
def EntryRel (h : HCtx) (o : Obj) (w : Bytes) : Prop :=
  if h.idIter then w = []
  else if h.intPrim then ∃ v z, lookup o h.f0.attr = some v ∧ parseInt v = some z ∧ w = encode z
  else lookup o h.f0.attr = some w

theorem EntryRel.has (h : HCtx) (o : Obj) (w : Bytes) (hrel : EntryRel h o w) (hni : h.idIter = false) :
    ∃ v, lookup o h.f0.attr = some v := by
  unfold EntryRel at hrel
  simp only [hni, Bool.false_eq_true, if_false] at hrel
  split at hrel
  · obtain ⟨v, _, hv, _⟩ := hrel; exact ⟨v, hv⟩
  · exact ⟨w, hrel⟩

theorem PE_facts (h : HCtx) (idx : Nat) (p : PF) (hget : h.fs[idx]? = some p) (hpe : PE h idx p = true) :
    p.f.attr = h.f0.attr ∧ p.f.cop.isInt = h.intPrim := by
  simp only [PE, Bool.or_eq_true, decide_eq_true_eq, Bool.and_eq_true, beq_iff_eq] at hpe
  rcases hpe with rfl | hpe
  · cases hfs : h.fs with
    | nil => rw [hfs] at hget; simp at hget
    | cons q r =>
      rw [hfs] at hget
      simp only [List.getElem?_cons_zero, Option.some.injEq] at hget
      subst hget
      simp [HCtx.intPrim, HCtx.f0, hfs]
  · exact hpe

theorem pm_sat (h : HCtx) (o : Obj) (w : Bytes) (p : PF) (idx : Nat)
    (hrel : EntryRel h o w) (hni : h.idIter = false)
    (hattr : p.f.attr = h.f0.attr) (hkind : p.f.cop.isInt = h.intPrim)
    (hpf : PFok h.f0 idx p) (hnp : p.f.cop ≠ .np) (hk : kindOf p.f.attr = .plain) :
    pm p w = satisfies o p.f := by
  unfold EntryRel at hrel
  simp only [hni, Bool.false_eq_true, if_false] at hrel
  unfold pm satisfies
  rw [hattr]
  by_cases hip : h.intPrim = true
  · simp only [hip, if_true] at hrel
    obtain ⟨v, z, hv, hz, rfl⟩ := hrel
    have hi : p.f.cop.isInt = true := by rw [hkind, hip]
    obtain ⟨x, hx, hauto, hraw⟩ := hpf hi
    simp only [hv, hi, if_true, hnp, if_false, hz, hx]
    have hzw := parseInt_wf hz
    have hxw := parseInt_wf hx
    by_cases ha : p.auto = true
    · simp [ha, auto_sat hzw (hauto ha)]
    · have hr := hraw (by simpa using ha) (Or.inr ⟨by simpa [HCtx.intPrim] using hip, hattr⟩)
      simp only [ha, Bool.false_or]
      rw [hr, intBytesMatch_encode z x hzw hxw _ hi]
  · simp only [hip, Bool.false_eq_true, if_false] at hrel
    have hi : p.f.cop.isInt = false := by rw [hkind]; simpa using hip
    simp only [hrel, hi, Bool.false_eq_true, if_false, hnp]
    rw [← hattr, matchPlain_plain _ _ _ _ hk]
    simp

theorem restore_plain (a v : Bytes) (h : kindOf a = .plain) : restore a v = some v := by
  simp [restore, h]

theorem collectRest_spec (h : HCtx) (o : Obj) :
    ∀ (as : List Bytes), (∀ a ∈ as, h.get o.id a = lookup o a) → (∀ a ∈ as, kindOf a = .plain) →
      collectRest h o.id as = some (as.map (fun a => (restore a ((lookup o a).getD [])).getD [])) := by
  intro as
  induction as with
  | nil => intro _ _; rfl
  | cons a r ih =>
    intro hget hk
    unfold collectRest
    rw [ih (fun b hb => hget b (List.mem_cons_of_mem _ hb)) (fun b hb => hk b (List.mem_cons_of_mem _ hb)),
      hget a List.mem_cons_self, restore_plain _ _ (hk a (List.mem_cons_self))]
    simp [restore_plain _ _ (hk a (List.mem_cons_self))]

theorem orderOf_fsOf (h : HCtx) (hne : h.fs ≠ []) :
    orderOf (fsOf h) h.attrs = if h.idIter then .byId else if h.intPrim then .byInt else .byBytes := by
  cases hfs : h.fs with
  | nil => exact absurd hfs hne
  | cons q r =>
    simp [orderOf, fsOf, hfs, HCtx.idIter, HCtx.intPrim, HCtx.f0]

theorem primVal_fsOf (h : HCtx) (hne : h.fs ≠ []) (o : Obj) :
    primVal (fsOf h) o = (lookup o h.f0.attr).getD [] := by
  cases hfs : h.fs with
  | nil => exact absurd hfs hne
  | cons q r => simp [primVal, fsOf, hfs, HCtx.f0]

theorem collect_spec (h : HCtx) (hne : h.fs ≠ []) (o : Obj) (w : Bytes)
    (hrel : EntryRel h o w) (hget : ∀ a ∈ h.attrs, h.get o.id a = lookup o a)
    (hkf : ∀ p ∈ h.fs, kindOf p.f.attr = .plain) (hka : ∀ a ∈ h.attrs, kindOf a = .plain) :
    collect h o.id w = some (itemOf (fsOf h) h.attrs o).attrs := by
  have hk0 : kindOf h.f0.attr = .plain := by
    cases hfs : h.fs with
    | nil => exact absurd hfs hne
    | cons q r => simpa [HCtx.f0, hfs] using hkf q (by rw [hfs]; exact List.mem_cons_self)
  have hhead : ∃ q r, fsOf h = q :: r ∧ q = h.f0 := by
    cases hfs : h.fs with
    | nil => exact absurd hfs hne
    | cons q r => exact ⟨q.f, r.map (·.f), by simp [fsOf, hfs], by simp [HCtx.f0, hfs]⟩
  obtain ⟨q, r, hq, rfl⟩ := hhead
  unfold collect itemOf
  cases hat : h.attrs with
  | nil => rfl
  | cons a rest =>
    simp only
    have hor := orderOf_fsOf h hne
    rw [hat] at hor
    rw [collectRest_spec h o rest (fun b hb => hget b (by rw [hat]; exact List.mem_cons_of_mem _ hb)) (fun b hb => hka b (by rw [hat]; exact List.mem_cons_of_mem _ hb))]
    rw [hq]
    simp only
    rw [← hq, hor]
    unfold EntryRel at hrel
    by_cases hid : h.idIter = true
    · simp only [hid, if_true] at hrel ⊢
      have hip : h.intPrim = false := by
        simp only [HCtx.idIter, hat, List.isEmpty_cons, Bool.false_or, decide_eq_true_eq] at hid
        simp [HCtx.intPrim, hid, Op.isInt]
      simp [hip, hrel, restore_plain _ _ hk0]
    · simp only [hid, Bool.false_eq_true, if_false] at hrel ⊢
      by_cases hip : h.intPrim = true
      · simp only [hip, if_true] at hrel ⊢
        obtain ⟨v, z, hv, hz, rfl⟩ := hrel
        rw [primVal_fsOf h hne o, hv]
        simp only [Option.getD_some, hz]
        simp [restoreInt, decode_encode z (parseInt_wf hz)]
      · simp only [hip, Bool.false_eq_true, if_false] at hrel ⊢
        rw [primVal_fsOf h hne o, hrel]
        simp [restore_plain _ _ hk0]


theorem isMatch_false_of (fs : List Filter) (o : Obj) (f : Filter) (hf : f ∈ fs) (hs : satisfies o f = false) :
    isMatch fs o = false := by
  unfold isMatch
  have : fs.all (satisfies o) = false := by
    rw [List.all_eq_false]; exact ⟨f, hf, by simp [hs]⟩
  simp [this]

theorem mem_fsOf (h : HCtx) (idx : Nat) (p : PF) (hget : h.fs[idx]? = some p) : p.f ∈ fsOf h := by
  unfold fsOf
  exact List.mem_map.2 ⟨p, List.mem_of_getElem? hget, rfl⟩

/-- the attributes the handler looks up through the ID-to-attribute index. -/
def attrsOf (h : HCtx) : List Bytes := h.fs.map (·.f.attr) ++ h.attrs

/-- the "was" flag is only raised by a match of the first filter. -/
def WasInv (h : HCtx) (was was' : Bool) (w : Bytes) : Prop :=
  was' = true → was = true ∨ (h.idIter = false ∧ pm h.p0 w = true)

/-- the handler's verdict on one element of the scanned index, against the declarative match. -/
theorem verdictE_spec (h : HCtx) (hne : h.fs ≠ []) (o : Obj) (w : Bytes) (was : Bool)
    (hrel : EntryRel h o w) (hget : ∀ a ∈ attrsOf h, h.get o.id a = lookup o a) (havail : h.avail o.id = o.avail)
    (hpf : ∀ idx p, h.fs[idx]? = some p → PFok h.f0 idx p)
    (hkf : ∀ p ∈ h.fs, kindOf p.f.attr = .plain) (hka : ∀ a ∈ h.attrs, kindOf a = .plain) :
    match verdictE h was w o.id with
    | (.err, _) => False
    | (.stop, _) => isMatch (fsOf h) o = false ∧ h.idIter = false ∧
        ∃ idx p, h.fs[idx]? = some p ∧ PE h idx p = true ∧ StopWhy was w idx p
    | (.skip, was') => isMatch (fsOf h) o = false ∧ WasInv h was was' w
    | (.take it, was') => isMatch (fsOf h) o = true ∧ it = itemOf (fsOf h) h.attrs o ∧ WasInv h was was' w := by
  have hokw : ∀ p ∈ h.fs, PFokW p := by
    intro p hp
    obtain ⟨idx, hidx⟩ := List.getElem?_of_mem hp
    exact ⟨h.f0, idx, hpf idx p hidx⟩
  -- the part after the primary loop, for any flag value
  have tail : ∀ (was' : Bool), WasInv h was was' w →
      (∀ idx p, h.fs[idx]? = some p → skipped h idx p = true → satisfies o p.f = true) →
      match (match secLoop h o.id 0 h.fs with
        | none => (Verdict.err, was')
        | some false => (Verdict.skip, was')
        | some true =>
          if !h.avail o.id then (Verdict.skip, was')
          else match collect h o.id w with
            | none => (Verdict.err, was')
            | some vs => (Verdict.take ⟨o.id, vs⟩, was')) with
      | (.err, _) => False
      | (.stop, _) => isMatch (fsOf h) o = false ∧ h.idIter = false ∧
          ∃ idx p, h.fs[idx]? = some p ∧ PE h idx p = true ∧ StopWhy was w idx p
      | (.skip, was'') => isMatch (fsOf h) o = false ∧ WasInv h was was'' w
      | (.take it, was'') => isMatch (fsOf h) o = true ∧ it = itemOf (fsOf h) h.attrs o ∧ WasInv h was was'' w := by
    intro was' hinv hprim
    obtain ⟨b, hb, h1, h2⟩ := secLoop_spec h o h.fs 0 (fun p hp => hget _ (List.mem_append_left _ (List.mem_map.2 ⟨p, hp, rfl⟩))) hokw hkf
    rw [hb]
    cases b with
    | false =>
      simp only
      refine ⟨?_, hinv⟩
      unfold isMatch
      have : (fsOf h).all (satisfies o) = false := by
        cases hall : (fsOf h).all (satisfies o) with
        | false => rfl
        | true =>
          rw [List.all_eq_true] at hall
          have := h2 (fun p hp => hall p.f (List.mem_map.2 ⟨p, hp, rfl⟩))
          exact absurd this (by simp)
      simp [this]
    | true =>
      simp only
      have hall : (fsOf h).all (satisfies o) = true := by
        rw [List.all_eq_true]
        intro f hf
        obtain ⟨p, hp, rfl⟩ := List.mem_map.1 hf
        obtain ⟨idx, hidx⟩ := List.getElem?_of_mem hp
        by_cases hsk : skipped h idx p = true
        · exact hprim idx p hidx hsk
        · exact h1 rfl idx p hidx (by simpa using hsk)
      by_cases hav : o.avail = true
      · simp only [havail, hav, Bool.not_true, Bool.false_eq_true, if_false]
        rw [collect_spec h hne o w hrel (fun a ha => hget a (List.mem_append_right _ ha)) hkf hka]
        simp only
        refine ⟨by simp [isMatch, hav, hall], ?_, hinv⟩
        cases hat : h.attrs <;> simp [itemOf]
      · have hav' : o.avail = false := by simpa using hav
        simp only [havail, hav', Bool.not_false, if_true]
        exact ⟨by simp [isMatch, hav'], hinv⟩
  unfold verdictE
  by_cases hid : h.idIter = true
  · rw [if_pos hid]
    exact tail was (fun hw => Or.inl hw) (fun idx p _ hsk => by simp [skipped, hid] at hsk)
  · have hid' : h.idIter = false := by simpa using hid
    rw [if_neg hid]
    have hp := primLoop_spec h w h.fs 0 was hkf
    split at hp
    · exact absurd hp id
    · rename_i was' hres
      simp only [hres]
      obtain ⟨hp1, hp2⟩ := hp
      refine tail was' ?_ ?_
      · intro hw
        rcases hp2 hw with hp2 | ⟨_, q, hq, hpm⟩
        · exact Or.inl hp2
        · refine Or.inr ⟨hid', ?_⟩
          have : h.p0 = q := by
            unfold HCtx.p0
            cases hfs : h.fs with
            | nil => rw [hfs] at hq; simp at hq
            | cons a r => rw [hfs] at hq; simpa using hq
          rw [this]; exact hpm
      · intro idx p hidx hsk
        have hpe : PE h idx p = true := by
          simp only [skipped, hid', Bool.not_false, Bool.true_and] at hsk
          exact hsk
        obtain ⟨hnp, hpm⟩ := hp1 idx p (by simpa using hidx) (by simpa using hpe)
        obtain ⟨hattr, hkind⟩ := PE_facts h idx p hidx hpe
        rw [← pm_sat h o w p idx hrel hid' hattr hkind (hpf idx p hidx) hnp (hkf p (List.mem_of_getElem? hidx))]
        exact hpm
    · rename_i hres
      simp only [hres]
      obtain ⟨j, p, hj, hpe, hnp, hpm⟩ := hp
      simp only [Nat.zero_add] at hpe
      obtain ⟨hattr, hkind⟩ := PE_facts h j p hj hpe
      refine ⟨isMatch_false_of _ o p.f (mem_fsOf h j p hj) ?_, fun hw => Or.inl hw⟩
      rw [← pm_sat h o w p j hrel hid' hattr hkind (hpf j p hj) hnp (hkf p (List.mem_of_getElem? hj))]
      exact hpm
    · rename_i hres
      simp only [hres]
      obtain ⟨j, p, hj, hpe, hwhy⟩ := hp
      simp only [Nat.zero_add] at hpe hwhy
      obtain ⟨hattr, hkind⟩ := PE_facts h j p hj hpe
      refine ⟨isMatch_false_of _ o p.f (mem_fsOf h j p hj) ?_, hid', j, p, hj, hpe, hwhy⟩
      unfold StopWhy at hwhy
      rcases hwhy with hnp | ⟨hpm, _⟩
      · obtain ⟨v, hv⟩ := EntryRel.has h o w hrel hid'
        unfold satisfies
        rw [hattr, hv]
        simp [hnp]
      · by_cases hnp : p.f.cop = .np
        · obtain ⟨v, hv⟩ := EntryRel.has h o w hrel hid'
          unfold satisfies
          rw [hattr, hv]
          simp [hnp]
        · rw [← pm_sat h o w p j hrel hid' hattr hkind (hpf j p hj) hnp (hkf p (List.mem_of_getElem? hj))]
          exact hpm


/-! ### a `stop` is safe: nothing further in the index can match -/

theorem scattered_plain (a : Bytes) (m : Op) (hk : kindOf a = .plain) : scattered a m = decide (m = .ne) := by
  have h1 : a ≠ aOwner := by intro e; simp [kindOf, e] at hk
  have h2 : a ≠ aFirst := by intro e; rw [e] at hk; revert hk; decide
  have h3 : a ≠ aParent := by intro e; rw [e] at hk; revert hk; decide
  have h4 : a ≠ aAssoc := by intro e; rw [e] at hk; revert hk; decide
  cases m <;> simp [scattered, h1, h2, h3, h4]

/-- what the seek position guarantees about every scanned value, relative to the first filter. -/
def LB (p0 : PF) (w : Bytes) : Prop :=
  ((p0.f.cop = .eq ∨ p0.f.cop = .pfx) → bLe p0.f.cval w) ∧
  (p0.f.cop = .ge → p0.auto = false → bLe p0.raw w)

theorem lexCmp_ne_lt_iff (a b : Bytes) : lexCmp a b ≠ .lt ↔ bLe b a := by
  unfold bLe
  have := lexCmp_gt_iff b a
  constructor
  · intro h1 h2; exact h1 (this.1 h2)
  · intro h1 h2; exact h1 (this.2 h2)

theorem lexCmp_gt_iff_bLt (a b : Bytes) : lexCmp a b = .gt ↔ bLt b a := lexCmp_gt_iff a b

theorem stop_safe (p0 p : PF) (was : Bool) (w w' : Bytes) (idx : Nat)
    (hwhy : StopWhy was w idx p) (hle : bLe w w') (hlb : LB p0 w) (hp0 : idx = 0 → p = p0)
    (hwas : was = true → p0.f.cop = .gt → pm p0 w = true) (hk : kindOf p.f.attr = .plain) :
    p.f.cop = .np ∨ pm p w' = false := by
  unfold StopWhy at hwhy
  rcases hwhy with hnp | ⟨hpm, hcase⟩
  · exact Or.inl hnp
  · right
    -- upper bounds stop for good
    have upper : (p.f.cop = .lt ∨ p.f.cop = .le) → pm p w' = false := by
      intro hc
      unfold pm at hpm ⊢
      rcases hc with hc | hc
      · simp only [hc, Op.isInt, if_true, Bool.or_eq_false_iff, intBytesMatch, beq_eq_false_iff_ne, ne_eq] at hpm ⊢
        refine ⟨hpm.1, ?_⟩
        have h1 : bLe p.raw w := (lexCmp_ne_lt_iff w p.raw).1 hpm.2
        exact (lexCmp_ne_lt_iff w' p.raw).2 (bLe_trans h1 hle)
      · simp only [hc, Op.isInt, if_true, Bool.or_eq_false_iff, intBytesMatch, bne_eq_false_iff_eq] at hpm ⊢
        refine ⟨hpm.1, ?_⟩
        have h1 : bLt p.raw w := (lexCmp_gt_iff_bLt w p.raw).1 hpm.2
        exact (lexCmp_gt_iff_bLt w' p.raw).2 (bLt_of_bLt_of_bLe h1 hle)
    rcases hcase with ⟨h0, hsc, hgt⟩ | ⟨_, hc⟩
    · have hpp := hp0 h0
      subst hpp
      rw [scattered_plain _ _ hk] at hsc
      have hne : p.f.cop ≠ .ne := by simpa using hsc
      cases hcop : p.f.cop with
      | eq =>
        have hc := hlb.1 (Or.inl hcop)
        unfold pm at hpm ⊢
        simp only [hcop, Op.isInt, Bool.false_eq_true, if_false, matchValues, beq_eq_false_iff_ne, ne_eq] at hpm ⊢
        intro he
        subst he
        exact hpm (bLe_antisymm hle hc)
      | ne => exact absurd hcop hne
      | pfx =>
        have hc := hlb.1 (Or.inr hcop)
        unfold pm at hpm ⊢
        simp only [hcop, Op.isInt, Bool.false_eq_true, if_false, matchValues] at hpm ⊢
        cases hpre : p.f.cval.isPrefixOf w' with
        | false => rfl
        | true =>
          have := prefix_convex hc hle (List.isPrefixOf_iff_prefix.1 hpre)
          rw [← List.isPrefixOf_iff_prefix] at this
          rw [this] at hpm; exact absurd hpm (by simp)
      | np => unfold pm; simp [hcop, Op.isInt, matchValues]
      | flag => unfold pm; simp [hcop, Op.isInt, matchValues]
      | gt =>
        rcases hgt with hw | hw
        · have := hwas hw hcop
          rw [this] at hpm; exact absurd hpm (by simp)
        · exact absurd hcop hw
      | ge =>
        unfold pm at hpm
        simp only [hcop, Op.isInt, if_true, Bool.or_eq_false_iff, intBytesMatch, bne_eq_false_iff_eq] at hpm
        have hc := hlb.2 hcop hpm.1
        have : lexCmp w p.raw ≠ .lt := (lexCmp_ne_lt_iff w p.raw).2 hc
        exact absurd hpm.2 this
      | lt => exact upper (Or.inl hcop)
      | le => exact upper (Or.inr hcop)
    · exact upper hc

theorem pm_gt_mono (p : PF) (w w' : Bytes) (hcop : p.f.cop = .gt) (hle : bLe w w') (hpm : pm p w = true) :
    pm p w' = true := by
  unfold pm at hpm ⊢
  simp only [hcop, Op.isInt, if_true, Bool.or_eq_true, intBytesMatch, beq_iff_eq] at hpm ⊢
  rcases hpm with ha | hg
  · exact Or.inl ha
  · right
    have h1 : bLt p.raw w := (lexCmp_gt_iff_bLt w p.raw).1 hg
    exact (lexCmp_gt_iff_bLt w' p.raw).2 (bLt_of_bLt_of_bLe h1 hle)


/-- the expected result of one scanned object. -/
def expOf (h : HCtx) (o : Obj) : Option Item :=
  if isMatch (fsOf h) o then some (itemOf (fsOf h) h.attrs o) else none

/-- The handler's verdicts over ANY list of index elements that is sorted by stored value, lies above the
seek bound and splits/looks up correctly agree with the declarative match; every early stop is safe. -/
theorem verdictOK_entries (h : HCtx) (hne : h.fs ≠ []) (val : Obj → Bytes) (key : Obj → Bytes)
    (hpf : ∀ idx p, h.fs[idx]? = some p → PFok h.f0 idx p)
    (hkf : ∀ p ∈ h.fs, kindOf p.f.attr = .plain) (hka : ∀ a ∈ h.attrs, kindOf a = .plain) :
    ∀ (os : List Obj) (was : Bool),
      (∀ o ∈ os, splitKey h (key o) = some (val o, oidBytes o.id)) →
      (∀ o ∈ os, fromBE (oidBytes o.id) = o.id) →
      (∀ o ∈ os, EntryRel h o (val o)) →
      (∀ o ∈ os, ∀ a ∈ attrsOf h, h.get o.id a = lookup o a) →
      (∀ o ∈ os, h.avail o.id = o.avail) →
      os.Pairwise (fun a b => bLe (val a) (val b)) →
      (∀ o ∈ os, LB h.p0 (val o)) →
      (was = true → h.p0.f.cop = .gt → ∀ o ∈ os, pm h.p0 (val o) = true) →
      VerdictOK h key (expOf h) os was := by
  intro os
  induction os with
  | nil => intro _ _ _ _ _ _ _ _ _; trivial
  | cons o r ih =>
    intro was hkey hid hrel hget havail hsorted hlb hwas
    have mem0 : o ∈ o :: r := List.mem_cons_self
    have memr : ∀ x ∈ r, x ∈ o :: r := fun x hx => List.mem_cons_of_mem _ hx
    have hv : verdict h was (key o) = verdictE h was (val o) o.id := by
      unfold verdict; rw [hkey o mem0]; simp only; rw [hid o mem0]
    have hspec := verdictE_spec h hne o (val o) was (hrel o mem0) (hget o mem0) (havail o mem0) hpf hkf hka
    have hsr := (List.pairwise_cons.1 hsorted)
    have ihr := fun w' hw' => ih w' (fun x hx => hkey x (memr x hx)) (fun x hx => hid x (memr x hx))
      (fun x hx => hrel x (memr x hx)) (fun x hx => hget x (memr x hx)) (fun x hx => havail x (memr x hx))
      hsr.2 (fun x hx => hlb x (memr x hx)) hw'
    -- the flag invariant for the rest
    have winv : ∀ was', WasInv h was was' (val o) → (was' = true → h.p0.f.cop = .gt → ∀ x ∈ r, pm h.p0 (val x) = true) := by
      intro was' hinv hw' hgt x hx
      rcases hinv hw' with hw | ⟨_, hpm⟩
      · exact hwas hw hgt x (memr x hx)
      · exact pm_gt_mono h.p0 (val o) (val x) hgt (hsr.1 x hx) hpm
    unfold VerdictOK
    rw [hv]
    split at hspec
    · exact absurd hspec id
    · rename_i w' hres
      rw [hres]
      simp only
      obtain ⟨hm, hni, idx, p, hidx, hpe, hwhy⟩ := hspec
      refine ⟨by simp [expOf, hm], ?_⟩
      intro x hx
      have hp0 : idx = 0 → p = h.p0 := by
        intro h0; subst h0
        unfold HCtx.p0
        cases hfs : h.fs with
        | nil => rw [hfs] at hidx; simp at hidx
        | cons a t => rw [hfs] at hidx; simp at hidx; simp [hidx]
      have hkp := hkf p (List.mem_of_getElem? hidx)
      obtain ⟨hattr, hkind⟩ := PE_facts h idx p hidx hpe
      have hsafe := stop_safe h.p0 p was (val o) (val x) idx hwhy (hsr.1 x hx) (hlb o mem0) hp0
        (fun hw hg => hwas hw hg o mem0) hkp
      have hsat : satisfies x p.f = false := by
        by_cases hnp : p.f.cop = .np
        · obtain ⟨v, hv⟩ := EntryRel.has h x (val x) (hrel x (memr x hx)) hni
          unfold satisfies; rw [hattr, hv]; simp [hnp]
        · rcases hsafe with hsafe | hsafe
          · exact absurd hsafe hnp
          · rw [← pm_sat h x (val x) p idx (hrel x (memr x hx)) hni hattr hkind (hpf idx p hidx) hnp hkp]
            exact hsafe
      simp [expOf, isMatch_false_of _ x p.f (mem_fsOf h idx p hidx) hsat]
    · rename_i w' hres
      rw [hres]
      simp only
      exact ⟨by simp [expOf, hspec.1], ihr w' (winv w' hspec.2)⟩
    · rename_i it w' hres
      rw [hres]
      simp only
      exact ⟨by simp [expOf, hspec.1, hspec.2.1], ihr w' (winv w' hspec.2.2)⟩

end NeoFS.Search
