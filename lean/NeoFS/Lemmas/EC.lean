import NeoFS.Model.EC
/-! Helper lemmas for `Props/C22.lean` (node order of EC parts). -/
namespace NeoFS.EC

theorem innerLoop_mem (step nodes : Nat) (hs : 1 ≤ step) :
    ∀ (fuel i j : Nat), nodes ≤ fuel + i →
      (j ∈ innerLoop step nodes fuel i ↔ (j < nodes ∧ i ≤ j ∧ step ∣ (j - i))) := by
  intro fuel
  induction fuel with
  | zero =>
    intro i j h
    simp only [innerLoop, List.not_mem_nil, false_iff]
    omega
  | succ f ih =>
    intro i j h
    unfold innerLoop
    by_cases hi : i < nodes
    · simp only [hi, if_true, List.mem_cons]
      rw [ih (i + step) j (by omega)]
      constructor
      · rintro (rfl | ⟨h1, h2, h3⟩)
        · exact ⟨hi, Nat.le_refl _, by simp⟩
        · refine ⟨h1, by omega, ?_⟩
          have : j - i = (j - (i + step)) + step := by omega
          rw [this]
          exact Nat.dvd_add h3 (Nat.dvd_refl _)
      · rintro ⟨h1, h2, h3⟩
        by_cases hji : j = i
        · exact Or.inl hji
        · right
          have hpos : 0 < j - i := by omega
          have hle : step ≤ j - i := Nat.le_of_dvd hpos h3
          refine ⟨h1, by omega, ?_⟩
          have : j - (i + step) = (j - i) - step := by omega
          rw [this]
          exact Nat.dvd_sub h3 (Nat.dvd_refl _)
    · simp only [hi, if_false, List.not_mem_nil, false_iff]
      omega

theorem innerLoop_mem_residue (step nodes r j : Nat) (hr : r < step) :
    j ∈ innerLoop step nodes nodes r ↔ (j < nodes ∧ j % step = r) := by
  rw [innerLoop_mem step nodes (by omega) nodes r j (by omega)]
  constructor
  · rintro ⟨h1, h2, ⟨q, hq⟩⟩
    refine ⟨h1, ?_⟩
    have : j = r + step * q := by omega
    rw [this, Nat.add_mul_mod_self_left, Nat.mod_eq_of_lt hr]
  · rintro ⟨h1, h2⟩
    have hdiv := Nat.div_add_mod j step
    refine ⟨h1, by omega, ⟨j / step, ?_⟩⟩
    omega

theorem innerLoop_ge (step nodes : Nat) :
    ∀ (fuel i j : Nat), j ∈ innerLoop step nodes fuel i → i ≤ j := by
  intro fuel
  induction fuel with
  | zero => intro i j h; simp [innerLoop] at h
  | succ f ih =>
    intro i j h
    unfold innerLoop at h
    by_cases hi : i < nodes
    · simp only [hi, if_true, List.mem_cons] at h
      rcases h with rfl | h
      · exact Nat.le_refl _
      · have := ih _ _ h; omega
    · simp [hi] at h

theorem innerLoop_nodup (step nodes : Nat) (hs : 1 ≤ step) :
    ∀ (fuel i : Nat), (innerLoop step nodes fuel i).Nodup := by
  intro fuel
  induction fuel with
  | zero => intro i; simp [innerLoop]
  | succ f ih =>
    intro i
    unfold innerLoop
    by_cases hi : i < nodes
    · simp only [hi, if_true, List.nodup_cons]
      refine ⟨?_, ih _⟩
      intro hmem
      have := innerLoop_ge step nodes f (i + step) i hmem
      omega
    · simp [hi]

/-- Distinct shifts below `total` give distinct residues. -/
theorem residue_inj (part total s1 s2 : Nat) (h1 : s1 < total) (h2 : s2 < total)
    (h : (part + s1) % total = (part + s2) % total) : s1 = s2 := by
  by_cases hlt : s1 ≤ s2
  · have hz := Nat.sub_mod_eq_zero_of_mod_eq h.symm
    have : part + s2 - (part + s1) = s2 - s1 := by omega
    rw [this] at hz
    have hlt' : s2 - s1 < total := by omega
    rw [Nat.mod_eq_of_lt hlt'] at hz
    omega
  · have hz := Nat.sub_mod_eq_zero_of_mod_eq h
    have : part + s1 - (part + s2) = s1 - s2 := by omega
    rw [this] at hz
    have hlt' : s1 - s2 < total := by omega
    rw [Nat.mod_eq_of_lt hlt'] at hz
    omega

/-- Every residue is reached by some shift below `total`. -/
theorem residue_surj (part total r : Nat) (hr : r < total) :
    ∃ s, s < total ∧ (part + s) % total = r := by
  have ha : part % total < total := Nat.mod_lt _ (by omega)
  by_cases hle : part % total ≤ r
  · refine ⟨r - part % total, by omega, ?_⟩
    rw [Nat.add_mod, Nat.mod_eq_of_lt (show r - part % total < total by omega)]
    have : part % total + (r - part % total) = r := by omega
    rw [this, Nat.mod_eq_of_lt hr]
  · refine ⟨r + total - part % total, by omega, ?_⟩
    rw [Nat.add_mod, Nat.mod_eq_of_lt (show r + total - part % total < total by omega)]
    have : part % total + (r + total - part % total) = r + total := by omega
    rw [this, Nat.add_mod_right, Nat.mod_eq_of_lt hr]

end NeoFS.EC
