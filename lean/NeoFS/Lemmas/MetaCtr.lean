import NeoFS.Lemmas.MetaWF
import Mathlib.Tactic.IntervalCases
/-!
Counter invariants of the metabase model: the five typed counters (PHY, ROOT, TS, LOCK, LINK) of a live
bucket equal the number of indexed objects of each kind (for `Props/C02.lean`).
-/
namespace NeoFS.Meta

/-- the five kinds counted by the typed counters -/
def flag : Nat → Rec → Bool
  | 0, r => r.phy
  | 1, r => r.root
  | 2, r => r.typ == .tombstone
  | 3, r => r.typ == .lock
  | _, r => r.typ == .link

def getC : Nat → Counters → Nat
  | 0, c => c.phy | 1, c => c.root | 2, c => c.ts | 3, c => c.lock | _, c => c.link

def getD : Nat → Diff → Int
  | 0, d => d.phy | 1, d => d.root | 2, d => d.ts | 3, d => d.lock | _, d => d.link

theorem getC_apply (k : Nat) (c : Counters) (d : Diff) : getC k (c.apply d) = updCounter (getC k c) (getD k d) := by
  unfold Counters.apply
  match k with
  | 0 => rfl | 1 => rfl | 2 => rfl | 3 => rfl | (n + 4) => rfl

theorem getD_add (k : Nat) (a b : Diff) : getD k (a.add b) = getD k a + getD k b := by
  unfold Diff.add
  match k with
  | 0 => rfl | 1 => rfl | 2 => rfl | 3 => rfl | (n + 4) => rfl

theorem updCounter_add (c : Nat) (d : Int) (h : 0 ≤ d) : (updCounter c d : Int) = c + d := by
  unfold updCounter
  simp only [ge_iff_le, h, if_true]
  omega

theorem updCounter_sub (c : Nat) (d : Int) (h : d ≤ 0) (hle : -d ≤ c) : (updCounter c d : Int) = c + d := by
  unfold updCounter
  by_cases h0 : d = 0
  · subst h0; simp
  · have : ¬ d ≥ 0 := by omega
    simp only [this, if_false]
    omega

/-- what the invariant says about one bucket -/
structure CtrInv (c : Cnr) : Prop where
  typed : ∀ k, k < 5 → getC k c.ctr = c.recs.countP (flag k)
  rootReg : ∀ r ∈ c.recs, r.root = true → r.typ = .regular

/-- the invariant of every bucket: a live bucket counts exactly what it indexes, a removed container
reports zero objects of every kind; ROOT is only ever set on regular objects -/
structure CtrOK (c : Cnr) : Prop where
  typed : ∀ k, k < 5 → getC k c.ctr = if c.gcMark then 0 else c.recs.countP (flag k)
  rootReg : ∀ r ∈ c.recs, r.root = true → r.typ = .regular

theorem CtrOK.inv {c : Cnr} (h : CtrOK c) (hg : c.gcMark = false) : CtrInv c :=
  ⟨fun k hk => by have := h.typed k hk; simpa [hg] using this, h.rootReg⟩

theorem CtrInv.ok {c : Cnr} (h : CtrInv c) (hg : c.gcMark = false) : CtrOK c :=
  ⟨fun k hk => by rw [h.typed k hk]; simp [hg], h.rootReg⟩

/-! ### counting under insertion and removal -/

theorem countP_insertRec_new (p : Rec → Bool) (r : Rec) : ∀ (l : List Rec), (∀ x ∈ l, x.id ≠ r.id) →
    (insertRec r l).countP p = l.countP p + (if p r then 1 else 0) := by
  intro l
  induction l with
  | nil => intro _; simp [insertRec, List.countP_cons]
  | cons y ys ih =>
    intro h
    have hy : y.id ≠ r.id := h y (by simp)
    unfold insertRec
    split
    · simp only [List.countP_cons]
    · split
      · rename_i _ heq; exact absurd heq.symm hy
      · simp only [List.countP_cons]
        rw [ih (fun x hx => h x (by simp [hx]))]
        omega

theorem mem_insertRec_new (r : Rec) : ∀ (l : List Rec), (∀ x ∈ l, x.id ≠ r.id) →
    ∀ x, x ∈ insertRec r l ↔ (x = r ∨ x ∈ l) := by
  intro l
  induction l with
  | nil => intro _ x; simp [insertRec]
  | cons y ys ih =>
    intro h x
    have hy : y.id ≠ r.id := h y (by simp)
    unfold insertRec
    split
    · simp
    · split
      · rename_i _ heq; exact absurd heq.symm hy
      · simp only [List.mem_cons]
        rw [ih (fun z hz => h z (by simp [hz]))]
        constructor
        · rintro (h1 | h1 | h1) <;> simp [h1]
        · rintro (h1 | h1 | h1) <;> simp [h1]

theorem countP_filter_remove (p : Rec → Bool) (l : List Rec) (hs : RecsSorted l) (r : Rec) (hr : r ∈ l) :
    (l.filter (·.id != r.id)).countP p + (if p r then 1 else 0) = l.countP p := by
  induction l with
  | nil => cases hr
  | cons y ys ih =>
    unfold RecsSorted at hs
    rw [List.pairwise_cons] at hs
    simp only [List.mem_cons] at hr
    rcases hr with rfl | hr
    · -- the head is removed; nothing else has this id
      have hrest : ys.filter (·.id != r.id) = ys := by
        apply List.filter_eq_self.mpr
        intro x hx
        have := hs.1 x hx
        simp; omega
      simp only [List.filter_cons, bne_self_eq_false, Bool.false_eq_true, if_false, hrest, List.countP_cons]
    · have hlt := hs.1 r hr
      have hne : (y.id != r.id) = true := by simp; omega
      simp only [List.filter_cons, hne, if_true, List.countP_cons]
      have := ih hs.2 hr
      omega

theorem filter_sub_countP (p q : Rec → Bool) (l : List Rec) : (l.filter q).countP p ≤ l.countP p := by
  induction l with
  | nil => simp
  | cons y ys ih =>
    simp only [List.filter_cons, List.countP_cons]
    split
    · simp only [List.countP_cons]; omega
    · omega

end NeoFS.Meta

namespace NeoFS.Meta

/-! ### put -/

theorem putKind_frame (c1 : Cnr) (epoch level : Nat) (h : Hdr) (b : Bool) (e : Err)
    (c2 : Cnr) (d : Diff) (e' : Err) (heq : putKind c1 epoch level h b e = (some (c2, d), e')) :
    c2.recs = c1.recs ∧ c2.ctr = c1.ctr ∧ c2.gcMark = c1.gcMark := by
  unfold putKind at heq
  simp only at heq
  have inj : ∀ {x : Cnr} {dx : Diff} {ex : Err}, (some (x, dx), ex) = (some (c2, d), e') → x = c2 := by
    intro x dx ex hh
    have := (Prod.mk.inj hh).1
    exact (Prod.mk.inj (Option.some.inj this)).1
  cases hty : h.typ <;> rw [hty] at heq <;> simp only at heq
  · rw [← inj heq]; exact ⟨rfl, rfl, rfl⟩
  · split at heq; · cases heq
    split at heq; · cases heq
    split at heq; · cases heq
    split at heq; · cases heq
    rw [← inj heq]; exact ⟨rfl, rfl, rfl⟩
  · split at heq; · cases heq
    split at heq; · cases heq
    split at heq; · cases heq
    rw [← inj heq]; exact ⟨rfl, rfl, rfl⟩
  · rw [← inj heq]; exact ⟨rfl, rfl, rfl⟩
  · split at heq
    · cases heq
    · rw [← inj heq]; exact ⟨rfl, rfl, rfl⟩

/-- the typed part of the diff is exactly what the new record contributes -/
theorem putKind_diff (c1 : Cnr) (epoch level : Nat) (h : Hdr) (b : Bool) (e : Err)
    (c2 : Cnr) (d : Diff) (e' : Err) (heq : putKind c1 epoch level h b e = (some (c2, d), e'))
    (hsg : h.typ ≠ .storageGroup) (hlev : h.typ ≠ .regular → level = 0) :
    ∀ k, k < 5 → getD k d = if flag k (recOf h b (level == 0)) then 1 else 0 := by
  unfold putKind at heq
  simp only at heq
  have injd : ∀ {x : Cnr} {dx : Diff} {ex : Err}, (some (x, dx), ex) = (some (c2, d), e') → dx = d := by
    intro x dx ex hh
    have := (Prod.mk.inj hh).1
    exact (Prod.mk.inj (Option.some.inj this)).2
  intro k hk
  cases hty : h.typ <;> rw [hty] at heq <;> simp only at heq
  · -- regular
    rw [← injd heq]
    by_cases hl0 : level = 0 <;> cases hp : h.hasParent b <;>
      interval_cases k <;> simp [getD, flag, recOf, hty, hl0, hp]
  · have hl : level = 0 := hlev (by rw [hty]; decide)
    split at heq; · cases heq
    split at heq; · cases heq
    split at heq; · cases heq
    split at heq; · cases heq
    rw [← injd heq]
    interval_cases k <;> simp [getD, flag, recOf, hty, hl, Hdr.hasParent]
  · have hl : level = 0 := hlev (by rw [hty]; decide)
    split at heq; · cases heq
    split at heq; · cases heq
    split at heq; · cases heq
    rw [← injd heq]
    interval_cases k <;> simp [getD, flag, recOf, hty, hl, Hdr.hasParent]
  · have hl : level = 0 := hlev (by rw [hty]; decide)
    rw [← injd heq]
    interval_cases k <;> simp [getD, flag, recOf, hty, hl, Hdr.hasParent]
  · exact absurd hty hsg

theorem putSelf_inv (c0 c1 : Cnr) (h0 : CtrInv c0) (h1 : CtrInv c1) (hs1 : RecsSorted c1.recs)
    (epoch level : Nat) (h : Hdr) (b : Bool) (e : Err)
    (hnew : ∀ x ∈ c1.recs, x.id ≠ h.id)
    (hsg : h.typ ≠ .storageGroup) (hlev : h.typ ≠ .regular → level = 0) :
    CtrInv (putSelf c0 c1 epoch level h b e).1 := by
  unfold putSelf
  split
  · rename_i c2 d e' heq
    obtain ⟨hr, hc, _⟩ := putKind_frame c1 epoch level h b e c2 d e' heq
    have hd := putKind_diff c1 epoch level h b e c2 d e' heq hsg hlev
    have hnew' : ∀ x ∈ c2.recs, x.id ≠ (recOf h b (level == 0)).id := by rw [hr]; exact hnew
    constructor
    · intro k hk
      simp only
      rw [getC_apply, countP_insertRec_new _ _ _ hnew', hr, hc, hd k hk]
      have := h1.typed k hk
      have hnn : (0 : Int) ≤ if flag k (recOf h b (level == 0)) = true then 1 else 0 := by split <;> decide
      have := updCounter_add (getC k c1.ctr) _ hnn
      split at this <;> split <;> simp_all <;> omega
    · intro r hr' hroot
      simp only at hr'
      rw [mem_insertRec_new _ _ hnew'] at hr'
      rcases hr' with rfl | hr'
      · simp only [recOf, Bool.and_eq_true, beq_iff_eq] at hroot
        exact hroot.2
      · rw [hr] at hr'; exact h1.rootReg r hr' hroot
  · exact h0

end NeoFS.Meta

namespace NeoFS.Meta

theorem typeOf_none_ids (c : Cnr) (id : Nat) (h : c.typeOf id = none) : ∀ x ∈ c.recs, x.id ≠ id := by
  intro x hx heq
  unfold Cnr.typeOf Cnr.find? at h
  cases hf : c.recs.find? (·.id == id) with
  | some r => simp [hf] at h
  | none =>
    rw [List.find?_eq_none] at hf
    have := hf x hx
    simp [heq] at this

theorem exists_not_indexed (c : Cnr) (id epoch : Nat) (ex : Bool) (e : Err)
    (hex : c.exists_ id epoch false = (ex, e)) (h1 : ex = false) (h2 : e = .ok) : c.typeOf id = none := by
  unfold Cnr.exists_ at hex
  split at hex
  · cases hex; cases h2
  · simp only at hex
    split at hex
    · cases hex; cases h2
    · cases hex; cases h2
    · cases hex; cases h2
    · have := (Prod.mk.inj hex).1
      rw [h1] at this
      cases ht : c.typeOf id with
      | none => rfl
      | some t => simp [ht] at this

/-- what `putChain` leaves in the bucket: old records plus records for ids of the chain -/
theorem putSelf_ids (c0 c1 : Cnr) (epoch level : Nat) (h : Hdr) (b : Bool) (e : Err) :
    ∀ x ∈ (putSelf c0 c1 epoch level h b e).1.recs, x ∈ c0.recs ∨ x ∈ c1.recs ∨ x.id = h.id := by
  intro x hx
  unfold putSelf at hx
  split at hx
  · rename_i c2 d e' heq
    obtain ⟨hr, _, _⟩ := putKind_frame c1 epoch level h b e c2 d e' heq
    simp only at hx
    rcases insertRec_ids _ _ x hx with h1 | h1
    · exact Or.inr (Or.inr h1)
    · rw [hr] at h1; exact Or.inr (Or.inl h1)
  · exact Or.inl hx

theorem putChain_ids (epoch : Nat) : ∀ (chain : List Hdr) (c : Cnr) (level : Nat),
    ∀ x ∈ (putChain c epoch level chain).1.recs, x ∈ c.recs ∨ x.id ∈ chain.map (·.id) := by
  intro chain
  induction chain with
  | nil => intro c level x hx; simp [putChain] at hx; exact Or.inl hx
  | cons hd parents ih =>
    intro c level x hx
    unfold putChain at hx
    split at hx
    · exact Or.inl hx
    · simp only at hx
      split at hx
      · exact Or.inl hx
      · split at hx
        · exact Or.inl hx
        · split at hx
          · exact Or.inl hx
          · have fin : ∀ (c1 : Cnr), (∀ y ∈ c1.recs, y ∈ c.recs ∨ y.id ∈ parents.map (·.id)) →
                ∀ bb ee, x ∈ (putSelf c c1 epoch level hd bb ee).1.recs →
                x ∈ c.recs ∨ x.id ∈ (hd :: parents).map (·.id) := by
              intro c1 hc1 bb ee hx'
              rcases putSelf_ids c c1 epoch level hd bb ee x hx' with h1 | h1 | h1
              · exact Or.inl h1
              · rcases hc1 x h1 with h2 | h2
                · exact Or.inl h2
                · exact Or.inr (by simp [h2])
              · exact Or.inr (by simp [h1])
            cases parents with
            | nil =>
              simp only at hx
              split at hx
              · exact Or.inl hx
              · exact fin c (fun y hy => Or.inl hy) _ _ hx
            | cons p rest =>
              simp only at hx
              split at hx
              · split at hx
                · simp only at hx; split at hx
                  · exact Or.inl hx
                  · exact fin c (fun y hy => Or.inl hy) _ _ hx
                · simp only at hx
                  split at hx
                  · exact Or.inl hx
                  · exact fin _ (fun y hy => ih c (level + 1) y hy) _ _ hx
              · simp only at hx
                split at hx
                · exact Or.inl hx
                · exact fin c (fun y hy => Or.inl hy) _ _ hx

end NeoFS.Meta

namespace NeoFS.Meta

/-- chains of valid objects: no storage groups, only the object itself may be non-regular (embedded parent
headers are regular objects), distinct ids along the chain -/
structure ValidChain (level : Nat) (chain : List Hdr) : Prop where
  noSG : ∀ h ∈ chain, h.typ ≠ .storageGroup
  tailReg : ∀ h ∈ chain.tail, h.typ = .regular
  lvlReg : level ≠ 0 → ∀ h ∈ chain, h.typ = .regular
  nodup : (chain.map (·.id)).Nodup

theorem ValidChain.tail {level : Nat} {hd : Hdr} {rest : List Hdr} (v : ValidChain level (hd :: rest)) :
    ValidChain (level + 1) rest where
  noSG := fun h hh => v.noSG h (by simp [hh])
  tailReg := fun h hh => v.tailReg h (List.mem_of_mem_tail hh)
  lvlReg := fun _ h hh => v.tailReg h hh
  nodup := by have := v.nodup; simp only [List.map_cons, List.nodup_cons] at this; exact this.2

theorem putChain_inv (epoch : Nat) : ∀ (chain : List Hdr) (c : Cnr) (level : Nat),
    CtrInv c → c.WF → ValidChain level chain → CtrInv (putChain c epoch level chain).1 := by
  intro chain
  induction chain with
  | nil => intro c level h _ _; simpa [putChain] using h
  | cons hd parents ih =>
    intro c level hc hwf v
    have hs := hwf.recs
    unfold putChain
    by_cases hg : c.gcMark = true
    · simp only [hg, if_true]; exact hc
    simp only [hg, if_false, Bool.false_eq_true]
    cases hex : c.exists_ hd.id epoch false with
    | mk ex e =>
      simp only
      by_cases h1 : ex = true
      · simp only [h1, if_true]; exact hc
      simp only [h1, if_false, Bool.false_eq_true]
      by_cases h2 : (e != .ok && e != .notFound) = true
      · simp only [h2, if_true]; exact hc
      simp only [h2, if_false, Bool.false_eq_true]
      by_cases h3 : (e == .notFound && (c.typeOf hd.id).isSome) = true
      · simp only [h3, if_true]; exact hc
      simp only [h3, if_false, Bool.false_eq_true]
      -- the object is not indexed yet
      have hnone : c.typeOf hd.id = none := by
        have hexf : ex = false := by
          cases ex with
          | true => exact absurd rfl h1
          | false => rfl
        by_cases hok : e = .ok
        · exact exists_not_indexed c hd.id epoch ex e hex hexf hok
        · have hnf : e = .notFound := by
            cases e <;> first | rfl | exact absurd rfl hok | (exfalso; apply h2; decide)
          cases ht : c.typeOf hd.id with
          | none => rfl
          | some t => simp [hnf, ht] at h3
      have hnewc : ∀ x ∈ c.recs, x.id ≠ hd.id := typeOf_none_ids c hd.id hnone
      have hsg : hd.typ ≠ .storageGroup := v.noSG hd (by simp)
      have hlev : hd.typ ≠ .regular → level = 0 := by
        intro hne
        by_cases hl : level = 0
        · exact hl
        · exact absurd (v.lvlReg hl hd (by simp)) hne
      have hnd := v.nodup
      simp only [List.map_cons, List.nodup_cons] at hnd
      have fin : ∀ (c1 : Cnr), CtrInv c1 → RecsSorted c1.recs →
          (∀ y ∈ c1.recs, y ∈ c.recs ∨ y.id ∈ parents.map (·.id)) →
          ∀ bb ee, CtrInv (putSelf c c1 epoch level hd bb ee).1 := by
        intro c1 hc1 hs1 hsub bb ee
        apply putSelf_inv c c1 hc hc1 hs1 epoch level hd bb ee _ hsg hlev
        intro x hx
        rcases hsub x hx with h | h
        · exact hnewc x h
        · intro heq; rw [heq] at h; exact hnd.1 h
      cases parents with
      | nil =>
        simp only
        split
        · exact hc
        · exact fin c hc hs (fun y hy => Or.inl hy) _ _
      | cons p rest =>
        simp only
        split
        · split
          · simp only; split
            · exact hc
            · exact fin c hc hs (fun y hy => Or.inl hy) _ _
          · simp only
            split
            · exact hc
            · have hwfp : (putChain c epoch (level + 1) (p :: rest)).1.WF :=
                putChain_wf epoch (p :: rest) c (level + 1) hwf
              exact fin _ (ih c (level + 1) hc hwf v.tail) hwfp.recs
                (fun y hy => putChain_ids epoch (p :: rest) c (level + 1) y hy) _ _
        · simp only
          split
          · exact hc
          · exact fin c hc hs (fun y hy => Or.inl hy) _ _

end NeoFS.Meta

namespace NeoFS.Meta

/-! ### delete -/

theorem find_some (c : Cnr) (id : Nat) (r : Rec) (h : c.find? id = some r) : r ∈ c.recs ∧ r.id = id := by
  unfold Cnr.find? at h
  exact ⟨List.mem_of_find?_eq_some h, by have := List.find?_some h; simpa using this⟩

theorem getD_payload (k : Nat) (hk : k < 5) (d : Diff) (p : Int) : getD k { d with payload := p } = getD k d := by
  interval_cases k <;> rfl

/-- removing one record changes every count by exactly its `recDiff` entry -/
theorem dropId_count (c : Cnr) (hwf : c.WF) (hroot : ∀ r ∈ c.recs, r.root = true → r.typ = .regular)
    (r : Rec) (hrm : r ∈ c.recs) (g : Bool) :
    ∀ k, k < 5 → (((c.dropId r.id).recs.countP (flag k) : Nat) : Int) =
      (c.recs.countP (flag k) : Nat) + getD k (recDiff r g) := by
  intro k hk
  have := countP_filter_remove (flag k) c.recs hwf.recs r hrm
  have hrr : r.root = true → r.typ = .regular := hroot r hrm
  unfold Cnr.dropId recDiff
  simp only
  interval_cases k <;> simp only [getD, flag] at this ⊢
  · cases h : r.phy <;> simp [h] at this ⊢ <;> omega
  · cases hr1 : r.root
    · simp [hr1] at this ⊢; omega
    · have ht := hrr hr1; simp [hr1, ht] at this ⊢; omega
  · cases h : (r.typ == OType.tombstone) <;> simp [h] at this ⊢ <;> omega
  · cases h : (r.typ == OType.lock) <;> simp [h] at this ⊢ <;> omega
  · cases h : (r.typ == OType.link) <;> simp [h] at this ⊢ <;> omega

/-- `deleteMetadata` does not touch the counters itself; its diff is exactly the change of the counts -/
theorem deleteMetadata_frame : ∀ (fuel : Nat) (c : Cnr) (id : Nat) (isParent : Bool), c.WF →
    (∀ r ∈ c.recs, r.root = true → r.typ = .regular) →
    (c.deleteMetadata fuel id isParent).1.ctr = c.ctr ∧ (c.deleteMetadata fuel id isParent).1.gcMark = c.gcMark ∧
      (∀ r ∈ (c.deleteMetadata fuel id isParent).1.recs, r ∈ c.recs) ∧
      ∀ k, k < 5 → ((((c.deleteMetadata fuel id isParent).1.recs.countP (flag k)) : Nat) : Int) =
        (c.recs.countP (flag k) : Nat) + getD k (c.deleteMetadata fuel id isParent).2.1 := by
  intro fuel
  induction fuel with
  | zero =>
    intro c id ip _ _
    simp only [Cnr.deleteMetadata]
    refine ⟨trivial, trivial, fun r h => h, ?_⟩
    intro k hk; interval_cases k <;> simp [getD]
  | succ f ih =>
    intro c id ip hwf hroot
    unfold Cnr.deleteMetadata
    cases hf : c.find? id with
    | none =>
      simp only
      split
      · refine ⟨rfl, rfl, fun r h => h, ?_⟩
        intro k hk; interval_cases k <;> simp [getD]
      · refine ⟨rfl, rfl, fun r h => h, ?_⟩
        intro k hk; interval_cases k <;> simp [getD]
    | some r =>
      obtain ⟨hrm, hrid⟩ := find_some c id r hf
      subst hrid
      simp only
      split
      · refine ⟨rfl, rfl, fun r h => h, ?_⟩
        intro k hk; interval_cases k <;> simp [getD]
      · have hwf1 := dropId_wf c hwf r.id
        have hroot1 : ∀ x ∈ (c.dropId r.id).recs, x.root = true → x.typ = .regular :=
          fun x hx => hroot x (List.mem_filter.mp hx).1
        have hsub1 : ∀ x ∈ (c.dropId r.id).recs, x ∈ c.recs := fun x hx => (List.mem_filter.mp hx).1
        have hcount := dropId_count c hwf hroot r hrm ((c.garb.find? (·.1 == r.id)).isSome)
        -- the (optional) parent step, uniformly
        have hp : ∀ (p : Cnr × Diff × Bool),
            (p.1.ctr = (c.dropId r.id).ctr ∧ p.1.gcMark = (c.dropId r.id).gcMark ∧
              (∀ x ∈ p.1.recs, x ∈ (c.dropId r.id).recs) ∧
              ∀ k, k < 5 → ((p.1.recs.countP (flag k) : Nat) : Int) =
                ((c.dropId r.id).recs.countP (flag k) : Nat) + getD k p.2.1) →
            (p.1.ctr = c.ctr ∧ p.1.gcMark = c.gcMark ∧ (∀ x ∈ p.1.recs, x ∈ c.recs) ∧
              ∀ k, k < 5 → ((p.1.recs.countP (flag k) : Nat) : Int) = (c.recs.countP (flag k) : Nat) +
                getD k (if (r.phy && !(c.garb.find? (·.1 == r.id)).isSome) = true then
                  { (recDiff r (c.garb.find? (·.1 == r.id)).isSome).add p.2.1 with
                    payload := ((recDiff r (c.garb.find? (·.1 == r.id)).isSome).add p.2.1).payload - r.size }
                  else (recDiff r (c.garb.find? (·.1 == r.id)).isSome).add p.2.1)) := by
          intro p ⟨i1, i2, i3, i4⟩
          refine ⟨i1, i2, fun x hx => hsub1 x (i3 x hx), ?_⟩
          intro k hk
          split
          · rw [getD_payload k hk, getD_add, i4 k hk, hcount k hk]; omega
          · rw [getD_add, i4 k hk, hcount k hk]; omega
        split
        · exact hp _ (ih _ r.parentId true hwf1 hroot1)
        · exact hp ((c.dropId r.id), {}, false) ⟨rfl, rfl, fun x hx => hx, by
            intro k hk; interval_cases k <;> simp [getD]⟩

/-! ### bucket-level preservation -/

theorem ctrOK_empty : CtrOK ({} : Cnr) :=
  ⟨fun k hk => by interval_cases k <;> rfl, fun r hr => by cases hr⟩

theorem putSelf_gcMark (c0 c1 : Cnr) (epoch level : Nat) (h : Hdr) (b : Bool) (e : Err)
    (h01 : c1.gcMark = c0.gcMark) : (putSelf c0 c1 epoch level h b e).1.gcMark = c0.gcMark := by
  unfold putSelf
  split
  · rename_i c2 d e' heq
    obtain ⟨_, _, hg⟩ := putKind_frame c1 epoch level h b e c2 d e' heq
    simp only; rw [hg, h01]
  · rfl

theorem putChain_gcMark (epoch : Nat) : ∀ (chain : List Hdr) (c : Cnr) (level : Nat),
    (putChain c epoch level chain).1.gcMark = c.gcMark := by
  intro chain
  induction chain with
  | nil => intro c level; rfl
  | cons hd parents ih =>
    intro c level
    unfold putChain
    split
    · rfl
    · simp only
      split
      · rfl
      · split
        · rfl
        · split
          · rfl
          · cases parents with
            | nil =>
              simp only
              split
              · rfl
              · exact putSelf_gcMark c c _ _ _ _ _ rfl
            | cons p rest =>
              simp only
              split
              · split
                · simp only; split
                  · rfl
                  · exact putSelf_gcMark c c _ _ _ _ _ rfl
                · simp only
                  split
                  · rfl
                  · exact putSelf_gcMark c _ _ _ _ _ _ (ih c (level + 1))
              · simp only
                split
                · rfl
                · exact putSelf_gcMark c c _ _ _ _ _ rfl

theorem putChain_ctrOK (epoch : Nat) (chain : List Hdr) (c : Cnr) (hwf : c.WF) (hok : CtrOK c)
    (v : ValidChain 0 chain) : CtrOK (putChain c epoch 0 chain).1 := by
  by_cases hg : c.gcMark = true
  · -- nothing is written into a removed container
    have : (putChain c epoch 0 chain).1 = c := by
      cases chain with
      | nil => rfl
      | cons hd tl => unfold putChain; simp [hg]
    rw [this]; exact hok
  · have hgf : c.gcMark = false := by cases h : c.gcMark <;> simp_all
    have := putChain_inv epoch chain c 0 (hok.inv hgf) hwf v
    exact this.ok (by rw [putChain_gcMark]; exact hgf)

theorem markStep_frame (epoch : Nat) (red : Bool) (acc : Cnr × Nat × Int) (id : Nat) :
    (markStep epoch red acc id).1.recs = acc.1.recs ∧ (markStep epoch red acc id).1.ctr = acc.1.ctr ∧
      (markStep epoch red acc id).1.gcMark = acc.1.gcMark := by
  obtain ⟨cur, newG, pay⟩ := acc
  unfold markStep
  simp only
  split
  · split <;> exact ⟨rfl, rfl, rfl⟩
  · exact ⟨rfl, rfl, rfl⟩

theorem markGarbageIn_frame (c : Cnr) (epoch : Nat) (objs : List Nat) (red : Bool) :
    (c.markGarbageIn epoch objs red).1.recs = c.recs ∧ (c.markGarbageIn epoch objs red).1.ctr = c.ctr ∧
      (c.markGarbageIn epoch objs red).1.gcMark = c.gcMark := by
  unfold Cnr.markGarbageIn
  suffices H : ∀ (objs : List Nat) (acc : Cnr × Nat × Int),
      (objs.foldl (markStep epoch red) acc).1.recs = acc.1.recs ∧
      (objs.foldl (markStep epoch red) acc).1.ctr = acc.1.ctr ∧
      (objs.foldl (markStep epoch red) acc).1.gcMark = acc.1.gcMark by
    exact H objs (c, 0, 0)
  intro objs
  induction objs with
  | nil => intro acc; exact ⟨rfl, rfl, rfl⟩
  | cons x xs ih =>
    intro acc
    simp only [List.foldl_cons]
    obtain ⟨a, b, c'⟩ := ih (markStep epoch red acc x)
    obtain ⟨a', b', c''⟩ := markStep_frame epoch red acc x
    exact ⟨a.trans a', b.trans b', c'.trans c''⟩

theorem ctrOK_of_typed_eq (c c' : Cnr) (hr : c'.recs = c.recs) (hg : c'.gcMark = c.gcMark)
    (ht : ∀ k, k < 5 → getC k c'.ctr = getC k c.ctr) (h : CtrOK c) : CtrOK c' :=
  ⟨fun k hk => by rw [ht k hk, hr, hg]; exact h.typed k hk, fun r hrr => by rw [hr] at hrr; exact h.rootReg r hrr⟩

theorem deleteMetadata_sublist : ∀ (fuel : Nat) (c : Cnr) (id : Nat) (ip : Bool),
    (c.deleteMetadata fuel id ip).1.recs.Sublist c.recs := by
  intro fuel
  induction fuel with
  | zero => intro c id ip; simp [Cnr.deleteMetadata]
  | succ f ih =>
    intro c id ip
    unfold Cnr.deleteMetadata
    split
    · split <;> simp
    · split
      · simp
      · simp only
        split
        · exact (ih _ _ _).trans List.filter_sublist
        · exact List.filter_sublist

/-- applying a removal diff that matches the change of the counts keeps the invariant -/
theorem apply_removal (c cur : Cnr) (d : Diff) (hok : CtrOK c)
    (hctr : cur.ctr = c.ctr) (hg : cur.gcMark = c.gcMark) (hsub : cur.recs.Sublist c.recs)
    (hcnt : ∀ k, k < 5 → ((cur.recs.countP (flag k) : Nat) : Int) = (c.recs.countP (flag k) : Nat) + getD k d) :
    CtrOK { cur with ctr := cur.ctr.apply d } := by
  have hle : ∀ k, k < 5 → getD k d ≤ 0 := by
    intro k hk
    have := hcnt k hk
    have hl : cur.recs.countP (flag k) ≤ c.recs.countP (flag k) := hsub.countP_le
    omega
  constructor
  · intro k hk
    simp only
    rw [getC_apply, hctr, hok.typed k hk, hg]
    have h2 := hcnt k hk
    have h3 := hle k hk
    split
    · unfold updCounter; split <;> omega
    · have := updCounter_sub (c.recs.countP (flag k)) (getD k d) h3 (by omega)
      omega
  · intro r hr; exact hok.rootReg r (hsub.subset hr)

end NeoFS.Meta
