import NeoFS.Model.IRContainer
/-
Declarative specification of "the owner authorised the operation" and the helper lemmas
relating it to the executable checks of Model/IRContainer.lean.
-/
namespace NeoFS.IRContainer

variable {σ : Type}

/-! ### the specification -/

/-- a token signature that authenticates `issuer` over the named data -/
def SignedBy (C : Crypto σ) (issuer : User) (d : Data) (s : TSig σ) : Prop :=
  issuer ≠ 0 ∧
  ((∃ k x, s = .ecdsa (some k) x ∧ C.verify k d x = true ∧ C.userOf k = issuer) ∨
   (∃ vs x, s = .n3 vs x ∧ C.n3 issuer d x vs = true))

/-- the request payload is witnessed by the owner: a key that derives the owner's id signed
    it, or the chain accepted the owner account's N3 witness -/
def OwnerSignedRequest (C : Crypto σ) (a : Auth σ) : Prop :=
  (∃ k, a.vs = .key k ∧ C.verify k .request a.sig = true ∧ C.userOf k = a.owner) ∨
  ((∀ k, a.vs ≠ .key k) ∧ C.n3 a.owner .request a.sig a.vs = true)

/-- V1 delegation: the owner signed a token for exactly this verb, for this container (or for
    any), alive at the current epoch, naming the session key that signed the request payload -/
def DelegatedV1 (C : Crypto σ) (env : Env) (a : Auth σ) (t : TokV1 σ) : Prop :=
  SignedBy C t.issuer (.token 0) t.sig ∧ t.issuer = a.owner ∧ t.verb = a.kind.v1 ∧
  (a.idSet = true → t.cnr = 0 ∨ t.cnr = a.target) ∧
  (t.nbf ≤ env.epoch ∧ t.iat ≤ env.epoch ∧ env.epoch ≤ t.exp) ∧
  ∃ k, t.authKey = some k ∧ C.verify k .request a.sig = true

/-- a V2 token grants a verb for a container: some context is the wildcard or names the
    container and lists the verb -/
def Grants (t : TokV2 σ) (verb : Nat) (cnr : Cid) : Prop :=
  ∃ c ∈ t.ctxs, (c.cnr = 0 ∨ c.cnr = cnr) ∧ verb ∈ c.verbs

/-- V2 delegation chain rooted at the owner: every token is signed by its issuer, the root is
    issued by the owner, every issuer is a subject of the token it delegates from, and EVERY
    token of the chain (the owner's included) grants this verb for this container and is alive
    now (between nbf and exp) -/
def ChainFromOwner (C : Crypto σ) (env : Env) (a : Auth σ) (ch : List (TokV2 σ)) : Prop :=
  ch ≠ [] ∧
  (∀ i t, ch[i]? = some t → SignedBy C t.issuer (.token i) t.sig) ∧
  originalIssuer ch = a.owner ∧
  (∀ i t o, ch[i]? = some t → ch[i+1]? = some o → t.issuer ∈ o.subjects) ∧
  (∀ t ∈ ch, Grants t a.kind.v2 a.target ∧ t.nbf ≤ env.now ∧ env.now ≤ t.exp)

/-- the request payload is signed by a party the (outermost) token names: one of its subjects
    or its issuer.  This is the weakest reading of "the token delegates to the signer". -/
def RequestSignedByParty (C : Crypto σ) (a : Auth σ) (t : TokV2 σ) : Prop :=
  ∃ k, a.vs = .key k ∧ C.verify k .request a.sig = true ∧
    (C.userOf k ∈ t.subjects ∨ C.userOf k = t.issuer)

/-- THE specification: the container owner authorised this request -/
def OwnerAuthorised (C : Crypto σ) (env : Env) (a : Auth σ) : Prop :=
  match a.tok with
  | .none => OwnerSignedRequest C a
  | .garbage => False
  | .v1 t => DelegatedV1 C env a t
  | .v2 ch => ChainFromOwner C env a ch ∧ ∃ t r, ch = t :: r ∧ RequestSignedByParty C a t

/-- what the code establishes: as `OwnerAuthorised`, but for V2 tokens WITHOUT any statement
    about who signed the request payload -/
def TokenAuthorised (C : Crypto σ) (env : Env) (a : Auth σ) : Prop :=
  match a.tok with
  | .none => OwnerSignedRequest C a
  | .garbage => False
  | .v1 t => DelegatedV1 C env a t
  | .v2 ch => ChainFromOwner C env a ch

def Tok.isV2 : Tok σ → Bool
  | .v2 _ => true
  | _ => false

/-! ### lemmas -/

theorem authToken_signedBy (C : Crypto σ) (i : User) (d : Data) (s : TSig σ)
    (h : authToken C i d s = true) : SignedBy C i d s := by
  cases s with
  | none => simp [authToken] at h
  | unsupported => simp [authToken] at h
  | ecdsa k x =>
    cases k with
    | none => simp [authToken] at h
    | some k =>
      simp only [authToken, Bool.and_eq_true, bne_iff_ne, ne_eq, beq_iff_eq] at h
      exact ⟨h.1.1, Or.inl ⟨k, x, rfl, h.1.2, h.2⟩⟩
  | n3 vs x =>
    simp only [authToken, Bool.and_eq_true, bne_iff_ne, ne_eq] at h
    exact ⟨h.1, Or.inr ⟨vs, x, rfl, h.2⟩⟩

theorem unauthVerb_none_mem (req av : List Nat) (h : unauthVerb req av = none) :
    ∀ v ∈ req, v ∈ av := by
  fun_induction unauthVerb req av with
  | case1 => intro v hv; cases hv
  | case2 => simp at h
  | case3 r rs a as heq ih =>
    intro v hv
    have hra : r = a := by simpa using heq
    cases hv with
    | head => subst hra; exact List.mem_cons_self
    | tail _ hv' => exact List.mem_cons_of_mem _ (ih h v hv')
  | case4 => simp at h
  | case5 r rs a as _ _ ih =>
    intro v hv
    exact List.mem_cons_of_mem _ (ih h v hv)

theorem wildcardVerbs_some (cs : List Ctx) (w : List Nat) (h : wildcardVerbs cs = some w) :
    ∃ c ∈ cs, c.cnr = 0 ∧ c.verbs = w := by
  cases cs with
  | nil => simp [wildcardVerbs] at h
  | cons c r =>
    simp only [wildcardVerbs] at h
    split at h
    · rename_i hc
      simp only [Option.some.injEq] at h
      exact ⟨c, List.mem_cons_self, by simpa using hc, h⟩
    · cases h

theorem dropWhile_subset {α} (p : α → Bool) (l : List α) : ∀ x ∈ l.dropWhile p, x ∈ l :=
  fun _ hx => (List.dropWhile_sublist p).subset hx

/-- a context of the delegated token that grants (verb, cnr) has a granting context in the origin -/
theorem delegatedOk_grants (O : List Ctx) (wild : Option (List Nat))
    (hw : ∀ w, wild = some w → ∃ c ∈ O, c.cnr = 0 ∧ c.verbs = w)
    (verb : Nat) (cnr : Cid) :
    ∀ (o ds : List Ctx), (∀ c ∈ o, c ∈ O) → delegatedOk wild o ds = true →
      ∀ d ∈ ds, (d.cnr = 0 ∨ d.cnr = cnr) → verb ∈ d.verbs →
        ∃ c ∈ O, (c.cnr = 0 ∨ c.cnr = cnr) ∧ verb ∈ c.verbs := by
  intro o ds
  induction ds generalizing o with
  | nil => intro _ _ d hd; cases hd
  | cons d0 ds ih =>
    intro ho h d hd hc hv
    have ho' : ∀ c ∈ o.dropWhile (fun c => c.cnr < d0.cnr), c ∈ O :=
      fun c hcm => ho c (dropWhile_subset _ _ c hcm)
    -- the two ways a context is accepted
    have viaWild : ∀ w, wild = some w →
        ((unauthVerb d0.verbs w).isNone && delegatedOk wild (o.dropWhile (fun c => c.cnr < d0.cnr)) ds) = true →
        ∃ c ∈ O, (c.cnr = 0 ∨ c.cnr = cnr) ∧ verb ∈ c.verbs := by
      intro w hwe hh
      simp only [Bool.and_eq_true, Option.isNone_iff_eq_none] at hh
      cases hd with
      | head =>
        obtain ⟨c, hcO, hc0, hcv⟩ := hw w hwe
        exact ⟨c, hcO, Or.inl hc0, by rw [hcv]; exact unauthVerb_none_mem _ _ hh.1 verb hv⟩
      | tail _ hd' => exact ih _ ho' hh.2 d hd' hc hv
    unfold delegatedOk at h
    simp only at h
    split at h
    · rename_i c rest heq
      split at h
      · rename_i hceq
        simp only [Bool.and_eq_true, Option.isNone_iff_eq_none] at h
        cases hd with
        | head =>
          have hcm : c ∈ O := ho' c (by rw [heq]; exact List.mem_cons_self)
          have hcd : c.cnr = d0.cnr := by simpa using hceq
          refine ⟨c, hcm, ?_, unauthVerb_none_mem _ _ h.1 verb hv⟩
          rw [hcd]; exact hc
        | tail _ hd' =>
          exact ih _ ho' h.2 d hd' hc hv
      · cases hwild : wild with
        | none => simp [hwild] at h
        | some w =>
          simp only [hwild] at h
          exact viaWild w hwild (by rw [hwild]; exact h)
    · rename_i heq
      cases hwild : wild with
      | none => simp [hwild] at h
      | some w =>
        simp only [hwild] at h
        exact viaWild w hwild (by rw [hwild]; exact h)

theorem assertContainer_grants (t : TokV2 σ) (verb : Nat) (cnr : Cid)
    (h : assertContainer t.ctxs verb cnr = true) : Grants t verb cnr := by
  simp only [assertContainer, Bool.and_eq_true, List.any_eq_true, Bool.or_eq_true, beq_iff_eq,
    List.contains_iff_mem] at h
  obtain ⟨_, c, hc, hcn, hv⟩ := h
  exact ⟨c, hc, hcn, hv⟩

theorem validAtV2_bounds (t : TokV2 σ) (now : Nat) (h : validAtV2 t now = true) :
    t.nbf ≤ now ∧ now ≤ t.exp := by
  unfold validAtV2 at h
  unfold TokV2.nbf TokV2.exp
  cases hl : t.life with
  | none => simp [hl] at h
  | some l =>
    obtain ⟨i, n, e⟩ := l
    simp only [hl, Bool.and_eq_true, decide_eq_true_eq] at h
    exact ⟨h.2, h.1.2⟩

/-- facts `validateChain` + `authChain` give about every position of the chain -/
theorem chain_links (C : Crypto σ) :
    ∀ (ch : List (TokV2 σ)) (d : Nat), validateChain d ch = true → authChain C d ch = true →
      (∀ i t, ch[i]? = some t → SignedBy C t.issuer (.token (d + i)) t.sig) ∧
      (∀ i t o, ch[i]? = some t → ch[i+1]? = some o → t.issuer ∈ o.subjects) := by
  intro ch
  induction ch with
  | nil => intro d hv; simp [validateChain] at hv
  | cons t r ih =>
    intro d hv ha
    simp only [authChain, Bool.and_eq_true] at ha
    cases r with
    | nil =>
      constructor
      · intro i x hx
        cases i with
        | zero => simp at hx; subst hx; exact authToken_signedBy C _ _ _ ha.2
        | succ n => simp at hx
      · intro i x o _ ho
        simp at ho
    | cons o r' =>
      simp only [validateChain, Bool.and_eq_true, List.contains_iff_mem] at hv
      have hrec := ih (d + 1) hv.2 ha.1
      constructor
      · intro i x hx
        cases i with
        | zero => simp at hx; subst hx; exact authToken_signedBy C _ _ _ ha.2
        | succ n =>
          have := hrec.1 n x (by simpa using hx)
          have e : d + 1 + n = d + (n + 1) := by omega
          rw [e] at this; exact this
      · intro i x y hx hy
        cases i with
        | zero =>
          simp at hx hy; subst hx; subst hy
          exact hv.1.1.2
        | succ n => exact hrec.2 n x y (by simpa using hx) (by simpa using hy)

/-- what the head grants and its life span are inherited by every origin -/
theorem chain_grants (verb : Nat) (cnr : Cid) (now : Nat) :
    ∀ (ch : List (TokV2 σ)) (d : Nat) (t : TokV2 σ) (r : List (TokV2 σ)), ch = t :: r →
      validateChain d ch = true → Grants t verb cnr → t.nbf ≤ now → now ≤ t.exp →
      ∀ x ∈ ch, Grants x verb cnr ∧ x.nbf ≤ now ∧ now ≤ x.exp := by
  intro ch
  induction ch with
  | nil => intro d t r h; cases h
  | cons t0 r0 ih =>
    intro d t r h hv hg hn he x hx
    cases h
    cases hx with
    | head => exact ⟨hg, hn, he⟩
    | tail _ hx' =>
      cases r0 with
      | nil => cases hx'
      | cons o r' =>
        simp only [validateChain, Bool.and_eq_true, decide_eq_true_eq] at hv
        obtain ⟨⟨⟨⟨_, hdel⟩, _⟩, hlife⟩, hrec⟩ := hv
        have hgo : Grants o verb cnr := by
          obtain ⟨c, hc, hcn, hcv⟩ := hg
          exact delegatedOk_grants o.ctxs (wildcardVerbs o.ctxs) (wildcardVerbs_some o.ctxs)
            verb cnr o.ctxs t0.ctxs (fun _ h => h) hdel c hc hcn hcv
        exact ih (d + 1) o r' rfl hrec hgo (by omega) (by omega) x hx'

theorem originalIssuer_cons_ne (t : TokV2 σ) (r : List (TokV2 σ)) (h : r ≠ []) :
    originalIssuer (t :: r) = originalIssuer r := by
  cases r with
  | nil => exact absurd rfl h
  | cons _ _ => rfl

theorem verifySessionV2_sound (C : Crypto σ) (env : Env) (a : Auth σ) (ch : List (TokV2 σ))
    (h : verifySessionV2 C env a ch = true) : ChainFromOwner C env a ch := by
  cases ch with
  | nil => simp [verifySessionV2] at h
  | cons t r =>
    simp only [verifySessionV2, Bool.and_eq_true, beq_iff_eq] at h
    obtain ⟨⟨⟨⟨hval, hauth⟩, hassert⟩, hiss⟩, hlife⟩ := h
    have hl := chain_links C (t :: r) 0 hval hauth
    have hb := validAtV2_bounds t env.now hlife
    refine ⟨by simp, ?_, hiss, hl.2, ?_⟩
    · intro i x hx
      have := hl.1 i x hx
      simpa using this
    · exact chain_grants a.kind.v2 a.target env.now (t :: r) 0 t r rfl hval
        (assertContainer_grants t _ _ hassert) hb.1 hb.2

theorem verifySessionV1_sound (C : Crypto σ) (env : Env) (a : Auth σ) (t : TokV1 σ)
    (h : verifySessionV1 C env a t = true) : DelegatedV1 C env a t := by
  simp only [verifySessionV1, Bool.and_eq_true, beq_iff_eq, Bool.or_eq_true, decide_eq_true_eq,
    Bool.not_eq_true'] at h
  obtain ⟨⟨⟨⟨⟨hauth, hverb⟩, hcnr⟩, hiss⟩, hlife⟩, hkey⟩ := h
  refine ⟨authToken_signedBy C _ _ _ hauth, hiss, hverb, ?_, ⟨hlife.1.1, hlife.1.2, hlife.2⟩, ?_⟩
  · intro hs
    rcases hcnr with (hc | hc) | hc
    · rw [hs] at hc; cases hc
    · exact Or.inl hc
    · exact Or.inr hc
  · cases hk : t.authKey with
    | none => simp [hk] at hkey
    | some k => exact ⟨k, rfl, by simpa [hk] using hkey⟩

theorem authDirect_sound (C : Crypto σ) (a : Auth σ) (h : authDirect C a = true) :
    OwnerSignedRequest C a := by
  unfold authDirect at h
  cases hv : a.vs with
  | key k =>
    simp only [hv, Bool.and_eq_true, beq_iff_eq] at h
    exact Or.inl ⟨k, hv, h.1, h.2⟩
  | other n =>
    simp only [hv] at h
    exact Or.inr ⟨fun k hk => (by rw [hv] at hk; cases hk), (by rw [hv]; exact h)⟩

end NeoFS.IRContainer
