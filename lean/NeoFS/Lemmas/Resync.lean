import NeoFS.Model.Resync
import NeoFS.Lemmas.MetaWF
import NeoFS.Lemmas.MetaCtr
import NeoFS.Props.C01
/-!
Lemmas about the metabase rebuild (`Model/Resync.lean`):

* `putChainNR` (put inside a transaction that is not rolled back) agrees with `Meta.putChain` on the error and,
  when the put succeeds, on the bucket;
* a batch / the whole rebuild is the sequential fold of `putObj` as long as no aborting error arises;
* buckets of different containers do not interact (`getCnr?` of the fold = the fold over that container's
  objects).
-/
namespace NeoFS.Resync
open NeoFS.Meta

/-! ### `putChainNR` versus `putChain` -/

theorem putKind_none_err (c1 : Cnr) (epoch level : Nat) (h : Hdr) (b : Bool) (e err : Err)
    (heq : putKind c1 epoch level h b e = (none, err)) : err ≠ .ok := by
  unfold putKind at heq
  simp only at heq
  cases hty : h.typ <;> rw [hty] at heq <;> simp only at heq
  · cases heq
  · split at heq; · cases heq; simp
    split at heq; · cases heq; simp
    split at heq; · cases heq; simp
    split at heq; · cases heq; simp
    cases heq
  · split at heq; · cases heq; simp
    split at heq; · cases heq; simp
    split at heq; · cases heq; simp
    cases heq
  · cases heq
  · split at heq
    · cases heq; simp
    · cases heq

/-- the error of `putSelf` does not depend on the bucket restored on failure; on success neither does the bucket -/
theorem putSelf_indep (c0 c0' c1 : Cnr) (epoch level : Nat) (h : Hdr) (b : Bool) (e : Err) :
    (putSelf c0 c1 epoch level h b e).2.2 = (putSelf c0' c1 epoch level h b e).2.2 ∧
    ((putSelf c0' c1 epoch level h b e).2.2 = .ok →
      (putSelf c0 c1 epoch level h b e).1 = (putSelf c0' c1 epoch level h b e).1) := by
  unfold putSelf
  split
  · exact ⟨rfl, fun _ => rfl⟩
  · rename_i err heq
    refine ⟨rfl, fun hok => ?_⟩
    exact absurd hok (putKind_none_err _ _ _ _ _ _ _ heq)

theorem putChainNR_spec (epoch : Nat) : ∀ (chain : List Hdr) (c : Cnr) (level : Nat),
    (putChainNR c epoch level chain).2 = (putChain c epoch level chain).2.2 ∧
    ((putChain c epoch level chain).2.2 = .ok →
      (putChainNR c epoch level chain).1 = (putChain c epoch level chain).1) := by
  intro chain
  induction chain with
  | nil => intro c level; simp [putChainNR, putChain]
  | cons hd parents ih =>
    intro c level
    unfold putChainNR putChain
    split
    · exact ⟨rfl, fun _ => rfl⟩
    · simp only
      split
      · exact ⟨rfl, fun _ => rfl⟩
      · split
        · exact ⟨rfl, fun _ => rfl⟩
        · split
          · exact ⟨rfl, fun _ => rfl⟩
          · cases parents with
            | nil =>
              simp only
              split
              · exact ⟨rfl, fun _ => rfl⟩
              · exact ⟨rfl, fun _ => rfl⟩
            | cons p rest =>
              simp only
              split
              · split
                · simp only
                  split
                  · exact ⟨rfl, fun h => by simp at h⟩
                  · exact ⟨rfl, fun _ => rfl⟩
                · have hp := ih c (level + 1)
                  simp only
                  rw [hp.1]
                  split
                  · rename_i hne
                    refine ⟨rfl, fun h => ?_⟩
                    simp at hne
                    exact absurd h hne
                  · rename_i hok
                    have hok' : (putChain c epoch (level + 1) (p :: rest)).2.2 = .ok := by simpa using hok
                    rw [hp.2 hok']
                    have := putSelf_indep (putChain c epoch (level + 1) (p :: rest)).1 c
                      (putChain c epoch (level + 1) (p :: rest)).1 epoch level hd (!(p :: rest).isEmpty)
                      (c.exists_ hd.id epoch false).2
                    exact ⟨this.1, this.2⟩
              · simp only
                split
                · exact ⟨rfl, fun _ => rfl⟩
                · exact ⟨rfl, fun _ => rfl⟩

/-- a chain without parent headers: nothing can be left behind, `putChainNR` is `putChain` -/
theorem putChainNR_single (c : Cnr) (epoch level : Nat) (h : Hdr) :
    putChainNR c epoch level [h] = ((putChain c epoch level [h]).1, (putChain c epoch level [h]).2.2) := by
  unfold putChainNR putChain
  split
  · rfl
  · simp only
    split
    · rfl
    · split
      · rfl
      · split
        · rfl
        · split <;> rfl

/-! ### batches and the whole rebuild as a sequential run -/

/-- the objects one after another; `none` as soon as an error arises that `PutBatch` does not skip -/
def runSeq (epoch : Nat) : DB → List Obj → Option DB
  | db, [] => some db
  | db, o :: rest =>
    let r := putObj db epoch o
    if r.2 == .ok || skippable r.2 then runSeq epoch r.1 rest else none

theorem putBatchGo_of_runSeq (epoch : Nat) (db0 : DB) : ∀ (objs : List Obj) (cur d : DB),
    runSeq epoch cur objs = some d → putBatchGo db0 epoch cur objs = (d, .ok) := by
  intro objs
  induction objs with
  | nil => intro cur d h; simp [runSeq] at h; simp [putBatchGo, h]
  | cons o rest ih =>
    intro cur d h
    unfold runSeq at h
    unfold putBatchGo
    simp only at h ⊢
    split
    · rename_i hc
      rw [if_pos hc] at h
      exact ih _ _ h
    · rename_i hc
      rw [if_neg hc] at h
      cases h

theorem runSeq_append (epoch : Nat) : ∀ (a b : List Obj) (db : DB),
    runSeq epoch db (a ++ b) = (runSeq epoch db a).bind fun d => runSeq epoch d b := by
  intro a
  induction a with
  | nil => intro b db; simp [runSeq]
  | cons o rest ih =>
    intro b db
    simp only [List.cons_append, runSeq]
    split
    · exact ih b _
    · rfl

theorem runSeq_fold (epoch : Nat) : ∀ (objs : List Obj) (db d : DB),
    runSeq epoch db objs = some d → d = objs.foldl (fun db o => (putObj db epoch o).1) db := by
  intro objs
  induction objs with
  | nil => intro db d h; simp [runSeq] at h; simp [h]
  | cons o rest ih =>
    intro db d h
    unfold runSeq at h
    simp only at h
    split at h
    · simpa using ih _ _ h
    · cases h

theorem flushAll_of_runSeq (bs epoch : Nat) (hbs : 1 ≤ bs) : ∀ (fuel : Nat) (objs : List Obj) (db d : DB),
    objs.length ≤ fuel → runSeq epoch db objs = some d → flushAll bs epoch fuel db objs = (d, .ok) := by
  intro fuel
  induction fuel with
  | zero =>
    intro objs db d hl h
    have : objs = [] := List.length_eq_zero_iff.mp (Nat.le_zero.mp hl)
    subst this
    simp [runSeq] at h
    simp [flushAll, h]
  | succ n ih =>
    intro objs db d hl h
    unfold flushAll
    split
    · rename_i he
      have : objs = [] := by simpa using he
      subst this
      simp [runSeq] at h
      simp [h]
    · rename_i hne
      have hsplit : objs = objs.take bs ++ objs.drop bs := (List.take_append_drop bs objs).symm
      rw [hsplit, runSeq_append] at h
      cases h1 : runSeq epoch db (objs.take bs) with
      | none => rw [h1] at h; simp at h
      | some d1 =>
        rw [h1] at h
        simp only [Option.bind_some] at h
        have hb : putBatch db epoch (objs.take bs) = (d1, .ok) := putBatchGo_of_runSeq epoch db _ _ _ h1
        simp only [hb]
        have hlen : (objs.drop bs).length ≤ n := by
          have hpos : 0 < objs.length := by
            cases objs with
            | nil => simp at hne
            | cons _ _ => simp
          rw [List.length_drop]; omega
        simpa using ih _ _ _ hlen h

/-- **No aborting error ⇒ batch boundaries do not matter**: the rebuild equals the sequential fold. -/
theorem resyncB_of_runSeq (bs epoch : Nat) (hbs : 1 ≤ bs) (order : List Obj) (d : DB)
    (h : runSeq epoch [] order = some d) :
    resyncB bs epoch order = (d, .ok) ∧ d = resyncFold epoch order :=
  ⟨flushAll_of_runSeq bs epoch hbs _ _ _ _ (Nat.le_refl _) h, runSeq_fold epoch _ _ _ h⟩

/-! ### incremental construction -/

/-- the objects a history of `DB.Put`s at one epoch accepts (what ends up stored), in history order -/
def acceptedBy (epoch : Nat) : DB → List Obj → List Obj
  | _, [] => []
  | db, o :: rest =>
    let r := dbPut db epoch o.1 o.2
    if r.2 == .ok then o :: acceptedBy epoch r.1 rest else acceptedBy epoch r.1 rest

/-- the state after the history of puts -/
def incremental (epoch : Nat) (db : DB) (objs : List Obj) : DB :=
  objs.foldl (fun db o => (dbPut db epoch o.1 o.2).1) db

theorem dbPut_refused (db : DB) (epoch cn : Nat) (chain : List Hdr) (h : (dbPut db epoch cn chain).2 ≠ .ok) :
    (dbPut db epoch cn chain).1 = db := by
  unfold dbPut at h ⊢
  simp only at h ⊢
  split
  · rename_i hok
    rw [if_pos hok] at h
    exact absurd rfl h
  · rfl

theorem putObj_of_dbPut_ok (db : DB) (epoch : Nat) (o : Obj) (h : (dbPut db epoch o.1 o.2).2 = .ok) :
    putObj db epoch o = ((dbPut db epoch o.1 o.2).1, .ok) := by
  have hs := putChainNR_spec epoch o.2 ((getCnr? db o.1).getD {}) 0
  unfold dbPut at h ⊢
  unfold putObj
  simp only at h ⊢
  by_cases hok : (putChain ((getCnr? db o.1).getD {}) epoch 0 o.2).2.2 = .ok
  · rw [hs.1, hok, hs.2 hok]
    simp
  · have : ((putChain ((getCnr? db o.1).getD {}) epoch 0 o.2).2.2 == Err.ok) = false := by simpa using hok
    rw [this] at h
    simp only [Bool.false_eq_true, if_false] at h
    exact absurd h hok

theorem runSeq_acceptedBy (epoch : Nat) : ∀ (objs : List Obj) (db : DB),
    runSeq epoch db (acceptedBy epoch db objs) = some (incremental epoch db objs) := by
  intro objs
  induction objs with
  | nil => intro db; simp [acceptedBy, runSeq, incremental]
  | cons o rest ih =>
    intro db
    unfold acceptedBy incremental
    simp only [List.foldl_cons]
    by_cases hok : (dbPut db epoch o.1 o.2).2 = .ok
    · have hb : ((dbPut db epoch o.1 o.2).2 == Err.ok) = true := by simp [hok]
      rw [if_pos hb]
      unfold runSeq
      simp only
      rw [putObj_of_dbPut_ok db epoch o hok]
      simp only [beq_self_eq_true, Bool.true_or, if_true]
      exact ih _
    · have hb : ((dbPut db epoch o.1 o.2).2 == Err.ok) = false := by simpa using hok
      rw [hb]
      simp only [Bool.false_eq_true, if_false]
      rw [dbPut_refused db epoch o.1 o.2 hok]
      exact ih _

/-! ### buckets of different containers do not interact -/

theorem getCnr_setCnr_same : ∀ (db : DB) (c : Nat) (v : Cnr), getCnr? (setCnr db c v) c = some v := by
  intro db c v
  induction db with
  | nil => simp [setCnr, getCnr?]
  | cons x xs ih =>
    unfold setCnr
    split
    · simp [getCnr?]
    · split
      · simp [getCnr?]
      · rename_i h1 h2
        have : (x.1 == c) = false := by
          simp only [beq_eq_false_iff_ne, ne_eq]; exact fun h => h2 h.symm
        unfold getCnr? at ih ⊢
        simp only [List.find?_cons, this]
        exact ih

theorem getCnr_setCnr_other : ∀ (db : DB) (c c' : Nat) (v : Cnr), c' ≠ c →
    getCnr? (setCnr db c v) c' = getCnr? db c' := by
  intro db c c' v hne
  induction db with
  | nil =>
    have : (c == c') = false := by simp only [beq_eq_false_iff_ne, ne_eq]; exact fun h => hne h.symm
    simp [setCnr, getCnr?, this]
  | cons x xs ih =>
    have hcc : (c == c') = false := by simp only [beq_eq_false_iff_ne, ne_eq]; exact fun h => hne h.symm
    unfold setCnr
    split
    · simp [getCnr?, hcc]
    · split
      · rename_i h1 h2
        have : (x.1 == c') = false := by
          simp only [beq_eq_false_iff_ne, ne_eq]; rw [← h2]; exact fun h => hne h.symm
        simp [getCnr?, hcc, this]
      · unfold getCnr? at ih ⊢
        simp only [List.find?_cons]
        split
        · rfl
        · exact ih

/-- what one object does to the bucket of its container -/
def stepC (epoch : Nat) (c : Cnr) (chain : List Hdr) : Cnr :=
  let r := putChainNR c epoch 0 chain
  if r.2 == .ok || skippable r.2 then r.1 else c

/-- the header chains of the objects of container `cn`, in order -/
def chainsOf (objs : List Obj) (cn : Nat) : List (List Hdr) := (objs.filter (·.1 == cn)).map (·.2)

theorem bucket_of_fold (epoch cn : Nat) : ∀ (objs : List Obj) (db : DB),
    (getCnr? (objs.foldl (fun db o => (putObj db epoch o).1) db) cn).getD {} =
      (chainsOf objs cn).foldl (stepC epoch) ((getCnr? db cn).getD {}) := by
  intro objs
  induction objs with
  | nil => intro db; simp [chainsOf]
  | cons o rest ih =>
    intro db
    simp only [List.foldl_cons]
    rw [ih]
    unfold chainsOf
    by_cases hc : o.1 = cn
    · have : (o.1 == cn) = true := by simp [hc]
      simp only [List.filter_cons, this, if_true, List.map_cons, List.foldl_cons]
      congr 1
      unfold putObj stepC
      simp only
      subst hc
      split
      · simp [getCnr_setCnr_same]
      · rfl
    · have : (o.1 == cn) = false := by simp [hc]
      simp only [List.filter_cons, this, Bool.false_eq_true, if_false]
      congr 2
      unfold putObj
      simp only
      split
      · rw [getCnr_setCnr_other _ _ _ _ (fun h => hc h.symm)]
      · rfl

/-! ### the fragment of the partial theorem

Within one container: unsplit objects of type regular / tombstone / lock with distinct non-zero ids, where
* the target of a tombstone or lock is never a tombstone or lock of the set (it is regular or not stored),
* no id is the target of both a tombstone and a lock,
* the target of a tombstone carries no expiration attribute.
-/

structure Plain (S : List Hdr) : Prop where
  hdr : ∀ h ∈ S, h.id ≠ 0 ∧ h.parentId = 0 ∧ h.firstId = 0 ∧ h.splitId = 0 ∧
    (h.typ = .regular ∨ ((h.typ = .tombstone ∨ h.typ = .lock) ∧ h.assoc ≠ 0))
  nodup : (S.map (·.id)).Nodup
  tgtReg : ∀ a ∈ S, (a.typ = .tombstone ∨ a.typ = .lock) → ∀ x ∈ S, x.id = a.assoc → x.typ = .regular
  tsNoExp : ∀ a ∈ S, a.typ = .tombstone → ∀ x ∈ S, x.id = a.assoc → x.exp = none
  noMix : ∀ a ∈ S, (a.typ = .tombstone ∨ a.typ = .lock) → ∀ x ∈ S, (x.typ = .tombstone ∨ x.typ = .lock) →
    x.assoc = a.assoc → x.typ = a.typ

theorem plain_of_plainSet (S : List Hdr) (h : plainSet S = true) : Plain S := by
  unfold plainSet at h
  simp only [Bool.and_eq_true, List.all_eq_true, decide_eq_true_eq] at h
  obtain ⟨⟨h1, h2⟩, h3⟩ := h
  have tk : ∀ a ∈ S, (a.typ = .tombstone ∨ a.typ = .lock) → ∀ x ∈ S,
      (x.id = a.assoc → x.typ = .regular ∧ (a.typ = .tombstone → x.exp = none)) ∧
      ((x.typ = .tombstone ∨ x.typ = .lock) → x.assoc = a.assoc → x.typ = a.typ) := by
    intro a ha hta x hx
    have h3a := h3 a ha
    have hb : (a.typ == OType.tombstone || a.typ == OType.lock) = true := by
      rcases hta with e | e <;> simp [e]
    rw [hb] at h3a
    simp only [Bool.not_true, Bool.false_or] at h3a
    unfold targetOK at h3a
    rw [List.all_eq_true] at h3a
    have hx3 := h3a x hx
    simp only [Bool.and_eq_true, Bool.or_eq_true, Bool.not_eq_true', beq_eq_false_iff_ne, ne_eq, beq_iff_eq,
      Option.isNone_iff_eq_none, Bool.and_eq_false_imp] at hx3
    obtain ⟨hA, hB⟩ := hx3
    constructor
    · intro hid
      rcases hA with hA | hA
      · exact absurd hid hA
      · refine ⟨hA.1, fun hts => ?_⟩
        rcases hA.2 with h' | h'
        · exact absurd hts h'
        · exact h'
    · intro hxt hxa
      rcases hB with hB | hB
      · exact absurd hxa (hB hxt)
      · exact hB
  refine ⟨?_, h2, ?_, ?_, ?_⟩
  · intro x hx
    have := h1 x hx
    unfold plainHdr at this
    simp only [Bool.and_eq_true, Bool.or_eq_true, bne_iff_ne, ne_eq, beq_iff_eq] at this
    obtain ⟨⟨⟨⟨a, b⟩, c⟩, d⟩, e⟩ := this
    exact ⟨a, b, c, d, e⟩
  · intro a ha hta x hx hid; exact ((tk a ha hta x hx).1 hid).1
  · intro a ha hta x hx hid; exact ((tk a ha (Or.inl hta) x hx).1 hid).2 hta
  · intro a ha hta x hx hxt hxa; exact (tk a ha hta x hx).2 hxt hxa

/-! ### the invariant of a rebuild inside the fragment

`S` is the whole set, `L` the objects met so far.  The bucket indexes only objects of `L` (as physical
objects), every tombstone and lock of `L` and every regular object of `L` that no tombstone of `S` targets;
the garbage keys are exactly the targets of the tombstones of `L`. -/

def targeted (S : List Hdr) (id : Nat) : Prop := ∃ t ∈ S, t.typ = .tombstone ∧ t.assoc = id

structure Inv (S L : List Hdr) (c : Cnr) : Prop where
  wf : c.WF
  nogc : c.gcMark = false
  r1 : ∀ r ∈ c.recs, ∃ h ∈ L, r = recOf h false true
  r2 : ∀ h ∈ L, (h.typ ≠ .regular ∨ ¬ targeted S h.id) → recOf h false true ∈ c.recs
  g : ∀ x, x ∈ c.garb ↔ (x.2 = false ∧ targeted L x.1)

theorem inv_empty (S : List Hdr) : Inv S [] {} := by
  refine ⟨wf_empty, rfl, ?_, ?_, ?_⟩
  · intro r hr; cases hr
  · intro h hh; cases hh
  · intro x
    constructor
    · intro hx; cases hx
    · rintro ⟨_, t, ht, _⟩; cases ht

section facts
variable {S L : List Hdr} {c : Cnr}

theorem Inv.tomb_iff (inv : Inv S L c) (id : Nat) : Ref.tombstoned c id = true ↔ targeted L id := by
  unfold Ref.tombstoned targeted
  rw [List.any_eq_true]
  constructor
  · rintro ⟨r, hr, hp⟩
    obtain ⟨x, hx, rfl⟩ := inv.r1 r hr
    simp only [recOf, Bool.and_eq_true, beq_iff_eq] at hp
    exact ⟨x, hx, hp.1, hp.2⟩
  · rintro ⟨t, ht, hty, hta⟩
    refine ⟨recOf t false true, inv.r2 t ht (Or.inl (by rw [hty]; decide)), ?_⟩
    simp [recOf, hty, hta]

theorem Inv.marked_iff (inv : Inv S L c) (id : Nat) : Ref.marked c id = true ↔ targeted L id := by
  unfold Ref.marked
  rw [List.any_eq_true]
  constructor
  · rintro ⟨x, hx, hp⟩
    simp only [Bool.and_eq_true, beq_iff_eq, Bool.not_eq_true'] at hp
    have := ((inv.g x).mp hx).2
    rw [hp.1] at this
    exact this
  · intro ht
    refine ⟨(id, false), (inv.g (id, false)).mpr ⟨rfl, ht⟩, by simp⟩

theorem Inv.lock_of_liveLock (inv : Inv S L c) (epoch id : Nat) (h : Ref.liveLock c epoch id = true) :
    ∃ l ∈ L, l.typ = .lock ∧ l.assoc = id := by
  unfold Ref.liveLock at h
  rw [List.any_eq_true] at h
  obtain ⟨r, hr, hp⟩ := h
  obtain ⟨x, hx, rfl⟩ := inv.r1 r hr
  simp only [recOf, Bool.and_eq_true, beq_iff_eq] at hp
  exact ⟨x, hx, hp.1.1.1.1, hp.1.1.1.2⟩

theorem Inv.find_some (inv : Inv S L c) (id : Nat) (r : Rec) (h : c.find? id = some r) :
    ∃ x ∈ L, r = recOf x false true ∧ x.id = id := by
  have hm : r ∈ c.recs := List.mem_of_find?_eq_some h
  have hid : r.id = id := by
    have := List.find?_some h; simpa using this
  obtain ⟨x, hx, rfl⟩ := inv.r1 r hm
  exact ⟨x, hx, rfl, hid⟩

theorem Inv.parentOf_zero (inv : Inv S L c) (hp : Plain S) (hL : ∀ x ∈ L, x ∈ S) (id : Nat) :
    Ref.parentOf c id = 0 := by
  unfold Ref.parentOf
  cases hf : c.find? id with
  | none => rfl
  | some r =>
    obtain ⟨x, hx, rfl, _⟩ := inv.find_some id r hf
    obtain ⟨_, h2, h3, h4, _⟩ := hp.hdr x (hL x hx)
    simp [recOf, h2, h3, h4]

theorem Inv.status_own (inv : Inv S L c) (hp : Plain S) (hL : ∀ x ∈ L, x ∈ S) (epoch id : Nat) :
    c.status epoch id = Ref.ownStatus c epoch id := by
  rw [status_eq_ref c inv.wf]
  unfold Ref.status
  simp [inv.parentOf_zero hp hL id]

theorem Inv.find_none_of_fresh (inv : Inv S L c) (id : Nat) (hnew : ∀ x ∈ L, x.id ≠ id) : c.find? id = none := by
  unfold Cnr.find?
  rw [List.find?_eq_none]
  intro r hr
  obtain ⟨x, hx, rfl⟩ := inv.r1 r hr
  simpa [recOf] using hnew x hx

theorem Inv.ref_status_own (inv : Inv S L c) (hp : Plain S) (hL : ∀ x ∈ L, x ∈ S) (epoch id : Nat) :
    Ref.status c epoch id = Ref.ownStatus c epoch id := by
  unfold Ref.status
  simp [inv.parentOf_zero hp hL id]

theorem targeted_cons_of_not_ts (h : Hdr) (hnt : h.typ ≠ .tombstone) (id : Nat) :
    targeted (h :: L) id ↔ targeted L id := by
  unfold targeted
  constructor
  · rintro ⟨t, ht, hty, hta⟩
    rcases List.mem_cons.mp ht with rfl | ht
    · exact absurd hty hnt
    · exact ⟨t, ht, hty, hta⟩
  · rintro ⟨t, ht, hty, hta⟩
    exact ⟨t, List.mem_cons_of_mem _ ht, hty, hta⟩

/-- an object met after its tombstone is refused: nothing changes -/
theorem Inv.skip (inv : Inv S L c) (h : Hdr) (hreg : h.typ = .regular) (ht : targeted S h.id) :
    Inv S (h :: L) c := by
  refine ⟨inv.wf, inv.nogc, ?_, ?_, ?_⟩
  · intro r hr
    obtain ⟨x, hx, e⟩ := inv.r1 r hr
    exact ⟨x, List.mem_cons_of_mem _ hx, e⟩
  · intro x hx hc
    rcases List.mem_cons.mp hx with rfl | hx
    · rcases hc with hc | hc
      · exact absurd hreg hc
      · exact absurd ht hc
    · exact inv.r2 x hx hc
  · intro x
    rw [inv.g x, targeted_cons_of_not_ts h (by rw [hreg]; decide)]

/-- an accepted object: its record is added (as a physical object), the garbage keys become `c'.garb` -/
theorem Inv.insert (inv : Inv S L c) (h : Hdr) (hnew : ∀ x ∈ L, x.id ≠ h.id) (c' : Cnr)
    (hrecs : c'.recs = insertRec (recOf h false true) c.recs) (hgc : c'.gcMark = false)
    (hgs : GarbSorted c'.garb) (hgarb : ∀ x, x ∈ c'.garb ↔ (x.2 = false ∧ targeted (h :: L) x.1)) :
    Inv S (h :: L) c' := by
  have hfresh : ∀ x ∈ c.recs, x.id ≠ (recOf h false true).id := by
    intro r hr
    obtain ⟨x, hx, rfl⟩ := inv.r1 r hr
    simpa [recOf] using hnew x hx
  have hmem := mem_insertRec_new (recOf h false true) c.recs hfresh
  refine ⟨⟨?_, hgs⟩, hgc, ?_, ?_, hgarb⟩
  · rw [hrecs]; exact insertRec_sorted _ _ inv.wf.recs
  · intro r hr
    rw [hrecs, hmem] at hr
    rcases hr with rfl | hr
    · exact ⟨h, List.mem_cons_self, rfl⟩
    · obtain ⟨x, hx, e⟩ := inv.r1 r hr
      exact ⟨x, List.mem_cons_of_mem _ hx, e⟩
  · intro x hx hc
    rw [hrecs, hmem]
    rcases List.mem_cons.mp hx with rfl | hx
    · exact Or.inl rfl
    · exact Or.inr (inv.r2 x hx hc)

end facts

/-! ### one put inside the fragment -/

theorem putChain_single_of_exists (c : Cnr) (epoch : Nat) (h : Hdr) (hg : c.gcMark = false)
    (hex : c.exists_ h.id epoch false = (false, .ok)) :
    putChain c epoch 0 [h] = putSelf c c epoch 0 h false .ok := by
  unfold putChain
  simp [hg, hex]

theorem putChain_single_removed (c : Cnr) (epoch : Nat) (h : Hdr) (hg : c.gcMark = false)
    (hex : c.exists_ h.id epoch false = (false, .alreadyRemoved)) :
    putChain c epoch 0 [h] = (c, {}, .alreadyRemoved) := by
  unfold putChain
  simp [hg, hex]

theorem putSelf_of_putKind (c0 c1 c2 : Cnr) (epoch : Nat) (h : Hdr) (d : Diff) (e : Err)
    (hk : putKind c1 epoch 0 h false e = (some (c2, d), .ok)) :
    putSelf c0 c1 epoch 0 h false e =
      ({ c2 with ctr := c2.ctr.apply d, recs := insertRec (recOf h false true) c2.recs }, d, .ok) := by
  unfold putSelf
  rw [hk]
  rfl

theorem putKind_regular_ok (c : Cnr) (epoch : Nat) (h : Hdr) (hty : h.typ = .regular) :
    ∃ d, putKind c epoch 0 h false .ok = (some (c, d), .ok) := by
  unfold putKind
  rw [hty]
  exact ⟨_, rfl⟩

theorem putKind_lock_ok (c : Cnr) (epoch : Nat) (h : Hdr) (hty : h.typ = .lock) (ha : (h.assoc == 0) = false)
    (htt : ((c.typeOf h.assoc).isSome && c.typeOf h.assoc != some .regular) = false)
    (hst : (c.status epoch h.assoc == .tombstoned || c.inGarbage h.assoc == .tombstoned) = false) :
    ∃ d, putKind c epoch 0 h false .ok = (some (c, d), .ok) := by
  unfold putKind
  rw [hty]
  simp only [ha, htt, hst, Bool.false_eq_true, if_false]
  exact ⟨_, rfl⟩

theorem putKind_ts_ok (c : Cnr) (epoch : Nat) (h : Hdr) (hty : h.typ = .tombstone) (ha : (h.assoc == 0) = false)
    (h1 : (c.typeOf h.assoc == some .tombstone) = false) (h2 : (c.typeOf h.assoc == some .lock) = false)
    (h3 : c.objectLocked epoch h.assoc = false) :
    ∃ d, putKind c epoch 0 h false .ok =
      (some ({ c with garb := (c.tombstoneMarks epoch h.assoc).1 }, d), .ok) := by
  unfold putKind
  rw [hty]
  simp only [ha, h1, h2, h3, Bool.false_eq_true, if_false]
  exact ⟨_, rfl⟩

theorem tombstoneMarks_fst_nochildren (c : Cnr) (epoch t : Nat) (hc : c.collectChildren 4 t = []) :
    (c.tombstoneMarks epoch t).1 = insertGarb (t, false) c.garb := by
  unfold Cnr.tombstoneMarks
  rw [hc]
  simp only [List.nil_append, List.foldl_cons, List.foldl_nil]
  rfl

theorem collectChildren_nil_of_no_children (c : Cnr) (t : Nat) (h : ∀ r ∈ c.recs, r.parentId ≠ t) :
    c.collectChildren 4 t = [] := by
  have hf : c.recs.filter (·.parentId == t) = [] := by
    rw [List.filter_eq_nil_iff]
    intro r hr
    simpa using h r hr
  have hpi : c.parentInfo t = .none := by
    unfold Cnr.parentInfo
    simp [hf]
  unfold Cnr.collectChildren
  rw [hpi]

theorem mem_insertGarb_imp (g : Nat × Bool) : ∀ (l : List (Nat × Bool)) (x : Nat × Bool),
    x ∈ insertGarb g l → x = g ∨ x ∈ l := by
  intro l
  induction l with
  | nil => intro x h; simp [insertGarb] at h; exact Or.inl h
  | cons y ys ih =>
    intro x h
    unfold insertGarb at h
    split at h
    · rcases List.mem_cons.mp h with h | h
      · exact Or.inl h
      · exact Or.inr h
    · split at h
      · rcases List.mem_cons.mp h with h | h
        · exact Or.inl h
        · exact Or.inr (List.mem_cons_of_mem _ h)
      · rcases List.mem_cons.mp h with h | h
        · exact Or.inr (by rw [h]; exact List.mem_cons_self)
        · rcases ih x h with h | h
          · exact Or.inl h
          · exact Or.inr (List.mem_cons_of_mem _ h)

theorem mem_insertGarb_self (g : Nat × Bool) : ∀ (l : List (Nat × Bool)), g ∈ insertGarb g l := by
  intro l
  induction l with
  | nil => simp [insertGarb]
  | cons y ys ih =>
    unfold insertGarb
    split
    · exact List.mem_cons_self
    · split
      · exact List.mem_cons_self
      · exact List.mem_cons_of_mem _ ih

theorem mem_insertGarb_of_mem (g : Nat × Bool) : ∀ (l : List (Nat × Bool)) (x : Nat × Bool),
    x ∈ l → x.1 ≠ g.1 → x ∈ insertGarb g l := by
  intro l
  induction l with
  | nil => intro x h; cases h
  | cons y ys ih =>
    intro x h hne
    unfold insertGarb
    split
    · exact List.mem_cons_of_mem _ h
    · split
      · rename_i _ heq
        rcases List.mem_cons.mp h with rfl | h
        · exact absurd heq.symm hne
        · exact List.mem_cons_of_mem _ h
      · rcases List.mem_cons.mp h with rfl | h
        · exact List.mem_cons_self
        · exact List.mem_cons_of_mem _ (ih x h hne)

/-- **One object of the fragment keeps the invariant** (whatever was met before it). -/
theorem Inv.step {S L : List Hdr} {c : Cnr} (hp : Plain S) (hL : ∀ x ∈ L, x ∈ S) (inv : Inv S L c)
    (epoch : Nat) (h : Hdr) (hh : h ∈ S) (hnew : ∀ x ∈ L, x.id ≠ h.id) :
    ((putChainNR c epoch 0 [h]).2 = .ok ∨ (putChainNR c epoch 0 [h]).2 = .alreadyRemoved) ∧
      Inv S (h :: L) (stepC epoch c [h]) := by
  have hfn := inv.find_none_of_fresh h.id hnew
  have hexp : Ref.ownExpired c epoch h.id = false := by unfold Ref.ownExpired; rw [hfn]
  have htyp : c.typeOf h.id = none := by unfold Cnr.typeOf; rw [hfn]; rfl
  have hex := exists_follows_ref c inv.wf epoch h.id inv.nogc
  rw [inv.ref_status_own hp hL] at hex
  obtain ⟨hid0, hpar0, hfir0, hspl0, hkind⟩ := hp.hdr h hh
  have hstep : ∀ c', (putChain c epoch 0 [h]).1 = c' → (putChain c epoch 0 [h]).2.2 = .ok ∨
      (putChain c epoch 0 [h]).2.2 = .alreadyRemoved → stepC epoch c [h] = c' ∧
        ((putChainNR c epoch 0 [h]).2 = .ok ∨ (putChainNR c epoch 0 [h]).2 = .alreadyRemoved) := by
    intro c' h1 h2
    refine ⟨?_, by rw [putChainNR_single]; exact h2⟩
    unfold stepC
    rw [putChainNR_single]
    simp only
    rcases h2 with h2 | h2 <;> rw [h2, h1] <;> simp [skippable]
  -- a tombstone / lock id is never a target: available, not indexed
  have havail : (h.typ = .tombstone ∨ h.typ = .lock) → c.exists_ h.id epoch false = (false, .ok) := by
    intro hta
    have hnt : ¬ targeted L h.id := by
      rintro ⟨t, ht, hty, hta'⟩
      have := hp.tgtReg t (hL t ht) (Or.inl hty) h hh hta'.symm
      rcases hta with e | e <;> rw [e] at this <;> cases this
    have htomb : Ref.tombstoned c h.id = false := by
      cases hb : Ref.tombstoned c h.id
      · rfl
      · exact absurd ((inv.tomb_iff h.id).mp hb) hnt
    have hmark : Ref.marked c h.id = false := by
      cases hb : Ref.marked c h.id
      · rfl
      · exact absurd ((inv.marked_iff h.id).mp hb) hnt
    have : Ref.ownStatus c epoch h.id = .available := by
      unfold Ref.ownStatus; simp [hexp, htomb, hmark]
    rw [this, htyp] at hex
    simpa using hex
  -- the records of the bucket carry no parent reference
  have hnopar : ∀ t, t ≠ 0 → ∀ r ∈ c.recs, r.parentId ≠ t := by
    intro t ht r hr
    obtain ⟨x, hx, rfl⟩ := inv.r1 r hr
    have := (hp.hdr x (hL x hx)).2.1
    simp only [recOf, this]
    exact fun e => ht e.symm
  rcases hkind with hreg | ⟨hta, hassoc⟩
  · -- a regular object
    by_cases ht : targeted L h.id
    · -- met after its tombstone: refused as already removed
      have htS : targeted S h.id := by
        obtain ⟨t, ht1, ht2, ht3⟩ := ht
        exact ⟨t, hL t ht1, ht2, ht3⟩
      have htomb : Ref.tombstoned c h.id = true := (inv.tomb_iff h.id).mpr ht
      have hlock : Ref.liveLock c epoch h.id = false := by
        cases hb : Ref.liveLock c epoch h.id
        · rfl
        · obtain ⟨l, hl1, hl2, hl3⟩ := inv.lock_of_liveLock epoch h.id hb
          obtain ⟨t, ht1, ht2, ht3⟩ := ht
          have := hp.noMix t (hL t ht1) (Or.inl ht2) l (hL l hl1) (Or.inr hl2) (by rw [hl3, ht3])
          rw [hl2, ht2] at this
          cases this
      have : Ref.ownStatus c epoch h.id = .tombstoned := by
        unfold Ref.ownStatus; simp [hexp, htomb, hlock]
      rw [this] at hex
      have hpc := putChain_single_removed c epoch h inv.nogc (by simpa using hex)
      obtain ⟨hs1, hs2⟩ := hstep c (by rw [hpc]) (Or.inr (by rw [hpc]))
      rw [hs1]
      exact ⟨hs2, inv.skip h hreg htS⟩
    · have htomb : Ref.tombstoned c h.id = false := by
        cases hb : Ref.tombstoned c h.id
        · rfl
        · exact absurd ((inv.tomb_iff h.id).mp hb) ht
      have hmark : Ref.marked c h.id = false := by
        cases hb : Ref.marked c h.id
        · rfl
        · exact absurd ((inv.marked_iff h.id).mp hb) ht
      have : Ref.ownStatus c epoch h.id = .available := by
        unfold Ref.ownStatus; simp [hexp, htomb, hmark]
      rw [this, htyp] at hex
      have hpc := putChain_single_of_exists c epoch h inv.nogc (by simpa using hex)
      obtain ⟨d, hk⟩ := putKind_regular_ok c epoch h hreg
      rw [putSelf_of_putKind c c c epoch h d .ok hk] at hpc
      obtain ⟨hs1, hs2⟩ := hstep _ (by rw [hpc]) (Or.inl (by rw [hpc]))
      rw [hs1]
      refine ⟨hs2, ?_⟩
      refine inv.insert h hnew _ rfl inv.nogc inv.wf.garb ?_
      intro x
      rw [inv.g x, targeted_cons_of_not_ts h (by rw [hreg]; decide)]
  · have hpc := putChain_single_of_exists c epoch h inv.nogc (havail hta)
    have ha0 : (h.assoc == 0) = false := by simpa using hassoc
    -- the target, if indexed, is a regular object
    have htgt : ∀ ty, c.typeOf h.assoc = some ty → ty = .regular := by
      intro ty hty
      unfold Cnr.typeOf at hty
      cases hf : c.find? h.assoc with
      | none => rw [hf] at hty; cases hty
      | some r =>
        rw [hf] at hty
        obtain ⟨x, hx, rfl, hxid⟩ := inv.find_some h.assoc r hf
        have := hp.tgtReg h hh hta x (hL x hx) hxid
        simp only [Option.map_some, recOf, Option.some.injEq] at hty
        rw [← hty, this]
    rcases hta with hts | hlk
    · -- a tombstone: its target is not locked; the target (alone) gets a garbage key
      have h1 : (c.typeOf h.assoc == some .tombstone) = false := by
        cases hty : c.typeOf h.assoc with
        | none => rfl
        | some ty => rw [htgt ty hty]; rfl
      have h2 : (c.typeOf h.assoc == some .lock) = false := by
        cases hty : c.typeOf h.assoc with
        | none => rfl
        | some ty => rw [htgt ty hty]; rfl
      have h3 : c.objectLocked epoch h.assoc = false := by
        rw [objectLocked_ref c inv.wf]
        cases hb : Ref.liveLock c epoch h.assoc
        · rfl
        · obtain ⟨l, hl1, hl2, hl3⟩ := inv.lock_of_liveLock epoch h.assoc hb
          have := hp.noMix h hh (Or.inl hts) l (hL l hl1) (Or.inr hl2) hl3
          rw [hl2, hts] at this
          cases this
      obtain ⟨d, hk⟩ := putKind_ts_ok c epoch h hts ha0 h1 h2 h3
      rw [putSelf_of_putKind c c _ epoch h d .ok hk] at hpc
      obtain ⟨hs1, hs2⟩ := hstep _ (by rw [hpc]) (Or.inl (by rw [hpc]))
      rw [hs1]
      refine ⟨hs2, ?_⟩
      have hm := tombstoneMarks_fst_nochildren c epoch h.assoc
        (collectChildren_nil_of_no_children c h.assoc (hnopar h.assoc hassoc))
      refine inv.insert h hnew _ rfl inv.nogc ?_ ?_
      · simp only [hm]; exact insertGarb_sorted _ _ inv.wf.garb
      · intro x
        simp only [hm]
        constructor
        · intro hx
          rcases mem_insertGarb_imp _ _ _ hx with rfl | hx
          · exact ⟨rfl, h, List.mem_cons_self, hts, rfl⟩
          · obtain ⟨hf, t, ht1, ht2, ht3⟩ := (inv.g x).mp hx
            exact ⟨hf, t, List.mem_cons_of_mem _ ht1, ht2, ht3⟩
        · rintro ⟨hf, t, ht1, ht2, ht3⟩
          by_cases hxa : x.1 = h.assoc
          · have : x = (h.assoc, false) := by
              cases x; simp only at hf hxa; rw [hf, hxa]
            rw [this]; exact mem_insertGarb_self _ _
          · rcases List.mem_cons.mp ht1 with rfl | ht1
            · exact absurd ht3.symm hxa
            · exact mem_insertGarb_of_mem _ _ _ ((inv.g x).mpr ⟨hf, t, ht1, ht2, ht3⟩) hxa
    · -- a lock: its target is not removed
      have htt : ((c.typeOf h.assoc).isSome && c.typeOf h.assoc != some .regular) = false := by
        cases hty : c.typeOf h.assoc with
        | none => rfl
        | some ty => rw [htgt ty hty]; rfl
      have hnt : ¬ targeted L h.assoc := by
        rintro ⟨t, ht1, ht2, ht3⟩
        have := hp.noMix h hh (Or.inr hlk) t (hL t ht1) (Or.inl ht2) ht3
        rw [ht2, hlk] at this
        cases this
      have htomb : Ref.tombstoned c h.assoc = false := by
        cases hb : Ref.tombstoned c h.assoc
        · rfl
        · exact absurd ((inv.tomb_iff h.assoc).mp hb) hnt
      have hst : (c.status epoch h.assoc == .tombstoned || c.inGarbage h.assoc == .tombstoned) = false := by
        rw [inv.status_own hp hL, inGarbage_ref c inv.wf, htomb]
        unfold Ref.ownStatus
        rw [htomb]
        cases Ref.ownExpired c epoch h.assoc <;> cases Ref.liveLock c epoch h.assoc <;>
          cases Ref.marked c h.assoc <;> simp
      obtain ⟨d, hk⟩ := putKind_lock_ok c epoch h hlk ha0 htt hst
      rw [putSelf_of_putKind c c c epoch h d .ok hk] at hpc
      obtain ⟨hs1, hs2⟩ := hstep _ (by rw [hpc]) (Or.inl (by rw [hpc]))
      rw [hs1]
      refine ⟨hs2, ?_⟩
      refine inv.insert h hnew _ rfl inv.nogc inv.wf.garb ?_
      intro x
      rw [inv.g x, targeted_cons_of_not_ts h (by rw [hlk]; decide)]

theorem Inv.congr {S L L' : List Hdr} {c : Cnr} (h : ∀ x, x ∈ L ↔ x ∈ L') (inv : Inv S L c) : Inv S L' c := by
  have ht : ∀ id, targeted L id ↔ targeted L' id := by
    intro id
    unfold targeted
    constructor
    · rintro ⟨t, h1, h2⟩; exact ⟨t, (h t).mp h1, h2⟩
    · rintro ⟨t, h1, h2⟩; exact ⟨t, (h t).mpr h1, h2⟩
  refine ⟨inv.wf, inv.nogc, ?_, ?_, ?_⟩
  · intro r hr
    obtain ⟨x, hx, e⟩ := inv.r1 r hr
    exact ⟨x, (h x).mp hx, e⟩
  · intro x hx hc
    exact inv.r2 x ((h x).mpr hx) hc
  · intro x
    rw [inv.g x, ht]

/-- **Any order of a set of the fragment keeps the invariant**: after the objects `rest` (ids distinct from
each other and from the ones met before) the bucket indexes what the invariant says for `rest ++ L`; none of
the puts aborts. -/
theorem Inv.fold {S : List Hdr} (hp : Plain S) (epoch : Nat) : ∀ (rest L : List Hdr) (c : Cnr),
    (∀ x ∈ L, x ∈ S) → (∀ x ∈ rest, x ∈ S) → (rest ++ L).Pairwise (fun a b => a.id ≠ b.id) → Inv S L c →
    Inv S (rest.reverse ++ L) ((rest.map fun h => [h]).foldl (stepC epoch) c) := by
  intro rest
  induction rest with
  | nil => intro L c _ _ _ inv; simpa using inv
  | cons h rest ih =>
    intro L c hL hR hpw inv
    simp only [List.map_cons, List.foldl_cons, List.reverse_cons, List.append_assoc, List.singleton_append]
    have hpw' : (h :: (rest ++ L)).Pairwise (fun a b => a.id ≠ b.id) := by simpa using hpw
    rw [List.pairwise_cons] at hpw'
    have hnew : ∀ x ∈ L, x.id ≠ h.id := fun x hx => fun e => hpw'.1 x (List.mem_append_right _ hx) e.symm
    have hstep := (inv.step hp hL epoch h (hR h List.mem_cons_self) hnew).2
    apply ih (h :: L) _ _ (fun x hx => hR x (List.mem_cons_of_mem _ hx)) _ hstep
    · intro x hx
      rcases List.mem_cons.mp hx with rfl | hx
      · exact hR _ List.mem_cons_self
      · exact hL x hx
    · have hperm : (h :: (rest ++ L)).Perm (rest ++ h :: L) := List.perm_middle.symm
      exact (hperm.pairwise_iff (fun {a b} (hab : a.id ≠ b.id) => fun e => hab e.symm)).mp
        (List.pairwise_cons.mpr hpw')

/-! ### what a bucket that met the whole set answers (independent of the order) -/

section final
variable {S : List Hdr} {c : Cnr}

theorem Inv.liveLock_iff (inv : Inv S S c) (hp : Plain S) (epoch id : Nat) :
    Ref.liveLock c epoch id = true ↔
      ∃ l ∈ S, l.typ = .lock ∧ l.assoc = id ∧ (!(decide (epoch > 0) && Ref.expiredAt (recOf l false true) epoch)) = true := by
  unfold Ref.liveLock
  rw [List.any_eq_true]
  constructor
  · rintro ⟨r, hr, hpr⟩
    obtain ⟨x, hx, rfl⟩ := inv.r1 r hr
    simp only [Bool.and_eq_true, beq_iff_eq] at hpr
    exact ⟨x, hx, hpr.1.1.1.1, hpr.1.1.1.2, hpr.1.1.2⟩
  · rintro ⟨l, hl, hty, hta, hexp⟩
    have hnt : ¬ targeted S l.id := by
      rintro ⟨t, ht, hty', hta'⟩
      have := hp.tgtReg t ht (Or.inl hty') l hl hta'.symm
      rw [hty] at this; cases this
    have htomb : Ref.tombstoned c (recOf l false true).id = false := by
      cases hb : Ref.tombstoned c (recOf l false true).id
      · rfl
      · exact absurd ((inv.tomb_iff _).mp hb) hnt
    have hmark : Ref.marked c (recOf l false true).id = false := by
      cases hb : Ref.marked c (recOf l false true).id
      · rfl
      · exact absurd ((inv.marked_iff _).mp hb) hnt
    refine ⟨recOf l false true, inv.r2 l hl (Or.inl (by rw [hty]; decide)), ?_⟩
    rw [htomb, hmark, hexp]
    simp [recOf, hty, hta]

theorem Inv.ownExpired_iff (inv : Inv S S c) (hp : Plain S) (epoch id : Nat) :
    Ref.ownExpired c epoch id = true ↔ ∃ h ∈ S, h.id = id ∧ Ref.expiredAt (recOf h false true) epoch = true := by
  unfold Ref.ownExpired
  constructor
  · intro h
    cases hf : c.find? id with
    | none => rw [hf] at h; cases h
    | some r =>
      rw [hf] at h
      obtain ⟨x, hx, rfl, hxid⟩ := inv.find_some id r hf
      exact ⟨x, hx, hxid, h⟩
  · rintro ⟨h, hh, hid, hexp⟩
    have hnt : ¬ targeted S h.id := by
      rintro ⟨t, ht, hty, hta⟩
      have := hp.tsNoExp t ht hty h hh hta.symm
      unfold Ref.expiredAt at hexp
      simp [recOf, this] at hexp
    have hm := inv.r2 h hh (Or.inr hnt)
    have hf : c.find? id = some (recOf h false true) := by
      have := find_of_mem c.recs inv.wf.recs _ hm
      rw [← hid]; exact this
    rw [hf]; exact hexp

theorem Inv.typeOf_isSome_iff (inv : Inv S S c) (hp : Plain S) (epoch id : Nat)
    (hav : c.status epoch id = .available) : (c.typeOf id).isSome = true ↔ ∃ x ∈ S, x.id = id := by
  unfold Cnr.typeOf
  rw [Option.isSome_map]
  constructor
  · intro h
    cases hf : c.find? id with
    | none => rw [hf] at h; cases h
    | some r =>
      obtain ⟨x, hx, _, hxid⟩ := inv.find_some id r hf
      exact ⟨x, hx, hxid⟩
  · rintro ⟨x, hx, hxid⟩
    by_cases hc : x.typ ≠ .regular ∨ ¬ targeted S x.id
    · have hm := inv.r2 x hx hc
      have := find_of_mem c.recs inv.wf.recs _ hm
      have hf : c.find? id = some (recOf x false true) := by rw [← hxid]; exact this
      rw [hf]; rfl
    · -- a regular object under a tombstone: removed, not available
      exfalso
      have hc1 : targeted S x.id := by
        by_cases h : targeted S x.id
        · exact h
        · exact absurd (Or.inr h) hc
      rw [hxid] at hc1
      rw [inv.status_own hp (fun _ h => h)] at hav
      have htomb : Ref.tombstoned c id = true := (inv.tomb_iff id).mpr hc1
      have hlock : Ref.liveLock c epoch id = false := by
        cases hb : Ref.liveLock c epoch id
        · rfl
        · obtain ⟨l, hl1, hl2, hl3⟩ := inv.lock_of_liveLock epoch id hb
          obtain ⟨t, ht1, ht2, ht3⟩ := hc1
          have := hp.noMix t ht1 (Or.inl ht2) l hl1 (Or.inr hl2) (by rw [hl3, ht3])
          rw [hl2, ht2] at this
          cases this
      have hexp : Ref.ownExpired c epoch id = false := by
        cases hb : Ref.ownExpired c epoch id
        · rfl
        · obtain ⟨h, hh, hid, he⟩ := (inv.ownExpired_iff hp epoch id).mp hb
          obtain ⟨t, ht1, ht2, ht3⟩ := hc1
          have := hp.tsNoExp t ht1 ht2 h hh (by rw [hid, ht3])
          unfold Ref.expiredAt at he
          simp [recOf, this] at he
      unfold Ref.ownStatus at hav
      simp [htomb, hlock, hexp] at hav

theorem Inv.parentInfo_none (inv : Inv S S c) (hp : Plain S) (id : Nat) (hid : id ≠ 0) :
    c.parentInfo id = .none := by
  have hf : c.recs.filter (·.parentId == id) = [] := by
    rw [List.filter_eq_nil_iff]
    intro r hr
    obtain ⟨x, hx, rfl⟩ := inv.r1 r hr
    have := (hp.hdr x hx).2.1
    simp only [recOf, this, beq_iff_eq]
    exact fun e => hid e.symm
  unfold Cnr.parentInfo
  simp [hf]

end final

/-- **Two buckets that met the same set of the fragment answer alike**: `Exists` and `IsLocked` of every
non-zero id at every epoch. -/
theorem plain_views_eq {S : List Hdr} {c c' : Cnr} (hp : Plain S) (inv : Inv S S c) (inv' : Inv S S c')
    (epoch id : Nat) (hid : id ≠ 0) :
    c.exists_ id epoch true = c'.exists_ id epoch true ∧ c.objectLocked epoch id = c'.objectLocked epoch id := by
  have hT : Ref.tombstoned c id = Ref.tombstoned c' id :=
    Bool.eq_iff_iff.mpr ((inv.tomb_iff id).trans (inv'.tomb_iff id).symm)
  have hM : Ref.marked c id = Ref.marked c' id :=
    Bool.eq_iff_iff.mpr ((inv.marked_iff id).trans (inv'.marked_iff id).symm)
  have hLk : Ref.liveLock c epoch id = Ref.liveLock c' epoch id :=
    Bool.eq_iff_iff.mpr ((inv.liveLock_iff hp epoch id).trans (inv'.liveLock_iff hp epoch id).symm)
  have hE : Ref.ownExpired c epoch id = Ref.ownExpired c' epoch id :=
    Bool.eq_iff_iff.mpr ((inv.ownExpired_iff hp epoch id).trans (inv'.ownExpired_iff hp epoch id).symm)
  have hst : c.status epoch id = c'.status epoch id := by
    rw [inv.status_own hp (fun _ h => h), inv'.status_own hp (fun _ h => h)]
    unfold Ref.ownStatus
    rw [hT, hM, hLk, hE]
  refine ⟨?_, by rw [objectLocked_ref c inv.wf, objectLocked_ref c' inv'.wf, hLk]⟩
  unfold Cnr.exists_
  rw [inv.nogc, inv'.nogc, hst]
  cases hs : c'.status epoch id <;> simp only [Bool.false_eq_true, if_false]
  rw [inv.parentInfo_none hp id hid, inv'.parentInfo_none hp id hid]
  simp only [if_true]
  have h1 := inv.typeOf_isSome_iff hp epoch id (by rw [hst]; exact hs)
  have h2 := inv'.typeOf_isSome_iff hp epoch id hs
  have : (c.typeOf id).isSome = (c'.typeOf id).isSome := Bool.eq_iff_iff.mpr (h1.trans h2.symm)
  rw [this]

/-- after the whole set: every stored object is indexed or carries a garbage key, and every id the reference
rules call removed carries a garbage key (what `GetGarbage` lists, so GC reclaims the payload) -/
theorem plain_known {S : List Hdr} {c : Cnr} (inv : Inv S S c) (x : Hdr) (hx : x ∈ S) :
    ((c.find? x.id).isSome || c.garb.any (·.1 == x.id)) = true := by
  by_cases hc : x.typ ≠ .regular ∨ ¬ targeted S x.id
  · have hm := inv.r2 x hx hc
    have := find_of_mem c.recs inv.wf.recs _ hm
    have hf : c.find? x.id = some (recOf x false true) := this
    rw [hf]; rfl
  · have hc1 : targeted S x.id := by
      by_cases h : targeted S x.id
      · exact h
      · exact absurd (Or.inr h) hc
    have : (x.id, false) ∈ c.garb := (inv.g (x.id, false)).mpr ⟨rfl, hc1⟩
    rw [Bool.or_eq_true]
    right
    rw [List.any_eq_true]
    exact ⟨_, this, by simp⟩

theorem plain_removed_has_key {S : List Hdr} {c : Cnr} (hp : Plain S) (inv : Inv S S c) (epoch id : Nat)
    (h : c.status epoch id = .tombstoned) : c.garb.any (·.1 == id) = true := by
  rw [inv.status_own hp (fun _ h => h)] at h
  have ht : Ref.tombstoned c id = true := by
    unfold Ref.ownStatus at h
    cases hb : Ref.tombstoned c id
    · rw [hb] at h
      revert h
      cases Ref.ownExpired c epoch id <;> cases Ref.liveLock c epoch id <;> cases Ref.marked c id <;> simp
    · rfl
  have : (id, false) ∈ c.garb := (inv.g (id, false)).mpr ⟨rfl, (inv.tomb_iff id).mp ht⟩
  rw [List.any_eq_true]
  exact ⟨_, this, by simp⟩

/-! ### several containers -/

theorem mem_hdrsIn (hs : List (Nat × Hdr)) (cn : Nat) (h : Hdr) : h ∈ hdrsIn hs cn ↔ (cn, h) ∈ hs := by
  unfold hdrsIn
  simp only [List.mem_map, List.mem_filter, beq_iff_eq]
  constructor
  · rintro ⟨p, ⟨hp, hc⟩, rfl⟩
    have : p = (cn, p.2) := by rw [← hc]
    rw [← this]; exact hp
  · intro h'
    exact ⟨(cn, h), ⟨h', rfl⟩, rfl⟩

theorem hdrsIn_cons_same (cn : Nat) (h : Hdr) (hs : List (Nat × Hdr)) :
    hdrsIn ((cn, h) :: hs) cn = h :: hdrsIn hs cn := by
  simp [hdrsIn]

theorem hdrsIn_cons_other (cn cn' : Nat) (h : Hdr) (hs : List (Nat × Hdr)) (hne : cn' ≠ cn) :
    hdrsIn ((cn', h) :: hs) cn = hdrsIn hs cn := by
  simp [hdrsIn, hne]

theorem plain_nil : Plain [] := by
  refine ⟨?_, List.nodup_nil, ?_, ?_, ?_⟩
  · intro h hh; cases hh
  · intro a ha; cases ha
  · intro a ha; cases ha
  · intro a ha; cases ha

theorem plainObjs_cn (hs : List (Nat × Hdr)) (h : plainObjs hs = true) (cn : Nat) : Plain (hdrsIn hs cn) := by
  by_cases hc : ∃ p ∈ hs, p.1 = cn
  · obtain ⟨p, hp, rfl⟩ := hc
    unfold plainObjs at h
    rw [List.all_eq_true] at h
    exact plain_of_plainSet _ (h p hp)
  · have : hdrsIn hs cn = [] := by
      unfold hdrsIn
      rw [List.map_eq_nil_iff, List.filter_eq_nil_iff]
      intro p hp
      simp only [beq_iff_eq]
      exact fun e => hc ⟨p, hp, e⟩
    rw [this]; exact plain_nil

/-- **The rebuild of a set of the fragment, in any order**: no put aborts, and the bucket of every container
ends in the invariant state for the objects met. -/
theorem plain_runSeq (epoch : Nat) (hs : List (Nat × Hdr)) (hP : ∀ cn, Plain (hdrsIn hs cn)) :
    ∀ (rest done : List (Nat × Hdr)) (db : DB),
      (∀ p ∈ rest, p ∈ hs) → (∀ p ∈ done, p ∈ hs) →
      (∀ cn, (hdrsIn rest cn ++ hdrsIn done cn).Pairwise (fun a b => a.id ≠ b.id)) →
      (∀ cn, Inv (hdrsIn hs cn) (hdrsIn done cn) ((getCnr? db cn).getD {})) →
      ∃ d, runSeq epoch db (toObjs rest) = some d ∧
        ∀ cn, Inv (hdrsIn hs cn) (hdrsIn (rest.reverse ++ done) cn) ((getCnr? d cn).getD {}) := by
  intro rest
  induction rest with
  | nil => intro done db _ _ _ inv; exact ⟨db, by simp [toObjs, runSeq], by simpa using inv⟩
  | cons p rest ih =>
    intro done db hR hD hpw inv
    obtain ⟨cn0, h⟩ := p
    have hmem : h ∈ hdrsIn hs cn0 := (mem_hdrsIn hs cn0 h).mpr (hR _ List.mem_cons_self)
    have hLsub : ∀ x ∈ hdrsIn done cn0, x ∈ hdrsIn hs cn0 :=
      fun x hx => (mem_hdrsIn hs cn0 x).mpr (hD _ ((mem_hdrsIn done cn0 x).mp hx))
    have hpw0 := hpw cn0
    rw [hdrsIn_cons_same, List.cons_append, List.pairwise_cons] at hpw0
    have hnew : ∀ x ∈ hdrsIn done cn0, x.id ≠ h.id :=
      fun x hx e => hpw0.1 x (List.mem_append_right _ hx) e.symm
    obtain ⟨herr, hinv⟩ := (inv cn0).step (hP cn0) hLsub epoch h hmem hnew
    have hskip : ((putChainNR ((getCnr? db cn0).getD {}) epoch 0 [h]).2 == Err.ok ||
        skippable (putChainNR ((getCnr? db cn0).getD {}) epoch 0 [h]).2) = true := by
      rcases herr with e | e <;> rw [e] <;> simp [skippable]
    have hput : putObj db epoch (cn0, [h]) =
        (setCnr db cn0 (putChainNR ((getCnr? db cn0).getD {}) epoch 0 [h]).1,
          (putChainNR ((getCnr? db cn0).getD {}) epoch 0 [h]).2) := by
      unfold putObj
      simp only
      rw [if_pos hskip]
    have hstepC : stepC epoch ((getCnr? db cn0).getD {}) [h] =
        (putChainNR ((getCnr? db cn0).getD {}) epoch 0 [h]).1 := by
      unfold stepC
      simp only
      rw [if_pos hskip]
    obtain ⟨d, hd1, hd2⟩ := ih ((cn0, h) :: done) (putObj db epoch (cn0, [h])).1
      (fun q hq => hR q (List.mem_cons_of_mem _ hq))
      (by
        intro q hq
        rcases List.mem_cons.mp hq with rfl | hq
        · exact hR _ List.mem_cons_self
        · exact hD q hq)
      (by
        intro cn
        by_cases hc : cn0 = cn
        · subst hc
          rw [hdrsIn_cons_same]
          have hperm : (h :: (hdrsIn rest cn0 ++ hdrsIn done cn0)).Perm (hdrsIn rest cn0 ++ h :: hdrsIn done cn0) :=
            List.perm_middle.symm
          exact (hperm.pairwise_iff (fun {a b} (hab : a.id ≠ b.id) => fun e => hab e.symm)).mp
            (List.pairwise_cons.mpr hpw0)
        · have := hpw cn
          rw [hdrsIn_cons_other cn cn0 h rest hc] at this
          rw [hdrsIn_cons_other cn cn0 h done hc]
          exact this)
      (by
        intro cn
        rw [hput]
        by_cases hc : cn0 = cn
        · subst hc
          rw [hdrsIn_cons_same, getCnr_setCnr_same]
          simp only [Option.getD_some]
          rw [← hstepC]; exact hinv
        · rw [hdrsIn_cons_other cn cn0 h done hc, getCnr_setCnr_other _ _ _ _ (fun e => hc e.symm)]
          exact inv cn)
    refine ⟨d, ?_, ?_⟩
    · simp only [toObjs, List.map_cons, runSeq]
      have : (putObj db epoch (cn0, [h])).2 = (putChainNR ((getCnr? db cn0).getD {}) epoch 0 [h]).2 := by rw [hput]
      rw [this, if_pos hskip]
      exact hd1
    · intro cn
      have := hd2 cn
      simpa [List.reverse_cons, List.append_assoc] using this

/-! ### database-level statements used by `Props/C18.lean` -/

/-- the views of an address depend on the bucket only (an absent bucket answers like an empty one) -/
def viewC (c : Cnr) (id epoch : Nat) : (Bool × Err) × Bool :=
  (c.exists_ id epoch true, if c.gcMark then false else c.objectLocked epoch id)

theorem view_eq_viewC (db : DB) (cn id epoch : Nat) :
    view db cn id epoch = viewC ((getCnr? db cn).getD {}) id epoch := by
  unfold view viewC dbExists dbIsLocked
  cases getCnr? db cn with
  | none => rfl
  | some c => rfl

/-- the rebuild of the fragment's set `hs` met in the order `o`: succeeds, every bucket in the invariant state -/
theorem plain_final (epoch : Nat) (hs o : List (Nat × Hdr)) (hP : ∀ cn, Plain (hdrsIn hs cn)) (hperm : hs.Perm o) :
    ∃ d, resync epoch (toObjs o) = (d, .ok) ∧
      ∀ cn, Inv (hdrsIn hs cn) (hdrsIn hs cn) ((getCnr? d cn).getD {}) := by
  have hpw : ∀ cn, (hdrsIn o cn ++ hdrsIn [] cn).Pairwise (fun a b => a.id ≠ b.id) := by
    intro cn
    have h0 : hdrsIn [] cn = [] := rfl
    rw [h0, List.append_nil]
    have hp0 : (hdrsIn hs cn).Pairwise (fun a b => a.id ≠ b.id) := List.pairwise_map.mp (hP cn).nodup
    have hpm : (hdrsIn hs cn).Perm (hdrsIn o cn) := (hperm.filter _).map _
    exact (hpm.pairwise_iff (fun {a b} (hab : a.id ≠ b.id) => fun e => hab e.symm)).mp hp0
  obtain ⟨d, hd1, hd2⟩ := plain_runSeq epoch hs hP o [] []
    (fun p hp => hperm.mem_iff.mpr hp) (fun p hp => by cases hp) hpw
    (fun cn => by
      have h0 : hdrsIn [] cn = [] := rfl
      rw [h0]; exact inv_empty _)
  refine ⟨d, (resyncB_of_runSeq resyncBatchSize epoch (by decide) _ d hd1).1, fun cn => ?_⟩
  refine (hd2 cn).congr ?_
  intro x
  rw [mem_hdrsIn, mem_hdrsIn, List.append_nil, List.mem_reverse]
  exact hperm.mem_iff.symm

/-- no put of the rebuild aborts (decidable: run the model) -/
def noAbort (epoch : Nat) (objs : List Obj) : Bool := (runSeq epoch [] objs).isSome

end NeoFS.Resync
