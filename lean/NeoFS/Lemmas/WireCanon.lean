import NeoFS.Lemmas.WireRef
/-!
C41: canonical encodings (ascending LEN fields with one-byte tags) under the reference decoder; agreement of
the abstract scan with the occurrences the full decoder sees.
-/
namespace NeoFS.Wire

def encFields : List (Nat × Bytes) → Bytes
  | [] => []
  | kv :: l => encLEN kv.1 kv.2 ++ encFields l

/-- size of the length prefix of a value -/
def lenLen (v : Bytes) : Nat := (encodeVarint v.length).length

def fieldsAt : Nat → List (Nat × Bytes) → List Field
  | _, [] => []
  | off, kv :: l =>
    ⟨kv.1, 2, off, off + 1 + lenLen kv.2, off + 1 + (lenLen kv.2 + kv.2.length)⟩ ::
      fieldsAt (off + 1 + (lenLen kv.2 + kv.2.length)) l

theorem consumeVarint_encode (n : Nat) (rest : Bytes) (h : n < 2 ^ 64) :
    consumeVarint (encodeVarint n ++ rest) = .ok (n, (encodeVarint n).length) := by
  have := varintGo_encode rest n 0 0 (by omega) (by simpa using h)
  simpa [consumeVarint] using this

theorem encodeVarint_small {t : Nat} (h : t < 128) : encodeVarint t = [UInt8.ofNat t] := by
  rw [encodeVarint]; simp [h]

theorem encLEN_length {k : Nat} {v : Bytes} (hk : k ≤ 15) : (encLEN k v).length = 1 + (lenLen v + v.length) := by
  unfold encLEN lenLen
  rw [encodeVarint_small (by omega)]
  simp; omega

theorem refLoop_encFields : ∀ (l : List (Nat × Bytes)) (fuel off : Nat),
    (∀ kv ∈ l, 1 ≤ kv.1 ∧ kv.1 ≤ 15 ∧ kv.2.length < 2 ^ 64) → (encFields l).length < fuel →
    refLoop fuel off (encFields l) = some (fieldsAt off l) := by
  intro l
  induction l with
  | nil =>
    intro fuel off _ hf
    cases fuel with
    | zero => simp [encFields] at hf
    | succ fuel => simp [refLoop, encFields, fieldsAt]
  | cons kv l ih =>
    intro fuel off hall hf
    obtain ⟨k, v⟩ := kv
    have hk := hall (k, v) (by simp)
    simp only at hk
    have hlen := @encLEN_length k v hk.2.1
    cases fuel with
    | zero => omega
    | succ fuel =>
      simp only [encFields, List.length_append] at hf
      have hne : encLEN k v ++ encFields l ≠ [] := by
        intro h
        have := congrArg List.length h
        simp only [List.length_append, List.length_nil] at this
        omega
      have hshape : encLEN k v ++ encFields l =
          encodeVarint (k * 8 + 2) ++ (encodeVarint v.length ++ (v ++ encFields l)) := by
        simp [encLEN, List.append_assoc]
      have htag : decodeTag numOKFull (encLEN k v ++ encFields l) = some (k, 2, 1) := by
        unfold decodeTag
        rw [hshape, consumeVarint_encode _ _ (by omega), encodeVarint_small (by omega)]
        have h1 : (k * 8 + 2) / 8 = k := by omega
        have h2 : (k * 8 + 2) % 8 = 2 := by omega
        have h3 : numOKFull k = true := by
          unfold numOKFull maxValidNumber; simp; omega
        simp [h1, h2, h3]
      have hdrop1 : (encLEN k v ++ encFields l).drop 1 = encodeVarint v.length ++ (v ++ encFields l) := by
        rw [hshape, encodeVarint_small (by omega)]; simp
      have hcv : consumeVarint (encodeVarint v.length ++ (v ++ encFields l)) = .ok (v.length, lenLen v) :=
        consumeVarint_encode _ _ hk.2.2
      have hskip : skipValue k 2 ((encLEN k v ++ encFields l).drop 1) = some (lenLen v + v.length) := by
        rw [hdrop1]
        unfold skipValue
        simp only [show (2 : Nat) ≠ 3 by decide, if_false]
        unfold skipScalar
        simp only [hcv]
        have : v.length ≤ (encodeVarint v.length ++ (v ++ encFields l)).length - lenLen v := by
          simp only [List.length_append, lenLen]; omega
        rw [if_pos this]
      have hlp : lenPrefix 2 ((encLEN k v ++ encFields l).drop 1) = lenLen v := by
        rw [hdrop1]; unfold lenPrefix; simp [hcv]
      have hdrop : (encLEN k v ++ encFields l).drop (1 + (lenLen v + v.length)) = encFields l := by
        rw [← hlen]; simp
      unfold refLoop
      simp only [hne, if_false, encFields, htag, hskip, hdrop, hlp]
      rw [ih fuel _ (fun kv h => hall kv (by simp [h])) (by omega)]
      simp [fieldsAt, Nat.add_assoc]

theorem refParse_encFields (l : List (Nat × Bytes))
    (hall : ∀ kv ∈ l, 1 ≤ kv.1 ∧ kv.1 ≤ 15 ∧ kv.2.length < 2 ^ 64) :
    refParse (encFields l) = some (fieldsAt 0 l) :=
  refLoop_encFields l _ 0 hall (by omega)

/-! ## agreement on the field-list level -/

/-- no LEN field numbered 1..3 stands after the point where the scan stops (the first field numbered ≥ 3) -/
def lateFree : List Field → Bool
  | [] => true
  | f :: fs =>
    if f.num ≥ 3 then fs.all fun g => !(g.wt == 2 && (g.num == 1 || g.num == 2 || g.num == 3))
    else lateFree fs

theorem occ_cons (k : Nat) (f : Field) (fs : List Field) :
    occ k (f :: fs) = if f.num = k ∧ f.wt = 2 then fbOf f :: occ k fs else occ k fs := by
  unfold occ
  by_cases h : f.num = k ∧ f.wt = 2
  · simp [h, fbOf]
  · have : (f.num == k && f.wt == 2) = false := by
      simp only [Bool.and_eq_false_iff, beq_eq_false_iff_ne]
      by_cases h1 : f.num = k
      · right; intro h2; exact h ⟨h1, h2⟩
      · left; exact h1
    simp [h, List.filter_cons, this]

theorem occ_nil_of_all {k : Nat} {fs : List Field} (hk : k = 1 ∨ k = 2 ∨ k = 3)
    (h : fs.all (fun g => !(g.wt == 2 && (g.num == 1 || g.num == 2 || g.num == 3))) = true) : occ k fs = [] := by
  induction fs with
  | nil => simp [occ]
  | cons g gs ih =>
    simp only [List.all_cons, Bool.and_eq_true] at h
    rw [occ_cons, ih h.2]
    have hg := h.1
    simp only [Bool.not_eq_true', Bool.and_eq_false_iff, Bool.or_eq_false_iff, beq_eq_false_iff_ne] at hg
    split
    · rename_i hh
      rcases hg with hg | hg
      · exact absurd hh.2 hg
      · rcases hk with rfl | rfl | rfl <;> simp [hh.1] at hg
    · rfl

theorem scan_agrees : ∀ (fs : List Field) (prev : Nat) (idf sigf i s h : Option FB),
    scanSpec 3 objSlot fs prev idf sigf = .ok (i, s, h) → lateFree fs = true →
    (prev = 0 → idf = none) → (prev ≤ 1 → sigf = none) →
    idf.toList ++ occ 1 fs = i.toList ∧ sigf.toList ++ occ 2 fs = s.toList ∧ occ 3 fs = h.toList := by
  intro fs
  induction fs with
  | nil =>
    intro prev idf sigf i s h hs _ _ _
    simp only [scanSpec, Except.ok.injEq, Prod.mk.injEq] at hs
    obtain ⟨rfl, rfl, rfl⟩ := hs
    simp [occ]
  | cons f fs ih =>
    intro prev idf sigf i s h hs hl h1 h2
    simp only [scanSpec] at hs
    simp only [lateFree] at hl
    split at hs
    · rename_i c1
      simp only [Except.ok.injEq, Prod.mk.injEq] at hs
      obtain ⟨rfl, rfl, rfl⟩ := hs
      have hge : f.num ≥ 3 := by omega
      simp only [hge, if_true] at hl
      simp only [occ_cons]
      rw [occ_nil_of_all (Or.inl rfl) hl, occ_nil_of_all (Or.inr (Or.inl rfl)) hl,
        occ_nil_of_all (Or.inr (Or.inr rfl)) hl]
      have a : ¬ (f.num = 1 ∧ f.wt = 2) := by omega
      have b : ¬ (f.num = 2 ∧ f.wt = 2) := by omega
      have c : ¬ (f.num = 3 ∧ f.wt = 2) := by omega
      simp [a, b, c]
    · split at hs
      · simp at hs
      · split at hs
        · simp at hs
        · split at hs
          · simp at hs
          · rename_i c1 c2 c3 c4
            have hwt : f.wt = 2 := by simpa using c4
            split at hs
            · rename_i c5
              simp only [Except.ok.injEq, Prod.mk.injEq] at hs
              obtain ⟨rfl, rfl, rfl⟩ := hs
              have hge : f.num ≥ 3 := by omega
              simp only [hge, if_true] at hl
              simp only [occ_cons]
              rw [occ_nil_of_all (Or.inl rfl) hl, occ_nil_of_all (Or.inr (Or.inl rfl)) hl,
                occ_nil_of_all (Or.inr (Or.inr rfl)) hl]
              have a : ¬ (f.num = 1 ∧ f.wt = 2) := by omega
              have b : ¬ (f.num = 2 ∧ f.wt = 2) := by omega
              simp [a, b, c5, hwt]
            · rename_i c5
              have hlt : ¬ f.num ≥ 3 := by omega
              simp only [hlt, if_false] at hl
              have hnum : f.num = 1 ∨ f.num = 2 := by omega
              rcases hnum with e | e
              · have hp : prev = 0 := by omega
                have hs' : scanSpec 3 objSlot fs 1 (some (fbOf f)) sigf = .ok (i, s, h) := by
                  simpa [e, objSlot, fObjID, fObjSig] using hs
                have := ih 1 _ _ i s h hs' hl (by omega) (by intro _; exact h2 (by omega))
                simp only [occ_cons, e, hwt]
                rw [h1 hp]
                simpa using this
              · have hs' : scanSpec 3 objSlot fs 2 idf (some (fbOf f)) = .ok (i, s, h) := by
                  simpa [e, objSlot, fObjID, fObjSig] using hs
                have := ih 2 _ _ i s h hs' hl (by omega) (by omega)
                simp only [occ_cons, e, hwt]
                rw [h2 (by omega)]
                simpa using this

end NeoFS.Wire
