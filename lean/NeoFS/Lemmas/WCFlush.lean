import NeoFS.Model.WCFlush
/-!
Invariants of the concurrent write-cache model (`Model/WCFlush.lean`) for one address `a` whose content is `v`,
under the real step order (`delFirst = false`).
-/
namespace NeoFS.WCFlush

/-- every copy of `a` in a flusher's buffer is `v` -/
def bufOK (a : Addr) (v : Data) (l : List (Addr × Data)) : Prop := ∀ x, (a, x) ∈ l → x = v

/-- per-thread invariant: buffers/arguments for `a` hold `v`; a flusher that is past its main-storage put and still has to
remove `a` from the cache (and a writer whose cache file is written but not yet accounted) is covered by the main
storage; nobody is deleting `a`. -/
def PcOK (a : Addr) (v : Data) (files main : Addr → Option Data) : Pc → Prop
  | .wrFile b x => b = a → x = v
  | .wrCtr b x => b = a → x = v ∧ (files a = some v ∨ main a = some v)
  | .wrMain b x => b = a → x = v
  | .flRead _ got _ _ => bufOK a v got
  | .flPut got _ => bufOK a v got
  | .flDel todo pend _ => bufOK a v todo ∧ pend = [] ∧ ((∃ x, (a, x) ∈ todo) → main a = some v)
  | .flCtr b todo pend _ => bufOK a v todo ∧ pend = [] ∧ ((b = a ∨ ∃ x, (a, x) ∈ todo) → main a = some v)
  | .dlFile b => b ≠ a
  | .dlCtr b => b ≠ a
  | .dlMain b => b ≠ a
  | _ => True

structure Core (a : Addr) (v : Data) (s : St) : Prop where
  filesGood : ∀ x, s.files a = some x → x = v
  mainGood : ∀ x, s.main a = some x → x = v
  pcs : ∀ t, PcOK a v s.files s.main (s.pc t)

/-- the object can be found by the two-step lookup -/
def Readable (a : Addr) (v : Data) (s : St) : Prop := s.main a = some v ∨ (s.ctr a = true ∧ s.files a = some v)

/-- a tracked reader whose cache lookup missed will find the object in the main storage -/
def RdOK (a : Addr) (v : Data) (s : St) : Prop := ∀ t, s.pc t = .rdMain a true → s.main a = some v

structure Safe (a : Addr) (v : Data) (s : St) : Prop where
  core : Core a v s
  readable : Readable a v s
  rd : RdOK a v s

def isTagged (a : Addr) : Pc → Bool
  | .rdCtr b tag => b == a && tag
  | .rdFile b tag => b == a && tag
  | .rdMain b tag => b == a && tag
  | _ => false

/-- no tracked (tagged) read of `a` is in flight -/
def NoTagged (a : Addr) (s : St) : Prop := ∀ t, isTagged a (s.pc t) = false

/-- schedule events allowed by the theorem: every put of `a` carries `v` (content addressing), no delete of `a` starts -/
def EvOK (a : Addr) (v : Data) : Ev → Prop
  | .write _ b x _ => b = a → x = v
  | .delete _ b => b ≠ a
  | _ => True

def NotTaggedRead (a : Addr) : Ev → Prop
  | .read _ b tag => ¬ (b = a ∧ tag = true)
  | _ => True

theorem PcOK_mono {a v} {f m f' m' : Addr → Option Data} {p : Pc} (h : PcOK a v f m p)
    (hm : m a = some v → m' a = some v) (hf : f a = some v → f' a = some v ∨ m' a = some v) :
    PcOK a v f' m' p := by
  cases p <;> simp only [PcOK] at h ⊢ <;> try exact h
  · intro hb
    refine ⟨(h hb).1, ?_⟩
    rcases (h hb).2 with h1 | h1
    · exact hf h1
    · exact Or.inr (hm h1)
  · exact ⟨h.1, h.2.1, fun hx => hm (h.2.2 hx)⟩
  · exact ⟨h.1, h.2.1, fun hx => hm (h.2.2 hx)⟩

theorem core_update {a v} {s s' : St} (hc : Core a v s) (t : Tid) (p' : Pc)
    (hpc : s'.pc = upd s.pc t p')
    (hF : ∀ x, s'.files a = some x → x = v) (hM : ∀ x, s'.main a = some x → x = v)
    (hm : s.main a = some v → s'.main a = some v)
    (hf : s.files a = some v → s'.files a = some v ∨ s'.main a = some v)
    (hp : PcOK a v s'.files s'.main p') : Core a v s' := by
  refine ⟨hF, hM, ?_⟩
  intro t'
  rw [hpc]
  simp only [upd]
  split
  · exact hp
  · exact PcOK_mono (hc.pcs t') hm hf

theorem core_setPc {a v} {s : St} (hc : Core a v s) (t : Tid) (p' : Pc) (hp : PcOK a v s.files s.main p') :
    Core a v (s.setPc t p') :=
  core_update hc t p' rfl hc.filesGood hc.mainGood id Or.inl hp

theorem putAll_cases (m : Addr → Option Data) (got : List (Addr × Data)) (a : Addr) :
    putAll m got a = m a ∨ ∃ x, (a, x) ∈ got ∧ putAll m got a = some x := by
  unfold putAll
  split
  · rename_i p hp
    right
    have h1 := List.find?_some hp
    have h2 := List.mem_of_find?_eq_some hp
    simp only [beq_iff_eq] at h1
    refine ⟨p.2, ?_, rfl⟩
    rw [← h1]; exact h2
  · left; rfl

theorem putAll_mem (m : Addr → Option Data) (got : List (Addr × Data)) (a : Addr) (x : Data) (hx : (a, x) ∈ got) :
    ∃ y, (a, y) ∈ got ∧ putAll m got a = some y := by
  unfold putAll
  split
  · rename_i p hp
    have h1 := List.find?_some hp
    have h2 := List.mem_of_find?_eq_some hp
    simp only [beq_iff_eq] at h1
    exact ⟨p.2, by rw [← h1]; exact h2, rfl⟩
  · rename_i hn
    exact absurd (List.find?_eq_none.mp hn (a, x) hx) (by simp)

theorem bufOK_eraseIdx {a v} {l : List (Addr × Data)} (h : bufOK a v l) (i : Nat) : bufOK a v (l.eraseIdx i) :=
  fun x hx => h x (List.mem_of_mem_eraseIdx hx)

theorem core_stepThread {a v} {s : St} (hc : Core a v s) (t : Tid) (ok : Bool) (pick : Nat) :
    Core a v (stepThread false s t ok pick).1 := by
  have hp := hc.pcs t
  unfold stepThread
  split
  · exact hc
  · -- rdCtr
    apply core_setPc hc; split <;> simp [PcOK]
  · -- rdFile
    split
    · apply core_setPc hc; simp [PcOK]
    · apply core_setPc hc; simp [PcOK]
  · apply core_setPc hc; simp [PcOK]
  · -- wrFile
    rename_i b x heq
    rw [heq] at hp; simp only [PcOK] at hp
    refine core_update hc t (.wrCtr b x) rfl ?_ hc.mainGood id ?_ ?_
    · intro y; simp only [upd]; split
      · rename_i hab; intro h; cases h; exact hp hab.symm
      · exact hc.filesGood y
    · simp only [upd]; split
      · rename_i hab; intro _; left; rw [hp hab.symm]
      · exact Or.inl
    · simp only [PcOK, upd]; intro hb; subst hb
      simp [hp rfl]
  · -- wrCtr
    refine core_update hc t .idle rfl hc.filesGood hc.mainGood id Or.inl ?_
    simp [PcOK]
  · -- wrMain
    rename_i b x heq
    rw [heq] at hp; simp only [PcOK] at hp
    split
    · refine core_update hc t .idle rfl hc.filesGood ?_ ?_ Or.inl ?_
      · intro y; simp only [upd]; split
        · rename_i hab; intro h; cases h; exact hp hab.symm
        · exact hc.mainGood y
      · simp only [upd]; split
        · rename_i hab; intro _; rw [hp hab.symm]
        · exact id
      · simp [PcOK]
    · apply core_setPc hc; simp [PcOK]
  · -- flRead cons
    rename_i b rest got marks single heq
    rw [heq] at hp; simp only [PcOK] at hp
    split
    · rename_i x hx
      apply core_setPc hc; simp only [PcOK]
      intro y hy
      rcases List.mem_append.mp hy with h | h
      · exact hp y h
      · simp at h; rcases h with ⟨rfl, rfl⟩; exact hc.filesGood _ hx
    · apply core_setPc hc; simpa [PcOK] using hp
  · -- flRead nil
    rename_i got marks single heq
    rw [heq] at hp; simp only [PcOK] at hp
    split
    · exact core_update hc t .idle rfl hc.filesGood hc.mainGood id Or.inl (by simp [PcOK])
    · simp only [Bool.false_eq_true, if_false]
      apply core_setPc hc; simpa [PcOK] using hp
  · -- flPut
    rename_i got marks heq
    rw [heq] at hp; simp only [PcOK] at hp
    split
    · simp only [Bool.false_eq_true, if_false]
      refine core_update hc t (.flDel got [] marks) rfl hc.filesGood ?_ ?_ Or.inl ?_
      · intro y hy
        have hy' : putAll s.main got a = some y := hy
        rcases putAll_cases s.main got a with h | ⟨x, hx, h⟩
        · exact hc.mainGood y (by rw [← h]; exact hy')
        · rw [h] at hy'; cases hy'; exact hp _ hx
      · intro hm
        show putAll s.main got a = some v
        rcases putAll_cases s.main got a with h | ⟨x, hx, h⟩
        · rw [h]; exact hm
        · rw [h, hp _ hx]
      · show PcOK a v s.files (putAll s.main got) (.flDel got [] marks)
        simp only [PcOK]
        refine ⟨hp, trivial, ?_⟩
        rintro ⟨x, hx⟩
        rcases putAll_mem s.main got a x hx with ⟨y, hy, h⟩
        rw [h, hp _ hy]
    · exact core_update hc t .idle rfl hc.filesGood hc.mainGood id Or.inl (by simp [PcOK])
  · -- flDel
    rename_i todo pend marks heq
    rw [heq] at hp; simp only [PcOK] at hp
    obtain ⟨hb, hpend, hmain⟩ := hp
    split
    · split
      · exact core_update hc t .idle rfl hc.filesGood hc.mainGood id Or.inl (by simp [PcOK])
      · apply core_setPc hc; subst hpend; simp [PcOK, bufOK]
    · rename_i p hget
      have hmem : p ∈ todo := List.mem_of_getElem? hget
      split
      · refine core_update hc t (.flCtr p.1 (todo.eraseIdx (pick % todo.length)) pend marks) rfl ?_ hc.mainGood id ?_ ?_
        · intro y; simp only [upd]; split
          · intro h; cases h
          · exact hc.filesGood y
        · simp only [upd]; split
          · rename_i hab; intro _; right; exact hmain ⟨p.2, by rw [hab]; exact hmem⟩
          · exact Or.inl
        · simp only [PcOK]
          refine ⟨bufOK_eraseIdx hb _, hpend, ?_⟩
          rintro (h | ⟨x, hx⟩)
          · exact hmain ⟨p.2, by rw [← h]; exact hmem⟩
          · exact hmain ⟨x, List.mem_of_mem_eraseIdx hx⟩
      · apply core_setPc hc; simp only [PcOK]
        exact ⟨bufOK_eraseIdx hb _, hpend, fun ⟨x, hx⟩ => hmain ⟨x, List.mem_of_mem_eraseIdx hx⟩⟩
  · -- flCtr
    rename_i b todo pend marks heq
    rw [heq] at hp; simp only [PcOK] at hp
    refine core_update hc t (.flDel todo pend marks) rfl hc.filesGood hc.mainGood id Or.inl ?_
    simp only [PcOK]
    exact ⟨hp.1, hp.2.1, fun hx => hp.2.2 (Or.inr hx)⟩
  · -- dlFile
    rename_i b heq
    rw [heq] at hp; simp only [PcOK] at hp
    split
    · refine core_update hc t (.dlCtr b) rfl ?_ hc.mainGood id ?_ (by simpa [PcOK] using hp)
      · intro y; simp only [upd, if_neg (Ne.symm hp)]; exact hc.filesGood y
      · simp only [upd, if_neg (Ne.symm hp)]; exact Or.inl
    · apply core_setPc hc; simpa [PcOK] using hp
  · -- dlCtr
    rename_i b heq
    rw [heq] at hp; simp only [PcOK] at hp
    exact core_update hc t (.dlMain b) rfl hc.filesGood hc.mainGood id Or.inl (by simpa [PcOK] using hp)
  · -- dlMain
    rename_i b heq
    rw [heq] at hp; simp only [PcOK] at hp
    refine core_update hc t .idle rfl hc.filesGood ?_ ?_ Or.inl (by simp [PcOK])
    · intro y; simp only [upd, if_neg (Ne.symm hp)]; exact hc.mainGood y
    · simp only [upd, if_neg (Ne.symm hp)]; exact id

theorem rdOK_update {a v} {s s' : St} (hs : RdOK a v s) (t : Tid) (p' : Pc) (hpc : s'.pc = upd s.pc t p')
    (hm : s.main a = some v → s'.main a = some v) (hp : p' = .rdMain a true → s'.main a = some v) : RdOK a v s' := by
  intro t'
  rw [hpc]; simp only [upd]
  split
  · exact hp
  · intro h; exact hm (hs t' h)

/-- second pass over the atomic steps: the lookup invariant, the tracked readers and the read results -/
theorem safe_stepThread_aux {a v} {s : St} (hs : Safe a v s) (t : Tid) (ok : Bool) (pick : Nat) :
    Readable a v (stepThread false s t ok pick).1 ∧ RdOK a v (stepThread false s t ok pick).1 ∧
    (∀ t' r, (stepThread false s t ok pick).2 = .readDone t' a true r → r = some v) := by
  have hc := hs.core
  have hp := hc.pcs t
  have hR := hs.readable
  have hrd := hs.rd
  unfold stepThread
  split
  · exact ⟨hR, hrd, by simp⟩
  · -- rdCtr
    rename_i b tag heq
    refine ⟨hR, rdOK_update hrd t _ rfl id ?_, by simp⟩
    split
    · simp
    · rename_i hctr
      intro h; cases h
      rcases hR with h | h
      · exact h
      · exact absurd h.1 hctr
  · -- rdFile
    rename_i b tag heq
    split
    · rename_i x hx
      refine ⟨hR, rdOK_update hrd t _ rfl id (by simp), ?_⟩
      intro t' r h; cases h
      rw [hc.filesGood x hx]
    · rename_i hx
      refine ⟨hR, rdOK_update hrd t _ rfl id ?_, by simp⟩
      intro h; cases h
      rcases hR with h | h
      · exact h
      · rw [hx] at h; exact absurd h.2 (by simp)
  · -- rdMain
    rename_i b tag heq
    refine ⟨hR, rdOK_update hrd t _ rfl id (by simp), ?_⟩
    intro t' r h; cases h
    exact hrd t heq
  · -- wrFile
    rename_i b x heq
    rw [heq] at hp; simp only [PcOK] at hp
    refine ⟨?_, rdOK_update hrd t _ rfl id (by simp), by simp⟩
    rcases hR with h | h
    · exact Or.inl h
    · right; refine ⟨h.1, ?_⟩
      show upd s.files b (some x) a = some v
      simp only [upd]; split
      · rename_i hab; rw [hp hab.symm]
      · exact h.2
  · -- wrCtr
    rename_i b x heq
    refine ⟨?_, rdOK_update hrd t _ rfl id (by simp), by simp⟩
    rcases hR with h | h
    · exact Or.inl h
    · right; refine ⟨?_, h.2⟩
      show upd s.ctr b true a = true
      simp only [upd]; split
      · rfl
      · exact h.1
  · -- wrMain
    rename_i b x heq
    rw [heq] at hp; simp only [PcOK] at hp
    split
    · have hm : s.main a = some v → upd s.main b (some x) a = some v := by
        simp only [upd]; split
        · rename_i hab; intro _; rw [hp hab.symm]
        · exact id
      refine ⟨?_, rdOK_update hrd t _ rfl hm (by simp), by simp⟩
      rcases hR with h | h
      · exact Or.inl (hm h)
      · exact Or.inr h
    · exact ⟨hR, rdOK_update hrd t _ rfl id (by simp), by simp⟩
  · -- flRead cons
    split
    · exact ⟨hR, rdOK_update hrd t _ rfl id (by simp), by simp⟩
    · exact ⟨hR, rdOK_update hrd t _ rfl id (by simp), by simp⟩
  · -- flRead nil
    split
    · exact ⟨hR, rdOK_update hrd t .idle rfl id (by simp), by simp [finish]⟩
    · simp only [Bool.false_eq_true, if_false]
      exact ⟨hR, rdOK_update hrd t _ rfl id (by simp), by simp⟩
  · -- flPut
    rename_i got marks heq
    rw [heq] at hp; simp only [PcOK] at hp
    split
    · simp only [Bool.false_eq_true, if_false]
      have hm : s.main a = some v → putAll s.main got a = some v := by
        intro hm
        rcases putAll_cases s.main got a with h | ⟨x, hx, h⟩
        · rw [h]; exact hm
        · rw [h, hp _ hx]
      refine ⟨?_, rdOK_update hrd t _ rfl hm (by simp), by simp⟩
      rcases hR with h | h
      · exact Or.inl (hm h)
      · exact Or.inr h
    · exact ⟨hR, rdOK_update hrd t .idle rfl id (by simp), by simp [finish]⟩
  · -- flDel
    rename_i todo pend marks heq
    rw [heq] at hp; simp only [PcOK] at hp
    obtain ⟨hb, hpend, hmain⟩ := hp
    split
    · split
      · exact ⟨hR, rdOK_update hrd t .idle rfl id (by simp), by simp [finish]⟩
      · exact ⟨hR, rdOK_update hrd t _ rfl id (by simp), by simp⟩
    · rename_i p hget
      have hmem : p ∈ todo := List.mem_of_getElem? hget
      split
      · refine ⟨?_, rdOK_update hrd t _ rfl id (by simp), by simp⟩
        by_cases hab : p.1 = a
        · exact Or.inl (hmain ⟨p.2, by rw [← hab]; exact hmem⟩)
        · rcases hR with h | h
          · exact Or.inl h
          · right; refine ⟨h.1, ?_⟩
            show upd s.files p.1 none a = some v
            simp only [upd, if_neg (Ne.symm hab)]; exact h.2
      · exact ⟨hR, rdOK_update hrd t _ rfl id (by simp), by simp⟩
  · -- flCtr
    rename_i b todo pend marks heq
    rw [heq] at hp; simp only [PcOK] at hp
    refine ⟨?_, rdOK_update hrd t _ rfl id (by simp), by simp⟩
    by_cases hab : b = a
    · exact Or.inl (hp.2.2 (Or.inl hab))
    · rcases hR with h | h
      · exact Or.inl h
      · right; refine ⟨?_, h.2⟩
        show upd s.ctr b false a = true
        simp only [upd, if_neg (Ne.symm hab)]; exact h.1
  · -- dlFile
    rename_i b heq
    rw [heq] at hp; simp only [PcOK] at hp
    split
    · refine ⟨?_, rdOK_update hrd t _ rfl id (by simp), by simp⟩
      rcases hR with h | h
      · exact Or.inl h
      · right; refine ⟨h.1, ?_⟩
        show upd s.files b none a = some v
        simp only [upd, if_neg (Ne.symm hp)]; exact h.2
    · exact ⟨hR, rdOK_update hrd t _ rfl id (by simp), by simp⟩
  · -- dlCtr
    rename_i b heq
    rw [heq] at hp; simp only [PcOK] at hp
    refine ⟨?_, rdOK_update hrd t _ rfl id (by simp), by simp⟩
    rcases hR with h | h
    · exact Or.inl h
    · right; refine ⟨?_, h.2⟩
      show upd s.ctr b false a = true
      simp only [upd, if_neg (Ne.symm hp)]; exact h.1
  · -- dlMain
    rename_i b heq
    rw [heq] at hp; simp only [PcOK] at hp
    have hm : s.main a = some v → upd s.main b none a = some v := by
      simp only [upd, if_neg (Ne.symm hp)]; exact id
    refine ⟨?_, rdOK_update hrd t _ rfl hm (by simp), by simp⟩
    rcases hR with h | h
    · exact Or.inl (hm h)
    · exact Or.inr h

theorem noTagged_update {a} {s s' : St} (hs : NoTagged a s) (t : Tid) (p' : Pc) (hpc : s'.pc = upd s.pc t p')
    (hp : isTagged a p' = false) : NoTagged a s' := by
  intro t'
  rw [hpc]; simp only [upd]
  split
  · exact hp
  · exact hs t'

theorem noTagged_stepThread {a} {s : St} (hs : NoTagged a s) (d : Bool) (t : Tid) (ok : Bool) (pick : Nat) :
    NoTagged a (stepThread d s t ok pick).1 := by
  have hp := hs t
  unfold stepThread
  split
  · exact hs
  · rename_i b tag heq
    rw [heq] at hp
    refine noTagged_update hs t _ rfl ?_
    split <;> simpa [isTagged] using hp
  · rename_i b tag heq
    rw [heq] at hp
    split
    · exact noTagged_update hs t _ rfl (by simp [isTagged])
    · exact noTagged_update hs t _ rfl (by simpa [isTagged] using hp)
  · exact noTagged_update hs t _ rfl (by simp [isTagged])
  · exact noTagged_update hs t _ rfl (by simp [isTagged])
  · exact noTagged_update hs t _ rfl (by simp [isTagged])
  · split
    · exact noTagged_update hs t _ rfl (by simp [isTagged])
    · exact noTagged_update hs t _ rfl (by simp [isTagged])
  · split
    · exact noTagged_update hs t _ rfl (by simp [isTagged])
    · exact noTagged_update hs t _ rfl (by simp [isTagged])
  · split
    · exact noTagged_update hs t .idle rfl (by simp [isTagged])
    · split
      · exact noTagged_update hs t _ rfl (by simp [isTagged])
      · exact noTagged_update hs t _ rfl (by simp [isTagged])
  · split
    · split
      · exact noTagged_update hs t .idle rfl (by simp [isTagged])
      · exact noTagged_update hs t _ rfl (by simp [isTagged])
    · exact noTagged_update hs t .idle rfl (by simp [isTagged])
  · split
    · split
      · exact noTagged_update hs t .idle rfl (by simp [isTagged])
      · exact noTagged_update hs t _ rfl (by simp [isTagged])
    · split
      · exact noTagged_update hs t _ rfl (by simp [isTagged])
      · exact noTagged_update hs t _ rfl (by simp [isTagged])
  · exact noTagged_update hs t _ rfl (by simp [isTagged])
  · split
    · exact noTagged_update hs t _ rfl (by simp [isTagged])
    · exact noTagged_update hs t _ rfl (by simp [isTagged])
  · exact noTagged_update hs t _ rfl (by simp [isTagged])
  · exact noTagged_update hs t _ rfl (by simp [isTagged])

/-- the acknowledgement of a put of `a` establishes the lookup invariant -/
theorem ack_stepThread {a v} {s : St} (hc : Core a v s) (t : Tid) (ok : Bool) (pick : Nat) (t0 : Tid)
    (hack : (stepThread false s t ok pick).2 = .putAck t0 a v true) :
    Readable a v (stepThread false s t ok pick).1 := by
  have hp := hc.pcs t
  revert hack
  unfold stepThread
  split <;> try (intro hack; simp at hack; done)
  · split <;> (intro hack; simp at hack)
  · -- wrCtr
    rename_i b x heq
    rw [heq] at hp; simp only [PcOK] at hp
    intro hack
    simp only [Obs.putAck.injEq] at hack
    obtain ⟨_, hb, _, _⟩ := hack
    rcases (hp hb).2 with h | h
    · right; refine ⟨?_, h⟩
      show upd s.ctr b true a = true
      simp [upd, hb]
    · exact Or.inl h
  · -- wrMain
    rename_i b x heq
    split
    · intro hack
      simp only [Obs.putAck.injEq] at hack
      obtain ⟨_, hb, hx, _⟩ := hack
      left
      show upd s.main b (some x) a = some v
      simp [upd, hb, hx]
    · intro hack; simp at hack
  · split <;> (intro hack; simp at hack)
  · split
    · intro hack; simp [finish] at hack
    · split <;> (intro hack; simp at hack)
  · split
    · split <;> (intro hack; simp [finish] at hack)
    · intro hack; simp [finish] at hack
  · split
    · split <;> (intro hack; simp [finish] at hack)
    · split <;> (intro hack; simp at hack)
  · split <;> (intro hack; simp at hack)

/-! ### events -/

theorem core_step {a v} {s : St} (hc : Core a v s) {e : Ev} (he : EvOK a v e) : Core a v (step false s e).1 := by
  cases e with
  | read t b tag => simp only [step]; split
                    · exact core_setPc hc t _ (by simp [PcOK])
                    · exact hc
  | write t b x via =>
    simp only [EvOK] at he
    simp only [step]; split
    · apply core_setPc hc; split <;> simpa [PcOK] using he
    · exact hc
  | flush t as mark =>
    simp only [step]; split
    · exact core_update hc t _ rfl hc.filesGood hc.mainGood id Or.inl (by simp [PcOK, bufOK])
    · exact hc
  | delete t b =>
    simp only [EvOK] at he
    simp only [step]; split
    · exact core_setPc hc t _ (by simpa [PcOK] using he)
    · exact hc
  | step t ok pick => exact core_stepThread hc t ok pick

theorem safe_step {a v} {s : St} (hs : Safe a v s) {e : Ev} (he : EvOK a v e) :
    Safe a v (step false s e).1 ∧ ∀ t r, (step false s e).2 = .readDone t a true r → r = some v := by
  have hc' := core_step hs.core he
  cases e with
  | read t b tag =>
    refine ⟨⟨hc', ?_, ?_⟩, ?_⟩
    · simp only [step]; split
      · exact hs.readable
      · exact hs.readable
    · simp only [step]; split
      · exact rdOK_update hs.rd t _ rfl id (by simp)
      · exact hs.rd
    · simp only [step]; split <;> simp
  | write t b x via =>
    refine ⟨⟨hc', ?_, ?_⟩, ?_⟩
    · simp only [step]; split
      · exact hs.readable
      · exact hs.readable
    · simp only [step]; split
      · exact rdOK_update hs.rd t _ rfl id (by split <;> simp)
      · exact hs.rd
    · simp only [step]; split <;> simp
  | flush t as mark =>
    refine ⟨⟨hc', ?_, ?_⟩, ?_⟩
    · simp only [step]; split
      · exact hs.readable
      · exact hs.readable
    · simp only [step]; split
      · exact rdOK_update hs.rd t _ rfl id (by simp)
      · exact hs.rd
    · simp only [step]; split <;> simp
  | delete t b =>
    refine ⟨⟨hc', ?_, ?_⟩, ?_⟩
    · simp only [step]; split
      · exact hs.readable
      · exact hs.readable
    · simp only [step]; split
      · exact rdOK_update hs.rd t _ rfl id (by simp)
      · exact hs.rd
    · simp only [step]; split <;> simp
  | step t ok pick =>
    have h := safe_stepThread_aux hs t ok pick
    exact ⟨⟨hc', h.1, h.2.1⟩, h.2.2⟩

theorem noTagged_step {a} {s : St} (hs : NoTagged a s) (d : Bool) {e : Ev} (he : NotTaggedRead a e) :
    NoTagged a (step d s e).1 := by
  cases e with
  | read t b tag =>
    simp only [NotTaggedRead] at he
    simp only [step]; split
    · refine noTagged_update hs t _ rfl ?_
      simp only [isTagged]
      cases tag <;> simp_all
    · exact hs
  | write t b x via =>
    simp only [step]; split
    · exact noTagged_update hs t _ rfl (by split <;> simp [isTagged])
    · exact hs
  | flush t as mark =>
    simp only [step]; split
    · exact noTagged_update hs t _ rfl (by simp [isTagged])
    · exact hs
  | delete t b =>
    simp only [step]; split
    · exact noTagged_update hs t _ rfl (by simp [isTagged])
    · exact hs
  | step t ok pick => exact noTagged_stepThread hs d t ok pick

theorem noTagged_rdOK {a v} {s : St} (h : NoTagged a s) : RdOK a v s := by
  intro t ht
  have := h t
  rw [ht] at this
  simp [isTagged] at this

theorem ack_step {a v} {s : St} (hc : Core a v s) (hn : NoTagged a s) {e : Ev} (he : EvOK a v e)
    (hnt : NotTaggedRead a e) (t0 : Tid) (hack : (step false s e).2 = .putAck t0 a v true) :
    Safe a v (step false s e).1 := by
  refine ⟨core_step hc he, ?_, noTagged_rdOK (noTagged_step hn false hnt)⟩
  cases e with
  | step t ok pick => exact ack_stepThread hc t ok pick t0 hack
  | read t b tag => exfalso; revert hack; simp only [step]; split <;> simp
  | write t b x via => exfalso; revert hack; simp only [step]; split <;> simp
  | flush t as mark => exfalso; revert hack; simp only [step]; split <;> simp
  | delete t b => exfalso; revert hack; simp only [step]; split <;> simp

/-! ### schedules -/

theorem safe_run {a v} (sched : List Ev) : ∀ {s : St}, Safe a v s → (∀ e ∈ sched, EvOK a v e) →
    Safe a v (run false s sched).1 ∧ ∀ t r, Obs.readDone t a true r ∈ (run false s sched).2 → r = some v := by
  induction sched with
  | nil => intro s hs _; exact ⟨hs, by simp [run]⟩
  | cons e es ih =>
    intro s hs hev
    have h1 := safe_step hs (hev e (by simp))
    have h2 := ih h1.1 (fun e' he' => hev e' (by simp [he']))
    refine ⟨h2.1, ?_⟩
    intro t r hmem
    simp only [run, List.mem_cons] at hmem
    rcases hmem with h | h
    · exact h1.2 t r h.symm
    · exact h2.2 t r h

theorem pre_run {a v} (sched : List Ev) : ∀ {s : St}, Core a v s → NoTagged a s →
    (∀ e ∈ sched, EvOK a v e ∧ NotTaggedRead a e) →
    Core a v (run false s sched).1 ∧ NoTagged a (run false s sched).1 := by
  induction sched with
  | nil => intro s hc hn _; exact ⟨hc, hn⟩
  | cons e es ih =>
    intro s hc hn hev
    have he := hev e (by simp)
    exact ih (core_step hc he.1) (noTagged_step hn false he.2) (fun e' he' => hev e' (by simp [he']))

theorem core_init (a : Addr) (v : Data) : Core a v init :=
  ⟨by simp [init], by simp [init], by intro t; simp [init, PcOK]⟩

theorem noTagged_init (a : Addr) : NoTagged a init := by intro t; simp [init, isTagged]

end NeoFS.WCFlush
