/-
C03: the loop of `searchTx` over a strictly sorted bucket (`Seek`, skip the seek key itself, iterate while the prefix
holds) visits exactly the keys that are greater than the seek key and carry the prefix, in order - the early end of
the prefix loop loses nothing.
-/
import NeoFS.Lemmas.SearchEval
namespace NeoFS.Search
open NeoFS.Int256

theorem afterSeek_eq_filter (b : List Bytes) (hs : b.Pairwise bLt) (seek : Bytes) :
    afterSeek b seek = b.filter (fun k => lexCmp seek k == .lt) := by
  induction b with
  | nil => rfl
  | cons x r ih =>
    obtain ⟨hx, hr⟩ := List.pairwise_cons.1 hs
    have ihr := ih hr
    unfold afterSeek seekFrom at ihr ⊢
    rw [List.dropWhile_cons, List.filter_cons]
    by_cases h1 : lexCmp x seek = .lt
    · -- x < seek: dropped
      have h2 : lexCmp seek x ≠ .lt := by
        intro h; have := (lexCmp_lt_iff seek x).1 h; rw [h1] at this; cases this
      simp only [h1, beq_self_eq_true, if_true]
      have : (lexCmp seek x == Ordering.lt) = false := by simpa using h2
      simp only [this, Bool.false_eq_true, if_false]
      exact ihr
    · have h1' : (lexCmp x seek == Ordering.lt) = false := by simpa using h1
      simp only [h1', Bool.false_eq_true, if_false]
      -- everything in r is above x
      have hall : ∀ y ∈ r, lexCmp seek y = .lt := by
        intro y hy
        have hxy : bLt x y := hx y hy
        have hsx : bLe seek x := (lexCmp_ne_lt_iff x seek).1 h1
        exact bLt_of_bLe_of_bLt hsx hxy
      have hfr : r.filter (fun k => lexCmp seek k == .lt) = r := by
        rw [List.filter_eq_self]; intro y hy; simp [hall y hy]
      by_cases he : x = seek
      · subst he
        simp [lexCmp_refl, hfr]
      · simp only [he, if_false]
        have hlt : lexCmp seek x = .lt := by
          have hsx : bLe seek x := (lexCmp_ne_lt_iff x seek).1 h1
          rcases (bLe_iff_lt_or_eq seek x).1 hsx with h | h
          · exact h
          · exact absurd h.symm he
        simp [hlt, hfr]

theorem takeWhile_prefix_eq_filter (l : List Bytes) (hs : l.Pairwise bLt) (pref seek : Bytes) (hp : pref <+: seek)
    (habove : ∀ k ∈ l, bLe seek k) :
    l.takeWhile (fun k => pref.isPrefixOf k) = l.filter (fun k => pref.isPrefixOf k) := by
  induction l with
  | nil => rfl
  | cons x r ih =>
    obtain ⟨hx, hr⟩ := List.pairwise_cons.1 hs
    rw [List.takeWhile_cons, List.filter_cons]
    by_cases hpx : pref.isPrefixOf x = true
    · simp only [hpx, if_true]
      rw [ih hr (fun k hk => habove k (List.mem_cons_of_mem _ hk))]
    · simp only [hpx, Bool.false_eq_true, if_false]
      symm
      rw [List.filter_eq_nil_iff]
      intro y hy hpy
      apply hpx
      rw [List.isPrefixOf_iff_prefix] at hpy ⊢
      exact prefix_convex (bLe_trans (bLe_of_prefix hp) (habove x List.mem_cons_self)) (bLe_of_bLt (hx y hy)) hpy

/-- **The prefix loop loses nothing**: over a strictly sorted bucket, with a seek key that extends the prefix. -/
theorem scanKeys_eq_filter (b : List Bytes) (hs : b.Pairwise bLt) (pref seek : Bytes) (hp : pref <+: seek) :
    scanKeys b pref seek = b.filter (fun k => lexCmp seek k == .lt && pref.isPrefixOf k) := by
  unfold scanKeys
  rw [afterSeek_eq_filter b hs seek]
  rw [takeWhile_prefix_eq_filter _ (List.Pairwise.filter _ hs) pref seek hp]
  · rw [List.filter_filter]
    congr 1
    funext k
    rw [Bool.and_comm]
  · intro k hk
    have := (List.mem_filter.1 hk).2
    exact bLe_of_bLt (by simpa [bLt] using this)


theorem bytesLe_iff (a b : Bytes) : bytesLe a b = true ↔ bLe a b := by
  unfold bytesLe bLe; simp

theorem dedupAdj_sorted : ∀ (l : List Bytes), l.Pairwise bLe →
    (dedupAdj l).Pairwise bLt ∧ ∀ k, k ∈ dedupAdj l ↔ k ∈ l
  | [], _ => by simp [dedupAdj]
  | [x], _ => by simp [dedupAdj]
  | x :: y :: r, h => by
    obtain ⟨hx, hyr⟩ := List.pairwise_cons.1 h
    obtain ⟨ih1, ih2⟩ := dedupAdj_sorted (y :: r) hyr
    unfold dedupAdj
    by_cases hxy : x = y
    · subst hxy
      simp only [if_true]
      refine ⟨ih1, fun k => ?_⟩
      rw [ih2 k]; simp
    · simp only [hxy, if_false]
      refine ⟨List.pairwise_cons.2 ⟨?_, ih1⟩, fun k => ?_⟩
      · intro z hz
        have hz' : z ∈ y :: r := (ih2 z).1 hz
        have hxz : bLe x z := hx z hz'
        rcases (bLe_iff_lt_or_eq x z).1 hxz with hlt | heq
        · exact hlt
        · exfalso
          subst heq
          have hxy' : bLe x y := hx y List.mem_cons_self
          rcases List.mem_cons.1 hz' with h1 | h1
          · exact hxy h1
          · have hyx : bLe y x := (List.pairwise_cons.1 hyr).1 x h1
            exact hxy (bLe_antisymm hxy' hyx)
      · simp only [List.mem_cons, ih2 k]

/-- the bucket is strictly sorted and contains exactly the keys the objects contribute. -/
theorem bucket_sorted (objs : List Obj) :
    (bucket objs).Pairwise bLt ∧ ∀ k, k ∈ bucket objs ↔ k ∈ objs.flatMap objKeys := by
  have hsorted : ((objs.flatMap objKeys).mergeSort bytesLe).Pairwise bLe := by
    have := List.pairwise_mergeSort (le := bytesLe)
      (fun a b c h1 h2 => (bytesLe_iff a c).2 (bLe_trans ((bytesLe_iff a b).1 h1) ((bytesLe_iff b c).1 h2)))
      (fun a b => by
        rcases bLe_total a b with h | h
        · simp [(bytesLe_iff a b).2 h]
        · simp [(bytesLe_iff b a).2 h])
      (objs.flatMap objKeys)
    exact this.imp (fun h => (bytesLe_iff _ _).1 h)
  obtain ⟨h1, h2⟩ := dedupAdj_sorted _ hsorted
  refine ⟨h1, fun k => ?_⟩
  unfold bucket
  rw [h2 k, List.mem_mergeSort]

/-- over the real bucket: the visited keys are exactly the keys above the seek key that carry the prefix. -/
theorem scanKeys_bucket (objs : List Obj) (pref seek : Bytes) (hp : pref <+: seek) :
    scanKeys (bucket objs) pref seek = (bucket objs).filter (fun k => lexCmp seek k == .lt && pref.isPrefixOf k) :=
  scanKeys_eq_filter _ (bucket_sorted objs).1 pref seek hp

end NeoFS.Search
