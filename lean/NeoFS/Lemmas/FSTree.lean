import NeoFS.Model.FSTree
/-!
Byte-level lemmas of the file-tree model: the record encoding round trip and the two scanners on well-formed files.
Core Lean only.
-/
namespace NeoFS.FSTree

theorem beN_length (k n : Nat) : (beN k n).length = k := by
  induction k generalizing n with
  | zero => rfl
  | succ k ih => simp [beN, ih]

theorem fromBE_append_single (xs : Bytes) (b : Nat) : fromBE (xs ++ [b]) = fromBE xs * 256 + b := by
  simp [fromBE, List.foldl_append]

theorem fromBE_beN (k n : Nat) : fromBE (beN k n) = n % 256 ^ k := by
  induction k generalizing n with
  | zero => simp [beN, fromBE, Nat.mod_one]
  | succ k ih =>
    rw [beN, fromBE_append_single, ih, Nat.pow_succ]
    rw [Nat.mul_comm (256 ^ k) 256, Nat.mod_mul]
    omega

theorem beN_inj (k a b : Nat) (ha : a < 256 ^ k) (hb : b < 256 ^ k) (h : beN k a = beN k b) : a = b := by
  have := congrArg fromBE h
  rw [fromBE_beN, fromBE_beN, Nat.mod_eq_of_lt ha, Nat.mod_eq_of_lt hb] at this
  exact this

theorem record_length (a : Nat) (d : Bytes) : (record a d).length = dataOff + d.length := by
  simp [record, beN_length, dataOff]; omega

/-- what the reader sees at the start of a record: the id and the length come back -/
theorem parsePrefix_record (a : Nat) (d t : Bytes) :
    parsePrefix ((record a d ++ t).take dataOff) = some (beN 32 a, d.length % 2 ^ 32) := by
  have h1 : (record a d ++ t).take dataOff = [127, 0] ++ (beN 32 a ++ beN 4 d.length) := by
    have : record a d ++ t = ([127, 0] ++ (beN 32 a ++ beN 4 d.length)) ++ (d ++ t) := by simp [record]
    rw [this]
    apply List.take_left'
    simp [beN_length, dataOff]
  rw [h1]
  unfold parsePrefix
  have hl : ¬ ([127, 0] ++ (beN 32 a ++ beN 4 d.length)).length < dataOff := by simp [beN_length, dataOff]
  rw [if_neg hl]
  simp only [List.cons_append, List.nil_append]
  have t1 : (beN 32 a ++ beN 4 d.length).take 32 = beN 32 a := List.take_left' (beN_length _ _)
  have t2 : (beN 32 a ++ beN 4 d.length).drop 32 = beN 4 d.length := List.drop_left' (beN_length _ _)
  rw [t1, t2]
  have t3 : (beN 4 d.length).take 4 = beN 4 d.length := by
    apply List.take_of_length_le; simp [beN_length]
  rw [t3, fromBE_beN]

theorem drop_record (a : Nat) (d t : Bytes) : (record a d ++ t).drop dataOff = d ++ t := by
  have : record a d ++ t = ([127, 0] ++ (beN 32 a ++ beN 4 d.length)) ++ (d ++ t) := by simp [record]
  rw [this]
  apply List.drop_left'
  simp [beN_length, dataOff]


def IdOK (a : Nat) : Prop := a < 256 ^ 32
def DataOK (d : Bytes) : Prop := d ≠ [] ∧ d.length < 2 ^ 32
def RecsOK (rs : List (Nat × Bytes)) : Prop := ∀ r ∈ rs, IdOK r.1 ∧ DataOK r.2
def PlainOK (d : Bytes) : Prop := d.length < dataOff ∨ parsePrefix (d.take dataOff) = none

theorem encodeRecs_append (xs ys : List (Nat × Bytes)) : encodeRecs (xs ++ ys) = encodeRecs xs ++ encodeRecs ys := by
  induction xs with
  | nil => rfl
  | cons x xs ih => simp [encodeRecs, ih]

theorem encodeRecs_length_ge (rs : List (Nat × Bytes)) : rs.length ≤ (encodeRecs rs).length := by
  induction rs with
  | nil => simp
  | cons r rs ih => simp [encodeRecs, record_length, dataOff]; omega

/-- KEY LEMMA (round trip of the combined-file encoding): scanning a well-formed combined file for a member
returns exactly the bytes of its first record, whatever follows the records -/
theorem scanRaw_recs (a : Nat) (ha : IdOK a) (rs : List (Nat × Bytes)) (junk : Bytes) (hrs : RecsOK rs)
    (d : Bytes) (h : rs.lookup a = some d) (fuel : Nat) (hf : rs.length < fuel) (comb : Bool) :
    scanRaw (beN 32 a) fuel comb (encodeRecs rs ++ junk) = .ok d := by
  induction rs generalizing fuel comb with
  | nil => simp at h
  | cons r rs ih =>
    obtain ⟨f, rfl⟩ : ∃ f, fuel = f + 1 := ⟨fuel - 1, by simp at hf; omega⟩
    have hr := hrs r (by simp)
    have hrs' : RecsOK rs := fun x hx => hrs x (by simp [hx])
    have e : encodeRecs (r :: rs) ++ junk = record r.1 r.2 ++ (encodeRecs rs ++ junk) := by simp [encodeRecs]
    rw [e]
    unfold scanRaw
    have hl : ¬ (record r.1 r.2 ++ (encodeRecs rs ++ junk)).length < dataOff := by
      simp [record_length]; omega
    rw [if_neg hl, parsePrefix_record, drop_record]
    have hmod : r.2.length % 2 ^ 32 = r.2.length := Nat.mod_eq_of_lt hr.2.2
    simp only [hmod]
    by_cases hra : r.1 = a
    · have hd : d = r.2 := by
        rw [List.lookup_cons] at h
        simp [hra] at h; exact h.symm
      subst hd
      have hne : r.2.length ≠ 0 := by
        intro h0; exact hr.2.1 (List.eq_nil_of_length_eq_zero h0)
      simp [hra, hne]
    · have hne : beN 32 r.1 ≠ beN 32 a := fun hh => hra (beN_inj 32 _ _ hr.1 ha hh)
      rw [if_neg hne]
      have hdrop : (r.2 ++ (encodeRecs rs ++ junk)).drop r.2.length = encodeRecs rs ++ junk := List.drop_left' rfl
      rw [hdrop]
      apply ih hrs'
      · rw [List.lookup_cons] at h
        have : (a == r.1) = false := by simp; exact fun hh => hra hh.symm
        simpa [this] using h
      · simp at hf; omega

theorem scanRaw_plain (idb d : Bytes) (h : PlainOK d) (fuel : Nat) : scanRaw idb (fuel + 1) false d = .ok d := by
  unfold scanRaw
  rcases h with h | h
  · simp [h]
  · by_cases hl : d.length < dataOff
    · simp [hl]
    · simp [hl, h]


theorem encodeRecs_ne_nil (rs : List (Nat × Bytes)) (h : rs ≠ []) : encodeRecs rs ≠ [] := by
  intro h0
  have := encodeRecs_length_ge rs
  rw [h0] at this
  cases rs with
  | nil => exact h rfl
  | cons _ _ => simp at this

theorem streamScan_recs (buf a : Nat) (ha : IdOK a) (rs : List (Nat × Bytes)) (junk : Bytes) (hrs : RecsOK rs)
    (d : Bytes) (h : rs.lookup a = some d) (fuel : Nat) (hf : rs.length < fuel) :
    streamScan true buf (beN 32 a) fuel (encodeRecs rs ++ junk) = .ok d := by
  induction rs generalizing fuel with
  | nil => simp at h
  | cons r rs ih =>
    obtain ⟨f, rfl⟩ : ∃ f, fuel = f + 1 := ⟨fuel - 1, by simp at hf; omega⟩
    have hr := hrs r (by simp)
    have hrs' : RecsOK rs := fun x hx => hrs x (by simp [hx])
    have e : encodeRecs (r :: rs) ++ junk = record r.1 r.2 ++ (encodeRecs rs ++ junk) := by simp [encodeRecs]
    rw [e]
    unfold streamScan
    rw [parsePrefix_record, drop_record]
    have hmod : r.2.length % 2 ^ 32 = r.2.length := Nat.mod_eq_of_lt hr.2.2
    simp only [hmod]
    by_cases hra : r.1 = a
    · have hd : d = r.2 := by
        rw [List.lookup_cons] at h
        simp [hra] at h; exact h.symm
      subst hd
      have hne : r.2.length ≠ 0 := by
        intro h0; exact hr.2.1 (List.eq_nil_of_length_eq_zero h0)
      have hlen : ¬ ((r.2 ++ (encodeRecs rs ++ junk)).take (min r.2.length buf)).length < min r.2.length buf := by
        simp [List.length_take]; omega
      simp [hra, hne]
      omega
    · have hne : beN 32 r.1 ≠ beN 32 a := fun hh => hra (beN_inj 32 _ _ hr.1 ha hh)
      rw [if_neg hne]
      have hdrop : (r.2 ++ (encodeRecs rs ++ junk)).drop r.2.length = encodeRecs rs ++ junk := List.drop_left' rfl
      have hl : rs.lookup a = some d := by
        rw [List.lookup_cons] at h
        have : (a == r.1) = false := by simp; exact fun hh => hra hh.symm
        simpa [this] using h
      have hnn : encodeRecs rs ++ junk ≠ [] := by
        have : rs ≠ [] := by intro h0; rw [h0] at hl; simp at hl
        have := encodeRecs_ne_nil rs this
        simp [this]
      simp only [hdrop, if_neg hnn]
      exact ih hrs' hl f (by simp at hf; omega)

theorem streamRaw_recs (buf a : Nat) (ha : IdOK a) (rs : List (Nat × Bytes)) (junk : Bytes) (hrs : RecsOK rs)
    (d : Bytes) (h : rs.lookup a = some d) : streamRaw true buf a (encodeRecs rs ++ junk) = .ok d := by
  cases rs with
  | nil => simp at h
  | cons r rs =>
    unfold streamRaw
    have e : encodeRecs (r :: rs) ++ junk = record r.1 r.2 ++ (encodeRecs rs ++ junk) := by simp [encodeRecs]
    have hl : ¬ (encodeRecs (r :: rs) ++ junk).length < dataOff := by
      rw [e]; simp [record_length]; omega
    rw [if_neg hl]
    have hp : parsePrefix ((encodeRecs (r :: rs) ++ junk).take dataOff) = some (beN 32 r.1, r.2.length % 2 ^ 32) := by
      rw [e]; exact parsePrefix_record _ _ _
    rw [hp]
    apply streamScan_recs buf a ha (r :: rs) junk hrs d h
    have := encodeRecs_length_ge (r :: rs)
    simp at this ⊢; omega

theorem streamRaw_plain (buf a : Nat) (d : Bytes) (h : PlainOK d) : streamRaw true buf a d = .ok d := by
  unfold streamRaw
  rcases h with h | h
  · simp [h]
  · by_cases hl : d.length < dataOff
    · simp [hl]
    · simp [hl, h]

theorem extractRaw_recs (a : Nat) (ha : IdOK a) (rs : List (Nat × Bytes)) (junk : Bytes) (hrs : RecsOK rs)
    (d : Bytes) (h : rs.lookup a = some d) : extractRaw a (encodeRecs rs ++ junk) = .ok d := by
  unfold extractRaw
  apply scanRaw_recs a ha rs junk hrs d h
  have := encodeRecs_length_ge rs
  simp; omega

theorem extractRaw_plain (a : Nat) (d : Bytes) (h : PlainOK d) : extractRaw a d = .ok d :=
  scanRaw_plain _ d h _

/-- the file `f` holds the stored bytes `d` for address `a`: alone, or as the first record of `a` in a combined file -/
def Holds (f : Bytes) (a : Nat) (d : Bytes) : Prop :=
  (f = d ∧ PlainOK d) ∨ (∃ rs junk, f = encodeRecs rs ++ junk ∧ RecsOK rs ∧ rs.lookup a = some d)

/-- both readers return exactly the held bytes (for every header buffer length) -/
theorem holds_read (f : Bytes) (a : Nat) (d : Bytes) (ha : IdOK a) (h : Holds f a d) (buf : Nat) :
    extractRaw a f = .ok d ∧ streamRaw true buf a f = .ok d := by
  rcases h with ⟨rfl, hp⟩ | ⟨rs, junk, rfl, hrs, hl⟩
  · exact ⟨extractRaw_plain a _ hp, streamRaw_plain buf a _ hp⟩
  · exact ⟨extractRaw_recs a ha rs junk hrs d hl, streamRaw_recs buf a ha rs junk hrs d hl⟩

end NeoFS.FSTree
