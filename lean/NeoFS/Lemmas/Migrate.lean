import NeoFS.Model.Migrate
import NeoFS.Lemmas.LexOrder
import Mathlib.Tactic.Tauto
import Mathlib.Data.List.Forall2
import NeoFS.Lemmas.Int256
/-!
Lemmas of property C42 (metabase format upgrade): what every committed transaction of the upgrade preserves.

* `CI keys k`: `k` is the current-format meaning (`canon`) of some key of the bucket — the "old reading" of a bucket;
* `PInv`: the two attribute families mirror each other for the attributes the upgrade touches (the old format's
  invariant, `BktInv` as a proposition);
* every bucket step (`dropHomoBkt`, `assocBkt`) preserves `CI`, `PInv`, `Nodup`, the marks and the counters field;
* completeness (second part): `CurSpec` is what a bucket step guarantees about its budget and cursor,
  `iterBkts_cursor` what one transaction's bucket loop leaves behind, `PI` the phase-indexed invariant of a run,
  `completeDB_of_clean` the conclusion for a finished run.
-/
namespace NeoFS.Migrate
open NeoFS.Search (Bytes aHomo aAssoc oidBytes)
open NeoFS.Int256

theorem aHomo_ne_aAssoc : aHomo ≠ aAssoc := by decide

/-! ### bucket primitives -/

theorem mem_insertKey {k x : Key} {l : List Key} : x ∈ insertKey k l ↔ x = k ∨ x ∈ l := by
  unfold insertKey
  split
  · rename_i h
    have hk : k ∈ l := by simpa using h
    constructor
    · exact Or.inr
    · rintro (rfl | h') <;> assumption
  · simp

theorem mem_eraseKey {k x : Key} {l : List Key} : x ∈ eraseKey k l ↔ x ∈ l ∧ x ≠ k := by
  simp [eraseKey, List.mem_filter]

theorem nodup_insertKey {k : Key} {l : List Key} (h : l.Nodup) : (insertKey k l).Nodup := by
  unfold insertKey
  split
  · exact h
  · rename_i hc
    have : k ∉ l := by simpa using hc
    exact List.nodup_cons.2 ⟨this, h⟩

theorem nodup_eraseKey {k : Key} {l : List Key} (h : l.Nodup) : (eraseKey k l).Nodup := h.filter _

theorem mem_sortKeys {x : Key} {l : List Key} : x ∈ sortKeys l ↔ x ∈ l := by
  unfold sortKeys; exact List.mem_mergeSort

/-! ### the old reading of a bucket -/

/-- `k` is what some key of the bucket means in the current format -/
def CI (keys : List Key) (k : Key) : Prop := ∃ k0 ∈ keys, canon k0 = some k

/-- the old format's invariant (`BktInv`) as a proposition -/
structure PInv (keys : List Key) : Prop where
  fwdRev : ∀ id v, Key.plain id aAssoc v ∈ keys → Key.idAttr id aAssoc v ∈ keys
  revFwd : ∀ id v, Key.idAttr id aAssoc v ∈ keys → Key.plain id aAssoc v ∈ keys
  homoRevFwd : ∀ id v, Key.idAttr id aHomo v ∈ keys → Key.plain id aHomo v ∈ keys

theorem bktInv_iff (keys : List Key) : BktInv keys = true ↔ PInv keys := by
  unfold BktInv
  rw [List.all_eq_true]
  constructor
  · intro h
    refine ⟨fun id v hm => ?_, fun id v hm => ?_, fun id v hm => ?_⟩
    · have := h _ hm; simpa using this
    · have := h _ hm; simpa using this
    · have := h _ hm; simpa using this
  · intro ⟨h1, h2, h3⟩ k hk
    cases k with
    | plain id a v =>
      by_cases ha : a = aAssoc
      · subst ha; simpa using h1 id v hk
      · simp [ha]
    | idAttr id a v =>
      by_cases ha : a = aAssoc
      · subst ha; simpa using h2 id v hk
      · by_cases hb : a = aHomo
        · subst hb; simpa using h3 id v hk
        · simp [ha, hb]
    | _ => simp

theorem CI_erase_none {keys : List Key} {e : Key} (he : canon e = none) (x : Key) :
    CI (eraseKey e keys) x ↔ CI keys x := by
  constructor
  · rintro ⟨k0, hk, hc⟩; exact ⟨k0, (mem_eraseKey.1 hk).1, hc⟩
  · rintro ⟨k0, hk, hc⟩
    refine ⟨k0, mem_eraseKey.2 ⟨hk, ?_⟩, hc⟩
    rintro rfl; rw [he] at hc; cases hc

/-! ### `dropHomoBkt` -/

theorem isHomoFwd_iff {k : Key} : isHomoFwd k = true ↔ ∃ id v, k = .plain id aHomo v := by
  cases k <;> simp [isHomoFwd]

theorem canon_homoFwd (id : Nat) (v : Bytes) : canon (.plain id aHomo v) = none := by simp [canon]
theorem canon_homoRev (id : Nat) (v : Bytes) : canon (.idAttr id aHomo v) = none := by simp [canon]

/-- erasing one homomorphic-hash pair -/
theorem erase_homo_pair {keys : List Key} (id : Nat) (v : Bytes) (hp : PInv keys) (hn : keys.Nodup) :
    let keys' := eraseKey (.idAttr id aHomo v) (eraseKey (.plain id aHomo v) keys)
    (∀ x, CI keys' x ↔ CI keys x) ∧ PInv keys' ∧ keys'.Nodup ∧
    (∀ x, x ∈ keys' ↔ x ∈ keys ∧ x ≠ .plain id aHomo v ∧ x ≠ .idAttr id aHomo v) := by
  intro keys'
  have hm : ∀ x, x ∈ keys' ↔ x ∈ keys ∧ x ≠ .plain id aHomo v ∧ x ≠ .idAttr id aHomo v := by
    intro x; simp only [keys', mem_eraseKey]; tauto
  refine ⟨fun x => ?_, ⟨fun i w h => ?_, fun i w h => ?_, fun i w h => ?_⟩, nodup_eraseKey (nodup_eraseKey hn), hm⟩
  · rw [CI_erase_none (canon_homoRev id v), CI_erase_none (canon_homoFwd id v)]
  · have := (hm _).1 h
    refine (hm _).2 ⟨hp.fwdRev i w this.1, by simp, ?_⟩
    intro e; injection e with _ e2 _; exact aHomo_ne_aAssoc e2.symm
  · have := (hm _).1 h
    refine (hm _).2 ⟨hp.revFwd i w this.1, ?_, by simp⟩
    intro e; injection e with _ e2 _; exact aHomo_ne_aAssoc e2.symm
  · have := (hm _).1 h
    refine (hm _).2 ⟨hp.homoRevFwd i w this.1, ?_, by simp⟩
    intro e; injection e with e1 _ e3
    exact this.2.2 (by rw [e1, e3])

theorem foldl_erase_homo (ks : List Key) (hks : ∀ k ∈ ks, isHomoFwd k = true) :
    ∀ keys : List Key, PInv keys → keys.Nodup →
      let keys' := ks.foldl (fun l k => eraseKey (homoRev k) (eraseKey k l)) keys
      (∀ x, CI keys' x ↔ CI keys x) ∧ PInv keys' ∧ keys'.Nodup ∧
      (∀ x, x ∈ keys' ↔ x ∈ keys ∧ x ∉ ks ∧ x ∉ ks.map homoRev) := by
  induction ks with
  | nil => intro keys hp hn; exact ⟨fun _ => Iff.rfl, hp, hn, by simp⟩
  | cons k ks ih =>
    intro keys hp hn
    obtain ⟨id, v, rfl⟩ := isHomoFwd_iff.1 (hks k (List.mem_cons_self ..))
    simp only [List.foldl_cons]
    have hrev : homoRev (Key.plain id aHomo v) = .idAttr id aHomo v := rfl
    rw [hrev]
    obtain ⟨e1, e2, e3, e4⟩ := erase_homo_pair id v hp hn
    obtain ⟨f1, f2, f3, f4⟩ := ih (fun k hk => hks k (List.mem_cons_of_mem _ hk)) _ e2 e3
    refine ⟨fun x => (f1 x).trans (e1 x), f2, f3, fun x => ?_⟩
    rw [f4 x, e4 x]
    simp only [List.mem_cons, List.map_cons, hrev, not_or]
    tauto

/-! ### `assocBkt` -/

theorem newAssoc_some {v d : Bytes} (h : newAssoc v = some d) : d.length = 32 ∧ v.length ≠ 32 := by
  unfold newAssoc at h
  split at h
  · cases h
  · rename_i hv
    split at h
    · rename_i d' _
      split at h
      · rename_i hd
        cases h
        exact ⟨by simpa using hd, by simpa using hv⟩
      · cases h
    · cases h

theorem newAssoc_of_len32 {d : Bytes} (h : d.length = 32) : newAssoc d = none := by
  simp [newAssoc, h]

theorem rewritable_iff {k : Key} : rewritable k = true ↔ ∃ id v d, k = .plain id aAssoc v ∧ newAssoc v = some d := by
  cases k with
  | plain id a v =>
    simp only [rewritable, Bool.and_eq_true, beq_iff_eq, Option.isSome_iff_exists]
    constructor
    · rintro ⟨rfl, d, hd⟩; exact ⟨id, v, d, rfl, hd⟩
    · rintro ⟨id', v', d, e, hd⟩; injection e with e1 e2 e3; subst e1 e2 e3; exact ⟨rfl, d, hd⟩
  | _ => simp [rewritable]

/-- one rewrite of a rewritable key of the bucket -/
theorem rewrite_one {keys : List Key} (id : Nat) (v d : Bytes) (hd : newAssoc v = some d)
    (hk : Key.plain id aAssoc v ∈ keys) (hp : PInv keys) (hn : keys.Nodup) :
    let keys' := applyRewrite keys (.plain id aAssoc v)
    (∀ x, CI keys' x ↔ CI keys x) ∧ PInv keys' ∧ keys'.Nodup ∧
    (∀ x, x ∈ keys' ↔ (x = .idAttr id aAssoc d ∨ x = .plain id aAssoc d ∨ x ∈ keys) ∧ x ≠ .plain id aAssoc v ∧ x ≠ .idAttr id aAssoc v) := by
  intro keys'
  obtain ⟨hdl, hvl⟩ := newAssoc_some hd
  have hdv : d ≠ v := by intro e; rw [e] at hdl; exact hvl hdl
  have hcd : newAssoc d = none := newAssoc_of_len32 hdl
  have hm : ∀ x, x ∈ keys' ↔ (x = .idAttr id aAssoc d ∨ x = .plain id aAssoc d ∨ x ∈ keys) ∧ x ≠ .plain id aAssoc v ∧ x ≠ .idAttr id aAssoc v := by
    intro x
    simp only [keys', applyRewrite, rewriteOf, beq_self_eq_true, if_true, hd, Option.map_some, mem_eraseKey, mem_insertKey]
    tauto
  have hnf : Key.plain id aAssoc d ∈ keys' := (hm _).2 ⟨Or.inr (Or.inl rfl), by simp [hdv], by simp⟩
  have hnr : Key.idAttr id aAssoc d ∈ keys' := (hm _).2 ⟨Or.inl rfl, by simp, by simp [hdv]⟩
  have cnf : canon (.plain id aAssoc d) = some (.plain id aAssoc d) := by simp [canon, aHomo_ne_aAssoc.symm, hcd]
  have cnr : canon (.idAttr id aAssoc d) = some (.idAttr id aAssoc d) := by simp [canon, aHomo_ne_aAssoc.symm, hcd]
  have ck : canon (.plain id aAssoc v) = some (.plain id aAssoc d) := by simp [canon, aHomo_ne_aAssoc.symm, hd]
  have cr : canon (.idAttr id aAssoc v) = some (.idAttr id aAssoc d) := by simp [canon, aHomo_ne_aAssoc.symm, hd]
  refine ⟨fun x => ⟨?_, ?_⟩, ⟨fun i w h => ?_, fun i w h => ?_, fun i w h => ?_⟩, ?_, hm⟩
  · rintro ⟨x0, hx0, hc⟩
    rcases (hm x0).1 hx0 with ⟨rfl | rfl | hin, _, _⟩
    · rw [cnr] at hc; exact ⟨_, hp.fwdRev id v hk, by rw [cr]; exact hc⟩
    · rw [cnf] at hc; exact ⟨_, hk, by rw [ck]; exact hc⟩
    · exact ⟨x0, hin, hc⟩
  · rintro ⟨x0, hx0, hc⟩
    by_cases e1 : x0 = .plain id aAssoc v
    · subst e1; rw [ck] at hc; exact ⟨_, hnf, by rw [cnf]; exact hc⟩
    · by_cases e2 : x0 = .idAttr id aAssoc v
      · subst e2; rw [cr] at hc; exact ⟨_, hnr, by rw [cnr]; exact hc⟩
      · exact ⟨x0, (hm x0).2 ⟨Or.inr (Or.inr hx0), e1, e2⟩, hc⟩
  · -- fwdRev
    rcases (hm _).1 h with ⟨e | e | hin, n1, _⟩
    · cases e
    · injection e with e1 _ e3; subst e1 e3; exact hnr
    · refine (hm _).2 ⟨Or.inr (Or.inr (hp.fwdRev i w hin)), by simp, ?_⟩
      intro e; injection e with e1 _ e3; subst e1 e3; exact n1 rfl
  · -- revFwd
    rcases (hm _).1 h with ⟨e | e | hin, _, n2⟩
    · injection e with e1 _ e3; subst e1 e3; exact hnf
    · cases e
    · refine (hm _).2 ⟨Or.inr (Or.inr (hp.revFwd i w hin)), ?_, by simp⟩
      intro e; injection e with e1 _ e3; subst e1 e3; exact n2 rfl
  · -- homoRevFwd
    rcases (hm _).1 h with ⟨e | e | hin, _, _⟩
    · injection e with _ e2 _; exact absurd e2 aHomo_ne_aAssoc
    · cases e
    · refine (hm _).2 ⟨Or.inr (Or.inr (hp.homoRevFwd i w hin)), ?_, by simp⟩
      intro e; injection e with _ e2 _; exact aHomo_ne_aAssoc e2
  · simp only [keys', applyRewrite, rewriteOf, beq_self_eq_true, if_true, hd, Option.map_some]
    exact nodup_eraseKey (nodup_eraseKey (nodup_insertKey (nodup_insertKey hn)))

theorem foldl_rewrite (us : List Key) :
    ∀ keys : List Key, us.Nodup → (∀ u ∈ us, u ∈ keys ∧ rewritable u = true) → PInv keys → keys.Nodup →
      let keys' := us.foldl applyRewrite keys
      (∀ x, CI keys' x ↔ CI keys x) ∧ PInv keys' ∧ keys'.Nodup ∧
      (∀ x, rewritable x = true → (x ∈ keys' ↔ x ∈ keys ∧ x ∉ us)) ∧
      (∀ x, isHomoFwd x = true → (x ∈ keys' ↔ x ∈ keys)) := by
  induction us with
  | nil => intro keys _ _ hp hn; exact ⟨fun _ => Iff.rfl, hp, hn, by simp, by simp⟩
  | cons u us ih =>
    intro keys hnd hu hp hn
    obtain ⟨hin, hrw⟩ := hu u (List.mem_cons_self ..)
    obtain ⟨id, v, d, rfl, hd⟩ := rewritable_iff.1 hrw
    obtain ⟨hdl, hvl⟩ := newAssoc_some hd
    simp only [List.foldl_cons]
    obtain ⟨e1, e2, e3, e4⟩ := rewrite_one id v d hd hin hp hn
    have hnd' := List.nodup_cons.1 hnd
    have hrest : ∀ u' ∈ us, u' ∈ applyRewrite keys (.plain id aAssoc v) ∧ rewritable u' = true := by
      intro u' hu'
      obtain ⟨hin', hrw'⟩ := hu u' (List.mem_cons_of_mem _ hu')
      refine ⟨(e4 u').2 ⟨Or.inr (Or.inr hin'), ?_, ?_⟩, hrw'⟩
      · rintro rfl; exact hnd'.1 hu'
      · rintro rfl; simp [rewritable] at hrw'
    obtain ⟨f1, f2, f3, f4, f5⟩ := ih _ hnd'.2 hrest e2 e3
    refine ⟨fun x => (f1 x).trans (e1 x), f2, f3, fun x hx => ?_, fun x hx => ?_⟩
    · rw [f4 x hx, e4 x]
      obtain ⟨i, w, d', rfl, hd'⟩ := rewritable_iff.1 hx
      have hne : Key.plain i aAssoc w ≠ Key.plain id aAssoc d := by
        intro e; injection e with _ _ e3; subst e3
        rw [newAssoc_of_len32 hdl] at hd'; cases hd'
      simp only [List.mem_cons, not_or]
      constructor
      · rintro ⟨⟨h | h | h, n1, _⟩, n3⟩
        · cases h
        · exact absurd h hne
        · exact ⟨h, n1, n3⟩
      · rintro ⟨h, n1, n3⟩
        exact ⟨⟨Or.inr (Or.inr h), n1, by simp⟩, n3⟩
    · rw [f5 x hx, e4 x]
      obtain ⟨i, w, rfl⟩ := isHomoFwd_iff.1 hx
      constructor
      · rintro ⟨h | h | h, _, _⟩
        · cases h
        · injection h with _ e2 _; exact absurd e2 aHomo_ne_aAssoc
        · exact h
      · intro h
        refine ⟨Or.inr (Or.inr h), ?_, by simp⟩
        intro e; injection e with _ e2 _; exact aHomo_ne_aAssoc e2

/-! ### bucket steps -/

def GoodBkt (b : Bkt) : Prop := PInv b.keys ∧ b.keys.Nodup

/-- what a bucket step keeps -/
structure StepOK (b b' : Bkt) : Prop where
  ci : ∀ x, CI b'.keys x ↔ CI b.keys x
  good : GoodBkt b'
  red : b'.red = b.red
  ctr : b'.ctr = b.ctr

theorem homoCands_spec (keys : List Key) (limit : Nat) :
    ∀ k ∈ (sortKeys (keys.filter isHomoFwd)).take limit, isHomoFwd k = true := by
  intro k hk
  have := mem_sortKeys.1 (List.mem_of_mem_take hk)
  exact (List.mem_filter.1 this).2

theorem dropHomoBkt_ok (b : Bkt) (a : Option Bytes) (n : Nat) (hg : GoodBkt b) : StepOK b (dropHomoBkt b a n).1 := by
  obtain ⟨f1, f2, f3, _⟩ := foldl_erase_homo _ (homoCands_spec b.keys n) b.keys hg.1 hg.2
  exact ⟨f1, ⟨f2, f3⟩, rfl, rfl⟩

theorem assocWalk_spec (l : List Key) : ∀ rem : Nat,
    (assocWalk rem l).1.Sublist l ∧ ∀ u ∈ (assocWalk rem l).1, rewritable u = true := by
  induction l with
  | nil => intro rem; simp [assocWalk]
  | cons k ks ih =>
    intro rem
    unfold assocWalk
    by_cases hr : rewritable k = true
    · simp only [hr, if_true]
      by_cases h1 : rem ≤ 1
      · simp only [h1, if_true]
        exact ⟨by simp, by simp [hr]⟩
      · simp only [h1, if_false]
        obtain ⟨s1, s2⟩ := ih (rem - 1)
        refine ⟨s1.cons₂ k, ?_⟩
        intro u hu
        rcases List.mem_cons.1 hu with rfl | hu
        · exact hr
        · exact s2 u hu
    · simp only [hr]
      obtain ⟨s1, s2⟩ := ih rem
      exact ⟨s1.cons k, s2⟩

theorem assocScan_spec (keys : List Key) (after : Option Bytes) (hn : keys.Nodup) :
    (assocScan keys after).Nodup ∧ ∀ k ∈ assocScan keys after, k ∈ keys := by
  unfold assocScan sortKeys
  constructor
  · exact (List.mergeSort_perm _ _).nodup_iff.2 ((hn.filter _).filter _)
  · intro k hk
    have := List.mem_mergeSort.1 hk
    exact (List.mem_filter.1 (List.mem_filter.1 this).1).1

theorem assocBkt_ok (b : Bkt) (a : Option Bytes) (n : Nat) (hg : GoodBkt b) : StepOK b (assocBkt b a n).1 := by
  obtain ⟨s1, s2⟩ := assocWalk_spec (assocScan b.keys a) n
  obtain ⟨c1, c2⟩ := assocScan_spec b.keys a hg.2
  obtain ⟨f1, f2, f3, _⟩ := foldl_rewrite _ b.keys (s1.nodup c1)
    (fun u hu => ⟨c2 u (s1.subset hu), s2 u hu⟩) hg.1 hg.2
  exact ⟨f1, ⟨f2, f3⟩, rfl, rfl⟩

/-! ### the bucket list -/

/-- what every committed transaction keeps of a bucket: its container, its redundant-mark list and its old reading -/
def Rel (x y : Nat × Bkt) : Prop := x.1 = y.1 ∧ y.2.red = x.2.red ∧ ∀ k, CI y.2.keys k ↔ CI x.2.keys k

theorem Rel.refl (x : Nat × Bkt) : Rel x x := ⟨rfl, rfl, fun _ => Iff.rfl⟩

theorem Rel.trans {x y z : Nat × Bkt} (h1 : Rel x y) (h2 : Rel y z) : Rel x z :=
  ⟨h1.1.trans h2.1, h2.2.1.trans h1.2.1, fun k => (h2.2.2 k).trans (h1.2.2 k)⟩

def Good (l : List (Nat × Bkt)) : Prop := ∀ cb ∈ l, GoodBkt cb.2

theorem forall2_refl : ∀ l : List (Nat × Bkt), List.Forall₂ Rel l l
  | [] => .nil
  | x :: xs => .cons (Rel.refl x) (forall2_refl xs)

theorem forall2_trans : ∀ {a b c : List (Nat × Bkt)}, List.Forall₂ Rel a b → List.Forall₂ Rel b c → List.Forall₂ Rel a c
  | _, _, _, .nil, .nil => .nil
  | _, _, _, .cons h1 t1, .cons h2 t2 => .cons (h1.trans h2) (forall2_trans t1 t2)

theorem iterBkts_ok (ex : Nat → Bool) (f : BktStep) (frm : Nat)
    (hf : ∀ b a n, GoodBkt b → StepOK b (f b a n).1) :
    ∀ (l : List (Nat × Bkt)) (after : Option Bytes) (rem : Nat), Good l →
      List.Forall₂ Rel l (iterBkts ex f frm l after rem).1 ∧ Good (iterBkts ex f frm l after rem).1 := by
  intro l
  induction l with
  | nil => intro _ _ _; exact ⟨.nil, fun _ h => by cases h⟩
  | cons x xs ih =>
    intro after rem hg
    obtain ⟨c, b⟩ := x
    have hgx : GoodBkt b := hg (c, b) (List.mem_cons_self ..)
    have hgxs : Good xs := fun cb h => hg cb (List.mem_cons_of_mem _ h)
    unfold iterBkts
    split
    · obtain ⟨i1, i2⟩ := ih after rem hgxs
      refine ⟨.cons (Rel.refl _) i1, ?_⟩
      intro cb h
      rcases List.mem_cons.1 h with rfl | h
      · exact hgx
      · exact i2 cb h
    · have ok := hf b after rem hgx
      dsimp only
      split
      · refine ⟨.cons ⟨rfl, ok.red, ok.ci⟩ (forall2_refl xs), ?_⟩
        intro cb h
        rcases List.mem_cons.1 h with rfl | h
        · exact ok.good
        · exact hgxs cb h
      · obtain ⟨i1, i2⟩ := ih (f b after rem).2.2 (rem - (f b after rem).2.1) hgxs
        refine ⟨.cons ⟨rfl, ok.red, ok.ci⟩ i1, ?_⟩
        intro cb h
        rcases List.mem_cons.1 h with rfl | h
        · exact ok.good
        · exact i2 cb h

theorem syncAll_ok : ∀ l : List (Nat × Bkt), Good l → List.Forall₂ Rel l (syncAll l) ∧ Good (syncAll l) := by
  intro l hg
  induction l with
  | nil => exact ⟨.nil, fun _ h => by cases h⟩
  | cons x xs ih =>
    obtain ⟨i1, i2⟩ := ih (fun cb h => hg cb (List.mem_cons_of_mem _ h))
    refine ⟨.cons ⟨rfl, rfl, fun _ => Iff.rfl⟩ i1, ?_⟩
    intro cb h
    rcases List.mem_cons.1 h with rfl | h
    · exact hg x (List.mem_cons_self ..)
    · exact i2 cb h

/-- one committed transaction -/
theorem step_ok (ex : Nat → Bool) (B : Nat) (r : Run) (hg : Good r.db.bkts) :
    List.Forall₂ Rel r.db.bkts (step ex B r).db.bkts ∧ Good (step ex B r).db.bkts := by
  unfold step
  split
  · exact syncAll_ok _ hg
  · exact iterBkts_ok ex dropHomoBkt _ dropHomoBkt_ok _ _ _ hg
  · exact iterBkts_ok ex assocBkt _ assocBkt_ok _ _ _ hg
  · exact syncAll_ok _ hg
  · exact ⟨forall2_refl _, hg⟩
  · exact ⟨forall2_refl _, hg⟩

theorem start_bkts (db : DB) : (start db).db.bkts = db.bkts := by
  unfold start
  split
  · rfl
  · split
    · rfl
    · split
      · rfl
      · split <;> rfl

theorem steps_ok (ex : Nat → Bool) (B : Nat) : ∀ (n : Nat) (r : Run), Good r.db.bkts →
    List.Forall₂ Rel r.db.bkts (steps ex B n r).db.bkts ∧ Good (steps ex B n r).db.bkts := by
  intro n
  induction n with
  | zero => intro r hg; exact ⟨forall2_refl _, hg⟩
  | succ n ih =>
    intro r hg
    obtain ⟨s1, s2⟩ := step_ok ex B r hg
    obtain ⟨i1, i2⟩ := ih (step ex B r) s2
    exact ⟨forall2_trans s1 i1, i2⟩

/-! ### views -/

/-- what a reader of the database can observe of the live containers: which keys a bucket holds, and which garbage
marks are of the "redundant copy" kind -/
structure View where
  has : Nat → Key → Prop
  red : Nat → List Nat → Prop

/-- the current code's reading: the keys as they are -/
def absNew (ex : Nat → Bool) (db : DB) : View :=
  { has := fun c k => ex c = true ∧ ∃ b, (c, b) ∈ db.bkts ∧ k ∈ b.keys,
    red := fun c ids => ex c = true ∧ ∃ b, (c, b) ∈ db.bkts ∧ b.red = ids }

/-- the old formats' reading: every key stands for its current-format meaning (`canon`) -/
def absOld (ex : Nat → Bool) (db : DB) : View :=
  { has := fun c k => ex c = true ∧ ∃ b, (c, b) ∈ db.bkts ∧ CI b.keys k,
    red := fun c ids => ex c = true ∧ ∃ b, (c, b) ∈ db.bkts ∧ b.red = ids }

theorem forall2_view {l l' : List (Nat × Bkt)} (h : List.Forall₂ Rel l l') (c : Nat) :
    (∀ k, (∃ b, (c, b) ∈ l ∧ CI b.keys k) ↔ (∃ b, (c, b) ∈ l' ∧ CI b.keys k)) ∧
    (∀ ids, (∃ b, (c, b) ∈ l ∧ b.red = ids) ↔ (∃ b, (c, b) ∈ l' ∧ b.red = ids)) := by
  induction h with
  | nil => simp
  | @cons x y xs ys hxy _ ih =>
    obtain ⟨c1, b1⟩ := x
    obtain ⟨c2, b2⟩ := y
    obtain ⟨e1, e2, e3⟩ := hxy
    simp only at e1 e2 e3
    subst e1
    constructor
    · intro k
      simp only [List.mem_cons, Prod.mk.injEq]
      constructor
      · rintro ⟨b, ⟨rfl, rfl⟩ | hm, hc⟩
        · exact ⟨b2, Or.inl ⟨rfl, rfl⟩, (e3 k).2 hc⟩
        · obtain ⟨b', hm', hc'⟩ := (ih.1 k).1 ⟨b, hm, hc⟩
          exact ⟨b', Or.inr hm', hc'⟩
      · rintro ⟨b, ⟨rfl, rfl⟩ | hm, hc⟩
        · exact ⟨b1, Or.inl ⟨rfl, rfl⟩, (e3 k).1 hc⟩
        · obtain ⟨b', hm', hc'⟩ := (ih.1 k).2 ⟨b, hm, hc⟩
          exact ⟨b', Or.inr hm', hc'⟩
    · intro ids
      simp only [List.mem_cons, Prod.mk.injEq]
      constructor
      · rintro ⟨b, ⟨rfl, rfl⟩ | hm, hc⟩
        · exact ⟨b2, Or.inl ⟨rfl, rfl⟩, e2.trans hc⟩
        · obtain ⟨b', hm', hc'⟩ := (ih.2 ids).1 ⟨b, hm, hc⟩
          exact ⟨b', Or.inr hm', hc'⟩
      · rintro ⟨b, ⟨rfl, rfl⟩ | hm, hc⟩
        · exact ⟨b1, Or.inl ⟨rfl, rfl⟩, e2.symm.trans hc⟩
        · obtain ⟨b', hm', hc'⟩ := (ih.2 ids).2 ⟨b, hm, hc⟩
          exact ⟨b', Or.inr hm', hc'⟩

theorem absOld_congr (ex : Nat → Bool) {db db' : DB} (h : List.Forall₂ Rel db.bkts db'.bkts) :
    absOld ex db' = absOld ex db := by
  unfold absOld
  congr 1
  · funext c k
    exact propext (and_congr_right fun _ => ((forall2_view h c).1 k).symm)
  · funext c ids
    exact propext (and_congr_right fun _ => ((forall2_view h c).2 ids).symm)

theorem complete_CI {keys : List Key} (h : complete keys = true) (k : Key) : CI keys k ↔ k ∈ keys := by
  unfold complete at h
  rw [List.all_eq_true] at h
  constructor
  · rintro ⟨k0, hk0, hc⟩
    have := h k0 hk0
    simp only [beq_iff_eq] at this
    rw [this] at hc; cases hc; exact hk0
  · intro hk
    exact ⟨k, hk, by simpa using h k hk⟩

theorem absNew_eq_absOld (ex : Nat → Bool) (db : DB) (h : completeDB ex db = true) : absNew ex db = absOld ex db := by
  unfold completeDB at h
  rw [List.all_eq_true] at h
  unfold absNew absOld
  congr 1
  funext c k
  apply propext
  constructor
  · rintro ⟨hc, b, hm, hk⟩
    have := h (c, b) hm
    simp only [hc, Bool.not_true, Bool.false_or] at this
    exact ⟨hc, b, hm, (complete_CI this k).2 hk⟩
  · rintro ⟨hc, b, hm, hk⟩
    have := h (c, b) hm
    simp only [hc, Bool.not_true, Bool.false_or] at this
    exact ⟨hc, b, hm, (complete_CI this k).1 hk⟩

/-! ## Completeness: the cursors leave nothing behind -/

def noHomo (keys : List Key) : Prop := ∀ k ∈ keys, isHomoFwd k = false
def noRw (keys : List Key) : Prop := ∀ k ∈ keys, rewritable k = false
def rwAfter (keys : List Key) (a : Bytes) : Prop := ∀ k ∈ keys, rewritable k = true → lexCmp k.bytes a = .gt
/-- ids of the associate attribute-to-id keys fit 32 bytes (the key bytes determine the key) -/
def IdOK (keys : List Key) : Prop := ∀ id v, Key.plain id aAssoc v ∈ keys → id < 256 ^ 32

/-! ### `dropHomoBkt`: the step finishes the bucket unless it used its whole budget -/

theorem dropHomoBkt_spec (b : Bkt) (a : Option Bytes) (rem : Nat) (hg : GoodBkt b) :
    (dropHomoBkt b a rem).2.1 ≤ rem ∧ (dropHomoBkt b a rem).2.2 = none ∧
    ((dropHomoBkt b a rem).2.1 < rem → noHomo (dropHomoBkt b a rem).1.keys) ∧
    (∀ x ∈ (dropHomoBkt b a rem).1.keys, x ∈ b.keys) := by
  obtain ⟨_, _, _, f4⟩ := foldl_erase_homo _ (homoCands_spec b.keys rem) b.keys hg.1 hg.2
  refine ⟨?_, rfl, ?_, fun x hx => ((f4 x).1 hx).1⟩
  · simp only [dropHomoBkt, List.length_take]; omega
  · intro hlt x hx
    simp only [dropHomoBkt, List.length_take] at hlt
    have hall : (sortKeys (b.keys.filter isHomoFwd)).take rem = sortKeys (b.keys.filter isHomoFwd) :=
      List.take_of_length_le (by omega)
    have hx' := (f4 x).1 hx
    rw [hall] at hx'
    by_contra hne
    have hh : isHomoFwd x = true := by simpa using hne
    exact hx'.2.1 (mem_sortKeys.2 (List.mem_filter.2 ⟨hx'.1, hh⟩))

/-! ### key bytes determine an associate key -/

theorem oidBytes_inj {a b : Nat} (ha : a < 256 ^ 32) (hb : b < 256 ^ 32) (h : oidBytes a = oidBytes b) : a = b := by
  have := lexCmp_beBytes 32 a b ha hb
  unfold oidBytes at h
  rw [h, lexCmp_refl] at this
  unfold ordNat at this
  split at this
  · cases this
  · split at this
    · cases this
    · omega

theorem assoc_bytes_inj {id id' : Nat} {v v' : Bytes} (h1 : id < 256 ^ 32) (h2 : id' < 256 ^ 32)
    (h : (Key.plain id aAssoc v).bytes = (Key.plain id' aAssoc v').bytes) : Key.plain id aAssoc v = Key.plain id' aAssoc v' := by
  simp only [Key.bytes, List.cons.injEq, true_and] at h
  have h' := List.append_cancel_left h
  have h'' : v ++ (0 :: oidBytes id) = v' ++ (0 :: oidBytes id') := by simpa using h'
  have hl : (0 :: oidBytes id).length = (0 :: oidBytes id').length := by
    simp [oidBytes, beBytes_length]
  obtain ⟨e1, e2⟩ := List.append_inj' h'' hl
  injection e2 with _ e3
  rw [e1, oidBytes_inj h1 h2 e3]

/-! ### the scan loop -/

theorem assocWalk_cursor (l : List Key) : ∀ rem : Nat, 1 ≤ rem →
    (assocWalk rem l).1.length ≤ rem ∧
    ((assocWalk rem l).1.length < rem → ∀ x ∈ l, rewritable x = true → x ∈ (assocWalk rem l).1) ∧
    ((assocWalk rem l).1.length = rem → ∃ l1 k l2, l = l1 ++ k :: l2 ∧ (assocWalk rem l).2 = some k ∧
        ∀ x ∈ l1 ++ [k], rewritable x = true → x ∈ (assocWalk rem l).1) := by
  induction l with
  | nil =>
    intro rem h
    refine ⟨by simp [assocWalk], fun _ x hx => (by cases hx), fun heq => ?_⟩
    simp [assocWalk] at heq; omega
  | cons k ks ih =>
    intro rem hrem
    unfold assocWalk
    by_cases hr : rewritable k = true
    · simp only [hr, if_true]
      by_cases h1 : rem ≤ 1
      · have : rem = 1 := by omega
        subst this
        simp only [Nat.le_refl, if_true]
        refine ⟨by simp, by simp, fun _ => ⟨[], k, ks, rfl, rfl, ?_⟩⟩
        intro x hx _; simpa using hx
      · simp only [h1, if_false]
        obtain ⟨i1, i2, i3⟩ := ih (rem - 1) (by omega)
        simp only [List.length_cons]
        refine ⟨by omega, ?_, ?_⟩
        · intro hlt x hx hrx
          rcases List.mem_cons.1 hx with rfl | hx
          · exact List.mem_cons_self ..
          · exact List.mem_cons_of_mem _ (i2 (by omega) x hx hrx)
        · intro heq
          obtain ⟨l1, k', l2, e1, e2, e3⟩ := i3 (by omega)
          refine ⟨k :: l1, k', l2, by rw [e1]; rfl, by rw [e2]; rfl, ?_⟩
          intro x hx hrx
          rcases List.mem_cons.1 (by simpa using hx : x ∈ k :: (l1 ++ [k'])) with rfl | hx
          · exact List.mem_cons_self ..
          · exact List.mem_cons_of_mem _ (e3 x hx hrx)
    · simp only [hr]
      obtain ⟨i1, i2, i3⟩ := ih rem hrem
      refine ⟨i1, ?_, ?_⟩
      · intro hlt x hx hrx
        rcases List.mem_cons.1 hx with rfl | hx
        · exact absurd hrx hr
        · exact i2 hlt x hx hrx
      · intro heq
        obtain ⟨l1, k', l2, e1, e2, e3⟩ := i3 heq
        refine ⟨k :: l1, k', l2, by rw [e1]; rfl, by rw [e2]; rfl, ?_⟩
        intro x hx hrx
        rcases List.mem_cons.1 (by simpa using hx : x ∈ k :: (l1 ++ [k'])) with rfl | hx
        · exact absurd hrx hr
        · exact e3 x hx hrx

theorem foldl_rewrite_idok (us : List Key) :
    ∀ keys : List Key, us.Nodup → (∀ u ∈ us, u ∈ keys ∧ rewritable u = true) → PInv keys → keys.Nodup → IdOK keys →
      IdOK (us.foldl applyRewrite keys) := by
  induction us with
  | nil => intro keys _ _ _ _ h; exact h
  | cons u us ih =>
    intro keys hnd hu hp hn hid
    obtain ⟨hin, hrw⟩ := hu u (List.mem_cons_self ..)
    obtain ⟨id, v, d, rfl, hd⟩ := rewritable_iff.1 hrw
    simp only [List.foldl_cons]
    obtain ⟨_, e2, e3, e4⟩ := rewrite_one id v d hd hin hp hn
    have hnd' := List.nodup_cons.1 hnd
    have hrest : ∀ u' ∈ us, u' ∈ applyRewrite keys (.plain id aAssoc v) ∧ rewritable u' = true := by
      intro u' hu'
      obtain ⟨hin', hrw'⟩ := hu u' (List.mem_cons_of_mem _ hu')
      refine ⟨(e4 u').2 ⟨Or.inr (Or.inr hin'), ?_, ?_⟩, hrw'⟩
      · rintro rfl; exact hnd'.1 hu'
      · rintro rfl; simp [rewritable] at hrw'
    refine ih _ hnd'.2 hrest e2 e3 ?_
    intro i w hx
    rcases (e4 _).1 hx with ⟨e | e | h, _, _⟩
    · cases e
    · injection e with e1 _ _; subst e1; exact hid _ _ hin
    · exact hid _ _ h

theorem keyLe_iff (a b : Key) : Key.le a b = true ↔ bLe a.bytes b.bytes := by
  unfold Key.le bLe; simp

theorem sortKeys_pairwise (l : List Key) : (sortKeys l).Pairwise (fun a b => bLe a.bytes b.bytes) := by
  have := List.pairwise_mergeSort (le := Key.le)
    (fun a b c h1 h2 => (keyLe_iff a c).2 (bLe_trans ((keyLe_iff a b).1 h1) ((keyLe_iff b c).1 h2)))
    (fun a b => by
      rcases bLe_total a.bytes b.bytes with h | h
      · simp [(keyLe_iff a b).2 h]
      · simp [(keyLe_iff b a).2 h]) l
  exact this.imp (fun h => (keyLe_iff _ _).1 h)

theorem isAssocFwd_iff {k : Key} : isAssocFwd k = true ↔ ∃ id v, k = .plain id aAssoc v := by
  cases k <;> simp [isAssocFwd]

theorem rewritable_assocFwd {k : Key} (h : rewritable k = true) : isAssocFwd k = true := by
  obtain ⟨id, v, d, rfl, _⟩ := rewritable_iff.1 h
  simp [isAssocFwd]

theorem mem_assocScan {keys : List Key} {after : Option Bytes} {k : Key} :
    k ∈ assocScan keys after ↔ k ∈ keys ∧ isAssocFwd k = true ∧ (∀ a, after = some a → lexCmp k.bytes a = .gt) := by
  unfold assocScan
  rw [mem_sortKeys, List.mem_filter, List.mem_filter]
  cases after with
  | none => simp
  | some a => simp [and_assoc]

theorem assocBkt_spec (b : Bkt) (after : Option Bytes) (rem : Nat) (hrem : 1 ≤ rem) (hg : GoodBkt b) (hid : IdOK b.keys)
    (hafter : ∀ a, after = some a → rwAfter b.keys a) :
    (assocBkt b after rem).2.1 ≤ rem ∧
    ((assocBkt b after rem).2.1 < rem → (assocBkt b after rem).2.2 = none ∧ noRw (assocBkt b after rem).1.keys) ∧
    ((assocBkt b after rem).2.1 = rem → ∀ a', (assocBkt b after rem).2.2 = some a' → rwAfter (assocBkt b after rem).1.keys a') ∧
    (noHomo b.keys → noHomo (assocBkt b after rem).1.keys) ∧ IdOK (assocBkt b after rem).1.keys := by
  obtain ⟨s1, s2⟩ := assocWalk_spec (assocScan b.keys after) rem
  obtain ⟨c1, c2⟩ := assocScan_spec b.keys after hg.2
  have hus : ∀ u ∈ (assocWalk rem (assocScan b.keys after)).1, u ∈ b.keys ∧ rewritable u = true :=
    fun u hu => ⟨c2 u (s1.subset hu), s2 u hu⟩
  obtain ⟨_, _, _, f4, f5⟩ := foldl_rewrite _ b.keys (s1.nodup c1) hus hg.1 hg.2
  have fid := foldl_rewrite_idok _ b.keys (s1.nodup c1) hus hg.1 hg.2 hid
  obtain ⟨w1, w2, w3⟩ := assocWalk_cursor (assocScan b.keys after) rem hrem
  have hsorted : (assocScan b.keys after).Pairwise (fun a b => bLe a.bytes b.bytes) := by
    unfold assocScan; exact sortKeys_pairwise _
  have hlen : (assocBkt b after rem).2.1 = (assocWalk rem (assocScan b.keys after)).1.length := rfl
  -- a rewritable key of the bucket is in the scan
  have hscan : ∀ x ∈ b.keys, rewritable x = true → x ∈ assocScan b.keys after := by
    intro x hx hrx
    exact mem_assocScan.2 ⟨hx, rewritable_assocFwd hrx, fun a ha => hafter a ha x hx hrx⟩
  refine ⟨w1, ?_, ?_, ?_, fid⟩
  · intro hlt
    rw [hlen] at hlt
    refine ⟨by simp only [assocBkt]; rw [if_pos hlt], ?_⟩
    intro x hx
    by_contra hne
    have hrx : rewritable x = true := by simpa using hne
    have hx' := (f4 x hrx).1 hx
    exact hx'.2 (w2 hlt x (hscan x hx'.1 hrx) hrx)
  · intro heq a' ha'
    rw [hlen] at heq
    obtain ⟨l1, k, l2, e1, e2, e3⟩ := w3 heq
    have hk : a' = k.bytes := by
      simp only [assocBkt] at ha'
      rw [if_neg (by omega), e2] at ha'
      simpa using ha'.symm
    subst hk
    intro x hx hrx
    have hx' := (f4 x hrx).1 hx
    have hxL := hscan x hx'.1 hrx
    have hxl2 : x ∈ l2 := by
      rw [e1] at hxL
      rcases List.mem_append.1 hxL with h | h
      · exact absurd (e3 x (List.mem_append_left _ h) hrx) hx'.2
      · rcases List.mem_cons.1 h with rfl | h
        · exact absurd (e3 x (by simp) hrx) hx'.2
        · exact h
    -- sortedness: k ≤ x; distinct keys have distinct bytes
    have hsl : (l1 ++ k :: l2).Pairwise (fun a b => bLe a.bytes b.bytes) := by
      rw [← e1]; exact hsorted
    have hle : bLe k.bytes x.bytes := by
      have := (List.pairwise_append.1 hsl).2.1
      exact (List.pairwise_cons.1 this).1 x hxl2
    have hkL : k ∈ assocScan b.keys after := by rw [e1]; simp
    have hne : k ≠ x := by
      have hnd : (l1 ++ k :: l2).Nodup := by rw [← e1]; exact c1
      have := (List.nodup_cons.1 (List.nodup_append.1 hnd).2.1).1
      rintro rfl; exact this hxl2
    obtain ⟨ik, vk, rfl⟩ := isAssocFwd_iff.1 (mem_assocScan.1 hkL).2.1
    obtain ⟨ix, vx, rfl⟩ := isAssocFwd_iff.1 (rewritable_assocFwd hrx)
    have hbne : (Key.plain ik aAssoc vk).bytes ≠ (Key.plain ix aAssoc vx).bytes := fun e =>
      hne (assoc_bytes_inj (hid _ _ (c2 _ hkL)) (hid _ _ hx'.1) e)
    rcases (bLe_iff_lt_or_eq _ _).1 hle with h | h
    · exact (lexCmp_gt_iff _ _).2 h
    · exact absurd h hbne
  · intro hnh x hx
    by_contra hne
    have hh : isHomoFwd x = true := by simpa using hne
    have := (f5 x hh).1 hx
    rw [hnh x this] at hh; cases hh

/-! ### the bucket loop and its cursor -/

/-- what a bucket step guarantees about its budget and its cursor: `P` = the bucket is finished,
`Q keys a` = everything left to do in the bucket lies behind the in-bucket cursor `a`, `G` = what the step needs
and keeps -/
structure CurSpec (f : BktStep) (P : List Key → Prop) (Q : List Key → Bytes → Prop) (G : Nat × Bkt → Prop) : Prop where
  step : ∀ c b after rem, 1 ≤ rem → G (c, b) → (∀ a, after = some a → Q b.keys a) →
    (f b after rem).2.1 ≤ rem ∧
    ((f b after rem).2.1 < rem → (f b after rem).2.2 = none ∧ P (f b after rem).1.keys) ∧
    ((f b after rem).2.1 = rem → ∀ a', (f b after rem).2.2 = some a' → Q (f b after rem).1.keys a') ∧
    G (c, (f b after rem).1)

def SortedBkts (l : List (Nat × Bkt)) : Prop := l.Pairwise (fun x y => x.1 < y.1)

theorem iterBkts_cursor (ex : Nat → Bool) (f : BktStep) (frm : Nat) {P : List Key → Prop} {Q : List Key → Bytes → Prop}
    {G : Nat × Bkt → Prop} (hf : CurSpec f P Q G) :
    ∀ (l : List (Nat × Bkt)) (after : Option Bytes) (rem : Nat), 1 ≤ rem → SortedBkts l → (∀ cb ∈ l, G cb) →
      (∀ a, after = some a → ex frm = true ∧ (∃ b0, (frm, b0) ∈ l) ∧ ∀ b0, (frm, b0) ∈ l → Q b0.keys a) →
      (∀ cb ∈ (iterBkts ex f frm l after rem).1, G cb) ∧
      (iterBkts ex f frm l after rem).1.map (·.1) = l.map (·.1) ∧
      (∀ c b, (c, b) ∈ (iterBkts ex f frm l after rem).1 → (c < frm ∨ ex c = false) → (c, b) ∈ l) ∧
      ((iterBkts ex f frm l after rem).2 = none →
        ∀ c b, (c, b) ∈ (iterBkts ex f frm l after rem).1 → ex c = true → frm ≤ c → P b.keys) ∧
      (∀ c' a', (iterBkts ex f frm l after rem).2 = some (c', a') → ex c' = true ∧ frm ≤ c' ∧
        (∃ b, (c', b) ∈ (iterBkts ex f frm l after rem).1) ∧
        (∀ c b, (c, b) ∈ (iterBkts ex f frm l after rem).1 → ex c = true → frm ≤ c → c < c' → P b.keys) ∧
        (∀ b a, a' = some a → (c', b) ∈ (iterBkts ex f frm l after rem).1 → Q b.keys a)) := by
  intro l
  induction l with
  | nil =>
    intro after rem _ _ _ _
    simp [iterBkts]
  | cons x xs ih =>
    intro after rem hrem hs hG hpre
    obtain ⟨c, b⟩ := x
    have hs' := List.pairwise_cons.1 hs
    have hGb : G (c, b) := hG (c, b) (List.mem_cons_self ..)
    have hGxs : ∀ cb ∈ xs, G cb := fun cb h => hG cb (List.mem_cons_of_mem _ h)
    unfold iterBkts
    by_cases hskip : (decide (c < frm) || !ex c) = true
    · -- the bucket is not visited
      simp only [hskip, if_true]
      have hsk : c < frm ∨ ex c = false := by
        simp only [Bool.or_eq_true, decide_eq_true_eq, Bool.not_eq_true'] at hskip; exact hskip
      have hpre' : ∀ a, after = some a → ex frm = true ∧ (∃ b0, (frm, b0) ∈ xs) ∧ ∀ b0, (frm, b0) ∈ xs → Q b0.keys a := by
        intro a ha
        obtain ⟨p1, ⟨b0, p2⟩, p3⟩ := hpre a ha
        refine ⟨p1, ?_, fun b1 h1 => p3 b1 (List.mem_cons_of_mem _ h1)⟩
        rcases List.mem_cons.1 p2 with e | h
        · injection e with e1 _
          subst e1
          rcases hsk with h | h
          · omega
          · rw [h] at p1; cases p1
        · exact ⟨b0, h⟩
      obtain ⟨i1, i2, i3, i4, i5⟩ := ih after rem hrem hs'.2 hGxs hpre'
      refine ⟨?_, ?_, ?_, ?_, ?_⟩
      · intro cb h
        rcases List.mem_cons.1 h with rfl | h
        · exact hGb
        · exact i1 cb h
      · simp only [List.map_cons, i2]
      · intro c1 b1 h hc
        rcases List.mem_cons.1 h with e | h
        · rw [e]; exact List.mem_cons_self ..
        · exact List.mem_cons_of_mem _ (i3 c1 b1 h hc)
      · intro hn c1 b1 h he hfr
        rcases List.mem_cons.1 h with e | h
        · injection e with e1 _; subst e1
          rcases hsk with h | h
          · omega
          · rw [h] at he; cases he
        · exact i4 hn c1 b1 h he hfr
      · intro c' a' hc
        obtain ⟨j1, j2, ⟨bb, j3⟩, j4, j5⟩ := i5 c' a' hc
        refine ⟨j1, j2, ⟨bb, List.mem_cons_of_mem _ j3⟩, ?_, ?_⟩
        · intro c1 b1 h he hfr hlt
          rcases List.mem_cons.1 h with e | h
          · injection e with e1 _; subst e1
            rcases hsk with h | h
            · omega
            · rw [h] at he; cases he
          · exact j4 c1 b1 h he hfr hlt
        · intro b1 a ha h
          rcases List.mem_cons.1 h with e | h
          · injection e with e1 _; subst e1
            rcases hsk with h | h
            · omega
            · rw [h] at j1; cases j1
          · exact j5 b1 a ha h
    · -- the bucket is visited
      rw [if_neg hskip]
      dsimp only
      have hvis : ¬ c < frm ∧ ex c = true := by
        simp only [Bool.or_eq_true, decide_eq_true_eq, Bool.not_eq_true', not_or] at hskip
        exact ⟨hskip.1, by simpa using hskip.2⟩
      have hQ : ∀ a, after = some a → Q b.keys a := by
        intro a ha
        obtain ⟨_, ⟨b0, p2⟩, p3⟩ := hpre a ha
        rcases List.mem_cons.1 p2 with e | h
        · injection e with e1 e2; subst e1
          exact p3 b (List.mem_cons_self ..)
        · have := hs'.1 _ h
          simp only at this
          omega
      obtain ⟨t1, t2, t3, t4⟩ := hf.step c b after rem hrem hGb hQ
      by_cases hd : (f b after rem).2.1 = rem
      · have hb : ((f b after rem).2.1 == rem) = true := by simpa using hd
        rw [if_pos hb]
        refine ⟨?_, by simp, ?_, (fun h => by cases h), ?_⟩
        · intro cb h
          rcases List.mem_cons.1 h with rfl | h
          · exact t4
          · exact hGxs cb h
        · intro c1 b1 h hc
          rcases List.mem_cons.1 h with e | h
          · injection e with e1 _; subst e1
            rcases hc with h | h
            · exact absurd h hvis.1
            · rw [h] at hvis; cases hvis.2
          · exact List.mem_cons_of_mem _ h
        · intro c' a' hc
          have hc' : some (c, (f b after rem).2.2) = some (c', a') := hc
          injection hc' with hc'
          injection hc' with e1 e2
          subst e1 e2
          refine ⟨hvis.2, by omega, ⟨_, List.mem_cons_self ..⟩, ?_, ?_⟩
          · intro c1 b1 h _ _ hlt
            rcases List.mem_cons.1 h with e | h
            · injection e with e1 _; omega
            · have := hs'.1 _ h
              simp only at this; omega
          · intro b1 a ha h
            rcases List.mem_cons.1 h with e | h
            · injection e with _ e2; subst e2
              exact t3 hd a ha
            · have := hs'.1 _ h
              simp only at this; omega
      · have hne : ¬ ((f b after rem).2.1 == rem) = true := by simpa using hd
        rw [if_neg hne]
        have hlt : (f b after rem).2.1 < rem := by omega
        obtain ⟨u1, u2⟩ := t2 hlt
        have hpre' : ∀ a, (f b after rem).2.2 = some a →
            ex frm = true ∧ (∃ b0, (frm, b0) ∈ xs) ∧ ∀ b0, (frm, b0) ∈ xs → Q b0.keys a := by
          intro a ha; rw [u1] at ha; cases ha
        obtain ⟨i1, i2, i3, i4, i5⟩ := ih (f b after rem).2.2 (rem - (f b after rem).2.1) (by omega) hs'.2 hGxs hpre'
        have hcids : ∀ c1 b1, (c1, b1) ∈ (iterBkts ex f frm xs (f b after rem).2.2 (rem - (f b after rem).2.1)).1 → c < c1 := by
          intro c1 b1 h
          have : c1 ∈ (iterBkts ex f frm xs (f b after rem).2.2 (rem - (f b after rem).2.1)).1.map (·.1) :=
            List.mem_map.2 ⟨(c1, b1), h, rfl⟩
          rw [i2] at this
          obtain ⟨y, hy, e⟩ := List.mem_map.1 this
          have := hs'.1 y hy
          simp only at this e; omega
        refine ⟨?_, ?_, ?_, ?_, ?_⟩
        · intro cb h
          rcases List.mem_cons.1 h with rfl | h
          · exact t4
          · exact i1 cb h
        · simp only [List.map_cons, i2]
        · intro c1 b1 h hc
          rcases List.mem_cons.1 h with e | h
          · injection e with e1 _; subst e1
            rcases hc with h | h
            · exact absurd h hvis.1
            · rw [h] at hvis; cases hvis.2
          · exact List.mem_cons_of_mem _ (i3 c1 b1 h hc)
        · intro hn c1 b1 h he hfr
          rcases List.mem_cons.1 h with e | h
          · injection e with _ e2; subst e2; exact u2
          · exact i4 hn c1 b1 h he hfr
        · intro c' a' hc
          obtain ⟨j1, j2, ⟨bb, j3⟩, j4, j5⟩ := i5 c' a' hc
          refine ⟨j1, j2, ⟨bb, List.mem_cons_of_mem _ j3⟩, ?_, ?_⟩
          · intro c1 b1 h he hfr hlt'
            rcases List.mem_cons.1 h with e | h
            · injection e with _ e2; subst e2; exact u2
            · exact j4 c1 b1 h he hfr hlt'
          · intro b1 a ha h
            rcases List.mem_cons.1 h with e | h
            · injection e with e1 _
              have := hcids c' bb j3
              omega
            · exact j5 b1 a ha h

/-! ### the phases -/

def GH (cb : Nat × Bkt) : Prop := GoodBkt cb.2 ∧ IdOK cb.2.keys
def GA (ex : Nat → Bool) (cb : Nat × Bkt) : Prop := GoodBkt cb.2 ∧ IdOK cb.2.keys ∧ (ex cb.1 = true → noHomo cb.2.keys)

theorem homo_curSpec : CurSpec dropHomoBkt noHomo (fun _ _ => False) GH := by
  constructor
  intro c b after rem _ hG _
  obtain ⟨s1, s2, s3, s4⟩ := dropHomoBkt_spec b after rem hG.1
  refine ⟨s1, fun h => ⟨s2, s3 h⟩, fun _ a' ha' => ?_, (dropHomoBkt_ok b after rem hG.1).good, ?_⟩
  · rw [s2] at ha'; cases ha'
  · intro id v h; exact hG.2 id v (s4 _ h)

theorem assoc_curSpec (ex : Nat → Bool) : CurSpec assocBkt noRw rwAfter (GA ex) := by
  constructor
  intro c b after rem hrem hG hQ
  obtain ⟨s1, s2, s3, s4, s5⟩ := assocBkt_spec b after rem hrem hG.1 hG.2.1 hQ
  exact ⟨s1, s2, s3, (assocBkt_ok b after rem hG.1).good, s5, fun he => s4 (hG.2.2 he)⟩

def frmOf (cur : Cursor) : Nat := (cur.map (·.1)).getD 0

def Clean (ex : Nat → Bool) (l : List (Nat × Bkt)) : Prop :=
  (∀ cb ∈ l, GA ex cb) ∧ ∀ c b, (c, b) ∈ l → ex c = true → noRw b.keys

/-- the invariant of an upgrade run: what is known about the buckets in each phase -/
def PI (ex : Nat → Bool) (r : Run) : Prop :=
  SortedBkts r.db.bkts ∧
  match r.ph with
  | .v9 => ∀ cb ∈ r.db.bkts, GH cb
  | .homo cur => (∀ cb ∈ r.db.bkts, GH cb) ∧
      (∀ c b, (c, b) ∈ r.db.bkts → ex c = true → c < frmOf cur → noHomo b.keys) ∧ cur.bind (·.2) = none
  | .assoc cur => (∀ cb ∈ r.db.bkts, GA ex cb) ∧
      (∀ c b, (c, b) ∈ r.db.bkts → ex c = true → c < frmOf cur → noRw b.keys) ∧
      (∀ c0 a, cur = some (c0, some a) → ex c0 = true ∧ (∃ b0, (c0, b0) ∈ r.db.bkts) ∧
        ∀ b0, (c0, b0) ∈ r.db.bkts → rwAfter b0.keys a)
  | .final => Clean ex r.db.bkts
  | .done => Clean ex r.db.bkts
  | .refused => True

theorem sorted_of_map {l l' : List (Nat × Bkt)} (h : l'.map (·.1) = l.map (·.1)) (hs : SortedBkts l) : SortedBkts l' := by
  unfold SortedBkts at *
  have h1 : (l.map (·.1)).Pairwise (· < ·) := List.pairwise_map.2 hs
  rw [← h] at h1
  exact List.pairwise_map.1 h1

theorem syncAll_keys (l : List (Nat × Bkt)) : (syncAll l).map (·.1) = l.map (·.1) ∧
    ∀ cb ∈ syncAll l, ∃ cb0 ∈ l, cb.1 = cb0.1 ∧ cb.2.keys = cb0.2.keys := by
  unfold syncAll
  constructor
  · simp [List.map_map, Function.comp_def]
  · intro cb h
    obtain ⟨x, hx, rfl⟩ := List.mem_map.1 h
    exact ⟨x, hx, rfl, rfl⟩

theorem step_PI (ex : Nat → Bool) (B : Nat) (hB : 1 ≤ B) (r : Run) (h : PI ex r) : PI ex (step ex B r) := by
  obtain ⟨db, ph⟩ := r
  obtain ⟨hs, hph⟩ := h
  cases ph with
  | refused => exact ⟨hs, trivial⟩
  | done => exact ⟨hs, hph⟩
  | v9 =>
    simp only at hph hs
    obtain ⟨k1, k2⟩ := syncAll_keys db.bkts
    refine ⟨sorted_of_map k1 hs, ?_, ?_, rfl⟩
    · intro cb hcb
      obtain ⟨cb0, h0, _, e2⟩ := k2 cb hcb
      have := hph cb0 h0
      unfold GH GoodBkt at *
      rw [e2]; exact this
    · intro c b _ _ hlt
      simp [frmOf] at hlt
  | final =>
    simp only at hph hs
    obtain ⟨k1, k2⟩ := syncAll_keys db.bkts
    refine ⟨sorted_of_map k1 hs, ?_, ?_⟩
    · intro cb hcb
      obtain ⟨cb0, h0, e1, e2⟩ := k2 cb hcb
      have := hph.1 cb0 h0
      unfold GA GoodBkt at *
      rw [e1, e2]; exact this
    · intro c b hcb he
      obtain ⟨cb0, h0, e1, e2⟩ := k2 (c, b) hcb
      simp only at e1 e2
      rw [e2]
      exact hph.2 cb0.1 cb0.2 h0 (by rw [← e1]; exact he)
  | homo cur =>
    simp only at hph hs
    obtain ⟨g1, g2, g3⟩ := hph
    have hpre : ∀ a, cur.bind (·.2) = some a → ex (frmOf cur) = true ∧ (∃ b0, (frmOf cur, b0) ∈ db.bkts) ∧
        ∀ b0, (frmOf cur, b0) ∈ db.bkts → (fun _ _ => False) b0.keys a := by
      intro a ha; rw [g3] at ha; cases ha
    obtain ⟨i1, i2, i3, i4, i5⟩ := iterBkts_cursor ex dropHomoBkt (frmOf cur) homo_curSpec db.bkts (cur.bind (·.2)) B hB hs g1 hpre
    simp only [step, batch]
    change PI ex ⟨_, match (iterBkts ex dropHomoBkt (frmOf cur) db.bkts (cur.bind (·.2)) B).2 with
      | none => Phase.assoc none | some c => Phase.homo (some c)⟩
    cases hc : (iterBkts ex dropHomoBkt (frmOf cur) db.bkts (cur.bind (·.2)) B).2 with
    | none =>
      refine ⟨sorted_of_map i2 hs, ?_, ?_, ?_⟩
      · intro cb hcb
        refine ⟨(i1 cb hcb).1, (i1 cb hcb).2, fun he => ?_⟩
        by_cases hlt : cb.1 < frmOf cur
        · exact g2 cb.1 cb.2 (i3 cb.1 cb.2 hcb (Or.inl hlt)) he hlt
        · exact i4 hc cb.1 cb.2 hcb he (by omega)
      · intro c b _ _ hlt; simp [frmOf] at hlt
      · intro c0 a e; cases e
    | some cc =>
      obtain ⟨c', a'⟩ := cc
      obtain ⟨j1, j2, ⟨bb, j3⟩, j4, j5⟩ := i5 c' a' hc
      refine ⟨sorted_of_map i2 hs, i1, ?_, ?_⟩
      · intro c b hcb he hlt
        simp only [frmOf, Option.map_some, Option.getD_some] at hlt
        by_cases hlt' : c < frmOf cur
        · exact g2 c b (i3 c b hcb (Or.inl hlt')) he hlt'
        · exact j4 c b hcb he (by omega) hlt
      · cases a' with
        | none => rfl
        | some a => exact absurd (j5 bb a rfl j3) id
  | assoc cur =>
    simp only at hph hs
    obtain ⟨g1, g2, g3⟩ := hph
    have hpre : ∀ a, cur.bind (·.2) = some a → ex (frmOf cur) = true ∧ (∃ b0, (frmOf cur, b0) ∈ db.bkts) ∧
        ∀ b0, (frmOf cur, b0) ∈ db.bkts → rwAfter b0.keys a := by
      intro a ha
      cases cur with
      | none => cases ha
      | some cc =>
        obtain ⟨c0, a0⟩ := cc
        simp only [Option.bind_some] at ha
        subst ha
        simpa [frmOf] using g3 c0 a rfl
    obtain ⟨i1, i2, i3, i4, i5⟩ := iterBkts_cursor ex assocBkt (frmOf cur) (assoc_curSpec ex) db.bkts (cur.bind (·.2)) B hB hs g1 hpre
    simp only [step, batch]
    change PI ex ⟨_, match (iterBkts ex assocBkt (frmOf cur) db.bkts (cur.bind (·.2)) B).2 with
      | none => Phase.final | some c => Phase.assoc (some c)⟩
    cases hc : (iterBkts ex assocBkt (frmOf cur) db.bkts (cur.bind (·.2)) B).2 with
    | none =>
      refine ⟨sorted_of_map i2 hs, i1, ?_⟩
      intro c b hcb he
      by_cases hlt : c < frmOf cur
      · exact g2 c b (i3 c b hcb (Or.inl hlt)) he hlt
      · exact i4 hc c b hcb he (by omega)
    | some cc =>
      obtain ⟨c', a'⟩ := cc
      obtain ⟨j1, j2, j3, j4, j5⟩ := i5 c' a' hc
      refine ⟨sorted_of_map i2 hs, i1, ?_, ?_⟩
      · intro c b hcb he hlt
        simp only [frmOf, Option.map_some, Option.getD_some] at hlt
        by_cases hlt' : c < frmOf cur
        · exact g2 c b (i3 c b hcb (Or.inl hlt')) he hlt'
        · exact j4 c b hcb he (by omega) hlt
      · intro c0 a e
        injection e with e; injection e with e1 e2
        subst e1 e2
        exact ⟨j1, j3, fun b0 h0 => j5 b0 a rfl h0⟩

theorem steps_PI (ex : Nat → Bool) (B : Nat) (hB : 1 ≤ B) : ∀ n r, PI ex r → PI ex (steps ex B n r)
  | 0, _, h => h
  | n + 1, r, h => steps_PI ex B hB n _ (step_PI ex B hB r h)

theorem complete_of_clean {keys : List Key} (hp : PInv keys) (h1 : noHomo keys) (h2 : noRw keys) : complete keys = true := by
  unfold complete
  rw [List.all_eq_true]
  intro k hk
  have nr : ∀ id v, Key.plain id aAssoc v ∈ keys → newAssoc v = none := by
    intro id v hm
    have := h2 _ hm
    simp only [rewritable, beq_self_eq_true, Bool.true_and] at this
    cases hn : newAssoc v with
    | none => rfl
    | some d => rw [hn] at this; simp at this
  cases k with
  | plain id a v =>
    by_cases ha : a = aHomo
    · subst ha
      have := h1 _ hk
      simp [isHomoFwd] at this
    · by_cases hb : a = aAssoc
      · subst hb
        simp [canon, aHomo_ne_aAssoc.symm, nr id v hk]
      · simp [canon, ha, hb]
  | idAttr id a v =>
    by_cases ha : a = aHomo
    · subst ha
      have := h1 _ (hp.homoRevFwd id v hk)
      simp [isHomoFwd] at this
    · by_cases hb : a = aAssoc
      · subst hb
        simp [canon, aHomo_ne_aAssoc.symm, nr id v (hp.revFwd id v hk)]
      · simp [canon, ha, hb]
  | _ => simp [canon]

theorem completeDB_of_clean (ex : Nat → Bool) (db : DB) (h : Clean ex db.bkts) : completeDB ex db = true := by
  unfold completeDB
  rw [List.all_eq_true]
  intro cb hcb
  by_cases he : ex cb.1 = true
  · simp only [he, Bool.not_true, Bool.false_or]
    exact complete_of_clean (h.1 cb hcb).1.1 ((h.1 cb hcb).2.2 he) (h.2 cb.1 cb.2 hcb he)
  · simp [he]

/-! ### the decidable invariant -/

theorem sortedCids_iff : ∀ l : List (Nat × Bkt), sortedCids l = true ↔ SortedBkts l
  | [] => by simp [sortedCids, SortedBkts]
  | x :: r => by
    unfold SortedBkts
    simp only [sortedCids, Bool.and_eq_true, List.all_eq_true, decide_eq_true_eq, List.pairwise_cons]
    rw [sortedCids_iff r]; rfl

theorem idOKb_iff (keys : List Key) : idOKb keys = true ↔ IdOK keys := by
  unfold idOKb IdOK
  rw [List.all_eq_true]
  constructor
  · intro h id v hm
    have := h _ hm
    simpa using this
  · intro h k hk
    cases k with
    | plain id a v =>
      by_cases ha : a = aAssoc
      · subst ha; simpa using h id v hk
      · simp [ha]
    | _ => simp

end NeoFS.Migrate
