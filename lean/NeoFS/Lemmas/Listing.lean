import NeoFS.Model.Meta
import NeoFS.Lemmas.MetaWF
/-!
Lemmas about cursor listing (`listScan`, `Cnr.listPage`, `dbListStep`, `dbList`): one page is the next `count`
listable addresses after the cursor and the returned cursor is a position such that what lies after it is
exactly what was not yet returned.
-/
namespace NeoFS.Meta

/-- address order: container first, then object id (the order of the bolt keys) -/
def addrLt (a b : Nat × Nat) : Bool := a.1 < b.1 || (a.1 == b.1 && a.2 < b.2)

theorem addrLt_trans {a b c : Nat × Nat} (h1 : addrLt a b = true) (h2 : addrLt b c = true) : addrLt a c = true := by
  unfold addrLt at *
  simp only [Bool.or_eq_true, Bool.and_eq_true, decide_eq_true_eq, beq_iff_eq] at *
  omega

theorem addrLt_irrefl (a : Nat × Nat) : addrLt a a = false := by
  unfold addrLt; simp

/-! ### the scan of one bucket -/

theorem listScan_stop (P : Nat → Bool) (limit : Nat) : ∀ (ids : List Nat) (acc : List Nat) (last : Nat),
    limit ≤ acc.length → listScan P limit ids (acc, last) = (acc, last) := by
  intro ids
  induction ids with
  | nil => intro acc last _; rfl
  | cons i rest ih =>
    intro acc last h
    unfold listScan
    simp only [List.foldl_cons]
    have : (if (acc, last).1.length ≥ limit then (acc, last) else if !P i then ((acc, last).1, i) else ((acc, last).1 ++ [i], i)) = (acc, last) := by
      simp [h]
    rw [this]
    exact ih acc last h

theorem listScan_cons (P : Nat → Bool) (limit : Nat) (i : Nat) (rest acc : List Nat) (last : Nat) :
    listScan P limit (i :: rest) (acc, last) =
      if limit ≤ acc.length then (acc, last)
      else if P i then listScan P limit rest (acc ++ [i], i) else listScan P limit rest (acc, i) := by
  by_cases h : limit ≤ acc.length
  · rw [listScan_stop P limit (i :: rest) acc last h]; simp [h]
  · simp only [h, if_false]
    unfold listScan
    simp only [List.foldl_cons]
    cases hp : P i <;> simp [h, hp]

/-- **One bucket scan.** For ascending candidate ids all greater than `last`: the page is the first
`limit - |acc|` ids satisfying `P`; the returned position `r.2` is ≥ `last`, and the candidates after it that
satisfy `P` are exactly the ones not returned. -/
theorem listScan_spec (P : Nat → Bool) (limit : Nat) : ∀ (ids acc : List Nat) (last : Nat),
    (last :: ids).Pairwise (· < ·) →
    (listScan P limit ids (acc, last)).1 = acc ++ (ids.filter P).take (limit - acc.length) ∧
    last ≤ (listScan P limit ids (acc, last)).2 ∧
    (ids.filter fun i => decide ((listScan P limit ids (acc, last)).2 < i) && P i) = (ids.filter P).drop (limit - acc.length) := by
  intro ids
  induction ids with
  | nil => intro acc last _; simp [listScan]
  | cons i rest ih =>
    intro acc last hs
    rw [List.pairwise_cons] at hs
    have hlast_i : last < i := hs.1 i (by simp)
    have hrest : (i :: rest).Pairwise (· < ·) := hs.2
    rw [listScan_cons]
    by_cases hstop : limit ≤ acc.length
    · simp only [hstop, if_true]
      have hz : limit - acc.length = 0 := by omega
      rw [hz]
      refine ⟨by simp, Nat.le_refl _, ?_⟩
      simp only [List.drop_zero]
      apply List.filter_congr
      intro x hx
      have : last < x := hs.1 x hx
      simp [this]
    · simp only [hstop, if_false]
      cases hp : P i with
      | true =>
        simp only [if_true]
        obtain ⟨h1, h2, h3⟩ := ih (acc ++ [i]) i hrest
        have hk : limit - acc.length = (limit - (acc ++ [i]).length) + 1 := by simp; omega
        refine ⟨?_, by omega, ?_⟩
        · rw [h1, hk, List.filter_cons_of_pos (by simpa using hp), List.take_succ_cons]; simp
        · have hnot : ¬ ((listScan P limit rest (acc ++ [i], i)).2 < i) := by omega
          have e1 : (i :: rest).filter (fun j => decide ((listScan P limit rest (acc ++ [i], i)).2 < j) && P j)
              = rest.filter (fun j => decide ((listScan P limit rest (acc ++ [i], i)).2 < j) && P j) :=
            List.filter_cons_of_neg (by simp [hnot])
          have e2 : (i :: rest).filter P = i :: rest.filter P := List.filter_cons_of_pos (by simpa using hp)
          rw [e1, e2, hk, List.drop_succ_cons, h3]
      | false =>
        simp only [Bool.false_eq_true, if_false]
        obtain ⟨h1, h2, h3⟩ := ih acc i hrest
        refine ⟨?_, by omega, ?_⟩
        · rw [h1, List.filter_cons_of_neg (by simp [hp])]
        · have hnot : ¬ ((listScan P limit rest (acc, i)).2 < i) := by omega
          have e1 : (i :: rest).filter (fun j => decide ((listScan P limit rest (acc, i)).2 < j) && P j)
              = rest.filter (fun j => decide ((listScan P limit rest (acc, i)).2 < j) && P j) :=
            List.filter_cons_of_neg (by simp [hnot])
          have e2 : (i :: rest).filter P = rest.filter P := List.filter_cons_of_neg (by simp [hp])
          rw [e1, e2, h3]

/-! ### one bucket -/

/-- whether listing shows the id: `inGarbage` reports it as available -/
def Cnr.showable (c : Cnr) (i : Nat) : Bool := c.inGarbage i == .available

/-- the ids of a bucket that listing shows after position `after`, ascending -/
def Cnr.listableFrom (c : Cnr) (after : Nat) : List Nat :=
  if c.gcMark then [] else (c.listCands after).filter c.showable

theorem listCands_sorted (c : Cnr) (h : c.WF) (after : Nat) : (after :: c.listCands after).Pairwise (· < ·) := by
  rw [List.pairwise_cons]
  constructor
  · intro x hx
    unfold Cnr.listCands at hx
    rw [List.mem_map] at hx
    obtain ⟨r, hr, rfl⟩ := hx
    rw [List.mem_filter] at hr
    simp at hr; exact hr.2.2
  · unfold Cnr.listCands
    rw [List.pairwise_map]
    exact List.Pairwise.filter _ h.recs

theorem listCands_after (c : Cnr) (after k : Nat) (hk : after ≤ k) :
    (c.listCands after).filter (fun i => decide (k < i)) = c.listCands k := by
  unfold Cnr.listCands
  rw [List.filter_map, List.filter_filter]
  congr 1
  apply List.filter_congr
  intro r _
  simp only [Function.comp]
  by_cases h1 : k < r.id
  · have : after < r.id := by omega
    simp [h1, this]
  · simp [h1]

/-- **One bucket page.** -/
theorem listPage_spec (c : Cnr) (h : c.WF) (after limit : Nat) :
    (c.listPage after limit []).1 = (c.listableFrom after).take limit ∧
    after ≤ (c.listPage after limit []).2 ∧
    c.listableFrom (c.listPage after limit []).2 = (c.listableFrom after).drop limit := by
  unfold Cnr.listPage Cnr.listableFrom
  by_cases hg : c.gcMark
  · simp [hg]
  · simp only [hg, Bool.false_eq_true, if_false]
    rw [show (fun i => c.inGarbage i == Status.available) = c.showable from rfl]
    obtain ⟨h1, h2, h3⟩ := listScan_spec c.showable limit (c.listCands after) [] after (listCands_sorted c h after)
    refine ⟨by simpa using h1, h2, ?_⟩
    have h3' : (c.listCands after).filter (fun i => decide ((listScan c.showable limit (c.listCands after) ([], after)).2 < i) && c.showable i)
        = ((c.listCands after).filter c.showable).drop limit := by simpa using h3
    rw [← h3', ← listCands_after c after _ h2, List.filter_filter]
    apply List.filter_congr
    intro i _
    exact Bool.and_comm _ _

/-! ### the loop over buckets -/

/-- addresses one bucket contributes after position `after` -/
def bucketAddrs (b : Nat × Cnr) (after : Nat) : List (Nat × Nat) := (b.2.listableFrom after).map fun i => (b.1, i)

/-- what the loop over `bs` can still return when the cursor is `cur` -/
def afterAddrs (cur : Nat × Nat) (bs : List (Nat × Cnr)) : List (Nat × Nat) :=
  bs.flatMap fun b => bucketAddrs b (if b.1 != cur.1 then 0 else cur.2)

theorem foldl_dbListStep_stop (count : Nat) : ∀ (bs : List (Nat × Cnr)) (acc : List (Nat × Nat)) (cur : Nat × Nat),
    bs.foldl (dbListStep count) (acc, cur, true) = (acc, cur, true) := by
  intro bs
  induction bs with
  | nil => intro _ _; rfl
  | cons b bs ih => intro acc cur; simp only [List.foldl_cons]; unfold dbListStep; simp only [if_true]; exact ih acc cur

theorem afterAddrs_of_lt (cur cur' : Nat × Nat) (bs : List (Nat × Cnr)) (h1 : ∀ b ∈ bs, cur.1 < b.1) (h2 : ∀ b ∈ bs, cur'.1 < b.1) :
    afterAddrs cur bs = afterAddrs cur' bs := by
  unfold afterAddrs
  induction bs with
  | nil => rfl
  | cons b bs ih =>
    simp only [List.flatMap_cons]
    have a1 := h1 b (by simp)
    have a2 := h2 b (by simp)
    have e1 : (b.1 != cur.1) = true := by simp; omega
    have e2 : (b.1 != cur'.1) = true := by simp; omega
    rw [ih (fun x hx => h1 x (by simp [hx])) (fun x hx => h2 x (by simp [hx]))]
    simp [e1, e2]

theorem filter_bucketAddrs (b : Nat × Cnr) (after : Nat) (k : Nat × Nat) (hk : k.1 = b.1) (hle : after ≤ k.2) :
    (bucketAddrs b after).filter (addrLt k) = bucketAddrs b k.2 := by
  unfold bucketAddrs Cnr.listableFrom
  by_cases hg : b.2.gcMark
  · simp [hg]
  · simp only [hg, Bool.false_eq_true, if_false]
    rw [List.filter_map, ← listCands_after b.2 after k.2 hle, List.filter_filter, List.filter_filter]
    congr 1
    apply List.filter_congr
    intro i _
    simp only [Function.comp, addrLt, hk]
    simp [Bool.and_comm]

theorem filter_bucketAddrs_none (b : Nat × Cnr) (after : Nat) (k : Nat × Nat) (hk : b.1 < k.1) :
    (bucketAddrs b after).filter (addrLt k) = [] := by
  rw [List.filter_eq_nil_iff]
  intro a ha
  unfold bucketAddrs at ha
  rw [List.mem_map] at ha
  obtain ⟨i, _, rfl⟩ := ha
  unfold addrLt
  simp; omega

theorem filter_afterAddrs_all (cur k : Nat × Nat) (bs : List (Nat × Cnr)) (h : ∀ b ∈ bs, k.1 < b.1) :
    (afterAddrs cur bs).filter (addrLt k) = afterAddrs cur bs := by
  rw [List.filter_eq_self]
  intro a ha
  unfold afterAddrs at ha
  rw [List.mem_flatMap] at ha
  obtain ⟨b, hb, ha⟩ := ha
  unfold bucketAddrs at ha
  rw [List.mem_map] at ha
  obtain ⟨i, _, rfl⟩ := ha
  have := h b hb
  unfold addrLt; simp; omega

/-- **The loop.** For buckets in strictly ascending container order, none below the cursor's container: the
result is the accumulated prefix plus the next `count - |acc|` addresses; the final cursor `k` is not before the
old one and what lies after `k` is exactly what was not returned. -/
theorem foldl_dbListStep_spec (count : Nat) : ∀ (bs : List (Nat × Cnr)) (acc : List (Nat × Nat)) (cur : Nat × Nat),
    bs.Pairwise (fun a b => a.1 < b.1) → (∀ b ∈ bs, cur.1 ≤ b.1) → (∀ b ∈ bs, b.2.WF) → acc.length < count →
    let r := bs.foldl (dbListStep count) (acc, cur, false)
    r.1 = acc ++ (afterAddrs cur bs).take (count - acc.length) ∧
    (∀ a, addrLt r.2.1 a = true → addrLt cur a = true) ∧
    (afterAddrs cur bs).filter (addrLt r.2.1) = (afterAddrs cur bs).drop (count - acc.length) := by
  intro bs
  induction bs with
  | nil =>
    intro acc cur _ _ _ _
    simp only [List.foldl_nil, afterAddrs]
    refine ⟨by simp, fun a h => h, by simp⟩
  | cons b bs ih =>
    intro acc cur hs hge hwf hlen
    rw [List.pairwise_cons] at hs
    simp only [List.foldl_cons]
    -- one step on bucket b
    have hstep : dbListStep count (acc, cur, false) b =
        (acc ++ (b.2.listPage (if b.1 != cur.1 then 0 else cur.2) (count - acc.length) []).1.map (fun i => (b.1, i)),
         (b.1, (b.2.listPage (if b.1 != cur.1 then 0 else cur.2) (count - acc.length) []).2),
         decide ((acc ++ (b.2.listPage (if b.1 != cur.1 then 0 else cur.2) (count - acc.length) []).1.map (fun i => (b.1, i))).length ≥ count)) := by
      unfold dbListStep; simp
    rw [hstep]
    generalize hafter : (if b.1 != cur.1 then 0 else cur.2) = after
    obtain ⟨p1, p2, p3⟩ := listPage_spec b.2 (hwf b (by simp)) after (count - acc.length)
    generalize hpg : b.2.listPage after (count - acc.length) [] = pg at p1 p2 p3
    -- shape of the spec list
    have hsplit : afterAddrs cur (b :: bs) = bucketAddrs b after ++ afterAddrs cur bs := by
      unfold afterAddrs; rw [List.flatMap_cons, hafter]
    have hcur_lt : ∀ x ∈ bs, b.1 < x.1 := hs.1
    have hcur_b : cur.1 ≤ b.1 := hge b (by simp)
    -- monotonicity of the new cursor (b.1, pg.2) w.r.t. cur
    have hmono : ∀ a, addrLt (b.1, pg.2) a = true → addrLt cur a = true := by
      intro a ha
      unfold addrLt at ha ⊢
      simp only [Bool.or_eq_true, Bool.and_eq_true, decide_eq_true_eq, beq_iff_eq] at ha ⊢
      by_cases hne : b.1 = cur.1
      · have : after = cur.2 := by rw [← hafter]; simp [hne]
        omega
      · omega
    have hbucket_len : (bucketAddrs b after).length = (b.2.listableFrom after).length := by simp [bucketAddrs]
    have hpage : pg.1.map (fun i => (b.1, i)) = (bucketAddrs b after).take (count - acc.length) := by
      rw [p1]; unfold bucketAddrs; rw [List.map_take]
    have hrest_b : (bucketAddrs b after).filter (addrLt (b.1, pg.2)) = (bucketAddrs b after).drop (count - acc.length) := by
      rw [filter_bucketAddrs b after (b.1, pg.2) rfl p2]
      unfold bucketAddrs
      simp only
      rw [p3, List.map_drop]
    by_cases hfull : count ≤ (acc ++ pg.1.map (fun i => (b.1, i))).length
    · -- the page is full: the remaining buckets are not visited
      simp only [ge_iff_le, hfull, decide_true]
      rw [foldl_dbListStep_stop]
      simp only
      have hlenpage : count - acc.length ≤ (bucketAddrs b after).length := by
        rw [hpage] at hfull
        simp only [List.length_append, List.length_take] at hfull
        omega
      refine ⟨?_, hmono, ?_⟩
      · rw [hsplit, List.take_append_of_le_length hlenpage, hpage]
      · rw [hsplit, List.filter_append, hrest_b, List.drop_append_of_le_length hlenpage,
          filter_afterAddrs_all cur (b.1, pg.2) bs hcur_lt]
    · -- the whole bucket was taken, go on
      simp only [ge_iff_le, hfull, decide_false]
      have hlt : (acc ++ pg.1.map (fun i => (b.1, i))).length < count := by omega
      have hwhole : (bucketAddrs b after).length < count - acc.length := by
        rw [hpage] at hlt
        simp only [List.length_append, List.length_take] at hlt
        omega
      have hpage' : pg.1.map (fun i => (b.1, i)) = bucketAddrs b after := by
        rw [hpage, List.take_of_length_le (by omega)]
      obtain ⟨q1, q2, q3⟩ := ih (acc ++ pg.1.map (fun i => (b.1, i))) (b.1, pg.2) hs.2
        (fun x hx => Nat.le_of_lt (hcur_lt x hx)) (fun x hx => hwf x (by simp [hx])) hlt
      have hsame : afterAddrs (b.1, pg.2) bs = afterAddrs cur bs :=
        afterAddrs_of_lt _ _ bs hcur_lt (fun x hx => by have := hcur_lt x hx; omega)
      rw [hsame] at q1 q3
      try simp only at q1 q2 q3 ⊢
      have hB : (bucketAddrs b after).length < count - acc.length := hwhole
      have hn : count - (acc ++ pg.1.map (fun i => (b.1, i))).length = count - acc.length - (bucketAddrs b after).length := by
        rw [hpage']; simp only [List.length_append]; omega
      rw [hn] at q1 q3
      refine ⟨?_, fun a ha => hmono a (q2 a ha), ?_⟩
      · rw [q1, hsplit, hpage', List.append_assoc, List.take_append, List.take_of_length_le (Nat.le_of_lt hB)]
      · rw [hsplit, List.filter_append, q3]
        have hnil : (bucketAddrs b after).filter (addrLt (List.foldl (dbListStep count)
            (acc ++ List.map (fun i => (b.1, i)) pg.1, (b.1, pg.2), false) bs).2.1) = [] := by
          rw [List.filter_eq_nil_iff]
          intro a ha hk
          have h1 := q2 a hk
          have : a ∈ (bucketAddrs b after).filter (addrLt (b.1, pg.2)) := List.mem_filter.mpr ⟨ha, h1⟩
          rw [hrest_b, List.drop_of_length_le (Nat.le_of_lt hB)] at this
          simp at this
        rw [hnil, List.nil_append, List.drop_append, List.drop_of_length_le (Nat.le_of_lt hB), List.nil_append]

end NeoFS.Meta
