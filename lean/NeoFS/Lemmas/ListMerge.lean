import NeoFS.Model.ListMerge
/-!
`mergeGo` (the loop of `mergeListResults`): for a sorted accumulated result and a sorted page it yields a sorted,
duplicate-free list of at most `n` items that loses nothing it had room for and records the page's shard on
exactly the addresses the page contains.
-/
namespace NeoFS.EngList

def keys (l : List Item) : List Addr := l.map (·.addr)

def Sorted (l : List Addr) : Prop := l.Pairwise fun a b => lt a b = true

theorem lt_irrefl (a : Addr) : lt a a = false := by unfold lt; simp

theorem lt_trans {a b c : Addr} (h1 : lt a b = true) (h2 : lt b c = true) : lt a c = true := by
  unfold lt at *
  simp only [Bool.or_eq_true, Bool.and_eq_true, decide_eq_true_eq, beq_iff_eq] at *
  omega

theorem lt_asymm {a b : Addr} (h1 : lt a b = true) : lt b a = false := by
  unfold lt at *
  simp only [Bool.or_eq_true, Bool.and_eq_true, decide_eq_true_eq, beq_iff_eq] at h1
  simp only [Bool.or_eq_false_iff, Bool.and_eq_false_iff, decide_eq_false_iff_not, beq_eq_false_iff_ne]
  omega

theorem lt_total {a b : Addr} (h1 : lt a b = false) (h2 : a ≠ b) : lt b a = true := by
  unfold lt at *
  simp only [Bool.or_eq_false_iff, Bool.and_eq_false_iff, decide_eq_false_iff_not, beq_eq_false_iff_ne] at h1
  simp only [Bool.or_eq_true, Bool.and_eq_true, decide_eq_true_eq, beq_iff_eq]
  have : a.1 ≠ b.1 ∨ a.2 ≠ b.2 := by
    by_cases h : a.1 = b.1
    · right; intro h'; exact h2 (Prod.ext h h')
    · left; exact h
  omega

theorem sorted_nodup (l : List Addr) (h : Sorted l) : l.Nodup := by
  unfold Sorted at h
  exact h.imp (fun {a b} hab heq => by subst heq; rw [lt_irrefl] at hab; exact Bool.false_ne_true hab)

/-- what `mergeGo` guarantees -/
structure MergeSpec (n : Nat) (a : List Item) (b : List Addr) (sh : Nat) (r : List Item) : Prop where
  len : r.length ≤ n
  sorted : Sorted (keys r)
  /-- nothing appears from nowhere -/
  src : ∀ y ∈ keys r, y ∈ keys a ∨ y ∈ b
  /-- nothing is skipped: an input address is in the result or lies after a full result -/
  complete : ∀ x, (x ∈ keys a ∨ x ∈ b) → x ∈ keys r ∨ (r.length = n ∧ ∀ y ∈ keys r, lt y x = true)
  /-- holders: an old item keeps its holders and gets the shard iff the page has the address; a new item has just the shard -/
  holders : ∀ it ∈ r, (∃ i ∈ a, i.addr = it.addr ∧ it.holders = i.holders ++ (if it.addr ∈ b then [sh] else []))
      ∨ ((∀ i ∈ a, i.addr ≠ it.addr) ∧ it.addr ∈ b ∧ it.holders = [sh])

theorem sorted_cons_iff (x : Addr) (l : List Addr) : Sorted (x :: l) ↔ (∀ y ∈ l, lt x y = true) ∧ Sorted l := by
  unfold Sorted; exact List.pairwise_cons

/-- prepend the smallest element to a recursive result -/
theorem MergeSpec.cons {n : Nat} {a' : List Item} {b' : List Addr} {sh : Nat} {r : List Item}
    (hd : Item) (a : List Item) (b : List Addr)
    (rcs : MergeSpec n a' b' sh r)
    (hmin : ∀ y, (y ∈ keys a' ∨ y ∈ b') → lt hd.addr y = true)
    (hsrc_hd : hd.addr ∈ keys a ∨ hd.addr ∈ b)
    (hsub : ∀ y, (y ∈ keys a' ∨ y ∈ b') → (y ∈ keys a ∨ y ∈ b))
    (hcov : ∀ x, (x ∈ keys a ∨ x ∈ b) → x = hd.addr ∨ (x ∈ keys a' ∨ x ∈ b'))
    (hhold_hd : (∃ i ∈ a, i.addr = hd.addr ∧ hd.holders = i.holders ++ (if hd.addr ∈ b then [sh] else []))
      ∨ ((∀ i ∈ a, i.addr ≠ hd.addr) ∧ hd.addr ∈ b ∧ hd.holders = [sh]))
    (hhold_rec : ∀ it ∈ r,
      ((∃ i ∈ a', i.addr = it.addr ∧ it.holders = i.holders ++ (if it.addr ∈ b' then [sh] else []))
        ∨ ((∀ i ∈ a', i.addr ≠ it.addr) ∧ it.addr ∈ b' ∧ it.holders = [sh])) →
      ((∃ i ∈ a, i.addr = it.addr ∧ it.holders = i.holders ++ (if it.addr ∈ b then [sh] else []))
        ∨ ((∀ i ∈ a, i.addr ≠ it.addr) ∧ it.addr ∈ b ∧ it.holders = [sh]))) :
    MergeSpec (n + 1) a b sh (hd :: r) where
  len := by simp only [List.length_cons]; have := rcs.len; omega
  sorted := by
    unfold keys
    rw [List.map_cons, sorted_cons_iff]
    exact ⟨fun y hy => hmin y (rcs.src y hy), rcs.sorted⟩
  src := by
    intro y hy
    unfold keys at hy
    rw [List.map_cons, List.mem_cons] at hy
    rcases hy with rfl | hy
    · exact hsrc_hd
    · exact hsub y (rcs.src y hy)
  complete := by
    intro x hx
    rcases hcov x hx with rfl | hx'
    · left; simp [keys]
    · rcases rcs.complete x hx' with h | ⟨h1, h2⟩
      · left; unfold keys at h ⊢; rw [List.map_cons]; exact List.mem_cons_of_mem _ h
      · right
        refine ⟨by simp [h1], ?_⟩
        intro y hy
        unfold keys at hy
        rw [List.map_cons, List.mem_cons] at hy
        rcases hy with rfl | hy
        · exact hmin x hx'
        · exact h2 y hy
  holders := by
    intro it hit
    rw [List.mem_cons] at hit
    rcases hit with rfl | hit
    · exact hhold_hd
    · exact hhold_rec it hit (rcs.holders it hit)

theorem mem_keys_cons (x : Item) (xs : List Item) (y : Addr) : y ∈ keys (x :: xs) ↔ y = x.addr ∨ y ∈ keys xs := by
  unfold keys; simp

/-- **The merge loop.** -/
theorem mergeGo_spec : ∀ (n : Nat) (a : List Item) (b : List Addr) (sh : Nat),
    Sorted (keys a) → Sorted b → MergeSpec n a b sh (mergeGo n a b sh) := by
  intro n
  induction n with
  | zero =>
    intro a b sh _ _
    cases a <;> cases b <;>
      exact ⟨by simp [mergeGo], by simp [mergeGo, keys, Sorted], by simp [mergeGo, keys],
        fun x _ => Or.inr ⟨by simp [mergeGo], by simp [mergeGo, keys]⟩, by simp [mergeGo]⟩
  | succ n ih =>
    intro a b sh ha hb
    match a, b with
    | [], [] =>
      exact ⟨by simp [mergeGo], by simp [mergeGo, keys, Sorted], by simp [mergeGo, keys],
        fun x hx => by simp [keys] at hx, by simp [mergeGo]⟩
    | [], y :: ys =>
      rw [sorted_cons_iff] at hb
      have rcs := ih [] ys sh ha hb.2
      show MergeSpec (n + 1) [] (y :: ys) sh (⟨y, [sh]⟩ :: mergeGo n [] ys sh)
      refine MergeSpec.cons ⟨y, [sh]⟩ [] (y :: ys) rcs ?_ (Or.inr (by simp)) ?_ ?_ ?_ ?_
      · intro z hz; rcases hz with hz | hz
        · simp [keys] at hz
        · exact hb.1 z hz
      · intro z hz; rcases hz with hz | hz
        · simp [keys] at hz
        · exact Or.inr (List.mem_cons_of_mem _ hz)
      · intro x hx; rcases hx with hx | hx
        · simp [keys] at hx
        · rw [List.mem_cons] at hx; rcases hx with rfl | hx
          · exact Or.inl rfl
          · exact Or.inr (Or.inr hx)
      · exact Or.inr ⟨by simp, by simp, rfl⟩
      · intro it _ h
        rcases h with ⟨i, hi, _⟩ | ⟨_, h2, h3⟩
        · simp at hi
        · exact Or.inr ⟨by simp, List.mem_cons_of_mem _ h2, h3⟩
    | x :: xs, [] =>
      have ha' := ha
      unfold keys at ha'
      rw [List.map_cons, sorted_cons_iff] at ha'
      have rcs := ih xs [] sh ha'.2 hb
      show MergeSpec (n + 1) (x :: xs) [] sh (x :: mergeGo n xs [] sh)
      refine MergeSpec.cons x (x :: xs) [] rcs ?_ (Or.inl (by simp [keys])) ?_ ?_ ?_ ?_
      · intro z hz; rcases hz with hz | hz
        · exact ha'.1 z hz
        · simp at hz
      · intro z hz; rcases hz with hz | hz
        · exact Or.inl ((mem_keys_cons x xs z).mpr (Or.inr hz))
        · simp at hz
      · intro z hz; rcases hz with hz | hz
        · rcases (mem_keys_cons x xs z).mp hz with h | h
          · exact Or.inl h
          · exact Or.inr (Or.inl h)
        · simp at hz
      · exact Or.inl ⟨x, by simp, rfl, by simp⟩
      · intro it _ h
        rcases h with ⟨i, hi, h1, h2⟩ | ⟨_, h2, _⟩
        · exact Or.inl ⟨i, List.mem_cons_of_mem _ hi, h1, by simpa using h2⟩
        · simp at h2
    | x :: xs, y :: ys =>
      have ha' := ha
      unfold keys at ha'
      rw [List.map_cons, sorted_cons_iff] at ha'
      have hb' := hb
      rw [sorted_cons_iff] at hb'
      unfold mergeGo
      by_cases hyx : lt y x.addr = true
      · -- the page's head is smaller: a new item
        simp only [hyx, if_true]
        have rcs := ih (x :: xs) ys sh ha hb'.2
        have hy_lt_a : ∀ z ∈ keys (x :: xs), lt y z = true := by
          intro z hz
          rcases (mem_keys_cons x xs z).mp hz with rfl | hz
          · exact hyx
          · exact lt_trans hyx (ha'.1 z hz)
        have hy_notin : ∀ i ∈ x :: xs, i.addr ≠ y := by
          intro i hi heq
          have := hy_lt_a i.addr (List.mem_map_of_mem hi)
          rw [heq, lt_irrefl] at this
          exact Bool.false_ne_true this
        refine MergeSpec.cons ⟨y, [sh]⟩ (x :: xs) (y :: ys) rcs ?_ (Or.inr (by simp)) ?_ ?_ ?_ ?_
        · intro z hz; rcases hz with hz | hz
          · exact hy_lt_a z hz
          · exact hb'.1 z hz
        · intro z hz; rcases hz with hz | hz
          · exact Or.inl hz
          · exact Or.inr (List.mem_cons_of_mem _ hz)
        · intro z hz; rcases hz with hz | hz
          · exact Or.inr (Or.inl hz)
          · rw [List.mem_cons] at hz; rcases hz with rfl | hz
            · exact Or.inl rfl
            · exact Or.inr (Or.inr hz)
        · exact Or.inr ⟨hy_notin, by simp, rfl⟩
        · intro it _ h
          rcases h with ⟨i, hi, h1, h2⟩ | ⟨h1, h2, h3⟩
          · refine Or.inl ⟨i, hi, h1, ?_⟩
            have hne : it.addr ≠ y := by rw [← h1]; exact hy_notin i hi
            rw [h2]
            simp [List.mem_cons, hne]
          · exact Or.inr ⟨h1, List.mem_cons_of_mem _ h2, h3⟩
      · simp only [hyx, Bool.false_eq_true, if_false]
        have hyx' : lt y x.addr = false := by simpa using hyx
        by_cases heq : x.addr = y
        · -- same address: the shard joins the holders
          have hbeq : (x.addr == y) = true := by simp [heq]
          simp only [hbeq, if_true]
          have rcs := ih xs ys sh ha'.2 hb'.2
          refine MergeSpec.cons { x with holders := x.holders ++ [sh] } (x :: xs) (y :: ys) rcs ?_
            (Or.inl (by simp [keys])) ?_ ?_ ?_ ?_
          · intro z hz; simp only; rcases hz with hz | hz
            · exact ha'.1 z hz
            · rw [heq]; exact hb'.1 z hz
          · intro z hz; rcases hz with hz | hz
            · exact Or.inl ((mem_keys_cons x xs z).mpr (Or.inr hz))
            · exact Or.inr (List.mem_cons_of_mem _ hz)
          · intro z hz; simp only; rcases hz with hz | hz
            · rcases (mem_keys_cons x xs z).mp hz with h | h
              · exact Or.inl h
              · exact Or.inr (Or.inl h)
            · rw [List.mem_cons] at hz; rcases hz with rfl | hz
              · exact Or.inl heq.symm
              · exact Or.inr (Or.inr hz)
          · exact Or.inl ⟨x, by simp, rfl, by simp [heq]⟩
          · intro it _ h
            rcases h with ⟨i, hi, h1, h2⟩ | ⟨h1, h2, h3⟩
            · refine Or.inl ⟨i, List.mem_cons_of_mem _ hi, h1, ?_⟩
              have hne : it.addr ≠ y := by
                rw [← h1, ← heq]
                intro h'
                have := ha'.1 i.addr (List.mem_map_of_mem hi)
                rw [h', lt_irrefl] at this
                exact Bool.false_ne_true this
              rw [h2]; simp [List.mem_cons, hne]
            · refine Or.inr ⟨?_, List.mem_cons_of_mem _ h2, h3⟩
              intro i hi
              rw [List.mem_cons] at hi
              rcases hi with rfl | hi
              · intro h'
                have := hb'.1 it.addr h2
                rw [← h', heq, lt_irrefl] at this
                exact Bool.false_ne_true this
              · exact h1 i hi
        · -- the accumulated head is smaller
          have hne : (x.addr == y) = false := by simpa using heq
          simp only [hne, Bool.false_eq_true, if_false]
          have hxy : lt x.addr y = true := lt_total hyx' (fun h => heq h.symm)
          have rcs := ih xs (y :: ys) sh ha'.2 hb
          have hx_lt_b : ∀ z ∈ y :: ys, lt x.addr z = true := by
            intro z hz
            rw [List.mem_cons] at hz
            rcases hz with rfl | hz
            · exact hxy
            · exact lt_trans hxy (hb'.1 z hz)
          have hx_notin : x.addr ∉ y :: ys := by
            intro h
            have := hx_lt_b x.addr h
            rw [lt_irrefl] at this
            exact Bool.false_ne_true this
          refine MergeSpec.cons x (x :: xs) (y :: ys) rcs ?_ (Or.inl (by simp [keys])) ?_ ?_ ?_ ?_
          · intro z hz; rcases hz with hz | hz
            · exact ha'.1 z hz
            · exact hx_lt_b z hz
          · intro z hz; rcases hz with hz | hz
            · exact Or.inl ((mem_keys_cons x xs z).mpr (Or.inr hz))
            · exact Or.inr hz
          · intro z hz; rcases hz with hz | hz
            · rcases (mem_keys_cons x xs z).mp hz with h | h
              · exact Or.inl h
              · exact Or.inr (Or.inl h)
            · exact Or.inr (Or.inr hz)
          · exact Or.inl ⟨x, by simp, rfl, by simp [hx_notin]⟩
          · intro it _ h
            rcases h with ⟨i, hi, h1, h2⟩ | ⟨h1, h2, h3⟩
            · exact Or.inl ⟨i, List.mem_cons_of_mem _ hi, h1, h2⟩
            · refine Or.inr ⟨?_, h2, h3⟩
              intro i hi
              rw [List.mem_cons] at hi
              rcases hi with rfl | hi
              · intro h'; exact hx_notin (h' ▸ h2)
              · exact h1 i hi

end NeoFS.EngList
