/-
Order theory of `bytes.Compare` (`Int256.lexCmp` on byte lists) used by the search proofs (C03):
total order, compatibility with common prefixes, convexity of the set of strings with a given prefix, and the
key-order lemmas (`attr 00 val 00 oid` is ordered like `(val, oid)` for delimiter-free values; fixed-width values
followed by an id are ordered like the pair).
-/
import NeoFS.Model.Int256
namespace NeoFS.Int256

theorem lexCmp_refl (a : List Nat) : lexCmp a a = .eq := by
  induction a with
  | nil => rfl
  | cons x xs ih => simp [lexCmp, ih]

theorem lexCmp_eq_iff (a b : List Nat) : lexCmp a b = .eq ↔ a = b := by
  constructor
  · induction a generalizing b with
    | nil => cases b <;> simp [lexCmp]
    | cons x xs ih =>
      cases b with
      | nil => simp [lexCmp]
      | cons y ys =>
        simp only [lexCmp]
        split
        · simp
        · split
          · simp
          · intro h
            have : x = y := by omega
            rw [this, ih ys h]
  · rintro rfl; exact lexCmp_refl a

theorem lexCmp_swap (a b : List Nat) : (lexCmp a b).swap = lexCmp b a := by
  induction a generalizing b with
  | nil => cases b <;> simp [lexCmp, Ordering.swap]
  | cons x xs ih =>
    cases b with
    | nil => simp [lexCmp, Ordering.swap]
    | cons y ys =>
      simp only [lexCmp]
      by_cases h1 : x < y
      · have : ¬ y < x := by omega
        simp [h1, this, Ordering.swap]
      · by_cases h2 : y < x
        · simp [h1, h2, Ordering.swap]
        · simp [h1, h2, ih ys]

theorem lexCmp_gt_iff (a b : List Nat) : lexCmp a b = .gt ↔ lexCmp b a = .lt := by
  rw [← lexCmp_swap a b]; cases lexCmp a b <;> simp [Ordering.swap]

theorem lexCmp_lt_iff (a b : List Nat) : lexCmp a b = .lt ↔ lexCmp b a = .gt := by
  rw [← lexCmp_swap a b]; cases lexCmp a b <;> simp [Ordering.swap]

/-- `a ≤ b`. -/
def bLe (a b : List Nat) : Prop := lexCmp a b ≠ .gt
/-- `a < b`. -/
def bLt (a b : List Nat) : Prop := lexCmp a b = .lt

theorem bLe_refl (a : List Nat) : bLe a a := by simp [bLe, lexCmp_refl]

theorem bLt_iff_not_bLe (a b : List Nat) : bLt a b ↔ ¬ bLe b a := by
  unfold bLt bLe
  have := lexCmp_gt_iff b a
  constructor
  · intro h; simp [this.2 h]
  · intro h; exact this.1 (by simpa using h)

theorem bLe_cons (x y : Nat) (xs ys : List Nat) : bLe (x :: xs) (y :: ys) ↔ x < y ∨ (x = y ∧ bLe xs ys) := by
  unfold bLe; simp only [lexCmp]
  by_cases h1 : x < y
  · simp [h1]
  · by_cases h2 : y < x
    · simp [h1, h2]; omega
    · have : x = y := by omega
      simp [h1, h2, this]

theorem bLt_cons (x y : Nat) (xs ys : List Nat) : bLt (x :: xs) (y :: ys) ↔ x < y ∨ (x = y ∧ bLt xs ys) := by
  unfold bLt; simp only [lexCmp]
  by_cases h1 : x < y
  · simp [h1]
  · by_cases h2 : y < x
    · simp [h1, h2]; omega
    · have : x = y := by omega
      simp [h1, h2, this]

theorem bLe_nil (b : List Nat) : bLe [] b := by cases b <;> simp [bLe, lexCmp]
theorem not_bLe_cons_nil (x : Nat) (xs : List Nat) : ¬ bLe (x :: xs) [] := by simp [bLe, lexCmp]
theorem not_bLt_nil (a : List Nat) : ¬ bLt a [] := by cases a <;> simp [bLt, lexCmp]

theorem bLe_trans {a b c : List Nat} (h1 : bLe a b) (h2 : bLe b c) : bLe a c := by
  induction a generalizing b c with
  | nil => exact bLe_nil c
  | cons x xs ih =>
    cases b with
    | nil => exact absurd h1 (not_bLe_cons_nil x xs)
    | cons y ys =>
      cases c with
      | nil => exact absurd h2 (not_bLe_cons_nil y ys)
      | cons z zs =>
        rw [bLe_cons] at h1 h2 ⊢
        rcases h1 with h1 | ⟨rfl, h1⟩
        · rcases h2 with h2 | ⟨rfl, _⟩
          · left; omega
          · left; exact h1
        · rcases h2 with h2 | ⟨rfl, h2⟩
          · left; exact h2
          · right; exact ⟨rfl, ih h1 h2⟩

theorem bLt_of_bLt_of_bLe {a b c : List Nat} (h1 : bLt a b) (h2 : bLe b c) : bLt a c := by
  rw [bLt_iff_not_bLe] at h1 ⊢
  intro h3; exact h1 (bLe_trans h2 h3)

theorem bLt_of_bLe_of_bLt {a b c : List Nat} (h1 : bLe a b) (h2 : bLt b c) : bLt a c := by
  rw [bLt_iff_not_bLe] at h2 ⊢
  intro h3; exact h2 (bLe_trans h3 h1)

theorem bLe_of_bLt {a b : List Nat} (h : bLt a b) : bLe a b := by
  unfold bLt at h; unfold bLe; rw [h]; simp

theorem bLe_total (a b : List Nat) : bLe a b ∨ bLe b a := by
  by_cases h : bLe a b
  · exact Or.inl h
  · right; have := (bLt_iff_not_bLe b a).2 h; exact bLe_of_bLt this

theorem bLe_antisymm {a b : List Nat} (h1 : bLe a b) (h2 : bLe b a) : a = b := by
  rw [← lexCmp_eq_iff]
  unfold bLe at h1 h2
  have := lexCmp_gt_iff b a
  cases h : lexCmp a b
  · exact absurd (this.2 h) h2
  · rfl
  · exact absurd h h1

theorem bLe_iff_lt_or_eq (a b : List Nat) : bLe a b ↔ bLt a b ∨ a = b := by
  constructor
  · intro h
    by_cases h2 : bLe b a
    · exact Or.inr (bLe_antisymm h h2)
    · exact Or.inl ((bLt_iff_not_bLe a b).2 h2)
  · rintro (h | rfl)
    · exact bLe_of_bLt h
    · exact bLe_refl a

/-- common prefixes do not matter. -/
theorem lexCmp_append_left (p a b : List Nat) : lexCmp (p ++ a) (p ++ b) = lexCmp a b := by
  induction p with
  | nil => rfl
  | cons x xs ih => simp [lexCmp, ih]

/-- a prefix is below its extensions. -/
theorem bLe_of_prefix {c w : List Nat} (h : c <+: w) : bLe c w := by
  obtain ⟨t, rfl⟩ := h
  have := lexCmp_append_left c [] t
  simp only [List.append_nil] at this
  unfold bLe; rw [this]; cases t <;> simp [lexCmp]

/-- the strings with a given prefix form an interval. -/
theorem prefix_convex {c w w' : List Nat} (h1 : bLe c w) (h2 : bLe w w') (h3 : c <+: w') : c <+: w := by
  induction c generalizing w w' with
  | nil => exact List.nil_prefix
  | cons x cs ih =>
    obtain ⟨t, rfl⟩ := h3
    cases w with
    | nil => exact absurd h1 (not_bLe_cons_nil x cs)
    | cons y ys =>
      simp only [List.cons_append] at h2
      rw [bLe_cons] at h1 h2
      have hxy : x = y := by
        rcases h1 with h1 | ⟨h1, _⟩
        · rcases h2 with h2 | ⟨h2, _⟩ <;> omega
        · exact h1
      subst hxy
      have h1' : bLe cs ys := by rcases h1 with h1 | ⟨_, h1⟩; · omega
                                 · exact h1
      have h2' : bLe ys (cs ++ t) := by rcases h2 with h2 | ⟨_, h2⟩; · omega
                                        · exact h2
      have := ih h1' h2' (List.prefix_append cs t)
      exact (List.prefix_cons_inj x).2 this

/-! ### key order -/

/-- lexicographic combination of two comparisons. -/
def thenCmp (a b : Ordering) : Ordering := match a with | .eq => b | o => o

/-- delimiter-free values followed by the delimiter and anything: ordered like the pair. -/
theorem lexCmp_delim (v1 v2 r1 r2 : List Nat) (h1 : ∀ x ∈ v1, x ≠ 0) (h2 : ∀ x ∈ v2, x ≠ 0) :
    lexCmp (v1 ++ 0 :: r1) (v2 ++ 0 :: r2) = thenCmp (lexCmp v1 v2) (lexCmp r1 r2) := by
  induction v1 generalizing v2 with
  | nil =>
    cases v2 with
    | nil => simp [lexCmp, thenCmp]
    | cons y ys =>
      have : 0 < y := Nat.pos_of_ne_zero (h2 y (List.mem_cons_self))
      simp [lexCmp, thenCmp, this]
  | cons x xs ih =>
    have hx : 0 < x := Nat.pos_of_ne_zero (h1 x (List.mem_cons_self))
    cases v2 with
    | nil =>
      have : ¬ x < 0 := by omega
      simp [lexCmp, thenCmp, hx]
    | cons y ys =>
      simp only [List.cons_append, lexCmp]
      by_cases c1 : x < y
      · simp [c1, thenCmp]
      · by_cases c2 : y < x
        · simp [c1, c2, thenCmp]
        · simp only [c1, c2, if_false]
          exact ih ys (fun z hz => h1 z (List.mem_cons_of_mem _ hz)) (fun z hz => h2 z (List.mem_cons_of_mem _ hz))

/-- fixed-width values followed by anything: ordered like the pair. -/
theorem lexCmp_fixed (e1 e2 r1 r2 : List Nat) (hl : e1.length = e2.length) :
    lexCmp (e1 ++ r1) (e2 ++ r2) = thenCmp (lexCmp e1 e2) (lexCmp r1 r2) := by
  induction e1 generalizing e2 with
  | nil =>
    cases e2 with
    | nil => simp [lexCmp, thenCmp]
    | cons y ys => simp at hl
  | cons x xs ih =>
    cases e2 with
    | nil => simp at hl
    | cons y ys =>
      simp only [List.cons_append, lexCmp]
      by_cases c1 : x < y
      · simp [c1, thenCmp]
      · by_cases c2 : y < x
        · simp [c1, c2, thenCmp]
        · simp only [c1, c2, if_false]
          exact ih ys (by simpa using hl)

end NeoFS.Int256
