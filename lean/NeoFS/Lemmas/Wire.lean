import NeoFS.Model.Wire
import Mathlib.Tactic.IntervalCases
import Mathlib.Tactic.NormNum
/-!
Helper lemmas for C41: varint arithmetic, and what a successful tag / length parse says about the buffer.
-/
namespace NeoFS.Wire

theorem u8_lt (b : UInt8) : b.toNat < 256 := by
  have := UInt8.toNat_lt b; omega

/-- everything a successful `varintGo` tells: value below 2^64 (given the accumulator fits the bytes read so far),
between `i+1` and 10 bytes in total, none of them beyond the buffer -/
theorem varintGo_spec (b : Bytes) : ∀ (i acc v n : Nat), i ≤ 9 → acc < 2 ^ (7 * i) →
    varintGo i acc b = .ok (v, n) → v < 2 ^ 64 ∧ i + 1 ≤ n ∧ n ≤ 10 ∧ n ≤ i + b.length := by
  induction b with
  | nil => intro i acc v n _ _ h; simp [varintGo] at h
  | cons x xs ih =>
    intro i acc v n hi hacc h
    have hx := u8_lt x
    unfold varintGo at h
    split at h
    · -- tenth byte
      rename_i h9
      subst h9
      split at h
      · simp only [Except.ok.injEq, Prod.mk.injEq] at h
        obtain ⟨rfl, rfl⟩ := h
        norm_num at hacc ⊢
        omega
      · simp at h
    · split at h
      · rename_i h9 hlt
        simp only [Except.ok.injEq, Prod.mk.injEq] at h
        obtain ⟨rfl, rfl⟩ := h
        interval_cases i <;> norm_num at hacc ⊢ <;> omega
      · rename_i h9 hge
        have := ih (i + 1) (acc + (x.toNat - 128) * 2 ^ (7 * i)) v n (by omega)
          (by interval_cases i <;> norm_num at hacc ⊢ <;> omega) h
        simp only [List.length_cons]
        omega

theorem consumeVarint_bounds {b : Bytes} {v n : Nat} (h : consumeVarint b = .ok (v, n)) :
    v < 2 ^ 64 ∧ 1 ≤ n ∧ n ≤ 10 ∧ n ≤ b.length := by
  have := varintGo_spec b 0 0 v n (by omega) (by norm_num) h
  omega

theorem toNat_ofNat_lt {m : Nat} (h : m < 256) : (UInt8.ofNat m).toNat = m := by
  rw [UInt8.toNat_ofNat']; omega

/-- decoding the minimal encoding of `m` continues the accumulator by `m` shifted to the current position -/
theorem varintGo_encode (rest : Bytes) : ∀ (m i acc : Nat), i ≤ 9 → m < 2 ^ (64 - 7 * i) →
    varintGo i acc (encodeVarint m ++ rest) = .ok (acc + m * 2 ^ (7 * i), i + (encodeVarint m).length) := by
  intro m
  induction m using Nat.strong_induction_on with
  | _ m ih =>
    intro i acc hi hm
    rw [encodeVarint]
    by_cases hlt : m < 128
    · simp only [hlt, if_true, List.cons_append, List.nil_append, List.length_cons, List.length_nil]
      unfold varintGo
      rw [toNat_ofNat_lt (by omega)]
      by_cases h9 : i = 9
      · subst h9
        have : m < 2 := by norm_num at hm; exact hm
        simp [this]
      · simp [h9, hlt]
    · simp only [hlt, if_false, List.cons_append, List.length_cons]
      unfold varintGo
      rw [toNat_ofNat_lt (by omega)]
      have h9 : i ≠ 9 := by
        rintro rfl
        norm_num at hm; omega
      have hi8 : i ≤ 8 := by
        by_contra hc
        have : i = 9 := by omega
        exact h9 this
      simp only [h9, if_false, show ¬ (m % 128 + 128 < 128) by omega]
      rw [ih (m / 128) (by omega) (i + 1) _ (by omega)
        (by interval_cases i <;> norm_num at hm ⊢ <;> omega)]
      congr 1
      refine Prod.ext ?_ ?_
      · simp only
        interval_cases i <;> norm_num <;> omega
      · simp only; omega

theorem encodeVarint_length_pos (m : Nat) : 1 ≤ (encodeVarint m).length := by
  rw [encodeVarint]; split <;> simp

end NeoFS.Wire

namespace NeoFS.Wire

/-! ## what successful primitive parses say -/

theorem decodeTag_spec {ok : Nat → Bool} {b : Bytes} {num wt n : Nat} (h : decodeTag ok b = some (num, wt, n)) :
    1 ≤ n ∧ n ≤ b.length ∧ wt < 8 ∧ ok num = true := by
  unfold decodeTag at h
  split at h
  · rename_i v k hv
    have := consumeVarint_bounds hv
    split at h
    · simp only [Option.some.injEq, Prod.mk.injEq] at h
      obtain ⟨rfl, rfl, rfl⟩ := h
      refine ⟨by omega, by omega, Nat.mod_lt _ (by omega), by assumption⟩
    · simp at h
  · simp at h

theorem parseTag_spec {b : Bytes} {num wt n : Nat} (h : parseTag b = .ok (num, wt, n)) :
    decodeTag numOKParse b = some (num, wt, n) := by
  unfold parseTag at h
  split at h
  · simp only [Except.ok.injEq] at h; subst h; assumption
  · simp at h

theorem parseLEN_spec {b : Bytes} {ln n : Nat} (h : parseLEN b = some (ln, n)) :
    consumeVarint b = .ok (ln, n) ∧ 1 ≤ n ∧ n + ln ≤ b.length ∧ ln ≤ maxInt := by
  unfold parseLEN at h
  split at h
  · rename_i u k hv
    have := consumeVarint_bounds hv
    split at h
    · simp at h
    · split at h
      · simp at h
      · simp only [Option.some.injEq, Prod.mk.injEq] at h
        obtain ⟨rfl, rfl⟩ := h
        exact ⟨hv, by omega, by omega, by omega⟩
  · simp at h

/-- bounds that are safe to slice a buffer of `n` bytes with -/
def InR (f : FB) (n : Nat) : Prop := f.from_ ≤ f.vfrom ∧ f.vfrom ≤ f.to_ ∧ f.to_ ≤ n

theorem InR_zero (n : Nat) : InR {} n := by simp [InR]

theorem plfb_spec {buf : Bytes} {off tagLn wt : Nat} {f : FB} (h : parseLENFieldBounds buf off tagLn wt = .ok f)
    (hoff : off + tagLn ≤ buf.length) :
    wt = 2 ∧ InR f buf.length ∧ f.from_ = off ∧ off + tagLn < f.vfrom ∧
      ∃ ln n, parseLEN (buf.drop (off + tagLn)) = some (ln, n) ∧ f = ⟨off, off + tagLn + n, off + tagLn + n + ln⟩ := by
  unfold parseLENFieldBounds at h
  split at h
  · simp at h
  · rename_i hwt
    split at h
    · simp at h
    · rename_i ln n hp
      simp only [Except.ok.injEq] at h
      subst h
      have := parseLEN_spec hp
      simp only [List.length_drop] at this
      refine ⟨by omega, ⟨by simp; omega, by simp, by simp; omega⟩, rfl, by simp; omega, ln, n, hp, rfl⟩

/-- the scan loops only ever report sliceable bounds, and never run out of fuel -/
theorem boundsLoop_safe (buf : Bytes) (last : Nat) (slot : Nat → Nat) :
    ∀ (fuel off prev : Nat) (idf sigf : FB), InR idf buf.length → InR sigf buf.length →
      prev < last → last + 1 ≤ fuel + prev →
      (∀ i s h, boundsLoop buf last slot fuel off prev idf sigf = .ok (i, s, h) →
        InR i buf.length ∧ InR s buf.length ∧ InR h buf.length) ∧
      boundsLoop buf last slot fuel off prev idf sigf ≠ .error .fuel := by
  intro fuel
  induction fuel with
  | zero => intro off prev idf sigf _ _ h1 h2; omega
  | succ fuel ih =>
    intro off prev idf sigf hi hs hprev hfuel
    unfold boundsLoop
    split
    · rename_i e he
      unfold parseTag at he
      split at he <;> simp at he
      subst he
      simp
    · rename_i num wt n ht
      have hts := decodeTag_spec (parseTag_spec ht)
      simp only [List.length_drop] at hts
      split
      · exact ⟨by intro i s h hh; simp only [Except.ok.injEq, Prod.mk.injEq] at hh; obtain ⟨rfl, rfl, rfl⟩ := hh; exact ⟨hi, hs, InR_zero _⟩, by simp⟩
      · split
        · simp
        · split
          · simp
          · split
            · rename_i e hp
              refine ⟨by simp, ?_⟩
              unfold parseLENFieldBounds at hp
              split at hp
              · simp at hp; subst hp; simp
              · split at hp
                · simp at hp; subst hp; simp
                · simp at hp
            · rename_i f hp
              have hf := plfb_spec hp (by omega)
              split
              · exact ⟨by intro i s h hh; simp only [Except.ok.injEq, Prod.mk.injEq] at hh; obtain ⟨rfl, rfl, rfl⟩ := hh; exact ⟨hi, hs, hf.2.1⟩, by simp⟩
              · have hi' : InR (if slot num = 0 then f else idf) buf.length := by split <;> [exact hf.2.1; exact hi]
                have hs' : InR (if slot num = 1 then f else sigf) buf.length := by split <;> [exact hf.2.1; exact hs]
                simp only
                split
                · exact ⟨by intro i s h hh; simp only [Except.ok.injEq, Prod.mk.injEq] at hh; obtain ⟨rfl, rfl, rfl⟩ := hh; exact ⟨hi', hs', InR_zero _⟩, by simp⟩
                · exact ih f.to_ num _ _ hi' hs' (by omega) (by omega)

end NeoFS.Wire

namespace NeoFS.Wire

/-! ## seeking -/

theorem skipField_spec {wt : Nat} {b : Bytes} {m : Nat} (h : skipField wt b = .ok m) : 1 ≤ m ∧ m ≤ b.length := by
  unfold skipField at h
  split at h
  · split at h
    · rename_i v n hv
      have := consumeVarint_bounds hv
      simp only [Except.ok.injEq] at h; omega
    · simp at h
  · split at h <;> simp at h; omega
  · split at h
    · rename_i ln n hp
      have := parseLEN_spec hp
      simp only [Except.ok.injEq] at h; omega
    · simp at h
  · simp at h
  · simp at h
  · split at h <;> simp at h; omega
  · simp at h

theorem seekLoop_safe (buf : Bytes) (seek : Nat) :
    ∀ (fuel off prev : Nat), off < buf.length → buf.length + 1 ≤ fuel + off →
      seekLoop buf seek fuel off prev ≠ .error .fuel ∧
      ∀ o n wt, seekLoop buf seek fuel off prev = .ok (some (o, n, wt)) →
        o + n ≤ buf.length ∧ decodeTag numOKParse (buf.drop o) = some (seek, wt, n) := by
  intro fuel
  induction fuel with
  | zero => intro off prev h1 h2; omega
  | succ fuel ih =>
    intro off prev hoff hfuel
    unfold seekLoop
    split
    · rename_i e he
      unfold parseTag at he
      split at he <;> simp at he
      subst he; simp
    · rename_i num wt n ht
      have hts := decodeTag_spec (parseTag_spec ht)
      simp only [List.length_drop] at hts
      split
      · rename_i hnum
        subst hnum
        refine ⟨by simp, ?_⟩
        intro o n' wt' hh
        simp only [Except.ok.injEq, Option.some.injEq, Prod.mk.injEq] at hh
        obtain ⟨rfl, rfl, rfl⟩ := hh
        exact ⟨by omega, parseTag_spec ht⟩
      · split
        · simp
        · split
          · simp
          · split
            · rename_i e hs
              refine ⟨?_, by simp⟩
              unfold skipField at hs
              split at hs <;> (try split at hs) <;> simp at hs <;> subst hs <;> simp
            · rename_i m hs
              have := skipField_spec hs
              simp only [List.length_drop] at this
              split
              · simp
              · exact ih _ _ (by omega) (by omega)

theorem seek_safe {buf : Bytes} {seek : Nat} :
    seekFieldByNumber buf seek ≠ .error .fuel ∧
    ∀ o n wt, seekFieldByNumber buf seek = .ok (some (o, n, wt)) →
      o + n ≤ buf.length ∧ decodeTag numOKParse (buf.drop o) = some (seek, wt, n) := by
  unfold seekFieldByNumber
  split
  · simp
  · split
    · simp
    · rename_i hne
      have : 0 < buf.length := List.length_pos_iff.mpr hne
      exact seekLoop_safe buf seek (buf.length + 1) 0 0 this (by omega)

theorem getLEN_safe {buf : Bytes} {num : Nat} :
    getLENFieldBounds buf num ≠ .error .fuel ∧
    ∀ f, getLENFieldBounds buf num = .ok f → InR f buf.length := by
  unfold getLENFieldBounds
  have hs := @seek_safe buf num
  split
  · rename_i e he
    refine ⟨?_, by simp⟩
    intro h; simp only [Except.error.injEq] at h; subst h; exact hs.1 he
  · exact ⟨by simp, by intro f h; simp only [Except.ok.injEq] at h; subst h; exact InR_zero _⟩
  · rename_i off tagLn wt he
    have := hs.2 off tagLn wt he
    refine ⟨?_, fun f h => (plfb_spec h this.1).2.1⟩
    unfold parseLENFieldBounds
    split
    · simp
    · split <;> simp

end NeoFS.Wire

namespace NeoFS.Wire

theorem InR_mono {f : FB} {n m : Nat} (h : InR f n) (hnm : n ≤ m) : InR f m := by
  unfold InR at *; omega

theorem parentIn_safe {buf : Bytes} {hdrFrom hdrTo : Nat} (h1 : hdrFrom ≤ hdrTo) (h2 : hdrTo ≤ buf.length) :
    getParentIn buf hdrFrom hdrTo ≠ .error .fuel ∧
    ∀ i s h, getParentIn buf hdrFrom hdrTo = .ok (i, s, h) →
      InR i buf.length ∧ InR s buf.length ∧ InR h buf.length := by
  unfold getParentIn
  have hs := @getLEN_safe ((buf.take hdrTo).drop hdrFrom) fHdrSplit
  split
  · rename_i e he
    refine ⟨?_, by simp⟩
    intro h; simp only [Except.error.injEq] at h; subst h; exact hs.1 he
  · rename_i splitf he
    have hr := hs.2 splitf he
    simp only [List.length_drop, List.length_take] at hr
    split
    · refine ⟨by simp, ?_⟩
      intro i s h hh
      simp only [Except.ok.injEq, Prod.mk.injEq] at hh
      obtain ⟨rfl, rfl, rfl⟩ := hh
      exact ⟨InR_zero _, InR_zero _, InR_zero _⟩
    · have hlen : (buf.take (hdrFrom + splitf.to_)).length = hdrFrom + splitf.to_ := by
        simp only [List.length_take]; unfold InR at hr; omega
      have := boundsLoop_safe (buf.take (hdrFrom + splitf.to_)) fSplitParentHdr splitSlot 5 (hdrFrom + splitf.vfrom) 0 {} {}
        (InR_zero _) (InR_zero _) (by decide) (by decide)
      refine ⟨this.2, ?_⟩
      intro i s h hh
      obtain ⟨a, b, c⟩ := this.1 i s h hh
      rw [hlen] at a b c
      have : hdrFrom + splitf.to_ ≤ buf.length := by unfold InR at hr; omega
      exact ⟨InR_mono a this, InR_mono b this, InR_mono c this⟩

/-- the loop of `ExtractHeaderAndPayload`: offsets stay inside the buffer, fuel never runs out -/
def EHP.InR (r : EHP) (n : Nat) : Prop :=
  (∀ a b, r.id = some (a, b) → a ≤ b ∧ b ≤ n) ∧ (∀ a b, r.sig = some (a, b) → a ≤ b ∧ b ≤ n) ∧
  (∀ a b, r.hdr = some (a, b) → a ≤ b ∧ b ≤ n)

theorem consumeBytes_spec {b : Bytes} {m n : Nat} (h : consumeBytes b = some (m, n)) :
    consumeVarint b = .ok (m, n) ∧ 1 ≤ n ∧ n + m ≤ b.length := by
  unfold consumeBytes at h
  split at h
  · rename_i u k hv
    have := consumeVarint_bounds hv
    split at h
    · simp only [Option.some.injEq, Prod.mk.injEq] at h
      obtain ⟨rfl, rfl⟩ := h
      exact ⟨hv, by omega, by omega⟩
    · simp at h
  · simp at h

theorem ehpLoop_safe (data : Bytes) (unm : Nat → Nat → Nat → Bool) :
    ∀ (fuel off : Nat) (r : EHP), off ≤ data.length → data.length + 1 ≤ fuel + off → r.InR data.length →
      ehpLoop data unm fuel off r ≠ .error .fuel ∧
      ∀ r', ehpLoop data unm fuel off r = .ok r' → r'.poff ≤ data.length ∧ off ≤ r'.poff ∧ r'.InR data.length := by
  intro fuel
  induction fuel with
  | zero => intro off r h1 h2; omega
  | succ fuel ih =>
    intro off r hoff hfuel hr
    unfold ehpLoop
    split
    · refine ⟨by simp, ?_⟩
      intro r' h
      simp only [Except.ok.injEq] at h
      subst h
      exact ⟨by simp; omega, by simp, hr⟩
    · split
      · simp
      · rename_i num wt n ht
        have hts := decodeTag_spec ht
        simp only [List.length_drop] at hts
        split
        · simp
        · split
          · split
            · simp
            · rename_i v n2 hv
              have := consumeVarint_bounds hv
              simp only [List.length_drop] at this
              refine ⟨by simp, ?_⟩
              intro r' h
              simp only [Except.ok.injEq] at h
              subst h
              exact ⟨by simp; omega, by simp; omega, hr⟩
          · split
            · simp
            · rename_i m n2 hb
              have hbs := consumeBytes_spec hb
              simp only [List.length_drop] at hbs
              have step : ∀ r2 : EHP, r2.InR data.length →
                  ehpLoop data unm fuel (off + n + n2 + m) r2 ≠ .error .fuel ∧
                  ∀ r', ehpLoop data unm fuel (off + n + n2 + m) r2 = .ok r' →
                    r'.poff ≤ data.length ∧ off ≤ r'.poff ∧ r'.InR data.length := by
                intro r2 hr2
                have := ih (off + n + n2 + m) r2 (by omega) (by omega) hr2
                exact ⟨this.1, fun r' h => ⟨(this.2 r' h).1, by have := (this.2 r' h).2.1; omega, (this.2 r' h).2.2⟩⟩
              have hrng : off + n + n2 ≤ off + n + n2 + m ∧ off + n + n2 + m ≤ data.length := by omega
              simp only
              split
              · split
                · apply step
                  refine ⟨?_, hr.2.1, hr.2.2⟩
                  intro a b h; simp only [Option.some.injEq, Prod.mk.injEq] at h; obtain ⟨rfl, rfl⟩ := h; exact hrng
                · simp
              · split
                · split
                  · apply step
                    refine ⟨hr.1, ?_, hr.2.2⟩
                    intro a b h; simp only [Option.some.injEq, Prod.mk.injEq] at h; obtain ⟨rfl, rfl⟩ := h; exact hrng
                  · simp
                · split
                  · split
                    · apply step
                      refine ⟨hr.1, hr.2.1, ?_⟩
                      intro a b h; simp only [Option.some.injEq, Prod.mk.injEq] at h; obtain ⟨rfl, rfl⟩ := h; exact hrng
                    · simp
                  · simp

end NeoFS.Wire
