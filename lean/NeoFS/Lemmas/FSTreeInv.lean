import NeoFS.Lemmas.FSTree
/-!
State-level lemmas of the file-tree model: the safety invariant, what each system call and each writer can do to
names and bytes for EVERY oracle (faults and crash points). Core Lean only.
-/
namespace NeoFS.FSTree

theorem appendAt_length (l : List Bytes) (j : Nat) (x : Bytes) : (appendAt l j x).length = l.length := by
  induction l generalizing j with
  | nil => rfl
  | cons y ys ih => cases j <;> simp [appendAt, ih]

theorem appendAt_getD_eq (l : List Bytes) (j : Nat) (x : Bytes) (h : j < l.length) :
    (appendAt l j x).getD j [] = l.getD j [] ++ x := by
  induction l generalizing j with
  | nil => simp at h
  | cons y ys ih =>
    cases j with
    | zero => simp [appendAt]
    | succ j => simp [appendAt]; simpa using ih j (by simpa using h)

theorem appendAt_getD_ne (l : List Bytes) (j i : Nat) (x : Bytes) (h : i ≠ j) :
    (appendAt l j x).getD i [] = l.getD i [] := by
  induction l generalizing j i with
  | nil => rfl
  | cons y ys ih =>
    cases j with
    | zero => cases i with
      | zero => exact absurd rfl h
      | succ i => simp [appendAt]
    | succ j => cases i with
      | zero => simp [appendAt]
      | succ i => simp [appendAt]; simpa using ih j i (by omega)

theorem getD_append_lt (l : List Bytes) (b : Bytes) (i : Nat) (h : i < l.length) : (l ++ [b]).getD i [] = l.getD i [] := by
  simp [List.getD, List.getElem?_append_left h]

theorem getD_append_new (l : List Bytes) (b : Bytes) : (l ++ [b]).getD l.length [] = b := by
  simp [List.getD]


/-! ## invariants -/

/-- every name points to a file holding, for that address, a payload that was offered for it (`P`) -/
def KInv (P : Nat → Bytes → Prop) (inodes : List Bytes) (dir : List (Nat × Nat)) : Prop :=
  ∀ a i, dir.lookup a = some i → IdOK a ∧ ∃ d, P a d ∧ DataOK d ∧ Holds (inodes.getD i []) a d

/-- `a` is readable with stored bytes `d` -/
def Reads (k : K) (a : Nat) (d : Bytes) : Prop :=
  ∃ i, k.dir.lookup a = some i ∧ Holds (k.inodes.getD i []) a d

/-- inode `j` is a combined file consisting of exactly the records `rs` (an open batch) -/
def BatchFile (P : Nat → Bytes → Prop) (inodes : List Bytes) (j : Nat) (rs : List (Nat × Bytes)) : Prop :=
  j < inodes.length ∧ inodes.getD j [] = encodeRecs rs ∧ RecsOK rs ∧ ∀ r ∈ rs, P r.1 r.2

theorem holds_nonempty {f : Bytes} {a : Nat} {d : Bytes} (h : Holds f a d) (hd : DataOK d) : f ≠ [] := by
  rcases h with ⟨rfl, _⟩ | ⟨rs, junk, rfl, _, hl⟩
  · exact hd.1
  · have : rs ≠ [] := by intro h0; rw [h0] at hl; simp at hl
    have := encodeRecs_ne_nil rs this
    simp [this]

theorem kinv_lt {P} {inodes : List Bytes} {dir : List (Nat × Nat)} (h : KInv P inodes dir) {a i : Nat}
    (hl : dir.lookup a = some i) : i < inodes.length := by
  obtain ⟨_, d, _, hd, hh⟩ := h a i hl
  by_cases hi : i < inodes.length
  · exact hi
  · exfalso
    have : inodes.getD i [] = [] := by simp [List.getD, List.getElem?_eq_none (by omega : inodes.length ≤ i)]
    rw [this] at hh
    exact holds_nonempty hh hd rfl

theorem kinv_addInode {P} {inodes : List Bytes} {dir : List (Nat × Nat)} (h : KInv P inodes dir) (b : Bytes) :
    KInv P (inodes ++ [b]) dir := by
  intro a i hl
  obtain ⟨ha, d, hp, hd, hh⟩ := h a i hl
  refine ⟨ha, d, hp, hd, ?_⟩
  rw [getD_append_lt _ _ _ (kinv_lt h hl)]; exact hh

/-- a combined file never reads as a plain file -/
theorem plain_ne_recs {d : Bytes} (hp : PlainOK d) (hd : d ≠ []) (rs : List (Nat × Bytes)) : d ≠ encodeRecs rs := by
  intro h
  cases rs with
  | nil => exact hd h
  | cons r rs =>
    subst h
    have e : encodeRecs (r :: rs) = record r.1 r.2 ++ encodeRecs rs := rfl
    rcases hp with hp | hp
    · rw [e] at hp; simp [record_length] at hp; omega
    · rw [e, parsePrefix_record] at hp; simp at hp

theorem holds_append {f : Bytes} {a : Nat} {d : Bytes} (h : Holds f a d) (hd : DataOK d) (rs : List (Nat × Bytes))
    (hf : f = encodeRecs rs) (x : Bytes) : Holds (f ++ x) a d := by
  rcases h with ⟨rfl, hp⟩ | ⟨rs2, junk, rfl, hrs, hl⟩
  · exact absurd hf (plain_ne_recs hp hd.1 rs)
  · exact Or.inr ⟨rs2, junk ++ x, by simp, hrs, hl⟩

/-- appending to an open batch file keeps every name readable with the same bytes -/
theorem kinv_appendAt_batch {P} {inodes : List Bytes} {dir : List (Nat × Nat)} (h : KInv P inodes dir) {j : Nat}
    {rs : List (Nat × Bytes)} (hb : BatchFile P inodes j rs) (x : Bytes) : KInv P (appendAt inodes j x) dir := by
  intro a i hl
  obtain ⟨ha, d, hp, hd, hh⟩ := h a i hl
  refine ⟨ha, d, hp, hd, ?_⟩
  by_cases hij : i = j
  · subst hij
    rw [appendAt_getD_eq _ _ _ hb.1]
    exact holds_append hh hd rs hb.2.1 x
  · rw [appendAt_getD_ne _ _ _ _ hij]; exact hh

/-- appending to an inode no name points to -/
theorem kinv_appendAt_fresh {P} {inodes : List Bytes} {dir : List (Nat × Nat)} (h : KInv P inodes dir) {j : Nat}
    (hj : ∀ a i, dir.lookup a = some i → i ≠ j) (x : Bytes) : KInv P (appendAt inodes j x) dir := by
  intro a i hl
  obtain ⟨ha, d, hp, hd, hh⟩ := h a i hl
  refine ⟨ha, d, hp, hd, ?_⟩
  rw [appendAt_getD_ne _ _ _ _ (hj a i hl)]; exact hh

theorem lookup_append_new {dir : List (Nat × Nat)} {a j x : Nat} :
    (dir ++ [(a, j)]).lookup x = if dir.lookup x = none then (if x = a then some j else none) else dir.lookup x := by
  rw [List.lookup_append]
  cases h : dir.lookup x with
  | none =>
    simp [List.lookup]
    by_cases hx : x = a
    · simp [hx]
    · simp [hx]
      have : (x == a) = false := by simp [hx]
      simp [this]
  | some v => simp

theorem kinv_link {P} {inodes : List Bytes} {dir : List (Nat × Nat)} (h : KInv P inodes dir) {a j : Nat} {d : Bytes}
    (ha : IdOK a) (hp : P a d) (hd : DataOK d) (hh : Holds (inodes.getD j []) a d) : KInv P inodes (dir ++ [(a, j)]) := by
  intro x i hl
  rw [lookup_append_new] at hl
  by_cases hx : dir.lookup x = none
  · rw [if_pos hx] at hl
    by_cases hxa : x = a
    · rw [if_pos hxa] at hl
      cases hl
      subst hxa
      exact ⟨ha, d, hp, hd, hh⟩
    · rw [if_neg hxa] at hl; cases hl
  · rw [if_neg hx] at hl
    exact h x i hl

theorem batchFile_write {P} {inodes : List Bytes} {j : Nat} {rs : List (Nat × Bytes)} (hb : BatchFile P inodes j rs)
    {a : Nat} {d : Bytes} (ha : IdOK a) (hd : DataOK d) (hp : P a d) :
    BatchFile P (appendAt inodes j (record a d)) j (rs ++ [(a, d)]) := by
  refine ⟨by rw [appendAt_length]; exact hb.1, ?_, ?_, ?_⟩
  · rw [appendAt_getD_eq _ _ _ hb.1, hb.2.1, encodeRecs_append]; simp [encodeRecs]
  · intro r hr
    simp at hr
    rcases hr with hr | rfl
    · exact hb.2.2.1 r hr
    · exact ⟨ha, hd⟩
  · intro r hr
    simp at hr
    rcases hr with hr | rfl
    · exact hb.2.2.2 r hr
    · exact hp

/-- in a batch file every member that is found is one of its records -/
theorem batch_lookup_mem {P} {inodes : List Bytes} {j : Nat} {rs : List (Nat × Bytes)} (hb : BatchFile P inodes j rs)
    {a : Nat} {d : Bytes} (hl : rs.lookup a = some d) : P a d ∧ DataOK d := by
  have : (a, d) ∈ rs := by
    clear hb
    induction rs with
    | nil => simp at hl
    | cons r rs ih =>
      rw [List.lookup_cons] at hl
      by_cases h : a == r.1
      · simp [h] at hl
        have : a = r.1 := by simpa using h
        simp [this, ← hl]
      · simp [h] at hl
        simp [ih hl]
  exact ⟨hb.2.2.2 _ this, (hb.2.2.1 _ this).2⟩

theorem batch_holds {P} {inodes : List Bytes} {j : Nat} {rs : List (Nat × Bytes)} (hb : BatchFile P inodes j rs)
    {a : Nat} {d : Bytes} (hl : rs.lookup a = some d) : Holds (inodes.getD j []) a d :=
  Or.inr ⟨rs, [], by rw [hb.2.1]; simp, hb.2.2.1, hl⟩

theorem lookup_append_last {rs : List (Nat × Bytes)} {a : Nat} {d : Bytes} :
    ∃ e, (rs ++ [(a, d)]).lookup a = some e ∧ (rs.lookup a = none → e = d) := by
  rw [List.lookup_append]
  cases h : rs.lookup a with
  | none => exact ⟨d, by simp [List.lookup], fun _ => rfl⟩
  | some v => exact ⟨v, by simp, fun h => by cases h⟩


/-! ## what one system call can do, for every oracle -/

def SameProc (k k' : K) : Prop :=
  k'.lockHeld = k.lockHeld ∧ k'.panicked = k.panicked ∧ k'.batch = k.batch ∧ k'.done = k.done

theorem appendAt_nil (l : List Bytes) (j : Nat) : appendAt l j [] = l := by
  induction l generalizing j with
  | nil => rfl
  | cons y ys ih => cases j <;> simp [appendAt, ih]

theorem sysOpen_spec (o : Oracle) (k : K) :
    SameProc k (sysOpen o k).1 ∧ (sysOpen o k).1.dir = k.dir ∧ (sysOpen o k).1.tmps = k.tmps ∧
    (((sysOpen o k).2 = none ∧ (sysOpen o k).1.inodes = k.inodes) ∨
     ((sysOpen o k).2 = some k.inodes.length ∧ (sysOpen o k).1.inodes = k.inodes ++ [[]])) := by
  unfold sysOpen
  split <;> simp [SameProc, bump]

theorem sysWrite_spec (o : Oracle) (k : K) (ino : Nat) (b : Bytes) :
    SameProc k (sysWrite o k ino b).1 ∧ (sysWrite o k ino b).1.dir = k.dir ∧ (sysWrite o k ino b).1.tmps = k.tmps ∧
    ∃ x, (sysWrite o k ino b).1.inodes = appendAt k.inodes ino x ∧ ((sysWrite o k ino b).2 = true → x = b) := by
  unfold sysWrite
  split
  · split
    · exact ⟨⟨rfl, rfl, rfl, rfl⟩, rfl, rfl, [], by simp [appendAt_nil], by simp⟩
    · exact ⟨⟨rfl, rfl, rfl, rfl⟩, rfl, rfl, _, rfl, by simp⟩
  · exact ⟨⟨rfl, rfl, rfl, rfl⟩, rfl, rfl, _, rfl, by simp⟩
  · exact ⟨⟨rfl, rfl, rfl, rfl⟩, rfl, rfl, _, rfl, by simp⟩

theorem sysLink_spec (o : Oracle) (k : K) (ino a : Nat) :
    SameProc k (sysLink o k ino a).1 ∧ (sysLink o k ino a).1.inodes = k.inodes ∧ (sysLink o k ino a).1.tmps = k.tmps ∧
    (((sysLink o k ino a).2 = .err ∧ (sysLink o k ino a).1.dir = k.dir) ∨
     ((sysLink o k ino a).2 = .eexist ∧ (sysLink o k ino a).1.dir = k.dir ∧ (k.dir.lookup a).isSome) ∨
     ((sysLink o k ino a).2 = .ok ∧ (sysLink o k ino a).1.dir = k.dir ++ [(a, ino)] ∧ k.dir.lookup a = none)) := by
  unfold sysLink
  split
  · simp [SameProc]
  · simp [SameProc, bump]
  · split
    · rename_i h; simp [SameProc, bump, h]
    · rename_i h
      exact ⟨⟨rfl, rfl, rfl, rfl⟩, rfl, rfl, Or.inr (Or.inr ⟨rfl, rfl, Option.not_isSome_iff_eq_none.mp h⟩)⟩

theorem sysSync_spec (o : Oracle) (k : K) :
    SameProc k (sysSync o k).1 ∧ (sysSync o k).1.inodes = k.inodes ∧ (sysSync o k).1.dir = k.dir ∧ (sysSync o k).1.tmps = k.tmps := by
  unfold sysSync
  split <;> simp [SameProc, bump]

/-- `intSync` never touches names or bytes; it panics only on a batch whose `ready` is already closed -/
theorem intSync_spec (cfg : Cfg) (o : Oracle) (k : K) (b : Batch) :
    (intSync cfg o k b).1.inodes = k.inodes ∧ (intSync cfg o k b).1.dir = k.dir ∧ (intSync cfg o k b).1.tmps = k.tmps ∧
    (intSync cfg o k b).1.lockHeld = k.lockHeld ∧ (intSync cfg o k b).1.batch = k.batch ∧
    (intSync cfg o k b).2.ready = true ∧ (intSync cfg o k b).2.ino = b.ino ∧ (intSync cfg o k b).2.hasReady = b.hasReady ∧
    (intSync cfg o k b).1.panicked = (k.panicked || (b.hasReady && b.ready)) := by
  unfold intSync
  simp only
  split
  · have s1 := sysSync_spec o k
    have s2 := sysSync_spec o (sysSync o k).1
    simp [s2.2.1, s1.2.1, s2.2.2.1, s1.2.2.1, s2.2.2.2, s1.2.2.2, s2.1.1, s1.1.1, s2.1.2.1, s1.1.2.1, s2.1.2.2.1, s1.1.2.2.1]
  · have s2 := sysSync_spec o k
    simp [s2.2.1, s2.2.2.1, s2.2.2.2, s2.1.1, s2.1.2.1, s2.1.2.2.1]


/-! ## readability is kept by the primitive updates -/

def ReadsK (inodes : List Bytes) (dir : List (Nat × Nat)) (a : Nat) (d : Bytes) : Prop :=
  ∃ i, dir.lookup a = some i ∧ Holds (inodes.getD i []) a d

theorem holds_unique {f : Bytes} {a : Nat} {d e : Bytes} (ha : IdOK a) (h1 : Holds f a d) (h2 : Holds f a e) : d = e := by
  have a1 := (holds_read f a d ha h1 0).1
  have a2 := (holds_read f a e ha h2 0).1
  rw [a1] at a2
  cases a2; rfl

theorem readsK_ok {P} {inodes : List Bytes} {dir : List (Nat × Nat)} (h : KInv P inodes dir) {a : Nat} {e : Bytes}
    (hr : ReadsK inodes dir a e) : IdOK a ∧ P a e ∧ DataOK e := by
  obtain ⟨i, hl, hh⟩ := hr
  obtain ⟨ha, d, hp, hd, hh2⟩ := h a i hl
  have := holds_unique ha hh hh2
  subst this
  exact ⟨ha, hp, hd⟩

theorem readsK_addInode {P} {inodes : List Bytes} {dir : List (Nat × Nat)} (h : KInv P inodes dir) {a : Nat} {e : Bytes}
    (hr : ReadsK inodes dir a e) (b : Bytes) : ReadsK (inodes ++ [b]) dir a e := by
  obtain ⟨i, hl, hh⟩ := hr
  exact ⟨i, hl, by rw [getD_append_lt _ _ _ (kinv_lt h hl)]; exact hh⟩

theorem readsK_appendAt_batch {P} {inodes : List Bytes} {dir : List (Nat × Nat)} (h : KInv P inodes dir) {j : Nat}
    {rs : List (Nat × Bytes)} (hb : BatchFile P inodes j rs) {a : Nat} {e : Bytes} (hr : ReadsK inodes dir a e) (x : Bytes) :
    ReadsK (appendAt inodes j x) dir a e := by
  have hok := readsK_ok h hr
  obtain ⟨i, hl, hh⟩ := hr
  refine ⟨i, hl, ?_⟩
  by_cases hij : i = j
  · subst hij
    rw [appendAt_getD_eq _ _ _ hb.1]
    exact holds_append hh hok.2.2 rs hb.2.1 x
  · rw [appendAt_getD_ne _ _ _ _ hij]; exact hh

theorem readsK_appendAt_fresh {inodes : List Bytes} {dir : List (Nat × Nat)} {j : Nat}
    (hj : ∀ a i, dir.lookup a = some i → i ≠ j) {a : Nat} {e : Bytes} (hr : ReadsK inodes dir a e) (x : Bytes) :
    ReadsK (appendAt inodes j x) dir a e := by
  obtain ⟨i, hl, hh⟩ := hr
  exact ⟨i, hl, by rw [appendAt_getD_ne _ _ _ _ (hj a i hl)]; exact hh⟩

theorem readsK_link {inodes : List Bytes} {dir : List (Nat × Nat)} {a : Nat} {e : Bytes}
    (hr : ReadsK inodes dir a e) (b j : Nat) : ReadsK inodes (dir ++ [(b, j)]) a e := by
  obtain ⟨i, hl, hh⟩ := hr
  refine ⟨i, ?_, hh⟩
  rw [lookup_append_new, hl]; simp

theorem lookup_link_other {dir : List (Nat × Nat)} {a j x : Nat} (hx : x ≠ a) :
    (dir ++ [(a, j)]).lookup x = dir.lookup x := by
  rw [lookup_append_new]
  by_cases h : dir.lookup x = none
  · simp [h, hx]
  · simp [h]

theorem nodup_link {dir : List (Nat × Nat)} {a j : Nat} (h : (dir.map (·.1)).Nodup) (hn : dir.lookup a = none) :
    ((dir ++ [(a, j)]).map (·.1)).Nodup := by
  rw [List.map_append, List.nodup_append]
  refine ⟨h, by simp, ?_⟩
  intro x hx y hy
  simp at hy
  subst hy
  intro hxa
  subst hxa
  -- x is a key of dir, so lookup cannot be none
  obtain ⟨p, hp, rfl⟩ := List.mem_map.mp hx
  clear h hx
  induction dir with
  | nil => cases hp
  | cons q qs ih =>
    rw [List.lookup_cons] at hn
    cases hq : (p.1 == q.1) with
    | true => rw [hq] at hn; cases hn
    | false =>
      rw [hq] at hn
      rcases List.mem_cons.mp hp with rfl | hm
      · simp at hq
      · exact ih hm hn

/-- effect of a writer run on names and bytes: safe; nothing readable is lost or changed; only `as` may appear -/
structure Eff (P : Nat → Bytes → Prop) (k k' : K) (as : List Nat) : Prop where
  inv : KInv P k'.inodes k'.dir
  frame : ∀ x e, ReadsK k.inodes k.dir x e → ReadsK k'.inodes k'.dir x e
  other : ∀ x, x ∉ as → k'.dir.lookup x = k.dir.lookup x
  mono : k.inodes.length ≤ k'.inodes.length
  tmps : k'.tmps = k.tmps
  nodup : (k.dir.map (·.1)).Nodup → (k'.dir.map (·.1)).Nodup

theorem Eff.refl {P} {k : K} (h : KInv P k.inodes k.dir) (as : List Nat) : Eff P k k as :=
  ⟨h, fun _ _ h => h, fun _ _ => rfl, Nat.le_refl _, rfl, fun h => h⟩

theorem Eff.of_same {P} {k k' : K} (h : KInv P k.inodes k.dir) (hi : k'.inodes = k.inodes) (hd : k'.dir = k.dir)
    (ht : k'.tmps = k.tmps) (as : List Nat) : Eff P k k' as :=
  ⟨by rw [hi, hd]; exact h, fun _ _ h => by rw [hi, hd]; exact h, fun _ _ => by rw [hd], by rw [hi]; exact Nat.le_refl _, ht,
   fun h => by rw [hd]; exact h⟩

theorem Eff.trans {P} {k k' k'' : K} {as bs : List Nat} (h1 : Eff P k k' as) (h2 : Eff P k' k'' bs) :
    Eff P k k'' (as ++ bs) :=
  ⟨h2.inv, fun x e h => h2.frame x e (h1.frame x e h),
   fun x hx => by rw [h2.other x (fun h => hx (by simp [h])), h1.other x (fun h => hx (by simp [h]))],
   Nat.le_trans h1.mono h2.mono, by rw [h2.tmps, h1.tmps], fun h => h2.nodup (h1.nodup h)⟩

theorem Eff.weaken {P} {k k' : K} {as bs : List Nat} (h : Eff P k k' as) (hs : ∀ x ∈ as, x ∈ bs) : Eff P k k' bs :=
  ⟨h.inv, h.frame, fun x hx => h.other x (fun hh => hx (hs x hh)), h.mono, h.tmps, h.nodup⟩

/-- `syncBatch.write` on an open batch file, for every oracle -/
theorem sbWrite_spec {P} (cfg : Cfg) (o : Oracle) (k : K) (b : Batch) (a : Nat) (d : Bytes)
    (hk : KInv P k.inodes k.dir) {rs : List (Nat × Bytes)} (hb : BatchFile P k.inodes b.ino rs)
    (ha : IdOK a) (hd : DataOK d) (hp : P a d) :
    Eff P k (sbWrite cfg o k b a d).1 [a] ∧
    (sbWrite cfg o k b a d).1.lockHeld = k.lockHeld ∧ (sbWrite cfg o k b a d).1.batch = k.batch ∧
    (sbWrite cfg o k b a d).2.1.ino = b.ino ∧ (sbWrite cfg o k b a d).2.1.hasReady = b.hasReady ∧
    (∃ x, (sbWrite cfg o k b a d).1.inodes = appendAt k.inodes b.ino x) ∧
    ((sbWrite cfg o k b a d).2.2 = true →
        (sbWrite cfg o k b a d).2.1.ready = b.ready ∧ (sbWrite cfg o k b a d).2.1.err = b.err ∧
        (sbWrite cfg o k b a d).2.1.cnt = b.cnt + 1 ∧ (sbWrite cfg o k b a d).2.1.size = b.size + (dataOff + d.length) ∧
        BatchFile P (sbWrite cfg o k b a d).1.inodes b.ino (rs ++ [(a, d)]) ∧
        (sbWrite cfg o k b a d).1.panicked = k.panicked ∧
        ∃ e, ReadsK (sbWrite cfg o k b a d).1.inodes (sbWrite cfg o k b a d).1.dir a e ∧
             (k.dir.lookup a = none → (rs ++ [(a, d)]).lookup a = some e)) ∧
    ((sbWrite cfg o k b a d).2.2 = false →
        (sbWrite cfg o k b a d).2.1.ready = true ∧
        (sbWrite cfg o k b a d).1.panicked = (k.panicked || (b.hasReady && b.ready))) := by
  unfold sbWrite
  simp only
  have w := sysWrite_spec o k b.ino (record a d)
  obtain ⟨wp, wd, wt, x, wi, wx⟩ := w
  -- state after the write: still safe, everything still readable
  have kw : KInv P (sysWrite o k b.ino (record a d)).1.inodes (sysWrite o k b.ino (record a d)).1.dir := by
    rw [wi, wd]; exact kinv_appendAt_batch hk hb x
  have ew : Eff P k (sysWrite o k b.ino (record a d)).1 [a] :=
    ⟨kw, fun y e h => by rw [wi, wd]; exact readsK_appendAt_batch hk hb h x, fun _ _ => by rw [wd],
     by rw [wi, appendAt_length]; exact Nat.le_refl _, wt, fun h => by rw [wd]; exact h⟩
  by_cases hw : (sysWrite o k b.ino (record a d)).2 = true
  · have hx := wx hw
    subst hx
    simp only [hw, Bool.not_true, Bool.false_eq_true, if_false]
    have bf : BatchFile P (sysWrite o k b.ino (record a d)).1.inodes b.ino (rs ++ [(a, d)]) := by
      rw [wi]; exact batchFile_write hb ha hd hp
    have l := sysLink_spec o (sysWrite o k b.ino (record a d)).1 b.ino a
    obtain ⟨lp, li, lt, lc⟩ := l
    obtain ⟨e, hle, hfresh⟩ := @lookup_append_last rs a d
    have hpe := batch_lookup_mem bf hle
    rcases lc with ⟨lr, ld⟩ | ⟨lr, ld, lex⟩ | ⟨lr, ld, lnone⟩
    · -- link failed: the batch is closed
      rw [lr]
      simp only
      have s := intSync_spec cfg o (sysLink o (sysWrite o k b.ino (record a d)).1 b.ino a).1
        { b with size := b.size + (dataOff + d.length), cnt := b.cnt + 1, err := true }
      refine ⟨?_, ?_, ?_, ?_, ?_, ⟨_, by rw [s.1, li, wi]⟩, ?_, ?_⟩
      · have e2 : Eff P (sysWrite o k b.ino (record a d)).1 (intSync cfg o (sysLink o (sysWrite o k b.ino (record a d)).1 b.ino a).1
            { b with size := b.size + (dataOff + d.length), cnt := b.cnt + 1, err := true }).1 [a] :=
          Eff.of_same kw (by rw [s.1, li]) (by rw [s.2.1, ld]) (by rw [s.2.2.1, lt]) _
        exact (ew.trans e2).weaken (by simp)
      · rw [s.2.2.2.1, lp.1, wp.1]
      · rw [s.2.2.2.2.1, lp.2.2.1, wp.2.2.1]
      · rw [s.2.2.2.2.2.2.1]
      · rw [s.2.2.2.2.2.2.2.1]
      · intro h; cases h
      · intro _
        exact ⟨s.2.2.2.2.2.1, by rw [s.2.2.2.2.2.2.2.2, lp.2.1, wp.2.1]⟩
    · -- the name exists already: success, nothing changes
      rw [lr]
      simp only
      have kl : KInv P (sysLink o (sysWrite o k b.ino (record a d)).1 b.ino a).1.inodes
          (sysLink o (sysWrite o k b.ino (record a d)).1 b.ino a).1.dir := by rw [li, ld]; exact kw
      refine ⟨?_, ?_, ?_, (by first | trivial | rfl), (by first | trivial | rfl), ⟨_, by rw [li, wi]⟩, ?_, ?_⟩
      · exact (ew.trans (Eff.of_same kw li ld lt [a])).weaken (by simp)
      · rw [lp.1, wp.1]
      · rw [lp.2.2.1, wp.2.2.1]
      · intro _
        refine ⟨(by first | trivial | rfl), (by first | trivial | rfl), (by first | trivial | rfl), (by first | trivial | rfl), by rw [li]; exact bf, by rw [lp.2.1, wp.2.1], ?_⟩
        -- the existing name is readable (invariant of the state after the write)
        cases hlk : (sysWrite o k b.ino (record a d)).1.dir.lookup a with
        | none => rw [hlk] at lex; simp at lex
        | some i =>
          obtain ⟨_, e', _, _, hh⟩ := kw a i hlk
          refine ⟨e', ⟨i, by rw [ld]; exact hlk, by rw [li]; exact hh⟩, ?_⟩
          intro hn; rw [wd] at hlk; rw [hn] at hlk; cases hlk
      · intro h; cases h
    · -- linked
      rw [lr]
      simp only
      have hh : Holds ((sysWrite o k b.ino (record a d)).1.inodes.getD b.ino []) a e := batch_holds bf hle
      have kl : KInv P (sysLink o (sysWrite o k b.ino (record a d)).1 b.ino a).1.inodes
          (sysLink o (sysWrite o k b.ino (record a d)).1 b.ino a).1.dir := by
        rw [li, ld]; exact kinv_link kw ha hpe.1 hpe.2 hh
      have el : Eff P (sysWrite o k b.ino (record a d)).1 (sysLink o (sysWrite o k b.ino (record a d)).1 b.ino a).1 [a] :=
        ⟨kl, fun y f h => by rw [li, ld]; exact readsK_link h a b.ino,
         fun y hy => by rw [ld]; exact lookup_link_other (by simpa using hy), by rw [li]; exact Nat.le_refl _, lt,
         fun h => by rw [ld]; exact nodup_link h lnone⟩
      refine ⟨?_, ?_, ?_, (by first | trivial | rfl), (by first | trivial | rfl), ⟨_, by rw [li, wi]⟩, ?_, ?_⟩
      · exact (ew.trans el).weaken (by simp)
      · rw [lp.1, wp.1]
      · rw [lp.2.2.1, wp.2.2.1]
      · intro _
        refine ⟨(by first | trivial | rfl), (by first | trivial | rfl), (by first | trivial | rfl), (by first | trivial | rfl), by rw [li]; exact bf, by rw [lp.2.1, wp.2.1], e, ?_, ?_⟩
        · refine ⟨b.ino, ?_, by rw [li]; exact hh⟩
          rw [ld, lookup_append_new, lnone]; simp
        · intro _; exact hle
      · intro h; cases h
  · -- the write failed: the batch is closed
    have hw' : (sysWrite o k b.ino (record a d)).2 = false := by simpa using hw
    simp only [hw', Bool.not_false, if_true]
    have s := intSync_spec cfg o (sysWrite o k b.ino (record a d)).1 { b with err := true }
    refine ⟨?_, ?_, ?_, ?_, ?_, ⟨_, by rw [s.1, wi]⟩, ?_, ?_⟩
    · exact (ew.trans (Eff.of_same kw s.1 s.2.1 s.2.2.1 [a])).weaken (by simp)
    · rw [s.2.2.2.1, wp.1]
    · rw [s.2.2.2.2.1, wp.2.2.1]
    · rw [s.2.2.2.2.2.2.1]
    · rw [s.2.2.2.2.2.2.2.1]
    · intro h; cases h
    · intro _
      exact ⟨s.2.2.2.2.2.1, by rw [s.2.2.2.2.2.2.2.2, wp.2.1]⟩

theorem batchFile_addInode {P} {inodes : List Bytes} {j : Nat} {rs : List (Nat × Bytes)} (hb : BatchFile P inodes j rs)
    (b : Bytes) : BatchFile P (inodes ++ [b]) j rs :=
  ⟨by simp; have := hb.1; omega, by rw [getD_append_lt _ _ _ hb.1]; exact hb.2.1, hb.2.2⟩

theorem batchFile_appendAt_ne {P} {inodes : List Bytes} {j j' : Nat} {rs : List (Nat × Bytes)} (hb : BatchFile P inodes j rs)
    (hne : j ≠ j') (x : Bytes) : BatchFile P (appendAt inodes j' x) j rs :=
  ⟨by rw [appendAt_length]; exact hb.1, by rw [appendAt_getD_ne _ _ _ _ hne]; exact hb.2.1, hb.2.2⟩

/-- `writeFile` (single large object), for every oracle -/
theorem writeFile_spec {P} (o : Oracle) (k : K) (a : Nat) (d : Bytes)
    (hk : KInv P k.inodes k.dir) (ha : IdOK a) (hd : DataOK d) (hpl : PlainOK d) (hp : P a d) :
    Eff P k (writeFile o k a d).1 [a] ∧ SameProc k (writeFile o k a d).1 ∧
    (∀ j rs, BatchFile P k.inodes j rs → BatchFile P (writeFile o k a d).1.inodes j rs) ∧
    ((writeFile o k a d).2 = true →
      ∃ e, ReadsK (writeFile o k a d).1.inodes (writeFile o k a d).1.dir a e ∧ (k.dir.lookup a = none → e = d)) := by
  unfold writeFile
  simp only
  obtain ⟨op, od, ot, oc⟩ := sysOpen_spec o k
  rcases oc with ⟨hr, oi⟩ | ⟨hr, oi⟩
  · rw [hr]
    simp only
    exact ⟨Eff.of_same hk oi od ot _, op, fun j rs h => by rw [oi]; exact h, fun h => by cases h⟩
  · rw [hr]
    simp only
    -- after open
    have k0 : KInv P (sysOpen o k).1.inodes (sysOpen o k).1.dir := by rw [oi, od]; exact kinv_addInode hk []
    have e0 : Eff P k (sysOpen o k).1 [a] :=
      ⟨k0, fun y e h => by rw [oi, od]; exact readsK_addInode hk h [], fun _ _ => by rw [od], by rw [oi]; simp, ot, fun h => by rw [od]; exact h⟩
    have fresh : ∀ x i, (sysOpen o k).1.dir.lookup x = some i → i ≠ k.inodes.length := by
      intro x i h; rw [od] at h; have := kinv_lt hk h; omega
    -- after write
    obtain ⟨wp, wd, wt, x, wi, wx⟩ := sysWrite_spec o (sysOpen o k).1 k.inodes.length d
    have k1 : KInv P (sysWrite o (sysOpen o k).1 k.inodes.length d).1.inodes (sysWrite o (sysOpen o k).1 k.inodes.length d).1.dir := by
      rw [wi, wd]; exact kinv_appendAt_fresh k0 fresh x
    have e1 : Eff P (sysOpen o k).1 (sysWrite o (sysOpen o k).1 k.inodes.length d).1 [a] :=
      ⟨k1, fun y e h => by rw [wi, wd]; exact readsK_appendAt_fresh fresh h x, fun _ _ => by rw [wd],
       by rw [wi, appendAt_length]; exact Nat.le_refl _, wt, fun h => by rw [wd]; exact h⟩
    have bf1 : ∀ j rs, BatchFile P k.inodes j rs → BatchFile P (sysWrite o (sysOpen o k).1 k.inodes.length d).1.inodes j rs := by
      intro j rs h
      rw [wi, oi]
      exact batchFile_appendAt_ne (batchFile_addInode h []) (by have := h.1; omega) x
    by_cases hw : (sysWrite o (sysOpen o k).1 k.inodes.length d).2 = true
    · have hx := (wx hw).symm
      subst hx
      simp only [hw, if_true]
      obtain ⟨lp, li, lt, lc⟩ := sysLink_spec o (sysWrite o (sysOpen o k).1 k.inodes.length d).1 k.inodes.length a
      obtain ⟨cp, ci, cd, ct⟩ := sysSync_spec o (sysLink o (sysWrite o (sysOpen o k).1 k.inodes.length d).1 k.inodes.length a).1
      have hcontent : (sysWrite o (sysOpen o k).1 k.inodes.length d).1.inodes.getD k.inodes.length [] = d := by
        rw [wi, oi, appendAt_getD_eq _ _ _ (by simp), getD_append_new]; simp
      have sp : SameProc k (sysSync o (sysLink o (sysWrite o (sysOpen o k).1 k.inodes.length d).1 k.inodes.length a).1).1 :=
        ⟨by rw [cp.1, lp.1, wp.1, op.1], by rw [cp.2.1, lp.2.1, wp.2.1, op.2.1], by rw [cp.2.2.1, lp.2.2.1, wp.2.2.1, op.2.2.1],
         by rw [cp.2.2.2, lp.2.2.2, wp.2.2.2, op.2.2.2]⟩
      rcases lc with ⟨lr, ld⟩ | ⟨lr, ld, lex⟩ | ⟨lr, ld, lnone⟩
      · refine ⟨?_, sp, fun j rs h => by rw [ci, li]; exact bf1 j rs h, ?_⟩
        · exact ((e0.trans e1).trans (Eff.of_same k1 (by rw [ci, li]) (by rw [cd, ld]) (by rw [ct, lt]) [a])).weaken (by simp)
        · rw [lr]; simp
      · refine ⟨?_, sp, fun j rs h => by rw [ci, li]; exact bf1 j rs h, ?_⟩
        · exact ((e0.trans e1).trans (Eff.of_same k1 (by rw [ci, li]) (by rw [cd, ld]) (by rw [ct, lt]) [a])).weaken (by simp)
        · intro _
          cases hlk : (sysWrite o (sysOpen o k).1 k.inodes.length d).1.dir.lookup a with
          | none => rw [hlk] at lex; simp at lex
          | some i =>
            obtain ⟨_, e', _, _, hh⟩ := k1 a i hlk
            refine ⟨e', ⟨i, by rw [cd, ld]; exact hlk, by rw [ci, li]; exact hh⟩, ?_⟩
            intro hn; rw [wd, od] at hlk; rw [hn] at hlk; cases hlk
      · have hh : Holds ((sysWrite o (sysOpen o k).1 k.inodes.length d).1.inodes.getD k.inodes.length []) a d := by
          rw [hcontent]; exact Or.inl ⟨rfl, hpl⟩
        have kl : KInv P (sysLink o (sysWrite o (sysOpen o k).1 k.inodes.length d).1 k.inodes.length a).1.inodes
            (sysLink o (sysWrite o (sysOpen o k).1 k.inodes.length d).1 k.inodes.length a).1.dir := by
          rw [li, ld]; exact kinv_link k1 ha hp hd hh
        have el : Eff P (sysWrite o (sysOpen o k).1 k.inodes.length d).1
            (sysLink o (sysWrite o (sysOpen o k).1 k.inodes.length d).1 k.inodes.length a).1 [a] :=
          ⟨kl, fun y f h => by rw [li, ld]; exact readsK_link h a _,
           fun y hy => by rw [ld]; exact lookup_link_other (by simpa using hy), by rw [li]; exact Nat.le_refl _, lt,
         fun h => by rw [ld]; exact nodup_link h lnone⟩
        refine ⟨?_, sp, fun j rs h => by rw [ci, li]; exact bf1 j rs h, ?_⟩
        · exact (((e0.trans e1).trans el).trans (Eff.of_same kl ci cd ct [a])).weaken (by simp)
        · intro _
          refine ⟨d, ⟨k.inodes.length, ?_, by rw [ci, li]; exact hh⟩, fun _ => rfl⟩
          rw [cd, ld, lookup_append_new, lnone]; simp
    · have hw' : (sysWrite o (sysOpen o k).1 k.inodes.length d).2 = false := by simpa using hw
      simp only [hw', Bool.false_eq_true, if_false, Bool.false_and]
      obtain ⟨cp, ci, cd, ct⟩ := sysSync_spec o (sysWrite o (sysOpen o k).1 k.inodes.length d).1
      refine ⟨?_, ?_, fun j rs h => by rw [ci]; exact bf1 j rs h, fun h => by cases h⟩
      · exact ((e0.trans e1).trans (Eff.of_same k1 ci cd ct [a])).weaken (by simp)
      · exact ⟨by rw [cp.1, wp.1, op.1], by rw [cp.2.1, wp.2.1, op.2.1], by rw [cp.2.2.1, wp.2.2.1, op.2.2.1], by rw [cp.2.2.2, wp.2.2.2, op.2.2.2]⟩

def ItemsOK (P : Nat → Bytes → Prop) (items : List (Nat × Bytes)) : Prop :=
  ∀ it ∈ items, IdOK it.1 ∧ DataOK it.2 ∧ P it.1 it.2

theorem readsK_unique {P} {inodes : List Bytes} {dir : List (Nat × Nat)} (h : KInv P inodes dir) {a : Nat} {e f : Bytes}
    (h1 : ReadsK inodes dir a e) (h2 : ReadsK inodes dir a f) : e = f := by
  have ha := (readsK_ok h h1).1
  obtain ⟨i, hl, hh⟩ := h1
  obtain ⟨i', hl', hh'⟩ := h2
  rw [hl] at hl'; cases hl'
  exact holds_unique ha hh hh'

theorem appendAt_appendAt (l : List Bytes) (j : Nat) (x y : Bytes) : appendAt (appendAt l j x) j y = appendAt l j (x ++ y) := by
  induction l generalizing j with
  | nil => rfl
  | cons z zs ih => cases j <;> simp [appendAt, ih]

theorem lookup_prefix {rs ys : List (Nat × Bytes)} {a : Nat} {e : Bytes} (h : rs.lookup a = some e) :
    (rs ++ ys).lookup a = some e := by
  rw [List.lookup_append, h]; rfl

/-- the loop of `writeBatch` on a batch file without `ready` channel -/
theorem batchLoop_spec {P} (cfg : Cfg) (o : Oracle) (items : List (Nat × Bytes)) :
    ∀ (k : K) (b : Batch) (rs : List (Nat × Bytes)), KInv P k.inodes k.dir → BatchFile P k.inodes b.ino rs →
    b.hasReady = false → ItemsOK P items →
    Eff P k (batchLoop cfg o k b items).1 (items.map (·.1)) ∧
    (batchLoop cfg o k b items).1.lockHeld = k.lockHeld ∧ (batchLoop cfg o k b items).1.batch = k.batch ∧
    (batchLoop cfg o k b items).1.panicked = k.panicked ∧
    (batchLoop cfg o k b items).2.1.ino = b.ino ∧ (batchLoop cfg o k b items).2.1.hasReady = false ∧
    (∃ x, (batchLoop cfg o k b items).1.inodes = appendAt k.inodes b.ino x) ∧
    ((batchLoop cfg o k b items).2.2 = true →
      (batchLoop cfg o k b items).2.1.err = b.err ∧
      BatchFile P (batchLoop cfg o k b items).1.inodes b.ino (rs ++ items) ∧
      ∀ it ∈ items, ∃ e, ReadsK (batchLoop cfg o k b items).1.inodes (batchLoop cfg o k b items).1.dir it.1 e ∧
        (k.dir.lookup it.1 = none → (rs ++ items).lookup it.1 = some e)) := by
  induction items with
  | nil =>
    intro k b rs hk hb hr _
    simp only [batchLoop, List.map_nil, List.append_nil]
    exact ⟨Eff.refl hk _, (by first | trivial | rfl), (by first | trivial | rfl), (by first | trivial | rfl), (by first | trivial | rfl), hr, ⟨[], by rw [appendAt_nil]⟩, fun _ => ⟨(by first | trivial | rfl), hb, fun _ h => by cases h⟩⟩
  | cons it rest ih =>
    intro k b rs hk hb hr hit
    obtain ⟨a, d⟩ := it
    have hok := hit (a, d) (by simp)
    have hrest : ItemsOK P rest := fun x hx => hit x (by simp [hx])
    obtain ⟨se, sl, sb, si, sh, ⟨sx, sxe⟩, sok, sfail⟩ := sbWrite_spec cfg o k b a d hk hb hok.1 hok.2.1 hok.2.2
    unfold batchLoop
    simp only
    by_cases hw : (sbWrite cfg o k b a d).2.2 = true
    · simp only [hw, if_true]
      obtain ⟨wr, we, _, _, wbf, wpan, e0, wre, wfresh⟩ := sok hw
      have hr' : (sbWrite cfg o k b a d).2.1.hasReady = false := by rw [sh]; exact hr
      have hbf' : BatchFile P (sbWrite cfg o k b a d).1.inodes (sbWrite cfg o k b a d).2.1.ino (rs ++ [(a, d)]) := by
        rw [si]; exact wbf
      obtain ⟨ie, il, ib, ip, ii, ih2, ⟨ix, ixe⟩, iok⟩ := ih (sbWrite cfg o k b a d).1 (sbWrite cfg o k b a d).2.1 (rs ++ [(a, d)]) se.inv hbf' hr' hrest
      refine ⟨?_, by rw [il, sl], by rw [ib, sb], by rw [ip, wpan], by rw [ii, si], ih2, ⟨sx ++ ix, by rw [ixe, si, sxe, appendAt_appendAt]⟩, ?_⟩
      · exact (se.trans ie).weaken (by simp)
      · intro hfin
        obtain ⟨ferr, fbf, fall⟩ := iok hfin
        have eqs : rs ++ [(a, d)] ++ rest = rs ++ (a, d) :: rest := by simp
        refine ⟨by rw [ferr, we], by rw [si] at fbf; rw [← eqs]; exact fbf, ?_⟩
        have hra : ReadsK (batchLoop cfg o (sbWrite cfg o k b a d).1 (sbWrite cfg o k b a d).2.1 rest).1.inodes
            (batchLoop cfg o (sbWrite cfg o k b a d).1 (sbWrite cfg o k b a d).2.1 rest).1.dir a e0 := ie.frame a e0 wre
        have hclaim : k.dir.lookup a = none → (rs ++ (a, d) :: rest).lookup a = some e0 := by
          intro hn
          rw [← eqs]; exact lookup_prefix (wfresh hn)
        intro it' hit'
        simp at hit'
        rcases hit' with rfl | hmem
        · exact ⟨e0, hra, hclaim⟩
        · obtain ⟨e', hre', hfr'⟩ := fall it' hmem
          refine ⟨e', hre', ?_⟩
          intro hn
          by_cases haa : it'.1 = a
          · rw [haa] at hre' hn ⊢
            have := readsK_unique ie.inv hre' hra
            rw [this]; exact hclaim hn
          · rw [← eqs]
            apply hfr'
            rw [se.other it'.1 (by simpa using haa)]; exact hn
    · have hw' : (sbWrite cfg o k b a d).2.2 = false := by simpa using hw
      simp only [hw', Bool.false_eq_true, if_false]
      obtain ⟨_, fpan⟩ := sfail hw'
      refine ⟨se.weaken (by simp), sl, sb, by rw [fpan, hr]; simp, si, by rw [sh]; exact hr, ⟨sx, sxe⟩, fun h => by cases h⟩

/-- `writeBatch` (PutBatch on the O_TMPFILE writer), for every oracle -/
theorem writeBatch_spec {P} (cfg : Cfg) (o : Oracle) (k : K) (items : List (Nat × Bytes))
    (hk : KInv P k.inodes k.dir) (hit : ItemsOK P items) :
    Eff P k (writeBatch cfg o k items).1 (items.map (·.1)) ∧
    (writeBatch cfg o k items).1.lockHeld = k.lockHeld ∧ (writeBatch cfg o k items).1.batch = k.batch ∧
    (writeBatch cfg o k items).1.panicked = k.panicked ∧
    (∀ j rs, BatchFile P k.inodes j rs → BatchFile P (writeBatch cfg o k items).1.inodes j rs) ∧
    ((writeBatch cfg o k items).2 = true →
      ∀ it ∈ items, ∃ e, ReadsK (writeBatch cfg o k items).1.inodes (writeBatch cfg o k items).1.dir it.1 e ∧
        (k.dir.lookup it.1 = none → items.lookup it.1 = some e)) := by
  unfold writeBatch
  simp only
  obtain ⟨op, od, ot, oc⟩ := sysOpen_spec o k
  rcases oc with ⟨hr, oi⟩ | ⟨hr, oi⟩
  · rw [hr]
    simp only
    exact ⟨Eff.of_same hk oi od ot _, op.1, op.2.2.1, op.2.1, fun j rs h => by rw [oi]; exact h, fun h => by cases h⟩
  · rw [hr]
    simp only
    have k0 : KInv P (sysOpen o k).1.inodes (sysOpen o k).1.dir := by rw [oi, od]; exact kinv_addInode hk []
    have e0 : Eff P k (sysOpen o k).1 (items.map (·.1)) :=
      ⟨k0, fun y e h => by rw [oi, od]; exact readsK_addInode hk h [], fun _ _ => by rw [od], by rw [oi]; simp, ot, fun h => by rw [od]; exact h⟩
    have bf0 : BatchFile P (sysOpen o k).1.inodes k.inodes.length [] :=
      ⟨by rw [oi]; simp, by rw [oi, getD_append_new]; rfl, (fun _ h => by cases h), (fun _ h => by cases h)⟩
    obtain ⟨le, ll, lb, lp, li, lh, ⟨lx, lxe⟩, lok⟩ := batchLoop_spec (P := P) cfg o items (sysOpen o k).1
      { ino := k.inodes.length, hasReady := false } [] k0 bf0 rfl hit
    -- other batch files are not touched: their inode is older than the new one
    have keep : ∀ j rs, BatchFile P k.inodes j rs →
        BatchFile P (batchLoop cfg o (sysOpen o k).1 { ino := k.inodes.length, hasReady := false } items).1.inodes j rs := by
      intro j rs h
      rw [lxe, oi]
      exact batchFile_appendAt_ne (batchFile_addInode h []) (by have := h.1; simp; omega) lx
    by_cases hl : (batchLoop cfg o (sysOpen o k).1 { ino := k.inodes.length, hasReady := false } items).2.2 = true
    · simp only [hl, Bool.not_true, Bool.false_eq_true, if_false]
      have s := intSync_spec cfg o (batchLoop cfg o (sysOpen o k).1 { ino := k.inodes.length, hasReady := false } items).1
        (batchLoop cfg o (sysOpen o k).1 { ino := k.inodes.length, hasReady := false } items).2.1
      obtain ⟨_, _, lall⟩ := lok hl
      refine ⟨?_, by rw [s.2.2.2.1, ll, op.1], by rw [s.2.2.2.2.1, lb, op.2.2.1], ?_, fun j rs h => by rw [s.1]; exact keep j rs h, ?_⟩
      · exact ((e0.trans le).trans (Eff.of_same le.inv s.1 s.2.1 s.2.2.1 [])).weaken (by simp)
      · rw [s.2.2.2.2.2.2.2.2, lh, lp, op.2.1]; simp
      · intro _ it hit'
        obtain ⟨e, hre, hfr⟩ := lall it hit'
        refine ⟨e, by rw [s.1, s.2.1]; exact hre, ?_⟩
        intro hn
        have := hfr (by rw [od]; exact hn)
        simpa using this
    · have hl' : (batchLoop cfg o (sysOpen o k).1 { ino := k.inodes.length, hasReady := false } items).2.2 = false := by simpa using hl
      simp only [hl', Bool.not_false, if_true]
      exact ⟨(e0.trans le).weaken (by simp), by rw [ll, op.1], by rw [lb, op.2.2.1], by rw [lp, op.2.1], keep, fun h => by cases h⟩

/-- invariant of the writer between the atomic steps of a schedule -/
structure SInv (P : Nat → Bytes → Prop) (k : K) : Prop where
  kinv : KInv P k.inodes k.dir
  binv : ∀ b, k.batch = some b → b.ready = false → b.hasReady = true ∧ b.err = false ∧ ∃ rs, BatchFile P k.inodes b.ino rs
  lock : k.lockHeld = false
  nopanic : k.panicked = false

/-- the repaired code -/
def Cfg.Fixed (cfg : Cfg) : Prop := cfg.precFixed = true ∧ cfg.unlockFixed = true ∧ cfg.tailFixed = true

theorem wcTail_spec {P} (cfg : Cfg) (hc : cfg.Fixed) (o : Oracle) (k : K) (b : Batch) (a : Nat) (d : Bytes)
    {rs : List (Nat × Bytes)} (hk : KInv P k.inodes k.dir) (hb : BatchFile P k.inodes b.ino rs)
    (hbr : b.ready = false) (hbh : b.hasReady = true) (hbe : b.err = false) (hp0 : k.panicked = false)
    (ha : IdOK a) (hd : DataOK d) (hp : P a d) :
    SInv P (wcTail cfg o k b a d).1 ∧ Eff P k (wcTail cfg o k b a d).1 [a] ∧
    (wcTail cfg o k b a d).2 ≠ .blocked ∧
    (∀ i, (wcTail cfg o k b a d).2 = .pending i →
      ∃ e, ReadsK (wcTail cfg o k b a d).1.inodes (wcTail cfg o k b a d).1.dir a e ∧
        (k.dir.lookup a = none → (rs ++ [(a, d)]).lookup a = some e)) := by
  obtain ⟨se, sl, sb, si, sh, _, sok, sfail⟩ := sbWrite_spec cfg o k b a d hk hb ha hd hp
  unfold wcTail
  simp only
  by_cases hw : (sbWrite cfg o k b a d).2.2 = true
  · obtain ⟨wr, we, _, _, wbf, wpan, e0, wre, wfr⟩ := sok hw
    simp only [hw, if_true]
    split
    · -- rotation: the batch is closed here
      have s := intSync_spec cfg o (sbWrite cfg o k b a d).1 (sbWrite cfg o k b a d).2.1
      refine ⟨⟨by simp only [s.1, s.2.1]; exact se.inv, ?_, rfl, ?_⟩, ?_, by simp, ?_⟩
      · intro b' hb' hr'
        simp only [Option.some.injEq] at hb'
        rw [← hb', s.2.2.2.2.2.1] at hr'; cases hr'
      · simp only [s.2.2.2.2.2.2.2.2, wpan, hp0, wr, hbr]; simp
      · exact (se.trans (Eff.of_same se.inv (k' := { (intSync cfg o (sbWrite cfg o k b a d).1 (sbWrite cfg o k b a d).2.1).1 with
            batch := some (intSync cfg o (sbWrite cfg o k b a d).1 (sbWrite cfg o k b a d).2.1).2, lockHeld := false })
          s.1 s.2.1 s.2.2.1 [])).weaken (by simp)
      · intro i _
        exact ⟨e0, by simp only [s.1, s.2.1]; exact wre, wfr⟩
    · refine ⟨⟨se.inv, ?_, rfl, by simp only [wpan, hp0]⟩, ?_, by simp, ?_⟩
      · intro b' hb' _
        simp only [Option.some.injEq] at hb'
        subst hb'
        exact ⟨by rw [sh]; exact hbh, by rw [we]; exact hbe, rs ++ [(a, d)], by rw [si]; exact wbf⟩
      · exact (se.trans (Eff.of_same se.inv (k' := { (sbWrite cfg o k b a d).1 with
            batch := some (sbWrite cfg o k b a d).2.1, lockHeld := false }) rfl rfl rfl [])).weaken (by simp)
      · intro i _
        exact ⟨e0, wre, wfr⟩
  · have hw' : (sbWrite cfg o k b a d).2.2 = false := by simpa using hw
    obtain ⟨fr, fpan⟩ := sfail hw'
    have hrot : ∀ c s, rotateTest cfg false c s = false := by
      intro c s; unfold rotateTest; rw [hc.1]; simp
    simp only [hw', hrot, Bool.false_eq_true, if_false]
    refine ⟨⟨se.inv, ?_, rfl, by simp only [fpan, hp0, hbr]; simp⟩, ?_, by simp, by simp⟩
    · intro b' hb' hr'
      simp only [Option.some.injEq] at hb'
      rw [← hb', fr] at hr'; cases hr'
    · exact (se.trans (Eff.of_same se.inv (k' := { (sbWrite cfg o k b a d).1 with
          batch := some (sbWrite cfg o k b a d).2.1, lockHeld := false }) rfl rfl rfl [])).weaken (by simp)

theorem openBatch_spec (o : Oracle) (k : K) :
    SameProc k (openBatch o k).1 ∧ (openBatch o k).1.dir = k.dir ∧ (openBatch o k).1.tmps = k.tmps ∧
    (((openBatch o k).2 = none ∧ (openBatch o k).1.inodes = k.inodes) ∨
     ((openBatch o k).2 = some { ino := k.inodes.length } ∧ (openBatch o k).1.inodes = k.inodes ++ [[]])) := by
  obtain ⟨op, od, ot, oc⟩ := sysOpen_spec o k
  unfold openBatch
  rcases oc with ⟨hr, oi⟩ | ⟨hr, oi⟩
  · have : sysOpen o k = ((sysOpen o k).1, none) := by rw [← hr]
    rw [this]; exact ⟨op, od, ot, Or.inl ⟨rfl, oi⟩⟩
  · have : sysOpen o k = ((sysOpen o k).1, some k.inodes.length) := by rw [← hr]
    rw [this]; exact ⟨op, od, ot, Or.inr ⟨rfl, oi⟩⟩

/-- the lock-protected section of `writeCombinedFile`, for every oracle -/
theorem writeCombined_spec {P} (cfg : Cfg) (hc : cfg.Fixed) (o : Oracle) (k : K) (a : Nat) (d : Bytes)
    (hs : SInv P k) (ha : IdOK a) (hd : DataOK d) (hp : P a d) :
    SInv P (writeCombined cfg o k a d).1 ∧ Eff P k (writeCombined cfg o k a d).1 [a] ∧
    (writeCombined cfg o k a d).2 ≠ .blocked ∧
    (∀ i, (writeCombined cfg o k a d).2 = .pending i →
      ∃ e, ReadsK (writeCombined cfg o k a d).1.inodes (writeCombined cfg o k a d).1.dir a e ∧
        ((∀ b, k.batch = some b → b.ready = true) → k.dir.lookup a = none → e = d)) := by
  -- the branch that opens a new batch file
  have newBatch : SInv P (match (openBatch o k).2 with
        | none => ({ (openBatch o k).1 with batch := none, lockHeld := !cfg.unlockFixed }, WRes.failed)
        | some b => wcTail cfg o (openBatch o k).1 b a d).1 ∧
      Eff P k (match (openBatch o k).2 with
        | none => ({ (openBatch o k).1 with batch := none, lockHeld := !cfg.unlockFixed }, WRes.failed)
        | some b => wcTail cfg o (openBatch o k).1 b a d).1 [a] ∧
      (match (openBatch o k).2 with
        | none => ({ (openBatch o k).1 with batch := none, lockHeld := !cfg.unlockFixed }, WRes.failed)
        | some b => wcTail cfg o (openBatch o k).1 b a d).2 ≠ .blocked ∧
      (∀ i, (match (openBatch o k).2 with
        | none => ({ (openBatch o k).1 with batch := none, lockHeld := !cfg.unlockFixed }, WRes.failed)
        | some b => wcTail cfg o (openBatch o k).1 b a d).2 = .pending i →
        ∃ e, ReadsK (match (openBatch o k).2 with
        | none => ({ (openBatch o k).1 with batch := none, lockHeld := !cfg.unlockFixed }, WRes.failed)
        | some b => wcTail cfg o (openBatch o k).1 b a d).1.inodes (match (openBatch o k).2 with
        | none => ({ (openBatch o k).1 with batch := none, lockHeld := !cfg.unlockFixed }, WRes.failed)
        | some b => wcTail cfg o (openBatch o k).1 b a d).1.dir a e ∧ (k.dir.lookup a = none → e = d)) := by
    obtain ⟨op, od, ot, oc⟩ := openBatch_spec o k
    rcases oc with ⟨hr, oi⟩ | ⟨hr, oi⟩
    · rw [hr]
      simp only [hc.2.1, Bool.not_true]
      refine ⟨⟨by rw [oi, od]; exact hs.kinv, (fun _ h => by cases h), rfl, by rw [op.2.1]; exact hs.nopanic⟩, ?_, by simp, by simp⟩
      exact Eff.of_same hs.kinv (k' := { (openBatch o k).1 with batch := none, lockHeld := false }) oi od ot _
    · rw [hr]
      simp only
      have k0 : KInv P (openBatch o k).1.inodes (openBatch o k).1.dir := by rw [oi, od]; exact kinv_addInode hs.kinv []
      have e0 : Eff P k (openBatch o k).1 [a] :=
        ⟨k0, fun y e h => by rw [oi, od]; exact readsK_addInode hs.kinv h [], fun _ _ => by rw [od], by rw [oi]; simp, ot, fun h => by rw [od]; exact h⟩
      have bf0 : BatchFile P (openBatch o k).1.inodes k.inodes.length [] :=
        ⟨by rw [oi]; simp, by rw [oi, getD_append_new]; rfl, (fun _ h => by cases h), (fun _ h => by cases h)⟩
      obtain ⟨ts, te, tb, tp⟩ := wcTail_spec (P := P) cfg hc o (openBatch o k).1 { ino := k.inodes.length } a d k0 bf0 rfl rfl rfl
        (by rw [op.2.1]; exact hs.nopanic) ha hd hp
      refine ⟨ts, (e0.trans te).weaken (by simp), tb, fun i h => ?_⟩
      obtain ⟨e, he, hf⟩ := tp i h
      refine ⟨e, he, fun hn => ?_⟩
      have := hf (by rw [od]; exact hn)
      simp at this
      exact this.symm
  unfold writeCombined
  simp only [hs.lock, Bool.false_eq_true, if_false]
  cases hbt : k.batch with
  | some b =>
    by_cases hr : b.ready = true
    · simp only [hr, if_true]
      obtain ⟨n1, n2, n3, n4⟩ := newBatch
      exact ⟨n1, n2, n3, fun i h => by obtain ⟨e, he, hf⟩ := n4 i h; exact ⟨e, he, fun _ => hf⟩⟩
    · have hr' : b.ready = false := by simpa using hr
      simp only [hr', Bool.false_eq_true, if_false]
      obtain ⟨bh, be, rs, bf⟩ := hs.binv b hbt hr'
      obtain ⟨ts, te, tb, tp⟩ := wcTail_spec (P := P) cfg hc o k b a d hs.kinv bf hr' bh be hs.nopanic ha hd hp
      refine ⟨ts, te, tb, fun i h => ?_⟩
      obtain ⟨e, he, _⟩ := tp i h
      refine ⟨e, he, fun hq => ?_⟩
      have := hq b rfl
      rw [hr'] at this; cases this
  | none =>
    simp only [if_true]
    obtain ⟨n1, n2, n3, n4⟩ := newBatch
    exact ⟨n1, n2, n3, fun i h => by obtain ⟨e, he, hf⟩ := n4 i h; exact ⟨e, he, fun _ => hf⟩⟩

/-- the timer (or `finalize`) closing the open batch -/
theorem tick_spec {P} (cfg : Cfg) (o : Oracle) (k : K) (hs : SInv P k) :
    SInv P (tick cfg o k) ∧ Eff P k (tick cfg o k) [] ∧ (∀ b, (tick cfg o k).batch = some b → b.ready = true) := by
  unfold tick
  cases hbt : k.batch with
  | none =>
    simp only
    exact ⟨hs, Eff.refl hs.kinv _, fun b h => by rw [hbt] at h; cases h⟩
  | some b =>
    simp only
    by_cases hr : b.ready = true
    · simp only [hr, if_true]
      exact ⟨hs, Eff.refl hs.kinv _, fun b' h => by rw [hbt] at h; cases h; exact hr⟩
    · have hr' : b.ready = false := by simpa using hr
      simp only [hr', Bool.false_eq_true, if_false]
      have s := intSync_spec cfg o k b
      refine ⟨⟨by simp only [s.1, s.2.1]; exact hs.kinv, ?_, by simp only [s.2.2.2.1]; exact hs.lock, ?_⟩, ?_, ?_⟩
      · intro b' hb' hr2
        simp only [Option.some.injEq] at hb'
        rw [← hb', s.2.2.2.2.2.1] at hr2; cases hr2
      · simp only [s.2.2.2.2.2.2.2.2, hs.nopanic, hr']; simp
      · exact Eff.of_same hs.kinv (k' := { (intSync cfg o k b).1 with batch := some (intSync cfg o k b).2 }) s.1 s.2.1 s.2.2.1 []
      · intro b' hb'
        simp only [Option.some.injEq] at hb'
        rw [← hb']; exact s.2.2.2.2.2.1

theorem lookup_eraseKey_ne (a x : Nat) (l : List (Nat × Nat)) (hx : x ≠ a) : (eraseKey a l).lookup x = l.lookup x := by
  induction l with
  | nil => rfl
  | cons p ps ih =>
    unfold eraseKey at ih ⊢
    rw [List.filter_cons]
    by_cases hp : p.1 = a
    · have h1 : decide (p.1 ≠ a) = false := by simp [hp]
      rw [h1]; simp only [Bool.false_eq_true, if_false]
      rw [ih, List.lookup_cons]
      have : (x == p.1) = false := by rw [hp]; simpa using hx
      rw [this]
    · have h1 : decide (p.1 ≠ a) = true := by simp [hp]
      rw [h1]; simp only [if_true]
      rw [List.lookup_cons, List.lookup_cons, ih]

theorem lookup_eraseKey_self (a : Nat) (l : List (Nat × Nat)) : (eraseKey a l).lookup a = none := by
  induction l with
  | nil => rfl
  | cons p ps ih =>
    unfold eraseKey at ih ⊢
    rw [List.filter_cons]
    by_cases hp : p.1 = a
    · have h1 : decide (p.1 ≠ a) = false := by simp [hp]
      rw [h1]; simp only [Bool.false_eq_true, if_false]
      exact ih
    · have h1 : decide (p.1 ≠ a) = true := by simp [hp]
      rw [h1]; simp only [if_true]
      rw [List.lookup_cons, ih]
      have : (a == p.1) = false := by simp; exact fun h => hp h.symm
      rw [this]

/-- `Delete`: one unlink -/
theorem delete_spec {P} (o : Oracle) (k : K) (a : Nat) (hk : KInv P k.inodes k.dir) :
    KInv P (delete o k a).1.inodes (delete o k a).1.dir ∧ (delete o k a).1.inodes = k.inodes ∧
    (∀ x e, x ≠ a → ReadsK k.inodes k.dir x e → ReadsK (delete o k a).1.inodes (delete o k a).1.dir x e) ∧
    (∀ x, x ≠ a → (delete o k a).1.dir.lookup x = k.dir.lookup x) ∧
    ((delete o k a).1.dir = k.dir ∨ (delete o k a).1.dir.lookup a = none) ∧
    SameProc k (delete o k a).1 := by
  have erase_other : ∀ x, x ≠ a → (eraseKey a k.dir).lookup x = k.dir.lookup x :=
    fun x hx => lookup_eraseKey_ne a x k.dir hx
  have erase_self : (eraseKey a k.dir).lookup a = none := lookup_eraseKey_self a k.dir
  have erase_sub : ∀ x i, (eraseKey a k.dir).lookup x = some i → k.dir.lookup x = some i := by
    intro x i h
    by_cases hx : x = a
    · rw [hx, erase_self] at h; cases h
    · rw [erase_other x hx] at h; exact h
  unfold delete
  cases hl : k.dir.lookup a with
  | none =>
    simp only
    exact ⟨hk, (by first | trivial | rfl), fun _ _ _ h => h, fun _ _ => (by first | trivial | rfl), Or.inl (by first | trivial | rfl), ⟨rfl, rfl, rfl, rfl⟩⟩
  | some i =>
    simp only
    unfold sysUnlink
    split
    · exact ⟨hk, rfl, fun _ _ _ h => h, fun _ _ => rfl, Or.inl rfl, ⟨rfl, rfl, rfl, rfl⟩⟩
    · exact ⟨hk, rfl, fun _ _ _ h => h, fun _ _ => rfl, Or.inl rfl, ⟨rfl, rfl, rfl, rfl⟩⟩
    · refine ⟨fun x j h => hk x j (erase_sub x j h), rfl, ?_, fun x hx => erase_other x hx, Or.inr erase_self, ⟨rfl, rfl, rfl, rfl⟩⟩
      intro x e hx ⟨j, hj, hh⟩
      exact ⟨j, by simp only; rw [erase_other x hx]; exact hj, hh⟩

end NeoFS.FSTree
