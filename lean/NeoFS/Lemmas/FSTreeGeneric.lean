import NeoFS.Lemmas.FSTreeApi
/-! The portable writer (`p#i`, write, close, rename) of the file-tree model, for every oracle. Core Lean only. -/
namespace NeoFS.FSTree

theorem sysOpenExcl_spec (o : Oracle) (k : K) (t : Nat × Nat) :
    SameProc k (sysOpenExcl o k t).1 ∧ (sysOpenExcl o k t).1.dir = k.dir ∧
    (((sysOpenExcl o k t).2.1 ≠ .ok ∧ (sysOpenExcl o k t).1.inodes = k.inodes) ∨
     ((sysOpenExcl o k t).2.1 = .ok ∧ (sysOpenExcl o k t).2.2 = k.inodes.length ∧ (sysOpenExcl o k t).1.inodes = k.inodes ++ [[]])) := by
  unfold sysOpenExcl
  split
  · exact ⟨⟨rfl, rfl, rfl, rfl⟩, rfl, Or.inl ⟨by simp, rfl⟩⟩
  · exact ⟨⟨rfl, rfl, rfl, rfl⟩, rfl, Or.inl ⟨by simp, rfl⟩⟩
  · split
    · exact ⟨⟨rfl, rfl, rfl, rfl⟩, rfl, Or.inl ⟨by simp, rfl⟩⟩
    · exact ⟨⟨rfl, rfl, rfl, rfl⟩, rfl, Or.inr ⟨rfl, rfl, rfl⟩⟩

theorem sysRename_spec (o : Oracle) (k : K) (t : Nat × Nat) (ino a : Nat) :
    SameProc k (sysRename o k t ino a).1 ∧ (sysRename o k t ino a).1.inodes = k.inodes ∧
    (((sysRename o k t ino a).2 = false ∧ (sysRename o k t ino a).1.dir = k.dir) ∨
     ((sysRename o k t ino a).2 = true ∧ (sysRename o k t ino a).1.dir = eraseKey a k.dir ++ [(a, ino)])) := by
  unfold sysRename
  split
  · exact ⟨⟨rfl, rfl, rfl, rfl⟩, rfl, Or.inl ⟨rfl, rfl⟩⟩
  · exact ⟨⟨rfl, rfl, rfl, rfl⟩, rfl, Or.inl ⟨rfl, rfl⟩⟩
  · exact ⟨⟨rfl, rfl, rfl, rfl⟩, rfl, Or.inr ⟨rfl, rfl⟩⟩

/-- the name of `a` replaced by a fresh plain file holding `d` -/
theorem kinv_rename {P} {inodes : List Bytes} {dir : List (Nat × Nat)} (h : KInv P inodes dir) {a j : Nat} {d : Bytes}
    (ha : IdOK a) (hp : P a d) (hd : DataOK d) (hh : Holds (inodes.getD j []) a d) :
    KInv P inodes (eraseKey a dir ++ [(a, j)]) := by
  intro x i hl
  rw [lookup_append_new] at hl
  by_cases hx : x = a
  · subst hx
    rw [lookup_eraseKey_self] at hl
    simp at hl
    subst hl
    exact ⟨ha, d, hp, hd, hh⟩
  · rw [lookup_eraseKey_ne a x dir hx] at hl
    by_cases hn : dir.lookup x = none
    · rw [if_pos hn, if_neg hx] at hl; cases hl
    · rw [if_neg hn] at hl; exact h x i hl

/-- the portable writer (`p#i`, write, close, rename), for every oracle: names stay safe, other addresses untouched -/
theorem genericWrite_spec {P} (o : Oracle) (a : Nat) (d : Bytes) (ha : IdOK a) (hd : DataOK d) (hpl : PlainOK d) (hp : P a d) :
    ∀ (tries i : Nat) (k : K), KInv P k.inodes k.dir →
    KInv P (genericWrite o tries i k a d).1.inodes (genericWrite o tries i k a d).1.dir ∧
    (∀ x e, x ≠ a → ReadsK k.inodes k.dir x e →
      ReadsK (genericWrite o tries i k a d).1.inodes (genericWrite o tries i k a d).1.dir x e) ∧
    ((genericWrite o tries i k a d).1.dir = k.dir ∨
      ReadsK (genericWrite o tries i k a d).1.inodes (genericWrite o tries i k a d).1.dir a d) ∧
    ((genericWrite o tries i k a d).2 = true →
      ReadsK (genericWrite o tries i k a d).1.inodes (genericWrite o tries i k a d).1.dir a d) ∧
    SameProc k (genericWrite o tries i k a d).1 := by
  intro tries
  induction tries with
  | zero => intro i k hk; exact ⟨hk, fun _ _ _ h => h, Or.inl rfl, fun h => (by cases h), ⟨rfl, rfl, rfl, rfl⟩⟩
  | succ tries ih =>
    intro i k hk
    unfold genericWrite
    simp only
    obtain ⟨op, od, oc⟩ := sysOpenExcl_spec o k (a, i)
    -- whatever the open did, the state after it is safe and reads the same
    have k0 : KInv P (sysOpenExcl o k (a, i)).1.inodes (sysOpenExcl o k (a, i)).1.dir := by
      rcases oc with ⟨_, oi⟩ | ⟨_, _, oi⟩
      · rw [oi, od]; exact hk
      · rw [oi, od]; exact kinv_addInode hk []
    have f0 : ∀ x e, ReadsK k.inodes k.dir x e → ReadsK (sysOpenExcl o k (a, i)).1.inodes (sysOpenExcl o k (a, i)).1.dir x e := by
      intro x e h
      rcases oc with ⟨_, oi⟩ | ⟨_, _, oi⟩
      · rw [oi, od]; exact h
      · rw [oi, od]; exact readsK_addInode hk h []
    cases hres : (sysOpenExcl o k (a, i)).2.1 with
    | eexist =>
      simp only
      split
      · exact ⟨k0, fun x e _ h => f0 x e h, Or.inl od, fun h => (by cases h), op⟩
      · obtain ⟨i1, i2, i3, i4, i5⟩ := ih (i + 1) (sysOpenExcl o k (a, i)).1 k0
        refine ⟨i1, fun x e hx h => i2 x e hx (f0 x e h), ?_, i4, ?_⟩
        · rcases i3 with h | h
          · exact Or.inl (by rw [h, od])
          · exact Or.inr h
        · exact ⟨by rw [i5.1, op.1], by rw [i5.2.1, op.2.1], by rw [i5.2.2.1, op.2.2.1], by rw [i5.2.2.2, op.2.2.2]⟩
    | err =>
      simp only
      exact ⟨k0, fun x e _ h => f0 x e h, Or.inl od, fun h => (by cases h), op⟩
    | ok =>
      simp only
      rcases oc with ⟨hne, _⟩ | ⟨_, hino, oi⟩
      · exact absurd hres hne
      · rw [hino]
        have fresh : ∀ x j, (sysOpenExcl o k (a, i)).1.dir.lookup x = some j → j ≠ k.inodes.length := by
          intro x j h; rw [od] at h; have := kinv_lt hk h; omega
        obtain ⟨wp, wd, _, y, wi, wy⟩ := sysWrite_spec o (sysOpenExcl o k (a, i)).1 k.inodes.length d
        have k1 : KInv P (sysWrite o (sysOpenExcl o k (a, i)).1 k.inodes.length d).1.inodes
            (sysWrite o (sysOpenExcl o k (a, i)).1 k.inodes.length d).1.dir := by
          rw [wi, wd]; exact kinv_appendAt_fresh k0 fresh y
        have f1 : ∀ x e, ReadsK k.inodes k.dir x e → ReadsK (sysWrite o (sysOpenExcl o k (a, i)).1 k.inodes.length d).1.inodes
            (sysWrite o (sysOpenExcl o k (a, i)).1 k.inodes.length d).1.dir x e := by
          intro x e h; rw [wi, wd]; exact readsK_appendAt_fresh fresh (f0 x e h) y
        by_cases hw : (sysWrite o (sysOpenExcl o k (a, i)).1 k.inodes.length d).2 = true
        · have hy := (wy hw).symm
          subst hy
          simp only [hw, Bool.not_true, Bool.false_eq_true, if_false]
          obtain ⟨cp, ci, cd, _⟩ := sysSync_spec o (sysWrite o (sysOpenExcl o k (a, i)).1 k.inodes.length d).1
          have k2 : KInv P (sysSync o (sysWrite o (sysOpenExcl o k (a, i)).1 k.inodes.length d).1).1.inodes
              (sysSync o (sysWrite o (sysOpenExcl o k (a, i)).1 k.inodes.length d).1).1.dir := by rw [ci, cd]; exact k1
          have spc : SameProc k (sysSync o (sysWrite o (sysOpenExcl o k (a, i)).1 k.inodes.length d).1).1 :=
            ⟨by rw [cp.1, wp.1, op.1], by rw [cp.2.1, wp.2.1, op.2.1], by rw [cp.2.2.1, wp.2.2.1, op.2.2.1], by rw [cp.2.2.2, wp.2.2.2, op.2.2.2]⟩
          by_cases hcl : (sysSync o (sysWrite o (sysOpenExcl o k (a, i)).1 k.inodes.length d).1).2 = true
          · simp only [hcl, Bool.not_true, Bool.false_eq_true, if_false]
            obtain ⟨rp, ri, rc⟩ := sysRename_spec o (sysSync o (sysWrite o (sysOpenExcl o k (a, i)).1 k.inodes.length d).1).1 (a, i) k.inodes.length a
            have hcontent : (sysSync o (sysWrite o (sysOpenExcl o k (a, i)).1 k.inodes.length d).1).1.inodes.getD k.inodes.length [] = d := by
              rw [ci, wi, oi, appendAt_getD_eq _ _ _ (by simp), getD_append_new]; simp
            have spr : SameProc k (sysRename o (sysSync o (sysWrite o (sysOpenExcl o k (a, i)).1 k.inodes.length d).1).1 (a, i) k.inodes.length a).1 :=
              ⟨by rw [rp.1, spc.1], by rw [rp.2.1, spc.2.1], by rw [rp.2.2.1, spc.2.2.1], by rw [rp.2.2.2, spc.2.2.2]⟩
            rcases rc with ⟨rr, rd⟩ | ⟨rr, rd⟩
            · refine ⟨by rw [ri, rd]; exact k2, fun x e _ h => (by rw [ri, rd, ci, cd]; exact f1 x e h),
                Or.inl (by rw [rd, cd, wd, od]), fun h => (by rw [rr] at h; cases h), spr⟩
            · have hh : Holds ((sysSync o (sysWrite o (sysOpenExcl o k (a, i)).1 k.inodes.length d).1).1.inodes.getD k.inodes.length []) a d := by
                rw [hcontent]; exact Or.inl ⟨rfl, hpl⟩
              have rda : ReadsK (sysRename o (sysSync o (sysWrite o (sysOpenExcl o k (a, i)).1 k.inodes.length d).1).1 (a, i) k.inodes.length a).1.inodes
                  (sysRename o (sysSync o (sysWrite o (sysOpenExcl o k (a, i)).1 k.inodes.length d).1).1 (a, i) k.inodes.length a).1.dir a d := by
                refine ⟨k.inodes.length, ?_, by rw [ri]; exact hh⟩
                rw [rd, lookup_append_new, lookup_eraseKey_self]; simp
              refine ⟨by rw [ri, rd]; exact kinv_rename k2 ha hp hd hh, ?_, Or.inr rda, fun _ => rda, spr⟩
              intro x e hx h
              obtain ⟨j, hj, hjh⟩ := f1 x e h
              refine ⟨j, ?_, by rw [ri, ci]; exact hjh⟩
              rw [rd, lookup_append_new, lookup_eraseKey_ne a x _ hx, cd, hj]; simp
          · have hcl' : (sysSync o (sysWrite o (sysOpenExcl o k (a, i)).1 k.inodes.length d).1).2 = false := by simpa using hcl
            simp only [hcl', Bool.not_false, if_true]
            exact ⟨k2, fun x e _ h => (by rw [ci, cd]; exact f1 x e h), Or.inl (by rw [cd, wd, od]), fun h => (by cases h), spc⟩
        · have hw' : (sysWrite o (sysOpenExcl o k (a, i)).1 k.inodes.length d).2 = false := by simpa using hw
          simp only [hw', Bool.not_false, if_true]
          obtain ⟨cp, ci, cd, _⟩ := sysSync_spec o (sysWrite o (sysOpenExcl o k (a, i)).1 k.inodes.length d).1
          refine ⟨by rw [ci, cd]; exact k1, fun x e _ h => (by rw [ci, cd]; exact f1 x e h), Or.inl (by rw [cd, wd, od]),
            fun h => (by cases h), ?_⟩
          exact ⟨by rw [cp.1, wp.1, op.1], by rw [cp.2.1, wp.2.1, op.2.1], by rw [cp.2.2.1, wp.2.2.1, op.2.2.1], by rw [cp.2.2.2, wp.2.2.2, op.2.2.2]⟩

end NeoFS.FSTree
