import NeoFS.Lemmas.PolicerCluster
/-! Progress of one pass over one REP list in a healthy network (for `Props/C27.lean`). -/
namespace NeoFS.Policer

/-- a healthy, truthful network as one pass sees it: nobody under maintenance, every node answers `holds` or
`notFound`, every replication succeeds, the local object is readable -/
structure Healthy (e : Env) : Prop where
  flag : ∀ n, e.flag n = false
  ans : ∀ n, e.ans n = .holds ∨ e.ans n = .notFound
  repl : ∀ n, e.repl n = true
  readable : e.readable = true

theorem sendLoop_all (e : Env) (h : ∀ n, e.repl n = true) (K : List Nat) (hk : ∀ k ∈ K, k ≠ e.me) (q : Nat) :
    sendLoop e q K = K.take q := by
  induction K generalizing q with
  | nil => simp [sendLoop]
  | cons a as ih =>
    unfold sendLoop
    by_cases hq : q = 0
    · simp [hq]
    · have ha : a ≠ e.me := hk a List.mem_cons_self
      simp only [hq, ha, h a, if_true, if_false]
      rw [ih (fun k hk' => hk k (List.mem_cons_of_mem _ hk'))]
      obtain ⟨q', rfl⟩ := Nat.exists_eq_succ_of_ne_zero hq
      simp

/-- what the node loop leaves behind in a healthy network: `G` = the nodes that lowered the shortage (holders and
the local node), `K` = the candidates it collected (nodes that do not hold the object) -/
structure WalkOut (e : Env) (ns : List Nat) (c c' : Ctx) (l l' : Loop) (G K : List Nat) : Prop where
  cands : l'.cands = l.cands ++ K
  unchecked : l'.unchecked = l.unchecked
  gnd : G.Nodup
  knd : K.Nodup
  gok : ∀ g ∈ G, g ∈ ns ∧ (g = e.me ∨ e.ans g = .holds)
  kok : ∀ k ∈ K, k ∈ ns ∧ k ≠ e.me ∧ e.ans k = .notFound
  short : l'.shortage + G.length = l.shortage
  all : l'.shortage > 0 → G.length + K.length = ns.length
  need : e.me ∈ G → c'.need = true
  tasks : c'.tasks = c.tasks

theorem walk_progress (e : Env) (he : Healthy e) (ns : List Nat) (nd : ns.Nodup) (c : Ctx) (l : Loop)
    (hc : ∀ n ∈ ns, cacheGet c.cache n = none) :
    ∃ G K, WalkOut e ns c (walk e c l ns).1 l (walk e c l ns).2 G K := by
  induction ns generalizing c l with
  | nil =>
    exact ⟨[], [], ⟨by simp [walk], rfl, List.nodup_nil, List.nodup_nil, by simp, by simp, by simp [walk],
      by simp [walk], by simp, rfl⟩⟩
  | cons a as ih =>
    have nda : a ∉ as := (List.nodup_cons.mp nd).1
    have ndas : as.Nodup := (List.nodup_cons.mp nd).2
    unfold walk
    split_ifs with hstop
    · simp only [Bool.and_eq_true, decide_eq_true_eq] at hstop
      exact ⟨[], [], ⟨by simp, rfl, List.nodup_nil, List.nodup_nil, by simp, by simp, by simp,
        fun h => by have := hstop.2; simp only at h; omega, by simp, rfl⟩⟩
    · dsimp only
      have hca : cacheGet c.cache a = none := hc a List.mem_cons_self
      have tail : ∀ (c1 : Ctx) (b : Option Bool), (c1.cache = c.cache ∨ ∃ v, c1.cache = (a, v) :: c.cache) →
          ∀ n ∈ as, cacheGet c1.cache n = none := by
        intro c1 _ hcc n hn
        rcases hcc with h | ⟨v, h⟩
        · rw [h]; exact hc n (List.mem_cons_of_mem _ hn)
        · rw [h, cacheGet_cons_ne _ _ _ _ (fun (heq : n = a) => nda (heq ▸ hn))]
          exact hc n (List.mem_cons_of_mem _ hn)
      have wm := fun c1 l1 => walk_mono e as c1 l1
      by_cases h0 : l.shortage = 0
      · rw [nodeStep_zero e c l a h0]
        obtain ⟨G, K, w⟩ := ih ndas (seen e c a) l (tail _ none (Or.inl rfl))
        have hz := walk_zero e as (seen e c a) l h0
        exact ⟨G, K, ⟨w.cands, w.unchecked, w.gnd, w.knd,
          fun g hg => ⟨List.mem_cons_of_mem _ (w.gok g hg).1, (w.gok g hg).2⟩,
          fun k hk => ⟨List.mem_cons_of_mem _ (w.kok k hk).1, (w.kok k hk).2⟩, w.short,
          fun h => by simp only at h hz; omega, w.need, w.tasks⟩⟩
      by_cases hl : a = e.me
      · have hstep : nodeStep e c l a = ({ seen e c a with need := true }, { l with shortage := l.shortage - 1 }) := by
          simp [nodeStep, seen, h0, hl, dec32_of_ne_zero h0]
        rw [hstep]
        obtain ⟨G, K, w⟩ := ih ndas { seen e c a with need := true } { l with shortage := l.shortage - 1 }
          (tail _ none (Or.inl rfl))
        refine ⟨a :: G, K, ⟨w.cands, w.unchecked, ?_, w.knd, ?_, ?_, ?_, ?_, ?_, w.tasks⟩⟩
        · exact List.nodup_cons.mpr ⟨fun h => nda (w.gok a h).1, w.gnd⟩
        · intro g hg
          rcases List.mem_cons.mp hg with rfl | hg
          · exact ⟨List.mem_cons_self, Or.inl hl⟩
          · exact ⟨List.mem_cons_of_mem _ (w.gok g hg).1, (w.gok g hg).2⟩
        · exact fun k hk => ⟨List.mem_cons_of_mem _ (w.kok k hk).1, (w.kok k hk).2⟩
        · have := w.short; simp only [List.length_cons] at this ⊢; omega
        · intro h; have := w.all h; simp only [List.length_cons] at this ⊢; omega
        · exact fun _ => (wm _ _).need rfl
      · have hf := he.flag a
        rw [nodeStep_head e c l a h0 hl hf hca]
        rcases he.ans a with hans | hans
        · -- a holder: the shortage goes down
          simp only [hans]
          obtain ⟨G, K, w⟩ := ih ndas
            { seen e c a with heads := c.heads ++ [a], cache := (a, true) :: c.cache } { l with shortage := l.shortage - 1 }
            (tail _ none (Or.inr ⟨true, rfl⟩))
          refine ⟨a :: G, K, ⟨w.cands, w.unchecked, ?_, w.knd, ?_, ?_, ?_, ?_, ?_, w.tasks⟩⟩
          · exact List.nodup_cons.mpr ⟨fun h => nda (w.gok a h).1, w.gnd⟩
          · intro g hg
            rcases List.mem_cons.mp hg with rfl | hg
            · exact ⟨List.mem_cons_self, Or.inr hans⟩
            · exact ⟨List.mem_cons_of_mem _ (w.gok g hg).1, (w.gok g hg).2⟩
          · exact fun k hk => ⟨List.mem_cons_of_mem _ (w.kok k hk).1, (w.kok k hk).2⟩
          · have := w.short; simp only [List.length_cons] at this ⊢; omega
          · intro h; have := w.all h; simp only [List.length_cons] at this ⊢; omega
          · intro h
            rcases List.mem_cons.mp h with h | h
            · exact absurd h.symm hl
            · exact w.need h
        · -- not a holder: a candidate
          simp only [hans]
          obtain ⟨G, K, w⟩ := ih ndas
            { seen e c a with heads := c.heads ++ [a], cache := (a, false) :: c.cache } { l with cands := l.cands ++ [a] }
            (tail _ none (Or.inr ⟨false, rfl⟩))
          refine ⟨G, a :: K, ⟨?_, w.unchecked, w.gnd, ?_, ?_, ?_, w.short, ?_, w.need, w.tasks⟩⟩
          · rw [w.cands]; simp
          · exact List.nodup_cons.mpr ⟨fun h => nda (w.kok a h).1, w.knd⟩
          · exact fun g hg => ⟨List.mem_cons_of_mem _ (w.gok g hg).1, (w.gok g hg).2⟩
          · intro k hk
            rcases List.mem_cons.mp hk with rfl | hk
            · exact ⟨List.mem_cons_self, hl, hans⟩
            · exact ⟨List.mem_cons_of_mem _ (w.kok k hk).1, (w.kok k hk).2⟩
          · intro h; have := w.all h; simp only [List.length_cons] at this ⊢; omega

/-- one pass over one list of distinct nodes in a healthy network, starting with an empty node cache: afterwards as
many distinct nodes of the list as the rule asks for hold the object — each is the local node (which then keeps its
copy), a node that answered `holds`, or a node the replicator reported a successful replication to -/
theorem processNodes_progress (e : Env) (he : Healthy e) (typ : OType) (nodes : List Nat) (nd : nodes.Nodup) (r : Nat)
    (hs : startShortage typ nodes r ≤ nodes.length) :
    ∃ D : List Nat, D.Nodup ∧ D.length = startShortage typ nodes r ∧ ∀ n ∈ D, n ∈ nodes ∧
      ((n = e.me ∧ (processNodes e false typ {} nodes r).need = true) ∨
       (n ≠ e.me ∧ (e.ans n = .holds ∨ ∃ t ∈ (processNodes e false typ {} nodes r).tasks, n ∈ t.done))) := by
  obtain ⟨G, K, w⟩ := walk_progress e he nodes nd {} { shortage := startShortage typ nodes r }
    (fun n _ => by simp [cacheGet])
  unfold processNodes
  dsimp only
  generalize walk e {} { shortage := startShortage typ nodes r } nodes = res at w
  obtain ⟨c', l'⟩ := res
  simp only at w ⊢
  have hK : l'.cands = K := by rw [w.cands]; simp
  have hu : l'.unchecked = 0 := w.unchecked
  have hsh : l'.shortage + G.length = startShortage typ nodes r := w.short
  have gmem : ∀ cf : Ctx, (c'.need = true → cf.need = true) → ∀ g ∈ G, g ∈ nodes ∧
      ((g = e.me ∧ cf.need = true) ∨ (g ≠ e.me ∧ (e.ans g = .holds ∨ ∃ t ∈ cf.tasks, g ∈ t.done))) := by
    intro cf hneed g hg
    refine ⟨(w.gok g hg).1, ?_⟩
    by_cases hgm : g = e.me
    · exact Or.inl ⟨hgm, hneed (w.need (hgm ▸ hg))⟩
    · exact Or.inr ⟨hgm, Or.inl ((w.gok g hg).2.resolve_left hgm)⟩
  by_cases hpos : l'.shortage > 0
  · have hfin : finish e false c' l' = replicate e c' l'.shortage K := by
      unfold finish; simp [hpos, hK]
    rw [hfin]
    have hall := w.all hpos
    have hdone : handleTask e l'.shortage K = K.take l'.shortage := by
      unfold handleTask
      rw [he.readable]
      exact sendLoop_all e he.repl K (fun k hk => (w.kok k hk).2.1) _
    refine ⟨G ++ K.take l'.shortage, ?_, ?_, ?_⟩
    · refine List.Nodup.append w.gnd (List.Nodup.sublist (List.take_sublist _ _) w.knd) ?_
      intro x hx1 hx2
      have k := w.kok x (List.mem_of_mem_take hx2)
      rcases (w.gok x hx1).2 with h | h
      · exact k.2.1 h
      · rw [h] at k; exact Ans.noConfusion k.2.2
    · simp only [List.length_append, List.length_take]
      omega
    · intro n hn
      rcases List.mem_append.mp hn with hg | hk
      · exact gmem _ (fun h => by rw [replicate_need]; exact h) n hg
      · have k := w.kok n (List.mem_of_mem_take hk)
        refine ⟨k.1, Or.inr ⟨k.2.1, Or.inr ⟨⟨l'.shortage, K, handleTask e l'.shortage K⟩, ?_, ?_⟩⟩⟩
        · simp [replicate]
        · simp only; rw [hdone]; exact hk
  · have hz : l'.shortage = 0 := by omega
    refine ⟨G, w.gnd, by omega, ?_⟩
    exact gmem _ (finish_need e false c' l')

end NeoFS.Policer
