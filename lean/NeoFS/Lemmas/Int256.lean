import NeoFS.Model.Int256
import Mathlib.Tactic.Ring
import Mathlib.Tactic.Linarith
/-! Helper lemmas for `Props/C05.lean`: big-endian bytes, lexicographic order. -/
namespace NeoFS.Int256

theorem pow256_pos (k : Nat) : 0 < 256 ^ k := Nat.pow_pos (by decide)

theorem beBytes_length (k n : Nat) : (beBytes k n).length = k := by
  induction k generalizing n with
  | zero => rfl
  | succ k ih => simp [beBytes, ih]

theorem beBytes_lt (k n : Nat) : ∀ x ∈ beBytes k n, x < 256 := by
  induction k generalizing n with
  | zero => intro x h; simp [beBytes] at h
  | succ k ih =>
    intro x h
    simp only [beBytes, List.mem_cons] at h
    rcases h with rfl | h
    · exact Nat.mod_lt _ (by decide)
    · exact ih _ x h

theorem div_lt_256 (k n : Nat) (h : n < 256 ^ (k + 1)) : n / 256 ^ k < 256 := by
  rw [Nat.div_lt_iff_lt_mul (pow256_pos k)]
  rw [Nat.pow_succ] at h
  linarith

theorem foldl_beBytes (k n acc : Nat) (h : n < 256 ^ k) :
    (beBytes k n).foldl (fun a b => a * 256 + b) acc = acc * 256 ^ k + n := by
  induction k generalizing n acc with
  | zero => simp [beBytes] at *; omega
  | succ k ih =>
    simp only [beBytes, List.foldl_cons]
    rw [ih _ _ (Nat.mod_lt _ (pow256_pos k))]
    rw [Nat.mod_eq_of_lt (div_lt_256 k n h)]
    have hdm := Nat.div_add_mod n (256 ^ k)
    rw [Nat.pow_succ]
    calc (acc * 256 + n / 256 ^ k) * 256 ^ k + n % 256 ^ k
        = acc * (256 ^ k * 256) + (256 ^ k * (n / 256 ^ k) + n % 256 ^ k) := by ring
      _ = acc * (256 ^ k * 256) + n := by rw [hdm]

theorem fromBE_beBytes (k n : Nat) (h : n < 256 ^ k) : fromBE (beBytes k n) = n := by
  unfold fromBE
  rw [foldl_beBytes k n 0 h]; simp

theorem compl_compl (b : Nat) (h : b < 256) : compl (compl b) = b := by
  unfold compl; omega

theorem map_compl_compl (l : List Nat) (h : ∀ x ∈ l, x < 256) : (l.map compl).map compl = l := by
  induction l with
  | nil => rfl
  | cons x xs ih =>
    simp only [List.map_cons]
    rw [compl_compl x (h x (by simp)), ih (fun y hy => h y (by simp [hy]))]

/-- Splitting a number at a power of the base orders like (quotient, remainder). -/
theorem lt_iff_div_mod (m a b : Nat) (hm : 0 < m) :
    a < b ↔ (a / m < b / m ∨ (a / m = b / m ∧ a % m < b % m)) := by
  have ha := Nat.div_add_mod a m
  have hb := Nat.div_add_mod b m
  have ra := Nat.mod_lt a hm
  have rb := Nat.mod_lt b hm
  constructor
  · intro h
    by_cases hq : a / m < b / m
    · exact Or.inl hq
    · right
      have hge : b / m ≤ a / m := by omega
      have hmul : m * (b / m) ≤ m * (a / m) := Nat.mul_le_mul_left m hge
      by_cases heq : a / m = b / m
      · refine ⟨heq, ?_⟩
        rw [heq] at ha
        omega
      · have hlt : b / m + 1 ≤ a / m := by omega
        have : m * (b / m + 1) ≤ m * (a / m) := Nat.mul_le_mul_left m hlt
        rw [Nat.mul_add, Nat.mul_one] at this
        omega
  · rintro (hq | ⟨heq, hr⟩)
    · have : m * (a / m + 1) ≤ m * (b / m) := Nat.mul_le_mul_left m hq
      rw [Nat.mul_add, Nat.mul_one] at this
      omega
    · rw [heq] at ha
      omega

theorem ordNat_eq_lt {a b : Nat} : ordNat a b = .lt ↔ a < b := by
  unfold ordNat; split <;> [simp_all; (split <;> simp_all)]

theorem lexCmp_beBytes (k a b : Nat) (ha : a < 256 ^ k) (hb : b < 256 ^ k) :
    lexCmp (beBytes k a) (beBytes k b) = ordNat a b := by
  induction k generalizing a b with
  | zero =>
    simp at ha hb; subst ha; subst hb; simp [beBytes, lexCmp, ordNat]
  | succ k ih =>
    simp only [beBytes, lexCmp]
    rw [Nat.mod_eq_of_lt (div_lt_256 k a ha), Nat.mod_eq_of_lt (div_lt_256 k b hb)]
    have hm := pow256_pos k
    have hab := lt_iff_div_mod (256 ^ k) a b hm
    have hba := lt_iff_div_mod (256 ^ k) b a hm
    rw [ih _ _ (Nat.mod_lt _ hm) (Nat.mod_lt _ hm)]
    unfold ordNat
    by_cases h1 : a / 256 ^ k < b / 256 ^ k
    · have : a < b := hab.mpr (Or.inl h1)
      simp [h1, this]
    · by_cases h2 : b / 256 ^ k < a / 256 ^ k
      · have hlt : b < a := hba.mpr (Or.inl h2)
        have : ¬ a < b := by omega
        simp [h1, h2, this, hlt]
      · have heq : a / 256 ^ k = b / 256 ^ k := by omega
        simp only [h1, h2, if_false]
        have e1 : (a < b) ↔ (a % 256 ^ k < b % 256 ^ k) := by
          rw [hab]; simp [heq]
        have e2 : (b < a) ↔ (b % 256 ^ k < a % 256 ^ k) := by
          rw [hba]; simp [heq]
        simp only [e1, e2]

theorem lexCmp_map_compl (l1 l2 : List Nat) (hl : l1.length = l2.length)
    (h1 : ∀ x ∈ l1, x < 256) (h2 : ∀ x ∈ l2, x < 256) :
    lexCmp (l1.map compl) (l2.map compl) = lexCmp l2 l1 := by
  induction l1 generalizing l2 with
  | nil =>
    cases l2 with
    | nil => rfl
    | cons y ys => simp at hl
  | cons x xs ih =>
    cases l2 with
    | nil => simp at hl
    | cons y ys =>
      simp only [List.map_cons, lexCmp]
      have hx := h1 x (by simp)
      have hy := h2 y (by simp)
      have := ih ys (by simpa using hl) (fun z hz => h1 z (by simp [hz])) (fun z hz => h2 z (by simp [hz]))
      rw [this]
      unfold compl
      by_cases c1 : x < y
      · have a1 : ¬ (255 - x < 255 - y) := by omega
        have a2 : 255 - y < 255 - x := by omega
        have a3 : ¬ y < x := by omega
        simp [a1, a2, a3, c1]
      · by_cases c2 : y < x
        · have a1 : 255 - x < 255 - y := by omega
          simp [a1, c2]
        · have a1 : ¬ (255 - x < 255 - y) := by omega
          have a2 : ¬ (255 - y < 255 - x) := by omega
          simp [a1, a2, c1, c2]

theorem ordNat_swap (a b : Nat) : (ordNat a b).swap = ordNat b a := by
  unfold ordNat
  by_cases h1 : a < b
  · have : ¬ b < a := by omega
    simp [h1, this]
  · by_cases h2 : b < a
    · simp [h1, h2]
    · simp [h1, h2]

end NeoFS.Int256
