import NeoFS.Model.WCSched
/-! Lemmas about the flush scheduler's batch cutting (`Model/WCSched.lean`). -/
namespace NeoFS.WCSched

theorem takes_all {o : List Bool} (h : o.all id = true) : (takes o).1 = true ∧ (takes o).2.all id = true := by
  cases o with
  | nil => simp [takes]
  | cons x xs => simp [takes] at h ⊢; exact h

/-- accounted: every marker of the (partial) result is owned by a sent batch, was removed, or is in the open batch -/
def Owned (r : Res) (b : List Addr) : Prop := ∀ a ∈ r.marked, a ∈ r.sent.flatten ∨ a ∈ r.unmarked ∨ a ∈ b

theorem cut_owned (cfg : Cfg) : ∀ (l : List (Addr × Nat)) (b : List Addr) (bs : Nat) (o : List Bool) (r : Res),
    Owned r b → (l = [] → b = []) → Owned (cut cfg true l b bs o r) [] := by
  intro l
  induction l with
  | nil =>
    intro b bs o r h hb
    simp only [cut]
    rw [hb rfl] at h
    exact h
  | cons x rest ih =>
    intro b bs o r h _
    obtain ⟨a, sz⟩ := x
    simp only [cut]
    -- the marker of `a` is added
    have h1 : Owned { r with marked := r.marked ++ [a] } (b ++ [a]) := by
      intro y hy
      simp only [List.mem_append, List.mem_singleton] at hy
      rcases hy with hy | hy
      · rcases h y hy with h' | h' | h'
        · exact Or.inl h'
        · exact Or.inr (Or.inl h')
        · exact Or.inr (Or.inr (List.mem_append_left _ h'))
      · exact Or.inr (Or.inr (by simp [hy]))
    split
    · -- the pre-flush select was answered by an error signal
      rename_i hpre
      split at hpre
      · split at hpre
        · simp at hpre
        · intro y hy
          simp only [List.mem_append, List.mem_singleton] at hy
          have := h1 y (by simpa using hy)
          rcases this with h' | h' | h'
          · exact Or.inl h'
          · refine Or.inr (Or.inl ?_)
            simp only [if_true, List.append_assoc, List.mem_append]
            exact Or.inl h'
          · refine Or.inr (Or.inl ?_)
            simp only [if_true, List.append_assoc, List.mem_append, List.mem_singleton]
            simp only [List.mem_append, List.mem_singleton] at h'
            rcases h' with h' | h'
            · exact Or.inr (Or.inl h')
            · exact Or.inr (Or.inr h')
      · simp at hpre
    · rename_i b' bs' o' r' hpre
      -- after the optional pre-flush: the open batch is `b'`, everything marked is owned by r' or b' ++ [a]
      have h2 : Owned r' (b' ++ [a]) := by
        split at hpre
        · split at hpre
          · simp only [Option.some.injEq, Prod.mk.injEq] at hpre
            obtain ⟨rfl, _, _, rfl⟩ := hpre
            intro y hy
            rcases h1 y hy with h' | h' | h'
            · exact Or.inl (by simp only [List.flatten_append, List.mem_append]; exact Or.inl h')
            · exact Or.inr (Or.inl h')
            · simp only [List.mem_append, List.mem_singleton] at h'
              rcases h' with h' | h'
              · exact Or.inl (by simp [h'])
              · exact Or.inr (Or.inr (by simp [h']))
          · simp at hpre
        · simp only [Option.some.injEq, Prod.mk.injEq] at hpre
          obtain ⟨rfl, _, _, rfl⟩ := hpre
          exact h1
      split
      · split
        · -- a worker takes the batch
          apply ih
          · intro y hy
            rcases h2 y hy with h' | h' | h'
            · exact Or.inl (by simp only [List.flatten_append, List.mem_append]; exact Or.inl h')
            · exact Or.inr (Or.inl h')
            · exact Or.inl (by simp [h'])
          · intro _; rfl
        · -- error signal: the open batch (which contains `a`) is unmarked
          intro y hy
          rcases h2 y hy with h' | h' | h'
          · exact Or.inl h'
          · exact Or.inr (Or.inl (by simp only [List.mem_append]; exact Or.inl h'))
          · exact Or.inr (Or.inl (List.mem_append_right _ h'))
      · rename_i hcond
        apply ih
        · exact h2
        · intro hrest
          simp [hrest] at hcond

/-- with every hand-over taken by a worker nothing is aborted or unmarked and every candidate is sent, in order -/
theorem cut_all_taken (cfg : Cfg) (fixed : Bool) : ∀ (l : List (Addr × Nat)) (b : List Addr) (bs : Nat) (o : List Bool) (r : Res),
    o.all id = true → (l = [] → b = []) →
    (cut cfg fixed l b bs o r).sent.flatten = r.sent.flatten ++ b ++ l.map (·.1) ∧
    (cut cfg fixed l b bs o r).marked = r.marked ++ l.map (·.1) ∧
    (cut cfg fixed l b bs o r).unmarked = r.unmarked ∧ (cut cfg fixed l b bs o r).aborted = r.aborted := by
  intro l
  induction l with
  | nil => intro b bs o r _ hb; simp [cut, hb rfl]
  | cons x rest ih =>
    intro b bs o r ho _
    obtain ⟨a, sz⟩ := x
    have ht := takes_all ho
    simp only [cut]
    split
    · rename_i hpre
      split at hpre
      · rw [ht.1] at hpre; simp at hpre
      · simp at hpre
    · rename_i b' bs' o' r' hpre
      have h2 : r'.sent.flatten ++ b' = r.sent.flatten ++ b ∧ r'.marked = r.marked ++ [a] ∧ r'.unmarked = r.unmarked ∧
          r'.aborted = r.aborted ∧ o'.all id = true := by
        split at hpre
        · rw [ht.1] at hpre
          simp only [if_true, Option.some.injEq, Prod.mk.injEq] at hpre
          obtain ⟨rfl, _, rfl, rfl⟩ := hpre
          simp [ht.2]
        · simp only [Option.some.injEq, Prod.mk.injEq] at hpre
          obtain ⟨rfl, _, rfl, rfl⟩ := hpre
          simp [ho]
      obtain ⟨e1, e2, e3, e4, ho'⟩ := h2
      have ht' := takes_all ho'
      split
      · rw [ht'.1]
        simp only [if_true]
        have := ih [] 0 (takes o').2 { r' with sent := r'.sent ++ [b' ++ [a]] } ht'.2 (fun _ => rfl)
        obtain ⟨g1, g2, g3, g4⟩ := this
        refine ⟨?_, ?_, ?_, ?_⟩
        · rw [g1]; simp only [List.flatten_append, List.flatten_cons, List.flatten_nil, List.append_nil, List.map_cons]
          rw [← List.append_assoc, e1]; simp
        · rw [g2]; simp [e2]
        · rw [g3]; exact e3
        · rw [g4]; exact e4
      · rename_i hcond
        have := ih (b' ++ [a]) (bs' + sz) o' r' ho' (fun hrest => by simp [hrest] at hcond)
        obtain ⟨g1, g2, g3, g4⟩ := this
        refine ⟨?_, ?_, ?_, ?_⟩
        · rw [g1, ← List.append_assoc, e1]; simp
        · rw [g2]; simp [e2]
        · rw [g3]; exact e3
        · rw [g4]; exact e4

theorem mem_insertBySize (x y : Addr × Nat) (l : List (Addr × Nat)) : y ∈ insertBySize x l ↔ y = x ∨ y ∈ l := by
  induction l with
  | nil => simp [insertBySize]
  | cons z zs ih =>
    simp only [insertBySize]
    split
    · simp
    · simp only [List.mem_cons, ih]
      constructor
      · rintro (h | h | h)
        · exact Or.inr (Or.inl h)
        · exact Or.inl h
        · exact Or.inr (Or.inr h)
      · rintro (h | h | h)
        · exact Or.inr (Or.inl h)
        · exact Or.inl h
        · exact Or.inr (Or.inr h)

theorem mem_sortBySize (y : Addr × Nat) (l : List (Addr × Nat)) : y ∈ sortBySize l ↔ y ∈ l := by
  induction l with
  | nil => simp [sortBySize]
  | cons z zs ih =>
    have : sortBySize (z :: zs) = insertBySize z (sortBySize zs) := rfl
    rw [this, mem_insertBySize, ih]; simp

/-- every marker has a running job that will clear it -/
def NoLeak (s : Sys) : Prop := ∀ a ∈ s.inflight, ∃ j ∈ s.jobs, a ∈ j

theorem mem_removeAll {l xs : List Addr} {a : Addr} : a ∈ removeAll l xs ↔ a ∈ l ∧ a ∉ xs := by
  simp [removeAll]

theorem noLeak_step (cfg : Cfg) (s : Sys) (op : Op) (h : NoLeak s) : NoLeak (stepSys cfg true s op) := by
  cases op with
  | put a sz => simp only [stepSys]; split <;> exact h
  | pass oracle =>
    simp only [stepSys]
    intro a ha
    rw [mem_removeAll, List.mem_append] at ha
    obtain ⟨ha, hnu⟩ := ha
    rcases ha with ha | ha
    · obtain ⟨j, hj, haj⟩ := h a ha
      exact ⟨j, List.mem_append_left _ hj, haj⟩
    · have := cut_owned cfg (candidates s) [] 0 oracle {} (by intro y hy; simp at hy) (fun _ => rfl) a ha
      rcases this with h' | h' | h'
      · obtain ⟨j, hj, haj⟩ := List.mem_flatten.mp h'
        exact ⟨j, List.mem_append_right _ hj, haj⟩
      · exact absurd h' hnu
      · simp at h'
  | finish i ok =>
    simp only [stepSys]
    split
    · exact h
    · rename_i j hj
      intro a ha
      rw [mem_removeAll] at ha
      obtain ⟨j', hj', haj'⟩ := h a ha.1
      refine ⟨j', ?_, haj'⟩
      -- j' is another job than the finished one, so it is still running
      have hne : j' ≠ j := fun e => ha.2 (e ▸ haj')
      obtain ⟨k, hk, hkj⟩ := List.getElem_of_mem hj'
      have hik : k ≠ i := by
        intro e; subst e
        rw [List.getElem?_eq_getElem hk] at hj
        exact hne (hkj ▸ (Option.some.inj hj))
      rw [List.mem_eraseIdx_iff_getElem]
      exact ⟨k, hk, hik, hkj⟩

theorem noLeak_run (cfg : Cfg) (ops : List Op) : ∀ s, NoLeak s → NoLeak (runSys cfg true s ops) := by
  induction ops with
  | nil => intro s h; exact h
  | cons op ops ih => intro s h; exact ih _ (noLeak_step cfg s op h)

/-- all running jobs end with an accepting main storage -/
def drain (s : Sys) : List Op := List.replicate s.jobs.length (.finish 0 true)

theorem drain_spec (cfg : Cfg) (fixed : Bool) : ∀ (n : Nat) (s : Sys), s.jobs.length = n →
    (runSys cfg fixed s (List.replicate n (.finish 0 true))).jobs = [] ∧
    (runSys cfg fixed s (List.replicate n (.finish 0 true))).cache = s.cache.filter (fun p => !s.jobs.flatten.contains p.1) ∧
    (runSys cfg fixed s (List.replicate n (.finish 0 true))).inflight = removeAll s.inflight s.jobs.flatten := by
  intro n
  induction n with
  | zero =>
    intro s hs
    have : s.jobs = [] := List.eq_nil_of_length_eq_zero hs
    have ft : ∀ {α : Type} (l : List α), l.filter (fun _ => true) = l := by
      intro α l; induction l with
      | nil => rfl
      | cons x xs ih => simp [List.filter, ih]
    simp [runSys, this, removeAll, ft]
  | succ n ih =>
    intro s hs
    match hj : s.jobs with
    | [] => simp [hj] at hs
    | j :: js =>
      have hstep : stepSys cfg fixed s (.finish 0 true) =
          { cache := s.cache.filter (fun p => !j.contains p.1), inflight := removeAll s.inflight j, jobs := js } := by
        simp [stepSys, hj]
      simp only [List.replicate_succ, runSys, List.foldl_cons]
      rw [hstep]
      have := ih { cache := s.cache.filter (fun p => !j.contains p.1), inflight := removeAll s.inflight j, jobs := js }
        (by simp [hj] at hs; simpa using hs)
      simp only [runSys] at this
      refine ⟨this.1, ?_, ?_⟩
      · rw [this.2.1]
        simp only [List.filter_filter, List.flatten_cons]
        congr 1; funext p
        simp only [List.contains_eq_mem, List.mem_append, Bool.decide_or, Bool.not_or]
        exact Bool.and_comm _ _
      · rw [this.2.2]
        simp only [removeAll, List.filter_filter, List.flatten_cons]
        congr 1; funext a
        simp only [List.contains_eq_mem, List.mem_append, Bool.decide_or, Bool.not_or]
        exact Bool.and_comm _ _

/-! ### the address arrays behind the batches (`BSys`) -/

/-- the batches a pass hands over are consecutive pieces of a prefix of its sorted-address array -/
theorem cut_sent_prefix (cfg : Cfg) (fixed : Bool) : ∀ (l : List (Addr × Nat)) (b : List Addr) (bs : Nat) (o : List Bool) (r : Res),
    ∃ rest, (cut cfg fixed l b bs o r).sent.flatten ++ rest = r.sent.flatten ++ b ++ l.map (·.1) := by
  intro l
  induction l with
  | nil => intro b bs o r; exact ⟨b, by simp [cut]⟩
  | cons x rest ih =>
    intro b bs o r
    obtain ⟨a, sz⟩ := x
    simp only [cut]
    split
    · exact ⟨b ++ a :: rest.map (·.1), by simp⟩
    · rename_i b' bs' o' r' hpre
      have h2 : r'.sent.flatten ++ b' = r.sent.flatten ++ b := by
        split at hpre
        · split at hpre
          · simp only [Option.some.injEq, Prod.mk.injEq] at hpre
            obtain ⟨rfl, _, _, rfl⟩ := hpre
            simp
          · simp at hpre
        · simp only [Option.some.injEq, Prod.mk.injEq] at hpre
          obtain ⟨rfl, _, _, rfl⟩ := hpre
          rfl
      split
      · split
        · obtain ⟨rest2, h⟩ := ih [] 0 (takes o').2 { r' with sent := r'.sent ++ [b' ++ [a]] }
          refine ⟨rest2, ?_⟩
          rw [h]
          simp only [List.flatten_append, List.flatten_cons, List.flatten_nil, List.append_nil, List.map_cons]
          rw [← List.append_assoc r'.sent.flatten, h2]; simp
        · exact ⟨b' ++ a :: rest.map (·.1), by rw [← List.append_assoc, h2]; simp⟩
      · obtain ⟨rest2, h⟩ := ih (b' ++ [a]) (bs' + sz) o' r'
        refine ⟨rest2, ?_⟩
        rw [h, ← List.append_assoc r'.sent.flatten, h2]; simp

theorem pass_sent_prefix (cfg : Cfg) (fixed : Bool) (cands : List (Addr × Nat)) (o : List Bool) :
    ∃ rest, (pass cfg fixed cands o).sent.flatten ++ rest = cands.map (·.1) := by
  obtain ⟨rest, h⟩ := cut_sent_prefix cfg fixed cands [] 0 o {}
  exact ⟨rest, by simpa [pass] using h⟩

theorem windows_given (id : Nat) : ∀ (bs : List (List Addr)) (lo : Nat), (windows id lo bs).map (·.given) = bs := by
  intro bs
  induction bs with
  | nil => intro lo; rfl
  | cons b bs ih => intro lo; simp [windows, ih]

/-- each window of the array it was cut from holds exactly its batch -/
theorem windows_spec (id : Nat) (arr : List Addr) : ∀ (bs : List (List Addr)) (lo : Nat) (rest : List Addr),
    arr.drop lo = bs.flatten ++ rest →
    ∀ j ∈ windows id lo bs, j.buf = id ∧ (arr.drop j.lo).take j.given.length = j.given := by
  intro bs
  induction bs with
  | nil => intro lo rest _ j hj; simp [windows] at hj
  | cons b bs ih =>
    intro lo rest h j hj
    simp only [windows, List.mem_cons] at hj
    rcases hj with rfl | hj
    · refine ⟨rfl, ?_⟩
      simp only []
      rw [h]
      simp [List.flatten_cons, List.append_assoc]
    · apply ih (lo + b.length) rest ?_ j hj
      rw [← List.drop_drop, h]
      simp [List.flatten_cons, List.append_assoc]

/-- every running job's window still holds what the job was given (and its array exists) -/
def Views (s : BSys) : Prop := ∀ j ∈ s.jobs, j.buf < s.bufs.length ∧ window s.bufs j = j.given

theorem views_init : Views {} := by intro j hj; simp at hj

theorem map_eraseIdx_given : ∀ (l : List Job) (i : Nat), (l.eraseIdx i).map (·.given) = (l.map (·.given)).eraseIdx i := by
  intro l
  induction l with
  | nil => intro i; rfl
  | cons x xs ih => intro i; cases i with
    | zero => rfl
    | succ n => simp [List.eraseIdx, ih]

theorem getElem?_map_given (jobs : List Job) (i : Nat) : (jobs.map (·.given))[i]? = (jobs[i]?).map (·.given) := by
  simp

/-- with a fresh array per pass (the code) a step keeps every window intact, and forgetting the arrays gives exactly
the step of `Sys` -/
theorem stepB_fresh (cfg : Cfg) (s : BSys) (op : Op) (h : Views s) :
    Views (stepB cfg false s op) ∧ toSys (stepB cfg false s op) = stepSys cfg true (toSys s) op := by
  cases op with
  | put a sz =>
    by_cases hc : (s.cache.any fun p => p.1 == a) = true
    · simp only [stepB, stepSys, toSys, hc, if_true]; first | exact ⟨h, rfl⟩ | exact ⟨h, trivial⟩
    · simp only [stepB, stepSys, toSys, hc, if_false]; first | exact ⟨h, rfl⟩ | exact ⟨h, trivial⟩
  | pass oracle =>
    constructor
    · intro j hj
      simp only [stepB, Bool.false_eq_true, if_false, List.mem_append] at hj
      simp only [stepB, Bool.false_eq_true, if_false, List.length_append, List.length_singleton]
      rcases hj with hj | hj
      · obtain ⟨h1, h2⟩ := h j hj
        refine ⟨by omega, ?_⟩
        rw [← h2]
        simp only [window, List.getD_eq_getElem?_getD]
        rw [List.getElem?_append_left h1]
      · obtain ⟨rest, hp⟩ := pass_sent_prefix cfg true (candidates (toSys s)) oracle
        have := windows_spec s.bufs.length ((candidates (toSys s)).map (·.1)) _ 0 rest (by simpa using hp.symm) j hj
        refine ⟨by omega, ?_⟩
        simp only [window, List.getD_eq_getElem?_getD, this.1]
        rw [List.getElem?_append_right (Nat.le_refl _)]
        simpa using this.2
    · simp only [stepB, stepSys, toSys, Bool.false_eq_true, if_false, List.map_append, windows_given]
  | finish i ok =>
    simp only [stepB, stepSys]
    have hm : (toSys s).jobs[i]? = (s.jobs[i]?).map (·.given) := by simp [toSys]
    cases hj : s.jobs[i]? with
    | none =>
      rw [hm, hj]
      exact ⟨h, rfl⟩
    | some j =>
      rw [hm, hj]
      simp only [Option.map_some]
      have hjm : j ∈ s.jobs := List.mem_of_getElem? hj
      refine ⟨?_, ?_⟩
      · intro j' hj'
        exact h j' (List.mem_of_mem_eraseIdx hj')
      · simp only [toSys, (h j hjm).2, map_eraseIdx_given]

theorem runB_fresh (cfg : Cfg) (ops : List Op) : ∀ (s : BSys), Views s →
    Views (runB cfg false s ops) ∧ toSys (runB cfg false s ops) = runSys cfg true (toSys s) ops := by
  induction ops with
  | nil => intro s h; exact ⟨h, rfl⟩
  | cons op ops ih =>
    intro s h
    have hs := stepB_fresh cfg s op h
    have := ih _ hs.1
    simp only [runB, runSys, List.foldl_cons] at this ⊢
    rw [hs.2] at this
    exact this

end NeoFS.WCSched
