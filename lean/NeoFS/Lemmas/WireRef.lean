import NeoFS.Lemmas.Wire
/-!
C41: the fast scan over bytes equals an abstract scan over the full decoder's field list.
-/
namespace NeoFS.Wire

theorem numOK_eq : numOKParse = numOKFull := rfl

def fbOf (f : Field) : FB := ⟨f.from_, f.vfrom, f.to_⟩

def unopt (r : Option FB × Option FB × Option FB) : FB × FB × FB := (r.1.getD {}, r.2.1.getD {}, r.2.2.getD {})

/-- `boundsLoop` as a function of the reference decoder's field list: strictly ascending LEN fields up to
`last`; the scan ends at `last`, at a greater number or with the list -/
def scanSpec (last : Nat) (slot : Nat → Nat) :
    List Field → Nat → Option FB → Option FB → Except Err (Option FB × Option FB × Option FB)
  | [], _, idf, sigf => .ok (idf, sigf, none)
  | f :: fs, prev, idf, sigf =>
    if f.num > last then .ok (idf, sigf, none)
    else if f.num < prev then .error .unordered
    else if f.num = prev then .error .repeated
    else if f.wt ≠ 2 then .error .wtype
    else if f.num = last then .ok (idf, sigf, some (fbOf f))
    else scanSpec last slot fs f.num (if slot f.num = 0 then some (fbOf f) else idf)
      (if slot f.num = 1 then some (fbOf f) else sigf)

theorem refLoop_nil_inv {fuel off : Nat} {rest : Bytes} (h : refLoop fuel off rest = some []) : rest = [] := by
  cases fuel with
  | zero => simp [refLoop] at h
  | succ fuel =>
    unfold refLoop at h
    split at h
    · assumption
    · split at h
      · simp at h
      · split at h
        · simp at h
        · split at h <;> simp at h

theorem refLoop_cons_inv {fuel off : Nat} {rest : Bytes} {f : Field} {fs : List Field}
    (h : refLoop fuel off rest = some (f :: fs)) :
    ∃ fuel' num wt n m, fuel = fuel' + 1 ∧ decodeTag numOKFull rest = some (num, wt, n) ∧
      skipValue num wt (rest.drop n) = some m ∧ refLoop fuel' (off + n + m) (rest.drop (n + m)) = some fs ∧
      f = ⟨num, wt, off, off + n + lenPrefix wt (rest.drop n), off + n + m⟩ := by
  cases fuel with
  | zero => simp [refLoop] at h
  | succ fuel =>
    unfold refLoop at h
    split at h
    · simp at h
    · split at h
      · simp at h
      · rename_i num wt n ht
        split at h
        · simp at h
        · rename_i m hm
          split at h
          · simp at h
          · rename_i fs' hfs
            simp only [Option.some.injEq, List.cons.injEq] at h
            obtain ⟨rfl, rfl⟩ := h
            exact ⟨fuel, num, wt, n, m, rfl, ht, hm, hfs, rfl⟩

theorem skipValue_len {num : Nat} {b : Bytes} {m : Nat} (h : skipValue num 2 b = some m) (hb : b.length < 2 ^ 63) :
    ∃ u n2, parseLEN b = some (u, n2) ∧ m = n2 + u ∧ lenPrefix 2 b = n2 := by
  unfold skipValue at h
  simp only [show (2 : Nat) ≠ 3 by decide, if_false] at h
  unfold skipScalar at h
  simp only at h
  split at h
  · rename_i u n2 hv
    split at h
    · rename_i hle
      simp only [Option.some.injEq] at h
      refine ⟨u, n2, ?_, h.symm, ?_⟩
      · unfold parseLEN
        rw [hv]
        have : ¬ u > maxInt := by unfold maxInt; omega
        have h2 : ¬ u > b.length - n2 := by omega
        simp [this, h2]
      · unfold lenPrefix; simp [hv]
    · simp at h
  · simp at h

/-- the refinement: whenever the full decoder's wire stage accepts the bytes from `off` on, the fast scan
returns exactly what the abstract scan over the decoded field list returns -/
theorem boundsLoop_refines (buf : Bytes) (last : Nat) (slot : Nat → Nat) (hlen : buf.length < 2 ^ 63) :
    ∀ (fuel' fuel off prev : Nat) (idf sigf : Option FB) (fs : List Field),
      refLoop fuel off (buf.drop off) = some fs → off < buf.length → prev < last → last + 1 ≤ fuel' + prev →
      boundsLoop buf last slot fuel' off prev (idf.getD {}) (sigf.getD {}) =
        (scanSpec last slot fs prev idf sigf).map unopt := by
  intro fuel'
  induction fuel' with
  | zero => intro fuel off prev idf sigf fs _ _ h1 h2; omega
  | succ fuel' ih =>
    intro fuel off prev idf sigf fs href hoff hprev hfuel
    have hne : buf.drop off ≠ [] := by
      intro h
      have := congrArg List.length h
      simp only [List.length_drop, List.length_nil] at this
      omega
    cases fs with
    | nil => exact absurd (refLoop_nil_inv href) hne
    | cons f fs =>
      obtain ⟨fuel0, num, wt, n, m, rfl, ht, hm, hfs, rfl⟩ := refLoop_cons_inv href
      have hts := decodeTag_spec ht
      simp only [List.length_drop] at hts
      have hpt : parseTag (buf.drop off) = .ok (num, wt, n) := by
        unfold parseTag; rw [numOK_eq, ht]
      unfold boundsLoop
      rw [hpt]
      simp only [scanSpec]
      by_cases c1 : num > last
      · simp [c1, Except.map, unopt]
      simp only [c1, if_false]
      by_cases c2 : num < prev
      · simp [c2, Except.map]
      simp only [c2, if_false]
      by_cases c3 : num = prev
      · simp [c3, Except.map]
      simp only [c3, if_false]
      by_cases c4 : wt = 2
      · subst c4
        rw [List.drop_drop] at hm
        obtain ⟨u, n2, hp, rfl, hlp⟩ := skipValue_len hm (by simp only [List.length_drop]; omega)
        have hps := parseLEN_spec hp
        simp only [List.length_drop] at hps
        have hplfb : parseLENFieldBounds buf off n 2 = .ok ⟨off, off + n + n2, off + n + n2 + u⟩ := by
          unfold parseLENFieldBounds
          simp [hp]
        rw [hplfb]
        simp only [List.drop_drop, hlp, ne_eq, not_true_eq_false, if_false]
        by_cases c5 : num = last
        · simp [c5, Except.map, unopt, fbOf]; omega
        simp only [c5, if_false]
        by_cases c6 : off + n + n2 + u = buf.length
        · -- the buffer ends here: the remaining list is empty
          have hrest : (buf.drop off).drop (n + (n2 + u)) = [] := by
            rw [List.drop_drop]
            apply List.drop_eq_nil_of_le; omega
          rw [hrest] at hfs
          have : fs = [] := by
            cases fuel0 with
            | zero => simp [refLoop] at hfs
            | succ k => simp [refLoop] at hfs; exact hfs
          subst this
          simp only [c6, if_true, scanSpec, Except.map, unopt]
          congr 1
          refine Prod.ext ?_ (Prod.ext ?_ rfl)
          · simp only; split <;> simp [fbOf, Nat.add_assoc] <;> omega
          · simp only; split <;> simp [fbOf, Nat.add_assoc] <;> omega
        · simp only [c6, if_false]
          rw [List.drop_drop] at hfs
          have key := ih fuel0 (off + n + n2 + u) num
            (if slot num = 0 then some (fbOf ⟨num, 2, off, off + n + n2, off + n + (n2 + u)⟩) else idf)
            (if slot num = 1 then some (fbOf ⟨num, 2, off, off + n + n2, off + n + (n2 + u)⟩) else sigf) fs
            (by rw [show off + n + n2 + u = off + (n + (n2 + u)) by omega]; rw [show off + n + (n2 + u) = off + (n + (n2 + u)) by omega] at hfs; exact hfs)
            (by omega) (by omega) (by omega)
          rw [← key]
          congr 1
          · split <;> simp [fbOf, Nat.add_assoc]
          · split <;> simp [fbOf, Nat.add_assoc]
      · have : parseLENFieldBounds buf off n wt = .error .wtype := by
          unfold parseLENFieldBounds; simp [c4]
        rw [this]
        simp [c4, Except.map]

end NeoFS.Wire
