import NeoFS.Model.SearchMerge
import NeoFS.Lemmas.Int256
/-!
Order facts used by C04: `lexCmp` (bytes.Compare) is a total preorder comparator, the strict order `ltI` the merge
selects by (first attribute by a lawful comparator, then id, equal ids = same item), and the characterisation of
"the first `n` elements of a strictly sorted list".
-/
namespace NeoFS.SearchMerge
open NeoFS.Int256

/-! ### lawful comparators -/

/-- a comparator that is a total preorder: reflexive, antisymmetric up to `swap`, `≤`-transitive -/
structure OrdLaws {α : Type} (ord : α → α → Ordering) : Prop where
  refl : ∀ a, ord a a = .eq
  swap : ∀ a b, ord b a = (ord a b).swap
  le_trans : ∀ a b c, ord a b ≠ .gt → ord b c ≠ .gt → ord a c ≠ .gt

theorem OrdLaws.lt_of_lt_of_le {α : Type} {ord : α → α → Ordering} (h : OrdLaws ord) {a b c : α}
    (h1 : ord a b = .lt) (h2 : ord b c ≠ .gt) : ord a c = .lt := by
  have hac : ord a c ≠ .gt := h.le_trans a b c (by rw [h1]; decide) h2
  cases hc : ord a c with
  | lt => rfl
  | gt => exact absurd hc hac
  | eq =>
    -- c ≤ a and b ≤ c give b ≤ a, contradicting a < b
    have hca : ord c a ≠ .gt := by rw [h.swap a c, hc]; decide
    have hba : ord b a ≠ .gt := h.le_trans b c a h2 hca
    rw [h.swap a b, h1] at hba
    exact absurd rfl hba

theorem OrdLaws.lt_of_le_of_lt {α : Type} {ord : α → α → Ordering} (h : OrdLaws ord) {a b c : α}
    (h1 : ord a b ≠ .gt) (h2 : ord b c = .lt) : ord a c = .lt := by
  have hac : ord a c ≠ .gt := h.le_trans a b c h1 (by rw [h2]; decide)
  cases hc : ord a c with
  | lt => rfl
  | gt => exact absurd hc hac
  | eq =>
    have hca : ord c a ≠ .gt := by rw [h.swap a c, hc]; decide
    have hcb : ord c b ≠ .gt := h.le_trans c a b hca h1
    rw [h.swap b c, h2] at hcb
    exact absurd rfl hcb

theorem OrdLaws.eq_trans {α : Type} {ord : α → α → Ordering} (h : OrdLaws ord) {a b c : α}
    (h1 : ord a b = .eq) (h2 : ord b c = .eq) : ord a c = .eq := by
  have hac : ord a c ≠ .gt := h.le_trans a b c (by rw [h1]; decide) (by rw [h2]; decide)
  have hba : ord b a = .eq := by rw [h.swap a b, h1]; rfl
  have hcb : ord c b = .eq := by rw [h.swap b c, h2]; rfl
  have hca : ord c a ≠ .gt := h.le_trans c b a (by rw [hcb]; decide) (by rw [hba]; decide)
  cases hc : ord a c with
  | eq => rfl
  | gt => exact absurd hc hac
  | lt => rw [h.swap a c, hc] at hca; exact absurd rfl hca

theorem lexCmp_refl (a : List Nat) : lexCmp a a = .eq := by
  induction a with
  | nil => rfl
  | cons x xs ih => simp [lexCmp, ih]

theorem lexCmp_swap (a b : List Nat) : lexCmp b a = (lexCmp a b).swap := by
  induction a generalizing b with
  | nil => cases b <;> rfl
  | cons x xs ih =>
    cases b with
    | nil => rfl
    | cons y ys =>
      simp only [lexCmp]
      by_cases h1 : x < y
      · have : ¬ y < x := by omega
        simp [h1, this]
      · by_cases h2 : y < x
        · simp [h1, h2]
        · simp [h1, h2, ih ys]

theorem lexCmp_le_trans (a b c : List Nat) (h1 : lexCmp a b ≠ .gt) (h2 : lexCmp b c ≠ .gt) : lexCmp a c ≠ .gt := by
  induction a generalizing b c with
  | nil => cases c <;> simp [lexCmp]
  | cons x xs ih =>
    cases b with
    | nil => simp [lexCmp] at h1
    | cons y ys =>
      cases c with
      | nil => simp [lexCmp] at h2
      | cons z zs =>
        simp only [lexCmp] at h1 h2 ⊢
        by_cases hxy : x < y
        · by_cases hyz : y < z
          · have : x < z := by omega
            simp [this]
          · by_cases hzy : z < y
            · simp [hyz, hzy] at h2
            · have : x < z := by omega
              simp [this]
        · by_cases hyx : y < x
          · simp [hxy, hyx] at h1
          · have hxy' : x = y := by omega
            subst hxy'
            simp only [hxy, if_false] at h1
            by_cases hyz : x < z
            · simp [hyz]
            · by_cases hzy : z < x
              · simp [hyz, hzy] at h2
              · simp only [hyz, hzy, if_false] at h2 ⊢
                exact ih ys zs h1 h2

theorem lexCmp_laws : OrdLaws lexCmp := ⟨lexCmp_refl, lexCmp_swap, lexCmp_le_trans⟩

theorem lexCmp_eq_iff (a b : List Nat) : lexCmp a b = .eq ↔ a = b := by
  induction a generalizing b with
  | nil => cases b <;> simp [lexCmp]
  | cons x xs ih =>
    cases b with
    | nil => simp [lexCmp]
    | cons y ys =>
      simp only [lexCmp]
      by_cases h1 : x < y
      · simp [h1]; omega
      · by_cases h2 : y < x
        · simp [h1, h2]; omega
        · have : x = y := by omega
          subst this
          simp [ih ys]

theorem ordInt_laws : OrdLaws ordInt := by
  refine ⟨?_, ?_, ?_⟩
  · intro a; simp [ordInt]
  · intro a b
    unfold ordInt
    by_cases h1 : a < b
    · have : ¬ b < a := by omega
      simp [h1, this]
    · by_cases h2 : b < a
      · simp [h1, h2]
      · simp [h1, h2]
  · intro a b c h1 h2
    unfold ordInt at *
    by_cases hab : a < b
    · by_cases hbc : b < c
      · have : a < c := by omega
        simp [this]
      · by_cases hcb : c < b
        · simp [hbc, hcb] at h2
        · have : a < c := by omega
          simp [this]
    · by_cases hba : b < a
      · simp [hab, hba] at h1
      · by_cases hbc : b < c
        · have : a < c := by omega
          simp [this]
        · by_cases hcb : c < b
          · simp [hbc, hcb] at h2
          · have h3 : ¬ a < c := by omega
            have h4 : ¬ c < a := by omega
            simp [h3, h4]

/-- a comparator pulled back along a function keeps the laws -/
theorem OrdLaws.comap {α β : Type} {ord : β → β → Ordering} (h : OrdLaws ord) (f : α → β) :
    OrdLaws (fun a b => ord (f a) (f b)) :=
  ⟨fun a => h.refl _, fun a b => h.swap _ _, fun a b c => h.le_trans _ _ _⟩

/-! ### the merge's strict order on items -/

/-- `x` goes before `m`: different ids and (smaller first attribute, or equal ones and the smaller id) -/
def ltI (ord : Item → Item → Ordering) (x m : Item) : Bool :=
  x.id != m.id && (ord x m == .lt || (ord x m == .eq && decide (x.id < m.id)))

theorem ltI_irrefl (ord : Item → Item → Ordering) (a : Item) : ltI ord a a = false := by simp [ltI]

theorem ltI_ne {ord : Item → Item → Ordering} {a b : Item} (h : ltI ord a b = true) : a ≠ b := by
  intro e; subst e; rw [ltI_irrefl] at h; exact Bool.false_ne_true h

theorem ltI_id_ne {ord : Item → Item → Ordering} {a b : Item} (h : ltI ord a b = true) : a.id ≠ b.id := by
  unfold ltI at h
  simp only [Bool.and_eq_true, bne_iff_ne, ne_eq] at h
  exact h.1

theorem ltI_asymm {ord : Item → Item → Ordering} (hl : OrdLaws ord) {a b : Item} (h : ltI ord a b = true) :
    ltI ord b a = false := by
  unfold ltI at *
  simp only [Bool.and_eq_true, bne_iff_ne, ne_eq, Bool.or_eq_true, beq_iff_eq, decide_eq_true_eq] at h
  obtain ⟨_, h | ⟨h1, h2⟩⟩ := h
  · rw [hl.swap a b, h]; simp
  · rw [hl.swap a b, h1]
    have : ¬ b.id < a.id := by omega
    simp [this]

theorem ltI_total {ord : Item → Item → Ordering} (hl : OrdLaws ord) {a b : Item} (h : ltI ord a b = false)
    (hne : a.id ≠ b.id) : ltI ord b a = true := by
  unfold ltI at *
  have hne' : b.id ≠ a.id := fun e => hne e.symm
  simp only [Bool.and_eq_false_iff, bne_eq_false_iff_eq, Bool.or_eq_false_iff, beq_eq_false_iff_ne, ne_eq,
    Bool.and_eq_false_iff, decide_eq_false_iff_not] at h
  rcases h with h | ⟨h1, h2⟩
  · exact absurd h hne
  · simp only [Bool.and_eq_true, bne_iff_ne, ne_eq, hne', not_false_eq_true, true_and, Bool.or_eq_true, beq_iff_eq,
      decide_eq_true_eq]
    rw [hl.swap a b]
    cases hc : ord a b with
    | lt => exact absurd hc h1
    | gt => left; rfl
    | eq =>
      right
      refine ⟨rfl, ?_⟩
      rcases h2 with h2 | h2
      · exact absurd hc h2
      · omega

theorem ltI_trans {ord : Item → Item → Ordering} (hl : OrdLaws ord) {a b c : Item} (h1 : ltI ord a b = true)
    (h2 : ltI ord b c = true) (hne : a.id ≠ c.id) : ltI ord a c = true := by
  unfold ltI at *
  simp only [Bool.and_eq_true, bne_iff_ne, ne_eq, Bool.or_eq_true, beq_iff_eq, decide_eq_true_eq] at h1 h2 ⊢
  refine ⟨hne, ?_⟩
  obtain ⟨_, h1 | ⟨h1, h1'⟩⟩ := h1 <;> obtain ⟨_, h2 | ⟨h2, h2'⟩⟩ := h2
  · left; exact hl.lt_of_lt_of_le h1 (by rw [h2]; decide)
  · left; exact hl.lt_of_lt_of_le h1 (by rw [h2]; decide)
  · left; exact hl.lt_of_le_of_lt (by rw [h1]; decide) h2
  · right; exact ⟨hl.eq_trans h1 h2, by omega⟩

/-- strictly sorted in the merge's order -/
def SortedI (ord : Item → Item → Ordering) (l : List Item) : Prop := l.Pairwise fun a b => ltI ord a b = true

theorem SortedI.nodup {ord : Item → Item → Ordering} {l : List Item} (h : SortedI ord l) : l.Nodup :=
  List.Pairwise.imp (fun hab => ltI_ne hab) h

theorem SortedI.ids_nodup {ord : Item → Item → Ordering} {l : List Item} (h : SortedI ord l) : (l.map (·.id)).Nodup := by
  unfold SortedI at h
  rw [List.nodup_iff_pairwise_ne, List.pairwise_map]
  exact List.Pairwise.imp (fun hab => ltI_id_ne hab) h

theorem SortedI.sublist {ord : Item → Item → Ordering} {l l' : List Item} (h : SortedI ord l) (hs : l'.Sublist l) :
    SortedI ord l' := List.Pairwise.sublist hs h

/-- **"The first `n` elements."**  In a universe where equal ids mean equal items, a strictly sorted list `r` of at
most `n` items drawn from the strictly sorted list `U`, which contains every item of `U` or is full and lies before
it, is `U.take n`. -/
theorem take_of_spec {ord : Item → Item → Ordering} (hl : OrdLaws ord)
    (U : List Item) (hco : ∀ x ∈ U, ∀ y ∈ U, x.id = y.id → x = y) :
    ∀ (r : List Item) (n : Nat), SortedI ord U → SortedI ord r → (∀ x ∈ r, x ∈ U) →
      (∀ x ∈ U, x ∈ r ∨ (r.length = n ∧ ∀ y ∈ r, ltI ord y x = true)) → r.length ≤ n → r = U.take n := by
  induction U with
  | nil =>
    intro r n _ _ hsub _ _
    cases r with
    | nil => simp
    | cons x xs => exact absurd (hsub x (by simp)) (by simp)
  | cons u us ih =>
    intro r n hU hr hsub hcomp hlen
    have hU' := hU
    unfold SortedI at hU'
    rw [List.pairwise_cons] at hU'
    cases n with
    | zero =>
      have : r = [] := List.eq_nil_of_length_eq_zero (by omega)
      simp [this]
    | succ n =>
      -- the minimum of `U` is in `r`
      have hu : u ∈ r := by
        rcases hcomp u (by simp) with h | ⟨h1, h2⟩
        · exact h
        · cases r with
          | nil => simp at h1
          | cons y ys =>
            have hy := h2 y (by simp)
            have hyU := hsub y (by simp)
            rw [List.mem_cons] at hyU
            rcases hyU with rfl | hyU
            · rw [ltI_irrefl] at hy; exact absurd hy Bool.false_ne_true
            · have := ltI_asymm hl (hU'.1 y hyU)
              rw [hy] at this; exact absurd this (by decide)
      -- … and it is the head of `r`
      cases r with
      | nil => simp at hu
      | cons y ys =>
        have hr' := hr
        unfold SortedI at hr'
        rw [List.pairwise_cons] at hr'
        have hyu : y = u := by
          rw [List.mem_cons] at hu
          rcases hu with rfl | hu
          · rfl
          · have h1 := hr'.1 u hu
            have hyU := hsub y (by simp)
            rw [List.mem_cons] at hyU
            rcases hyU with rfl | hyU
            · rfl
            · have := ltI_asymm hl (hU'.1 y hyU)
              rw [h1] at this; exact absurd this (by decide)
        subst hyu
        have hco' : ∀ x ∈ us, ∀ z ∈ us, x.id = z.id → x = z :=
          fun x hx z hz => hco x (List.mem_cons_of_mem _ hx) z (List.mem_cons_of_mem _ hz)
        have : ys = us.take n := by
          refine ih hco' ys n hU'.2 hr'.2 ?_ ?_ (by simp at hlen; omega)
          · intro x hx
            have := hsub x (List.mem_cons_of_mem _ hx)
            rw [List.mem_cons] at this
            rcases this with rfl | h
            · have := hr'.1 x hx; rw [ltI_irrefl] at this; exact absurd this Bool.false_ne_true
            · exact h
          · intro x hx
            have hxy : x ≠ y := fun e => by
              subst e; have := hU'.1 x hx; rw [ltI_irrefl] at this; exact absurd this Bool.false_ne_true
            rcases hcomp x (List.mem_cons_of_mem _ hx) with h | ⟨h1, h2⟩
            · rw [List.mem_cons] at h
              rcases h with h | h
              · exact absurd h hxy
              · exact Or.inl h
            · exact Or.inr ⟨by simp at h1; omega, fun z hz => h2 z (List.mem_cons_of_mem _ hz)⟩
        simp [this]

/-- strictly sorted lists with the same members are equal -/
theorem sorted_unique {ord : Item → Item → Ordering} (hl : OrdLaws ord) (U V : List Item)
    (hco : ∀ x ∈ U, ∀ y ∈ U, x.id = y.id → x = y) (hU : SortedI ord U) (hV : SortedI ord V)
    (hm : ∀ x, x ∈ V ↔ x ∈ U) : V = U := by
  have := take_of_spec hl U hco V V.length hU hV (fun x hx => (hm x).mp hx) (fun x hx => Or.inl ((hm x).mpr hx)) (Nat.le_refl _)
  have hp : V.Perm U := (List.perm_ext_iff_of_nodup hV.nodup hU.nodup).mpr hm
  rw [this, List.take_of_length_le (by rw [hp.length_eq])]

end NeoFS.SearchMerge
